(* C20 — proofs about Model/Graph.v.
   Part 1: the iterator comes back on every heap in which each cycle passes through a marked object.
   Part 2: the builder stack run on the events of a call tree performs the tree's denotation.
   Part 3: deferred reference setters end up writing what an oracle would have written at once.
   Part 4: the shape of the iterator's call tree.
   Part 5: marshal + unmarshal gives an isomorphic heap.
   Part 6: the validator's marker bookkeeping accepts every call tree. *)
From CE Require Import Model.Graph.
From Coq Require Import ZifyN ZifyNat ZifyBool Lia.
Open Scope N_scope.

(* ------------------------------------------------------------------------- *)
(* basics                                                                     *)

Lemma mem_In a l : mem a l = true <-> In a l.
Proof.
  unfold mem. rewrite existsb_exists. split.
  - intros [x [Hi He]]. apply N.eqb_eq in He. subst. exact Hi.
  - intro Hi. exists a. split; [exact Hi | apply N.eqb_refl].
Qed.

Lemma label_eqb_eq a b : label_eqb a b = true <-> a = b.
Proof.
  destruct a, b; simpl; split; intro H; try discriminate; try congruence.
  - apply N.eqb_eq in H. congruence.
  - inversion H. apply N.eqb_refl.
  - apply N.eqb_eq in H. congruence.
  - inversion H. apply N.eqb_refl.
  - apply Z.eqb_eq in H. congruence.
  - inversion H. apply Z.eqb_refl.
Qed.
Lemma label_eqb_refl a : label_eqb a a = true.
Proof. apply label_eqb_eq. reflexivity. Qed.
Lemma label_eqb_neq a b : a <> b -> label_eqb a b = false.
Proof. intro H. destruct (label_eqb a b) eqn:E; [apply label_eqb_eq in E; contradiction | reflexivity]. Qed.

(* ------------------------------------------------------------------------- *)
(* Part 1: termination                                                         *)

Definition is_named (s : ist) (a : addr) : bool :=
  match named_find a (g_named s) with Some _ => true | None => false end.

(* s' knows every name s knows *)
Definition ext (s s' : ist) : Prop :=
  forall a id, named_find a (g_named s) = Some id -> named_find a (g_named s') = Some id.

Lemma ext_refl s : ext s s.
Proof. intros a id H. exact H. Qed.
Lemma ext_trans s1 s2 s3 : ext s1 s2 -> ext s2 s3 -> ext s1 s3.
Proof. intros H1 H2 a id H. apply H2, H1, H. Qed.

Lemma ext_cons s (a : addr) id nx :
  named_find a (g_named s) = None -> ext s (mkIst ((a, id) :: g_named s) nx).
Proof.
  intros Hn b idb Hb. simpl. destruct (b =? a) eqn:E.
  - apply N.eqb_eq in E. subst. congruence.
  - exact Hb.
Qed.

Section Termination.
Variable h : heap.
Variable dups : list addr.
Variable omit_never : bool.

Notation trav := (gtrav h dups omit_never).
Notation trav_kids := (gtrav_kids h omit_never).

Lemma kids_ext tr :
  (forall r s t s', tr r s = Some (t, s') -> ext s s') ->
  forall sf ks s ts s', trav_kids tr sf ks s = Some (ts, s') -> ext s s'.
Proof.
  intros Htr sf ks. induction ks as [|[l r] ks IH]; intros s ts s' H; simpl in H.
  - inversion H; subst. apply ext_refl.
  - destruct (sf && negb omit_never && empty_target h r).
    + destruct (trav_kids tr sf ks s) as [[ts0 s0]|] eqn:E; [|discriminate].
      inversion H; subst. eapply IH; eauto.
    + destruct (tr r s) as [[t1 s1]|] eqn:E1; [|discriminate].
      destruct (trav_kids tr sf ks s1) as [[ts0 s0]|] eqn:E; [|discriminate].
      inversion H; subst. eapply ext_trans; [eapply Htr; eauto | eapply IH; eauto].
Qed.

Lemma gtrav_ext fuel : forall r s t s', trav fuel r s = Some (t, s') -> ext s s'.
Proof.
  induction fuel as [|f IH]; intros r s t s' H.
  - destruct r as [a|]; simpl in H; [discriminate | inversion H; subst; apply ext_refl].
  - destruct r as [a|]; simpl in H; [| inversion H; subst; apply ext_refl].
    destruct (hget h a) as [n|]; [|discriminate].
    destruct (mem a dups).
    + destruct (named_find a (g_named s)) as [id|] eqn:En.
      * inversion H; subst. apply ext_refl.
      * destruct (trav_kids (trav f) (is_struct n) (nkids n) _) as [[ts s2]|] eqn:Ek; [|discriminate].
        inversion H; subst.
        eapply ext_trans; [apply ext_cons; exact En | eapply kids_ext; eauto].
    + destruct (trav_kids (trav f) (is_struct n) (nkids n) s) as [[ts s2]|] eqn:Ek; [|discriminate].
      inversion H; subst. eapply kids_ext; eauto.
Qed.

(* marked objects that have no name yet *)
Definition unnamed (s : ist) : nat := length (filter (fun d => negb (is_named s d)) dups).

Lemma filter_length_le {A} (p q : A -> bool) l :
  (forall x, In x l -> p x = true -> q x = true) -> (length (filter p l) <= length (filter q l))%nat.
Proof.
  induction l as [|x l IH]; intro H; simpl; [lia|].
  assert (IH' := IH (fun y Hy => H y (or_intror Hy))).
  destruct (p x) eqn:Ep.
  - rewrite (H x (or_introl eq_refl) Ep). simpl. lia.
  - destruct (q x); simpl; lia.
Qed.

Lemma filter_length_lt {A} (p q : A -> bool) l x :
  (forall y, In y l -> p y = true -> q y = true) -> In x l -> p x = false -> q x = true ->
  (length (filter p l) < length (filter q l))%nat.
Proof.
  induction l as [|y l IH]; intros H Hin Hp Hq; [destruct Hin|].
  simpl. destruct Hin as [->|Hin].
  - rewrite Hp, Hq. simpl.
    assert (length (filter p l) <= length (filter q l))%nat by (apply filter_length_le; intros; apply H; [right|]; assumption).
    lia.
  - assert (IH' := IH (fun z Hz => H z (or_intror Hz)) Hin Hp Hq).
    destruct (p y) eqn:Ep.
    + rewrite (H y (or_introl eq_refl) Ep). simpl. lia.
    + destruct (q y); simpl; lia.
Qed.

Lemma ext_is_named s s' a : ext s s' -> is_named s a = true -> is_named s' a = true.
Proof.
  unfold is_named. intros He H. destruct (named_find a (g_named s)) as [id|] eqn:E; [|discriminate].
  rewrite (He _ _ E). reflexivity.
Qed.

Lemma unnamed_mono s s' : ext s s' -> (unnamed s' <= unnamed s)%nat.
Proof.
  intro He. unfold unnamed. apply filter_length_le. intros x _ Hx. cbv beta in *.
  destruct (is_named s x) eqn:E; [|reflexivity].
  rewrite (ext_is_named _ _ _ He E) in Hx. discriminate.
Qed.

Lemma unnamed_cons s a id nx :
  mem a dups = true -> named_find a (g_named s) = None ->
  (unnamed (mkIst ((a, id) :: g_named s) nx) < unnamed s)%nat.
Proof.
  intros Hm Hn. unfold unnamed. apply filter_length_lt with (x := a).
  - intros y _ Hy. cbv beta in *. destruct (is_named s y) eqn:E; [|reflexivity].
    rewrite (ext_is_named _ _ _ (ext_cons s a id nx Hn) E) in Hy. discriminate.
  - apply mem_In. exact Hm.
  - unfold is_named. simpl. rewrite N.eqb_refl. reflexivity.
  - unfold is_named. rewrite Hn. reflexivity.
Qed.

(* a rank that drops along every edge into an unmarked object, bounded by L *)
Variable rk : addr -> nat.
Variable L : nat.
Hypothesis rk_bound : forall a, (rk a <= L)%nat.
Hypothesis rk_drop : forall a n l b,
  hget h a = Some n -> In (l, Some b) (nkids n) -> mem b dups = false -> (rk b < rk a)%nat.
(* no dangling addresses among the references of allocated objects *)
Hypothesis kids_closed : forall a n l b,
  hget h a = Some n -> In (l, Some b) (nkids n) -> exists n', hget h b = Some n'.

Definition need (s : ist) (r : ref) : nat :=
  match r with
  | None => O
  | Some a => (unnamed s * (L + 3) + (if mem a dups then 1 else rk a + 2))%nat
  end.

Lemma kids_total tr sf (P : ist -> Prop) ks :
  (forall s, P s -> forall l r, In (l, r) ks -> exists t s', tr r s = Some (t, s') /\ P s') ->
  forall s, P s -> exists ts s', trav_kids tr sf ks s = Some (ts, s') /\ P s'.
Proof.
  induction ks as [|[l r] ks IH]; intros Htr s Hs; simpl.
  - eauto.
  - assert (IH' := IH (fun s0 H0 l0 r0 Hin => Htr s0 H0 l0 r0 (or_intror Hin))).
    destruct (sf && negb omit_never && empty_target h r).
    + destruct (IH' s Hs) as [ts [s' [E HP]]]. rewrite E. eauto.
    + destruct (Htr s Hs l r (or_introl eq_refl)) as [t [s1 [E1 HP1]]]. rewrite E1.
      destruct (IH' s1 HP1) as [ts [s' [E HP]]]. rewrite E. eauto.
Qed.

Lemma gtrav_total fuel : forall r s,
  (match r with Some a => exists n, hget h a = Some n | None => True end) ->
  (need s r <= fuel)%nat -> exists t s', trav fuel r s = Some (t, s').
Proof.
  induction fuel as [|f IH]; intros r s Hr Hn.
  - destruct r as [a|]; simpl; [|eauto].
    unfold need in Hn. destruct (mem a dups); lia.
  - destruct r as [a|]; simpl; [|eauto].
    destruct Hr as [n Hn']. rewrite Hn'.
    unfold need in Hn.
    destruct (mem a dups) eqn:Ed.
    + destruct (named_find a (g_named s)) as [id|] eqn:En; [eauto|].
      set (s1 := mkIst ((a, g_next s) :: g_named s) ((g_next s + 1) mod 4294967296)).
      assert (Hlt : (unnamed s1 < unnamed s)%nat) by (apply unnamed_cons; assumption).
      destruct (kids_total (trav f) (is_struct n) (fun s' => ext s1 s') (nkids n)) with (s := s1) as [ts [s' [E _]]].
      * intros s0 H0 l r Hin.
        assert (Hu : (unnamed s0 <= unnamed s1)%nat) by (apply unnamed_mono; exact H0).
        destruct (IH r s0) as [t [s2 E2]].
        -- destruct r as [b|]; [|exact I]. eapply kids_closed; eauto.
        -- destruct r as [b|]; simpl; [|lia].
           assert (Hb := rk_bound b).
           assert ((if mem b dups then 1 else rk b + 2) <= L + 2)%nat by (destruct (mem b dups); lia).
           nia.
        -- exists t, s2. split; [exact E2|]. eapply ext_trans; [exact H0 | eapply gtrav_ext; eauto].
      * apply ext_refl.
      * fold s1. rewrite E. eauto.
    + destruct (kids_total (trav f) (is_struct n) (fun s' => ext s s') (nkids n)) with (s := s) as [ts [s' [E _]]].
      * intros s0 H0 l r Hin.
        assert (Hu : (unnamed s0 <= unnamed s)%nat) by (apply unnamed_mono; exact H0).
        destruct (IH r s0) as [t [s2 E2]].
        -- destruct r as [b|]; [|exact I]. eapply kids_closed; eauto.
        -- destruct r as [b|]; simpl; [|lia].
           destruct (mem b dups) eqn:Eb.
           ++ nia.
           ++ assert (rk b < rk a)%nat by (eapply rk_drop; eauto). nia.
        -- exists t, s2. split; [exact E2|]. eapply ext_trans; [exact H0 | eapply gtrav_ext; eauto].
      * apply ext_refl.
      * rewrite E. eauto.
Qed.

End Termination.

(* ------------------------------------------------------------------------- *)
(* the boolean hypotheses give the rank and closedness used above              *)

Lemma hget_In h a n : hget h a = Some n -> In (a, n) h.
Proof.
  induction h as [|[a' n'] h IH]; simpl; [discriminate|].
  destruct (a =? a') eqn:E.
  - intro H. inversion H; subst. apply N.eqb_eq in E. subst. left. reflexivity.
  - intro H. right. apply IH, H.
Qed.

Lemma fold_max_le {A} (g : A -> option nat) (l : list A) (m0 B : nat) :
  (m0 <= B)%nat -> (forall x v, In x l -> g x = Some v -> (v <= B)%nat) ->
  (fold_left (fun m x => match g x with Some v => Nat.max m v | None => m end) l m0 <= B)%nat.
Proof.
  revert m0. induction l as [|x l IH]; intros m0 H0 H; simpl; [exact H0|].
  apply IH.
  - destruct (g x) as [v|] eqn:E; [|exact H0]. assert (v <= B)%nat by (eapply H; [left; reflexivity | exact E]). lia.
  - intros y v Hy. apply H. right. exact Hy.
Qed.

Lemma rank_of_le h dups fuel a : (rank_of h dups fuel a <= fuel)%nat.
Proof.
  revert a. induction fuel as [|f IH]; intro a; simpl; [lia|].
  destruct (hget h a) as [n|]; [|lia].
  set (g := fun lr : label * ref => match snd lr with
                                    | Some b => if mem b dups then None else Some (S (rank_of h dups f b))
                                    | None => None end).
  assert (E : forall l m0,
             fold_left (fun m (lr : label * ref) =>
                          match snd lr with
                          | Some b => if mem b dups then m else Nat.max m (S (rank_of h dups f b))
                          | None => m end) l m0 =
             fold_left (fun m x => match g x with Some v => Nat.max m v | None => m end) l m0).
  { induction l as [|x l IHl]; intro m0; simpl; [reflexivity|]. rewrite IHl. f_equal.
    unfold g. destruct (snd x) as [b|]; [destruct (mem b dups)|]; reflexivity. }
  rewrite E. apply fold_max_le; [lia|].
  intros x v _ Hg. unfold g in Hg. destruct (snd x) as [b|]; [|discriminate].
  destruct (mem b dups); [discriminate|]. inversion Hg. specialize (IH b). lia.
Qed.

Lemma cover_ok_drop h dups :
  cover_ok h dups = true ->
  forall a n l b, hget h a = Some n -> In (l, Some b) (nkids n) -> mem b dups = false ->
    (rank_of h dups (length h) b < rank_of h dups (length h) a)%nat.
Proof.
  intros Hc a n l b Hg Hin Hm. unfold cover_ok in Hc. rewrite forallb_forall in Hc.
  specialize (Hc _ (hget_In _ _ _ Hg)). simpl in Hc. rewrite forallb_forall in Hc.
  specialize (Hc _ Hin). simpl in Hc. rewrite Hm in Hc. simpl in Hc. apply Nat.ltb_lt in Hc. exact Hc.
Qed.

Lemma closed_kids h root :
  closed h root = true ->
  forall a n l b, hget h a = Some n -> In (l, Some b) (nkids n) -> exists n', hget h b = Some n'.
Proof.
  intros Hc a n l b Hg Hin. unfold closed in Hc. rewrite forallb_forall in Hc.
  assert (Hb : In (Some b) (root :: all_kids h)).
  { right. unfold all_kids. apply in_flat_map. exists (a, n). split; [apply hget_In; exact Hg|].
    simpl. apply in_map_iff. exists (l, Some b). split; [reflexivity | exact Hin]. }
  specialize (Hc _ Hb). simpl in Hc. destruct (hget h b) as [n'|]; [eauto | discriminate].
Qed.

Lemma closed_root h root :
  closed h root = true -> match root with Some a => exists n, hget h a = Some n | None => True end.
Proof.
  intro Hc. unfold closed in Hc. rewrite forallb_forall in Hc.
  specialize (Hc root (or_introl eq_refl)). destruct root as [a|]; [|exact I].
  destruct (hget h a) as [n|]; [eauto | discriminate].
Qed.

Lemma filter_length_all {A} (p : A -> bool) l : (length (filter p l) <= length l)%nat.
Proof. induction l as [|x l IH]; simpl; [lia|]. destruct (p x); simpl; lia. Qed.

(* graph_marshal_terminates *)
Theorem graph_marshal_terminates h dups omit_never root :
  closed h root = true -> cover_ok h dups = true ->
  exists t s, gtrav h dups omit_never (graph_fuel h dups) root ist0 = Some (t, s).
Proof.
  intros Hc Hk.
  apply gtrav_total with (rk := rank_of h dups (length h)) (L := length h).
  - intro a. apply rank_of_le.
  - apply cover_ok_drop. exact Hk.
  - apply (closed_kids _ _ Hc).
  - apply closed_root. exact Hc.
  - unfold need, graph_fuel. destruct root as [a|]; [|lia].
    assert (unnamed dups ist0 <= length dups)%nat by apply filter_length_all.
    assert (rank_of h dups (length h) a <= length h)%nat by apply rank_of_le.
    destruct (mem a dups); nia.
Qed.

Corollary iterate_graph_terminates h dups omit_never root :
  closed h root = true -> cover_ok h dups = true ->
  exists es, iterate_graph h dups omit_never root = Some es.
Proof.
  intros Hc Hk. destruct (graph_marshal_terminates h dups omit_never root Hc Hk) as [t [s E]].
  unfold iterate_graph, iterate_tree. rewrite E. eauto.
Qed.

(* more nested calls never change an answer *)
Section Mono.
Variable h : heap.
Variable dups : list addr.
Variable omit_never : bool.

Lemma kids_mono tr tr' :
  (forall r s x, tr r s = Some x -> tr' r s = Some x) ->
  forall sf ks s x, gtrav_kids h omit_never tr sf ks s = Some x -> gtrav_kids h omit_never tr' sf ks s = Some x.
Proof.
  intros Htr sf ks. induction ks as [|[l r] ks IH]; intros s x H; simpl in *; [exact H|].
  destruct (sf && negb omit_never && empty_target h r).
  - destruct (gtrav_kids h omit_never tr sf ks s) as [[ts s']|] eqn:E; [|discriminate].
    rewrite (IH _ _ E). exact H.
  - destruct (tr r s) as [[t s1]|] eqn:E1; [|discriminate]. rewrite (Htr _ _ _ E1).
    destruct (gtrav_kids h omit_never tr sf ks s1) as [[ts s']|] eqn:E; [|discriminate].
    rewrite (IH _ _ E). exact H.
Qed.

Lemma gtrav_S f a s :
  gtrav h dups omit_never (S f) (Some a) s =
  match hget h a with
  | None => None
  | Some n =>
      if mem a dups then
        match named_find a (g_named s) with
        | Some id => Some (TRef id, s)
        | None =>
            match gtrav_kids h omit_never (gtrav h dups omit_never f) (is_struct n) (nkids n)
                             (mkIst ((a, g_next s) :: g_named s) ((g_next s + 1) mod 4294967296)) with
            | Some (ts, s') => Some (TNode a (Some (g_next s)) (nkind n) ts, s')
            | None => None
            end
        end
      else
        match gtrav_kids h omit_never (gtrav h dups omit_never f) (is_struct n) (nkids n) s with
        | Some (ts, s') => Some (TNode a None (nkind n) ts, s')
        | None => None
        end
  end.
Proof. reflexivity. Qed.

Lemma gtrav_mono_S fuel : forall r s x,
  gtrav h dups omit_never fuel r s = Some x -> gtrav h dups omit_never (S fuel) r s = Some x.
Proof.
  induction fuel as [|f IH]; intros r s x H.
  - destruct r as [a|]; simpl in *; [discriminate | exact H].
  - destruct r as [a|]; [|exact H].
    rewrite gtrav_S in H. rewrite gtrav_S.
    destruct (hget h a) as [n|]; [|discriminate].
    destruct (mem a dups).
    + destruct (named_find a (g_named s)); [exact H|].
      destruct (gtrav_kids h omit_never (gtrav h dups omit_never f) (is_struct n) (nkids n) _) as [[ts s']|] eqn:E; [|discriminate].
      rewrite (kids_mono _ _ IH _ _ _ _ E). exact H.
    + destruct (gtrav_kids h omit_never (gtrav h dups omit_never f) (is_struct n) (nkids n) s) as [[ts s']|] eqn:E; [|discriminate].
      rewrite (kids_mono _ _ IH _ _ _ _ E). exact H.
Qed.

Lemma gtrav_mono fuel fuel' r s x :
  (fuel <= fuel')%nat -> gtrav h dups omit_never fuel r s = Some x -> gtrav h dups omit_never fuel' r s = Some x.
Proof.
  intro Hle. induction Hle as [|m Hle IH]; intro H; [exact H|]. apply gtrav_mono_S, IH, H.
Qed.
End Mono.

(* ------------------------------------------------------------------------- *)
(* Part 2: the builder stack on the events of a call tree                      *)

Section TmInd.
Variable P : tm -> Prop.
Hypothesis HOmit : P TOmit.
Hypothesis HNull : P TNull.
Hypothesis HRef : forall id, P (TRef id).
Hypothesis HNode : forall a m k kids, Forall (fun lt : label * tm => P (snd lt)) kids -> P (TNode a m k kids).
Fixpoint tm_ind' (t : tm) : P t :=
  match t with
  | TOmit => HOmit
  | TNull => HNull
  | TRef id => HRef id
  | TNode a m k kids =>
      HNode a m k kids
        ((fix go (l : list (label * tm)) : Forall (fun lt : label * tm => P (snd lt)) l :=
            match l with
            | [] => Forall_nil _
            | x :: r => Forall_cons x (tm_ind' (snd x)) (go r)
            end) kids)
  end.
End TmInd.

Lemma field_name_not_payload l l' t' :
  field_find (field_label_name l) 0 fields = Some (l', t') -> bytes_eqb (field_label_name l) payload_name = false.
Proof.
  destruct l as [i|i|k]; simpl; try discriminate.
  destruct (N.to_nat i) as [|[|[|[|[|j]]]]]; simpl; try reflexivity; try discriminate.
  destruct j; discriminate.
Qed.

Arguments field_find : simpl never.
Arguments field_label_name : simpl never.

(* what a frame does with a reference / how a container frame receives the label of its next child *)
Definition frame_addr (f : bframe) : option addr :=
  match f with FStructKey p | FSlice p _ | FMapKey p => Some p | _ => None end.
Definition kid_frame (f : bframe) (l : label) : option bframe :=
  match f, l with
  | FStructKey p, LF _ =>
      match field_find (field_label_name l) 0 fields with
      | Some (l', t') => Some (FStructVal p l' t')
      | None => None
      end
  | FSlice p n, LI _ => Some (FSlice p n)
  | FMapKey p, LK k => Some (FMapVal p k)
  | _, _ => None
  end.
Definition kind_begin (k : kind) : event := match k with KSlice => EList | _ => EMap end.
Definition after_begin (k : kind) (cf : bframe) (s : bst) : option bst :=
  match k, cf with
  | KStruct v, FStructKey p => Some (b_payload p v s)
  | KSlice, FSlice _ _ => Some s
  | KMap, FMapKey _ => Some s
  | _, _ => None
  end.

Section Eff.
(* the two operations of the reference filler, abstracted *)
Variable oref : bytes -> slot -> bst -> bst.
Variable omark : bytes -> addr -> bst -> bst.

Definition ref_step (id : bytes) (f : bframe) (s : bst) : option (bframe * bst) :=
  match f with
  | FStructVal p l _ => Some (FStructKey p, oref id (p, l) s)
  | FSlice p n => Some (FSlice p (n + 1), oref id (p, LI n) (b_set (p, LI n) None s))
  | FMapVal p k => Some (FMapKey p, oref id (p, LK k) s)
  | _ => None
  end.

Section Kids.
Variable ev : tm -> bframe -> bst -> option (bframe * bst).
Fixpoint eff_kids (ks : list (label * tm)) (cf : bframe) (s : bst) : option (bframe * bst) :=
  match ks with
  | [] => Some (cf, s)
  | (l, t') :: r =>
      if is_omit t' then eff_kids r cf s
      else match kid_frame cf l with
           | None => None
           | Some vf => match ev t' vf s with
                        | Some (cf', s') => eff_kids r cf' s'
                        | None => None
                        end
           end
  end.
End Kids.

(* the denotation of a call tree delivered to the frame f *)
Fixpoint eff_val (t : tm) (f : bframe) (s : bst) : option (bframe * bst) :=
  match t with
  | TOmit => None
  | TNull => deliver None f s
  | TRef id => ref_step (dec_bytes id) f s
  | TNode _ m k kids =>
      match frame_ty f with
      | None => None
      | Some ty =>
          match begin_container ty (kind_begin k) s with
          | None => None
          | Some (cf, s1) =>
              match after_begin k cf s1 with
              | None => None
              | Some s1' =>
                  match eff_kids eff_val kids cf s1' with
                  | None => None
                  | Some (cf', s2) =>
                      match frame_addr cf' with
                      | None => None
                      | Some p => deliver (Some p) f (match m with Some id => omark (dec_bytes id) p s2 | None => s2 end)
                      end
                  end
              end
          end
      end
  end.
End Eff.

Definition kids_events (kids : list (label * tm)) : list event :=
  flat_map (fun lt : label * tm => match lt with (l, t') => if is_omit t' then [] else label_events l ++ flatten t' end) kids.

Lemma flatten_node a m k kids :
  flatten (TNode a m k kids) =
  (match m with Some id => [EMarker (dec_bytes id)] | None => [] end) ++ kind_events k ++ kids_events kids ++ [EEnd].
Proof. reflexivity. Qed.

Lemma brun_app st es1 es2 :
  brun st (es1 ++ es2) = match brun st es1 with Some st' => brun st' es2 | None => None end.
Proof.
  revert st. induction es1 as [|e es1 IH]; intro st; simpl; [reflexivity|].
  destruct (bstep st e); [apply IH | reflexivity].
Qed.

(* container frames stay container frames of the same object *)
Definition container_frame (f : bframe) : bool :=
  match f with FStructKey _ | FSlice _ _ | FMapKey _ => true | _ => false end.

Lemma deliver_frame v f s f' s' :
  deliver v f s = Some (f', s') ->
  frame_ty f <> None /\ (f = FTop /\ f' = FTop \/ container_frame f' = true).
Proof.
  destruct f; simpl; intro H; try discriminate.
  - inversion H; subst. split; [discriminate | left; auto].
  - destruct v, t; inversion H; subst; split; try discriminate; right; reflexivity.
  - inversion H; subst. split; [discriminate | right; reflexivity].
  - inversion H; subst. split; [discriminate | right; reflexivity].
Qed.

Lemma kid_frame_ty cf l vf : kid_frame cf l = Some vf -> frame_ty vf <> None /\ vf <> FTop /\ container_frame cf = true.
Proof.
  destruct cf, l; simpl; intro H; try discriminate.
  - destruct (field_find _ 0 fields) as [[l' t']|]; [|discriminate]. inversion H; subst. simpl. repeat split; discriminate.
  - inversion H; subst. simpl. repeat split; discriminate.
  - inversion H; subst. simpl. repeat split; discriminate.
Qed.

Lemma label_step cf l vf stk s :
  kid_frame cf l = Some vf ->
  brun (cf :: stk, s) (label_events l) = Some (vf :: stk, s).
Proof.
  destruct cf, l; simpl; intro H; try discriminate.
  - destruct (field_find _ 0 fields) as [[l' t']|] eqn:E; [|discriminate]. inversion H; subst.
    rewrite (field_name_not_payload _ _ _ E). reflexivity.
  - inversion H; subst. reflexivity.
  - inversion H; subst. reflexivity.
Qed.

Lemma brun_eff t :
  forall f s f' s' stk rest,
    eff_val b_ref b_mark t f s = Some (f', s') ->
    brun (f :: stk, s) (flatten t ++ rest) = brun (f' :: stk, s') rest.
Proof.
  induction t as [| |id|a m k kids IHk] using tm_ind'; intros f s f' s' stk rest H.
  - discriminate.
  - simpl in H. simpl. rewrite H. reflexivity.
  - simpl in H. simpl. unfold ref_step in H.
    destruct f; try discriminate; inversion H; subst; reflexivity.
  - cbn [eff_val] in H.
    destruct (frame_ty f) as [ty|] eqn:Ety; [|discriminate].
    destruct (begin_container ty (kind_begin k) s) as [[cf s1]|] eqn:Eb; [|discriminate].
    destruct (after_begin k cf s1) as [s1'|] eqn:Ea; [|discriminate].
    destruct (eff_kids (eff_val b_ref b_mark) kids cf s1') as [[cf' s2]|] eqn:Ek; [|discriminate].
    destruct (frame_addr cf') as [p|] eqn:Ep; [|discriminate].
    (* the children *)
    assert (Hkids : forall stk' rest',
               brun (cf :: stk', s1') (kids_events kids ++ rest') = brun (cf' :: stk', s2) rest').
    { clear H Eb Ea Ep. revert cf s1' Ek.
      induction kids as [|[l t'] kids IHl]; intros cf s1' Ek stk' rest'; simpl in Ek.
      - inversion Ek; subst. reflexivity.
      - inversion IHk as [|x xs Hx Hxs]; subst. simpl in Hx.
        unfold kids_events. simpl. fold (kids_events kids).
        destruct (is_omit t') eqn:Eo.
        + simpl. apply IHl; assumption.
        + destruct (kid_frame cf l) as [vf|] eqn:Ev; [|discriminate].
          destruct (eff_val b_ref b_mark t' vf s1') as [[cf1 s1'']|] eqn:E1; [|discriminate].
          rewrite <- !app_assoc. rewrite brun_app. rewrite (label_step _ _ _ _ _ Ev).
          rewrite (Hx _ _ _ _ stk' _ E1). apply IHl; assumption. }
    (* the frame on which the container sits *)
    assert (Hbegin : forall stk0, value_frame stk0 = Some f ->
               brun (stk0, s) (kind_events k) = Some (cf :: stk0, s1')).
    { intros stk0 Hv. unfold begin_container, b_alloc in Eb.
      destruct k as [v| |]; destruct ty; cbn [kind_begin] in Eb; try discriminate;
        inversion Eb; subst; cbn [after_begin] in Ea; try discriminate; inversion Ea; subst;
        cbn [kind_events brun bstep]; rewrite Hv, Ety; cbn [begin_container b_alloc];
        [ change (AT_String =? AT_String) with true; cbn [negb bytes_eqb list_eqb payload_name N.eqb Pos.eqb andb]; reflexivity
        | reflexivity | reflexivity ]. }
    assert (Hcf' : container_frame cf' = true).
    { destruct cf'; simpl in Ep; try discriminate; reflexivity. }
    assert (Hfm : forall id0, f <> FMarker id0).
    { intros id0 ->. simpl in Ety. discriminate. }
    rewrite flatten_node. destruct m as [id|].
    + rewrite <- !app_assoc. simpl ((_ :: _) ++ _).
      cbn [brun bstep]. rewrite Ety.
      rewrite brun_app. rewrite (Hbegin (FMarker (dec_bytes id) :: f :: stk) eq_refl).
      rewrite brun_app. rewrite <- (app_nil_r (kids_events kids)) at 1.
      rewrite Hkids. cbn [brun]. cbn [app brun].
      destruct cf'; simpl in Ep; try discriminate; inversion Ep; subst; cbn [bstep]; rewrite H; reflexivity.
    + simpl ([] ++ _). rewrite <- !app_assoc.
      rewrite brun_app. rewrite (Hbegin (f :: stk)).
      2:{ destruct f; try reflexivity. exfalso. eapply Hfm; reflexivity. }
      rewrite brun_app. rewrite <- (app_nil_r (kids_events kids)) at 1.
      rewrite Hkids. cbn [brun]. cbn [app brun].
      destruct cf'; simpl in Ep; try discriminate; inversion Ep; subst; cbn [bstep];
        (destruct f; try (exfalso; eapply Hfm; reflexivity); rewrite H; reflexivity).
Qed.

Lemma build_graph_eff t s' r :
  eff_val b_ref b_mark t FTop bst0 = Some (FTop, s') -> b_root s' = Some r ->
  build_graph (doc_events t) = RtOk (b_heap s') r.
Proof.
  intros H Hr. unfold build_graph, doc_events. cbn [brun bstep].
  rewrite (brun_eff t FTop bst0 FTop s' [] [EEndDoc] H). cbn [brun bstep]. rewrite Hr. reflexivity.
Qed.

(* ------------------------------------------------------------------------- *)
(* Part 3: deferred setters against an oracle                                  *)

Lemma hget_hupd_same h a f : hget (hupd h a f) a = option_map f (hget h a).
Proof.
  induction h as [|[a' n] h IH]; simpl; [reflexivity|].
  destruct (a =? a') eqn:E; simpl; rewrite E; [reflexivity | exact IH].
Qed.
Lemma hget_hupd_other h a b f : a <> b -> hget (hupd h a f) b = hget h b.
Proof.
  intro Hne. induction h as [|[a' n] h IH]; simpl; [reflexivity|].
  destruct (a =? a') eqn:E; simpl.
  - apply N.eqb_eq in E. subst. destruct (b =? a') eqn:E2; [apply N.eqb_eq in E2; congruence | reflexivity].
  - destruct (b =? a'); [reflexivity | exact IH].
Qed.
Lemma kget_kset_same l v ks : kget l (kset l v ks) = Some v.
Proof.
  induction ks as [|[l' r] ks IH]; simpl.
  - rewrite label_eqb_refl. reflexivity.
  - destruct (label_eqb l l') eqn:E; simpl; rewrite E; [reflexivity | exact IH].
Qed.
Lemma kget_kset_other l l' v ks : l <> l' -> kget l' (kset l v ks) = kget l' ks.
Proof.
  intro Hne. induction ks as [|[l0 r] ks IH]; simpl.
  - rewrite label_eqb_neq; [reflexivity | congruence].
  - destruct (label_eqb l l0) eqn:E; simpl.
    + apply label_eqb_eq in E. subst. rewrite (label_eqb_neq l' l0); [reflexivity | congruence].
    + destruct (label_eqb l' l0); [reflexivity | exact IH].
Qed.

Lemma bytes_eqb_refl b : bytes_eqb b b = true.
Proof. apply bytes_eqb_eq. reflexivity. Qed.
Lemma bytes_eqb_neq a b : a <> b -> bytes_eqb a b = false.
Proof. intro H. destruct (bytes_eqb a b) eqn:E; [apply bytes_eqb_eq in E; contradiction | reflexivity]. Qed.

Definition slot_of (f : bframe) : option slot :=
  match f with
  | FStructVal p l _ => Some (p, l)
  | FSlice p n => Some (p, LI n)
  | FMapVal p k => Some (p, LK k)
  | _ => None
  end.
Definition next_frame (f : bframe) : bframe :=
  match f with
  | FStructVal p _ _ => FStructKey p
  | FSlice p n => FSlice p (n + 1)
  | FMapVal p k => FMapKey p
  | f => f
  end.

Lemma deliver_next v f s f' s' : deliver v f s = Some (f', s') -> f' = next_frame f.
Proof.
  destruct f; simpl; intro H; try discriminate; try (inversion H; subst; reflexivity).
  destruct v, t; inversion H; subst; reflexivity.
Qed.
Lemma eff_val_next oref omark t f s f' s' : eff_val oref omark t f s = Some (f', s') -> f' = next_frame f.
Proof.
  destruct t; cbn [eff_val]; intro H; try discriminate.
  - eapply deliver_next; eauto.
  - unfold ref_step in H. destruct f; try discriminate; inversion H; subst; reflexivity.
  - destruct (frame_ty f); [|discriminate].
    destruct (begin_container _ _ _) as [[cf s1]|]; [|discriminate].
    destruct (after_begin _ _ _); [|discriminate].
    destruct (eff_kids _ _ _ _) as [[cf' s2]|]; [|discriminate].
    destruct (frame_addr cf'); [|discriminate]. eapply deliver_next; eauto.
Qed.

Lemma NoDup_app_single {A} (l : list A) x : NoDup l -> ~ In x l -> NoDup (l ++ [x]).
Proof.
  induction l as [|y l IH]; intros Hn Hx; simpl.
  - constructor; [intros [] | constructor].
  - inversion Hn; subst. constructor.
    + intro Hin. apply in_app_or in Hin. destruct Hin as [Hin|[->|[]]]; [contradiction|]. apply Hx. left. reflexivity.
    + apply IH; [assumption|]. intro. apply Hx. right. assumption.
Qed.

Section Sim.
Variable M : bytes -> option addr.

Definition oref_i (id : bytes) (sl : slot) (s : bst) : bst := b_set sl (M id) s.
Definition omark_i (id : bytes) (x : addr) (s : bst) : bst := s.

Definition pending (s : bst) (sl : slot) : Prop := exists id, In (id, sl) (b_pend s).

Record Sim (sr si : bst) : Prop := mkSim {
  sim_next : b_next sr = b_next si;
  sim_root : b_root sr = b_root si;
  sim_dom : forall p, match hget (b_heap sr) p, hget (b_heap si) p with
                      | Some nr, Some ni => nkind nr = nkind ni
                      | None, None => True
                      | _, _ => False
                      end;
  sim_slot : forall p l nr ni, hget (b_heap sr) p = Some nr -> hget (b_heap si) p = Some ni ->
               ~ pending sr (p, l) -> kget l (nkids nr) = kget l (nkids ni);
  sim_pend : forall id p l, In (id, (p, l)) (b_pend sr) ->
               bfind id (b_marked sr) = None /\
               exists ni, hget (b_heap si) p = Some ni /\ kget l (nkids ni) = Some (M id);
  sim_marked : forall id x, bfind id (b_marked sr) = Some x -> M id = Some x;
  sim_nodup : NoDup (map snd (b_pend sr));
  sim_alloc : forall p n, hget (b_heap sr) p = Some n -> p < b_next sr;
}.

Lemma sim_exists_i sr si p n : Sim sr si -> hget (b_heap sr) p = Some n -> exists ni, hget (b_heap si) p = Some ni.
Proof.
  intros S H. assert (D := sim_dom _ _ S p). rewrite H in D.
  destruct (hget (b_heap si) p); [eauto | contradiction].
Qed.
Lemma sim_exists_r sr si p n : Sim sr si -> hget (b_heap si) p = Some n -> exists nr, hget (b_heap sr) p = Some nr.
Proof.
  intros S H. assert (D := sim_dom _ _ S p). rewrite H in D.
  destruct (hget (b_heap sr) p); [eauto | contradiction].
Qed.
Lemma sim_fresh sr si sl : Sim sr si -> b_next sr <= fst sl -> ~ pending sr sl.
Proof.
  intros S Hle [id Hin]. destruct sl as [p l].
  destruct (sim_pend _ _ S _ _ _ Hin) as [_ [ni [Hi _]]].
  destruct (sim_exists_r _ _ _ _ S Hi) as [nr Hr].
  assert (p < b_next sr) by (eapply sim_alloc; eauto). simpl in Hle. lia.
Qed.

(* allocation *)
Lemma sim_alloc_op sr si k ks :
  Sim sr si -> fst (b_alloc k ks sr) = fst (b_alloc k ks si) /\ Sim (snd (b_alloc k ks sr)) (snd (b_alloc k ks si)).
Proof.
  intro S. unfold b_alloc. simpl. split; [apply (sim_next _ _ S)|].
  assert (Hn := sim_next _ _ S).
  constructor; simpl.
  - rewrite Hn. reflexivity.
  - apply (sim_root _ _ S).
  - intro p. rewrite <- Hn. destruct (p =? b_next sr); [reflexivity | apply (sim_dom _ _ S)].
  - intros p l nr ni. rewrite <- Hn. destruct (p =? b_next sr) eqn:E.
    + intros H1 H2 _. inversion H1; inversion H2; subst. reflexivity.
    + intros H1 H2 Hp. eapply (sim_slot _ _ S); eauto.
  - intros id p l Hin. destruct (sim_pend _ _ S _ _ _ Hin) as [Hm [ni [Hi Hk]]]. split; [exact Hm|].
    rewrite <- Hn. destruct (p =? b_next sr) eqn:E.
    + apply N.eqb_eq in E. subst. destruct (sim_exists_r _ _ _ _ S Hi) as [nr Hr].
      assert (b_next sr < b_next sr) by (eapply sim_alloc; eauto). lia.
    + eauto.
  - apply (sim_marked _ _ S).
  - apply (sim_nodup _ _ S).
  - intros p n. destruct (p =? b_next sr) eqn:E.
    + apply N.eqb_eq in E. intros _. lia.
    + intro H. assert (p < b_next sr) by (eapply sim_alloc; eauto). lia.
Qed.

(* the same write on both sides, to a slot no setter is waiting for *)
Lemma sim_set sr si sl v : Sim sr si -> ~ pending sr sl -> Sim (b_set sl v sr) (b_set sl v si).
Proof.
  intros S Hnp. destruct sl as [p0 l0]. unfold b_set. simpl.
  constructor; simpl.
  - apply (sim_next _ _ S).
  - apply (sim_root _ _ S).
  - intro p. assert (D := sim_dom _ _ S p). destruct (N.eq_dec p0 p) as [->|Hne].
    + rewrite !hget_hupd_same. destruct (hget (b_heap sr) p), (hget (b_heap si) p); simpl; auto.
    + rewrite !hget_hupd_other by exact Hne. exact D.
  - intros p l nr ni. destruct (N.eq_dec p0 p) as [->|Hne].
    + rewrite !hget_hupd_same.
      destruct (hget (b_heap sr) p) as [nr0|] eqn:Er; [|discriminate].
      destruct (hget (b_heap si) p) as [ni0|] eqn:Ei; [|discriminate].
      simpl. intros H1 H2 Hp. inversion H1; inversion H2; subst. simpl.
      destruct (label_eqb l0 l) eqn:El.
      * apply label_eqb_eq in El. subst. rewrite !kget_kset_same. reflexivity.
      * assert (l0 <> l) by (intro; subst; rewrite label_eqb_refl in El; discriminate).
        rewrite !kget_kset_other by assumption. eapply (sim_slot _ _ S); eauto.
    + rewrite !hget_hupd_other by exact Hne. apply (sim_slot _ _ S).
  - intros id p l Hin. destruct (sim_pend _ _ S _ _ _ Hin) as [Hm [ni [Hi Hk]]]. split; [exact Hm|].
    destruct (N.eq_dec p0 p) as [->|Hne].
    + rewrite hget_hupd_same, Hi. simpl. eexists. split; [reflexivity|]. simpl.
      rewrite kget_kset_other; [exact Hk|]. intros ->. apply Hnp. exists id. exact Hin.
    + rewrite hget_hupd_other by exact Hne. eauto.
  - apply (sim_marked _ _ S).
  - apply (sim_nodup _ _ S).
  - intros p n. destruct (N.eq_dec p0 p) as [->|Hne].
    + rewrite hget_hupd_same. destruct (hget (b_heap sr) p) eqn:E; [|discriminate]. intros _. eapply sim_alloc; eauto.
    + rewrite hget_hupd_other by exact Hne. apply (sim_alloc _ _ S).
Qed.

Lemma sim_payload sr si p0 z : Sim sr si -> Sim (b_payload p0 z sr) (b_payload p0 z si).
Proof.
  intro S. unfold b_payload. constructor; simpl.
  - apply (sim_next _ _ S).
  - apply (sim_root _ _ S).
  - intro p. assert (D := sim_dom _ _ S p). destruct (N.eq_dec p0 p) as [->|Hne].
    + rewrite !hget_hupd_same. destruct (hget (b_heap sr) p), (hget (b_heap si) p); simpl; auto.
    + rewrite !hget_hupd_other by exact Hne. exact D.
  - intros p l nr ni. destruct (N.eq_dec p0 p) as [->|Hne].
    + rewrite !hget_hupd_same.
      destruct (hget (b_heap sr) p) as [nr0|] eqn:Er; [|discriminate].
      destruct (hget (b_heap si) p) as [ni0|] eqn:Ei; [|discriminate].
      simpl. intros H1 H2 Hp. inversion H1; inversion H2; subst. simpl. eapply (sim_slot _ _ S); eauto.
    + rewrite !hget_hupd_other by exact Hne. apply (sim_slot _ _ S).
  - intros id p l Hin. destruct (sim_pend _ _ S _ _ _ Hin) as [Hm [ni [Hi Hk]]]. split; [exact Hm|].
    destruct (N.eq_dec p0 p) as [->|Hne].
    + rewrite hget_hupd_same, Hi. simpl. eexists. split; [reflexivity|]. exact Hk.
    + rewrite hget_hupd_other by exact Hne. eauto.
  - apply (sim_marked _ _ S).
  - apply (sim_nodup _ _ S).
  - intros p n. destruct (N.eq_dec p0 p) as [->|Hne].
    + rewrite hget_hupd_same. destruct (hget (b_heap sr) p) eqn:E; [|discriminate]. intros _. eapply sim_alloc; eauto.
    + rewrite hget_hupd_other by exact Hne. apply (sim_alloc _ _ S).
Qed.

Lemma sim_set_root sr si v :
  Sim sr si ->
  Sim (mkB (b_heap sr) (b_next sr) (b_marked sr) (b_pend sr) (Some v))
      (mkB (b_heap si) (b_next si) (b_marked si) (b_pend si) (Some v)).
Proof.
  intro S. constructor; simpl; try apply S. reflexivity.
Qed.

(* a reference: resolved at once on both sides, or deferred on the real side *)
Lemma sim_ref sr si id sl :
  Sim sr si -> ~ pending sr sl -> (exists n, hget (b_heap sr) (fst sl) = Some n) ->
  Sim (b_ref id sl sr) (oref_i id sl si).
Proof.
  intros S Hnp [n0 Hn0]. unfold b_ref, oref_i.
  destruct (bfind id (b_marked sr)) as [x|] eqn:Em.
  - rewrite (sim_marked _ _ S _ _ Em). apply sim_set; assumption.
  - destruct sl as [p0 l0]. simpl in Hn0.
    destruct (sim_exists_i _ _ _ _ S Hn0) as [ni0 Hi0].
    unfold b_set. constructor; simpl.
    + apply (sim_next _ _ S).
    + apply (sim_root _ _ S).
    + intro p. assert (D := sim_dom _ _ S p). destruct (N.eq_dec p0 p) as [->|Hne].
      * rewrite hget_hupd_same. destruct (hget (b_heap sr) p), (hget (b_heap si) p); simpl; auto.
      * rewrite hget_hupd_other by exact Hne. exact D.
    + intros p l nr ni H1 H2 Hp.
      assert (Hp' : ~ pending sr (p, l)).
      { intros [id' Hin]. apply Hp. exists id'. simpl. apply in_or_app. left. exact Hin. }
      destruct (N.eq_dec p0 p) as [->|Hne].
      * rewrite hget_hupd_same, Hi0 in H2. simpl in H2. inversion H2; subst. simpl.
        assert (l0 <> l).
        { intros ->. apply Hp. exists id. simpl. apply in_or_app. right. left. reflexivity. }
        rewrite kget_kset_other by assumption. eapply (sim_slot _ _ S); eauto.
      * rewrite hget_hupd_other in H2 by exact Hne. eapply (sim_slot _ _ S); eauto.
    + intros id' p l Hin. apply in_app_or in Hin. destruct Hin as [Hin|[Heq|[]]].
      * destruct (sim_pend _ _ S _ _ _ Hin) as [Hm [ni [Hi Hk]]]. split; [exact Hm|].
        destruct (N.eq_dec p0 p) as [->|Hne].
        -- rewrite hget_hupd_same, Hi. simpl. eexists. split; [reflexivity|]. simpl.
           rewrite kget_kset_other; [exact Hk|]. intros ->. apply Hnp. exists id'. exact Hin.
        -- rewrite hget_hupd_other by exact Hne. eauto.
      * inversion Heq; subst. split; [exact Em|].
        rewrite hget_hupd_same, Hi0. simpl. eexists. split; [reflexivity|]. simpl. apply kget_kset_same.
    + apply (sim_marked _ _ S).
    + rewrite map_app. simpl. apply NoDup_app_single.
      * apply (sim_nodup _ _ S).
      * intro Hin. apply in_map_iff in Hin. destruct Hin as [[id' sl'] [Heq Hin]]. simpl in Heq. subst.
        apply Hnp. exists id'. exact Hin.
    + apply (sim_alloc _ _ S).
Qed.

(* NotifyMarker: the setters that were waiting for id run now *)
Definition resolve (id : bytes) (x : addr) (pend : list (bytes * slot)) (s : bst) : bst :=
  fold_left (fun st (e : bytes * slot) => if bytes_eqb id (fst e) then b_set (snd e) (Some x) st else st) pend s.
Definition hit (id : bytes) (pend : list (bytes * slot)) (p : addr) (l : label) : bool :=
  existsb (fun e : bytes * slot => bytes_eqb id (fst e) && (fst (snd e) =? p) && label_eqb (snd (snd e)) l) pend.

Lemma resolve_fields id x pend : forall s,
  b_next (resolve id x pend s) = b_next s /\ b_marked (resolve id x pend s) = b_marked s /\
  b_pend (resolve id x pend s) = b_pend s /\ b_root (resolve id x pend s) = b_root s.
Proof.
  induction pend as [|e pend IH]; intro s; simpl; [auto|].
  destruct (IH (if bytes_eqb id (fst e) then b_set (snd e) (Some x) s else s)) as [H1 [H2 [H3 H4]]].
  unfold resolve in *. rewrite H1, H2, H3, H4. destruct (bytes_eqb id (fst e)); simpl; auto.
Qed.

Lemma resolve_heap id x pend : forall s p,
  match hget (b_heap (resolve id x pend s)) p, hget (b_heap s) p with
  | Some n', Some n => nkind n' = nkind n /\
                       forall l, kget l (nkids n') = if hit id pend p l then Some (Some x) else kget l (nkids n)
  | None, None => True
  | _, _ => False
  end.
Proof.
  induction pend as [|e pend IH]; intros s p; simpl.
  - destruct (hget (b_heap s) p); auto.
  - specialize (IH (if bytes_eqb id (fst e) then b_set (snd e) (Some x) s else s) p).
    unfold resolve in *. simpl.
    destruct (bytes_eqb id (fst e)) eqn:Eid; simpl.
    + destruct e as [id' [p0 l0]]. simpl in *. unfold b_set in IH. simpl in IH.
      destruct (N.eq_dec p0 p) as [->|Hne].
      * rewrite N.eqb_refl. rewrite hget_hupd_same in IH.
        destruct (hget (b_heap s) p) as [n|]; simpl in IH.
        -- destruct (hget (b_heap (fold_left _ pend _)) p) as [n'|]; [|contradiction].
           destruct IH as [Hk Hl]. split; [exact Hk|]. intro l. rewrite Hl. simpl.
           destruct (hit id pend p l); [rewrite orb_true_r; reflexivity|]. rewrite orb_false_r.
           destruct (label_eqb l0 l) eqn:El.
           ++ apply label_eqb_eq in El. subst. apply kget_kset_same.
           ++ apply kget_kset_other. intros ->. rewrite label_eqb_refl in El. discriminate.
        -- exact IH.
      * rewrite hget_hupd_other in IH by exact Hne.
        assert (E : (p0 =? p) = false) by (apply N.eqb_neq; exact Hne). rewrite E. simpl. exact IH.
    + exact IH.
Qed.

Lemma NoDup_map_filter {A B} (f : A -> B) (q : A -> bool) l : NoDup (map f l) -> NoDup (map f (filter q l)).
Proof.
  induction l as [|x l IH]; simpl; intro H; [constructor|].
  inversion H; subst. destruct (q x); simpl; [|apply IH; assumption].
  constructor; [|apply IH; assumption].
  intro Hin. apply in_map_iff in Hin. destruct Hin as [y [Hy Hin]]. apply filter_In in Hin. destruct Hin as [Hin _].
  apply H2. rewrite <- Hy. apply in_map. exact Hin.
Qed.

Lemma hit_pending id sr p l : hit id (b_pend sr) p l = true -> In (id, (p, l)) (b_pend sr).
Proof.
  unfold hit. rewrite existsb_exists. intros [[id' [p' l']] [Hin He]]. simpl in He.
  apply andb_true_iff in He. destruct He as [He Hl]. apply andb_true_iff in He. destruct He as [Hi Hp].
  apply bytes_eqb_eq in Hi. apply N.eqb_eq in Hp. apply label_eqb_eq in Hl. subst. exact Hin.
Qed.
Lemma pending_hit id sr p l : In (id, (p, l)) (b_pend sr) -> hit id (b_pend sr) p l = true.
Proof.
  intro Hin. unfold hit. rewrite existsb_exists. exists (id, (p, l)). split; [exact Hin|]. simpl.
  rewrite bytes_eqb_refl, N.eqb_refl, label_eqb_refl. reflexivity.
Qed.

Lemma b_mark_unfold id x s :
  b_mark id x s =
  mkB (b_heap (resolve id x (b_pend s) s)) (b_next s) ((id, x) :: b_marked s)
      (filter (fun e : bytes * slot => negb (bytes_eqb id (fst e))) (b_pend s)) (b_root s).
Proof.
  unfold b_mark. fold (resolve id x (b_pend s) s).
  destruct (resolve_fields id x (b_pend s) s) as [H1 [_ [_ H4]]]. rewrite H1, H4. reflexivity.
Qed.

Lemma sim_mark sr si id x :
  Sim sr si -> M id = Some x -> bfind id (b_marked sr) = None -> Sim (b_mark id x sr) (omark_i id x si).
Proof.
  intros S HM Hun. unfold omark_i. rewrite b_mark_unfold.
  constructor; simpl.
  - apply (sim_next _ _ S).
  - apply (sim_root _ _ S).
  - intro p. assert (R := resolve_heap id x (b_pend sr) sr p). assert (D := sim_dom _ _ S p).
    destruct (hget (b_heap (resolve id x (b_pend sr) sr)) p) as [n'|], (hget (b_heap sr) p) as [n|]; try contradiction.
    + destruct (hget (b_heap si) p); [|contradiction]. destruct R as [R _]. congruence.
    + exact D.
  - intros p l nr ni H1 H2 Hp.
    assert (R := resolve_heap id x (b_pend sr) sr p). rewrite H1 in R.
    destruct (hget (b_heap sr) p) as [n|] eqn:Er; [|contradiction].
    destruct R as [_ R]. rewrite R.
    destruct (hit id (b_pend sr) p l) eqn:Eh.
    + apply hit_pending in Eh. destruct (sim_pend _ _ S _ _ _ Eh) as [_ [ni' [Hi Hk]]].
      rewrite H2 in Hi. inversion Hi; subst. rewrite Hk, HM. reflexivity.
    + eapply (sim_slot _ _ S); eauto.
      intros [id' Hin]. destruct (bytes_eqb id id') eqn:Eid.
      * apply bytes_eqb_eq in Eid. subst. rewrite (pending_hit _ _ _ _ Hin) in Eh. discriminate.
      * apply Hp. exists id'. simpl. apply filter_In. split; [exact Hin|]. simpl. rewrite Eid. reflexivity.
  - intros id' p l Hin. apply filter_In in Hin. destruct Hin as [Hin Hne]. simpl in Hne.
    destruct (sim_pend _ _ S _ _ _ Hin) as [Hm Hi]. split; [|exact Hi].
    destruct (bytes_eqb id' id) eqn:E; [|exact Hm].
    apply bytes_eqb_eq in E. subst. rewrite bytes_eqb_refl in Hne. discriminate.
  - intros id' x'. destruct (bytes_eqb id' id) eqn:E.
    + apply bytes_eqb_eq in E. subst. intro H. inversion H; subst. exact HM.
    + apply (sim_marked _ _ S).
  - apply NoDup_map_filter. apply (sim_nodup _ _ S).
  - intros p n H. assert (R := resolve_heap id x (b_pend sr) sr p). rewrite H in R.
    destruct (hget (b_heap sr) p) eqn:Er; [|contradiction]. eapply sim_alloc; eauto.
Qed.

(* ---- the shape of a call tree that matters to the builder ---- *)

Definition kids_size (ks : list (label * tm)) (sz : tm -> N) : N :=
  fold_right (fun (lt : label * tm) acc => sz (snd lt) + acc) 0 ks.
Fixpoint tm_size (t : tm) : N :=
  match t with
  | TNode _ _ _ kids => 1 + fold_right (fun (lt : label * tm) acc => tm_size (snd lt) + acc) 0 kids
  | _ => 0
  end.
(* marker ids, as the builder sees them *)
Fixpoint tm_bids (t : tm) : list bytes :=
  match t with
  | TNode _ m _ kids =>
      (match m with Some id => [dec_bytes id] | None => [] end) ++ flat_map (fun lt : label * tm => tm_bids (snd lt)) kids
  | _ => []
  end.
Definition kids_bids (ks : list (label * tm)) : list bytes := flat_map (fun lt : label * tm => tm_bids (snd lt)) ks.

Section KidsAt.
Context {A : Type}.
Variable g : tm -> addr -> list A.
Fixpoint kids_at (ks : list (label * tm)) (nx : addr) : list A :=
  match ks with
  | [] => []
  | lt :: r => g (snd lt) nx ++ kids_at r (nx + tm_size (snd lt))
  end.
End KidsAt.
(* the address each marked object gets when the tree is built starting at address next *)
Fixpoint marks_at (t : tm) (next : addr) : list (bytes * addr) :=
  match t with
  | TNode _ m _ kids =>
      (match m with Some id => [(dec_bytes id, next)] | None => [] end) ++ kids_at marks_at kids (next + 1)
  | _ => []
  end.

Fixpoint slice_seq (n : N) (ks : list (label * tm)) : Prop :=
  match ks with
  | [] => True
  | (l, t) :: r => l = LI n /\ is_omit t = false /\ slice_seq (n + 1) r
  end.
Definition kids_ok (k : kind) (kids : list (label * tm)) : Prop :=
  NoDup (map fst kids) /\
  match k with
  | KStruct _ => forall l t, In (l, t) kids -> exists i, l = LF i /\ i < 5
  | KSlice => slice_seq 0 kids
  | KMap => forall l t, In (l, t) kids -> exists z, l = LK z
  end.
Fixpoint tm_wf (t : tm) : Prop :=
  match t with
  | TNode _ _ k kids =>
      kids_ok k kids /\
      (fix all (ks : list (label * tm)) : Prop := match ks with [] => True | lt :: r => tm_wf (snd lt) /\ all r end) kids
  | _ => True
  end.
Lemma tm_wf_node a m k kids :
  tm_wf (TNode a m k kids) <-> kids_ok k kids /\ Forall (fun lt : label * tm => tm_wf (snd lt)) kids.
Proof.
  cbn [tm_wf]. split; intros [H1 H2]; (split; [exact H1|]); clear H1.
  - induction kids as [|lt r IH]; [constructor|]. destruct H2 as [Ha Hb]. constructor; [exact Ha | apply IH; exact Hb].
  - induction kids as [|lt r IH]; [exact I|]. inversion H2; subst. split; [assumption | apply IH; assumption].
Qed.

(* the labels a container frame will meet *)
Definition kids_fit (cf : bframe) (kids : list (label * tm)) : Prop :=
  match cf with
  | FStructKey _ => forall l t, In (l, t) kids -> exists i, l = LF i /\ i < 5
  | FSlice _ n => slice_seq n kids
  | FMapKey _ => forall l t, In (l, t) kids -> exists z, l = LK z
  | _ => False
  end.

Lemma field_find_self i : i < 5 -> exists t, field_find (field_label_name (LF i)) 0 fields = Some (LF i, t).
Proof.
  intro Hi. assert (i = 0 \/ i = 1 \/ i = 2 \/ i = 3 \/ i = 4) as [-> | [-> | [-> | [-> | ->]]]] by lia;
    vm_compute; eauto.
Qed.

Lemma kids_fit_step cf p l t r :
  frame_addr cf = Some p -> kids_fit cf ((l, t) :: r) -> is_omit t = false ->
  exists vf, kid_frame cf l = Some vf /\ slot_of vf = Some (p, l) /\ kids_fit (next_frame vf) r /\
             frame_addr (next_frame vf) = Some p.
Proof.
  intros Hp Hf Ho. destruct cf; simpl in Hp; try discriminate; inversion Hp; subst; simpl in Hf.
  - destruct (Hf l t (or_introl eq_refl)) as [i [-> Hi]]. destruct (field_find_self i Hi) as [ty E].
    exists (FStructVal p (LF i) ty). unfold kid_frame. rewrite E. simpl. repeat split; try reflexivity.
    intros l0 t0 Hin. apply (Hf l0 t0). right. exact Hin.
  - destruct Hf as [-> [_ Hs]]. exists (FSlice p n). simpl. repeat split; try reflexivity. exact Hs.
  - destruct (Hf l t (or_introl eq_refl)) as [z ->]. exists (FMapVal p z). simpl. repeat split; try reflexivity.
    intros l0 t0 Hin. apply (Hf l0 t0). right. exact Hin.
Qed.
Lemma kids_fit_skip cf l t r : kids_fit cf ((l, t) :: r) -> is_omit t = true -> kids_fit cf r.
Proof.
  intros Hf Ho. destruct cf; simpl in *; try contradiction.
  - intros l0 t0 Hin. apply (Hf l0 t0). right. exact Hin.
  - destruct Hf as [_ [Hno _]]. congruence.
  - intros l0 t0 Hin. apply (Hf l0 t0). right. exact Hin.
Qed.

(* ---- small facts about the primitive operations ---- *)
Lemma b_set_keep sl v s p n : hget (b_heap s) p = Some n -> exists n', hget (b_heap (b_set sl v s)) p = Some n'.
Proof.
  intro H. unfold b_set. simpl. destruct (N.eq_dec (fst sl) p) as [E|E].
  - rewrite E, hget_hupd_same, H. simpl. eauto.
  - rewrite hget_hupd_other by exact E. eauto.
Qed.
Lemma b_ref_keep id sl s p n : hget (b_heap s) p = Some n -> exists n', hget (b_heap (b_ref id sl s)) p = Some n'.
Proof.
  intro H. unfold b_ref. destruct (bfind id (b_marked s)); [apply b_set_keep with (n := n); exact H | simpl; eauto].
Qed.
Lemma b_ref_pend id sl s e : In e (b_pend (b_ref id sl s)) -> In e (b_pend s) \/ e = (id, sl).
Proof.
  unfold b_ref. destruct (bfind id (b_marked s)); simpl; [auto|].
  intro H. apply in_app_or in H. destruct H as [H|[H|[]]]; auto.
Qed.
Lemma b_ref_fields id sl s : b_next (b_ref id sl s) = b_next s /\ b_marked (b_ref id sl s) = b_marked s.
Proof. unfold b_ref. destruct (bfind id (b_marked s)); simpl; auto. Qed.
Lemma b_mark_keep id x s p n : hget (b_heap s) p = Some n -> exists n', hget (b_heap (b_mark id x s)) p = Some n'.
Proof.
  intro H. rewrite b_mark_unfold. simpl. assert (R := resolve_heap id x (b_pend s) s p). rewrite H in R.
  destruct (hget (b_heap (resolve id x (b_pend s) s)) p); [eauto | contradiction].
Qed.

Definition dst_ok (f : bframe) (sr : bst) : Prop :=
  match slot_of f with
  | Some sl => (exists n, hget (b_heap sr) (fst sl) = Some n) /\ ~ pending sr sl
  | None => True
  end.

Lemma sim_deliver sr si v f f' sr' :
  Sim sr si -> dst_ok f sr -> deliver v f sr = Some (f', sr') ->
  exists si', deliver v f si = Some (f', si') /\ Sim sr' si' /\
              b_next sr' = b_next sr /\ b_pend sr' = b_pend sr /\ b_marked sr' = b_marked sr /\
              (forall p n, hget (b_heap sr) p = Some n -> exists n', hget (b_heap sr') p = Some n').
Proof.
  intros S Hd H. unfold dst_ok in Hd.
  destruct f; simpl in H; try discriminate; simpl in Hd.
  - inversion H; subst. eexists. split; [reflexivity|]. split; [apply sim_set_root; exact S|]. simpl. repeat split; eauto.
  - destruct Hd as [_ Hnp].
    destruct v as [x|]; [| destruct t].
    + inversion H; subst. exists (b_set (p, l) (Some x) si). split; [destruct t; reflexivity|].
      split; [apply sim_set; assumption|]. repeat split; try reflexivity; intros; eapply b_set_keep; eauto.
    + inversion H; subst. exists (b_set (p, l) None si). split; [reflexivity|].
      split; [apply sim_set; assumption|]. repeat split; try reflexivity; intros; eapply b_set_keep; eauto.
    + inversion H; subst. exists si. split; [reflexivity|]. split; [exact S|]. repeat split; eauto.
    + discriminate.
  - destruct Hd as [_ Hnp]. inversion H; subst. eexists. split; [reflexivity|].
    split; [apply sim_set; assumption|]. repeat split; try reflexivity; intros; eapply b_set_keep; eauto.
  - destruct Hd as [_ Hnp]. inversion H; subst. eexists. split; [reflexivity|].
    split; [apply sim_set; assumption|]. repeat split; try reflexivity; intros; eapply b_set_keep; eauto.
Qed.

End Sim.

Lemma bmem_In x l : bmem x l = true <-> In x l.
Proof.
  unfold bmem. rewrite existsb_exists. split.
  - intros [y [Hi He]]. apply bytes_eqb_eq in He. subst. exact Hi.
  - intro Hi. exists x. split; [exact Hi | apply bytes_eqb_refl].
Qed.
Lemma bmem_false x l : ~ In x l -> bmem x l = false.
Proof. intro H. destruct (bmem x l) eqn:E; [apply bmem_In in E; contradiction | reflexivity]. Qed.
Lemma bmem_app x l1 l2 : bmem x (l1 ++ l2) = bmem x l1 || bmem x l2.
Proof. unfold bmem. apply existsb_app. Qed.
Lemma is_omit_true t : is_omit t = true -> t = TOmit.
Proof. destruct t; simpl; congruence. Qed.

Definition kids_sz (ks : list (label * tm)) : N := fold_right (fun (lt : label * tm) acc => tm_size (snd lt) + acc) 0 ks.
Lemma tm_size_node a m k kids : tm_size (TNode a m k kids) = 1 + kids_sz kids.
Proof. reflexivity. Qed.
Lemma tm_bids_node a m k kids :
  tm_bids (TNode a m k kids) = (match m with Some id => [dec_bytes id] | None => [] end) ++ kids_bids kids.
Proof. reflexivity. Qed.
Lemma marks_at_node a m k kids next :
  marks_at (TNode a m k kids) next =
  (match m with Some id => [(dec_bytes id, next)] | None => [] end) ++ kids_at marks_at kids (next + 1).
Proof. reflexivity. Qed.

Lemma NoDup_app_l {A} (l1 l2 : list A) : NoDup (l1 ++ l2) -> NoDup l1.
Proof.
  induction l1 as [|x l1 IH]; simpl; intro H; [constructor|].
  inversion H; subst. constructor; [|apply IH; assumption]. intro Hin. apply H2. apply in_or_app. left. exact Hin.
Qed.
Lemma NoDup_app_r {A} (l1 l2 : list A) : NoDup (l1 ++ l2) -> NoDup l2.
Proof. induction l1 as [|x l1 IH]; simpl; intro H; [exact H|]. inversion H; subst. apply IH. assumption. Qed.
Lemma NoDup_app_disj {A} (l1 l2 : list A) x : NoDup (l1 ++ l2) -> In x l1 -> In x l2 -> False.
Proof.
  induction l1 as [|y l1 IH]; simpl; intros H H1 H2; [contradiction|].
  inversion H; subst. destruct H1 as [->|H1].
  - apply H4. apply in_or_app. right. exact H2.
  - eapply IH; eauto.
Qed.

Section SimVal.
Variable M : bytes -> option addr.

Record Post (t : tm) (f : bframe) (sr sr' : bst) : Prop := mkPost {
  post_next : b_next sr' = b_next sr + tm_size t;
  post_pend : forall id sl, In (id, sl) (b_pend sr') ->
                In (id, sl) (b_pend sr) \/ slot_of f = Some sl \/ b_next sr <= fst sl;
  post_marked : forall id, bfind id (b_marked sr') = if bmem id (tm_bids t) then M id else bfind id (b_marked sr);
  post_keep : forall p n, hget (b_heap sr) p = Some n -> exists n', hget (b_heap sr') p = Some n';
}.

Definition SimGoal (t : tm) : Prop :=
  forall f sr si f' sr',
    Sim M sr si -> dst_ok f sr -> NoDup (tm_bids t) ->
    (forall id, In id (tm_bids t) -> bfind id (b_marked sr) = None) ->
    (forall id x, In (id, x) (marks_at t (b_next sr)) -> M id = Some x) ->
    eff_val b_ref b_mark t f sr = Some (f', sr') ->
    exists si', eff_val (oref_i M) omark_i t f si = Some (f', si') /\ Sim M sr' si' /\ Post t f sr sr'.

Lemma sim_kids kids :
  Forall (fun lt : label * tm => tm_wf (snd lt) -> SimGoal (snd lt)) kids ->
  Forall (fun lt : label * tm => tm_wf (snd lt)) kids ->
  forall cf sr si cf' sr' p pend0 done,
    Sim M sr si ->
    frame_addr cf = Some p -> kids_fit cf kids ->
    NoDup (done ++ map fst kids) ->
    (exists n, hget (b_heap sr) p = Some n) ->
    p < b_next sr ->
    (forall id sl, In (id, sl) pend0 -> fst sl < p) ->
    (forall id sl, In (id, sl) (b_pend sr) -> In (id, sl) pend0 \/ (fst sl = p /\ In (snd sl) done) \/ p < fst sl) ->
    NoDup (kids_bids kids) ->
    (forall id, In id (kids_bids kids) -> bfind id (b_marked sr) = None) ->
    (forall id x, In (id, x) (kids_at marks_at kids (b_next sr)) -> M id = Some x) ->
    eff_kids (eff_val b_ref b_mark) kids cf sr = Some (cf', sr') ->
    exists si', eff_kids (eff_val (oref_i M) omark_i) kids cf si = Some (cf', si') /\ Sim M sr' si' /\
      frame_addr cf' = Some p /\
      b_next sr' = b_next sr + kids_sz kids /\
      (forall id sl, In (id, sl) (b_pend sr') -> In (id, sl) pend0 \/ fst sl = p \/ p < fst sl) /\
      (forall id, bfind id (b_marked sr') = if bmem id (kids_bids kids) then M id else bfind id (b_marked sr)) /\
      (forall q n, hget (b_heap sr) q = Some n -> exists n', hget (b_heap sr') q = Some n').
Proof.
  induction kids as [|[l t] r IH]; intros HG HW cf sr si cf' sr' p pend0 done S Hp Hfit Hnd Hex Hlt Hp0 Hpend Hnb Hun HM H.
  - simpl in H. inversion H; subst. exists si. simpl. split; [reflexivity|]. split; [exact S|].
    split; [exact Hp|]. split; [unfold kids_sz; simpl; lia|].
    split.
    { intros id sl Hin. destruct (Hpend id sl Hin) as [?|[[? _]|?]]; auto. }
    split; [intro id; reflexivity|]. intros q n Hq. eauto.
  - inversion HG as [|x xs Hx Hxs]; subst. inversion HW as [|y ys Hwt Hwr]; subst. simpl in Hx, Hwt.
    simpl in H. destruct (is_omit t) eqn:Eo.
    + (* an omitted field *)
      assert (t = TOmit) by (apply is_omit_true; exact Eo). subst t.
      assert (Hnd' : NoDup (done ++ map fst r)) by (simpl in Hnd; apply NoDup_remove_1 in Hnd; exact Hnd).
      simpl in HM. rewrite N.add_0_r in HM.
      destruct (IH Hxs Hwr cf sr si cf' sr' p pend0 done S Hp (kids_fit_skip _ _ _ _ Hfit Eo) Hnd' Hex Hlt Hp0 Hpend Hnb Hun HM H)
        as [si' R].
      exists si'. simpl. exact R.
    + destruct (kids_fit_step cf p l t r Hp Hfit Eo) as [vf [Ekf [Hslot [Hfit' Hp']]]].
      rewrite Ekf in H.
      destruct (eff_val b_ref b_mark t vf sr) as [[cf1 s1]|] eqn:E1; [|discriminate].
      assert (Hcf1 : cf1 = next_frame vf) by (eapply eff_val_next; eauto). subst cf1.
      (* the child *)
      assert (Hdst : dst_ok vf sr).
      { unfold dst_ok. rewrite Hslot. simpl. split; [exact Hex|].
        intros [id Hin]. destruct (Hpend _ _ Hin) as [Ha|[[_ Hb]|Hc]].
        - apply Hp0 in Ha. simpl in Ha. lia.
        - simpl in Hb. eapply (NoDup_app_disj done (map fst ((l, t) :: r)) l); eauto. left. reflexivity.
        - simpl in Hc. lia. }
      unfold kids_bids in Hnb, Hun. simpl in Hnb, Hun. fold (kids_bids r) in Hnb, Hun.
      destruct (Hx Hwt vf sr si (next_frame vf) s1 S Hdst) as [si1 [Ei1 [S1 P1]]].
      { eapply NoDup_app_l; eauto. }
      { intros id Hid. apply Hun. apply in_or_app. left. exact Hid. }
      { intros id x Hin. apply HM. simpl. apply in_or_app. left. exact Hin. }
      { exact E1. }
      (* the rest *)
      assert (A1 : NoDup ((done ++ [l]) ++ map fst r)) by (rewrite <- app_assoc; simpl; exact Hnd).
      assert (A2 : exists n, hget (b_heap s1) p = Some n).
      { destruct Hex as [n Hn]. eapply (post_keep _ _ _ _ P1); eauto. }
      assert (A3 : p < b_next s1) by (rewrite (post_next _ _ _ _ P1); lia).
      assert (A4 : forall id sl, In (id, sl) (b_pend s1) ->
                     In (id, sl) pend0 \/ (fst sl = p /\ In (snd sl) (done ++ [l])) \/ p < fst sl).
      { intros id sl Hin. destruct (post_pend _ _ _ _ P1 _ _ Hin) as [Ha|[Hb|Hc]].
        - destruct (Hpend _ _ Ha) as [?|[[? ?]|?]]; auto. right. left. split; [assumption|]. apply in_or_app. left. assumption.
        - rewrite Hslot in Hb. inversion Hb; subst. right. left. simpl. split; [reflexivity|]. apply in_or_app. right. left. reflexivity.
        - right. right. lia. }
      assert (A5 : NoDup (kids_bids r)) by (eapply NoDup_app_r; eauto).
      assert (A6 : forall id, In id (kids_bids r) -> bfind id (b_marked s1) = None).
      { intros id Hid. rewrite (post_marked _ _ _ _ P1). rewrite bmem_false.
        - apply Hun. apply in_or_app. right. exact Hid.
        - intro Hin. exact (NoDup_app_disj _ _ _ Hnb Hin Hid). }
      assert (A7 : forall id x, In (id, x) (kids_at marks_at r (b_next s1)) -> M id = Some x).
      { intros id x Hin. apply HM. simpl. apply in_or_app. right. rewrite <- (post_next _ _ _ _ P1). exact Hin. }
      destruct (IH Hxs Hwr (next_frame vf) s1 si1 cf' sr' p pend0 (done ++ [l]) S1 Hp' Hfit' A1 A2 A3 Hp0 A4 A5 A6 A7 H) as [si' R].
      destruct R as [Ei' [S' [Hp'' [Hn' [Hpd' [Hm' Hk']]]]]].
        exists si'. simpl. rewrite Eo, Ekf, Ei1. split; [exact Ei'|]. split; [exact S'|].
        split; [exact Hp''|].
        split. { rewrite Hn', (post_next _ _ _ _ P1). unfold kids_sz. simpl. lia. }
        split; [exact Hpd'|].
        split.
        { intro id. rewrite Hm', (post_marked _ _ _ _ P1). unfold kids_bids. simpl. fold (kids_bids r).
          rewrite bmem_app. destruct (bmem id (kids_bids r)), (bmem id (tm_bids t)); reflexivity. }
        intros q n Hq. destruct (post_keep _ _ _ _ P1 _ _ Hq) as [n1 Hq1]. eapply Hk'; eauto.
Qed.

Lemma sim_begin ty e sr si cf s1 :
  Sim M sr si -> begin_container ty e sr = Some (cf, s1) ->
  exists s1i, begin_container ty e si = Some (cf, s1i) /\ Sim M s1 s1i /\
    b_next s1 = b_next sr + 1 /\ b_pend s1 = b_pend sr /\ b_marked s1 = b_marked sr /\
    (exists n, hget (b_heap s1) (b_next sr) = Some n) /\
    (forall q n, hget (b_heap sr) q = Some n -> exists n', hget (b_heap s1) q = Some n') /\
    (cf = FStructKey (b_next sr) \/ cf = FSlice (b_next sr) 0 \/ cf = FMapKey (b_next sr)).
Proof.
  intros S H. assert (Hn := sim_next _ _ _ S).
  assert (Hkeep : forall k ks q n, hget (b_heap sr) q = Some n -> exists n', hget (b_heap (snd (b_alloc k ks sr))) q = Some n').
  { intros k ks q n Hq. unfold b_alloc. simpl. destruct (q =? b_next sr); eauto. }
  assert (Hnew : forall k ks, exists n, hget (b_heap (snd (b_alloc k ks sr))) (b_next sr) = Some n).
  { intros k ks. unfold b_alloc. simpl. rewrite N.eqb_refl. eauto. }
  destruct ty, e; simpl in H; try discriminate.
  - destruct (sim_alloc_op M sr si (KStruct 0) zero_fields S) as [Hf Ha].
    inversion H; subst. exists (snd (b_alloc (KStruct 0) zero_fields si)). split; [unfold begin_container, b_alloc; simpl; rewrite Hn; reflexivity|].
    split; [exact Ha|]. split; [reflexivity|]. split; [reflexivity|]. split; [reflexivity|].
    split; [exact (Hnew _ _)|]. split; [exact (Hkeep _ _)|]. left; reflexivity.
  - destruct (sim_alloc_op M sr si KSlice [] S) as [Hf Ha].
    inversion H; subst. exists (snd (b_alloc KSlice [] si)). split; [unfold begin_container, b_alloc; simpl; rewrite Hn; reflexivity|].
    split; [exact Ha|]. split; [reflexivity|]. split; [reflexivity|]. split; [reflexivity|].
    split; [exact (Hnew _ _)|]. split; [exact (Hkeep _ _)|]. right; left; reflexivity.
  - destruct (sim_alloc_op M sr si KMap [] S) as [Hf Ha].
    inversion H; subst. exists (snd (b_alloc KMap [] si)). split; [unfold begin_container, b_alloc; simpl; rewrite Hn; reflexivity|].
    split; [exact Ha|]. split; [reflexivity|]. split; [reflexivity|]. split; [reflexivity|].
    split; [exact (Hnew _ _)|]. split; [exact (Hkeep _ _)|]. right; right; reflexivity.
Qed.

Lemma sim_after_begin k cf s1 s1i s1' :
  Sim M s1 s1i -> after_begin k cf s1 = Some s1' ->
  exists s1i', after_begin k cf s1i = Some s1i' /\ Sim M s1' s1i' /\
    b_next s1' = b_next s1 /\ b_pend s1' = b_pend s1 /\ b_marked s1' = b_marked s1 /\
    (forall q n, hget (b_heap s1) q = Some n -> exists n', hget (b_heap s1') q = Some n').
Proof.
  intros S H. destruct k, cf; simpl in H; try discriminate; inversion H; subst.
  - eexists. split; [reflexivity|]. split; [apply sim_payload; exact S|]. repeat split; auto.
    intros q n Hq. unfold b_payload. simpl. destruct (N.eq_dec p q) as [E|E].
    + rewrite E, hget_hupd_same, Hq. simpl. eauto.
    + rewrite hget_hupd_other by exact E. eauto.
  - eexists. split; [reflexivity|]. split; [exact S|]. repeat split; eauto.
  - eexists. split; [reflexivity|]. split; [exact S|]. repeat split; eauto.
Qed.

Lemma after_begin_fit k cf s s' p kids :
  after_begin k cf s = Some s' -> kids_ok k kids ->
  (cf = FStructKey p \/ cf = FSlice p 0 \/ cf = FMapKey p) -> kids_fit cf kids.
Proof.
  intros H [_ Hk] Hc. destruct k, cf; simpl in H; try discriminate; simpl.
  - exact Hk.
  - destruct Hc as [Hc|[Hc|Hc]]; inversion Hc; subst. exact Hk.
  - exact Hk.
Qed.

Lemma sim_val t : tm_wf t -> SimGoal t.
Proof.
  induction t as [| |id|a m k kids IHk] using tm_ind'; intros Hwf f sr si f' sr' S Hdst Hnb Hun HM H.
  - discriminate.
  - (* null *)
    cbn [eff_val] in H. destruct (sim_deliver M _ _ _ _ _ _ S Hdst H) as [si' [Ei [S' [Hn [Hp [Hm Hk]]]]]].
    exists si'. split; [exact Ei|]. split; [exact S'|].
    constructor.
    + rewrite Hn. simpl. lia.
    + intros id sl Hin. rewrite Hp in Hin. auto.
    + intro id. rewrite Hm. reflexivity.
    + exact Hk.
  - (* reference *)
    cbn [eff_val] in H. unfold ref_step in H. cbn [eff_val]. unfold ref_step.
    unfold dst_ok in Hdst.
    destruct f; try discriminate; simpl in Hdst; destruct Hdst as [Hex Hnp]; inversion H; subst.
    + eexists. split; [reflexivity|]. split; [apply sim_ref; assumption|].
      destruct (b_ref_fields (dec_bytes id) (p, l) sr) as [F1 F2].
      constructor.
      * rewrite F1. simpl. lia.
      * intros id0 sl Hin. apply b_ref_pend in Hin. destruct Hin as [Hin|Heq]; [auto|]. inversion Heq; subst. right. left. reflexivity.
      * intro id0. rewrite F2. reflexivity.
      * intros q n Hq. eapply b_ref_keep; eauto.
    + assert (S1 : Sim M (b_set (p, LI n) None sr) (b_set (p, LI n) None si)) by (apply sim_set; assumption).
      eexists. split; [reflexivity|]. split.
      { apply sim_ref; [exact S1 | exact Hnp |]. destruct Hex as [n0 Hn0]. eapply b_set_keep; eauto. }
      destruct (b_ref_fields (dec_bytes id) (p, LI n) (b_set (p, LI n) None sr)) as [F1 F2].
      constructor.
      * rewrite F1. simpl. lia.
      * intros id0 sl Hin. apply b_ref_pend in Hin. destruct Hin as [Hin|Heq]; [auto|]. inversion Heq; subst. right. left. reflexivity.
      * intro id0. rewrite F2. reflexivity.
      * intros q n0 Hq. destruct (b_set_keep (p, LI n) None sr q n0 Hq) as [n1 Hq1]. eapply b_ref_keep; eauto.
    + eexists. split; [reflexivity|]. split; [apply sim_ref; assumption|].
      destruct (b_ref_fields (dec_bytes id) (p, LK k) sr) as [F1 F2].
      constructor.
      * rewrite F1. simpl. lia.
      * intros id0 sl Hin. apply b_ref_pend in Hin. destruct Hin as [Hin|Heq]; [auto|]. inversion Heq; subst. right. left. reflexivity.
      * intro id0. rewrite F2. reflexivity.
      * intros q n Hq. eapply b_ref_keep; eauto.
  - (* an object *)
    apply tm_wf_node in Hwf. destruct Hwf as [Hok Hwk].
    cbn [eff_val] in H. cbn [eff_val].
    destruct (frame_ty f) as [ty|] eqn:Ety; [|discriminate].
    destruct (begin_container ty (kind_begin k) sr) as [[cf s1]|] eqn:Eb; [|discriminate].
    destruct (after_begin k cf s1) as [s1'|] eqn:Ea; [|discriminate].
    destruct (eff_kids (eff_val b_ref b_mark) kids cf s1') as [[cf' s2]|] eqn:Ek; [|discriminate].
    destruct (frame_addr cf') as [p'|] eqn:Ep; [|discriminate].
    set (p := b_next sr) in *.
    destruct (sim_begin _ _ _ _ _ _ S Eb) as [s1i [Ebi [S1 [N1 [P1 [M1 [X1 [K1 C1]]]]]]]].
    destruct (sim_after_begin _ _ _ _ _ S1 Ea) as [s1i' [Eai [S1' [N1' [P1' [M1' K1']]]]]].
    rewrite Ebi, Eai.
    rewrite tm_bids_node in Hnb, Hun. rewrite marks_at_node in HM.
    assert (Hfa : frame_addr cf = Some p) by (destruct C1 as [->|[->| ->]]; reflexivity).
    assert (Hpend0 : forall id sl, In (id, sl) (b_pend sr) -> fst sl < p).
    { intros id [q l] Hin. destruct (sim_pend _ _ _ S _ _ _ Hin) as [_ [ni [Hi _]]].
      destruct (sim_exists_r _ _ _ _ _ S Hi) as [nr Hr]. simpl. eapply sim_alloc; eauto. }
    assert (B1 : kids_fit cf kids) by (eapply after_begin_fit; eauto).
    assert (B2 : NoDup ([] ++ map fst kids)) by (simpl; destruct Hok as [Hnd _]; exact Hnd).
    assert (B3 : exists n, hget (b_heap s1') p = Some n) by (destruct X1 as [n Hn]; eapply K1'; eauto).
    assert (B4 : p < b_next s1') by (rewrite N1', N1; lia).
    assert (B5 : forall id sl, In (id, sl) (b_pend s1') ->
                   In (id, sl) (b_pend sr) \/ (fst sl = p /\ In (snd sl) []) \/ p < fst sl).
    { intros id sl Hin. rewrite P1', P1 in Hin. left. exact Hin. }
    assert (B6 : NoDup (kids_bids kids)) by (eapply NoDup_app_r; eauto).
    assert (B7 : forall id, In id (kids_bids kids) -> bfind id (b_marked s1') = None).
    { intros id Hid. rewrite M1', M1. apply Hun. apply in_or_app. right. exact Hid. }
    assert (B8 : forall id x, In (id, x) (kids_at marks_at kids (b_next s1')) -> M id = Some x).
    { intros id x Hin. apply HM. apply in_or_app. right. rewrite N1', N1 in Hin. exact Hin. }
    destruct (sim_kids kids IHk Hwk cf s1' s1i' cf' s2 p (b_pend sr) [] S1' Hfa B1 B2 B3 B4 Hpend0 B5 B6 B7 B8 Ek)
      as [s2i [Eki [S2 [Hp2 [N2 [P2 [M2 K2]]]]]]].
    rewrite Eki. rewrite Hp2 in Ep. inversion Ep; subst p'. rewrite Hp2.
      (* the marker *)
      set (s3 := match m with Some id => b_mark (dec_bytes id) p s2 | None => s2 end) in *.
      set (s3i := match m with Some id => omark_i (dec_bytes id) p s2i | None => s2i end).
      assert (S3 : Sim M s3 s3i).
      { unfold s3, s3i. destruct m as [id|]; [|exact S2]. apply sim_mark; [exact S2| |].
        - apply HM. apply in_or_app. left. left. reflexivity.
        - rewrite M2. simpl in Hnb. inversion Hnb; subst. rewrite bmem_false by assumption.
          rewrite M1', M1. apply Hun. left. reflexivity. }
      assert (P3 : forall e, In e (b_pend s3) -> In e (b_pend s2)).
      { unfold s3. destruct m as [id|]; [|auto]. intros e He. rewrite b_mark_unfold in He. simpl in He.
        apply filter_In in He. tauto. }
      assert (K3 : forall q n, hget (b_heap s2) q = Some n -> exists n', hget (b_heap s3) q = Some n').
      { unfold s3. destruct m as [id|]; [|eauto]. intros q n Hq. eapply b_mark_keep; eauto. }
      assert (N3 : b_next s3 = b_next s2).
      { unfold s3. destruct m as [id|]; [|reflexivity]. rewrite b_mark_unfold. reflexivity. }
      assert (Kall : forall q n, hget (b_heap sr) q = Some n -> exists n', hget (b_heap s3) q = Some n').
      { intros q n Hq. destruct (K1 _ _ Hq) as [n1 Hq1]. destruct (K1' _ _ Hq1) as [n2 Hq2].
        destruct (K2 _ _ Hq2) as [n3 Hq3]. eapply K3; eauto. }
      assert (Hdst3 : dst_ok f s3).
      { unfold dst_ok in *. destruct (slot_of f) as [[q0 l0]|]; [|exact I]. simpl in *.
        destruct Hdst as [[n0 Hn0] Hnp]. split; [eapply Kall; eauto|].
        intros [id Hin]. apply P3 in Hin. destruct (P2 _ _ Hin) as [Ha|[Hb|Hc]].
        - apply Hnp. exists id. exact Ha.
        - simpl in Hb. assert (q0 < p) by (eapply sim_alloc; eauto). lia.
        - simpl in Hc. assert (q0 < p) by (eapply sim_alloc; eauto). lia. }
      destruct (sim_deliver M _ _ _ _ _ _ S3 Hdst3 H) as [si' [Ei [S' [Hn' [Hp' [Hm' Hk']]]]]].
      exists si'. split; [exact Ei|]. split; [exact S'|].
      constructor.
      * rewrite Hn', N3, N2, N1', N1, tm_size_node. fold p. fold (kids_sz kids). lia.
      * intros id sl Hin. rewrite Hp' in Hin. apply P3 in Hin. destruct (P2 _ _ Hin) as [Ha|[Hb|Hc]].
        -- left. exact Ha.
        -- right. right. fold p. lia.
        -- right. right. fold p. lia.
      * intro id. rewrite Hm'. rewrite tm_bids_node. unfold s3. destruct m as [id0|].
        -- rewrite b_mark_unfold. simpl.
           destruct (bytes_eqb id (dec_bytes id0)) eqn:E.
           ++ apply bytes_eqb_eq in E. subst. symmetry. apply HM. apply in_or_app. left. left. reflexivity.
           ++ rewrite M2, M1', M1. reflexivity.
        -- simpl. rewrite M2, M1', M1. reflexivity.
      * intros q n Hq. destruct (Kall _ _ Hq) as [n3 Hq3]. eapply Hk'; eauto.
Qed.

End SimVal.

(* ---- the setters still waiting at the end were registered by references of the tree ---- *)
Fixpoint tm_rids (t : tm) : list bytes :=
  match t with
  | TRef id => [dec_bytes id]
  | TNode _ _ _ kids => flat_map (fun lt : label * tm => tm_rids (snd lt)) kids
  | _ => []
  end.

Lemma deliver_pend v f s f' s' : deliver v f s = Some (f', s') -> b_pend s' = b_pend s.
Proof.
  destruct f; simpl; intro H; try discriminate; try (inversion H; subst; reflexivity).
  destruct v, t; inversion H; subst; reflexivity.
Qed.
Lemma begin_pend ty e s cf s1 : begin_container ty e s = Some (cf, s1) -> b_pend s1 = b_pend s.
Proof. destruct ty, e; simpl; intro H; try discriminate; inversion H; subst; reflexivity. Qed.
Lemma after_begin_pend k cf s s' : after_begin k cf s = Some s' -> b_pend s' = b_pend s.
Proof. destruct k, cf; simpl; intro H; try discriminate; inversion H; subst; reflexivity. Qed.

Lemma pend_ids t : forall f s f' s',
  eff_val b_ref b_mark t f s = Some (f', s') ->
  forall id sl, In (id, sl) (b_pend s') -> In (id, sl) (b_pend s) \/ In id (tm_rids t).
Proof.
  induction t as [| |id0|a m k kids IHk] using tm_ind'; intros f s f' s' H id sl Hin.
  - discriminate.
  - cbn [eff_val] in H. rewrite (deliver_pend _ _ _ _ _ H) in Hin. auto.
  - cbn [eff_val] in H. unfold ref_step in H.
    destruct f; try discriminate; inversion H; subst; apply b_ref_pend in Hin;
      (destruct Hin as [Hin|Heq]; [left; exact Hin | inversion Heq; subst; right; left; reflexivity]).
  - cbn [eff_val] in H.
    destruct (frame_ty f) as [ty|]; [|discriminate].
    destruct (begin_container ty (kind_begin k) s) as [[cf s1]|] eqn:Eb; [|discriminate].
    destruct (after_begin k cf s1) as [s1'|] eqn:Ea; [|discriminate].
    destruct (eff_kids (eff_val b_ref b_mark) kids cf s1') as [[cf' s2]|] eqn:Ek; [|discriminate].
    destruct (frame_addr cf') as [p|]; [|discriminate].
    rewrite (deliver_pend _ _ _ _ _ H) in Hin.
    assert (Hin2 : In (id, sl) (b_pend s2)).
    { destruct m as [id1|]; [|exact Hin]. rewrite b_mark_unfold in Hin. simpl in Hin. apply filter_In in Hin. tauto. }
    assert (Hk : forall cf s cf' s', eff_kids (eff_val b_ref b_mark) kids cf s = Some (cf', s') ->
                   forall id sl, In (id, sl) (b_pend s') ->
                     In (id, sl) (b_pend s) \/ In id (flat_map (fun lt : label * tm => tm_rids (snd lt)) kids)).
    { clear - IHk. induction kids as [|[l t] r IHr]; intros cf s cf' s' H id sl Hin; simpl in H.
      - inversion H; subst. auto.
      - inversion IHk as [|x xs Hx Hxs]; subst. simpl in Hx.
        destruct (is_omit t).
        + destruct (IHr Hxs _ _ _ _ H _ _ Hin) as [?|?]; [auto|]. right. simpl. apply in_or_app. right. assumption.
        + destruct (kid_frame cf l) as [vf|]; [|discriminate].
          destruct (eff_val b_ref b_mark t vf s) as [[cf1 s1]|] eqn:E1; [|discriminate].
          destruct (IHr Hxs _ _ _ _ H _ _ Hin) as [Ha|Hb].
          * destruct (Hx _ _ _ _ E1 _ _ Ha) as [?|?]; [auto|]. right. simpl. apply in_or_app. left. assumption.
          * right. simpl. apply in_or_app. right. assumption. }
    destruct (Hk _ _ _ _ Ek _ _ Hin2) as [Ha|Hb]; [|right; exact Hb].
    left. rewrite (after_begin_pend _ _ _ _ Ea), (begin_pend _ _ _ _ _ Eb) in Ha. exact Ha.
Qed.

(* ---- what the oracle run leaves in the heap ---- *)
Lemma kset_kset l v1 v2 ks : kset l v2 (kset l v1 ks) = kset l v2 ks.
Proof.
  induction ks as [|[l' r] ks IH]; simpl.
  - rewrite label_eqb_refl. reflexivity.
  - destruct (label_eqb l l') eqn:E; simpl; rewrite E; [reflexivity | rewrite IH; reflexivity].
Qed.

Lemma hget_b_set sl v s q :
  hget (b_heap (b_set sl v s)) q =
  if fst sl =? q then option_map (fun n => mkNode (nkind n) (kset (snd sl) v (nkids n))) (hget (b_heap s) q)
  else hget (b_heap s) q.
Proof.
  unfold b_set. simpl. destruct (fst sl =? q) eqn:E.
  - apply N.eqb_eq in E. subst. apply hget_hupd_same.
  - apply hget_hupd_other. apply N.eqb_neq. exact E.
Qed.

(* a tree element sitting at an address: (source address, marker, kind, children, address) *)
Definition occurrence := (addr * option N * kind * list (label * tm) * addr)%type.
Inductive occ : tm -> addr -> occurrence -> Prop :=
| occ_here a m k kids next : occ (TNode a m k kids) next (a, m, k, kids, next)
| occ_kid a m k kids next pre l t post x :
    kids = pre ++ (l, t) :: post -> occ t (next + 1 + kids_sz pre) x -> occ (TNode a m k kids) next x.

Lemma kids_sz_app a b : kids_sz (a ++ b) = kids_sz a + kids_sz b.
Proof. unfold kids_sz. induction a as [|x a IH]; simpl; [reflexivity|]. rewrite IH. lia. Qed.

Lemma kids_sz_cons l t r : kids_sz ((l, t) :: r) = tm_size t + kids_sz r.
Proof. reflexivity. Qed.
Lemma kids_sz_nil : kids_sz [] = 0.
Proof. reflexivity. Qed.

Lemma occ_range t next x : occ t next x -> next <= snd x < next + tm_size t.
Proof.
  intro H. induction H as [a m k kids next | a m k kids next pre l t post x E Ho IH].
  - simpl snd. rewrite tm_size_node. lia.
  - rewrite tm_size_node. subst kids. rewrite kids_sz_app, kids_sz_cons. lia.
Qed.

(* no null in a struct field (fields that are nil are left out under the default omit behaviour) *)
Fixpoint tm_nn (t : tm) : Prop :=
  match t with
  | TNode _ _ k kids =>
      (match k with KStruct _ => forall l t', In (l, t') kids -> t' <> TNull | _ => True end) /\
      (fix all (ks : list (label * tm)) : Prop := match ks with [] => True | lt :: r => tm_nn (snd lt) /\ all r end) kids
  | _ => True
  end.
Lemma tm_nn_node a m k kids :
  tm_nn (TNode a m k kids) <->
  (match k with KStruct _ => forall l t', In (l, t') kids -> t' <> TNull | _ => True end) /\
  Forall (fun lt : label * tm => tm_nn (snd lt)) kids.
Proof.
  cbn [tm_nn]. split; intros [H1 H2]; (split; [exact H1|]); clear H1.
  - induction kids as [|lt r IH]; [constructor|]. destruct H2 as [Ha Hb]. constructor; [exact Ha | apply IH; exact Hb].
  - induction kids as [|lt r IH]; [exact I|]. inversion H2; subst. split; [assumption | apply IH; assumption].
Qed.

Section Ideal.
Variable M : bytes -> option addr.
Notation ev_i := (eff_val (oref_i M) omark_i).

Definition val_of (t : tm) (p : addr) : ref :=
  match t with
  | TNode _ _ _ _ => Some p
  | TRef id => M (dec_bytes id)
  | _ => None
  end.
Definition set_dst (f : bframe) (v : ref) (s : bst) : bst :=
  match slot_of f with Some sl => b_set sl v s | None => s end.

Fixpoint kid_lookup (l : label) (ks : list (label * tm)) (nx : addr) : option (tm * addr) :=
  match ks with
  | [] => None
  | (l', t) :: r => if label_eqb l l' then Some (t, nx) else kid_lookup l r (nx + tm_size t)
  end.
Definition base_kids (k : kind) : list (label * ref) := match k with KStruct _ => zero_fields | _ => [] end.
Definition expect (l : label) (k : kind) (kids : list (label * tm)) (nx : addr) : option ref :=
  match kid_lookup l kids nx with
  | Some (t, p) => if is_omit t then kget l (base_kids k) else Some (val_of t p)
  | None => kget l (base_kids k)
  end.
Definition node_spec (s : bst) (x : occurrence) : Prop :=
  match x with
  | (a, m, k, kids, p) =>
      exists n', hget (b_heap s) p = Some n' /\ nkind n' = k /\ forall l, kget l (nkids n') = expect l k kids (p + 1)
  end.

Definition allocated (s : bst) : Prop := forall q n, hget (b_heap s) q = Some n -> q < b_next s.
Definition null_ok (t : tm) (f : bframe) : Prop :=
  match t, f with TNull, FStructVal _ _ _ => False | _, _ => True end.

Lemma allocated_b_set sl v s : allocated s -> allocated (b_set sl v s).
Proof.
  intros A q n H. rewrite hget_b_set in H. destruct (fst sl =? q).
  - destruct (hget (b_heap s) q) eqn:E; [|discriminate]. eapply A; eauto.
  - eapply A; eauto.
Qed.

Definition IdealGoal (t : tm) : Prop :=
  forall f si f' si',
    allocated si -> null_ok t f ->
    (match slot_of f with Some sl => fst sl < b_next si | None => True end) ->
    ev_i t f si = Some (f', si') ->
    b_next si' = b_next si + tm_size t /\ allocated si' /\
    (forall q, q < b_next si -> hget (b_heap si') q = hget (b_heap (set_dst f (val_of t (b_next si)) si)) q) /\
    (f = FTop -> b_root si' = Some (val_of t (b_next si))) /\
    (f <> FTop -> b_root si' = b_root si) /\
    (forall x, occ t (b_next si) x -> node_spec si' x).

Lemma ideal_deliver v f si f' si' :
  allocated si -> (v = None -> match f with FStructVal _ _ _ => False | _ => True end) ->
  deliver v f si = Some (f', si') ->
  b_next si' = b_next si /\ allocated si' /\
  (forall q, hget (b_heap si') q = hget (b_heap (set_dst f v si)) q) /\
  (f = FTop -> b_root si' = Some v) /\ (f <> FTop -> b_root si' = b_root si).
Proof.
  intros A Hv H. destruct f; simpl in H; try discriminate.
  - inversion H; subst. simpl. repeat split; auto. congruence.
  - destruct v as [x|]; [|exfalso; apply Hv; reflexivity].
    assert (si' = b_set (p, l) (Some x) si) by (destruct t; inversion H; reflexivity). subst.
    repeat split; auto; try (apply allocated_b_set; exact A); discriminate.
  - inversion H; subst. repeat split; auto; try (apply allocated_b_set; exact A); discriminate.
  - inversion H; subst. repeat split; auto; try (apply allocated_b_set; exact A); discriminate.
Qed.

Lemma hget_set_dst_congr f v s1 s2 q :
  hget (b_heap s1) q = hget (b_heap s2) q ->
  hget (b_heap (set_dst f v s1)) q = hget (b_heap (set_dst f v s2)) q.
Proof.
  intro H. unfold set_dst. destruct (slot_of f) as [sl|]; [|exact H].
  rewrite !hget_b_set. rewrite H. reflexivity.
Qed.

Definition occ_kids (kids : list (label * tm)) (nx : addr) (x : occurrence) : Prop :=
  exists pre l t post, kids = pre ++ (l, t) :: post /\ occ t (nx + kids_sz pre) x.

Lemma ideal_kids kids :
  Forall (fun lt : label * tm => tm_nn (snd lt) -> IdealGoal (snd lt)) kids ->
  Forall (fun lt : label * tm => tm_nn (snd lt)) kids ->
  forall cf si cf' si' p n,
    frame_addr cf = Some p -> kids_fit cf kids -> NoDup (map fst kids) ->
    (match cf with FStructKey _ => forall l t', In (l, t') kids -> t' <> TNull | _ => True end) ->
    allocated si -> hget (b_heap si) p = Some n ->
    eff_kids ev_i kids cf si = Some (cf', si') ->
    b_next si' = b_next si + kids_sz kids /\ allocated si' /\ b_root si' = b_root si /\
    (forall q, q < b_next si -> q <> p -> hget (b_heap si') q = hget (b_heap si) q) /\
    (exists n', hget (b_heap si') p = Some n' /\ nkind n' = nkind n /\
       forall l, kget l (nkids n') =
                 match kid_lookup l kids (b_next si) with
                 | Some (t, pt) => if is_omit t then kget l (nkids n) else Some (val_of t pt)
                 | None => kget l (nkids n)
                 end) /\
    (forall x, occ_kids kids (b_next si) x -> node_spec si' x).
Proof.
  induction kids as [|[l t] r IH]; intros HG HN cf si cf' si' p n Hp Hfit Hnd Hnn A Hn H.
  - simpl in H. inversion H; subst. rewrite kids_sz_nil. split; [lia|]. split; [exact A|]. split; [reflexivity|].
    split; [auto|]. split; [exists n; auto|].
    intros x [pre [l [t [post [E _]]]]]. destruct pre; discriminate.
  - inversion HG as [|x0 xs Hx Hxs]; subst. inversion HN as [|y0 ys Hnt Hnr]; subst. simpl in Hx, Hnt.
    simpl in Hnd. inversion Hnd as [|? ? Hnotin Hnd']; subst.
    assert (Hlt : p < b_next si) by (eapply A; eauto).
    simpl in H. destruct (is_omit t) eqn:Eo.
    + assert (t = TOmit) by (apply is_omit_true; exact Eo). subst t.
      assert (Hnn' : match cf with FStructKey _ => forall l0 t', In (l0, t') r -> t' <> TNull | _ => True end).
      { destruct cf; auto. intros l0 t' Hin. apply (Hnn l0 t'). right. exact Hin. }
      destruct (IH Hxs Hnr cf si cf' si' p n Hp (kids_fit_skip _ _ _ _ Hfit Eo) Hnd' Hnn' A Hn H)
        as [R1 [R2 [R3 [R4 [[n' [R5 [R6 R7]]] R8]]]]].
      split; [rewrite kids_sz_cons; cbn [tm_size]; lia|]. split; [exact R2|]. split; [exact R3|]. split; [exact R4|].
      split.
      * exists n'. split; [exact R5|]. split; [exact R6|]. intro l0. rewrite R7. simpl. rewrite N.add_0_r.
        destruct (label_eqb l0 l) eqn:El; [|reflexivity].
        apply label_eqb_eq in El. subst l0. simpl.
        assert (Hnone : forall nx, kid_lookup l r nx = None).
        { clear - Hnotin. induction r as [|[l1 t1] r IHr]; intro nx; simpl; [reflexivity|].
          rewrite label_eqb_neq; [apply IHr; intro; apply Hnotin; right; assumption|].
          intros ->. apply Hnotin. left. reflexivity. }
        rewrite Hnone. reflexivity.
      * intros x [pre [l0 [t0 [post [E Ho]]]]]. destruct pre as [|[l1 t1] pre].
        -- simpl in E. inversion E; subst. inversion Ho.
        -- simpl in E. inversion E; subst. apply R8. exists pre, l0, t0, post. split; [reflexivity|].
           rewrite kids_sz_cons in Ho. cbn [tm_size] in Ho. rewrite N.add_0_l in Ho. exact Ho.
    + destruct (kids_fit_step cf p l t r Hp Hfit Eo) as [vf [Ekf [Hslot [Hfit' Hp']]]].
      rewrite Ekf in H.
      destruct (ev_i t vf si) as [[cf1 s1]|] eqn:E1; [|discriminate].
      assert (Hcf1 : cf1 = next_frame vf) by (eapply eff_val_next; eauto). subst cf1.
      assert (Hnull : null_ok t vf).
      { unfold null_ok. destruct t; auto. destruct vf; auto. destruct cf; simpl in Ekf; try discriminate.
        - apply (Hnn l TNull); [left; reflexivity | reflexivity].
        - destruct l; discriminate.
        - destruct l; discriminate. }
      assert (Hvf_top : vf <> FTop) by (intros ->; simpl in Hslot; discriminate).
      destruct (Hx Hnt vf si (next_frame vf) s1 A Hnull) as [Q1 [Q2 [Q3 [_ [Q5 Q6]]]]]; [rewrite Hslot; exact Hlt | exact E1 |].
      specialize (Q5 Hvf_top).
      (* node p after the child *)
      assert (Hn1 : hget (b_heap s1) p = Some (mkNode (nkind n) (kset l (val_of t (b_next si)) (nkids n)))).
      { rewrite (Q3 p Hlt). unfold set_dst. rewrite Hslot. rewrite hget_b_set. simpl. rewrite N.eqb_refl, Hn. reflexivity. }
      assert (Hnn' : match next_frame vf with FStructKey _ => forall l0 t', In (l0, t') r -> t' <> TNull | _ => True end).
      { destruct cf; simpl in Ekf; try discriminate.
        - destruct l; try discriminate. destruct (field_find _ 0 fields) as [[l' t']|]; [|discriminate].
          inversion Ekf; subst. simpl. intros l0 t0 Hin. apply (Hnn l0 t0). right. exact Hin.
        - destruct l; try discriminate. inversion Ekf; subst. exact I.
        - destruct l; try discriminate. inversion Ekf; subst. exact I. }
      destruct (IH Hxs Hnr (next_frame vf) s1 cf' si' p _ Hp' Hfit' Hnd' Hnn' Q2 Hn1 H)
        as [R1 [R2 [R3 [R4 [[n' [R5 [R6 R7]]] R8]]]]].
      split; [rewrite R1, Q1, kids_sz_cons; lia|]. split; [exact R2|]. split; [congruence|].
      split.
      { intros q Hq Hqp. rewrite R4; [|rewrite Q1; lia | exact Hqp]. rewrite (Q3 q Hq).
        unfold set_dst. rewrite Hslot, hget_b_set. simpl.
        assert (E : (p =? q) = false) by (apply N.eqb_neq; congruence). rewrite E. reflexivity. }
      split.
      * exists n'. split; [exact R5|]. split; [exact R6|]. intro l0. rewrite R7. simpl. rewrite Q1.
        destruct (label_eqb l0 l) eqn:El.
        -- apply label_eqb_eq in El. subst l0. rewrite Eo.
           assert (Hnone : forall nx, kid_lookup l r nx = None).
           { clear - Hnotin. induction r as [|[l1 t1] r IHr]; intro nx; simpl; [reflexivity|].
             rewrite label_eqb_neq; [apply IHr; intro; apply Hnotin; right; assumption|].
             intros ->. apply Hnotin. left. reflexivity. }
           rewrite Hnone. apply kget_kset_same.
        -- assert (l <> l0) by (intros ->; rewrite label_eqb_refl in El; discriminate).
           destruct (kid_lookup l0 r (b_next si + tm_size t)) as [[t2 p2]|].
           ++ destruct (is_omit t2); [apply kget_kset_other; assumption | reflexivity].
           ++ apply kget_kset_other; assumption.
      * intros x [pre [l0 [t0 [post [E Ho]]]]]. destruct pre as [|[l1 t1] pre].
        -- simpl in E. inversion E; subst. rewrite kids_sz_nil, N.add_0_r in Ho.
           assert (Hs := Q6 x Ho). assert (Hr := occ_range _ _ _ Ho).
           destruct x as [[[[xa xm] xk] xkids] xp]. simpl in Hr. unfold node_spec in *.
           rewrite R4; [exact Hs | rewrite Q1; lia | lia].
        -- simpl in E. inversion E; subst. apply R8. exists pre, l0, t0, post. split; [reflexivity|].
           rewrite Q1. rewrite kids_sz_cons in Ho.
           replace (b_next si + tm_size t1 + kids_sz pre) with (b_next si + (tm_size t1 + kids_sz pre)) by lia. exact Ho.
Qed.

Lemma ideal_begin ty k si cf s1 s1' :
  allocated si ->
  begin_container ty (kind_begin k) si = Some (cf, s1) -> after_begin k cf s1 = Some s1' ->
  frame_addr cf = Some (b_next si) /\
  (cf = FStructKey (b_next si) \/ cf = FSlice (b_next si) 0 \/ cf = FMapKey (b_next si)) /\
  b_next s1' = b_next si + 1 /\ allocated s1' /\ b_root s1' = b_root si /\
  hget (b_heap s1') (b_next si) = Some (mkNode k (base_kids k)) /\
  (forall q, q <> b_next si -> hget (b_heap s1') q = hget (b_heap si) q).
Proof.
  intros A Hb Ha.
  destruct ty, k; simpl in Hb; try discriminate; inversion Hb; subst; simpl in Ha; try discriminate; inversion Ha; subst.
  - split; [reflexivity|]. split; [auto|]. split; [reflexivity|].
    split.
    { intros q n. unfold b_payload. simpl. rewrite N.eqb_refl. destruct (q =? b_next si) eqn:E.
      - apply N.eqb_eq in E. subst. intros _. lia.
      - intro H. simpl in H. rewrite E in H. assert (q < b_next si) by (eapply A; eauto). lia. }
    split; [reflexivity|]. split.
    { unfold b_payload. repeat (simpl; rewrite ?N.eqb_refl). reflexivity. }
    intros q Hq. unfold b_payload.
    assert (E : (q =? b_next si) = false) by (apply N.eqb_neq; exact Hq).
    repeat (simpl; rewrite ?N.eqb_refl, ?E). reflexivity.
  - split; [reflexivity|]. split; [auto|]. split; [reflexivity|].
    split.
    { intros q n. simpl. destruct (q =? b_next si) eqn:E.
      - apply N.eqb_eq in E. subst. intros _. lia.
      - intro H. assert (q < b_next si) by (eapply A; eauto). lia. }
    split; [reflexivity|]. split.
    { simpl. rewrite N.eqb_refl. reflexivity. }
    intros q Hq. simpl. assert (E : (q =? b_next si) = false) by (apply N.eqb_neq; exact Hq). rewrite E. reflexivity.
  - split; [reflexivity|]. split; [auto|]. split; [reflexivity|].
    split.
    { intros q n. simpl. destruct (q =? b_next si) eqn:E.
      - apply N.eqb_eq in E. subst. intros _. lia.
      - intro H. assert (q < b_next si) by (eapply A; eauto). lia. }
    split; [reflexivity|]. split.
    { simpl. rewrite N.eqb_refl. reflexivity. }
    intros q Hq. simpl. assert (E : (q =? b_next si) = false) by (apply N.eqb_neq; exact Hq). rewrite E. reflexivity.
Qed.

Lemma hget_set_dst_other f v s q :
  (match slot_of f with Some sl => fst sl <> q | None => True end) ->
  hget (b_heap (set_dst f v s)) q = hget (b_heap s) q.
Proof.
  unfold set_dst. destruct (slot_of f) as [sl|]; [|reflexivity]. intro H. rewrite hget_b_set.
  assert (E : (fst sl =? q) = false) by (apply N.eqb_neq; exact H). rewrite E. reflexivity.
Qed.

Lemma ideal_val t : tm_wf t -> tm_nn t -> IdealGoal t.
Proof.
  induction t as [| |id|a m k kids IHk] using tm_ind'; intros Hwf Hnn f si f' si' A Hnull Hdst H.
  - discriminate.
  - cbn [eff_val] in H.
    destruct (ideal_deliver None f si f' si' A) as [D1 [D2 [D3 [D4 D5]]]]; [|exact H|].
    { intros _. unfold null_ok in Hnull. destruct f; auto. }
    cbn [tm_size val_of]. split; [lia|]. split; [exact D2|]. split; [intros q _; apply D3|].
    split; [exact D4|]. split; [exact D5|]. intros x Ho. inversion Ho.
  - cbn [eff_val] in H. unfold ref_step in H. cbn [tm_size val_of].
    destruct f; try discriminate; inversion H; subst; unfold oref_i.
    + split; [simpl; lia|]. split; [apply allocated_b_set; exact A|]. split; [intros q _; reflexivity|].
      split; [discriminate|]. split; [reflexivity|]. intros x Ho. inversion Ho.
    + split; [simpl; lia|]. split; [apply allocated_b_set, allocated_b_set; exact A|].
      split.
      { intros q _. unfold set_dst. cbn [slot_of]. rewrite !hget_b_set. cbn [fst snd].
        destruct (p =? q); [|reflexivity]. destruct (hget (b_heap si) q) as [n0|]; [|reflexivity].
        cbn [option_map nkind nkids]. rewrite kset_kset. reflexivity. }
      split; [discriminate|]. split; [reflexivity|]. intros x Ho. inversion Ho.
    + split; [simpl; lia|]. split; [apply allocated_b_set; exact A|]. split; [intros q _; reflexivity|].
      split; [discriminate|]. split; [reflexivity|]. intros x Ho. inversion Ho.
  - apply tm_wf_node in Hwf. destruct Hwf as [Hok Hwk]. apply tm_nn_node in Hnn. destruct Hnn as [Hn1 Hnk].
    cbn [eff_val] in H.
    destruct (frame_ty f) as [ty|] eqn:Ety; [|discriminate].
    destruct (begin_container ty (kind_begin k) si) as [[cf s1]|] eqn:Eb; [|discriminate].
    destruct (after_begin k cf s1) as [s1'|] eqn:Ea; [|discriminate].
    destruct (eff_kids ev_i kids cf s1') as [[cf' s2]|] eqn:Ek; [|discriminate].
    destruct (frame_addr cf') as [p'|] eqn:Ep; [|discriminate].
    set (p := b_next si) in *.
    destruct (ideal_begin _ _ _ _ _ _ A Eb Ea) as [B1 [B2 [B3 [B4 [B5 [B6 B7]]]]]]. fold p in B1, B2, B3, B6, B7.
    assert (Hfit : kids_fit cf kids) by (eapply after_begin_fit; eauto).
    assert (Hnnc : match cf with FStructKey _ => forall l t', In (l, t') kids -> t' <> TNull | _ => True end).
    { destruct k, cf; simpl in Ea; try discriminate; auto. }
    assert (IHk' : Forall (fun lt : label * tm => tm_nn (snd lt) -> IdealGoal (snd lt)) kids).
    { clear - IHk Hwk. induction kids as [|lt r IHr]; [constructor|].
      inversion IHk; subst. inversion Hwk; subst. constructor; [auto | apply IHr; assumption]. }
    destruct (ideal_kids kids IHk' Hnk cf s1' cf' s2 p _ B1 Hfit (proj1 Hok) Hnnc B4 B6 Ek)
      as [R1 [R2 [R3 [R4 [[n' [R5 [R6 R7]]] R8]]]]].
    assert (Hp' : p' = p).
    { assert (Hc : frame_addr cf' = Some p).
      { clear - Ek B1. revert cf s1' Ek B1. induction kids as [|[l t] r IHr]; intros cf s1' Ek B1; simpl in Ek.
        - inversion Ek; subst. exact B1.
        - destruct (is_omit t); [eapply IHr; eauto|].
          destruct (kid_frame cf l) as [vf|] eqn:Ev; [|discriminate].
          destruct (ev_i t vf s1') as [[cf1 s1'']|] eqn:E1; [|discriminate].
          assert (cf1 = next_frame vf) by (eapply eff_val_next; eauto). subst cf1.
          eapply IHr; [exact Ek|].
          destruct cf, l; simpl in Ev; try discriminate.
          + destruct (field_find _ 0 fields) as [[l' t']|]; [|discriminate]. inversion Ev; subst. exact B1.
          + inversion Ev; subst. exact B1.
          + inversion Ev; subst. exact B1. }
      congruence. }
    subst p'.
    assert (Hsome : (Some p : ref) = None -> match f with FStructVal _ _ _ => False | _ => True end) by discriminate.
    assert (Hs2 : (match m with Some id => omark_i (dec_bytes id) p s2 | None => s2 end) = s2) by (destruct m; reflexivity).
    rewrite Hs2 in H.
    destruct (ideal_deliver (Some p) f s2 f' si' R2 Hsome H) as [D1 [D2 [D3 [D4 D5]]]].
    assert (Hq0 : match slot_of f with Some sl => fst sl <> p | None => True end).
    { destruct (slot_of f) as [sl|]; [|exact I]. lia. }
    rewrite tm_size_node. cbn [val_of]. fold p.
    split; [rewrite D1, R1, B3; lia|]. split; [exact D2|].
    split.
    { intros q Hq. rewrite D3. apply hget_set_dst_congr. rewrite R4 by lia. apply B7. lia. }
    split; [exact D4|]. split; [intro Hf; rewrite (D5 Hf), R3; exact B5|].
    intros x Ho. inversion Ho as [? ? ? ? ? | ? ? ? ? ? pre l t post x0 E Ho' ]; subst.
    + unfold node_spec. rewrite D3, hget_set_dst_other by exact Hq0.
      exists n'. split; [exact R5|]. split; [exact R6|]. intro l. rewrite R7. rewrite B3. unfold expect.
      destruct (kid_lookup l kids (p + 1)) as [[t pt]|]; reflexivity.
    + assert (Hs : node_spec s2 x).
      { apply R8. exists pre, l, t, post. split; [reflexivity|]. rewrite B3. exact Ho'. }
      assert (Hr := occ_range _ _ _ Ho').
      destruct x as [[[[xa xm] xk] xkids] xp]. simpl in Hr. unfold node_spec in *.
      rewrite D3, hget_set_dst_other; [exact Hs|].
      destruct (slot_of f) as [sl|]; [|exact I]. lia.
Qed.

End Ideal.

(* ------------------------------------------------------------------------- *)
(* Part 4: the shape of the iterator's call tree                               *)

Section Shape.
Variable h : heap.
Variable dups : list addr.
Variable omit_never : bool.

Notation trav := (gtrav h dups omit_never).
Notation trav_kids := (gtrav_kids h omit_never).

(* the tree describes the heap below r, names taken from the table sF *)
Fixpoint rel (sF : ist) (r : ref) (t : tm) : Prop :=
  match t with
  | TOmit => empty_target h r = true /\ omit_never = false
  | TNull => r = None
  | TRef id => exists a, r = Some a /\ mem a dups = true /\ named_find a (g_named sF) = Some id
  | TNode a m k kids =>
      r = Some a /\ exists n, hget h a = Some n /\ k = nkind n /\
      match m with
      | Some id => mem a dups = true /\ named_find a (g_named sF) = Some id
      | None => mem a dups = false
      end /\
      (fix go (ks : list (label * tm)) (rs : list (label * ref)) : Prop :=
         match ks, rs with
         | [], [] => True
         | (l, t') :: ks', (l', r') :: rs' =>
             l = l' /\ (is_omit t' = true -> is_struct n = true) /\
             (is_struct n = true -> omit_never = false -> t' <> TNull) /\ rel sF r' t' /\ go ks' rs'
         | _, _ => False
         end) kids (nkids n)
  end.
Fixpoint rel_kids (sF : ist) (sf : bool) (ks : list (label * tm)) (rs : list (label * ref)) : Prop :=
  match ks, rs with
  | [], [] => True
  | (l, t') :: ks', (l', r') :: rs' =>
      l = l' /\ (is_omit t' = true -> sf = true) /\ (sf = true -> omit_never = false -> t' <> TNull) /\
      rel sF r' t' /\ rel_kids sF sf ks' rs'
  | _, _ => False
  end.
Lemma rel_node sF r a m k kids :
  rel sF r (TNode a m k kids) <->
  r = Some a /\ exists n, hget h a = Some n /\ k = nkind n /\
    match m with
    | Some id => mem a dups = true /\ named_find a (g_named sF) = Some id
    | None => mem a dups = false
    end /\ rel_kids sF (is_struct n) kids (nkids n).
Proof.
  cbn [rel]. split; intros [H1 [n [H2 [H3 [H4 H5]]]]].
  - split; [exact H1|]. exists n. split; [exact H2|]. split; [exact H3|]. split; [exact H4|].
    revert H5. generalize (nkids n). induction kids as [|[l t] ks IH]; intros [|[l' r'] rs] H; simpl in *; try tauto.
    destruct H as [A [B [B' [C D]]]]. repeat split; auto.
  - split; [exact H1|]. exists n. split; [exact H2|]. split; [exact H3|]. split; [exact H4|].
    revert H5. generalize (nkids n). induction kids as [|[l t] ks IH]; intros [|[l' r'] rs] H; simpl in *; try tauto.
    destruct H as [A [B [B' [C D]]]]. split; [exact A|]. split; [exact B|]. split; [exact B'|]. split; [exact C|]. apply IH. exact D.
Qed.

Lemma kids_rel tr :
  (forall r s t s', tr r s = Some (t, s') -> ext s s' /\ is_omit t = false /\ forall sF, ext s' sF -> rel sF r t) ->
  forall sf rs s ts s', trav_kids tr sf rs s = Some (ts, s') ->
    forall sF, ext s' sF -> rel_kids sF sf ts rs.
Proof.
  intros Htr sf rs. induction rs as [|[l r] rs IH]; intros s ts s' H sF HF; simpl in H.
  - inversion H; subst. exact I.
  - destruct (sf && negb omit_never && empty_target h r) eqn:Eo.
    + destruct (trav_kids tr sf rs s) as [[ts0 s0]|] eqn:E; [|discriminate].
      inversion H; subst. simpl.
      apply andb_true_iff in Eo. destruct Eo as [Eo E3]. apply andb_true_iff in Eo. destruct Eo as [E1 E2].
      split; [reflexivity|]. split; [intros _; exact E1|]. split; [discriminate|]. split.
      * split; [exact E3|]. destruct omit_never; [discriminate | reflexivity].
      * eapply IH; eauto.
    + destruct (tr r s) as [[t1 s1]|] eqn:E1; [|discriminate].
      destruct (trav_kids tr sf rs s1) as [[ts0 s0]|] eqn:E; [|discriminate].
      inversion H; subst. simpl.
      destruct (Htr _ _ _ _ E1) as [He1 [Hno Hr1]].
      assert (He2 : ext s1 s').
      { eapply (kids_ext h omit_never tr); [|exact E]. intros r0 s2 t2 s3 H2. apply (Htr _ _ _ _ H2). }
      split; [reflexivity|]. split; [intro Hom; congruence|].
      split.
      { intros Hsf Hon ->. assert (Hn := Hr1 s1 (ext_refl s1)). simpl in Hn. subst r.
        rewrite Hsf, Hon in Eo. simpl in Eo. discriminate. }
      split; [apply Hr1; eapply ext_trans; eauto | eapply IH; eauto].
Qed.

Lemma named_find_cons_same (a : addr) id l : named_find a ((a, id) :: l) = Some id.
Proof. simpl. rewrite N.eqb_refl. reflexivity. Qed.

Lemma gtrav_rel fuel : forall r s t s',
  trav fuel r s = Some (t, s') -> ext s s' /\ is_omit t = false /\ forall sF, ext s' sF -> rel sF r t.
Proof.
  induction fuel as [|f IH]; intros r s t s' H.
  - destruct r as [a|]; simpl in H; [discriminate|]. inversion H; subst.
    split; [apply ext_refl|]. split; [reflexivity|]. intros sF _. reflexivity.
  - split; [eapply gtrav_ext; eauto|].
    destruct r as [a|]; [|simpl in H; inversion H; subst; split; [reflexivity|]; intros sF _; reflexivity].
    rewrite gtrav_S in H.
    destruct (hget h a) as [n|] eqn:En; [|discriminate].
    destruct (mem a dups) eqn:Ed.
    + destruct (named_find a (g_named s)) as [id|] eqn:Enm.
      * inversion H; subst. split; [reflexivity|]. intros sF HF. exists a. repeat split; auto.
      * destruct (trav_kids (trav f) (is_struct n) (nkids n) _) as [[ts s2]|] eqn:Ek; [|discriminate].
        inversion H; subst. split; [reflexivity|]. intros sF HF. apply rel_node.
        split; [reflexivity|]. exists n. split; [exact En|]. split; [reflexivity|].
        assert (He : ext (mkIst ((a, g_next s) :: g_named s) ((g_next s + 1) mod 4294967296)) s').
        { eapply (kids_ext h omit_never (trav f)); [|exact Ek]. intros r0 s0 t0 s1 H0. apply (IH _ _ _ _ H0). }
        split.
        -- split; [exact Ed|]. apply HF, He. apply named_find_cons_same.
        -- eapply kids_rel; [|exact Ek|exact HF]. intros r0 s0 t0 s1 H0. apply (IH _ _ _ _ H0).
    + destruct (trav_kids (trav f) (is_struct n) (nkids n) s) as [[ts s2]|] eqn:Ek; [|discriminate].
      inversion H; subst. split; [reflexivity|]. intros sF HF. apply rel_node.
      split; [reflexivity|]. exists n. split; [exact En|]. split; [reflexivity|]. split; [exact Ed|].
      eapply kids_rel; [|exact Ek|exact HF]. intros r0 s0 t0 s1 H0. apply (IH _ _ _ _ H0).
Qed.

(* ---- names ---- *)
Fixpoint tm_marked (t : tm) : list (addr * N) :=
  match t with
  | TNode a m _ kids =>
      (match m with Some id => [(a, id)] | None => [] end) ++ flat_map (fun lt : label * tm => tm_marked (snd lt)) kids
  | _ => []
  end.
Definition kids_marked (ks : list (label * tm)) : list (addr * N) := flat_map (fun lt : label * tm => tm_marked (snd lt)) ks.

Lemma kids_named tr :
  (forall r s t s', tr r s = Some (t, s') -> g_named s' = rev (tm_marked t) ++ g_named s) ->
  forall sf rs s ts s', trav_kids tr sf rs s = Some (ts, s') -> g_named s' = rev (kids_marked ts) ++ g_named s.
Proof.
  intros Htr sf rs. induction rs as [|[l r] rs IH]; intros s ts s' H; simpl in H.
  - inversion H; subst. reflexivity.
  - destruct (sf && negb omit_never && empty_target h r).
    + destruct (trav_kids tr sf rs s) as [[ts0 s0]|] eqn:E; [|discriminate].
      inversion H; subst. unfold kids_marked. simpl. apply (IH _ _ _ E).
    + destruct (tr r s) as [[t1 s1]|] eqn:E1; [|discriminate].
      destruct (trav_kids tr sf rs s1) as [[ts0 s0]|] eqn:E; [|discriminate].
      inversion H; subst. unfold kids_marked. simpl. rewrite rev_app_distr, <- app_assoc.
      rewrite <- (Htr _ _ _ _ E1). apply (IH _ _ _ E).
Qed.

Lemma gtrav_named fuel : forall r s t s',
  trav fuel r s = Some (t, s') -> g_named s' = rev (tm_marked t) ++ g_named s.
Proof.
  induction fuel as [|f IH]; intros r s t s' H.
  - destruct r as [a|]; simpl in H; [discriminate|]. inversion H; subst. reflexivity.
  - destruct r as [a|]; [|simpl in H; inversion H; subst; reflexivity].
    rewrite gtrav_S in H.
    destruct (hget h a) as [n|] eqn:En; [|discriminate].
    destruct (mem a dups) eqn:Ed.
    + destruct (named_find a (g_named s)) as [id|] eqn:Enm.
      * inversion H; subst. reflexivity.
      * destruct (trav_kids (trav f) (is_struct n) (nkids n) _) as [[ts s2]|] eqn:Ek; [|discriminate].
        inversion H; subst. rewrite (kids_named _ IH _ _ _ _ _ Ek). simpl.
        fold (kids_marked ts). rewrite <- app_assoc. reflexivity.
    + destruct (trav_kids (trav f) (is_struct n) (nkids n) s) as [[ts s2]|] eqn:Ek; [|discriminate].
      inversion H; subst. rewrite (kids_named _ IH _ _ _ _ _ Ek). reflexivity.
Qed.

(* ---- the name table ---- *)
Hypothesis dups_small : N.of_nat (length dups) < 4294967296.

Definition ist_ok (s : ist) : Prop :=
  NoDup (map fst (g_named s)) /\ NoDup (map snd (g_named s)) /\
  (forall a id, In (a, id) (g_named s) -> mem a dups = true /\ id < g_next s) /\
  g_next s = N.of_nat (length (g_named s)).

Lemma named_find_None (a : addr) (l : list (addr * N)) : named_find a l = None -> ~ In a (map fst l).
Proof.
  induction l as [|[a' id] l IH]; simpl; intros H Hin; [exact Hin|].
  destruct (a =? a') eqn:E; [discriminate|]. destruct Hin as [Heq|Hin].
  - subst. rewrite N.eqb_refl in E. discriminate.
  - apply IH; assumption.
Qed.
Lemma named_find_In (a : addr) id (l : list (addr * N)) :
  NoDup (map fst l) -> (named_find a l = Some id <-> In (a, id) l).
Proof.
  induction l as [|[a' id'] l IH]; simpl; intro Hn; [split; [discriminate | tauto]|].
  inversion Hn; subst. destruct (a =? a') eqn:E.
  - apply N.eqb_eq in E. subst. split.
    + intro H. inversion H; subst. left. reflexivity.
    + intros [H|H]; [inversion H; reflexivity|]. exfalso. apply H1. apply in_map_iff. exists (a', id). auto.
  - split.
    + intro H. right. apply IH; assumption.
    + intros [H|H]; [inversion H; subst; rewrite N.eqb_refl in E; discriminate|]. apply IH; assumption.
Qed.

Lemma ist_ok_cons s a :
  ist_ok s -> mem a dups = true -> named_find a (g_named s) = None ->
  ist_ok (mkIst ((a, g_next s) :: g_named s) ((g_next s + 1) mod 4294967296)).
Proof.
  intros [H1 [H2 [H3 H4]]] Hm Hn.
  assert (Hnotin : ~ In a (map fst (g_named s))) by (apply named_find_None; exact Hn).
  assert (Hlen : (length (a :: map fst (g_named s)) <= length dups)%nat).
  { apply NoDup_incl_length; [constructor; assumption|].
    intros x [->|Hx]; [apply mem_In; exact Hm|].
    apply in_map_iff in Hx. destruct Hx as [[x' id] [Hx1 Hx2]]. simpl in Hx1. subst.
    apply mem_In. apply (H3 _ _ Hx2). }
  simpl in Hlen. rewrite map_length in Hlen.
  assert (Hmod : (g_next s + 1) mod 4294967296 = g_next s + 1) by (apply N.mod_small; lia).
  unfold ist_ok. simpl. rewrite Hmod. split; [constructor; assumption|]. split.
  - constructor; [|exact H2]. intro Hin. apply in_map_iff in Hin. destruct Hin as [[x id] [Hx1 Hx2]]. simpl in Hx1. subst.
    destruct (H3 _ _ Hx2) as [_ Hlt]. lia.
  - split; [|lia]. intros x id [Heq|Hin].
    + inversion Heq; subst. split; [exact Hm | lia].
    + destruct (H3 _ _ Hin) as [Ha Hb]. split; [exact Ha | lia].
Qed.

Lemma kids_ok_ist tr :
  (forall r s t s', ist_ok s -> tr r s = Some (t, s') -> ist_ok s') ->
  forall sf rs s ts s', ist_ok s -> trav_kids tr sf rs s = Some (ts, s') -> ist_ok s'.
Proof.
  intros Htr sf rs. induction rs as [|[l r] rs IH]; intros s ts s' Hok H; simpl in H.
  - inversion H; subst. exact Hok.
  - destruct (sf && negb omit_never && empty_target h r).
    + destruct (trav_kids tr sf rs s) as [[ts0 s0]|] eqn:E; [|discriminate]. inversion H; subst. eapply IH; eauto.
    + destruct (tr r s) as [[t1 s1]|] eqn:E1; [|discriminate].
      destruct (trav_kids tr sf rs s1) as [[ts0 s0]|] eqn:E; [|discriminate]. inversion H; subst.
      eapply IH; [|exact E]. eapply Htr; eauto.
Qed.

Lemma gtrav_ok fuel : forall r s t s', ist_ok s -> trav fuel r s = Some (t, s') -> ist_ok s'.
Proof.
  induction fuel as [|f IH]; intros r s t s' Hok H.
  - destruct r as [a|]; simpl in H; [discriminate|]. inversion H; subst. exact Hok.
  - destruct r as [a|]; [|simpl in H; inversion H; subst; exact Hok].
    rewrite gtrav_S in H.
    destruct (hget h a) as [n|] eqn:En; [|discriminate].
    destruct (mem a dups) eqn:Ed.
    + destruct (named_find a (g_named s)) as [id|] eqn:Enm.
      * inversion H; subst. exact Hok.
      * destruct (trav_kids (trav f) (is_struct n) (nkids n) _) as [[ts s2]|] eqn:Ek; [|discriminate].
        inversion H; subst. eapply (kids_ok_ist (trav f)); [exact IH | | exact Ek].
        apply ist_ok_cons; assumption.
    + destruct (trav_kids (trav f) (is_struct n) (nkids n) s) as [[ts s2]|] eqn:Ek; [|discriminate].
      inversion H; subst. eapply (kids_ok_ist (trav f)); [exact IH | exact Hok | exact Ek].
Qed.

Lemma ist0_ok : ist_ok ist0.
Proof. unfold ist_ok, ist0. simpl. repeat split; try constructor; try contradiction. Qed.

End Shape.

(* ---- every object is written out at most once ---- *)
Section Shape2.
Variable h : heap.
Variable dups : list addr.
Variable omit_never : bool.
Notation rel := (rel h dups omit_never).
Notation rel_kids := (rel_kids h dups omit_never).
Notation rel_node := (rel_node h dups omit_never).

Fixpoint tm_srcs (t : tm) : list addr :=
  match t with
  | TNode a _ _ kids => a :: flat_map (fun lt : label * tm => tm_srcs (snd lt)) kids
  | _ => []
  end.
Definition kids_srcs (ks : list (label * tm)) : list addr := flat_map (fun lt : label * tm => tm_srcs (snd lt)) ks.
Definition kidrefs (x : addr) : list ref :=
  match hget h x with Some n => map snd (nkids n) | None => [] end.
Notation cnt := (count_occ N.eq_dec).

Lemma occurrences_cons b r rs :
  occurrences b (r :: rs) = ((match r with Some a => if N.eqb b a then 1 else 0 | None => 0 end) + occurrences b rs)%nat.
Proof.
  unfold occurrences. simpl. destruct r as [a|]; [destruct (b =? a)|]; reflexivity.
Qed.

Section Count.
Variable sF : ist.
Variable b : addr.
Hypothesis b_unmarked : mem b dups = false.
Hypothesis b_nonempty : empty_target h (Some b) = false.
Let g (x : addr) : nat := occurrences b (kidrefs x).

Definition here (t : tm) (r : ref) : nat :=
  match t, r with
  | TNode _ _ _ _, Some a => if b =? a then 1%nat else 0%nat
  | _, _ => 0%nat
  end.

(* a reference to b, unmarked and not empty, is always answered by writing b out *)
Lemma here_ref t r : rel sF r t -> here t r = match r with Some a => if b =? a then 1%nat else 0%nat | None => 0%nat end.
Proof.
  intro H. destruct r as [a|]; [|destruct t; reflexivity].
  destruct (b =? a) eqn:E; [|destruct t; simpl; rewrite ?E; reflexivity].
  apply N.eqb_eq in E. subst a. destruct t; simpl in *.
  - destruct H as [H _]. congruence.
  - discriminate.
  - destruct H as [a [H1 [H2 _]]]. inversion H1; subst. congruence.
  - rewrite N.eqb_refl. reflexivity.
Qed.

Lemma count_eq t : forall r, rel sF r t -> cnt (tm_srcs t) b = (here t r + list_sum (map g (tm_srcs t)))%nat.
Proof.
  induction t as [| |id|a m k kids IHk] using tm_ind'; intros r H; try (destruct r; reflexivity).
  apply rel_node in H. destruct H as [Hr [n [Hn [Hk [Hm Hkids]]]]]. subst r.
  cbn [tm_srcs]. fold (kids_srcs kids). cbn [count_occ map list_sum here].
  assert (Hg : g a = occurrences b (map snd (nkids n))) by (unfold g, kidrefs; rewrite Hn; reflexivity).
  assert (Hks : cnt (kids_srcs kids) b = (occurrences b (map snd (nkids n)) + list_sum (map g (kids_srcs kids)))%nat).
  { clear Hn Hg Hm. revert Hkids. generalize (nkids n). generalize (is_struct n).
    induction kids as [|[l t] ks IHl]; intros sf [|[l' r'] rs] Hrel; simpl in Hrel; try contradiction.
    - reflexivity.
    - destruct Hrel as [_ [_ [_ [Hrt Hrest]]]]. inversion IHk as [|x xs Hx Hxs]; subst. simpl in Hx.
      unfold kids_srcs. simpl. fold (kids_srcs ks). rewrite count_occ_app, map_app, list_sum_app.
      change (@count_occ addr N.eq_dec) with (@count_occ N N.eq_dec).
      rewrite (Hx _ Hrt), (IHl Hxs _ _ Hrest), (here_ref _ _ Hrt), occurrences_cons. lia. }
  rewrite Hks, Hg. simpl (list_sum (_ :: _)). destruct (N.eq_dec a b) as [->|Hne].
  - rewrite N.eqb_refl. lia.
  - assert (E : (b =? a) = false) by (apply N.eqb_neq; congruence). rewrite E. lia.
Qed.
End Count.

(* marked objects: once, because each gets one name *)
Lemma count_marked sF t : forall r b, rel sF r t -> mem b dups = true ->
  cnt (tm_srcs t) b = cnt (map fst (tm_marked t)) b.
Proof.
  induction t as [| |id|a m k kids IHk] using tm_ind'; intros r b H Hb; try reflexivity.
  apply rel_node in H. destruct H as [Hr [n [Hn [Hk [Hm Hkids]]]]].
  cbn [tm_srcs tm_marked]. fold (kids_srcs kids) (kids_marked kids). rewrite map_app.
  assert (Hks : cnt (kids_srcs kids) b = cnt (map fst (kids_marked kids)) b).
  { clear Hn Hm. revert Hkids. generalize (nkids n). generalize (is_struct n).
    induction kids as [|[l t] ks IHl]; intros sf [|[l' r'] rs] Hrel; simpl in Hrel; try contradiction.
    - reflexivity.
    - destruct Hrel as [_ [_ [_ [Hrt Hrest]]]]. inversion IHk as [|x xs Hx Hxs]; subst. simpl in Hx.
      unfold kids_srcs, kids_marked. simpl. fold (kids_srcs ks) (kids_marked ks).
      rewrite map_app, !count_occ_app. change (@count_occ addr N.eq_dec) with (@count_occ N N.eq_dec).
      rewrite (Hx _ _ Hrt Hb), (IHl Hxs _ _ Hrest). reflexivity. }
  rewrite count_occ_app. change (@count_occ addr N.eq_dec) with (@count_occ N N.eq_dec). rewrite <- Hks.
  destruct (N.eq_dec a b) as [->|Hne].
  - destruct m as [id|]; [|rewrite Hb in Hm; discriminate]. simpl. destruct (N.eq_dec b b); [lia | contradiction].
  - destruct m as [id|]; simpl; destruct (N.eq_dec a b); try contradiction; lia.
Qed.

Lemma list_sum_remove (g : addr -> nat) k l :
  list_sum (map g l) = (cnt l k * g k + list_sum (map g (remove N.eq_dec k l)))%nat.
Proof.
  induction l as [|x l IH]; simpl; [lia|].
  destruct (N.eq_dec k x) as [->|Hne].
  - destruct (N.eq_dec x x); [|contradiction]. lia.
  - destruct (N.eq_dec x k); [congruence|]. simpl. lia.
Qed.
Lemma count_remove_neq k x l : x <> k -> cnt (remove N.eq_dec k l) x = cnt l x.
Proof.
  intro Hne. induction l as [|y l IH]; simpl; [reflexivity|].
  destruct (N.eq_dec k y) as [->|Hky].
  - destruct (N.eq_dec y x); [congruence | exact IH].
  - simpl. destruct (N.eq_dec y x); rewrite IH; reflexivity.
Qed.

Lemma sum_le_keys (g : addr -> nat) keys : NoDup keys -> forall l,
  (forall x, In x l -> (g x > 0)%nat -> In x keys /\ (cnt l x <= 1)%nat) ->
  (list_sum (map g l) <= list_sum (map g keys))%nat.
Proof.
  induction keys as [|k ks IH]; intros Hnd l H.
  - simpl. assert (Hz : forall x, In x l -> g x = 0%nat).
    { intros x Hx. destruct (g x) eqn:E; [reflexivity|]. destruct (H x Hx) as [[] _]. lia. }
    clear H. induction l as [|x l IHl]; simpl; [lia|]. rewrite (Hz x (or_introl eq_refl)).
    apply IHl. intros y Hy. apply Hz. right. exact Hy.
  - inversion Hnd; subst. rewrite (list_sum_remove g k l). simpl.
    assert (H1 : (cnt l k * g k <= g k)%nat).
    { destruct (g k) eqn:E; [lia|]. destruct (in_dec N.eq_dec k l) as [Hin|Hnin].
      - destruct (H k Hin) as [_ Hc]; [lia|]. nia.
      - rewrite (proj1 (count_occ_not_In N.eq_dec l k) Hnin). lia. }
    assert (H2' : (list_sum (map g (remove N.eq_dec k l)) <= list_sum (map g ks))%nat).
    { apply IH; [assumption|]. intros x Hx Hg. apply in_remove in Hx. destruct Hx as [Hx Hne].
      destruct (H x Hx Hg) as [[Heq|Hin] Hc]; [congruence|]. split; [exact Hin|].
      rewrite count_remove_neq by exact Hne. exact Hc. }
    lia.
Qed.

End Shape2.

(* ---- every object is written out at most once (continued) ---- *)
Section Unique.
Variable h : heap.
Variable dups : list addr.
Variable omit_never : bool.
Hypothesis dups_small : N.of_nat (length dups) < 4294967296.
Hypothesis keys_distinct : NoDup (map fst h).
Hypothesis nonempty : forall a n, hget h a = Some n -> container_empty n = false.
Variable rk : addr -> nat.
Variable L : nat.
Hypothesis rk_bound : forall a, (rk a <= L)%nat.
Hypothesis rk_drop : forall a n l b,
  hget h a = Some n -> In (l, Some b) (nkids n) -> mem b dups = false -> (rk b < rk a)%nat.
Variable root : ref.
Hypothesis indeg : forall a n, hget h a = Some n -> mem a dups = false ->
  (occurrences a (root :: all_kids h) <= 1)%nat.

Notation cnt := (count_occ N.eq_dec).

Lemma hget_In_nodup (hh : heap) a n : NoDup (map fst hh) -> In (a, n) hh -> hget hh a = Some n.
Proof.
  induction hh as [|[a' n'] hh IH]; simpl; intros Hn Hin; [contradiction|].
  inversion Hn; subst. destruct Hin as [Heq|Hin].
  - inversion Heq; subst. rewrite N.eqb_refl. reflexivity.
  - destruct (a =? a') eqn:E.
    + apply N.eqb_eq in E. subst. exfalso. apply H1. apply in_map_iff. exists (a', n). auto.
    + apply IH; assumption.
Qed.

Lemma occurrences_app b l1 l2 : occurrences b (l1 ++ l2) = (occurrences b l1 + occurrences b l2)%nat.
Proof. unfold occurrences. rewrite filter_app, app_length. reflexivity. Qed.

Lemma occ_all_kids b :
  occurrences b (all_kids h) = list_sum (map (fun x => occurrences b (kidrefs h x)) (map fst h)).
Proof.
  unfold all_kids.
  assert (H : forall l, incl l h ->
            occurrences b (flat_map (fun an : addr * node => map snd (nkids (snd an))) l) =
            list_sum (map (fun x => occurrences b (kidrefs h x)) (map fst l))).
  { induction l as [|[a n] l IH]; intro Hi; simpl; [reflexivity|].
    rewrite occurrences_app, IH by (intros x Hx; apply Hi; right; exact Hx).
    assert (E : kidrefs h a = map snd (nkids n)).
    { unfold kidrefs. rewrite (hget_In_nodup h a n keys_distinct) by (apply Hi; left; reflexivity). reflexivity. }
    rewrite E. reflexivity. }
  apply H. apply incl_refl.
Qed.

Lemma srcs_in_heap sF t : forall r x, rel h dups omit_never sF r t -> In x (tm_srcs t) -> exists n, hget h x = Some n.
Proof.
  induction t as [| |id|a m k kids IHk] using tm_ind'; intros r x H Hin; try (simpl in Hin; contradiction).
  apply rel_node in H. destruct H as [Hr [n [Hn [Hk [Hm Hkids]]]]].
  cbn [tm_srcs] in Hin. destruct Hin as [<-|Hin]; [eauto|].
  revert Hkids Hin. generalize (nkids n). generalize (is_struct n).
  induction kids as [|[l t] ks IHl]; intros sf [|[l' r'] rs] Hrel Hin; simpl in Hrel; try contradiction.
  destruct Hrel as [_ [_ [_ [Hrt Hrest]]]]. inversion IHk as [|y ys Hy Hys]; subst. simpl in Hy.
  simpl in Hin. apply in_app_or in Hin. destruct Hin as [Hin|Hin].
  - eapply Hy; eauto.
  - eapply IHl; eauto.
Qed.

Lemma kidrefs_edge x b : (occurrences b (kidrefs h x) > 0)%nat ->
  exists n l, hget h x = Some n /\ In (l, Some b) (nkids n).
Proof.
  unfold kidrefs. destruct (hget h x) as [n|]; [|intro H; unfold occurrences in H; simpl in H; lia].
  intro H. exists n. unfold occurrences in H.
  destruct (filter _ (map snd (nkids n))) as [|r rs] eqn:E; [simpl in H; lia|].
  assert (Hin : In r (filter (fun r : ref => match r with Some b0 => b =? b0 | None => false end) (map snd (nkids n))))
    by (rewrite E; left; reflexivity).
  apply filter_In in Hin. destruct Hin as [Hin Hb]. destruct r as [b0|]; [|discriminate].
  apply N.eqb_eq in Hb. subst b0. apply in_map_iff in Hin. destruct Hin as [[l r] [Hr Hin]]. simpl in Hr. subst.
  exists l. split; [reflexivity | exact Hin].
Qed.

Section WithTree.
Variables (fuel : nat) (t0 : tm) (s' : ist).
Hypothesis Htrav : gtrav h dups omit_never fuel root ist0 = Some (t0, s').

Lemma t0_rel : rel h dups omit_never s' root t0.
Proof. destruct (gtrav_rel h dups omit_never fuel _ _ _ _ Htrav) as [_ [_ H]]. apply H. apply ext_refl. Qed.

Lemma t0_named : g_named s' = rev (tm_marked t0).
Proof. rewrite (gtrav_named h dups omit_never fuel _ _ _ _ Htrav). simpl. apply app_nil_r. Qed.

Lemma t0_ok : ist_ok dups s'.
Proof. eapply gtrav_ok; [exact dups_small | apply ist0_ok | exact Htrav]. Qed.

Lemma marked_nodup : NoDup (map fst (tm_marked t0)) /\ NoDup (map snd (tm_marked t0)).
Proof.
  destruct t0_ok as [H1 [H2 _]]. rewrite t0_named in H1, H2. rewrite map_rev in H1, H2.
  split; [apply NoDup_rev in H1 | apply NoDup_rev in H2]; rewrite rev_involutive in *; assumption.
Qed.

Lemma count_le1 : forall n b, (L - rk b <= n)%nat -> (cnt (tm_srcs t0) b <= 1)%nat.
Proof.
  assert (Hdup : forall b, mem b dups = true -> (cnt (tm_srcs t0) b <= 1)%nat).
  { intros b Hb. rewrite (count_marked h dups omit_never s' t0 root b t0_rel Hb).
    apply NoDup_count_occ. apply marked_nodup. }
  induction n as [n IH] using lt_wf_ind. intros b Hn.
  destruct (mem b dups) eqn:Hb; [apply Hdup; exact Hb|].
  destruct (in_dec N.eq_dec b (tm_srcs t0)) as [Hin|Hnin];
    [|rewrite (proj1 (count_occ_not_In N.eq_dec _ _) Hnin); lia].
  destruct (srcs_in_heap _ _ _ _ t0_rel Hin) as [nb Hnb].
  assert (Hne : empty_target h (Some b) = false) by (simpl; rewrite Hnb; eapply nonempty; eauto).
  rewrite (count_eq h dups omit_never s' b Hb Hne t0 root t0_rel).
  rewrite (here_ref h dups omit_never s' b Hb Hne t0 root t0_rel).
  assert (Hsum : (list_sum (map (fun x => occurrences b (kidrefs h x)) (tm_srcs t0)) <=
                  list_sum (map (fun x => occurrences b (kidrefs h x)) (map fst h)))%nat).
  { apply sum_le_keys; [exact keys_distinct|]. intros x Hx Hg.
    destruct (srcs_in_heap _ _ _ _ t0_rel Hx) as [nx Hnx]. split.
    - apply hget_In in Hnx. apply in_map_iff. exists (x, nx). auto.
    - destruct (kidrefs_edge _ _ Hg) as [n1 [l [Hn1 Hedge]]].
      assert (rk b < rk x)%nat by (eapply rk_drop; eauto).
      assert (Hb2 := rk_bound x). assert (Hb3 := rk_bound b).
      destruct (mem x dups) eqn:Hxd; [apply Hdup; exact Hxd|].
      apply (IH (L - rk x)%nat); lia. }
  rewrite <- occ_all_kids in Hsum.
  assert (Hind := indeg _ _ Hnb Hb). rewrite occurrences_cons in Hind. lia.
Qed.

Lemma srcs_nodup : NoDup (tm_srcs t0).
Proof. apply NoDup_count_occ with (decA := N.eq_dec). intro b. apply (count_le1 (L - rk b) b). lia. Qed.

End WithTree.
End Unique.

(* ---- a typed heap gives a tree the builder stack can follow ---- *)
Section Typed.
Variable h : heap.
Variable dups : list addr.
Hypothesis node_ok : forall a n, hget h a = Some n -> node_typed h n = true.

Notation rel := (rel h dups false).
Notation rel_kids := (rel_kids h dups false).

Definition kind_ty (k : kind) : ty := match k with KStruct _ => TPtr | KSlice => TSlice | KMap => TMap end.

Lemma target_ok_kind t a n : hget h a = Some n -> target_ok h t (Some a) = true -> kind_ty (nkind n) = t.
Proof.
  intros Hn. simpl. rewrite Hn. destruct n as [k ks]. destruct k, t; simpl; congruence.
Qed.

Lemma rel_kids_labels sF sf kids rs : rel_kids sF sf kids rs -> map fst kids = map fst rs.
Proof.
  revert rs. induction kids as [|[l t] ks IH]; intros [|[l' r'] rs] H; simpl in H; try contradiction; try reflexivity.
  destruct H as [-> [_ [_ [_ H]]]]. simpl. f_equal. apply IH. exact H.
Qed.

Lemma rel_kids_In sF sf kids rs l t :
  rel_kids sF sf kids rs -> In (l, t) kids ->
  exists r, In (l, r) rs /\ rel sF r t /\ (is_omit t = true -> sf = true) /\ (sf = true -> t <> TNull).
Proof.
  revert rs. induction kids as [|[l0 t0] ks IH]; intros [|[l' r'] rs] H Hin; simpl in H; try contradiction; try (destruct Hin; fail).
  destruct H as [-> [H1 [H2 [H3 H4]]]]. destruct Hin as [Heq|Hin].
  - inversion Heq; subst. exists r'. split; [left; reflexivity|]. split; [exact H3|]. split; [exact H1|]. intro; apply H2; auto.
  - destruct (IH _ H4 Hin) as [r [Ha Hb]]. exists r. split; [right; exact Ha | exact Hb].
Qed.

(* what node_typed says, per kind *)
Lemma struct_kids n v :
  node_typed h n = true -> nkind n = KStruct v ->
  map fst (nkids n) = map fst zero_fields /\
  forall l r, In (l, r) (nkids n) -> exists i fty, l = LF i /\ i < 5 /\
     field_find (field_label_name (LF i)) 0 fields = Some (LF i, fty) /\ target_ok h fty r = true.
Proof.
  unfold node_typed. intros H Hk. rewrite Hk in H. apply andb_true_iff in H. destruct H as [H1 H2].
  assert (Hl : map fst (nkids n) = map fst zero_fields).
  { apply (list_eqb_eq label_eqb label_eqb_eq). exact H1. }
  split; [exact Hl|].
  destruct (nkids n) as [|[l0 r0] [|[l1 r1] [|[l2 r2] [|[l3 r3] [|[l4 r4] [|x xs]]]]]]; simpl in Hl; try discriminate.
  inversion Hl; subst. simpl in H2.
  destruct (target_ok h TPtr r0) eqn:E0; [|discriminate].
  destruct (target_ok h TPtr r1) eqn:E1; [|discriminate].
  destruct (target_ok h TPtr r2) eqn:E2; [|discriminate].
  destruct (target_ok h TSlice r3) eqn:E3; [|discriminate].
  destruct (target_ok h TMap r4) eqn:E4; [|discriminate].
  intros l r [Heq|[Heq|[Heq|[Heq|[Heq|[]]]]]]; inversion Heq; subst.
  - exists 0, TPtr. repeat split; auto; lia.
  - exists 1, TPtr. repeat split; auto; lia.
  - exists 2, TPtr. repeat split; auto; lia.
  - exists 3, TSlice. repeat split; auto; lia.
  - exists 4, TMap. repeat split; auto; lia.
Qed.

Lemma slice_labels_nodup i ks :
  slice_labels_ok i ks = true ->
  NoDup (map fst ks) /\ (forall l r, In (l, r) ks -> exists j, l = LI j /\ i <= j).
Proof.
  revert i. induction ks as [|[l r] ks IH]; intros i H; simpl in *.
  - split; [constructor | intros ? ? []].
  - destruct l as [j|j|z]; try discriminate. apply andb_true_iff in H. destruct H as [Hj H]. apply N.eqb_eq in Hj. subst j.
    destruct (IH _ H) as [Hn Hl]. split.
    + constructor; [|exact Hn]. intro Hin. apply in_map_iff in Hin. destruct Hin as [[l' r'] [Hl' Hin]]. simpl in Hl'. subst.
      destruct (Hl _ _ Hin) as [j [Hj Hle]]. inversion Hj. lia.
    + intros l0 r0 [Heq|Hin]; [inversion Heq; subst; exists i; split; [reflexivity | lia]|].
      destruct (Hl _ _ Hin) as [j [Hj Hle]]. exists j. split; [exact Hj | lia].
Qed.

Lemma map_labels_nodup seen ks :
  map_labels_ok seen ks = true ->
  NoDup (map fst ks) /\ (forall l r, In (l, r) ks -> exists z, l = LK z /\ ~ In z seen).
Proof.
  revert seen. induction ks as [|[l r] ks IH]; intros seen H; simpl in *.
  - split; [constructor | intros ? ? []].
  - destruct l as [j|j|z]; try discriminate. apply andb_true_iff in H. destruct H as [Hz H].
    destruct (IH _ H) as [Hn Hl].
    assert (Hz' : ~ In z seen).
    { intro Hin. apply negb_true_iff in Hz. assert (existsb (Z.eqb z) seen = true); [|congruence].
      apply existsb_exists. exists z. split; [exact Hin | apply Z.eqb_refl]. }
    split.
    + constructor; [|exact Hn]. intro Hin. apply in_map_iff in Hin. destruct Hin as [[l' r'] [Hl' Hin]]. simpl in Hl'. subst.
      destruct (Hl _ _ Hin) as [z' [Hj Hni]]. inversion Hj; subst. apply Hni. left. reflexivity.
    + intros l0 r0 [Heq|Hin]; [inversion Heq; subst; exists z; split; [reflexivity | exact Hz']|].
      destruct (Hl _ _ Hin) as [z' [Hj Hni]]. exists z'. split; [exact Hj|]. intro. apply Hni. right. assumption.
Qed.

Lemma elem_kids n :
  node_typed h n = true -> (nkind n = KSlice \/ nkind n = KMap) ->
  forall l r, In (l, r) (nkids n) -> target_ok h TPtr r = true.
Proof.
  unfold node_typed. intros H [Hk|Hk] l r Hin; rewrite Hk in H; apply andb_true_iff in H; destruct H as [_ H];
    rewrite forallb_forall in H; apply (H _ Hin).
Qed.

(* slice positions, as the tree sees them *)
Lemma slice_seq_of sF i kids rs :
  rel_kids sF false kids rs -> slice_labels_ok i rs = true -> slice_seq i kids.
Proof.
  revert i rs. induction kids as [|[l t] ks IH]; intros i [|[l' r'] rs] H Hs; simpl in H; try contradiction; try exact I.
  destruct H as [-> [H1 [_ [_ H4]]]]. simpl in Hs. destruct l' as [j|j|z]; try discriminate.
  apply andb_true_iff in Hs. destruct Hs as [Hj Hs]. apply N.eqb_eq in Hj. subst j. simpl.
  split; [reflexivity|]. split.
  - destruct (is_omit t) eqn:E; [|reflexivity]. specialize (H1 eq_refl). discriminate.
  - replace (i + 1) with (N.succ i) by lia. eapply IH; eauto.
Qed.

Lemma rel_wf sF t : forall r, rel sF r t -> tm_wf t /\ tm_nn t.
Proof.
  induction t as [| |id|a m k kids IHk] using tm_ind'; intros r H; try (split; exact I).
  apply rel_node in H. destruct H as [Hr [n [Hn [Hk [Hm Hkids]]]]].
  assert (Hty := node_ok _ _ Hn).
  assert (Hlab := rel_kids_labels _ _ _ _ Hkids).
  assert (Hall : Forall (fun lt : label * tm => tm_wf (snd lt) /\ tm_nn (snd lt)) kids).
  { clear Hlab. revert Hkids. generalize (nkids n). generalize (is_struct n).
    induction kids as [|[l t] ks IHl]; intros sf [|[l' r'] rs] Hrel; simpl in Hrel; try contradiction; try (constructor; fail).
    destruct Hrel as [_ [_ [_ [Hrt Hrest]]]]. inversion IHk as [|y ys Hy Hys]; subst. simpl in Hy.
    constructor; [eapply Hy; eauto | eapply IHl; eauto]. }
  split.
  - apply tm_wf_node. split.
    + unfold kids_ok. rewrite Hlab. subst k. destruct (nkind n) as [v| |] eqn:Ek.
      * destruct (struct_kids n v Hty Ek) as [Hl Hf]. split; [rewrite Hl; repeat constructor; simpl; intuition discriminate|].
        intros l t Hin. destruct (rel_kids_In _ _ _ _ _ _ Hkids Hin) as [r0 [Hr0 _]].
        destruct (Hf _ _ Hr0) as [i [fty [-> [Hi _]]]]. eauto.
      * unfold node_typed in Hty. rewrite Ek in Hty. apply andb_true_iff in Hty. destruct Hty as [Hs _].
        split; [apply (slice_labels_nodup 0 _ Hs)|].
        eapply slice_seq_of; [|exact Hs]. unfold is_struct in Hkids. rewrite Ek in Hkids. exact Hkids.
      * unfold node_typed in Hty. rewrite Ek in Hty. apply andb_true_iff in Hty. destruct Hty as [Hs _].
        split; [apply (map_labels_nodup [] _ Hs)|].
        intros l t Hin. destruct (rel_kids_In _ _ _ _ _ _ Hkids Hin) as [r0 [Hr0 _]].
        destruct (proj2 (map_labels_nodup [] _ Hs) _ _ Hr0) as [z [-> _]]. eauto.
    + eapply Forall_impl; [|exact Hall]. intros lt [Ha _]. exact Ha.
  - apply tm_nn_node. split.
    + subst k. destruct (nkind n) eqn:Ek; auto. intros l t Hin.
      destruct (rel_kids_In _ _ _ _ _ _ Hkids Hin) as [r0 [_ [_ [_ Hnn]]]]. apply Hnn.
      unfold is_struct. rewrite Ek. reflexivity.
    + eapply Forall_impl; [|exact Hall]. intros lt [_ Hb]. exact Hb.
Qed.

End Typed.

Section Total.
Variable h : heap.
Variable dups : list addr.
Hypothesis node_ok : forall a n, hget h a = Some n -> node_typed h n = true.
Variable oref : bytes -> slot -> bst -> bst.
Variable omark : bytes -> addr -> bst -> bst.
Variable sF : ist.

Notation rel := (rel h dups false sF).
Notation rel_kids := (rel_kids h dups false sF).
Notation ev := (eff_val oref omark).

Definition TotalGoal (t : tm) : Prop :=
  forall r ty f s,
    rel r t -> target_ok h ty r = true -> frame_ty f = Some ty -> is_omit t = false ->
    (forall id, t = TRef id -> f <> FTop) -> (t = TNull -> ty = TPtr) ->
    exists s', ev t f s = Some (next_frame f, s').

Definition kid_typed (sf : bool) (cf : bframe) (l : label) (r : ref) : Prop :=
  forall vf, kid_frame cf l = Some vf ->
    exists ty, frame_ty vf = Some ty /\ target_ok h ty r = true /\ vf <> FTop /\ (sf = false -> ty = TPtr).

Lemma total_kids sf kids :
  Forall (fun lt : label * tm => TotalGoal (snd lt)) kids ->
  forall rs cf s p,
    rel_kids sf kids rs -> frame_addr cf = Some p -> kids_fit cf kids ->
    (forall l r, In (l, r) rs -> forall cf0, frame_addr cf0 = Some p -> container_frame cf0 = container_frame cf ->
        (match cf0, cf with FStructKey _, FStructKey _ | FSlice _ _, FSlice _ _ | FMapKey _, FMapKey _ => True | _, _ => False end) ->
        kid_typed sf cf0 l r) ->
    exists cf' s', eff_kids ev kids cf s = Some (cf', s') /\ frame_addr cf' = Some p.
Proof.
  induction kids as [|[l t] ks IH]; intros HG rs cf s p Hrel Hp Hfit Hty.
  - simpl. eauto.
  - destruct rs as [|[l' r'] rs]; simpl in Hrel; [contradiction|].
    destruct Hrel as [<- [Hom [Hnn [Hrt Hrest]]]]. inversion HG as [|x xs Hx Hxs]; subst. simpl in Hx.
    simpl. destruct (is_omit t) eqn:Eo.
    + apply (IH Hxs rs cf s p Hrest Hp (kids_fit_skip _ _ _ _ Hfit Eo)).
      intros l0 r0 Hin. apply Hty. right. exact Hin.
    + destruct (kids_fit_step cf p l t ks Hp Hfit Eo) as [vf [Ekf [Hslot [Hfit' Hp']]]].
      rewrite Ekf.
      assert (Hsame : match cf, cf with FStructKey _, FStructKey _ | FSlice _ _, FSlice _ _ | FMapKey _, FMapKey _ => True | _, _ => False end).
      { destruct cf; simpl in Hp; try discriminate; exact I. }
      destruct (Hty l r' (or_introl eq_refl) cf Hp eq_refl Hsame vf Ekf) as [ty [Hfty [Htg [Hntop Hptr]]]].
      destruct (Hx r' ty vf s Hrt Htg Hfty Eo) as [s1 E1].
      { intros id _. exact Hntop. }
      { intros ->. destruct sf; [exfalso; apply Hnn; auto | apply Hptr; reflexivity]. }
      rewrite E1.
      apply (IH Hxs rs (next_frame vf) s1 p Hrest Hp' Hfit').
      intros l0 r0 Hin cf0 Hp0 Hc0 Hm0. apply Hty; [right; exact Hin | exact Hp0 | |].
      * destruct cf, l; simpl in Ekf; try discriminate.
        -- destruct (field_find _ 0 fields) as [[l2 t2]|]; [|discriminate]. inversion Ekf; subst. exact Hc0.
        -- inversion Ekf; subst. exact Hc0.
        -- inversion Ekf; subst. exact Hc0.
      * destruct cf, l; simpl in Ekf; try discriminate.
        -- destruct (field_find _ 0 fields) as [[l2 t2]|]; [|discriminate]. inversion Ekf; subst. exact Hm0.
        -- inversion Ekf; subst. exact Hm0.
        -- inversion Ekf; subst. exact Hm0.
Qed.

Lemma rel_total t : tm_wf t -> TotalGoal t.
Proof.
  induction t as [| |id|a m k kids IHk] using tm_ind'; intros Hwf r ty f s H Htg Hf Hom Href Hnull.
  - discriminate.
  - cbn [eff_val]. specialize (Hnull eq_refl). subst ty.
    destruct f; simpl in Hf; try discriminate; simpl; eauto.
    inversion Hf; subst. simpl. eauto.
  - cbn [eff_val]. unfold ref_step. specialize (Href id eq_refl).
    destruct f; simpl in Hf; try discriminate; simpl; eauto. contradiction.
  - apply tm_wf_node in Hwf. destruct Hwf as [Hok Hwk].
    apply rel_node in H. destruct H as [Hr [n [Hn [Hk [Hm Hkids]]]]]. subst r.
    assert (Hkt := target_ok_kind h ty a n Hn Htg).
    assert (Hnt := node_ok _ _ Hn).
    cbn [eff_val]. rewrite Hf.
    assert (Hb : exists cf s1', begin_container ty (kind_begin k) s = Some (cf, snd (b_alloc (match k with KStruct _ => KStruct 0 | k0 => k0 end) (base_kids k) s)) /\
                   after_begin k cf (snd (b_alloc (match k with KStruct _ => KStruct 0 | k0 => k0 end) (base_kids k) s)) = Some s1' /\
                   frame_addr cf = Some (b_next s) /\
                   (cf = FStructKey (b_next s) \/ cf = FSlice (b_next s) 0 \/ cf = FMapKey (b_next s)) /\
                   match k, cf with KStruct _, FStructKey _ | KSlice, FSlice _ _ | KMap, FMapKey _ => True | _, _ => False end).
    { subst k ty. destruct (nkind n); simpl; eexists; eexists; repeat split; auto. }
    destruct Hb as [cf [s1' [Eb [Ea [Hp [Hc Hkc]]]]]]. rewrite Eb, Ea.
    assert (Hfit : kids_fit cf kids) by (eapply after_begin_fit; eauto).
    assert (IHk' : Forall (fun lt : label * tm => TotalGoal (snd lt)) kids).
    { clear - IHk Hwk. induction kids as [|lt r IHr]; [constructor|].
      inversion IHk; subst. inversion Hwk; subst. constructor; [auto | apply IHr; assumption]. }
    destruct (total_kids (is_struct n) kids IHk' (nkids n) cf s1' (b_next s) Hkids Hp Hfit) as [cf' [s2 [Ek Hp2]]].
    { intros l r Hin cf0 Hp0 _ Hm0 vf Ev. subst k.
      destruct (nkind n) as [v| |] eqn:Ekn.
      - destruct (struct_kids h n v Hnt Ekn) as [_ Hfld]. destruct (Hfld _ _ Hin) as [i [fty [-> [Hi [Hff Htg']]]]].
        destruct cf; try contradiction. destruct cf0; try contradiction.
        simpl in Ev. rewrite Hff in Ev. inversion Ev; subst. exists fty. simpl.
        repeat split; auto; try discriminate. unfold is_struct. rewrite Ekn. discriminate.
      - assert (Htg' := elem_kids h n Hnt (or_introl Ekn) _ _ Hin).
        destruct cf; try contradiction. destruct cf0; try contradiction.
        destruct l; simpl in Ev; try discriminate. inversion Ev; subst. exists TPtr. simpl. repeat split; auto; discriminate.
      - assert (Htg' := elem_kids h n Hnt (or_intror Ekn) _ _ Hin).
        destruct cf; try contradiction. destruct cf0; try contradiction.
        destruct l; simpl in Ev; try discriminate. inversion Ev; subst. exists TPtr. simpl. repeat split; auto; discriminate. }
    rewrite Ek, Hp2.
    destruct f; simpl in Hf; try discriminate; simpl; eauto.
Qed.

End Total.

(* ------------------------------------------------------------------------- *)
(* Part 5: marshal + unmarshal gives an isomorphic heap                         *)

(* decimal ids are distinct *)
Fixpoint undec_rev (l : bytes) : N :=
  match l with
  | [] => 0
  | d :: r => (d - 48) + 10 * undec_rev r
  end.
Lemma undec_dec_rev fuel : forall n, n < 10 ^ N.of_nat fuel -> undec_rev (dec_rev fuel n) = n.
Proof.
  induction fuel as [|f IH]; intros n Hn.
  - simpl in Hn. assert (n = 0) by lia. subst. reflexivity.
  - cbn [dec_rev undec_rev].
    assert (Hdiv : n / 10 < 10 ^ N.of_nat f).
    { apply N.div_lt_upper_bound; [lia|]. rewrite Nat2N.inj_succ, N.pow_succ_r' in Hn. lia. }
    assert (Hm : n mod 10 < 10) by (apply N.mod_lt; lia).
    assert (Hd : n = 10 * (n / 10) + n mod 10) by (apply N.div_mod; lia).
    destruct (n / 10 =? 0) eqn:E.
    + apply N.eqb_eq in E. cbn [undec_rev]. lia.
    + cbn [undec_rev]. rewrite (IH _ Hdiv). lia.
Qed.
Lemma dec_bytes_inj a b : a < 4294967296 -> b < 4294967296 -> dec_bytes a = dec_bytes b -> a = b.
Proof.
  intros Ha Hb H. unfold dec_bytes in H.
  assert (H' : dec_rev 20 a = dec_rev 20 b).
  { rewrite <- (rev_involutive (dec_rev 20 a)), <- (rev_involutive (dec_rev 20 b)), H. reflexivity. }
  assert (Hp : 4294967296 < 10 ^ N.of_nat 20) by (vm_compute; reflexivity).
  rewrite <- (undec_dec_rev 20 a), <- (undec_dec_rev 20 b), H' by lia. reflexivity.
Qed.

(* addresses the builder gives to the objects of a tree *)
Fixpoint assign (t : tm) (next : addr) : list (addr * addr) :=
  match t with
  | TNode a _ _ kids => (a, next) :: kids_at assign kids (next + 1)
  | _ => []
  end.

Lemma kids_at_app {A} (g : tm -> addr -> list A) pre post nx :
  kids_at g (pre ++ post) nx = kids_at g pre nx ++ kids_at g post (nx + kids_sz pre).
Proof.
  revert nx. induction pre as [|[l t] pre IH]; intro nx; cbn [kids_at app snd].
  - rewrite kids_sz_nil, N.add_0_r. reflexivity.
  - rewrite IH, kids_sz_cons, <- app_assoc. do 3 f_equal. lia.
Qed.

Lemma occ_in_kids_at {A} (g : tm -> addr -> list A) pre l t post nx (y : A) :
  In y (g t (nx + kids_sz pre)) -> In y (kids_at g (pre ++ (l, t) :: post) nx).
Proof.
  intro H. rewrite kids_at_app. apply in_or_app. right. simpl. apply in_or_app. left. exact H.
Qed.

Lemma occ_assign t next a m k kids p : occ t next (a, m, k, kids, p) -> In (a, p) (assign t next).
Proof.
  intro H. remember (a, m, k, kids, p) as x eqn:Ex. revert a m k kids p Ex.
  induction H as [a0 m0 k0 kids0 next | a0 m0 k0 kids0 next pre l t post x E Ho IH]; intros a m k kids p Ex.
  - inversion Ex; subst. left. reflexivity.
  - subst x kids0. simpl. right. apply occ_in_kids_at.
    replace (next + 1 + kids_sz pre) with (next + 1 + kids_sz pre) by lia. eapply IH. reflexivity.
Qed.

Lemma occ_marks t next a id k kids p :
  occ t next (a, Some id, k, kids, p) -> In (dec_bytes id, p) (marks_at t next).
Proof.
  intro H. remember (a, Some id, k, kids, p) as x eqn:Ex. revert a id k kids p Ex.
  induction H as [a0 m0 k0 kids0 next | a0 m0 k0 kids0 next pre l t post x E Ho IH]; intros a id k kids p Ex.
  - inversion Ex; subst. rewrite marks_at_node. left. reflexivity.
  - subst x kids0. rewrite marks_at_node. apply in_or_app. right. apply occ_in_kids_at. eapply IH. reflexivity.
Qed.

Lemma occ_trans t0 next0 a m k kids p :
  occ t0 next0 (a, m, k, kids, p) ->
  forall pre l t post y, kids = pre ++ (l, t) :: post -> occ t (p + 1 + kids_sz pre) y -> occ t0 next0 y.
Proof.
  intro H. remember (a, m, k, kids, p) as x eqn:Ex. revert a m k kids p Ex.
  induction H as [a0 m0 k0 kids0 next | a0 m0 k0 kids0 next pre0 l0 t1 post0 x E Ho IH];
    intros a m k kids p Ex pre l t post y Hk Hy.
  - inversion Ex; subst. eapply occ_kid; eauto.
  - subst x. eapply occ_kid; [exact E|]. eapply IH; eauto.
Qed.

Lemma assign_srcs t next : map fst (assign t next) = tm_srcs t.
Proof.
  revert next. induction t as [| |id|a m k kids IHk] using tm_ind'; intro next; try reflexivity.
  cbn [assign tm_srcs map]. f_equal. generalize (next + 1).
  induction kids as [|[l t] ks IHl]; intro nx; [reflexivity|].
  inversion IHk as [|x xs Hx Hxs]; subst. simpl in Hx. simpl. rewrite map_app, Hx, (IHl Hxs). reflexivity.
Qed.

Lemma assign_range t next : forall a p, In (a, p) (assign t next) -> next <= p < next + tm_size t.
Proof.
  revert next. induction t as [| |id|a0 m k kids IHk] using tm_ind'; intros next a p H; try (simpl in H; contradiction).
  rewrite tm_size_node. cbn [assign] in H. destruct H as [Heq|H]; [inversion Heq; subst; lia|].
  assert (Hk : forall nx, In (a, p) (kids_at assign kids nx) -> nx <= p < nx + kids_sz kids).
  { clear H. induction kids as [|[l t] ks IHl]; intros nx Hin; [destruct Hin|].
    inversion IHk as [|x xs Hx Hxs]; subst. simpl in Hx. simpl in Hin. rewrite kids_sz_cons.
    apply in_app_or in Hin. destruct Hin as [Hin|Hin].
    - apply Hx in Hin. lia.
    - apply (IHl Hxs) in Hin. lia. }
  apply Hk in H. lia.
Qed.

Lemma NoDup_app_intro {A} (l1 l2 : list A) :
  NoDup l1 -> NoDup l2 -> (forall x, In x l1 -> In x l2 -> False) -> NoDup (l1 ++ l2).
Proof.
  induction l1 as [|x l1 IH]; simpl; intros H1 H2 Hd; [exact H2|].
  inversion H1; subst. constructor.
  - intro Hin. apply in_app_or in Hin. destruct Hin as [Hin|Hin]; [contradiction|]. eapply Hd; [left; reflexivity | exact Hin].
  - apply IH; [assumption | assumption |]. intros y Hy1 Hy2. eapply Hd; [right; exact Hy1 | exact Hy2].
Qed.

Lemma assign_addrs_nodup t next : NoDup (map snd (assign t next)).
Proof.
  revert next. induction t as [| |id|a0 m k kids IHk] using tm_ind'; intro next; try (simpl; constructor; fail).
  cbn [assign map snd]. constructor.
  - intro Hin. apply in_map_iff in Hin. destruct Hin as [[a p] [Hp Hin]]. simpl in Hp. subst p.
    assert (Hk : forall ks nx, In (a, next) (kids_at assign ks nx) -> nx <= next).
    { induction ks as [|[l t] ks IHl]; intros nx Hin'; [destruct Hin'|].
      cbn [kids_at snd] in Hin'. apply in_app_or in Hin'. destruct Hin' as [Hin'|Hin'].
      - apply assign_range in Hin'. lia.
      - apply IHl in Hin'. lia. }
    apply Hk in Hin. lia.
  - generalize (next + 1).
    induction kids as [|[l t] ks IHl]; intro nx; [constructor|].
    inversion IHk as [|x xs Hx Hxs]; subst. simpl in Hx. cbn [kids_at snd]. rewrite map_app.
    apply NoDup_app_intro; [apply Hx | apply (IHl Hxs) |].
    intros p H1 H2. apply in_map_iff in H1. destruct H1 as [[a1 p1] [E1 H1]]. simpl in E1. subst p1.
    apply in_map_iff in H2. destruct H2 as [[a2 p2] [E2 H2]]. simpl in E2. subst p2.
    apply assign_range in H1.
    assert (Hk : forall ks' nx', In (a2, p) (kids_at assign ks' nx') -> nx' <= p).
    { induction ks' as [|[l' t'] ks' IHs]; intros nx' Hin; [destruct Hin|].
      cbn [kids_at snd] in Hin. apply in_app_or in Hin. destruct Hin as [Hin|Hin].
      - apply assign_range in Hin. lia.
      - apply IHs in Hin. lia. }
    apply Hk in H2. lia.
Qed.

(* ---- isomorphism of pointed heaps ---- *)
Inductive reach (h : heap) (root : ref) : addr -> Prop :=
| reach_root a : root = Some a -> reach h root a
| reach_step a n l b : reach h root a -> hget h a = Some n -> In (l, Some b) (nkids n) -> reach h root b.

Definition lift (phi : addr -> addr) (r : ref) : ref := option_map phi r.

(* phi maps the objects reachable from root one-to-one onto objects of h' of the same kind and payload,
   whose references are, label by label, the images of the original references *)
Definition iso (phi : addr -> addr) (h : heap) (root : ref) (h' : heap) (root' : ref) : Prop :=
  root' = lift phi root /\
  (forall a b, reach h root a -> reach h root b -> phi a = phi b -> a = b) /\
  (forall a, reach h root a ->
     exists n n', hget h a = Some n /\ hget h' (phi a) = Some n' /\ nkind n' = nkind n /\
       forall l, kget l (nkids n') = option_map (lift phi) (kget l (nkids n))).

Fixpoint afind (a : addr) (l : list (addr * addr)) : option addr :=
  match l with [] => None | (x, p) :: r => if a =? x then Some p else afind a r end.
Lemma afind_In a p l : NoDup (map fst l) -> In (a, p) l -> afind a l = Some p.
Proof.
  induction l as [|[x q] l IH]; simpl; intros Hn Hin; [contradiction|].
  inversion Hn; subst. destruct Hin as [Heq|Hin].
  - inversion Heq; subst. rewrite N.eqb_refl. reflexivity.
  - destruct (a =? x) eqn:E; [|apply IH; assumption].
    apply N.eqb_eq in E. subst. exfalso. apply H1. apply in_map_iff. exists (x, p). auto.
Qed.
Lemma bfind_In b x l : NoDup (map fst l) -> In (b, x) l -> bfind b l = Some x.
Proof.
  induction l as [|[y q] l IH]; simpl; intros Hn Hin; [contradiction|].
  inversion Hn; subst. destruct Hin as [Heq|Hin].
  - inversion Heq; subst. rewrite bytes_eqb_refl. reflexivity.
  - destruct (bytes_eqb b y) eqn:E; [|apply IH; assumption].
    apply bytes_eqb_eq in E. subst. exfalso. apply H1. apply in_map_iff. exists (y, x). auto.
Qed.
Lemma bfind_None b l : ~ In b (map fst l) -> bfind b l = None.
Proof.
  induction l as [|[y q] l IH]; simpl; intro H; [reflexivity|].
  rewrite bytes_eqb_neq by (intro; apply H; left; congruence). apply IH. intro. apply H. right. assumption.
Qed.

Lemma tm_bids_marked t : tm_bids t = map (fun p : addr * N => dec_bytes (snd p)) (tm_marked t).
Proof.
  induction t as [| |id|a m k kids IHk] using tm_ind'; try reflexivity.
  cbn [tm_bids tm_marked]. rewrite map_app. f_equal; [destruct m; reflexivity|].
  induction kids as [|[l t] ks IHl]; [reflexivity|].
  inversion IHk as [|x xs Hx Hxs]; subst. simpl in Hx. simpl. rewrite map_app, Hx, (IHl Hxs). reflexivity.
Qed.
Lemma marks_fst t next : map fst (marks_at t next) = tm_bids t.
Proof.
  revert next. induction t as [| |id|a m k kids IHk] using tm_ind'; intro next; try reflexivity.
  rewrite marks_at_node, tm_bids_node, map_app. f_equal; [destruct m; reflexivity|].
  generalize (next + 1). unfold kids_bids.
  induction kids as [|[l t] ks IHl]; intro nx; [reflexivity|].
  inversion IHk as [|x xs Hx Hxs]; subst. simpl in Hx. cbn [kids_at snd flat_map]. rewrite map_app, Hx, (IHl Hxs). reflexivity.
Qed.

Lemma marked_occ t : forall next a id, In (a, id) (tm_marked t) -> exists k kids p, occ t next (a, Some id, k, kids, p).
Proof.
  induction t as [| |id0|a0 m k kids IHk] using tm_ind'; intros next a id H; try (simpl in H; contradiction).
  cbn [tm_marked] in H. apply in_app_or in H. destruct H as [H|H].
  - destruct m as [id1|]; [|destruct H]. destruct H as [Heq|[]]. inversion Heq; subst.
    exists k, kids, next. apply occ_here.
  - assert (Hk : exists pre l t post, kids = pre ++ (l, t) :: post /\ In (a, id) (tm_marked t) /\
                   Forall (fun lt : label * tm => forall next a id, In (a, id) (tm_marked (snd lt)) ->
                              exists k kids p, occ (snd lt) next (a, Some id, k, kids, p)) [(l, t)]).
    { clear - H IHk. induction kids as [|[l t] ks IHl]; [destruct H|].
      inversion IHk as [|x xs Hx Hxs]; subst. simpl in H. apply in_app_or in H. destruct H as [H|H].
      - exists [], l, t, ks. split; [reflexivity|]. split; [exact H|]. constructor; [exact Hx | constructor].
      - destruct (IHl Hxs H) as [pre [l' [t' [post [E [Hin HF]]]]]]. exists ((l, t) :: pre), l', t', post.
        split; [rewrite E; reflexivity|]. split; assumption. }
    destruct Hk as [pre [l [t [post [E [Hin HF]]]]]]. inversion HF as [|x xs Hx _]; subst. simpl in Hx.
    destruct (Hx (next + 1 + kids_sz pre) a id Hin) as [k' [kids' [p' Ho]]].
    exists k', kids', p'. eapply occ_kid; [reflexivity | exact Ho].
Qed.

Section Final.
Variable h : heap.
Variable dups : list addr.
Hypothesis node_ok : forall a n, hget h a = Some n -> node_typed h n = true.
Hypothesis nonempty : forall a n, hget h a = Some n -> container_empty n = false.
Hypothesis kids_closed : forall a n l b, hget h a = Some n -> In (l, Some b) (nkids n) -> exists n', hget h b = Some n'.

Notation rel := (rel h dups false).
Notation rel_kids := (rel_kids h dups false).

Lemma rel_kids_mid sF sf pre l t post : forall rs,
  rel_kids sF sf (pre ++ (l, t) :: post) rs ->
  exists rpre r rpost, rs = rpre ++ (l, r) :: rpost /\ map fst rpre = map fst pre /\
    rel sF r t /\ (is_omit t = true -> sf = true) /\ (sf = true -> t <> TNull).
Proof.
  induction pre as [|[l0 t0] pre IH]; intros [|[l' r'] rs] H; simpl in H; try contradiction.
  - destruct H as [<- [H1 [H2 [H3 _]]]]. exists [], r', rs. repeat split; auto.
  - destruct H as [<- [_ [_ [_ H4]]]]. destruct (IH _ H4) as [rpre [r [rpost [E [Hl Hr]]]]].
    exists ((l0, r') :: rpre), r, rpost. split; [rewrite E; reflexivity|]. split; [simpl; rewrite Hl; reflexivity | exact Hr].
Qed.

Lemma rel_kids_entry sF sf kids : forall rs l r,
  rel_kids sF sf kids rs -> In (l, r) rs ->
  exists pre t post, kids = pre ++ (l, t) :: post /\ rel sF r t /\ (is_omit t = true -> sf = true).
Proof.
  induction kids as [|[l0 t0] ks IH]; intros [|[l' r'] rs] l r H Hin; simpl in H; try contradiction; try (destruct Hin; fail).
  destruct H as [<- [H1 [_ [H3 H4]]]]. destruct Hin as [Heq|Hin].
  - inversion Heq; subst. exists [], t0, ks. repeat split; auto.
  - destruct (IH _ _ _ H4 Hin) as [pre [t [post [E Hr]]]]. exists ((l0, t0) :: pre), t, post.
    split; [rewrite E; reflexivity | exact Hr].
Qed.

Lemma occ_rel sF t next x : occ t next x -> forall r, rel sF r t ->
  match x with
  | (a, m, k, kids, p) =>
      exists n, hget h a = Some n /\ k = nkind n /\
        match m with
        | Some id => mem a dups = true /\ named_find a (g_named sF) = Some id
        | None => mem a dups = false
        end /\ rel_kids sF (is_struct n) kids (nkids n)
  end.
Proof.
  intro H. induction H as [a m k kids next | a m k kids next pre l t post x E Ho IH]; intros r Hr.
  - apply rel_node in Hr. destruct Hr as [_ [n [H1 [H2 [H3 H4]]]]]. exists n. auto.
  - apply rel_node in Hr. destruct Hr as [_ [n [H1 [H2 [H3 H4]]]]]. subst kids.
    destruct (rel_kids_mid _ _ _ _ _ _ _ H4) as [rpre [r' [rpost [_ [_ [Hr' _]]]]]]. eapply IH; eauto.
Qed.

Lemma kid_lookup_spec l kids : forall nx t pt,
  kid_lookup l kids nx = Some (t, pt) ->
  exists pre post, kids = pre ++ (l, t) :: post /\ pt = nx + kids_sz pre /\ ~ In l (map fst pre).
Proof.
  induction kids as [|[l0 t0] ks IH]; intros nx t pt H; simpl in H; [discriminate|].
  destruct (label_eqb l l0) eqn:E.
  - apply label_eqb_eq in E. subst l0. inversion H; subst. exists [], ks. rewrite kids_sz_nil. repeat split; auto; lia.
  - destruct (IH _ _ _ H) as [pre [post [Ek [Hp Hn]]]]. exists ((l0, t0) :: pre), post.
    split; [rewrite Ek; reflexivity|]. split; [rewrite kids_sz_cons; lia|].
    intros [Heq|Hin]; [subst; rewrite label_eqb_refl in E; discriminate | contradiction].
Qed.
Lemma kid_lookup_none l kids : forall nx, kid_lookup l kids nx = None -> ~ In l (map fst kids).
Proof.
  induction kids as [|[l0 t0] ks IH]; intros nx H; simpl in *; [tauto|].
  destruct (label_eqb l l0) eqn:E; [discriminate|].
  intros [Heq|Hin]; [subst; rewrite label_eqb_refl in E; discriminate | eapply IH; eauto].
Qed.
Lemma kget_split l r rpre rpost : ~ In l (map fst rpre) -> kget l (rpre ++ (l, r) :: rpost) = Some r.
Proof.
  induction rpre as [|[l0 r0] rpre IH]; simpl; intro H.
  - rewrite label_eqb_refl. reflexivity.
  - rewrite label_eqb_neq by (intro; apply H; left; congruence). apply IH. intro. apply H. right. assumption.
Qed.
Lemma kget_none l rs : ~ In l (map fst rs) -> kget l rs = None.
Proof.
  induction rs as [|[l0 r0] rs IH]; simpl; intro H; [reflexivity|].
  rewrite label_eqb_neq by (intro; apply H; left; congruence). apply IH. intro. apply H. right. assumption.
Qed.
Lemma kget_zero l : In l (map fst zero_fields) -> kget l zero_fields = Some None.
Proof.
  simpl. intros [<-|[<-|[<-|[<-|[<-|[]]]]]]; reflexivity.
Qed.

Lemma empty_target_nil r : empty_target h r = true -> (match r with Some b => exists n, hget h b = Some n | None => True end) -> r = None.
Proof.
  destruct r as [b|]; [|reflexivity]. simpl. intros He [n Hn]. rewrite Hn in He.
  rewrite (nonempty _ _ Hn) in He. discriminate.
Qed.

Variable root0 : addr.
Variables (fuel : nat) (t0 : tm) (s' : ist).
Hypothesis dups_small : N.of_nat (length dups) < 4294967296.
Hypothesis keys_distinct : NoDup (map fst h).
Hypothesis root_ok : exists n, hget h root0 = Some n.
Hypothesis root_struct : target_ok h TPtr (Some root0) = true.
Hypothesis Htrav : gtrav h dups false fuel (Some root0) ist0 = Some (t0, s').
Hypothesis srcs_nd : NoDup (tm_srcs t0).

Let M : bytes -> option addr := fun b => bfind b (marks_at t0 0).
Let phi : addr -> addr := fun a => match afind a (assign t0 0) with Some p => p | None => 0 end.

Lemma F_rel : rel s' (Some root0) t0.
Proof. eapply t0_rel; eauto. Qed.
Lemma F_named : g_named s' = rev (tm_marked t0).
Proof. eapply t0_named; eauto. Qed.
Lemma F_ok : ist_ok dups s'.
Proof. eapply t0_ok; eauto. Qed.

Lemma F_root_node : exists m k kids, t0 = TNode root0 m k kids.
Proof.
  destruct fuel as [|f]; [simpl in Htrav; discriminate|].
  rewrite gtrav_S in Htrav. destruct (hget h root0) as [n|]; [|discriminate].
  destruct (mem root0 dups).
  - simpl in Htrav. destruct (gtrav_kids _ _ _ _ _ _) as [[ts s2]|]; [|discriminate]. inversion Htrav; subst. eauto.
  - destruct (gtrav_kids _ _ _ _ _ _) as [[ts s2]|]; [|discriminate]. inversion Htrav; subst. eauto.
Qed.

Lemma F_ids_small a id : In (a, id) (tm_marked t0) -> id < 4294967296.
Proof.
  intro H. destruct F_ok as [H1 [_ [H3 H4]]].
  assert (Hin : In (a, id) (g_named s')) by (rewrite F_named; apply in_rev in H; exact H).
  destruct (H3 _ _ Hin) as [_ Hlt]. rewrite H4 in Hlt.
  assert (Hlen : (length (map fst (g_named s')) <= length dups)%nat).
  { apply NoDup_incl_length; [exact H1|]. intros x Hx. apply in_map_iff in Hx. destruct Hx as [[x' i] [Hx1 Hx2]]. simpl in Hx1. subst.
    apply mem_In. apply (H3 _ _ Hx2). }
  rewrite map_length in Hlen. lia.
Qed.

Lemma F_bids_nodup : NoDup (tm_bids t0).
Proof.
  rewrite tm_bids_marked.
  destruct (marked_nodup h dups false dups_small (Some root0) fuel t0 s' Htrav) as [_ Hn].
  assert (Hs := F_ids_small).
  revert Hn Hs. generalize (tm_marked t0). induction l as [|[a id] l IH]; intros Hn Hs; simpl; [constructor|].
  simpl in Hn. inversion Hn; subst. constructor.
  - intro Hin. apply in_map_iff in Hin. destruct Hin as [[a' id'] [He Hin]]. simpl in He.
    apply dec_bytes_inj in He; [| eapply Hs; right; exact Hin | eapply Hs; left; reflexivity].
    subst. apply H1. apply in_map_iff. exists (a', id). auto.
  - apply IH; [assumption|]. intros a' id' Hin. eapply Hs. right. exact Hin.
Qed.

Lemma F_M_occ a id k kids p : occ t0 0 (a, Some id, k, kids, p) -> M (dec_bytes id) = Some p.
Proof.
  intro Ho. unfold M. apply bfind_In; [rewrite marks_fst; exact F_bids_nodup | apply occ_marks in Ho; exact Ho].
Qed.

Lemma F_phi_occ a m k kids p : occ t0 0 (a, m, k, kids, p) -> phi a = p.
Proof.
  intro Ho. unfold phi. rewrite (afind_In a p); [reflexivity | rewrite assign_srcs; exact srcs_nd | eapply occ_assign; eauto].
Qed.

Lemma F_named_occ a id : named_find a (g_named s') = Some id -> exists k kids p, occ t0 0 (a, Some id, k, kids, p).
Proof.
  intro H. destruct F_ok as [H1 _]. apply (named_find_In a id _ H1) in H. rewrite F_named in H.
  apply in_rev in H. apply marked_occ. exact H.
Qed.

(* every reachable object is written out somewhere in the tree *)
Lemma F_reach_occ a : reach h (Some root0) a -> exists m k kids p, occ t0 0 (a, m, k, kids, p).
Proof.
  intro H. induction H as [a Ha | a n l b Hr IH Hn Hin].
  - injection Ha as <-. destruct F_root_node as [m [k [kids E]]]. rewrite E. exists m, k, kids, 0. apply occ_here.
  - destruct IH as [m [k [kids [p Ho]]]].
    destruct (occ_rel s' _ _ _ Ho _ F_rel) as [n' [Hn' [Hk [Hm Hkids]]]].
    rewrite Hn in Hn'. inversion Hn'; subst n'.
    destruct (rel_kids_entry _ _ _ _ _ _ Hkids Hin) as [pre [t [post [E [Hrt Hom]]]]].
    destruct t as [| |id|b' m' k' kids'].
    + destruct Hrt as [He _].
      apply empty_target_nil in He; [discriminate | eapply kids_closed; eauto].
    + discriminate Hrt.
    + destruct Hrt as [b0 [Hb0 [_ Hnf]]]. inversion Hb0; subst b0.
      destruct (F_named_occ _ _ Hnf) as [k1 [kids1 [p1 Ho1]]]. eauto.
    + assert (Hb' : b' = b) by (apply rel_node in Hrt; destruct Hrt as [Hb' _]; congruence). subst b'.
      exists m', k', kids', (p + 1 + kids_sz pre). eapply occ_trans; [exact Ho | exact E | apply occ_here].
Qed.

Lemma rel_rids sF t : forall r b, rel sF r t -> In b (tm_rids t) ->
  exists a id, b = dec_bytes id /\ named_find a (g_named sF) = Some id.
Proof.
  induction t as [| |id|a m k kids IHk] using tm_ind'; intros r b H Hin; try (simpl in Hin; contradiction).
  - destruct H as [a [_ [_ Hn]]]. simpl in Hin. destruct Hin as [<-|[]]. eauto.
  - apply rel_node in H. destruct H as [_ [n [_ [_ [_ Hkids]]]]]. cbn [tm_rids] in Hin.
    revert Hkids Hin. generalize (nkids n). generalize (is_struct n).
    induction kids as [|[l t] ks IHl]; intros sf [|[l' r'] rs] Hrel Hin; simpl in Hrel; try contradiction.
    destruct Hrel as [_ [_ [_ [Hrt Hrest]]]]. inversion IHk as [|y ys Hy Hys]; subst. simpl in Hy.
    simpl in Hin. apply in_app_or in Hin. destruct Hin as [Hin|Hin].
    + eapply Hy; eauto.
    + eapply IHl; eauto.
Qed.

Lemma F_rids b : In b (tm_rids t0) -> In b (tm_bids t0).
Proof.
  intro H. destruct (rel_rids _ _ _ _ F_rel H) as [a [id [-> Hn]]].
  destruct (F_named_occ _ _ Hn) as [k [kids [p Ho]]]. apply occ_marks in Ho.
  rewrite <- (marks_fst t0 0). apply in_map_iff. exists (dec_bytes id, p). auto.
Qed.

Lemma bfind_some b l : In b (map fst l) -> exists x, bfind b l = Some x.
Proof.
  induction l as [|[y q] l IH]; simpl; intro H; [contradiction|].
  destruct (bytes_eqb b y) eqn:E; [eauto|]. destruct H as [H|H]; [subst; rewrite bytes_eqb_refl in E; discriminate | auto].
Qed.

Lemma snd_inj_of_nodup (l : list (addr * addr)) a b p : NoDup (map snd l) -> In (a, p) l -> In (b, p) l -> a = b.
Proof.
  induction l as [|[x q] l IH]; simpl; intros Hn H1 H2; [contradiction|].
  inversion Hn; subst. destruct H1 as [E1|H1], H2 as [E2|H2].
  - congruence.
  - inversion E1; subst. exfalso. apply H3. apply in_map_iff. exists (b, p). auto.
  - inversion E2; subst. exfalso. apply H3. apply in_map_iff. exists (a, p). auto.
  - eapply IH; eauto.
Qed.

Lemma F_expect a m k kids p n :
  occ t0 0 (a, m, k, kids, p) -> hget h a = Some n -> k = nkind n ->
  rel_kids s' (is_struct n) kids (nkids n) ->
  forall l, expect M l k kids (p + 1) = option_map (lift phi) (kget l (nkids n)).
Proof.
  intros Ho Hn Hk Hkids l. unfold expect.
  assert (Hlab := rel_kids_labels h dups _ _ _ _ Hkids).
  assert (Hty := node_ok _ _ Hn).
  destruct (kid_lookup l kids (p + 1)) as [[t pt]|] eqn:E.
  - destruct (kid_lookup_spec _ _ _ _ _ E) as [pre [post [Ek [Hpt Hnp]]]].
    rewrite Ek in Hkids. destruct (rel_kids_mid _ _ _ _ _ _ _ Hkids) as [rpre [r [rpost [Er [Hl [Hrt [Hom _]]]]]]].
    rewrite Er. rewrite kget_split by (rewrite Hl; exact Hnp). simpl option_map.
    assert (Hin : In (l, r) (nkids n)) by (rewrite Er; apply in_or_app; right; left; reflexivity).
    destruct t as [| |id|b' m' k' kids'].
    + simpl is_omit. cbn iota. specialize (Hom eq_refl). destruct Hrt as [He _].
      assert (r = None).
      { apply empty_target_nil; [exact He|]. destruct r as [b|]; [|exact I]. eapply kids_closed; eauto. }
      subst r. unfold is_struct in Hom. subst k. destruct (nkind n) as [v| |] eqn:Ekn; try discriminate.
      simpl base_kids. destruct (struct_kids h n v Hty Ekn) as [Hz _].
      rewrite kget_zero; [reflexivity|]. rewrite <- Hz, Er, map_app. apply in_or_app. right. left. reflexivity.
    + simpl. assert (r = None) by exact Hrt. subst r. reflexivity.
    + simpl is_omit. cbn iota. destruct Hrt as [b [-> [_ Hnf]]].
      destruct (F_named_occ _ _ Hnf) as [k1 [kids1 [p1 Ho1]]].
      simpl val_of. rewrite (F_M_occ _ _ _ _ _ Ho1). simpl. rewrite (F_phi_occ _ _ _ _ _ Ho1). reflexivity.
    + simpl is_omit. cbn iota. simpl val_of.
      assert (Hr : r = Some b') by (apply rel_node in Hrt; destruct Hrt as [Hr _]; exact Hr). subst r.
      assert (Ho2 : occ t0 0 (b', m', k', kids', pt)).
      { eapply occ_trans; [exact Ho | exact Ek |]. rewrite Hpt. apply occ_here. }
      simpl. rewrite (F_phi_occ _ _ _ _ _ Ho2). reflexivity.
  - apply kid_lookup_none in E. rewrite Hlab in E. rewrite (kget_none _ _ E). simpl.
    subst k. destruct (nkind n) as [v| |] eqn:Ekn; simpl; try reflexivity.
    destruct (struct_kids h n v Hty Ekn) as [Hz _]. apply (kget_none l zero_fields). rewrite <- Hz. exact E.
Qed.

Lemma sim_bst0 : Sim M bst0 bst0.
Proof.
  constructor; simpl.
  - reflexivity.
  - reflexivity.
  - intro p. exact I.
  - intros; discriminate.
  - intros; contradiction.
  - intros; discriminate.
  - constructor.
  - intros; discriminate.
Qed.

Lemma F_main :
  exists sr', eff_val b_ref b_mark t0 FTop bst0 = Some (FTop, sr') /\ b_root sr' = Some (Some 0) /\
              iso phi h (Some root0) (b_heap sr') (Some 0).
Proof.
  destruct (rel_wf h dups node_ok s' t0 _ F_rel) as [Hwf Hnn].
  destruct F_root_node as [m0 [k0 [kids0 Et0]]].
  destruct (rel_total h dups node_ok b_ref b_mark s' t0 Hwf (Some root0) TPtr FTop bst0 F_rel root_struct eq_refl) as [sr' Er].
  { rewrite Et0. reflexivity. } { intros id E. rewrite Et0 in E. discriminate. } { intro E. rewrite Et0 in E. discriminate. }
  simpl next_frame in Er. exists sr'. split; [exact Er|].
  assert (HM : forall id x, In (id, x) (marks_at t0 (b_next bst0)) -> M id = Some x).
  { intros id x Hin. unfold M. apply bfind_In; [rewrite marks_fst; exact F_bids_nodup | exact Hin]. }
  destruct (sim_val M t0 Hwf FTop bst0 bst0 FTop sr' sim_bst0 I F_bids_nodup (fun _ _ => eq_refl) HM Er)
    as [si' [Ei [S' P']]].
  (* no setter is left waiting *)
  assert (Hpe : forall sl, ~ pending sr' sl).
  { intros sl [id Hin]. destruct sl as [q l].
    destruct (sim_pend _ _ _ S' _ _ _ Hin) as [Hnone _].
    destruct (pend_ids t0 _ _ _ _ Er _ _ Hin) as [[]|Hrid].
    apply F_rids in Hrid. rewrite (post_marked _ _ _ _ _ P') in Hnone.
    rewrite (proj2 (bmem_In _ _) Hrid) in Hnone.
    destruct (bfind_some id (marks_at t0 0)) as [x Hx]; [rewrite marks_fst; exact Hrid|].
    unfold M in Hnone. congruence. }
  assert (A0 : allocated bst0) by (intros q n Hq; discriminate).
  destruct (ideal_val M t0 Hwf Hnn FTop bst0 FTop si' A0) as [_ [_ [_ [Hroot [_ Hocc]]]]]; [rewrite Et0; exact I | exact I | exact Ei |].
  assert (Hr : b_root sr' = Some (Some 0)).
  { rewrite (sim_root _ _ _ S'), (Hroot eq_refl), Et0. reflexivity. }
  split; [exact Hr|].
  split; [|split].
  - simpl. f_equal. symmetry. apply (F_phi_occ root0 m0 k0 kids0 0). rewrite Et0. apply occ_here.
  - intros a b Ha Hb Hab.
    destruct (F_reach_occ _ Ha) as [ma [ka [kidsa [pa Hoa]]]]. destruct (F_reach_occ _ Hb) as [mb [kb [kidsb [pb Hob]]]].
    rewrite (F_phi_occ _ _ _ _ _ Hoa), (F_phi_occ _ _ _ _ _ Hob) in Hab. subst pb.
    eapply (snd_inj_of_nodup (assign t0 0)); [apply assign_addrs_nodup | eapply occ_assign; eauto | eapply occ_assign; eauto].
  - intros a Ha. destruct (F_reach_occ _ Ha) as [m [k [kids [p Ho]]]].
    destruct (occ_rel s' _ _ _ Ho _ F_rel) as [n [Hn [Hk [_ Hkids]]]].
    destruct (Hocc _ Ho) as [ni [Hi [Hki Hli]]].
    destruct (sim_exists_r _ _ _ _ _ S' Hi) as [nr Hnr].
    assert (D := sim_dom _ _ _ S' p). rewrite Hnr, Hi in D.
    exists n, nr. split; [exact Hn|]. rewrite (F_phi_occ _ _ _ _ _ Ho). split; [exact Hnr|]. split; [congruence|].
    intro l. rewrite (sim_slot _ _ _ S' p l nr ni Hnr Hi (Hpe _)), Hli.
    eapply F_expect; eauto.
Qed.

End Final.

(* ---- from the boolean hypotheses ---- *)
Lemma addrs_distinct_nodup seen h :
  addrs_distinct seen h = true -> NoDup (map fst h) /\ forall a, In a (map fst h) -> ~ In a seen.
Proof.
  revert seen. induction h as [|[a n] h IH]; intros seen H; simpl in *.
  - split; [constructor | intros ? []].
  - apply andb_true_iff in H. destruct H as [Ha H]. destruct (IH _ H) as [Hn Hs].
    assert (Hna : ~ In a seen).
    { intro Hin. apply mem_In in Hin. rewrite Hin in Ha. discriminate. }
    split.
    + constructor; [|exact Hn]. intro Hin. apply (Hs a Hin). left. reflexivity.
    + intros x [<-|Hx]; [exact Hna|]. intro Hin. apply (Hs x Hx). right. exact Hin.
Qed.

Lemma typed_facts h root :
  typed h root = true ->
  NoDup (map fst h) /\ (forall a n, hget h a = Some n -> node_typed h n = true) /\ target_ok h TPtr root = true.
Proof.
  unfold typed. intro H. apply andb_true_iff in H. destruct H as [H H3]. apply andb_true_iff in H. destruct H as [H1 H2].
  split; [apply (addrs_distinct_nodup [] h H1)|]. split; [|exact H3].
  intros a n Hn. rewrite forallb_forall in H2. apply (H2 (a, n)). apply hget_In. exact Hn.
Qed.

Lemma nonempty_facts h : no_empty_containers h = true -> forall a n, hget h a = Some n -> container_empty n = false.
Proof.
  unfold no_empty_containers. intros H a n Hn. rewrite forallb_forall in H.
  specialize (H (a, n) (hget_In _ _ _ Hn)). simpl in H. apply negb_true_iff in H. exact H.
Qed.

Lemma indeg_facts h root dups :
  indeg_ok h root dups = true ->
  forall a n, hget h a = Some n -> mem a dups = false -> (occurrences a (root :: all_kids h) <= 1)%nat.
Proof.
  unfold indeg_ok. intros H a n Hn Hm. rewrite forallb_forall in H.
  specialize (H (a, n) (hget_In _ _ _ Hn)). simpl in H. rewrite Hm in H. simpl in H. apply Nat.leb_le in H. exact H.
Qed.

Lemma reach_none h a : reach h None a -> False.
Proof. intro H. induction H; [discriminate | assumption]. Qed.

(* ------------------------------------------------------------------------- *)
(* Part 6: the validator's marker bookkeeping accepts every call tree           *)

Definition top_ok (stk : list vframe) : Prop := match stk with VMarker _ :: _ => False | _ => True end.

Lemma vrun_app s es1 es2 :
  vrun s (es1 ++ es2) = match vrun s es1 with Some s' => vrun s' es2 | None => None end.
Proof.
  revert s. induction es1 as [|e es1 IH]; intro s; simpl; [reflexivity|].
  destruct (vstep s e); [apply IH | reflexivity].
Qed.

Lemma v_scalar_top s : top_ok (v_stack s) -> v_scalar s = Some s.
Proof. unfold v_scalar. destruct (v_stack s) as [|[|id] r]; simpl; intro H; try reflexivity. contradiction. Qed.
Lemma v_ended_top s : top_ok (v_stack s) -> v_ended s = Some s.
Proof. unfold v_ended. destruct (v_stack s) as [|[|id] r]; simpl; intro H; try reflexivity. contradiction. Qed.

Lemma vrun_labels l stk slot marked fwd rest :
  top_ok stk -> vrun (mkV stk slot marked fwd) (label_events l ++ rest) = vrun (mkV stk slot marked fwd) rest.
Proof.
  intro H. destruct l; simpl; try reflexivity; rewrite v_scalar_top by exact H; reflexivity.
Qed.

Lemma vrun_kind_begin k stk slot marked fwd rest :
  vrun (mkV stk slot marked fwd) (kind_events k ++ rest) = vrun (mkV (VContainer :: stk) slot marked fwd) rest.
Proof. destruct k; simpl; reflexivity. Qed.

Lemma In_bremove x y l : In x (bremove y l) -> In x l /\ x <> y.
Proof.
  unfold bremove. intro H. apply filter_In in H. destruct H as [H1 H2]. split; [exact H1|].
  intros ->. rewrite bytes_eqb_refl in H2. discriminate.
Qed.

Definition VGoal (t : tm) : Prop :=
  forall stk slot marked fwd rest,
    is_omit t = false -> top_ok stk -> NoDup (tm_bids t) ->
    (forall id, In id (tm_bids t) -> bmem id marked = false) ->
    (forall id, In id fwd -> bmem id marked = false) ->
    exists slot' marked' fwd',
      vrun (mkV stk slot marked fwd) (flatten t ++ rest) = vrun (mkV stk slot' marked' fwd') rest /\
      (forall id, bmem id marked' = bmem id (tm_bids t) || bmem id marked) /\
      (forall id, In id fwd' -> bmem id marked' = false /\ (In id fwd \/ In id (tm_rids t))).

Lemma vrun_kids kids :
  Forall (fun lt : label * tm => VGoal (snd lt)) kids ->
  forall stk slot marked fwd rest,
    NoDup (kids_bids kids) ->
    (forall id, In id (kids_bids kids) -> bmem id marked = false) ->
    (forall id, In id fwd -> bmem id marked = false) ->
    exists slot' marked' fwd',
      vrun (mkV (VContainer :: stk) slot marked fwd) (kids_events kids ++ rest) =
      vrun (mkV (VContainer :: stk) slot' marked' fwd') rest /\
      (forall id, bmem id marked' = bmem id (kids_bids kids) || bmem id marked) /\
      (forall id, In id fwd' -> bmem id marked' = false /\
                                (In id fwd \/ In id (flat_map (fun lt : label * tm => tm_rids (snd lt)) kids))).
Proof.
  induction kids as [|[l t] ks IHl]; intros HG stk slot marked fwd rest Hnd Hun Hfw.
  - exists slot, marked, fwd. simpl. repeat split; auto.
  - inversion HG as [|x xs Hx Hxs]; subst. simpl in Hx.
    unfold kids_bids in Hnd, Hun. simpl in Hnd, Hun. fold (kids_bids ks) in Hnd, Hun.
    unfold kids_events. simpl. fold (kids_events ks). destruct (is_omit t) eqn:Eo.
    + assert (t = TOmit) by (apply is_omit_true; exact Eo). subst t. simpl in Hnd, Hun.
      destruct (IHl Hxs stk slot marked fwd rest Hnd Hun Hfw) as [sl' [mk' [fw' [E [Hm Hf]]]]].
      exists sl', mk', fw'. simpl. split; [exact E|]. split; [exact Hm|]. exact Hf.
    + rewrite <- !app_assoc. rewrite vrun_labels by exact I.
      destruct (Hx (VContainer :: stk) slot marked fwd (kids_events ks ++ rest) Eo I) as [sl1 [mk1 [fw1 [E1 [Hm1 Hf1]]]]].
      { eapply NoDup_app_l; eauto. }
      { intros id Hid. apply Hun. apply in_or_app. left. exact Hid. }
      { exact Hfw. }
      rewrite E1.
      destruct (IHl Hxs stk sl1 mk1 fw1 rest) as [sl' [mk' [fw' [E [Hm Hf]]]]].
      { eapply NoDup_app_r; eauto. }
      { intros id Hid. rewrite Hm1. rewrite bmem_false; [apply Hun; apply in_or_app; right; exact Hid|].
        intro Hin. exact (NoDup_app_disj _ _ _ Hnd Hin Hid). }
      { intros id Hid. apply (Hf1 id Hid). }
      exists sl', mk', fw'. split; [exact E|]. split.
      * intro id. rewrite Hm, Hm1. unfold kids_bids. simpl. fold (kids_bids ks). rewrite bmem_app.
        destruct (bmem id (kids_bids ks)), (bmem id (tm_bids t)); reflexivity.
      * intros id Hid. destruct (Hf id Hid) as [Ha [Hb|Hb]].
        -- split; [exact Ha|]. destruct (Hf1 id Hb) as [_ [Hc|Hc]]; [left; exact Hc | right; apply in_or_app; left; exact Hc].
        -- split; [exact Ha|]. right. apply in_or_app. right. exact Hb.
Qed.

Lemma vrun_tree t : VGoal t.
Proof.
  induction t as [| |id|a m k kids IHk] using tm_ind'; intros stk slot marked fwd rest Ho Ht Hnd Hun Hfw.
  - discriminate.
  - exists slot, marked, fwd. simpl. rewrite v_scalar_top by exact Ht. repeat split; auto.
  - simpl. destruct stk as [|[|id1] r]; try contradiction; simpl.
    + destruct (bmem (dec_bytes id) marked) eqn:E; eexists; eexists; eexists; (split; [reflexivity|]); (split; [reflexivity|]).
      * intros id0 Hin. auto.
      * intros id0 [<-|Hin]; [split; [exact E | right; left; reflexivity]|].
        apply In_bremove in Hin. destruct Hin as [Hin _]. split; [apply Hfw; exact Hin | left; exact Hin].
    + destruct (bmem (dec_bytes id) marked) eqn:E; eexists; eexists; eexists; (split; [reflexivity|]); (split; [reflexivity|]).
      * intros id0 Hin. auto.
      * intros id0 [<-|Hin]; [split; [exact E | right; left; reflexivity]|].
        apply In_bremove in Hin. destruct Hin as [Hin _]. split; [apply Hfw; exact Hin | left; exact Hin].
  - rewrite tm_bids_node in Hnd, Hun |- *. destruct m as [id|].
    + (* a marked object *)
      simpl app in Hnd, Hun. inversion Hnd as [|? ? Hnotin Hnd']; subst.
      change (flatten (TNode a (Some id) k kids)) with (EMarker (dec_bytes id) :: kind_events k ++ kids_events kids ++ [EEnd]).
      cbn [app vrun vstep v_stack v_marked v_fwd].
      assert (Hstep : (match stk with VMarker _ :: _ => None | _ => Some (mkV (VMarker (dec_bytes id) :: stk) (dec_bytes id) marked fwd) end)
                      = Some (mkV (VMarker (dec_bytes id) :: stk) (dec_bytes id) marked fwd)).
      { destruct stk as [|[|id1] r]; try reflexivity. contradiction. }
      rewrite Hstep. rewrite <- !app_assoc. rewrite vrun_kind_begin.
      destruct (vrun_kids kids IHk (VMarker (dec_bytes id) :: stk) (dec_bytes id) marked fwd ([EEnd] ++ rest) Hnd')
        as [sl' [mk' [fw' [E [Hm Hf]]]]].
      { intros id0 Hid. apply Hun. right. exact Hid. }
      { exact Hfw. }
      fold (kids_events kids). rewrite E. cbn [app vrun vstep v_stack v_ended v_slot v_marked v_fwd].
      unfold v_mark. cbn [v_stack v_slot v_marked v_fwd].
      assert (Hfresh : bmem (dec_bytes id) mk' = false).
      { rewrite Hm, (bmem_false _ _ Hnotin), (Hun (dec_bytes id) (or_introl eq_refl)). reflexivity. }
      rewrite Hfresh.
      exists (dec_bytes id), (dec_bytes id :: mk'), (bremove (dec_bytes id) fw').
      split; [reflexivity|]. split.
      * intro id0. simpl. rewrite Hm. destruct (bytes_eqb id0 (dec_bytes id)); reflexivity.
      * intros id0 Hin. apply In_bremove in Hin. destruct Hin as [Hin Hne].
        destruct (Hf id0 Hin) as [Ha Hb]. split; [|exact Hb].
        simpl. rewrite Ha, bytes_eqb_neq by exact Hne. reflexivity.
    + simpl app in Hnd, Hun.
      change (flatten (TNode a None k kids)) with (kind_events k ++ kids_events kids ++ [EEnd]).
      rewrite <- !app_assoc. rewrite vrun_kind_begin.
      destruct (vrun_kids kids IHk stk slot marked fwd ([EEnd] ++ rest) Hnd Hun Hfw) as [sl' [mk' [fw' [E [Hm Hf]]]]].
      fold (kids_events kids). rewrite E. cbn [app vrun vstep v_stack v_slot v_marked v_fwd].
      rewrite v_ended_top by exact Ht.
      exists sl', mk', fw'. split; [reflexivity|]. split; [exact Hm | exact Hf].
Qed.

(* the validator accepts the document of a tree whose marker ids are distinct and whose references
   all name a marker of the tree *)
Lemma vmark_doc t :
  is_omit t = false -> NoDup (tm_bids t) -> (forall b, In b (tm_rids t) -> In b (tm_bids t)) ->
  vmark (doc_events t) = true.
Proof.
  intros Ho Hnd Hcl. unfold vmark, doc_events. cbn [vrun vstep].
  destruct (vrun_tree t [] [] [] [] [EEndDoc] Ho I Hnd) as [sl' [mk' [fw' [E [Hm Hf]]]]].
  { intros; reflexivity. } { intros id []. }
  unfold vst0. rewrite E. cbn [vrun vstep v_fwd].
  assert (Hnil : fw' = []).
  { destruct fw' as [|x fw']; [reflexivity|]. exfalso.
    destruct (Hf x (or_introl eq_refl)) as [Ha [[]|Hb]].
    rewrite Hm in Ha. rewrite (proj2 (bmem_In _ _) (Hcl _ Hb)) in Ha. discriminate. }
  rewrite Hnil. reflexivity.
Qed.

(* ------------------------------------------------------------------------- *)
(* unmarshal(marshal(h)), validator on or off *)
Theorem graph_roundtrip_iso rules h dups root :
  typed h root = true -> closed h root = true -> no_empty_containers h = true ->
  cover_ok h dups = true -> indeg_ok h root dups = true -> N.of_nat (length dups) < 4294967296 ->
  exists h' root' phi, graph_roundtrip rules false h dups root = RtOk h' root' /\ iso phi h root h' root'.
Proof.
  intros Hty Hcl Hne Hcov Hin Hsmall.
  destruct root as [root0|].
  2:{ exists [], None, (fun a => a). split.
      - unfold graph_roundtrip, iterate_graph, iterate_tree. destruct (graph_fuel h dups); destruct rules; reflexivity.
      - split; [reflexivity|]. split; [intros a b Ha; exfalso; eapply reach_none; eauto | intros a Ha; exfalso; eapply reach_none; eauto]. }
  destruct (typed_facts _ _ Hty) as [Hkeys [Hnode Hroot]].
  destruct (graph_marshal_terminates h dups false (Some root0) Hcl Hcov) as [t0 [s' Htrav]].
  assert (Hsrcs : NoDup (tm_srcs t0)).
  { eapply (srcs_nodup h dups false Hsmall Hkeys (nonempty_facts _ Hne) (rank_of h dups (length h)) (length h)).
    - intro a. apply rank_of_le.
    - apply cover_ok_drop. exact Hcov.
    - apply (indeg_facts _ _ _ Hin).
    - exact Htrav. }
  destruct (F_main h dups Hnode (nonempty_facts _ Hne) (closed_kids _ _ Hcl) root0 _ t0 s' Hsmall
                   (closed_root _ _ Hcl) Hroot Htrav Hsrcs) as [sr' [Er [Hr Hiso]]].
  assert (Hv : vmark (doc_events t0) = true).
  { destruct (F_root_node h dups root0 _ t0 s' (closed_root _ _ Hcl) Htrav Hsrcs) as [m0 [k0 [kids0 Et0]]].
    apply vmark_doc.
    - rewrite Et0. reflexivity.
    - eapply (F_bids_nodup h dups Hnode (nonempty_facts _ Hne) (closed_kids _ _ Hcl)); eauto.
    - eapply F_rids; eauto. }
  eexists. eexists. eexists. split; [|exact Hiso].
  unfold graph_roundtrip, iterate_graph, iterate_tree. rewrite Htrav. rewrite Hv. rewrite andb_false_r.
  apply build_graph_eff; assumption.
Qed.

(* ------------------------------------------------------------------------- *)
(* The property in full, and the two witnesses against it *)
Definition graph_full_statement : Prop :=
  forall rules omit_never h root,
    typed h root = true -> closed h root = true ->
    (omit_never = false -> no_empty_containers h = true) ->
    exists h' root' phi,
      graph_roundtrip rules omit_never h (gdups_of h root) root = RtOk h' root' /\ iso phi h root h' root'.

Definition sn v a b c s m := mkNode (KStruct v) [(LF 0, a); (LF 1, b); (LF 2, c); (LF 3, s); (LF 4, m)].
Definition w_nilmap : heap := [(1, sn 1 None None None None None)].
Definition w_emptymap : heap :=
  [(1, sn 1 (Some 2) None None None (Some 3)); (2, sn 2 None None None None (Some 3)); (3, mkNode KMap [])].

Lemma nil_map_refuted :
  typed w_nilmap (Some 1) = true /\ closed w_nilmap (Some 1) = true /\
  graph_roundtrip true true w_nilmap (gdups_of w_nilmap (Some 1)) (Some 1) = RtBuildError.
Proof. vm_compute. repeat split. Qed.

Lemma empty_map_not_iso :
  typed w_emptymap (Some 1) = true /\ closed w_emptymap (Some 1) = true /\
  exists h' root',
    graph_roundtrip true true w_emptymap (gdups_of w_emptymap (Some 1)) (Some 1) = RtOk h' root' /\
    forall phi, ~ iso phi w_emptymap (Some 1) h' root'.
Proof.
  split; [vm_compute; reflexivity|]. split; [vm_compute; reflexivity|].
  eexists. eexists. split; [vm_compute; reflexivity|].
  intros phi [Hroot [_ Hnodes]].
  assert (R1 : reach w_emptymap (Some 1) 1) by (apply reach_root; reflexivity).
  assert (R2 : reach w_emptymap (Some 1) 2).
  { eapply reach_step with (a := 1) (l := LF 0); [exact R1 | vm_compute; reflexivity | simpl; left; reflexivity]. }
  simpl in Hroot. injection Hroot as Hp1.
  destruct (Hnodes 1 R1) as [n [n' [Hn [Hn' [_ Hk]]]]].
  rewrite <- Hp1 in Hn'. vm_compute in Hn, Hn'. inversion Hn; subst n. inversion Hn'; subst n'.
  assert (K0 := Hk (LF 0)). vm_compute in K0. injection K0 as K0.
  assert (K4 := Hk (LF 4)). vm_compute in K4. injection K4 as K4.
  destruct (Hnodes 2 R2) as [m [m' [Hm [Hm' [_ Hk2]]]]].
  rewrite <- K0 in Hm'. vm_compute in Hm, Hm'. inversion Hm; subst m. inversion Hm'; subst m'.
  assert (J4 := Hk2 (LF 4)). vm_compute in J4. injection J4 as J4.
  rewrite <- K4 in J4. discriminate.
Qed.

Lemma graph_full_refuted : ~ graph_full_statement.
Proof.
  intro H. destruct (H true true w_nilmap (Some 1)) as [h' [r' [phi [E _]]]];
    [reflexivity | reflexivity | discriminate |].
  vm_compute in E. discriminate.
Qed.

(* ------------------------------------------------------------------------- *)
(* The heaps of the type N inside the extended heap language                   *)

Definition xflat (v : xval) : Prop := match v with XStruct _ | XArr _ => False | _ => True end.

Lemma xbyval_cyclic_flat_struct :
  forall H self l, Forall xflat l -> xbyval_cyclic H self false (XStruct l) = false.
Proof.
  intros H self l F. induction F as [|x l Fx Fl IH].
  - reflexivity.
  - simpl in *. rewrite IH. destruct x; simpl in *; try reflexivity; contradiction.
Qed.

Lemma xembed_ref_flat : forall h r, xflat (xembed_ref h r).
Proof.
  intros h [a|]; simpl; [|exact I].
  destruct (hget h a) as [n|]; [destruct (container_empty n)|]; exact I.
Qed.

Lemma xembed_ref_not_cyclic :
  forall H self h r, xbyval_cyclic H self (is_xbyval (xembed_ref h r)) (xembed_ref h r) = false.
Proof.
  intros H self h [a|]; simpl; [|reflexivity].
  destruct (hget h a) as [n|]; [destruct (container_empty n)|]; reflexivity.
Qed.

(* every heap of the type N, written in the extended language, lies in the supported fragment *)
Lemma xembed_supported : forall h, x_supported (xembed h) = true.
Proof.
  intro h. unfold x_supported. apply forallb_forall. intros [a c] Hin.
  unfold xembed in Hin. apply in_map_iff in Hin. destruct Hin as [[a' n] [E _]].
  simpl in E. injection E as Ea Ec. subst a c. simpl.
  unfold xembed_node. destruct (nkind n) as [v| |]; unfold xcell_supported.
  - rewrite xbyval_cyclic_flat_struct; [reflexivity|].
    constructor; [exact I|].
    apply Forall_forall. intros x Hx. apply in_map_iff in Hx. destruct Hx as [lr [Ex _]]. subst x.
    apply xembed_ref_flat.
  - apply forallb_forall. intros e He. apply in_map_iff in He. destruct He as [lr [Ee _]]. subst e.
    rewrite xembed_ref_not_cyclic. reflexivity.
  - apply forallb_forall. intros [k e] He. apply in_map_iff in He. destruct He as [lr [Ee _]].
    injection Ee as _ Ee. subst e. cbn [snd]. rewrite xembed_ref_not_cyclic. reflexivity.
Qed.
