(* Proofs about the cache protocol model (Model/Cache.v): for ALL schedules,
   - every finished call that returned normally produced the run-alone trace,
   - no state has two threads about to access the same plain variable with a
     write among them (no data race), and every cross-thread read of a plain
     variable is preceded by  Write -po-> Done -sw-> Wait -po-> Read,
   - if every type is supported (no generator panics), no call is blocked for
     ever: a state in which nobody can move has every thread finished.
   The proofs are by an invariant preserved by every step (induction over the
   schedule), not by bounded exploration. *)
From CE Require Import Model.Cache.
From Coq Require Import Lia ZifyN ZifyNat ZifyBool.
Open Scope N_scope.


(* ------------------------------------------------------------------------- *)
(* Lists *)

Lemma nth_error_upd_eq {A} (l : list A) i x : (i < length l)%nat -> nth_error (upd l i x) i = Some x.
Proof.
  revert i; induction l as [|y l IH]; intros [|i] H; simpl in *; try lia; auto.
  apply IH; lia.
Qed.

Lemma nth_error_upd_neq {A} (l : list A) i j x : i <> j -> nth_error (upd l i x) j = nth_error l j.
Proof.
  revert i j; induction l as [|y l IH]; intros [|i] [|j] H; simpl; auto; try congruence.
Qed.

Lemma upd_length {A} (l : list A) i x : length (upd l i x) = length l.
Proof. revert i; induction l as [|y l IH]; intros [|i]; simpl; auto. Qed.

Lemma nth_error_Some_lt {A} (l : list A) i x : nth_error l i = Some x -> (i < length l)%nat.
Proof. intro H. apply nth_error_Some. congruence. Qed.

Lemma nth_error_app_l {A} (l r : list A) i x : nth_error l i = Some x -> nth_error (l ++ r) i = Some x.
Proof. intro H. rewrite nth_error_app1; auto. eapply nth_error_Some_lt; eauto. Qed.

Lemma nth_error_snoc {A} (l : list A) x : nth_error (l ++ [x]) (length l) = Some x.
Proof. rewrite nth_error_app2 by lia. rewrite Nat.sub_diag. reflexivity. Qed.

Lemma nth_error_split_upd {A} (l : list A) i x y :
  nth_error l i = Some x ->
  exists l1 l2, l = l1 ++ x :: l2 /\ length l1 = i /\ upd l i y = l1 ++ y :: l2.
Proof.
  revert i; induction l as [|z l IH]; intros [|i] H; simpl in *; try discriminate.
  - inversion H; subst. exists [], l. auto.
  - destruct (IH _ H) as (l1 & l2 & E1 & E2 & E3). exists (z :: l1), l2. simpl. subst. rewrite E3. auto.
Qed.

Lemma NoDup_app_iff {A} (l r : list A) :
  NoDup (l ++ r) <-> NoDup l /\ NoDup r /\ (forall x, In x l -> ~ In x r).
Proof.
  induction l as [|a l IH]; simpl.
  - split; [intro H; repeat split; auto; constructor | intros (_ & H & _); exact H].
  - split.
    + intro H. inversion H as [|? ? Hn Hd]; subst. apply IH in Hd. destruct Hd as (H1 & H2 & H3).
      repeat split; auto.
      * constructor; auto. intro Hin. apply Hn. apply in_or_app. left; exact Hin.
      * intros x [<-|Hx]; auto. intro Hin. apply Hn. apply in_or_app. right; exact Hin.
    + intros (H1 & H2 & H3). inversion H1 as [|? ? Hn Hd]; subst. constructor.
      * intro Hin. apply in_app_or in Hin. destruct Hin as [Hin|Hin]; auto. apply (H3 a); auto.
      * apply IH. repeat split; auto.
Qed.

Lemma NoDup_replace_mid {A} (a x x' b : list A) fresh :
  NoDup (a ++ x ++ b) -> NoDup x' -> (forall q, In q x' -> In q x \/ q = fresh) ->
  ~ In fresh a -> ~ In fresh b -> NoDup (a ++ x' ++ b).
Proof.
  intros H Hx' Hsub Ha Hb.
  apply NoDup_app_iff in H. destruct H as (H1 & H2 & H3).
  apply NoDup_app_iff in H2. destruct H2 as (H4 & H5 & H6).
  apply NoDup_app_iff. repeat split; auto.
  - apply NoDup_app_iff. repeat split; auto. intros q Hq. destruct (Hsub _ Hq) as [Hq'| ->]; auto.
  - intros q Hq Hin. apply in_app_or in Hin. destruct Hin as [Hin|Hin].
    + destruct (Hsub _ Hin) as [Hq'| ->]; auto. apply (H3 q Hq). apply in_or_app. left; exact Hq'.
    + apply (H3 q Hq). apply in_or_app. right; exact Hin.
Qed.

(* ------------------------------------------------------------------------- *)
(* Typing of function values; what never changes *)

Section WithTable.
Variable tt : ttable.

(* f is a function for type t: a generated function for t, or the published
   placeholder of a cell for t. *)
Definition typed (phs : list ph) (heap : list clo) (f : fn) (t : ty) : Prop :=
  match f with
  | FGen g => exists c, nth_error heap g = Some c /\ clo_ty c = t
  | FPh p => exists c, nth_error phs p = Some c /\ ph_ty c = t /\ ph_pub c = true
  | FErr => False
  end.

(* The cell is finished: published, counter back to zero, variable written. *)
Definition stable (c : ph) : Prop := ph_pub c = true /\ ph_cnt c = 0 /\ ph_var c <> None.

(* How the cells and the heap may change in one step (and hence in any number). *)
Definition ext (phs : list ph) (heap : list clo) (phs' : list ph) (heap' : list clo) : Prop :=
  (exists more, heap' = heap ++ more) /\
  (forall q c, nth_error phs q = Some c ->
     nth_error phs' q = Some c \/
     (~ stable c /\ exists c', nth_error phs' q = Some c' /\ ph_ty c' = ph_ty c /\ (ph_pub c = true -> ph_pub c' = true))).

Lemma ext_refl phs heap : ext phs heap phs heap.
Proof. split; [exists []; rewrite app_nil_r; auto | auto]. Qed.

Lemma typed_ext phs heap phs' heap' f t : ext phs heap phs' heap' -> typed phs heap f t -> typed phs' heap' f t.
Proof.
  intros [[more ->] Hc] H. destruct f as [g|p|]; simpl in *.
  - destruct H as (c & H1 & H2). exists c. split; auto. apply nth_error_app_l; auto.
  - destruct H as (c & H1 & H2 & H3). destruct (Hc _ _ H1) as [E | (_ & c' & E1 & E2 & E3)].
    + exists c; auto.
    + exists c'. repeat split; auto. congruence.
  - exact H.
Qed.

Lemma Forall2_typed_ext phs heap phs' heap' fs ts :
  ext phs heap phs' heap' -> Forall2 (typed phs heap) fs ts -> Forall2 (typed phs' heap') fs ts.
Proof. intros He H. induction H; constructor; eauto using typed_ext. Qed.

Lemma stable_ext phs heap phs' heap' q c :
  ext phs heap phs' heap' -> nth_error phs q = Some c -> stable c -> nth_error phs' q = Some c.
Proof. intros [_ Hc] H Hs. destruct (Hc _ _ H) as [E | (Hn & _)]; auto. contradiction. Qed.

(* the type a function value stands for (total, for rewriting) *)
Definition fty (phs : list ph) (heap : list clo) (f : fn) : option ty :=
  match f with
  | FGen g => option_map clo_ty (nth_error heap g)
  | FPh p => option_map ph_ty (nth_error phs p)
  | FErr => None
  end.

Lemma typed_fty phs heap f t : typed phs heap f t -> fty phs heap f = Some t.
Proof.
  destruct f; simpl; [intros (c & -> & <-) | intros (c & -> & <- & _) | contradiction]; reflexivity.
Qed.

(* ------------------------------------------------------------------------- *)
(* The invariant *)

(* cells *)
Definition cell_ok (heap : list clo) (c : ph) : Prop :=
  (ph_pub c = false -> ph_var c = None) /\
  (ph_pub c = true -> ph_var c = None -> ph_cnt c = 1) /\
  (forall f, ph_var c = Some f -> f = FErr \/ exists g k, f = FGen g /\ nth_error heap g = Some k /\ clo_ty k = ph_ty c).

(* one activation of the cache request, by program counter *)
Definition frame_ok (phs : list ph) (heap : list clo) (fr : frame) : Prop :=
  match f_pc fr with
  | PLoad => True
  | PAdd => f_got fr = [] /\ exists c, nth_error phs (f_ph fr) = Some c /\ ph_ty c = f_ty fr /\ ph_cnt c = 0 /\ ph_var c = None /\ ph_pub c = false
  | PLoS => f_got fr = [] /\ exists c, nth_error phs (f_ph fr) = Some c /\ ph_ty c = f_ty fr /\ ph_cnt c = 1 /\ ph_var c = None /\ ph_pub c = false
  | PGen => (exists c, nth_error phs (f_ph fr) = Some c /\ ph_ty c = f_ty fr /\ ph_cnt c = 1 /\ ph_var c = None /\ ph_pub c = true) /\
            exists tys, kidtypes tt (f_ty fr) = tys ++ f_todo fr /\ Forall2 (typed phs heap) (f_got fr) tys
  | PWrite => (exists c, nth_error phs (f_ph fr) = Some c /\ ph_ty c = f_ty fr /\ ph_cnt c = 1 /\ ph_var c = None /\ ph_pub c = true) /\
              Forall2 (typed phs heap) (f_got fr) (kidtypes tt (f_ty fr))
  | PDone => exists c, nth_error phs (f_ph fr) = Some c /\ ph_ty c = f_ty fr /\ ph_cnt c = 1 /\
                       (exists g, ph_var c = Some (FGen g) /\ typed phs heap (FGen g) (f_ty fr)) /\ ph_pub c = true
  | PStore => exists c, nth_error phs (f_ph fr) = Some c /\ ph_ty c = f_ty fr /\ ph_cnt c = 0 /\
                        (exists g, ph_var c = Some (FGen g) /\ typed phs heap (FGen g) (f_ty fr)) /\ ph_pub c = true
  | PDel | PWErr => exists c, nth_error phs (f_ph fr) = Some c /\ ph_ty c = f_ty fr /\ ph_cnt c = 1 /\ ph_var c = None /\ ph_pub c = true
  | PDErr => exists c, nth_error phs (f_ph fr) = Some c /\ ph_ty c = f_ty fr /\ ph_cnt c = 1 /\ ph_var c = Some FErr /\ ph_pub c = true
  end.

(* a stack of nested requests (innermost first) whose outermost request is for type t *)
Fixpoint stack_ok (phs : list ph) (heap : list clo) (st : list frame) (t : ty) : Prop :=
  match st with
  | [] => False
  | fr :: rest =>
      frame_ok phs heap fr /\
      match rest with
      | [] => f_ty fr = t
      | parent :: _ => f_pc parent = PGen /\ (exists more, f_todo parent = f_ty fr :: more) /\ stack_ok phs heap rest t
      end
  end.

Definition witem_ok (phs : list ph) (heap : list clo) (w : witem) : Prop :=
  match w with
  | WGet _ _ => True
  | WCall f _ => exists t, typed phs heap f t
  | WRead p _ => exists c, nth_error phs p = Some c /\ stable c
  end.

(* the trace the work item will still produce *)
Definition wexp (phs : list ph) (heap : list clo) (w : witem) : list ty :=
  match w with
  | WGet t v => ref tt v t
  | WCall f v => match fty phs heap f with Some t => ref tt v t | None => [] end
  | WRead p v => match nth_error phs p with Some c => ref tt v (ph_ty c) | None => [] end
  end.

Definition result_ok (jr : job * result) : Prop :=
  snd jr = RPanic \/ exists k, snd jr = ROk (ref tt (snd (fst jr)) (fst (fst jr))) k.

Definition thread_ok (phs : list ph) (heap : list clo) (th : thread) : Prop :=
  Forall result_ok (th_done th) /\
  match th_cur th with
  | None => th_stack th = [] /\ th_work th = [] /\ th_trace th = []
  | Some (t, v) =>
      (th_stack th = [] \/ exists t' v' w, th_work th = WGet t' v' :: w /\ stack_ok phs heap (th_stack th) t') /\
      Forall (witem_ok phs heap) (th_work th) /\
      th_trace th ++ flat_map (wexp phs heap) (th_work th) = ref tt v t
  end.

Definition owned_frames (st : list frame) : list nat :=
  map f_ph (filter (fun fr => negb (pc_eqb (f_pc fr) PLoad)) st).
Definition owned (ths : list thread) : list nat := flat_map (fun th => owned_frames (th_stack th)) ths.

Record Inv (s : state) : Prop := mkInv {
  inv_map : forall t f, In (t, f) (st_map s) -> typed (st_phs s) (st_heap s) f t;
  inv_heap : forall g c, nth_error (st_heap s) g = Some c ->
               Forall2 (typed (st_phs s) (st_heap s)) (clo_kids c) (kidtypes tt (clo_ty c));
  inv_cells : forall p c, nth_error (st_phs s) p = Some c -> cell_ok (st_heap s) c;
  inv_threads : Forall (thread_ok (st_phs s) (st_heap s)) (st_threads s);
  inv_owned : NoDup (owned (st_threads s))
}.

(* ------------------------------------------------------------------------- *)
(* Preservation under extension *)

Lemma frame_ok_ext phs heap phs' heap' fr :
  ext phs heap phs' heap' ->
  (f_pc fr <> PLoad -> nth_error phs' (f_ph fr) = nth_error phs (f_ph fr)) ->
  frame_ok phs heap fr -> frame_ok phs' heap' fr.
Proof.
  intros He Hc H. unfold frame_ok in *. destruct (f_pc fr) eqn:E; auto;
    try (rewrite Hc by congruence; exact H).
  - rewrite Hc by congruence. destruct H as [H1 (tys & H2 & H3)]. split; auto.
    exists tys; split; auto. eapply Forall2_typed_ext; eauto.
  - rewrite Hc by congruence. destruct H as [H1 H2]. split; auto. eapply Forall2_typed_ext; eauto.
  - rewrite Hc by congruence. destruct H as (c & H1 & H2 & H3 & (g & H4 & H5) & H6).
    exists c. repeat split; auto. exists g. split; auto. eapply typed_ext; eauto.
  - rewrite Hc by congruence. destruct H as (c & H1 & H2 & H3 & (g & H4 & H5) & H6).
    exists c. repeat split; auto. exists g. split; auto. eapply typed_ext; eauto.
Qed.

Lemma stack_ok_ext phs heap phs' heap' st t :
  ext phs heap phs' heap' ->
  (forall fr, In fr st -> f_pc fr <> PLoad -> nth_error phs' (f_ph fr) = nth_error phs (f_ph fr)) ->
  stack_ok phs heap st t -> stack_ok phs' heap' st t.
Proof.
  intros He. induction st as [|fr rest IH]; simpl; auto. intros Hc [H1 H2]. split.
  - eapply frame_ok_ext; eauto.
  - destruct rest as [|parent rest']; auto. destruct H2 as (H2 & H3 & H4).
    split; [exact H2 | split; [exact H3 |]].
    apply IH; [intros fr' Hin Hpc; apply Hc; [right; exact Hin | exact Hpc] | exact H4].
Qed.

Lemma witem_ok_ext phs heap phs' heap' w :
  ext phs heap phs' heap' -> witem_ok phs heap w -> witem_ok phs' heap' w.
Proof.
  intros He H. destruct w; simpl in *; auto.
  - destruct H as [t H]. exists t. eapply typed_ext; eauto.
  - destruct H as (c & H1 & H2). exists c. split; auto. eapply stable_ext; eauto.
Qed.

Lemma wexp_ext phs heap phs' heap' w :
  ext phs heap phs' heap' -> witem_ok phs heap w -> wexp phs' heap' w = wexp phs heap w.
Proof.
  intros He H. destruct w; simpl in *; auto.
  - destruct H as [t H]. rewrite (typed_fty _ _ _ _ H). rewrite (typed_fty _ _ _ _ (typed_ext _ _ _ _ _ _ He H)). reflexivity.
  - destruct H as (c & H1 & H2). rewrite H1. rewrite (stable_ext _ _ _ _ _ _ He H1 H2). reflexivity.
Qed.

Lemma flat_map_wexp_ext phs heap phs' heap' ws :
  ext phs heap phs' heap' -> Forall (witem_ok phs heap) ws ->
  flat_map (wexp phs' heap') ws = flat_map (wexp phs heap) ws.
Proof.
  intros He H. induction H; simpl; auto. rewrite IHForall. erewrite wexp_ext; eauto.
Qed.

Lemma in_owned_frames st fr : In fr st -> f_pc fr <> PLoad -> In (f_ph fr) (owned_frames st).
Proof.
  intros H1 H2. unfold owned_frames. apply in_map. apply filter_In. split; auto.
  destruct (f_pc fr); simpl; congruence.
Qed.

Lemma thread_ok_ext phs heap phs' heap' th :
  ext phs heap phs' heap' ->
  (forall q, In q (owned_frames (th_stack th)) -> nth_error phs' q = nth_error phs q) ->
  thread_ok phs heap th -> thread_ok phs' heap' th.
Proof.
  intros He Hc [Hd H]. split; auto. destruct (th_cur th) as [[t v]|]; auto.
  destruct H as (H1 & H2 & H3). repeat split.
  - destruct H1 as [H1 | (t' & v' & w & E & H1)]; auto. right. exists t', v', w. split; auto.
    eapply stack_ok_ext; eauto. intros fr Hin Hpc. apply Hc. apply in_owned_frames; auto.
  - eapply Forall_impl; [|exact H2]. intros; eapply witem_ok_ext; eauto.
  - rewrite (flat_map_wexp_ext _ _ _ _ _ He H2). exact H3.
Qed.

Lemma cell_ok_heap heap more c : cell_ok heap c -> cell_ok (heap ++ more) c.
Proof.
  intros (H1 & H2 & H3). repeat split; auto. intros f Hf. destruct (H3 _ Hf) as [E|(g & k & E1 & E2 & E3)]; auto.
  right. exists g, k. repeat split; auto. apply nth_error_app_l; auto.
Qed.

(* ------------------------------------------------------------------------- *)
(* Small facts used by the step lemma *)

Lemma lookup_In m t f : lookup m t = Some f -> In (t, f) m.
Proof.
  induction m as [|[t' f'] m IH]; simpl; [discriminate|].
  destruct (N.eqb_spec t' t) as [->|Hn]; intro H.
  - inversion H; subst. left; reflexivity.
  - right; auto.
Qed.

Lemma Forall2_nth_error {A B} (R : A -> B -> Prop) l1 l2 i :
  Forall2 R l1 l2 ->
  match nth_error l1 i, nth_error l2 i with
  | Some x, Some y => R x y
  | None, None => True
  | _, _ => False
  end.
Proof.
  intro H. revert i. induction H; intros [|i]; simpl; auto. apply IHForall2.
Qed.

Lemma owned_frames_cons fr rest :
  owned_frames (fr :: rest) =
  if pc_eqb (f_pc fr) PLoad then owned_frames rest else f_ph fr :: owned_frames rest.
Proof. unfold owned_frames. simpl. destruct (pc_eqb (f_pc fr) PLoad); reflexivity. Qed.

Lemma owned_tail_incl_aux fr rest q : In q (owned_frames rest) -> In q (owned_frames (fr :: rest)).
Proof. rewrite owned_frames_cons. destruct (pc_eqb (f_pc fr) PLoad); simpl; auto. Qed.

Lemma frame_ok_cell phs heap fr :
  frame_ok phs heap fr -> f_pc fr <> PLoad -> exists c, nth_error phs (f_ph fr) = Some c /\ ph_ty c = f_ty fr.
Proof.
  unfold frame_ok. destruct (f_pc fr); intros H Hn; try congruence.
  - destruct H as (_ & c & H1 & H2 & _); eauto.
  - destruct H as (_ & c & H1 & H2 & _); eauto.
  - destruct H as ((c & H1 & H2 & _) & _); eauto.
  - destruct H as ((c & H1 & H2 & _) & _); eauto.
  - destruct H as (c & H1 & H2 & _); eauto.
  - destruct H as (c & H1 & H2 & _); eauto.
  - destruct H as (c & H1 & H2 & _); eauto.
  - destruct H as (c & H1 & H2 & _); eauto.
  - destruct H as (c & H1 & H2 & _); eauto.
Qed.

Lemma stack_ok_frames phs heap st t : stack_ok phs heap st t -> Forall (frame_ok phs heap) st.
Proof.
  revert t; induction st as [|fr rest IH]; intros t H; simpl in H; [contradiction|].
  destruct H as [H1 H2]. constructor; auto. destruct rest as [|parent rest']; [constructor|].
  destruct H2 as (_ & _ & H2). eapply IH; eauto.
Qed.

Lemma owned_lt phs heap st q :
  Forall (frame_ok phs heap) st -> In q (owned_frames st) -> (q < length phs)%nat.
Proof.
  intros H. induction H as [|fr rest H1 H2 IH]; simpl; [contradiction|].
  rewrite owned_frames_cons. destruct (pc_eqb (f_pc fr) PLoad) eqn:E; auto.
  intros [<-|Hin]; auto. destruct (frame_ok_cell _ _ _ H1) as (c & Hc & _).
  - destruct (f_pc fr); simpl in E; congruence.
  - eapply nth_error_Some_lt; eauto.
Qed.

Lemma pc_eqb_PLoad_false c : c <> PLoad -> pc_eqb c PLoad = false.
Proof. destruct c; simpl; congruence. Qed.

(* what a generated function makes of the sub-values agrees with [ref] *)
Lemma expand_wexp phs heap kids t subs :
  Forall2 (typed phs heap) kids (kidtypes tt t) ->
  flat_map (wexp phs heap) (expand kids subs) =
  flat_map (fun sv => match fst sv with
                      | SKid i => match nth_error (kidtypes tt t) i with Some c => ref tt (snd sv) c | None => [] end
                      | SDyn t' => ref tt (snd sv) t'
                      end) subs.
Proof.
  intro H. unfold expand. induction subs as [|[sl v] subs IH]; simpl; auto.
  rewrite flat_map_app. rewrite IH. f_equal. destruct sl as [i|t']; simpl.
  - pose proof (Forall2_nth_error _ _ _ i H) as Hn.
    destruct (nth_error kids i) as [k|], (nth_error (kidtypes tt t) i) as [c|]; try contradiction; simpl; auto.
    rewrite (typed_fty _ _ _ _ Hn). rewrite app_nil_r. reflexivity.
  - rewrite app_nil_r. reflexivity.
Qed.

Lemma expand_ok phs heap kids t subs :
  Forall2 (typed phs heap) kids (kidtypes tt t) -> Forall (witem_ok phs heap) (expand kids subs).
Proof.
  intro H. unfold expand. induction subs as [|[sl v] subs IH]; simpl; [constructor|].
  apply Forall_app. split; auto. destruct sl as [i|t']; simpl.
  - pose proof (Forall2_nth_error _ _ _ i H) as Hn.
    destruct (nth_error kids i) as [k|], (nth_error (kidtypes tt t) i) as [c|]; try contradiction; repeat constructor.
    simpl. eauto.
  - repeat constructor.
Qed.

Lemma ref_unfold subs t :
  ref tt (V subs) t =
  t :: flat_map (fun sv => match fst sv with
                           | SKid i => match nth_error (kidtypes tt t) i with Some c => ref tt (snd sv) c | None => [] end
                           | SDyn t' => ref tt (snd sv) t'
                           end) subs.
Proof. reflexivity. Qed.

(* ------------------------------------------------------------------------- *)
(* One step of one thread preserves everything *)

Record step_out (m : list (ty * fn)) (phs : list ph) (heap : list clo) (th th' : thread) (sh : shared) : Prop := mkOut {
  so_ext : ext phs heap (sh_phs sh) (sh_heap sh);
  so_foot : forall q, ~ In q (owned_frames (th_stack th)) -> (q < length phs)%nat ->
            nth_error (sh_phs sh) q = nth_error phs q;
  so_map : forall t f, In (t, f) (sh_map sh) -> typed (sh_phs sh) (sh_heap sh) f t;
  so_heap : forall g c, nth_error (sh_heap sh) g = Some c ->
            Forall2 (typed (sh_phs sh) (sh_heap sh)) (clo_kids c) (kidtypes tt (clo_ty c));
  so_cells : forall p c, nth_error (sh_phs sh) p = Some c -> cell_ok (sh_heap sh) c;
  so_thread : thread_ok (sh_phs sh) (sh_heap sh) th';
  so_owned : forall q, In q (owned_frames (th_stack th')) -> In q (owned_frames (th_stack th)) \/ q = length phs;
  so_nodup : NoDup (owned_frames (th_stack th'))
}.

Section Step.
Variables (m : list (ty * fn)) (phs : list ph) (heap : list clo).
Hypothesis Hmap : forall t f, In (t, f) m -> typed phs heap f t.
Hypothesis Hheap : forall g c, nth_error heap g = Some c -> Forall2 (typed phs heap) (clo_kids c) (kidtypes tt (clo_ty c)).
Hypothesis Hcells : forall p c, nth_error phs p = Some c -> cell_ok heap c.

(* the cells and the heap do not change; the map may lose bindings *)
Lemma step_out_sub th th' m' :
  (forall t f, In (t, f) m' -> In (t, f) m) ->
  thread_ok phs heap th' ->
  (forall q, In q (owned_frames (th_stack th')) -> In q (owned_frames (th_stack th))) ->
  NoDup (owned_frames (th_stack th')) ->
  forall evs, step_out m phs heap th th' (mkShared m' phs heap evs).
Proof.
  intros H0 H1 H2 H3 evs. constructor; simpl; auto using ext_refl.
Qed.

Lemma step_out_same th th' :
  thread_ok phs heap th' ->
  (forall q, In q (owned_frames (th_stack th')) -> In q (owned_frames (th_stack th))) ->
  NoDup (owned_frames (th_stack th')) ->
  forall evs, step_out m phs heap th th' (mkShared m phs heap evs).
Proof. intros. apply step_out_sub; auto. Qed.

(* only the map gets a new binding *)
Lemma step_out_map th th' t f :
  typed phs heap f t ->
  thread_ok phs heap th' ->
  (forall q, In q (owned_frames (th_stack th')) -> In q (owned_frames (th_stack th))) ->
  NoDup (owned_frames (th_stack th')) ->
  forall evs, step_out m phs heap th th' (mkShared ((t, f) :: m) phs heap evs).
Proof.
  intros H0 H1 H2 H3 evs. constructor; simpl; auto using ext_refl.
  intros t' f' [E|Hin]; auto. inversion E; subst; auto.
Qed.

(* a thread that has given up its job is fine whatever the rest looks like *)
Lemma panic_ok phs' heap' th : Forall (result_ok) (th_done th) -> thread_ok phs' heap' (panic th).
Proof.
  intro H. unfold panic. destruct (th_cur th); split; simpl; auto.
  apply Forall_app; split; auto. constructor; [left; reflexivity | constructor].
Qed.

Lemma panic_stack th : th_stack (panic th) = [].
Proof. unfold panic. destruct (th_cur th); reflexivity. Qed.

Lemma thread_ok_stack_inv th fr rest :
  thread_ok phs heap th -> th_stack th = fr :: rest ->
  exists t v t' v' w,
    th_cur th = Some (t, v) /\ th_work th = WGet t' v' :: w /\ stack_ok phs heap (fr :: rest) t' /\
    Forall (witem_ok phs heap) (th_work th) /\
    th_trace th ++ flat_map (wexp phs heap) (th_work th) = ref tt v t /\ Forall result_ok (th_done th).
Proof.
  intros [Hd H] E. destruct (th_cur th) as [[t v]|].
  - destruct H as ([H1 | (t' & v' & w & E1 & H1)] & H2 & H3); [congruence|].
    rewrite E in H1. exists t, v, t', v', w.
    split; [reflexivity|]. split; [exact E1|]. split; [exact H1|]. auto.
  - destruct H as (H & _). congruence.
Qed.

Lemma thread_ok_nostack_inv th wi w :
  thread_ok phs heap th -> th_stack th = [] -> th_work th = wi :: w ->
  exists t v,
    th_cur th = Some (t, v) /\ Forall (witem_ok phs heap) (th_work th) /\
    th_trace th ++ flat_map (wexp phs heap) (th_work th) = ref tt v t /\ Forall result_ok (th_done th).
Proof.
  intros [Hd H] E Ew. destruct (th_cur th) as [[t v]|].
  - destruct H as (_ & H2 & H3). exists t, v. auto.
  - destruct H as (_ & H & _). congruence.
Qed.

(* the innermost request returns a function of the right type *)
Lemma ret_ok th fr rest f :
  thread_ok phs heap th -> th_stack th = fr :: rest -> typed phs heap f (f_ty fr) ->
  thread_ok phs heap (ret th rest f) /\ owned_frames (th_stack (ret th rest f)) = owned_frames rest.
Proof.
  intros Hth E Hf. destruct (thread_ok_stack_inv _ _ _ Hth E) as (t & v & t' & v' & w & Ec & Ew & Hs & Hw & Htr & Hd).
  unfold ret. destruct rest as [|parent rest'].
  - rewrite Ew. split; [|reflexivity]. split; simpl; auto. rewrite Ec.
    simpl in Hs. destruct Hs as [_ Hs]. rewrite Hs in Hf.
    split; [left; reflexivity|]. rewrite Ew in Hw, Htr. inversion Hw; subst. split.
    + constructor; auto. simpl. eauto.
    + simpl in *. rewrite (typed_fty _ _ _ _ Hf). exact Htr.
  - split.
    + split; simpl; auto. rewrite Ec. split; [|split; auto].
      right. exists t', v', w. split; auto.
      simpl in Hs. destruct Hs as (Hfr & Hpc & (more & Htodo) & Hp & Hrest).
      simpl. split.
      * unfold frame_ok in *. simpl. rewrite Hpc in *. destruct Hp as [Hcell (tys & Hk & Hgot)].
        split; auto. exists (tys ++ [f_ty fr]). rewrite Htodo in *. simpl. rewrite <- app_assoc. simpl.
        split; auto. apply Forall2_app; auto.
      * exact Hrest.
    + simpl. rewrite !owned_frames_cons. simpl. reflexivity.
Qed.

(* the innermost frame is replaced by another one for the same type; the cells of the other frames do not change *)
Lemma replace_top_ok th fr fr' rest phs' heap' :
  thread_ok phs heap th -> th_stack th = fr :: rest ->
  ext phs heap phs' heap' ->
  (forall q, In q (owned_frames rest) -> nth_error phs' q = nth_error phs q) ->
  f_ty fr' = f_ty fr -> frame_ok phs' heap' fr' ->
  thread_ok phs' heap' (with_stack th (fr' :: rest)).
Proof.
  intros Hth E He Hun Hty Hfr.
  destruct (thread_ok_stack_inv _ _ _ Hth E) as (t & v & t' & v' & w & Ec & Ew & Hs & Hw & Htr & Hd).
  split; simpl; auto. rewrite Ec. split; [|split].
  - right. exists t', v', w. split; auto. simpl. split; auto.
    simpl in Hs. destruct Hs as [_ Hs]. destruct rest as [|parent rest'].
    + congruence.
    + destruct Hs as (H1 & (more & H2) & H3). split; auto. split; [exists more; congruence|].
      eapply stack_ok_ext; eauto. intros fr0 Hin Hpc. apply Hun. apply in_owned_frames; auto.
  - eapply Forall_impl; [|exact Hw]. intros; eapply witem_ok_ext; eauto.
  - rewrite (flat_map_wexp_ext _ _ _ _ _ He Hw). exact Htr.
Qed.

Lemma map_ok_ext phs' heap' :
  ext phs heap phs' heap' -> forall t f, In (t, f) m -> typed phs' heap' f t.
Proof. intros He t f Hin. eapply typed_ext; eauto. Qed.

Lemma heap_ok_ext phs' more :
  ext phs heap phs' (heap ++ more) ->
  (forall c, In c more -> Forall2 (typed phs' (heap ++ more)) (clo_kids c) (kidtypes tt (clo_ty c))) ->
  forall g c, nth_error (heap ++ more) g = Some c ->
              Forall2 (typed phs' (heap ++ more)) (clo_kids c) (kidtypes tt (clo_ty c)).
Proof.
  intros He Hnew g c Hg. destruct (Nat.lt_ge_cases g (length heap)) as [Hl|Hl].
  - rewrite nth_error_app1 in Hg by exact Hl. eapply Forall2_typed_ext; eauto.
  - rewrite nth_error_app2 in Hg by exact Hl. apply Hnew. eapply nth_error_In; eauto.
Qed.

(* the innermost frame changes its own cell *)
Lemma step_out_cell_gen th th' fr rest c c' m' heap' more evs :
  thread_ok phs heap th -> th_stack th = fr :: rest -> NoDup (owned_frames (fr :: rest)) ->
  heap' = heap ++ more ->
  f_pc fr <> PLoad ->
  nth_error phs (f_ph fr) = Some c -> ~ stable c -> ph_ty c' = ph_ty c -> (ph_pub c = true -> ph_pub c' = true) ->
  (forall t f, In (t, f) m' -> In (t, f) m \/ typed (upd phs (f_ph fr) c') heap' f t) ->
  (forall k, In k more -> Forall2 (typed (upd phs (f_ph fr) c') heap') (clo_kids k) (kidtypes tt (clo_ty k))) ->
  cell_ok heap' c' ->
  (ext phs heap (upd phs (f_ph fr) c') heap' ->
   (forall q, In q (owned_frames rest) -> nth_error (upd phs (f_ph fr) c') q = nth_error phs q) ->
   thread_ok (upd phs (f_ph fr) c') heap' th') ->
  (forall q, In q (owned_frames (th_stack th')) -> In q (owned_frames (fr :: rest))) ->
  NoDup (owned_frames (th_stack th')) ->
  step_out m phs heap th th' (mkShared m' (upd phs (f_ph fr) c') heap' evs).
Proof.
  intros Hth E Hnd -> Hpc Hc Hns Hty' Hpub Hm' Hmore Hc' Hth' Hown Hnd'.
  assert (He : ext phs heap (upd phs (f_ph fr) c') (heap ++ more)).
  { split; [eexists; reflexivity|]. intros q c0 Hq. destruct (Nat.eq_dec (f_ph fr) q) as [<-|Hne].
    - right. assert (c0 = c) by congruence. subst c0. split; auto. exists c'. split; auto.
      apply nth_error_upd_eq. eapply nth_error_Some_lt; eauto.
    - left. rewrite nth_error_upd_neq; auto. }
  rewrite owned_frames_cons in Hnd. rewrite (pc_eqb_PLoad_false _ Hpc) in Hnd. inversion Hnd as [|? ? Hnotin Hnd'']; subst.
  constructor; simpl; auto.
  - intros q Hq _. rewrite nth_error_upd_neq; auto. intro; subst q. apply Hq.
    rewrite E. rewrite owned_frames_cons. rewrite (pc_eqb_PLoad_false _ Hpc). left; reflexivity.
  - intros t f Hin. destruct (Hm' _ _ Hin) as [H|H]; auto. eapply typed_ext; eauto.
  - apply heap_ok_ext; auto.
  - intros p k Hp. destruct (Nat.eq_dec (f_ph fr) p) as [<-|Hne].
    + rewrite nth_error_upd_eq in Hp by (eapply nth_error_Some_lt; eauto). congruence.
    + rewrite nth_error_upd_neq in Hp by auto. apply cell_ok_heap. eauto.
  - apply Hth'; auto. intros q Hq. apply nth_error_upd_neq. intro; subst q. contradiction.
  - intros q Hq. left. rewrite E. auto.
Qed.

Lemma step_out_cell th fr fr' rest c c' m' heap' more evs :
  thread_ok phs heap th -> th_stack th = fr :: rest -> NoDup (owned_frames (fr :: rest)) ->
  heap' = heap ++ more ->
  f_pc fr <> PLoad -> f_pc fr' <> PLoad -> f_ph fr' = f_ph fr -> f_ty fr' = f_ty fr ->
  nth_error phs (f_ph fr) = Some c -> ~ stable c -> ph_ty c' = ph_ty c -> (ph_pub c = true -> ph_pub c' = true) ->
  frame_ok (upd phs (f_ph fr) c') heap' fr' ->
  (forall t f, In (t, f) m' -> In (t, f) m \/ typed (upd phs (f_ph fr) c') heap' f t) ->
  (forall k, In k more -> Forall2 (typed (upd phs (f_ph fr) c') heap') (clo_kids k) (kidtypes tt (clo_ty k))) ->
  cell_ok heap' c' ->
  step_out m phs heap th (with_stack th (fr' :: rest)) (mkShared m' (upd phs (f_ph fr) c') heap' evs).
Proof.
  intros Hth E Hnd Hh Hpc Hpc' Hph Hty Hc Hns Hty' Hpub Hfr Hm' Hmore Hc'.
  pose proof Hnd as Hnd0.
  rewrite owned_frames_cons in Hnd0. rewrite (pc_eqb_PLoad_false _ Hpc) in Hnd0.
  eapply step_out_cell_gen; eauto.
  - intros He Hun. eapply replace_top_ok; eauto.
  - intros q. cbn [th_stack with_stack]. rewrite !owned_frames_cons. rewrite (pc_eqb_PLoad_false _ Hpc), (pc_eqb_PLoad_false _ Hpc'). rewrite Hph. auto.
  - cbn [th_stack with_stack]. rewrite owned_frames_cons. rewrite (pc_eqb_PLoad_false _ Hpc'). rewrite Hph. exact Hnd0.
Qed.

(* a failing request hands the panic to the enclosing request *)
Lemma pop_to_parent_ok th fr parent rest' phs' heap' :
  thread_ok phs heap th -> th_stack th = fr :: parent :: rest' ->
  ext phs heap phs' heap' ->
  (forall q, In q (owned_frames (parent :: rest')) -> nth_error phs' q = nth_error phs q) ->
  thread_ok phs' heap' (with_stack th (mkFrame (f_ty parent) (f_ph parent) PDel [] (f_got parent) :: rest')).
Proof.
  intros Hth E He Hun.
  destruct (thread_ok_stack_inv _ _ _ Hth E) as (t & v & t' & v' & w & Ec & Ew & Hs & Hw & Htr & Hd).
  split; simpl; auto. rewrite Ec. split; [|split].
  - right. exists t', v', w. split; auto.
    simpl in Hs. destruct Hs as (_ & Hpc & _ & Hp & Hrest).
    assert (Hown : In (f_ph parent) (owned_frames (parent :: rest'))).
    { rewrite owned_frames_cons. rewrite Hpc. simpl. auto. }
    simpl. split.
    + unfold frame_ok in *. simpl. rewrite Hpc in Hp. destruct Hp as [Hcell _]. rewrite (Hun _ Hown). exact Hcell.
    + destruct rest' as [|gp rest'']; auto. destruct Hrest as (H1 & H2 & H3). split; [exact H1|]. split; [exact H2|].
      eapply stack_ok_ext; eauto. intros fr0 Hin Hpc0. apply Hun. apply owned_tail_incl_aux. apply in_owned_frames; auto.
  - eapply Forall_impl; [|exact Hw]. intros; eapply witem_ok_ext; eauto.
  - rewrite (flat_map_wexp_ext _ _ _ _ _ He Hw). exact Htr.
Qed.

Lemma NoDup_owned_tail fr rest : NoDup (owned_frames (fr :: rest)) -> NoDup (owned_frames rest).
Proof.
  rewrite owned_frames_cons. destruct (pc_eqb (f_pc fr) PLoad); auto. intro H; inversion H; auto.
Qed.

Lemma owned_tail_incl fr rest q : In q (owned_frames rest) -> In q (owned_frames (fr :: rest)).
Proof. rewrite owned_frames_cons. destruct (pc_eqb (f_pc fr) PLoad); simpl; auto. Qed.

Theorem tstep_out th th' sh :
  thread_ok phs heap th -> NoDup (owned_frames (th_stack th)) ->
  tstep tt m phs heap th = Some (th', sh) -> step_out m phs heap th th' sh.
Proof.
  intros Hth Hnd H. unfold tstep in H. destruct (th_stack th) as [|fr rest] eqn:E.
  - (* no cache request in progress *)
    destruct (th_work th) as [|wi w] eqn:Ew.
    + destruct Hth as [Hd Hth]. destruct (th_cur th) as [[t v]|] eqn:Ec.
      * (* the job is finished *)
        inversion H; subst; clear H. apply step_out_same; simpl; [|contradiction|constructor].
        split; simpl; auto. apply Forall_app; split; auto. constructor; [|constructor].
        right. simpl. destruct Hth as (_ & _ & Htr). rewrite Ew in Htr. simpl in Htr. rewrite app_nil_r in Htr.
        exists (th_kinds th). rewrite Htr. reflexivity.
      * (* the next job starts *)
        destruct (th_jobs th) as [|[t v] js]; [discriminate|]. inversion H; subst; clear H.
        apply step_out_same; simpl; [|contradiction|constructor].
        split; simpl; auto. split; [left; reflexivity|]. split; [repeat constructor|]. rewrite app_nil_r. reflexivity.
    + destruct (thread_ok_nostack_inv _ _ _ Hth E Ew) as (t & v & Ec & Hw & Htr & Hd).
      rewrite Ew in Hw, Htr. inversion Hw as [|? ? Hwi Hw']; subst.
      destruct wi as [t0 v0 | f v0 | p v0].
      * (* a cache request starts *)
        inversion H; subst; clear H. apply step_out_same; simpl.
        -- split; simpl; auto. rewrite Ec. split; [|split].
           ++ right. exists t0, v0, w. split; [exact Ew|]. simpl. split; [exact I | reflexivity].
           ++ rewrite Ew. auto.
           ++ rewrite Ew. exact Htr.
        -- unfold owned_frames; simpl. contradiction.
        -- unfold owned_frames; simpl. constructor.
      * destruct f as [g|p|]; [| |destruct Hwi as [t1 []]].
        -- (* a generated function runs *)
           destruct v0 as [subs]. destruct Hwi as [t1 (c & Hg & Ht1)]. rewrite Hg in H. inversion H; subst; clear H.
           apply step_out_same; simpl; [|contradiction|constructor].
           split; simpl; auto. rewrite Ec. split; [left; reflexivity|]. split.
           ++ apply Forall_app; split; auto. eapply expand_ok. eauto.
           ++ rewrite flat_map_app. rewrite (expand_wexp _ _ _ (clo_ty c) subs (Hheap _ _ Hg)).
              simpl in Htr. rewrite Hg in Htr. simpl in Htr. rewrite <- Htr.
              rewrite <- app_assoc. reflexivity.
        -- (* Wait returns *)
           destruct Hwi as [t1 (c & Hp & Ht1 & Hpub)]. rewrite Hp in H.
           destruct (N.eqb_spec (ph_cnt c) 0) as [Hz|Hz]; [|discriminate]. inversion H; subst; clear H.
           apply step_out_same; simpl.
           ++ split; simpl; auto. rewrite Ec. split; [left; exact E|]. split.
              ** constructor; auto. simpl. exists c. split; auto. split; auto. split; auto.
                 destruct (Hcells _ _ Hp) as (_ & Hc2 & _). intro Hv. specialize (Hc2 Hpub Hv). lia.
              ** simpl in *. rewrite Hp in *. exact Htr.
           ++ rewrite E; simpl; contradiction.
           ++ rewrite E; constructor.
      * (* the plain read after Wait *)
        destruct Hwi as (c & Hp & Hpub & Hz & Hv). rewrite Hp in H.
        destruct (ph_var c) as [f|] eqn:Ev; [|congruence].
        destruct (Hcells _ _ Hp) as (_ & _ & Hc3). destruct (Hc3 _ Ev) as [-> | (g & k & -> & Hg & Hk)].
        -- (* the failed generation's error *)
           inversion H; subst; clear H. apply step_out_same.
           ++ apply panic_ok; auto.
           ++ rewrite panic_stack. simpl. contradiction.
           ++ rewrite panic_stack. constructor.
        -- inversion H; subst; clear H. apply step_out_same; simpl.
           ++ split; simpl; auto. rewrite Ec. split; [left; exact E|]. split.
              ** constructor; auto. simpl. exists (ph_ty c), k. auto.
              ** simpl in *. rewrite Hp in Htr. rewrite Hg. simpl. rewrite Hk. exact Htr.
           ++ rewrite E; simpl; contradiction.
           ++ rewrite E; constructor.
  - (* a cache request is in progress *)
    destruct (thread_ok_stack_inv _ _ _ Hth E) as (t & v & t' & v' & w & Ec & Ew & Hs & Hw & Htr & Hd).
    pose proof (stack_ok_frames _ _ _ _ Hs) as Hfrs. inversion Hfrs as [|? ? Hfr Hfrs']; subst.
    assert (Hret : forall f, typed phs heap f (f_ty fr) ->
                   forall q, In q (owned_frames (th_stack (ret th rest f))) -> In q (owned_frames (fr :: rest))).
    { intros f Hf q. rewrite (proj2 (ret_ok _ _ _ _ Hth E Hf)). apply owned_tail_incl. }
    assert (Hretnd : forall f, typed phs heap f (f_ty fr) -> NoDup (owned_frames (th_stack (ret th rest f)))).
    { intros f Hf. rewrite (proj2 (ret_ok _ _ _ _ Hth E Hf)). eapply NoDup_owned_tail; eauto. }
    destruct (f_pc fr) eqn:Epc.
    + (* Load *)
      destruct (lookup m (f_ty fr)) as [f|] eqn:El.
      * inversion H; subst; clear H. pose proof (Hmap _ _ (lookup_In _ _ _ El)) as Hf.
        apply step_out_same; [apply (ret_ok _ _ _ _ Hth E Hf) | rewrite E; apply Hret; exact Hf | apply Hretnd; exact Hf].
      * inversion H; subst; clear H.
        assert (He : ext phs heap (phs ++ [mkPh (f_ty fr) 0 None false]) heap).
        { split; [exists []; rewrite app_nil_r; reflexivity|]. intros q c Hq. left. apply nth_error_app_l; auto. }
        assert (Hfresh : ~ In (length phs) (owned_frames rest)).
        { intro Hin. apply (owned_lt _ _ _ _ Hfrs') in Hin. lia. }
        constructor; simpl; auto.
        -- intros q _ Hq. apply nth_error_app1; auto.
        -- intros t0 f Hin. eapply typed_ext; eauto.
        -- intros g c Hg. eapply Forall2_typed_ext; eauto.
        -- intros p c Hp. destruct (Nat.lt_ge_cases p (length phs)) as [Hl|Hl].
           ++ rewrite nth_error_app1 in Hp by exact Hl. eauto.
           ++ rewrite nth_error_app2 in Hp by exact Hl. destruct (p - length phs)%nat as [|[|k]]; simpl in Hp; try discriminate.
              inversion Hp; subst. repeat split; simpl; auto; discriminate.
        -- eapply replace_top_ok; eauto.
           ++ intros q Hq. apply nth_error_app1. eapply owned_lt; eauto.
           ++ unfold frame_ok; simpl. split; auto. eexists. split; [apply nth_error_snoc|]. simpl. auto.
        -- intros q [<-|Hq]; [right; reflexivity | left; rewrite E; apply owned_tail_incl; exact Hq].
        -- rewrite owned_frames_cons. simpl. constructor; auto. eapply NoDup_owned_tail; eauto.
    + (* Add *)
      unfold frame_ok in Hfr. rewrite Epc in Hfr. destruct Hfr as (Hgot & c & Hc & Hty & Hcnt & Hvar & Hpub).
      rewrite Hc in H. inversion H; subst; clear H.
      apply (step_out_cell th fr (mkFrame (f_ty fr) (f_ph fr) PLoS [] (f_got fr)) rest c (set_cnt c (ph_cnt c + 1)) m heap [] []
               Hth E Hnd (eq_sym (app_nil_r heap))); simpl; auto; try congruence.
      * unfold stable. intros (Hp & _). congruence.
      * unfold frame_ok; simpl. split; auto. eexists. split.
        -- apply nth_error_upd_eq. eapply nth_error_Some_lt; eauto.
        -- simpl. rewrite Hcnt. auto.
      * intros k [].
      * repeat split; simpl; auto; try congruence; try (rewrite Hvar; discriminate).
    + (* LoadOrStore *)
      unfold frame_ok in Hfr. rewrite Epc in Hfr. destruct Hfr as (Hgot & c & Hc & Hty & Hcnt & Hvar & Hpub).
      destruct (lookup m (f_ty fr)) as [f|] eqn:El.
      * inversion H; subst; clear H. pose proof (Hmap _ _ (lookup_In _ _ _ El)) as Hf.
        apply step_out_same; [apply (ret_ok _ _ _ _ Hth E Hf) | rewrite E; apply Hret; exact Hf | apply Hretnd; exact Hf].
      * rewrite Hc in H. inversion H; subst; clear H.
        apply (step_out_cell th fr (mkFrame (f_ty fr) (f_ph fr) PGen (kidtypes tt (f_ty fr)) (f_got fr)) rest c (set_pub c)
                 ((f_ty fr, FPh (f_ph fr)) :: m) heap [] [] Hth E Hnd (eq_sym (app_nil_r heap))); simpl; auto; try congruence.
        -- unfold stable. intros (Hp & _). congruence.
        -- unfold frame_ok; simpl. split.
           ++ eexists. split; [apply nth_error_upd_eq; eapply nth_error_Some_lt; eauto|]. simpl. auto.
           ++ exists []. rewrite Hgot. split; auto.
        -- intros t0 f [Heq|Hin]; auto. inversion Heq; subst. right. simpl. eexists. split.
           ++ apply nth_error_upd_eq. eapply nth_error_Some_lt; eauto.
           ++ simpl. auto.
        -- intros k [].
        -- repeat split; simpl; auto; try congruence; try (rewrite Hvar; discriminate).
    + (* generating *)
      destruct (is_bad tt (f_ty fr)).
      * (* the generator panics: the deferred function starts *)
        inversion H; subst; clear H. apply step_out_same.
        -- eapply replace_top_ok; eauto using ext_refl. unfold frame_ok in *; simpl. rewrite Epc in Hfr.
           destruct Hfr as [Hcell _]. exact Hcell.
        -- intro q. cbn [th_stack with_stack]. rewrite E. rewrite !owned_frames_cons. cbn [f_pc f_ph]. rewrite Epc. cbn [pc_eqb]. auto.
        -- cbn [th_stack with_stack]. rewrite owned_frames_cons in *. cbn [f_pc f_ph]. rewrite Epc in Hnd. cbn [pc_eqb] in *. exact Hnd.
      * destruct (f_todo fr) as [|k todo] eqn:Etodo.
        -- (* all element functions obtained *)
           inversion H; subst; clear H. apply step_out_same.
           ++ eapply replace_top_ok; eauto using ext_refl. unfold frame_ok in *; simpl. rewrite Epc in Hfr.
              destruct Hfr as [Hcell (tys & Hk & Hgot)]. split; auto. rewrite Etodo, app_nil_r in Hk. rewrite Hk. exact Hgot.
           ++ intro q. cbn [th_stack with_stack]. rewrite E. rewrite !owned_frames_cons. cbn [f_pc f_ph]. rewrite Epc. cbn [pc_eqb]. auto.
           ++ cbn [th_stack with_stack]. rewrite owned_frames_cons in *. cbn [f_pc f_ph]. rewrite Epc in Hnd. cbn [pc_eqb] in *. exact Hnd.
        -- (* ask the cache for the next element type *)
           inversion H; subst; clear H. apply step_out_same.
           ++ split; simpl; auto. rewrite Ec. split; [|split; auto].
              right. exists t', v', w. split; auto. simpl. split; [exact I|]. split; [exact Epc|]. split; [eauto|].
              simpl in Hs. exact Hs.
           ++ intro q. cbn [th_stack with_stack]. rewrite E. rewrite (owned_frames_cons (mkFrame k 0 PLoad [] [])). cbn [f_pc pc_eqb]. auto.
           ++ cbn [th_stack with_stack]. rewrite (owned_frames_cons (mkFrame k 0 PLoad [] [])). cbn [f_pc pc_eqb]. exact Hnd.
    + (* the plain write *)
      unfold frame_ok in Hfr. rewrite Epc in Hfr. destruct Hfr as ((c & Hc & Hty & Hcnt & Hvar & Hpub) & Hgot).
      rewrite Hc in H. inversion H; subst; clear H.
      assert (He : ext phs heap (upd phs (f_ph fr) (set_var c (FGen (length heap)))) (heap ++ [mkClo (f_ty fr) (f_got fr)])).
      { split; [eexists; reflexivity|]. intros q c0 Hq. destruct (Nat.eq_dec (f_ph fr) q) as [<-|Hne].
        - right. assert (c0 = c) by congruence. subst c0. split; [intros (_ & _ & Hv); congruence|].
          eexists. split; [apply nth_error_upd_eq; eapply nth_error_Some_lt; eauto|]. simpl. auto.
        - left. rewrite nth_error_upd_neq; auto. }
      apply (step_out_cell th fr (mkFrame (f_ty fr) (f_ph fr) PDone [] (f_got fr)) rest c (set_var c (FGen (length heap))) m
               (heap ++ [mkClo (f_ty fr) (f_got fr)]) [mkClo (f_ty fr) (f_got fr)] [EWrite (f_ph fr)] Hth E Hnd eq_refl); simpl; auto; try congruence.
      * unfold stable. intros (_ & _ & Hv). congruence.
      * unfold frame_ok; simpl. eexists. split; [apply nth_error_upd_eq; eapply nth_error_Some_lt; eauto|]. simpl.
        split; auto. split; auto. split; auto. exists (length heap). split; auto.
        simpl. eexists. split; [apply nth_error_snoc | reflexivity].
      * intros k [<-|[]]. simpl. eapply Forall2_typed_ext; eauto.
      * split; [|split]; simpl; try congruence. intros f Hf. inversion Hf; subst. right.
        exists (length heap), (mkClo (f_ty fr) (f_got fr)). split; auto. split; [apply nth_error_snoc|]. simpl. congruence.
    + (* Done *)
      unfold frame_ok in Hfr. rewrite Epc in Hfr. destruct Hfr as (c & Hc & Hty & Hcnt & (g0 & Hvar & Htyped) & Hpub).
      rewrite Hc in H. inversion H; subst; clear H.
      apply (step_out_cell th fr (mkFrame (f_ty fr) (f_ph fr) PStore [] (f_got fr)) rest c (set_cnt c (N.pred (ph_cnt c))) m heap [] [EDone (f_ph fr)]
               Hth E Hnd (eq_sym (app_nil_r heap))); simpl; auto; try congruence.
      * unfold stable. intros (_ & Hz & _). lia.
      * unfold frame_ok; simpl. eexists. split; [apply nth_error_upd_eq; eapply nth_error_Some_lt; eauto|]. simpl.
        rewrite Hcnt. repeat split; auto. exists g0. split; auto.
      * intros k [].
      * destruct (Hcells _ _ Hc) as (H1 & H2 & H3). split; [|split]; simpl.
        -- intro Hp. congruence.
        -- intros _ Hv. congruence.
        -- exact H3.
    + (* Store *)
      unfold frame_ok in Hfr. rewrite Epc in Hfr. destruct Hfr as (c & Hc & Hty & Hcnt & (g & Hvar & Hf) & Hpub).
      rewrite Hc in H. rewrite Hvar in H. inversion H; subst; clear H.
      apply step_out_map; [exact Hf | apply (ret_ok _ _ _ _ Hth E Hf) | rewrite E; apply Hret; exact Hf | apply Hretnd; exact Hf].
    + (* failure path: Delete *)
      inversion H; subst; clear H. apply step_out_sub.
      * intros t0 f Hin. clear - Hin. induction m as [|[t1 f1] m0 IH]; simpl in *; [contradiction|].
        destruct (t1 =? f_ty fr); [right; auto|]. destruct Hin as [Hin|Hin]; auto.
      * eapply replace_top_ok; eauto using ext_refl. unfold frame_ok in *; simpl. rewrite Epc in Hfr. exact Hfr.
      * intro q. cbn [th_stack with_stack]. rewrite E. rewrite !owned_frames_cons. cbn [f_pc f_ph]. rewrite Epc. cbn [pc_eqb]. auto.
      * cbn [th_stack with_stack]. rewrite owned_frames_cons in *. cbn [f_pc f_ph]. rewrite Epc in Hnd. cbn [pc_eqb] in *. exact Hnd.
    + (* failure path: the plain write of the error function *)
      unfold frame_ok in Hfr. rewrite Epc in Hfr. destruct Hfr as (c & Hc & Hty & Hcnt & Hvar & Hpub).
      rewrite Hc in H. inversion H; subst; clear H.
      apply (step_out_cell th fr (mkFrame (f_ty fr) (f_ph fr) PDErr [] (f_got fr)) rest c (set_var c FErr) m heap [] [EWrite (f_ph fr)]
               Hth E Hnd (eq_sym (app_nil_r heap))); simpl; auto; try congruence.
      * unfold stable. intros (_ & _ & Hv). congruence.
      * unfold frame_ok; simpl. eexists. split; [apply nth_error_upd_eq; eapply nth_error_Some_lt; eauto|]. simpl. auto.
      * intros k [].
      * split; [|split]; simpl; try congruence. intros f Hf0. inversion Hf0; subst. left; reflexivity.
    + (* failure path: Done, the panic goes on *)
      unfold frame_ok in Hfr. rewrite Epc in Hfr. destruct Hfr as (c & Hc & Hty & Hcnt & Hvar & Hpub).
      rewrite Hc in H. inversion H; subst; clear H.
      assert (Hpc : f_pc fr <> PLoad) by congruence.
      eapply (step_out_cell_gen th _ fr rest c (set_cnt c (N.pred (ph_cnt c))) m heap [] [EDone (f_ph fr)]
               Hth E Hnd (eq_sym (app_nil_r heap)) Hpc Hc); simpl; auto.
      * unfold stable. intros (_ & Hz & _). lia.
      * intros k [].
      * destruct (Hcells _ _ Hc) as (H1 & H2 & H3). split; [|split]; simpl.
        -- intro Hp. congruence.
        -- intros _ Hv. congruence.
        -- exact H3.
      * intros He Hun. destruct rest as [|parent rest'].
        -- apply panic_ok. exact Hd.
        -- eapply pop_to_parent_ok; eauto.
      * intros q Hq. destruct rest as [|parent rest'].
        -- rewrite panic_stack in Hq. simpl in Hq. contradiction.
        -- cbn [th_stack with_stack] in Hq. rewrite owned_frames_cons in Hq. cbn [f_pc f_ph pc_eqb] in Hq.
           apply owned_tail_incl. simpl in Hs. destruct Hs as (_ & Hpp & _).
           rewrite owned_frames_cons. rewrite Hpp. cbn [pc_eqb]. exact Hq.
      * destruct rest as [|parent rest'].
        -- rewrite panic_stack. constructor.
        -- cbn [th_stack with_stack]. rewrite owned_frames_cons. cbn [f_pc f_ph pc_eqb].
           apply NoDup_owned_tail in Hnd. simpl in Hs. destruct Hs as (_ & Hpp & _).
           rewrite owned_frames_cons in Hnd. rewrite Hpp in Hnd. cbn [pc_eqb] in Hnd. exact Hnd.
Qed.

End Step.

(* ------------------------------------------------------------------------- *)
(* The invariant holds in every reachable state *)

Lemma thread_ok_frames phs heap th : thread_ok phs heap th -> Forall (frame_ok phs heap) (th_stack th).
Proof.
  intros [_ H]. destruct (th_cur th) as [[t v]|].
  - destruct H as ([E | (t' & v' & w & _ & Hs)] & _).
    + rewrite E; constructor.
    + eapply stack_ok_frames; eauto.
  - destruct H as (E & _). rewrite E; constructor.
Qed.

Lemma owned_app l1 l2 : owned (l1 ++ l2) = owned l1 ++ owned l2.
Proof. unfold owned. apply flat_map_app. Qed.

Lemma owned_lt_all phs heap ths q :
  Forall (thread_ok phs heap) ths -> In q (owned ths) -> (q < length phs)%nat.
Proof.
  intros H Hin. unfold owned in Hin. apply in_flat_map in Hin. destruct Hin as (th & Hth & Hq).
  rewrite Forall_forall in H. eapply owned_lt; [apply thread_ok_frames; apply H; exact Hth | exact Hq].
Qed.

Theorem step_Inv s i s' : Inv s -> step tt s i = Some s' -> Inv s'.
Proof.
  intros [Hm Hh Hc Ht Ho] H. unfold step in H.
  destruct (nth_error (st_threads s) i) as [th|] eqn:Ei; [|discriminate].
  destruct (tstep tt (st_map s) (st_phs s) (st_heap s) th) as [[th' sh]|] eqn:Est; [|discriminate].
  inversion H; subst; clear H.
  destruct (nth_error_split_upd _ _ _ th' Ei) as (l1 & l2 & El & Hlen & Eu).
  rewrite El in Ht, Ho. rewrite Eu.
  apply Forall_app in Ht. destruct Ht as [Ht1 Ht2]. inversion Ht2 as [|? ? Hth Ht2']; subst.
  rewrite owned_app in Ho. simpl in Ho. fold (owned l2) in Ho.
  assert (Hnd : NoDup (owned_frames (th_stack th))).
  { apply NoDup_app_iff in Ho. destruct Ho as (_ & Ho & _). apply NoDup_app_iff in Ho. tauto. }
  pose proof (tstep_out _ _ _ Hm Hh Hc _ _ _ Hth Hnd Est) as [He Hfoot Hm' Hh' Hc' Hth' Hown Hnd'].
  assert (Hother : forall th2, In th2 (l1 ++ l2) -> thread_ok (st_phs s) (st_heap s) th2 ->
                   thread_ok (sh_phs sh) (sh_heap sh) th2).
  { intros th2 Hin Hok. eapply thread_ok_ext; eauto. intros q Hq. apply Hfoot.
    - intro Hq'. apply NoDup_app_iff in Ho. destruct Ho as (Ho1 & Ho2 & Ho3).
      apply NoDup_app_iff in Ho2. destruct Ho2 as (_ & _ & Ho4).
      apply in_app_or in Hin. destruct Hin as [Hin|Hin].
      + apply (Ho3 q).
        * unfold owned. apply in_flat_map. exists th2. auto.
        * apply in_or_app. left. exact Hq'.
      + apply (Ho4 q Hq'). unfold owned. apply in_flat_map. exists th2. auto.
    - eapply owned_lt; [apply thread_ok_frames; exact Hok | exact Hq]. }
  constructor; simpl; auto.
  - apply Forall_app. split.
    + rewrite Forall_forall in *. intros th2 Hin. apply Hother; auto. apply in_or_app; auto.
    + constructor; auto. rewrite Forall_forall in *. intros th2 Hin. apply Hother; auto. apply in_or_app; auto.
  - rewrite owned_app. simpl. fold (owned l2).
    eapply NoDup_replace_mid with (fresh := length (st_phs s)); eauto.
    + intro Hin. apply (owned_lt_all _ _ _ _ Ht1) in Hin. lia.
    + intro Hin. apply (owned_lt_all _ _ _ _ Ht2') in Hin. lia.
Qed.

Lemma init_Inv jobs : Inv (init jobs).
Proof.
  constructor; simpl.
  - contradiction.
  - intros [|g] c H; discriminate.
  - intros [|p] c H; discriminate.
  - apply Forall_forall. intros th Hin. apply in_map_iff in Hin. destruct Hin as (js & <- & _).
    split; simpl; auto.
  - assert (E : owned (map new_thread jobs) = []).
    { unfold owned. induction jobs; simpl; auto. }
    rewrite E. constructor.
Qed.

Theorem run_Inv s sched : Inv s -> Inv (run tt s sched).
Proof.
  revert s. induction sched as [|i r IH]; intros s H; simpl; auto.
  apply IH. destruct (step tt s i) eqn:E; auto. eapply step_Inv; eauto.
Qed.

Theorem reachable_Inv jobs sched : Inv (run tt (init jobs) sched).
Proof. apply run_Inv, init_Inv. Qed.

(* ------------------------------------------------------------------------- *)
(* Results: every finished call that returned normally produced the run-alone trace *)

Theorem results_match jobs sched th jr :
  In th (st_threads (run tt (init jobs) sched)) -> In jr (th_done th) ->
  snd jr = RPanic \/ exists kinds, snd jr = ROk (ref tt (snd (fst jr)) (fst (fst jr))) kinds.
Proof.
  intros Hth Hjr. pose proof (reachable_Inv jobs sched) as [_ _ _ Ht _].
  rewrite Forall_forall in Ht. destruct (Ht _ Hth) as [Hd _]. rewrite Forall_forall in Hd. exact (Hd _ Hjr).
Qed.

(* the jobs of a thread: finished, running, waiting - never changes *)
Definition jobs_of (th : thread) : list job :=
  map fst (th_done th) ++ (match th_cur th with Some j => [j] | None => [] end) ++ th_jobs th.

Lemma jobs_of_panic th : jobs_of (panic th) = jobs_of th.
Proof.
  unfold panic, jobs_of. destruct (th_cur th); simpl; auto. rewrite map_app. simpl. rewrite <- app_assoc. reflexivity.
Qed.

Lemma jobs_of_ret th rest f : jobs_of (ret th rest f) = jobs_of th.
Proof.
  unfold ret. destruct rest; [destruct (th_work th) as [|[]]|]; reflexivity.
Qed.

Lemma tstep_jobs m phs heap th th' sh : tstep tt m phs heap th = Some (th', sh) -> jobs_of th' = jobs_of th.
Proof.
  unfold tstep. intro H.
  repeat match type of H with
         | context [match ?x with _ => _ end] => destruct x eqn:?
         | context [if ?x then _ else _] => destruct x eqn:?
         end;
    try discriminate; inversion H; subst; clear H;
    rewrite ?jobs_of_panic, ?jobs_of_ret; try reflexivity;
    unfold jobs_of; simpl.
  all: try (rewrite map_app; simpl; rewrite <- app_assoc; simpl).
  all: repeat match goal with E : th_cur _ = _ |- _ => rewrite E | E : th_jobs _ = _ |- _ => rewrite E end; try reflexivity.
Qed.

Lemma map_upd {A B} (f : A -> B) l i x : map f (upd l i x) = upd (map f l) i (f x).
Proof. revert i; induction l as [|y l IH]; intros [|i]; simpl; auto. rewrite IH. reflexivity. Qed.

Lemma upd_same {A} (l : list A) i x : nth_error l i = Some x -> upd l i x = l.
Proof. revert i; induction l as [|y l IH]; intros [|i] H; simpl in *; try discriminate; [congruence|]. rewrite IH; auto. Qed.

Lemma step_jobs s i s' : step tt s i = Some s' -> map jobs_of (st_threads s') = map jobs_of (st_threads s).
Proof.
  unfold step. destruct (nth_error (st_threads s) i) as [th|] eqn:E; [|discriminate].
  destruct (tstep tt (st_map s) (st_phs s) (st_heap s) th) as [[th' sh]|] eqn:Et; [|discriminate].
  intro H; inversion H; subst; clear H. simpl. rewrite map_upd. rewrite (tstep_jobs _ _ _ _ _ _ Et).
  apply upd_same. apply map_nth_error. exact E.
Qed.

Theorem run_jobs jobs sched : map jobs_of (st_threads (run tt (init jobs) sched)) = jobs.
Proof.
  assert (G : forall s, map jobs_of (st_threads (run tt s sched)) = map jobs_of (st_threads s)).
  { induction sched as [|i r IH]; intro s; simpl; auto. destruct (step tt s i) eqn:E; auto.
    rewrite IH. eapply step_jobs; eauto. }
  rewrite G. simpl. rewrite map_map. unfold jobs_of; simpl. rewrite map_id. reflexivity.
Qed.

(* ------------------------------------------------------------------------- *)
(* No data race *)

Lemma access_write phs heap th p :
  thread_ok phs heap th -> next_access th = Some (p, true) ->
  In p (owned_frames (th_stack th)) /\ exists c, nth_error phs p = Some c /\ ph_var c = None.
Proof.
  intros Hth H. unfold next_access in H. destruct (th_stack th) as [|fr rest] eqn:E.
  - destruct (th_work th) as [|[] ?]; discriminate.
  - pose proof (thread_ok_frames _ _ _ Hth) as Hf. rewrite E in Hf. inversion Hf as [|? ? Hfr _]; subst.
    unfold frame_ok in Hfr. destruct (f_pc fr) eqn:Epc; try discriminate; inversion H; subst.
    + split.
      * rewrite owned_frames_cons. rewrite Epc. simpl. auto.
      * destruct Hfr as ((c & Hc & _ & _ & Hv & _) & _). eauto.
    + split.
      * rewrite owned_frames_cons. rewrite Epc. simpl. auto.
      * destruct Hfr as (c & Hc & _ & _ & Hv & _). eauto.
Qed.

Lemma access_read phs heap th p :
  thread_ok phs heap th -> next_access th = Some (p, false) ->
  exists c, nth_error phs p = Some c /\ ph_var c <> None.
Proof.
  intros Hth H. unfold next_access in H. destruct (th_stack th) as [|fr rest] eqn:E.
  - destruct (th_work th) as [|wi w] eqn:Ew; [discriminate|]. destruct wi; try discriminate. inversion H; subst.
    destruct (thread_ok_nostack_inv _ _ _ _ _ Hth E Ew) as (t & v0 & _ & Hw & _). rewrite Ew in Hw.
    inversion Hw as [|? ? Hwi _]; subst. destruct Hwi as (c & Hc & _ & _ & Hv). eauto.
  - pose proof (thread_ok_frames _ _ _ Hth) as Hf. rewrite E in Hf. inversion Hf as [|? ? Hfr _]; subst.
    unfold frame_ok in Hfr. destruct (f_pc fr) eqn:Epc; try discriminate. inversion H; subst.
    destruct Hfr as (c & Hc & _ & _ & (g & Hv & _) & _). exists c. split; auto. congruence.
Qed.

Lemma no_race_pair phs heap a b :
  thread_ok phs heap a -> thread_ok phs heap b ->
  (forall q, In q (owned_frames (th_stack a)) -> ~ In q (owned_frames (th_stack b))) ->
  race_pair a b = false.
Proof.
  intros Ha Hb Hdis. unfold race_pair.
  destruct (next_access a) as [[p w1]|] eqn:Ea; auto. destruct (next_access b) as [[q w2]|] eqn:Eb; auto.
  destruct (Nat.eqb_spec p q) as [->|]; auto. simpl.
  destruct w1, w2; simpl; auto.
  - destruct (access_write _ _ _ _ Ha Ea) as (H1 & _). destruct (access_write _ _ _ _ Hb Eb) as (H2 & _).
    exfalso. eapply Hdis; eauto.
  - destruct (access_write _ _ _ _ Ha Ea) as (_ & c & Hc & Hv). destruct (access_read _ _ _ _ Hb Eb) as (c' & Hc' & Hv').
    congruence.
  - destruct (access_read _ _ _ _ Ha Ea) as (c & Hc & Hv). destruct (access_write _ _ _ _ Hb Eb) as (_ & c' & Hc' & Hv').
    congruence.
Qed.

Lemma no_race_in phs heap ths :
  Forall (thread_ok phs heap) ths -> NoDup (owned ths) -> race_in ths = false.
Proof.
  induction ths as [|a r IH]; simpl; auto. intros Hf Hnd. inversion Hf as [|? ? Ha Hr]; subst.
  fold (owned r) in Hnd. apply NoDup_app_iff in Hnd. destruct Hnd as (_ & Hnd & Hdis).
  rewrite IH by auto. rewrite Bool.orb_false_r.
  destruct (existsb (race_pair a) r) eqn:Ex; auto.
  apply existsb_exists in Ex. destruct Ex as (b & Hb & Hrace).
  rewrite Forall_forall in Hr. rewrite (no_race_pair _ _ _ _ Ha (Hr _ Hb)) in Hrace; [discriminate|].
  intros q Hq Hq'. apply (Hdis q Hq). unfold owned. apply in_flat_map. exists b. auto.
Qed.

Theorem no_race jobs sched : race_state (run tt (init jobs) sched) = false.
Proof.
  pose proof (reachable_Inv jobs sched) as [_ _ _ Ht Ho]. unfold race_state. eapply no_race_in; eauto.
Qed.

(* ------------------------------------------------------------------------- *)
(* When every type is supported nobody waits for ever *)

Definition supported : Prop := forall t, is_bad tt t = false.

Lemma ret_owned th rest f : owned_frames (th_stack (ret th rest f)) = owned_frames rest.
Proof.
  unfold ret. destruct rest as [|parent rest'].
  - destruct (th_work th) as [|[] ?]; reflexivity.
  - cbn [th_stack with_stack]. rewrite !owned_frames_cons. reflexivity.
Qed.

(* cells given up by the step are unpublished or finished; new cells are unpublished *)
Lemma tstep_drop m phs heap th th' sh :
  thread_ok phs heap th -> tstep tt m phs heap th = Some (th', sh) ->
  (forall q c', (length phs <= q)%nat -> nth_error (sh_phs sh) q = Some c' -> ph_pub c' = false) /\
  (forall q c', In q (owned_frames (th_stack th)) -> ~ In q (owned_frames (th_stack th')) ->
                nth_error (sh_phs sh) q = Some c' -> ph_pub c' = true -> stable c').
Proof.
  intros Hth H.
  assert (Hsame : forall evs m', sh = mkShared m' phs heap evs ->
            forall q c', (length phs <= q)%nat -> nth_error (sh_phs sh) q = Some c' -> ph_pub c' = false).
  { intros evs m' -> q c' Hq Hn. simpl in Hn. apply nth_error_Some_lt in Hn. lia. }
  assert (Hupd : forall evs m' heap' p c, sh = mkShared m' (upd phs p c) heap' evs ->
            forall q c', (length phs <= q)%nat -> nth_error (sh_phs sh) q = Some c' -> ph_pub c' = false).
  { intros evs m' heap' p c -> q c' Hq Hn. simpl in Hn. apply nth_error_Some_lt in Hn. rewrite upd_length in Hn. lia. }
  unfold tstep in H. destruct (th_stack th) as [|fr rest] eqn:E.
  - split; [|intros q c' []].
    repeat match type of H with
           | context [match ?x with _ => _ end] => destruct x eqn:?
           | context [if ?x then _ else _] => destruct x eqn:?
           end; try discriminate; inversion H; subst; clear H; eapply Hsame; reflexivity.
  - pose proof (thread_ok_frames _ _ _ Hth) as Hf. rewrite E in Hf. inversion Hf as [|? ? Hfr _]; subst.
    assert (Hkeep : forall fr', f_ph fr' = f_ph fr -> f_pc fr' <> PLoad -> f_pc fr <> PLoad ->
              forall q, In q (owned_frames (fr :: rest)) -> ~ In q (owned_frames (th_stack (with_stack th (fr' :: rest)))) -> False).
    { intros fr' Hph Hpc' Hpc q Hq Hnq. apply Hnq. cbn [th_stack with_stack]. rewrite owned_frames_cons in *.
      rewrite (pc_eqb_PLoad_false _ Hpc) in Hq. rewrite (pc_eqb_PLoad_false _ Hpc'). rewrite Hph. exact Hq. }
    unfold frame_ok in Hfr. destruct (f_pc fr) eqn:Epc.
    + (* Load *)
      destruct (lookup m (f_ty fr)) as [f|].
      * inversion H; subst; clear H. split; [eapply Hsame; reflexivity|].
        intros q c' Hq Hnq. exfalso. apply Hnq. rewrite ret_owned. rewrite owned_frames_cons in Hq. rewrite Epc in Hq. exact Hq.
      * inversion H; subst; clear H. split.
        -- intros q c' Hq Hn. simpl in Hn. rewrite nth_error_app2 in Hn by exact Hq.
           destruct (q - length phs)%nat as [|[|k]]; simpl in Hn; try discriminate. inversion Hn; subst. reflexivity.
        -- intros q c' Hq Hnq. exfalso. apply Hnq. cbn [th_stack with_stack]. rewrite owned_frames_cons in *. rewrite Epc in Hq.
           cbn [f_pc pc_eqb]. right. exact Hq.
    + (* Add *)
      destruct Hfr as (_ & c & Hc & _). rewrite Hc in H. inversion H; subst; clear H. split; [eapply Hupd; reflexivity|].
      intros q c' Hq Hnq. exfalso. eapply Hkeep; [| | | exact Hq | exact Hnq]; simpl; congruence.
    + (* LoadOrStore *)
      destruct Hfr as (_ & c & Hc & _ & _ & _ & Hpub). destruct (lookup m (f_ty fr)) as [f|].
      * inversion H; subst; clear H. split; [eapply Hsame; reflexivity|].
        intros q c' Hq Hnq Hn Hp. rewrite ret_owned in Hnq. rewrite owned_frames_cons in Hq. rewrite Epc in Hq.
        destruct Hq as [<-|Hq]; [|contradiction]. simpl in Hn. congruence.
      * rewrite Hc in H. inversion H; subst; clear H. split; [eapply Hupd; reflexivity|].
        intros q c' Hq Hnq. exfalso. eapply Hkeep; [| | | exact Hq | exact Hnq]; simpl; congruence.
    + (* generating *)
      destruct (is_bad tt (f_ty fr)); [|destruct (f_todo fr) as [|k todo]].
      * inversion H; subst; clear H. split; [eapply Hsame; reflexivity|].
        intros q c' Hq Hnq. exfalso. eapply Hkeep; [| | | exact Hq | exact Hnq]; simpl; congruence.
      * inversion H; subst; clear H. split; [eapply Hsame; reflexivity|].
        intros q c' Hq Hnq. exfalso. eapply Hkeep; [| | | exact Hq | exact Hnq]; simpl; congruence.
      * inversion H; subst; clear H. split; [eapply Hsame; reflexivity|].
        intros q c' Hq Hnq. exfalso. apply Hnq. cbn [th_stack with_stack].
        rewrite (owned_frames_cons (mkFrame k 0 PLoad [] [])). exact Hq.
    + (* the plain write *)
      destruct Hfr as ((c & Hc & _) & _). rewrite Hc in H. inversion H; subst; clear H. split; [eapply Hupd; reflexivity|].
      intros q c' Hq Hnq. exfalso. eapply Hkeep; [| | | exact Hq | exact Hnq]; simpl; congruence.
    + (* Done *)
      destruct Hfr as (c & Hc & _). rewrite Hc in H. inversion H; subst; clear H. split; [eapply Hupd; reflexivity|].
      intros q c' Hq Hnq. exfalso. eapply Hkeep; [| | | exact Hq | exact Hnq]; simpl; congruence.
    + (* Store *)
      destruct Hfr as (c & Hc & _ & Hcnt & (g & Hvar & _) & Hpub). rewrite Hc in H. rewrite Hvar in H.
      inversion H; subst; clear H. split; [eapply Hsame; reflexivity|].
      intros q c' Hq Hnq Hn Hp. rewrite ret_owned in Hnq. rewrite owned_frames_cons in Hq. rewrite Epc in Hq.
      destruct Hq as [<-|Hq]; [|contradiction]. simpl in Hn. assert (c' = c) by congruence. subst c'.
      repeat split; auto. congruence.
    + (* Delete *)
      inversion H; subst; clear H. split; [eapply Hsame; reflexivity|].
      intros q c' Hq Hnq. exfalso. eapply Hkeep; [| | | exact Hq | exact Hnq]; simpl; congruence.
    + (* the write of the error function *)
      destruct Hfr as (c & Hc & _). rewrite Hc in H. inversion H; subst; clear H. split; [eapply Hupd; reflexivity|].
      intros q c' Hq Hnq. exfalso. eapply Hkeep; [| | | exact Hq | exact Hnq]; simpl; congruence.
    + (* Done on the failure path: the cell is given up, finished *)
      destruct Hfr as (c & Hc & _ & Hcnt & Hvar & Hpub). rewrite Hc in H. inversion H; subst; clear H.
      split; [eapply Hupd; reflexivity|].
      intros q c' Hq Hnq Hn Hp. simpl in Hn. rewrite owned_frames_cons in Hq. rewrite Epc in Hq. cbn [pc_eqb] in Hq.
      destruct Hq as [<-|Hq].
      * rewrite nth_error_upd_eq in Hn by (eapply nth_error_Some_lt; eauto). inversion Hn; subst.
        repeat split; simpl; auto; [lia | congruence].
      * exfalso. apply Hnq. destruct rest as [|parent rest'].
        -- simpl in Hq. contradiction.
        -- cbn [th_stack with_stack]. rewrite owned_frames_cons. cbn [f_pc f_ph pc_eqb].
           rewrite owned_frames_cons in Hq. destruct (pc_eqb (f_pc parent) PLoad) eqn:Ep; [right; exact Hq | exact Hq].
Qed.

Definition SupInv (s : state) : Prop :=
  forall p c, nth_error (st_phs s) p = Some c -> ph_pub c = true -> stable c \/ In p (owned (st_threads s)).

Theorem step_SupInv s i s' : Inv s -> SupInv s -> step tt s i = Some s' -> SupInv s'.
Proof.
  intros [Hm Hh Hc Ht Ho] HS H. unfold step in H.
  destruct (nth_error (st_threads s) i) as [th|] eqn:Ei; [|discriminate].
  destruct (tstep tt (st_map s) (st_phs s) (st_heap s) th) as [[th' sh]|] eqn:Est; [|discriminate].
  inversion H; subst; clear H.
  destruct (nth_error_split_upd _ _ _ th' Ei) as (l1 & l2 & El & Hlen & Eu).
  unfold SupInv in *. simpl. rewrite Eu. rewrite El in Ht, Ho, HS.
  apply Forall_app in Ht. destruct Ht as [Ht1 Ht2]. inversion Ht2 as [|? ? Hth Ht2']; subst.
  rewrite owned_app in Ho, HS. simpl in Ho, HS. fold (owned l2) in Ho, HS.
  assert (Hnd : NoDup (owned_frames (th_stack th))).
  { apply NoDup_app_iff in Ho. destruct Ho as (_ & Ho & _). apply NoDup_app_iff in Ho. tauto. }
  pose proof (tstep_out _ _ _ Hm Hh Hc _ _ _ Hth Hnd Est) as [He Hfoot _ _ _ _ _ _].
  destruct (tstep_drop _ _ _ _ _ _ Hth Est) as [Hnew Hdrop].
  intros q c' Hq Hpub. rewrite owned_app. simpl. fold (owned l2).
  destruct (in_dec Nat.eq_dec q (owned_frames (th_stack th'))) as [Hin|Hnin].
  { right. apply in_or_app. right. apply in_or_app. left. exact Hin. }
  destruct (Nat.lt_ge_cases q (length (st_phs s))) as [Hl|Hl].
  2:{ rewrite (Hnew _ _ Hl Hq) in Hpub. discriminate. }
  destruct (in_dec Nat.eq_dec q (owned_frames (th_stack th))) as [Hin'|Hnin'].
  { left. eapply Hdrop; eauto. }
  rewrite (Hfoot _ Hnin' Hl) in Hq. destruct (HS _ _ Hq Hpub) as [Hst|Hin]; auto.
  right. apply in_app_or in Hin. destruct Hin as [Hin|Hin]; [apply in_or_app; left; exact Hin|].
  apply in_app_or in Hin. destruct Hin as [Hin|Hin]; [contradiction|].
  apply in_or_app. right. apply in_or_app. right. exact Hin.
Qed.

Lemma init_SupInv jobs : SupInv (init jobs).
Proof. intros [|p] c H; discriminate. Qed.

Theorem reachable_SupInv jobs sched : SupInv (run tt (init jobs) sched).
Proof.
  assert (G : forall s, Inv s -> SupInv s -> SupInv (run tt s sched)).
  { induction sched as [|i r IH]; intros s HI HS; simpl; auto.
    destruct (step tt s i) eqn:E; auto. apply IH; [eapply step_Inv | eapply step_SupInv]; eauto. }
  apply G; [apply init_Inv | apply init_SupInv].
Qed.

(* a thread that cannot move is finished, or waits for a cell whose counter is not zero *)
Lemma tstep_none m phs heap th :
  thread_ok phs heap th -> tstep tt m phs heap th = None ->
  th_stack th = [] /\
  (th_finished th = true \/
   exists p v w c, th_work th = WCall (FPh p) v :: w /\ nth_error phs p = Some c /\ ph_pub c = true /\ ph_cnt c <> 0).
Proof.
  intros Hth H. unfold tstep in H. destruct (th_stack th) as [|fr rest] eqn:E.
  - split; auto. destruct (th_work th) as [|wi w] eqn:Ew.
    + left. unfold th_finished. destruct (th_cur th); [discriminate|]. destruct (th_jobs th) as [|[]]; [reflexivity|discriminate].
    + destruct (thread_ok_nostack_inv _ _ _ _ _ Hth E Ew) as (t & v & _ & Hw & _). rewrite Ew in Hw.
      inversion Hw as [|? ? Hwi _]; subst. destruct wi as [|f v0|p v0]; [discriminate| |].
      * destruct f as [g|p|]; [| |discriminate].
        -- destruct v0. destruct (nth_error heap g); discriminate.
        -- destruct Hwi as (t1 & c & Hc & _ & Hp). rewrite Hc in H. right. exists p, v0, w, c.
           destruct (N.eqb_spec (ph_cnt c) 0); [discriminate|]. auto.
      * destruct Hwi as (c & Hc & _). rewrite Hc in H. destruct (ph_var c) as [[]|]; discriminate.
  - exfalso. pose proof (thread_ok_frames _ _ _ Hth) as Hf. rewrite E in Hf. inversion Hf as [|? ? Hfr _]; subst.
    unfold frame_ok in Hfr. destruct (f_pc fr).
    + destruct (lookup m (f_ty fr)); discriminate.
    + destruct Hfr as (_ & c & Hc & _). rewrite Hc in H. discriminate.
    + destruct Hfr as (_ & c & Hc & _). rewrite Hc in H. destruct (lookup m (f_ty fr)); discriminate.
    + destruct (is_bad tt (f_ty fr)); [discriminate|]. destruct (f_todo fr); discriminate.
    + destruct Hfr as ((c & Hc & _) & _). rewrite Hc in H. discriminate.
    + destruct Hfr as (c & Hc & _). rewrite Hc in H. discriminate.
    + destruct Hfr as (c & Hc & _). rewrite Hc in H. destruct (ph_var c); discriminate.
    + discriminate.
    + destruct Hfr as (c & Hc & _). rewrite Hc in H. discriminate.
    + destruct Hfr as (c & Hc & _). rewrite Hc in H. discriminate.
Qed.

Lemma stuck_none s i : stuck tt s = true -> (i < length (st_threads s))%nat -> step tt s i = None.
Proof.
  unfold stuck. rewrite forallb_forall. intros H Hi. specialize (H i). rewrite in_seq in H.
  destruct (step tt s i); auto. discriminate H. lia.
Qed.

Lemma step_none_tstep s i th :
  nth_error (st_threads s) i = Some th -> step tt s i = None ->
  tstep tt (st_map s) (st_phs s) (st_heap s) th = None.
Proof.
  unfold step. intros ->. destruct (tstep tt (st_map s) (st_phs s) (st_heap s) th) as [[? ?]|]; [discriminate|auto].
Qed.

Theorem stuck_finished s : Inv s -> SupInv s -> stuck tt s = true -> all_finished s = true.
Proof.
  intros [_ _ _ Ht _] HS Hstuck. unfold all_finished. rewrite forallb_forall. intros th Hin.
  rewrite Forall_forall in Ht.
  destruct (In_nth_error _ _ Hin) as [i Hi].
  pose proof (stuck_none _ i Hstuck (nth_error_Some_lt _ _ _ Hi)) as Hn.
  destruct (tstep_none _ _ _ _ (Ht _ Hin) (step_none_tstep _ _ _ Hi Hn)) as [_ [Hfin | (p & v & w & c & Ew & Hc & Hpub & Hcnt)]]; auto.
  exfalso. destruct (HS _ _ Hc Hpub) as [(_ & Hz & _) | Hown]; [contradiction|].
  unfold owned in Hown. apply in_flat_map in Hown. destruct Hown as (th2 & Hin2 & Hq).
  destruct (In_nth_error _ _ Hin2) as [j Hj].
  pose proof (stuck_none _ j Hstuck (nth_error_Some_lt _ _ _ Hj)) as Hn2.
  destruct (tstep_none _ _ _ _ (Ht _ Hin2) (step_none_tstep _ _ _ Hj Hn2)) as [E _].
  rewrite E in Hq. exact Hq.
Qed.

(* under a complete schedule the results are exactly the run-alone results *)
Theorem finished_results s th :
  Inv s -> all_finished s = true -> In th (st_threads s) ->
  map fst (th_done th) = jobs_of th.
Proof.
  intros _ Hall Hin. unfold all_finished in Hall. rewrite forallb_forall in Hall. specialize (Hall _ Hin).
  unfold th_finished in Hall. unfold jobs_of. destruct (th_jobs th); [|discriminate]. destruct (th_cur th); [discriminate|].
  simpl. rewrite app_nil_r. reflexivity.
Qed.

(* ------------------------------------------------------------------------- *)
(* Happens-before: every read of a plain variable by a Wait-er comes after
   Write -> Done (same thread) -> Wait -> Read (same thread) in the log *)

Definition hb_chain (p : nat) (l : list (nat * ev)) : Prop :=
  exists o l1 l2, l = l1 ++ (o, EDone p) :: l2 /\ In (o, EWrite p) l2.
Definition waited (i p : nat) (l : list (nat * ev)) : Prop :=
  exists l1 l2, l = l1 ++ (i, EWait p) :: l2 /\ hb_chain p l2.

Fixpoint log_ok (l : list (nat * ev)) : Prop :=
  match l with
  | [] => True
  | (i, ERead p) :: r => waited i p r /\ log_ok r
  | _ :: r => log_ok r
  end.

Lemma hb_chain_more p e l : hb_chain p l -> hb_chain p (e ++ l).
Proof. intros (o & l1 & l2 & -> & H). exists o, (e ++ l1), l2. rewrite app_assoc. auto. Qed.

Lemma waited_more i p e l : waited i p l -> waited i p (e ++ l).
Proof. intros (l1 & l2 & -> & H). exists (e ++ l1), l2. rewrite app_assoc. auto. Qed.

Ltac tstep_cases H :=
  unfold tstep in H;
  repeat match type of H with
         | context [match ?x with _ => _ end] => destruct x eqn:?
         | context [if ?x then _ else _] => destruct x eqn:?
         end;
  try discriminate; inversion H; subst; clear H.

(* reads are logged only by a thread whose next action is that read *)
Lemma tstep_log_read m phs heap th th' sh p :
  tstep tt m phs heap th = Some (th', sh) -> In (ERead p) (sh_ev sh) ->
  th_stack th = [] /\ exists v w, th_work th = WRead p v :: w.
Proof.
  intros H Hin. tstep_cases H; simpl in Hin; try contradiction;
    try (destruct Hin as [Hx|[]]; try discriminate; inversion Hx; subst; eauto).
Qed.

Lemma in_expand_read kids subs p v : In (WRead p v) (expand kids subs) -> False.
Proof.
  unfold expand. intro H. apply in_flat_map in H. destruct H as ([sl v0] & _ & H). simpl in H.
  destruct sl as [i|t]; [destruct (nth_error kids i)|]; simpl in H; try contradiction;
    destruct H as [H|[]]; discriminate.
Qed.

Lemma in_ret_read th rest f p v : In (WRead p v) (th_work (ret th rest f)) -> In (WRead p v) (th_work th).
Proof.
  unfold ret. destruct rest; [|auto]. destruct (th_work th) as [|[t0 v0|f0 v0|p0 v0] w] eqn:Ew; simpl; rewrite ?Ew; auto.
  intros [H|H]; [discriminate|right; auto].
Qed.

Lemma in_panic_read th p v : In (WRead p v) (th_work (panic th)) -> False.
Proof. unfold panic. destruct (th_cur th); simpl; auto. Qed.

(* a pending read is either an old one or the result of a Wait that has just returned *)
Lemma tstep_log_wait m phs heap th th' sh p v :
  (forall q c, nth_error phs q = Some c -> cell_ok heap c) ->
  thread_ok phs heap th -> tstep tt m phs heap th = Some (th', sh) ->
  In (WRead p v) (th_work th') ->
  In (WRead p v) (th_work th) \/ (sh_ev sh = [EWait p] /\ exists c, nth_error phs p = Some c /\ stable c).
Proof.
  intros Hcells Hth H Hin. unfold tstep in H. destruct (th_stack th) as [|fr rest] eqn:E.
  - destruct (th_work th) as [|wi w] eqn:Ew.
    + destruct (th_cur th) as [j|]; [|destruct (th_jobs th) as [|[] ?]; [discriminate|]]; inversion H; subst; clear H; simpl in Hin.
      * contradiction.
      * destruct Hin as [Hx|[]]; discriminate.
    + destruct (thread_ok_nostack_inv _ _ _ _ _ Hth E Ew) as (t & v1 & _ & Hw & _). rewrite Ew in Hw.
      inversion Hw as [|? ? Hwi _]; subst. destruct wi as [t0 v0|f v0|p0 v0].
      * inversion H; subst; clear H. simpl in Hin. rewrite Ew in Hin. auto.
      * destruct f as [g|p0|]; [| |inversion H; subst; clear H; destruct (in_panic_read _ _ _ Hin)].
        -- destruct v0 as [subs]. destruct (nth_error heap g); inversion H; subst; clear H; simpl in Hin.
           ++ apply in_app_or in Hin. destruct Hin as [Hin|Hin]; [destruct (in_expand_read _ _ _ _ Hin)|]. left; right; exact Hin.
           ++ destruct (in_panic_read _ _ _ Hin).
        -- destruct Hwi as (t1 & c & Hc & Ht1 & Hpub). rewrite Hc in H.
           destruct (N.eqb_spec (ph_cnt c) 0) as [Hz|]; [|discriminate]. inversion H; subst; clear H. simpl in Hin.
           destruct Hin as [Hx|Hin]; [|left; right; exact Hin]. inversion Hx; subst. right. split; auto.
           exists c. split; auto. split; auto. split; auto.
           destruct (Hcells _ _ Hc) as (_ & Hc2 & _). intro Hv. specialize (Hc2 Hpub Hv). lia.
      * destruct (nth_error phs p0) as [c|]; [|discriminate]. destruct (ph_var c) as [[]|]; inversion H; subst; clear H; simpl in Hin;
          try (destruct (in_panic_read _ _ _ Hin)); destruct Hin as [Hx|Hin]; try discriminate; left; right; exact Hin.
  - assert (G : th_work th' = th_work th \/ (exists f, th' = ret th rest f) \/ (exists th2, th' = panic th2)).
    { tstep_cases H; eauto. }
    destruct G as [G|[(f & ->)| (th2 & ->)]].
    + rewrite G in Hin. auto.
    + left. eapply in_ret_read; eauto.
    + destruct (in_panic_read _ _ _ Hin).
Qed.

(* a frame about to call Done has just made the plain write *)
Lemma tstep_log_write m phs heap th th' sh fr' rest' :
  thread_ok phs heap th -> tstep tt m phs heap th = Some (th', sh) ->
  th_stack th' = fr' :: rest' -> f_pc fr' = PDone \/ f_pc fr' = PDErr -> sh_ev sh = [EWrite (f_ph fr')].
Proof.
  intros Hth H E1 E2.
  assert (Hret : forall rest f, th_stack th = hd (mkFrame 0 0 PLoad [] []) (th_stack th) :: rest ->
                 th_stack (ret th rest f) = fr' :: rest' -> False).
  { intros rest f Es Er. unfold ret in Er. destruct rest as [|parent rest0].
    - destruct (th_work th) as [|[] ?]; discriminate.
    - simpl in Er. inversion Er; subst. simpl in E2.
      destruct (thread_ok_stack_inv _ _ _ _ _ Hth Es) as (t0 & v0 & t1 & v1 & w1 & _ & _ & Hs & _).
      simpl in Hs. destruct Hs as (_ & Hpc & _). destruct E2; congruence. }
  unfold tstep in H. destruct (th_stack th) as [|fr rest] eqn:E.
  - tstep_cases H; simpl in E1; try discriminate; try congruence; try (rewrite panic_stack in E1; discriminate).
    inversion E1; subst. destruct E2; discriminate.
  - simpl in Hret.
    destruct (f_pc fr) eqn:Epc; tstep_cases H; simpl in E1;
      try (exfalso; eapply Hret; eauto; fail);
      try (rewrite panic_stack in E1; discriminate);
      inversion E1; subst; simpl in E2; try (destruct E2; discriminate); try (destruct E2; congruence); reflexivity.
Qed.

(* a cell becomes finished only by the Done of the frame that owns it *)
Lemma tstep_log_stable m phs heap th th' sh q c' :
  thread_ok phs heap th -> tstep tt m phs heap th = Some (th', sh) ->
  nth_error (sh_phs sh) q = Some c' -> stable c' ->
  (exists c, nth_error phs q = Some c /\ stable c) \/
  (sh_ev sh = [EDone q] /\ exists fr rest, th_stack th = fr :: rest /\ (f_pc fr = PDone \/ f_pc fr = PDErr) /\ f_ph fr = q).
Proof.
  intros Hth H Hq Hs.
  assert (Hupd : forall p c1, ~ stable c1 -> nth_error (upd phs p c1) q = Some c' ->
                 exists c, nth_error phs q = Some c /\ stable c).
  { intros p c1 Hns Hq'. destruct (Nat.eq_dec p q) as [<-|Hne].
    - destruct (Nat.lt_ge_cases p (length phs)) as [Hl|Hl].
      + rewrite nth_error_upd_eq in Hq' by exact Hl. inversion Hq'; subst. contradiction.
      + apply nth_error_Some_lt in Hq'. rewrite upd_length in Hq'. lia.
    - rewrite nth_error_upd_neq in Hq' by auto. eauto. }
  unfold tstep in H. destruct (th_stack th) as [|fr rest] eqn:E.
  - left. tstep_cases H; simpl in Hq; eauto.
  - pose proof (thread_ok_frames _ _ _ Hth) as Hf. rewrite E in Hf. inversion Hf as [|? ? Hfr _]; subst.
    unfold frame_ok in Hfr. destruct (f_pc fr) eqn:Epc.
    + destruct (lookup m (f_ty fr)); inversion H; subst; clear H; simpl in Hq; [left; eauto|].
      left. destruct (Nat.lt_ge_cases q (length phs)) as [Hl|Hl].
      * rewrite nth_error_app1 in Hq by exact Hl. eauto.
      * rewrite nth_error_app2 in Hq by exact Hl. destruct (q - length phs)%nat as [|[|k]]; simpl in Hq; try discriminate.
        inversion Hq; subst. destruct Hs as (Hp & _). discriminate.
    + destruct Hfr as (_ & c & Hc & _ & _ & _ & Hpub). rewrite Hc in H. inversion H; subst; clear H. simpl in Hq.
      left. eapply Hupd; eauto. intros (Hp & _). simpl in Hp. congruence.
    + destruct Hfr as (_ & c & Hc & _ & _ & Hvar & _). destruct (lookup m (f_ty fr)); [inversion H; subst; clear H; left; eauto|].
      rewrite Hc in H. inversion H; subst; clear H. simpl in Hq.
      left. eapply Hupd; eauto. intros (_ & _ & Hv). simpl in Hv. congruence.
    + left. tstep_cases H; simpl in Hq; eauto.
    + destruct Hfr as ((c & Hc & _ & Hcnt & _) & _). rewrite Hc in H. inversion H; subst; clear H. simpl in Hq.
      left. eapply Hupd; eauto. intros (_ & Hz & _). simpl in Hz. lia.
    + destruct Hfr as (c & Hc & _). rewrite Hc in H. inversion H; subst; clear H. simpl in Hq.
      destruct (Nat.eq_dec (f_ph fr) q) as [<-|Hne].
      * right. split; auto. exists fr, rest. auto.
      * left. rewrite nth_error_upd_neq in Hq by auto. eauto.
    + left. tstep_cases H; simpl in Hq; eauto.
    + left. inversion H; subst; clear H. simpl in Hq. eauto.
    + destruct Hfr as (c & Hc & _ & Hcnt & _). rewrite Hc in H. inversion H; subst; clear H. simpl in Hq.
      left. eapply Hupd; eauto. intros (_ & Hz & _). simpl in Hz. lia.
    + destruct Hfr as (c & Hc & _). rewrite Hc in H. inversion H; subst; clear H. simpl in Hq.
      destruct (Nat.eq_dec (f_ph fr) q) as [<-|Hne].
      * right. split; auto. exists fr, rest. auto.
      * left. rewrite nth_error_upd_neq in Hq by auto. eauto.
Qed.

Record LogInv (s : state) : Prop := mkLogInv {
  li_ok : log_ok (st_log s);
  li_done : forall i th fr rest, nth_error (st_threads s) i = Some th -> th_stack th = fr :: rest -> f_pc fr = PDone \/ f_pc fr = PDErr ->
            In (i, EWrite (f_ph fr)) (st_log s);
  li_stable : forall p c, nth_error (st_phs s) p = Some c -> stable c -> hb_chain p (st_log s);
  li_wait : forall i th p v, nth_error (st_threads s) i = Some th -> In (WRead p v) (th_work th) -> waited i p (st_log s)
}.

Lemma log_ok_app i evs log :
  (forall p, In (ERead p) evs -> waited i p log) -> log_ok log -> log_ok (map (fun e => (i, e)) evs ++ log).
Proof.
  intros Hw Hl. induction evs as [|e evs IH]; simpl; auto.
  assert (IH' : log_ok (map (fun e => (i, e)) evs ++ log)) by (apply IH; intros p Hp; apply Hw; right; exact Hp).
  destruct e; auto. split; auto. apply waited_more. apply Hw. left; reflexivity.
Qed.

Theorem step_LogInv s i s' : Inv s -> LogInv s -> step tt s i = Some s' -> LogInv s'.
Proof.
  intros [Hm Hh Hc Ht Ho] [L1 L2 L3 L4] H. unfold step in H.
  destruct (nth_error (st_threads s) i) as [th|] eqn:Ei; [|discriminate].
  destruct (tstep tt (st_map s) (st_phs s) (st_heap s) th) as [[th' sh]|] eqn:Est; [|discriminate].
  inversion H; subst; clear H.
  assert (Hth : thread_ok (st_phs s) (st_heap s) th).
  { rewrite Forall_forall in Ht. apply Ht. eapply nth_error_In; eauto. }
  assert (Hi : (i < length (st_threads s))%nat) by (eapply nth_error_Some_lt; eauto).
  constructor; simpl.
  - apply log_ok_app; auto. intros p Hp.
    destruct (tstep_log_read _ _ _ _ _ _ _ Est Hp) as (_ & v & w & Ew).
    eapply L4; eauto. rewrite Ew. left; reflexivity.
  - intros j th2 fr rest Hj Es Epc. destruct (Nat.eq_dec i j) as [<-|Hne].
    + rewrite nth_error_upd_eq in Hj by exact Hi. inversion Hj; subst.
      rewrite (tstep_log_write _ _ _ _ _ _ _ _ Hth Est Es Epc). simpl. left; reflexivity.
    + rewrite nth_error_upd_neq in Hj by exact Hne. apply in_or_app. right. eapply L2; eauto.
  - intros p c Hp Hs. destruct (tstep_log_stable _ _ _ _ _ _ _ _ Hth Est Hp Hs) as [(c0 & Hc0 & Hs0) | (Eev & fr & rest & Es & Epc & Eph)].
    + apply hb_chain_more. eapply L3; eauto.
    + rewrite Eev. simpl. exists i, [], (st_log s). split; auto. subst p. eapply L2; eauto.
  - intros j th2 p v Hj Hin. destruct (Nat.eq_dec i j) as [<-|Hne].
    + rewrite nth_error_upd_eq in Hj by exact Hi. inversion Hj; subst.
      destruct (tstep_log_wait _ _ _ _ _ _ _ _ Hc Hth Est Hin) as [Hold | (Eev & c & Hcc & Hs)].
      * apply waited_more. eapply L4; eauto.
      * rewrite Eev. simpl. exists [], (st_log s). split; auto. eapply L3; eauto.
    + rewrite nth_error_upd_neq in Hj by exact Hne. apply waited_more. eapply L4; eauto.
Qed.

Lemma init_LogInv jobs : LogInv (init jobs).
Proof.
  constructor; simpl; auto.
  - intros i th fr rest Hi Es. apply nth_error_In in Hi. apply in_map_iff in Hi. destruct Hi as (js & <- & _). discriminate.
  - intros [|p] c H; discriminate.
  - intros i th p v Hi Hin. apply nth_error_In in Hi. apply in_map_iff in Hi. destruct Hi as (js & <- & _). contradiction.
Qed.

Theorem reachable_LogInv jobs sched : LogInv (run tt (init jobs) sched).
Proof.
  assert (G : forall s, Inv s -> LogInv s -> LogInv (run tt s sched)).
  { induction sched as [|i r IH]; intros s HI HL; simpl; auto.
    destruct (step tt s i) eqn:E; auto. apply IH; [eapply step_Inv | eapply step_LogInv]; eauto. }
  apply G; [apply init_Inv | apply init_LogInv].
Qed.

Lemma log_ok_split l1 i p l2 : log_ok (l1 ++ (i, ERead p) :: l2) -> waited i p l2.
Proof.
  induction l1 as [|[j e] l1 IH]; simpl.
  - tauto.
  - destruct e; auto. intros [_ H]; auto.
Qed.

(* every read of a plain variable through a placeholder is preceded (in the
   order in which the steps happened) by the reader's own Wait on that cell,
   which is preceded by a Done on that cell, which is preceded by the write of
   the variable by the thread that called Done *)
Theorem reads_happen_after_write jobs sched l1 i p l2 :
  st_log (run tt (init jobs) sched) = l1 ++ (i, ERead p) :: l2 ->
  exists la lb o lc ld,
    l2 = la ++ (i, EWait p) :: lb /\ lb = lc ++ (o, EDone p) :: ld /\ In (o, EWrite p) ld.
Proof.
  intro E. pose proof (reachable_LogInv jobs sched) as [L _ _ _]. rewrite E in L.
  apply log_ok_split in L. destruct L as (la & lb & -> & o & lc & ld & -> & Hin).
  exists la, (lc ++ (o, EDone p) :: ld), o, lc, ld. auto.
Qed.

(* ------------------------------------------------------------------------- *)
(* With every type supported no call ends in a panic *)

Definition clean_pc (c : pc) : Prop := match c with PDel | PWErr | PDErr => False | _ => True end.
Definition cells_noerr (phs : list ph) : Prop := forall q c, nth_error phs q = Some c -> ph_var c <> Some FErr.
Definition frames_clean (th : thread) : Prop := forall fr, In fr (th_stack th) -> clean_pc (f_pc fr).

Lemma ret_frames_clean th rest f fr0 :
  (forall fr, In fr rest -> clean_pc (f_pc fr)) -> In fr0 (th_stack (ret th rest f)) -> clean_pc (f_pc fr0).
Proof.
  intros Hc. unfold ret. destruct rest as [|parent rest'].
  - destruct (th_work th) as [|[] ?]; simpl; contradiction.
  - simpl. intros [<-|Hin]; simpl; [apply Hc; left; reflexivity | apply Hc; right; exact Hin].
Qed.

Lemma panic_unreachable m phs heap th th' sh :
  supported -> thread_ok phs heap th -> cells_noerr phs -> frames_clean th ->
  tstep tt m phs heap th = Some (th', sh) ->
  (forall jr, In jr (th_done th') -> In jr (th_done th) \/ snd jr <> RPanic) /\
  cells_noerr (sh_phs sh) /\ frames_clean th'.
Proof.
  intros Hsup Hth Hne Hcl H.
  assert (Hupd : forall p c1, ph_var c1 <> Some FErr -> cells_noerr (upd phs p c1)).
  { intros p c1 Hv q c Hq. destruct (Nat.eq_dec p q) as [<-|Hn].
    - destruct (Nat.lt_ge_cases p (length phs)) as [Hl|Hl].
      + rewrite nth_error_upd_eq in Hq by exact Hl. inversion Hq; subst. exact Hv.
      + apply nth_error_Some_lt in Hq. rewrite upd_length in Hq. lia.
    - rewrite nth_error_upd_neq in Hq by auto. eapply Hne; eauto. }
  assert (Hnil : forall th2, th_stack th2 = [] -> frames_clean th2).
  { intros th2 E fr Hin. rewrite E in Hin. contradiction. }
  unfold tstep in H. destruct (th_stack th) as [|fr rest] eqn:E.
  - destruct (th_work th) as [|wi w] eqn:Ew.
    + destruct (th_cur th) as [j|]; [|destruct (th_jobs th) as [|[] ?]; [discriminate|]]; inversion H; subst; clear H; simpl.
      * split; [|split; auto]. intros jr Hin. apply in_app_or in Hin. destruct Hin as [Hin|[<-|[]]]; auto. right; simpl; discriminate.
      * split; auto.
    + destruct (thread_ok_nostack_inv _ _ _ _ _ Hth E Ew) as (t & v & _ & Hw & _). rewrite Ew in Hw.
      inversion Hw as [|? ? Hwi _]; subst. destruct wi as [t0 v0|f v0|p v0].
      * inversion H; subst; clear H. simpl. split; auto. split; auto. intros fr [<-|[]]. simpl. exact I.
      * destruct f as [g|p|]; [| |destruct Hwi as [t1 []]].
        -- destruct v0 as [subs]. destruct Hwi as (t1 & c & Hg & _). rewrite Hg in H. inversion H; subst; clear H. simpl.
           split; [auto|]. split; [auto|]. apply Hnil. reflexivity.
        -- destruct (nth_error phs p) as [c|]; [|discriminate]. destruct (ph_cnt c =? 0); inversion H; subst; clear H. simpl.
           split; [auto|]. split; [auto|]. apply Hnil. simpl. exact E.
      * destruct Hwi as (c & Hc & _ & _ & Hv). rewrite Hc in H. destruct (ph_var c) as [f|] eqn:Ev; [|congruence].
        destruct f as [g|p0|]; [| |exfalso; eapply Hne; eauto]; inversion H; subst; clear H; simpl;
          (split; [auto|]; split; [auto|]; apply Hnil; simpl; exact E).
  - assert (Hret : forall rest f, th_done (ret th rest f) = th_done th).
    { intros r f. unfold ret. destruct r; [destruct (th_work th) as [|[] ?]|]; reflexivity. }
    assert (Hrest : forall fr0, In fr0 rest -> clean_pc (f_pc fr0)).
    { intros fr0 Hin. apply Hcl. rewrite E. right; exact Hin. }
    assert (Htop : forall fr', clean_pc (f_pc fr') -> frames_clean (with_stack th (fr' :: rest))).
    { intros fr' Hc fr0 [<-|Hin]; auto. }
    assert (Hfrc : clean_pc (f_pc fr)) by (apply Hcl; rewrite E; left; reflexivity).
    pose proof (thread_ok_frames _ _ _ Hth) as Hf. rewrite E in Hf. inversion Hf as [|? ? Hfr _]; subst.
    unfold frame_ok in Hfr. destruct (f_pc fr) eqn:Epc; try contradiction.
    + destruct (lookup m (f_ty fr)); inversion H; subst; clear H; simpl.
      * rewrite Hret. split; [auto|]. split; [auto|]. intros fr0 Hin. eapply ret_frames_clean; eauto.
      * split; [auto|]. split; [|apply Htop; exact I].
        intros q c Hq. destruct (Nat.lt_ge_cases q (length phs)) as [Hl|Hl].
        -- rewrite nth_error_app1 in Hq by exact Hl. eapply Hne; eauto.
        -- rewrite nth_error_app2 in Hq by exact Hl. destruct (q - length phs)%nat as [|[|k]]; simpl in Hq; try discriminate.
           inversion Hq; subst. simpl. discriminate.
    + destruct Hfr as (_ & c & Hc & _ & _ & Hv & _). rewrite Hc in H. inversion H; subst; clear H; simpl.
      split; [auto|]. split; [apply Hupd; simpl; congruence | apply Htop; exact I].
    + destruct Hfr as (_ & c & Hc & _ & _ & Hv & _). destruct (lookup m (f_ty fr)).
      * inversion H; subst; clear H; simpl. rewrite Hret. split; [auto|]. split; [auto|]. intros fr0 Hin. eapply ret_frames_clean; eauto.
      * rewrite Hc in H. inversion H; subst; clear H; simpl.
        split; [auto|]. split; [apply Hupd; simpl; congruence | apply Htop; exact I].
    + rewrite (Hsup (f_ty fr)) in H. destruct (f_todo fr); inversion H; subst; clear H; simpl.
      * split; [auto|]. split; [auto|]. apply Htop; exact I.
      * split; [auto|]. split; [auto|]. intros fr0 [<-|Hin]; [exact I|]. apply Hcl. rewrite E. exact Hin.
    + destruct Hfr as ((c & Hc & _) & _). rewrite Hc in H. inversion H; subst; clear H; simpl.
      split; [auto|]. split; [apply Hupd; simpl; discriminate | apply Htop; exact I].
    + destruct Hfr as (c & Hc & _ & _ & (g & Hv & _) & _). rewrite Hc in H. inversion H; subst; clear H; simpl.
      split; [auto|]. split; [apply Hupd; simpl; congruence | apply Htop; exact I].
    + destruct Hfr as (c & Hc & _ & _ & (g & Hv & _) & _). rewrite Hc in H. rewrite Hv in H. inversion H; subst; clear H; simpl.
      rewrite Hret. split; [auto|]. split; [auto|]. intros fr0 Hin. eapply ret_frames_clean; eauto.
Qed.

Record NoPanic (s : state) : Prop := mkNoPanic {
  np_results : forall th jr, In th (st_threads s) -> In jr (th_done th) -> snd jr <> RPanic;
  np_cells : cells_noerr (st_phs s);
  np_frames : forall th, In th (st_threads s) -> frames_clean th
}.

Lemma in_upd {A} (l : list A) i x y : In y (upd l i x) -> y = x \/ In y l.
Proof.
  revert i; induction l as [|z l IH]; intros [|i]; simpl; auto.
  - intros [<-|H]; auto.
  - intros [<-|H]; auto. destruct (IH _ H); auto.
Qed.

Theorem step_NoPanic s i s' : supported -> Inv s -> NoPanic s -> step tt s i = Some s' -> NoPanic s'.
Proof.
  intros Hsup [_ _ _ Ht _] [N1 N2 N3] H. unfold step in H.
  destruct (nth_error (st_threads s) i) as [th|] eqn:Ei; [|discriminate].
  destruct (tstep tt (st_map s) (st_phs s) (st_heap s) th) as [[th' sh]|] eqn:Est; [|discriminate].
  inversion H; subst; clear H.
  pose proof (nth_error_In _ _ Ei) as Hth. rewrite Forall_forall in Ht.
  destruct (panic_unreachable _ _ _ _ _ _ Hsup (Ht _ Hth) N2 (N3 _ Hth) Est) as (P1 & P2 & P3).
  constructor; simpl; auto.
  - intros th2 jr Hin Hjr. destruct (in_upd _ _ _ _ Hin) as [->|Hin'].
    + destruct (P1 _ Hjr) as [Hold|Hne]; auto. eapply N1; eauto.
    + eapply N1; eauto.
  - intros th2 Hin. destruct (in_upd _ _ _ _ Hin) as [->|Hin']; auto.
Qed.

Theorem reachable_NoPanic jobs sched : supported -> NoPanic (run tt (init jobs) sched).
Proof.
  intro Hsup.
  assert (G : forall s, Inv s -> NoPanic s -> NoPanic (run tt s sched)).
  { induction sched as [|i r IH]; intros s HI HN; simpl; auto.
    destruct (step tt s i) eqn:E; auto. apply IH; [eapply step_Inv | eapply step_NoPanic]; eauto. }
  apply G; [apply init_Inv|]. constructor; simpl.
  - intros th jr Hin Hjr. apply in_map_iff in Hin. destruct Hin as (js & <- & _). contradiction.
  - intros [|q] c Hq; discriminate.
  - intros th Hin fr Hfr. apply in_map_iff in Hin. destruct Hin as (js & <- & _). contradiction.
Qed.

(* ------------------------------------------------------------------------- *)
(* Summary statements *)

Theorem supported_results jobs sched th jr :
  supported -> In th (st_threads (run tt (init jobs) sched)) -> In jr (th_done th) ->
  exists kinds, snd jr = ROk (ref tt (snd (fst jr)) (fst (fst jr))) kinds.
Proof.
  intros Hsup Hth Hjr. destruct (results_match jobs sched th jr Hth Hjr) as [Hp|H]; auto.
  exfalso. eapply (np_results _ (reachable_NoPanic jobs sched Hsup)); eauto.
Qed.

(* every call returns: when nothing can move any more, everybody is finished - for every type table *)
Theorem no_deadlock jobs sched :
  stuck tt (run tt (init jobs) sched) = true -> all_finished (run tt (init jobs) sched) = true.
Proof.
  apply stuck_finished; [apply reachable_Inv | apply reachable_SupInv].
Qed.

Theorem finished_all_jobs jobs sched th :
  all_finished (run tt (init jobs) sched) = true -> In th (st_threads (run tt (init jobs) sched)) ->
  map fst (th_done th) = jobs_of th.
Proof. intros. eapply finished_results; eauto. apply reachable_Inv. Qed.

Theorem partial_property jobs sched :
  supported ->
  let s := run tt (init jobs) sched in
  race_state s = false /\
  (forall th jr, In th (st_threads s) -> In jr (th_done th) ->
     exists kinds, snd jr = ROk (ref tt (snd (fst jr)) (fst (fst jr))) kinds) /\
  (stuck tt s = true -> all_finished s = true).
Proof.
  intros Hsup s. split; [apply no_race|]. split.
  - intros th jr. apply supported_results. exact Hsup.
  - apply no_deadlock.
Qed.

(* ------------------------------------------------------------------------- *)
(* A call fails only if it really involves an unsupported type *)

(* generating the function for t runs into an unsupported type *)
Inductive gen_bad : ty -> Prop :=
| gb_here t : is_bad tt t = true -> gen_bad t
| gb_kid t c : In c (kidtypes tt t) -> gen_bad c -> gen_bad t.

(* calling the function for u on the value meets (the function of) a type whose generation fails *)
Inductive call_bad : ty -> val -> Prop :=
| cb_kid u subs i v' c : In (SKid i, v') subs -> nth_error (kidtypes tt u) i = Some c ->
                         gen_bad c \/ call_bad c v' -> call_bad u (V subs)
| cb_dyn u subs t' v' : In (SDyn t', v') subs -> gen_bad t' \/ call_bad t' v' -> call_bad u (V subs).

Definition job_bad (t : ty) (v : val) : Prop := gen_bad t \/ call_bad t v.

Definition witem_bad (phs : list ph) (heap : list clo) (w : witem) : Prop :=
  match w with
  | WGet t v => job_bad t v
  | WCall f v => exists u, typed phs heap f u /\ job_bad u v
  | WRead p v => exists c, nth_error phs p = Some c /\ job_bad (ph_ty c) v
  end.

Definition is_cleanup (c : pc) : Prop := match c with PDel | PWErr | PDErr => True | _ => False end.

Definition bad_thread (phs : list ph) (heap : list clo) (th : thread) : Prop :=
  (forall jr, In jr (th_done th) -> snd jr = RPanic -> job_bad (fst (fst jr)) (snd (fst jr))) /\
  match th_cur th with
  | None => True
  | Some (t, v) =>
      (forall w, In w (th_work th) -> witem_bad phs heap w -> job_bad t v) /\
      (forall fr, In fr (th_stack th) -> gen_bad (f_ty fr) -> job_bad t v) /\
      (forall fr, In fr (th_stack th) -> is_cleanup (f_pc fr) -> gen_bad (f_ty fr))
  end.

Definition bad_cells (phs : list ph) : Prop := forall q c, nth_error phs q = Some c -> ph_var c = Some FErr -> gen_bad (ph_ty c).

Lemma typed_unique phs heap f t u : typed phs heap f t -> typed phs heap f u -> t = u.
Proof. intros H1 H2. apply typed_fty in H1. apply typed_fty in H2. congruence. Qed.

Lemma witem_bad_back phs heap phs' heap' w :
  ext phs heap phs' heap' -> witem_ok phs heap w -> witem_bad phs' heap' w -> witem_bad phs heap w.
Proof.
  intros He Hok H. destruct w as [t v|f v|p v]; simpl in *; auto.
  - destruct Hok as [t Ht]. destruct H as (u & Hu & Hb). exists t. split; auto.
    rewrite (typed_unique _ _ _ _ _ (typed_ext _ _ _ _ _ _ He Ht) Hu). exact Hb.
  - destruct Hok as (c & Hc & Hs). destruct H as (c' & Hc' & Hb). rewrite (stable_ext _ _ _ _ _ _ He Hc Hs) in Hc'.
    inversion Hc'; subst. eauto.
Qed.

Lemma bad_thread_ext phs heap phs' heap' th :
  ext phs heap phs' heap' -> thread_ok phs heap th -> bad_thread phs heap th -> bad_thread phs' heap' th.
Proof.
  intros He [_ Hok] [Hd H]. split; auto. destruct (th_cur th) as [[t v]|]; auto.
  destruct H as (H1 & H2 & H3). destruct Hok as (_ & Hw & _). split; [|split]; auto.
  intros w Hin Hb. apply (H1 w Hin). eapply witem_bad_back; eauto. rewrite Forall_forall in Hw. auto.
Qed.

Lemma job_bad_ret th rest f : th_done (ret th rest f) = th_done th /\ th_cur (ret th rest f) = th_cur th.
Proof. unfold ret. destruct rest; [destruct (th_work th) as [|[] ?]|]; auto. Qed.

Lemma tstep_bad m phs heap th th' sh :
  (forall t f, In (t, f) m -> typed phs heap f t) ->
  (forall g c, nth_error heap g = Some c -> Forall2 (typed phs heap) (clo_kids c) (kidtypes tt (clo_ty c))) ->
  (forall p c, nth_error phs p = Some c -> cell_ok heap c) ->
  thread_ok phs heap th -> bad_thread phs heap th -> bad_cells phs ->
  tstep tt m phs heap th = Some (th', sh) ->
  ext phs heap (sh_phs sh) (sh_heap sh) ->
  bad_thread (sh_phs sh) (sh_heap sh) th' /\ bad_cells (sh_phs sh).
Proof.
  intros Hmap Hheap Hcells Hth [Hd Hb] Hbc H He.
  assert (Hupd : forall p c0 c1, nth_error phs p = Some c0 -> ph_ty c1 = ph_ty c0 ->
                 (ph_var c1 = Some FErr -> ph_var c0 = Some FErr \/ gen_bad (ph_ty c0)) -> bad_cells (upd phs p c1)).
  { intros p c0 c1 Hp Hty Hv q c Hq Hc. destruct (Nat.eq_dec p q) as [<-|Hn].
    - rewrite nth_error_upd_eq in Hq by (eapply nth_error_Some_lt; eauto). inversion Hq; subst. rewrite Hty.
      destruct (Hv Hc) as [Hv'|Hg]; eauto.
    - rewrite nth_error_upd_neq in Hq by auto. eauto. }
  assert (Hpanic : forall th2 phs' heap', th_cur th2 = th_cur th -> th_done th2 = th_done th ->
                   (forall t v, th_cur th = Some (t, v) -> job_bad t v) -> bad_thread phs' heap' (panic th2)).
  { intros th2 phs' heap' E1 E2 Hj. unfold panic. rewrite E1, E2. destruct (th_cur th) as [[t v]|] eqn:Ec; split; simpl; auto.
    intros jr Hin Hr. apply in_app_or in Hin. destruct Hin as [Hin|[<-|[]]]; auto; try (simpl; apply (Hj t v); reflexivity). }
  unfold tstep in H. destruct (th_stack th) as [|fr rest] eqn:E.
  - destruct (th_work th) as [|wi w] eqn:Ew.
    + destruct (th_cur th) as [j|] eqn:Ec; [|destruct (th_jobs th) as [|[t v] js]; [discriminate|]]; inversion H; subst; clear H; simpl.
      * split; auto. split; simpl; auto. intros jr Hin Hr. apply in_app_or in Hin. destruct Hin as [Hin|[<-|[]]]; auto. discriminate.
      * split; auto. split; simpl; auto. split; [|split; intros ? []].
        intros w [<-|[]] Hw. exact Hw.
    + destruct (thread_ok_nostack_inv _ _ _ _ _ Hth E Ew) as (t & v & Ec & Hw & _ & _). rewrite Ec in Hb.
      destruct Hb as (B1 & B2 & B3). rewrite Ew in Hw. try rewrite Ew in B1. inversion Hw as [|? ? Hwi Hw']; subst.
      destruct wi as [t0 v0|f v0|p v0].
      * (* a cache request starts *)
        inversion H; subst; clear H. simpl. split; auto. split; simpl; auto. rewrite Ec. rewrite Ew. split; [exact B1|]. split.
        -- intros fr [<-|[]] Hg. simpl in Hg. apply (B1 (WGet t0 v0)); [left; reflexivity|]. left. exact Hg.
        -- intros fr [<-|[]] [].
      * destruct f as [g|p|]; [| |destruct Hwi as [t1 []]].
        -- (* a generated function runs *)
           destruct v0 as [subs]. destruct Hwi as [u (c & Hg & Hu)]. rewrite Hg in H. inversion H; subst; clear H. simpl.
           split; auto. split; simpl; auto. rewrite Ec. split; [|split; intros ? []].
           assert (Hold : job_bad (clo_ty c) (V subs) -> job_bad t v).
           { intro Hj. apply (B1 (WCall (FGen g) (V subs))); [left; reflexivity|]. exists (clo_ty c). split; auto. simpl. eauto. }
           intros w0 Hin Hbad. apply in_app_or in Hin. destruct Hin as [Hin|Hin]; [|apply (B1 w0); [right; exact Hin | exact Hbad]].
           unfold expand in Hin. apply in_flat_map in Hin. destruct Hin as ([sl v1] & Hsub & Hin). simpl in Hin.
           apply Hold. right. destruct sl as [i|t'].
           ++ pose proof (Forall2_nth_error _ _ _ i (Hheap _ _ Hg)) as Hn.
              destruct (nth_error (clo_kids c) i) as [k|] eqn:Ek; [|contradiction].
              destruct (nth_error (kidtypes tt (clo_ty c)) i) as [ct|] eqn:Ect; [|contradiction].
              destruct Hin as [<-|[]]. destruct Hbad as (u' & Hu' & Hj). rewrite <- (typed_unique _ _ _ _ _ Hn Hu') in Hj.
              eapply cb_kid; eauto.
           ++ destruct Hin as [<-|[]]. eapply cb_dyn; eauto.
        -- (* Wait returns *)
           destruct Hwi as [u (c & Hp & Hu & Hpub)]. rewrite Hp in H.
           destruct (ph_cnt c =? 0); [|discriminate]. inversion H; subst; clear H. simpl.
           split; auto. split; simpl; auto. rewrite Ec. rewrite E. split; [|split; intros ? []].
           intros w0 [<-|Hin] Hbad; [|apply (B1 w0); [right; exact Hin | exact Hbad]].
           destruct Hbad as (c' & Hc' & Hj). rewrite Hp in Hc'. inversion Hc'; subst.
           apply (B1 (WCall (FPh p) v0)); [left; reflexivity|]. exists (ph_ty c'). split; auto. simpl. eauto.
      * (* the plain read after Wait *)
        destruct Hwi as (c & Hp & Hpub & Hz & Hv). rewrite Hp in H.
        destruct (ph_var c) as [f|] eqn:Ev; [|congruence].
        assert (Hold : job_bad (ph_ty c) v0 -> job_bad t v).
        { intro Hj. apply (B1 (WRead p v0)); [left; reflexivity|]. simpl. eauto. }
        destruct (Hcells _ _ Hp) as (_ & _ & Hc3). destruct (Hc3 _ Ev) as [-> | (g & k & -> & Hg & Hk)].
        -- inversion H; subst; clear H. simpl. split; auto. apply Hpanic; auto.
           intros t1 v1 E1. rewrite Ec in E1. inversion E1; subst. apply Hold. left. eapply Hbc; eauto.
        -- inversion H; subst; clear H. simpl. split; auto. split; simpl; auto. rewrite Ec. rewrite E. split; [|split; intros ? []].
           intros w0 [<-|Hin] Hbad; [|apply (B1 w0); [right; exact Hin | exact Hbad]].
           destruct Hbad as (u & (k' & Hg' & Hu) & Hj). apply Hold. rewrite Hg in Hg'. inversion Hg'; subst. rewrite <- Hk. exact Hj.
  - destruct (thread_ok_stack_inv _ _ _ _ _ Hth E) as (t & v & t' & v' & w & Ec & Ew & Hs & Hw & _ & _).
    rewrite Ec in Hb. destruct Hb as (B1 & B2 & B3). try rewrite E in B2. try rewrite E in B3.
    pose proof (stack_ok_frames _ _ _ _ Hs) as Hfrs. inversion Hfrs as [|? ? Hfr Hfrs']; subst.
    assert (B1' : forall w0, In w0 (th_work th) -> witem_bad (sh_phs sh) (sh_heap sh) w0 -> job_bad t v).
    { intros w0 Hin Hbad. apply (B1 w0 Hin). eapply witem_bad_back; eauto. rewrite Forall_forall in Hw. auto. }
    assert (Htop : forall fr', f_ty fr' = f_ty fr -> (is_cleanup (f_pc fr') -> gen_bad (f_ty fr)) ->
                   bad_thread (sh_phs sh) (sh_heap sh) (with_stack th (fr' :: rest))).
    { intros fr' Hty Hcl. split; simpl; auto. rewrite Ec. split; [exact B1'|]. split.
      - intros fr0 [<-|Hin] Hg; [apply (B2 fr); [left; reflexivity | rewrite <- Hty; exact Hg] | apply (B2 fr0); [right; exact Hin | exact Hg]].
      - intros fr0 [<-|Hin] Hc; [rewrite Hty; auto | apply (B3 fr0); [right; exact Hin | exact Hc]]. }
    assert (Hretb : forall f, typed phs heap f (f_ty fr) -> bad_thread (sh_phs sh) (sh_heap sh) (ret th rest f)).
    { intros f Hf. unfold ret. destruct rest as [|parent rest'].
      - rewrite Ew. split; simpl; auto. rewrite Ec. split; [|split; intros ? []].
        intros w0 [<-|Hin] Hbad; [|apply (B1' w0); [rewrite Ew; right; exact Hin | exact Hbad]].
        destruct Hbad as (u & Hu & Hj). apply (B1 (WGet t' v')); [rewrite Ew; left; reflexivity|]. simpl.
        simpl in Hs. destruct Hs as [_ Hs]. rewrite Hs in Hf.
        rewrite (typed_unique _ _ _ _ _ (typed_ext _ _ _ _ _ _ He Hf) Hu). exact Hj.
      - split; simpl; auto. rewrite Ec. split; [exact B1'|]. split.
        + intros fr0 [<-|Hin] Hg; [apply (B2 parent); [right; left; reflexivity | exact Hg] | apply (B2 fr0); [right; right; exact Hin | exact Hg]].
        + intros fr0 [<-|Hin] Hc; [apply (B3 parent); [right; left; reflexivity | exact Hc] | apply (B3 fr0); [right; right; exact Hin | exact Hc]]. }
    unfold frame_ok in Hfr. destruct (f_pc fr) eqn:Epc.
    + (* Load *)
      destruct (lookup m (f_ty fr)) as [f|] eqn:El.
      * inversion H; subst; clear H. simpl in *. split; auto. apply Hretb. apply Hmap. apply lookup_In; auto.
      * inversion H; subst; clear H. simpl in *. split.
        -- apply Htop; simpl; auto. intros [].
        -- intros q c Hq Hv. destruct (Nat.lt_ge_cases q (length phs)) as [Hl|Hl].
           ++ rewrite nth_error_app1 in Hq by exact Hl. eauto.
           ++ rewrite nth_error_app2 in Hq by exact Hl. destruct (q - length phs)%nat as [|[|k]]; simpl in Hq; try discriminate.
              inversion Hq; subst. discriminate.
    + (* Add *)
      destruct Hfr as (_ & c & Hc & _). rewrite Hc in H. inversion H; subst; clear H. simpl in *. split.
      * apply Htop; simpl; auto. intros [].
      * eapply Hupd; eauto.
    + (* LoadOrStore *)
      destruct Hfr as (_ & c & Hc & _). destruct (lookup m (f_ty fr)) as [f|] eqn:El.
      * inversion H; subst; clear H. simpl in *. split; auto. apply Hretb. apply Hmap. apply lookup_In; auto.
      * rewrite Hc in H. inversion H; subst; clear H. simpl in *. split.
        -- apply Htop; simpl; auto. intros [].
        -- eapply Hupd; eauto.
    + (* generating *)
      destruct (is_bad tt (f_ty fr)) eqn:Eb; [|destruct (f_todo fr) as [|k todo] eqn:Etodo]; inversion H; subst; clear H; simpl in *.
      * split; auto. apply Htop; simpl; auto. intros _. apply gb_here; auto.
      * split; auto. apply Htop; simpl; auto. intros [].
      * split; auto. split; simpl; auto. rewrite Ec. split; [exact B1'|]. split.
        -- intros fr0 [<-|Hin] Hg; [|apply (B2 fr0 Hin Hg)]. simpl in Hg. apply (B2 fr); [left; reflexivity|].
           destruct Hfr as [_ (tys & Hk & _)]. apply (gb_kid (f_ty fr) k); [|exact Hg]. rewrite Hk. rewrite ?Etodo. apply in_or_app. right. left. reflexivity.
        -- intros fr0 [<-|Hin] Hc; [destruct Hc | apply (B3 fr0 Hin Hc)].
    + (* the plain write *)
      destruct Hfr as ((c & Hc & _) & _). rewrite Hc in H. inversion H; subst; clear H. simpl in *. split.
      * apply Htop; simpl; auto. intros [].
      * eapply Hupd; eauto. simpl. discriminate.
    + (* Done *)
      destruct Hfr as (c & Hc & _). rewrite Hc in H. inversion H; subst; clear H. simpl in *. split.
      * apply Htop; simpl; auto. intros [].
      * eapply Hupd; eauto.
    + (* Store *)
      destruct Hfr as (c & Hc & _ & _ & (g & Hv & Hf) & _). rewrite Hc in H. rewrite Hv in H. inversion H; subst; clear H. simpl in *.
      split; auto.
    + (* Delete *)
      inversion H; subst; clear H. simpl in *. split; auto. apply Htop; simpl; auto. intros _. apply (B3 fr); [left; reflexivity | rewrite Epc; exact I].
    + (* the write of the error function *)
      destruct Hfr as (c & Hc & Hty & _). rewrite Hc in H. inversion H; subst; clear H. simpl in *.
      assert (Hg : gen_bad (f_ty fr)) by (apply (B3 fr); [left; reflexivity | rewrite Epc; exact I]).
      split.
      * apply Htop; simpl; auto.
      * eapply Hupd; eauto. intros _. right. rewrite Hty. exact Hg.
    + (* Done on the failure path *)
      destruct Hfr as (c & Hc & _). rewrite Hc in H. inversion H; subst; clear H. simpl in *.
      assert (Hg : gen_bad (f_ty fr)) by (apply (B3 fr); [left; reflexivity | rewrite Epc; exact I]).
      split; [|eapply Hupd; eauto].
      destruct rest as [|parent rest'].
      * apply Hpanic; auto. intros t1 v1 E1. rewrite Ec in E1. inversion E1; subst. apply (B2 fr); [left; reflexivity | exact Hg].
      * simpl in Hs. destruct Hs as (_ & Hpp & (more & Htodo) & Hpar & _).
        assert (Hgp : gen_bad (f_ty parent)).
        { unfold frame_ok in Hpar. rewrite Hpp in Hpar. destruct Hpar as [_ (tys & Hk & _)].
          apply (gb_kid (f_ty parent) (f_ty fr)); [|exact Hg]. rewrite Hk. rewrite Htodo. apply in_or_app. right. left. reflexivity. }
        split; simpl; auto. rewrite Ec. split; [exact B1'|]. split.
        -- intros fr0 [<-|Hin] Hg0; [apply (B2 parent); [right; left; reflexivity | exact Hg0] | apply (B2 fr0); [right; right; exact Hin | exact Hg0]].
        -- intros fr0 [<-|Hin] Hc0; [exact Hgp | apply (B3 fr0); [right; right; exact Hin | exact Hc0]].
Qed.

Record BadInv (s : state) : Prop := mkBadInv {
  bi_threads : Forall (bad_thread (st_phs s) (st_heap s)) (st_threads s);
  bi_cells : bad_cells (st_phs s)
}.

Theorem step_BadInv s i s' : Inv s -> BadInv s -> step tt s i = Some s' -> BadInv s'.
Proof.
  intros [Hm Hh Hc Ht Ho] [B1 B2] H. unfold step in H.
  destruct (nth_error (st_threads s) i) as [th|] eqn:Ei; [|discriminate].
  destruct (tstep tt (st_map s) (st_phs s) (st_heap s) th) as [[th' sh]|] eqn:Est; [|discriminate].
  inversion H; subst; clear H.
  destruct (nth_error_split_upd _ _ _ th' Ei) as (l1 & l2 & El & Hlen & Eu).
  rewrite El in Ht, Ho, B1. simpl. rewrite Eu.
  apply Forall_app in Ht. destruct Ht as [Ht1 Ht2]. inversion Ht2 as [|? ? Hth Ht2']; subst.
  apply Forall_app in B1. destruct B1 as [Bl1 Bl2]. inversion Bl2 as [|? ? Bth Bl2']; subst.
  rewrite owned_app in Ho. simpl in Ho. fold (owned l2) in Ho.
  assert (Hnd : NoDup (owned_frames (th_stack th))).
  { apply NoDup_app_iff in Ho. destruct Ho as (_ & Ho & _). apply NoDup_app_iff in Ho. tauto. }
  pose proof (tstep_out _ _ _ Hm Hh Hc _ _ _ Hth Hnd Est) as [He _ _ _ _ _ _ _].
  destruct (tstep_bad _ _ _ _ _ _ Hm Hh Hc Hth Bth B2 Est He) as [Bth' B2'].
  constructor; simpl; auto.
  apply Forall_app. split.
  - rewrite Forall_forall in *. intros th2 Hin. eapply bad_thread_ext; eauto.
  - constructor; auto. rewrite Forall_forall in *. intros th2 Hin. eapply bad_thread_ext; eauto.
Qed.

Theorem reachable_BadInv jobs sched : BadInv (run tt (init jobs) sched).
Proof.
  assert (G : forall s, Inv s -> BadInv s -> BadInv (run tt s sched)).
  { induction sched as [|i r IH]; intros s HI HB; simpl; auto.
    destruct (step tt s i) eqn:E; auto. apply IH; [eapply step_Inv | eapply step_BadInv]; eauto. }
  apply G; [apply init_Inv|]. constructor; simpl.
  - apply Forall_forall. intros th Hin. apply in_map_iff in Hin. destruct Hin as (js & <- & _). split; simpl; auto. contradiction.
  - intros [|q] c Hq; discriminate.
Qed.

(* a call ends in an error only if its type or its value involves an unsupported type *)
Theorem failures_are_genuine jobs sched th jr :
  In th (st_threads (run tt (init jobs) sched)) -> In jr (th_done th) -> snd jr = RPanic ->
  job_bad (fst (fst jr)) (snd (fst jr)).
Proof.
  intros Hth Hjr Hr. pose proof (reachable_BadInv jobs sched) as [B _]. rewrite Forall_forall in B.
  destruct (B _ Hth) as [Hd _]. auto.
Qed.

(* so: a call that involves no unsupported type returns the run-alone trace, whatever else runs *)
Theorem good_jobs_return_reference jobs sched th jr :
  In th (st_threads (run tt (init jobs) sched)) -> In jr (th_done th) ->
  ~ job_bad (fst (fst jr)) (snd (fst jr)) ->
  exists kinds, snd jr = ROk (ref tt (snd (fst jr)) (fst (fst jr))) kinds.
Proof.
  intros Hth Hjr Hn. destruct (results_match jobs sched th jr Hth Hjr) as [Hp|H]; auto.
  exfalso. apply Hn. eapply failures_are_genuine; eauto.
Qed.

End WithTable.

(* a table without TBad entries is supported *)
Lemma supported_check (tb : ttable) :
  forallb (fun td => match snd td with TBad => false | _ => true end) tb = true -> supported tb.
Proof.
  intros H t. unfold is_bad. induction tb as [|[t' d] tb IH]; simpl in *; auto.
  apply andb_true_iff in H. destruct H as [H1 H2]. destruct (t' =? t); auto.
  destruct d; auto; discriminate.
Qed.

(* ------------------------------------------------------------------------- *)
(* The run-alone result [alone] (Model/Cache.v) is a result of a reachable state *)

Lemma run_repeat_none tb s i n : step tb s i = None -> run tb s (repeat i n) = s.
Proof. intro H. induction n as [|n IH]; simpl; auto. rewrite H. exact IH. Qed.

Lemma run_thread_run tb fuel s i : run_thread tb fuel s i = run tb s (repeat i fuel).
Proof.
  revert s. induction fuel as [|k IH]; intro s; simpl; auto.
  destruct (step tb s i) eqn:E; auto. rewrite run_repeat_none; auto.
Qed.

Lemma alone_is_a_result tb j r :
  alone tb j = Some r ->
  exists th rest, In th (st_threads (run tb (init [[j]]) (repeat 0%nat seq_fuel))) /\ th_done th = (j, r) :: rest.
Proof.
  unfold alone. rewrite run_thread_run. set (s := run tb (init [[j]]) (repeat 0%nat seq_fuel)).
  pose proof (run_jobs tb [[j]] (repeat 0%nat seq_fuel)) as Hj. fold s in Hj.
  destruct (st_threads s) as [|th ths] eqn:E; [discriminate|].
  destruct (th_done th) as [|[j' r'] rest] eqn:Ed; [discriminate|]. intro H. inversion H; subst.
  exists th, rest. split; [left; reflexivity|].
  simpl in Hj. inversion Hj as [[H1 H2]]. unfold jobs_of in H1. rewrite Ed in H1. simpl in H1. inversion H1; subst. exact Ed.
Qed.

Theorem alone_ok_is_reference tb j tr kinds : alone tb j = Some (ROk tr kinds) -> tr = ref tb (snd j) (fst j).
Proof.
  intro H. destruct (alone_is_a_result _ _ _ H) as (th & rest & Hin & Hd).
  destruct (results_match tb [[j]] _ th (j, ROk tr kinds) Hin) as [Hp|(k & Hk)].
  - rewrite Hd. left; reflexivity.
  - discriminate.
  - simpl in Hk. inversion Hk; subst. reflexivity.
Qed.

Theorem alone_panic_is_genuine tb j : alone tb j = Some RPanic -> job_bad tb (fst j) (snd j).
Proof.
  intro H. destruct (alone_is_a_result _ _ _ H) as (th & rest & Hin & Hd).
  apply (failures_are_genuine tb [[j]] _ th (j, RPanic) Hin); [rewrite Hd; left; reflexivity | reflexivity].
Qed.

Lemma list_ty_eqb_refl l : list_ty_eqb l l = true.
Proof. unfold list_ty_eqb. apply (list_eqb_eq N.eqb); [intros; apply N.eqb_eq | reflexivity]. Qed.

(* calls that involve no unsupported type: the result is the run-alone result *)
Theorem good_jobs_match_alone tb jobs sched th jr :
  In th (st_threads (run tb (init jobs) sched)) -> In jr (th_done th) ->
  ~ job_bad tb (fst (fst jr)) (snd (fst jr)) -> alone tb (fst jr) <> None ->
  same_result (alone tb (fst jr)) (snd jr) = true.
Proof.
  intros Hth Hjr Hn Ha. destruct (good_jobs_return_reference tb jobs sched th jr Hth Hjr Hn) as (k & Hk).
  rewrite Hk. destruct (alone tb (fst jr)) as [[tr0 k0|]|] eqn:E; [| |congruence].
  - simpl. rewrite (alone_ok_is_reference _ _ _ _ E). destruct jr as [[t v] r]. simpl. apply list_ty_eqb_refl.
  - exfalso. apply Hn. destruct jr as [[t v] r]. exact (alone_panic_is_genuine _ _ E).
Qed.

(* a supported table has no bad jobs *)
Lemma supported_no_gen_bad tb t : supported tb -> ~ gen_bad tb t.
Proof. intros Hs H. induction H as [t Hb|t c _ _ IH]; auto. rewrite (Hs t) in Hb. discriminate. Qed.

Fixpoint vsize (v : val) : nat :=
  match v with V subs => S (list_sum (map (fun sv => vsize (snd sv)) subs)) end.

Lemma vsize_sub s v subs : In (s, v) subs -> (vsize v < vsize (V subs))%nat.
Proof.
  intro H. simpl. induction subs as [|[s0 v0] subs IH]; simpl in *; [contradiction|].
  destruct H as [H|H]; [inversion H; subst; lia | specialize (IH H); lia].
Qed.

Lemma supported_no_call_bad tb : supported tb -> forall v t, ~ call_bad tb t v.
Proof.
  intros Hs v. remember (vsize v) as n eqn:En. revert v En.
  induction n as [n IH] using lt_wf_ind. intros v En t H.
  inversion H as [u subs i v' c Hin _ [Hg|Hc] | u subs t' v' Hin [Hg|Hc]]; subst.
  - exact (supported_no_gen_bad _ _ Hs Hg).
  - eapply (IH (vsize v')); eauto. eapply vsize_sub; eauto.
  - exact (supported_no_gen_bad _ _ Hs Hg).
  - eapply (IH (vsize v')); eauto. eapply vsize_sub; eauto.
Qed.

Lemma supported_no_job_bad tb t v : supported tb -> ~ job_bad tb t v.
Proof. intros Hs [H|H]; [exact (supported_no_gen_bad _ _ Hs H) | exact (supported_no_call_bad _ Hs _ _ H)]. Qed.
