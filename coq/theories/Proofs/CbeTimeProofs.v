(* Proofs about Model/CbeTime.v: the CBE wire format of times (go-compact-time under
   cbe/encoder.go OnTime and cbe/decoder_reader.go ReadDate / ReadTime / ReadTimestamp).

   1  bit fields: packing into a fixed-width register and peeling fields off again
   2  zigzag / year
   3  the clock part, the date part, the year tail
   4  time zones
   5  the round trip  cbe_decode_time (cbe_encode_time t ++ rest) = Some (canon t, rest)
   6  consumed length, prefix-freedom
   7  what the decoder delivers is valid and survives re-encoding; non-canonical encodings
   8  refutations outside the guards (year window, field widths, zero value)
   9  agreement with the value-level time model of Model/Convert.v *)
From CE Require Import Model.CbeTime.
From CE Require Import Gen.CbeConsts.
From Coq Require Import ZifyN ZifyNat ZifyBool.
Open Scope N_scope.

#[local] Arguments N.pow : simpl never.
#[local] Arguments N.div : simpl never.
#[local] Arguments N.modulo : simpl never.
#[local] Arguments N.mul : simpl never.
#[local] Arguments N.add : simpl never.
#[local] Arguments N.shiftl : simpl never.
#[local] Arguments N.shiftr : simpl never.
#[local] Arguments N.lor : simpl never.
#[local] Arguments N.land : simpl never.
#[local] Arguments N.ones : simpl never.
#[local] Arguments Z.pow : simpl never.
#[local] Arguments Z.div : simpl never.
#[local] Arguments Z.modulo : simpl never.
#[local] Arguments Z.mul : simpl never.
#[local] Arguments Z.add : simpl never.

(* ------------------------------------------------------------------ *)
(** * 1. Bit fields *)

Lemma pow2_pos (w : N) : 0 < 2 ^ w.
Proof. apply N.neq_0_lt_0. apply N.pow_nonzero. discriminate. Qed.

Lemma pow2_nz (w : N) : 2 ^ w <> 0.
Proof. apply N.pow_nonzero. discriminate. Qed.

(* (acc << w) | f  is  acc * 2^w + f  when f fits the field *)
Lemma lor_shiftl_add acc w f : f < 2 ^ w -> N.lor (N.shiftl acc w) f = acc * 2 ^ w + f.
Proof.
  intro Hf. rewrite N.shiftl_mul_pow2.
  assert (L : N.land (acc * 2 ^ w) f = 0).
  { apply N.bits_inj. intro n. rewrite N.land_spec, N.bits_0.
    destruct (N.lt_ge_cases n w) as [C|C].
    - rewrite N.mul_pow2_bits_low by exact C. reflexivity.
    - rewrite <- (N.mod_small f (2 ^ w)) by exact Hf.
      rewrite N.mod_pow2_bits_high by exact C. apply andb_false_r. }
  rewrite <- N.lxor_lor by exact L. symmetry. apply N.add_nocarry_lxor. exact L.
Qed.

Lemma low_bits_mod w x : low_bits w x = x mod 2 ^ w.
Proof. unfold low_bits. apply N.land_ones. Qed.

Lemma shiftr_div x w : N.shiftr x w = x / 2 ^ w.
Proof. apply N.shiftr_div_pow2. Qed.

(* x mod 2^k mod 2^j = x mod 2^j for j <= k *)
Lemma mod_pow2_mod x j k : j <= k -> (x mod 2 ^ k) mod 2 ^ j = x mod 2 ^ j.
Proof.
  intro H. replace k with (j + (k - j)) by lia. rewrite N.pow_add_r.
  rewrite N.mod_mul_r by apply pow2_nz.
  rewrite (N.mul_comm (2 ^ j)), N.mod_add by apply pow2_nz.
  apply N.mod_mod. apply pow2_nz.
Qed.

(* the fundamental step: the lowest field of a register truncated to k bits *)
Lemma peel_mod k w acc f :
  w <= k -> f < 2 ^ w -> (acc * 2 ^ w + f) mod 2 ^ k = (acc mod 2 ^ (k - w)) * 2 ^ w + f.
Proof.
  intros Hw Hf. replace k with (w + (k - w)) at 1 by lia. rewrite N.pow_add_r.
  rewrite N.mod_mul_r by apply pow2_nz.
  assert (E1 : (acc * 2 ^ w + f) mod 2 ^ w = f).
  { rewrite N.add_comm, N.mod_add by apply pow2_nz. apply N.mod_small. exact Hf. }
  assert (E2 : (acc * 2 ^ w + f) / 2 ^ w = acc).
  { rewrite N.div_add_l by apply pow2_nz. rewrite (N.div_small f) by exact Hf. lia. }
  rewrite E1, E2. lia.
Qed.

Lemma peel k w acc f :
  w <= k -> f < 2 ^ w ->
  low_bits w ((acc * 2 ^ w + f) mod 2 ^ k) = f /\
  N.shiftr ((acc * 2 ^ w + f) mod 2 ^ k) w = acc mod 2 ^ (k - w).
Proof.
  intros Hw Hf. rewrite low_bits_mod, shiftr_div, peel_mod by assumption. split.
  - rewrite N.add_comm, N.mod_add by apply pow2_nz. apply N.mod_small. exact Hf.
  - rewrite N.div_add_l by apply pow2_nz. rewrite (N.div_small f) by exact Hf. lia.
Qed.

Lemma peel_low k w acc f : w <= k -> f < 2 ^ w -> low_bits w ((acc * 2 ^ w + f) mod 2 ^ k) = f.
Proof. intros; apply peel; assumption. Qed.
Lemma peel_high k w acc f : w <= k -> f < 2 ^ w -> N.shiftr ((acc * 2 ^ w + f) mod 2 ^ k) w = acc mod 2 ^ (k - w).
Proof. intros; apply peel; assumption. Qed.

Lemma odd_low x : N.odd x = (low_bits 1 x =? 1).
Proof.
  rewrite low_bits_mod. change (2 ^ 1) with 2. rewrite <- N.bit0_mod, N.bit0_odd.
  destruct (N.odd x); reflexivity.
Qed.

Lemma two64_pow : two64 = 2 ^ 64.
Proof. reflexivity. Qed.
Lemma u64_mod x : u64 x = x mod 2 ^ 64.
Proof. reflexivity. Qed.

(* packing into the uint64 register only matters modulo 2^64 *)
Lemma pack64_raw acc w f : f < 2 ^ w -> pack64 acc w f = (acc * 2 ^ w + f) mod 2 ^ 64.
Proof. intro H. unfold pack64. rewrite lor_shiftl_add by exact H. apply u64_mod. Qed.

Lemma mod_mul_add_mod x m a b : m <> 0 -> ((x mod m) * a + b) mod m = (x * a + b) mod m.
Proof.
  intro Hm. rewrite N.add_mod by exact Hm. rewrite N.mul_mod_idemp_l by exact Hm.
  rewrite <- N.add_mod by exact Hm. reflexivity.
Qed.

Lemma pack64_mod x w f : f < 2 ^ w -> pack64 (x mod 2 ^ 64) w f = (x * 2 ^ w + f) mod 2 ^ 64.
Proof. intro H. rewrite pack64_raw by exact H. apply mod_mul_add_mod. apply pow2_nz. Qed.

(* accumulator <<= 1; if !isZeroTS { accumulator |= 1 } *)
Lemma final_bit x (utc : bool) :
  (if utc then u64 (N.shiftl (x mod 2 ^ 64) 1) else N.lor (u64 (N.shiftl (x mod 2 ^ 64) 1)) 1)
  = (x * 2 ^ 1 + (if utc then 0 else 1)) mod 2 ^ 64.
Proof.
  assert (E : u64 (N.shiftl (x mod 2 ^ 64) 1) = (x * 2 ^ 1 + 0) mod 2 ^ 64).
  { rewrite u64_mod, N.shiftl_mul_pow2. rewrite <- (N.add_0_r (x mod 2 ^ 64 * 2 ^ 1)).
    apply mod_mul_add_mod. apply pow2_nz. }
  destruct utc; [exact E|].
  rewrite E, N.add_0_r.
  (* (2x) mod 2^64 is even and below 2^64, so | 1 is + 1 *)
  change (2 ^ 1) with 2.
  assert (D : (x * 2) mod 2 ^ 64 = (x mod 2 ^ 63) * 2).
  { change (2 ^ 64) with (2 ^ 63 * 2). rewrite N.mul_mod_distr_r by discriminate. reflexivity. }
  rewrite D.
  replace (x mod 2 ^ 63 * 2) with (N.shiftl (x mod 2 ^ 63) 1) by (rewrite N.shiftl_mul_pow2; reflexivity).
  rewrite lor_shiftl_add by (change (2 ^ 1) with 2; lia).
  change (2 ^ 1) with 2. change (2 ^ 63) with 9223372036854775808.
  change (2 ^ 64) with 18446744073709551616. lia.
Qed.

(* little-endian bytes of a register value: only the low 8n bits, n <= 8 *)
Lemma le_roundtrip_mod64 (n : nat) x :
  (n <= 8)%nat -> le_decode (le_encode n (x mod 2 ^ 64)) = x mod 2 ^ (8 * N.of_nat n).
Proof.
  intro Hn. rewrite le_decode_encode, pow256_pow2. apply mod_pow2_mod. lia.
Qed.

Lemma take_app (a rest : bytes) : take (length a) (a ++ rest) = Some (a, rest).
Proof.
  unfold take. rewrite app_length.
  replace (length a <=? length a + length rest)%nat with true by (symmetry; apply Nat.leb_le; lia).
  rewrite firstn_app, Nat.sub_diag, firstn_all, skipn_app, Nat.sub_diag, skipn_all. cbn [firstn skipn].
  rewrite app_nil_r. reflexivity.
Qed.

Lemma take_le_encode (n : nat) x rest : take n (le_encode n x ++ rest) = Some (le_encode n x, rest).
Proof. rewrite <- (le_encode_length n x) at 1. apply take_app. Qed.

Lemma le_encode_head (n : nat) x rest :
  le_encode (S n) x ++ rest = (x mod 256) :: (le_encode n (x / 256) ++ rest).
Proof. reflexivity. Qed.

(* ------------------------------------------------------------------ *)
(** * 2. Zigzag and the year *)

Lemma i32_small z : (-2147483648 <= z < 2147483648)%Z -> i32 z = z.
Proof. intro H. unfold i32. lia. Qed.

Lemma i16_small z : (-32768 <= z < 32768)%Z -> i16 z = z.
Proof. intro H. unfold i16. lia. Qed.

(* int32(year) - 2000 in int32 arithmetic is year - 2000 whenever that fits 32 bits, even when
   year itself does not (the two wraps cancel) *)
Lemma i32_year year : (-2147483648 <= year - 2000 < 2147483648)%Z -> i32 (i32 year - 2000) = (year - 2000)%Z.
Proof. intro H. unfold i32. lia. Qed.

(* the closed form of (v >> 31) ^ (v << 1) on int32 *)
Lemma zigzag32_closed v :
  (-2147483648 <= v < 2147483648)%Z ->
  zigzag32 v = Z.to_N (if (v <? 0)%Z then -2 * v - 1 else 2 * v)%Z.
Proof.
  intro H. unfold zigzag32, twos.
  change (2 ^ Z.of_N 32)%Z with 4294967296%Z.
  rewrite Z.shiftr_div_pow2, Z.shiftl_mul_pow2 by lia.
  change (2 ^ 31)%Z with 2147483648%Z. change (2 ^ 1)%Z with 2%Z.
  destruct (Z.ltb_spec v 0) as [C|C].
  - replace (v / 2147483648)%Z with (-1)%Z by lia.
    rewrite Z.lxor_m1_l. unfold Z.lnot, i32. f_equal. lia.
  - replace (v / 2147483648)%Z with 0%Z by lia.
    rewrite Z.lxor_0_l. unfold i32. f_equal. lia.
Qed.

Lemma zigzag32_bound v : (-2147483648 <= v < 2147483648)%Z -> zigzag32 v < 4294967296.
Proof. intro H. rewrite zigzag32_closed by exact H. destruct (v <? 0)%Z eqn:E; lia. Qed.

Lemma lxor_ones32 a : a < 2147483648 -> N.lxor a 4294967295 = 4294967295 - a.
Proof.
  intro H. change 4294967295 with (N.ones 32). change (N.lxor a (N.ones 32)) with (N.lnot a 32).
  apply N.lnot_sub_low.
  destruct (N.eq_dec a 0) as [->|Ha]; [reflexivity|].
  apply N.log2_lt_pow2; [lia|]. change (2 ^ 32) with 4294967296. lia.
Qed.

(* the closed form of (e >> 1) ^ -(e & 1) on uint32 *)
Lemma unzigzag32_closed e :
  e < 4294967296 ->
  unzigzag32 e = (if N.odd e then - Z.of_N (e / 2) - 1 else Z.of_N (e / 2))%Z.
Proof.
  intro H. unfold unzigzag32. rewrite shiftr_div. change (2 ^ 1) with 2.
  assert (B : e / 2 < 2147483648) by lia.
  destruct (N.odd e).
  - rewrite lxor_ones32 by exact B. unfold i32. lia.
  - rewrite N.lxor_0_r. unfold i32. lia.
Qed.

Lemma unzigzag_zigzag v : (-2147483648 <= v < 2147483648)%Z -> unzigzag32 (zigzag32 v) = v.
Proof.
  intro H. rewrite unzigzag32_closed by (apply zigzag32_bound; exact H).
  rewrite zigzag32_closed by exact H.
  destruct (Z.ltb_spec v 0) as [C|C].
  - replace (Z.to_N (-2 * v - 1)) with (1 + 2 * Z.to_N (- v - 1)) by lia.
    rewrite N.odd_add_mul_2. change (N.odd 1) with true. cbv iota.
    replace ((1 + 2 * Z.to_N (- v - 1)) / 2) with (Z.to_N (- v - 1)) by lia. lia.
  - replace (Z.to_N (2 * v)) with (0 + 2 * Z.to_N v) by lia.
    rewrite N.odd_add_mul_2. change (N.odd 0) with false. cbv iota.
    replace ((0 + 2 * Z.to_N v) / 2) with (Z.to_N v) by lia. lia.
Qed.

Lemma zigzag_unzigzag e : e < 4294967296 -> zigzag32 (unzigzag32 e) = e.
Proof.
  intro H. rewrite unzigzag32_closed by exact H.
  pose proof (N.div_mod e 2 ltac:(discriminate)) as D.
  assert (O : e mod 2 = N.b2n (N.odd e)) by (rewrite <- N.bit0_odd; symmetry; apply N.bit0_mod).
  destruct (N.odd e); cbn [N.b2n] in O.
  - rewrite zigzag32_closed by lia.
    replace (- Z.of_N (e / 2) - 1 <? 0)%Z with true by lia. lia.
  - rewrite zigzag32_closed by lia.
    replace (Z.of_N (e / 2) <? 0)%Z with false by lia. lia.
Qed.

Lemma year_ok_range y : year_ok y = true -> (-2147483648 <= y - 2000 < 2147483648)%Z.
Proof. unfold year_ok. lia. Qed.

Lemma encoded_year_bound y : year_ok y = true -> encoded_year y < 4294967296.
Proof.
  intro H. apply year_ok_range in H. unfold encoded_year. rewrite i32_year by exact H.
  apply zigzag32_bound. exact H.
Qed.

Lemma decode_encoded_year y : year_ok y = true -> decode_year (encoded_year y) = y.
Proof.
  intro H. pose proof (encoded_year_bound y H) as B. apply year_ok_range in H.
  unfold decode_year, u32. rewrite N.mod_small by exact B.
  unfold encoded_year. rewrite i32_year by exact H. rewrite unzigzag_zigzag by exact H. lia.
Qed.

(* ------------------------------------------------------------------ *)
(** * 3. The clock part, the date part, the year tail *)

(* the register of encodeTime / encodeTimestamp as a number: the fields above [x] *)
Definition clockP (x h mi s w sub mag bit : N) : N :=
  ((((((x * 2 ^ 5 + h) * 2 ^ 6 + mi) * 2 ^ 6 + s) * 2 ^ w + sub) * 2 ^ 2 + mag) * 2 ^ 1 + bit).

Lemma magnitude_lt4 ns : magnitude ns < 4.
Proof.
  unfold magnitude. destruct (ns =? 0); [lia|].
  destruct (negb (ns mod 1000 =? 0)); [lia|]. destruct (negb (ns mod 1000000 =? 0)); lia.
Qed.

Lemma magnitude_cases ns : magnitude ns = 0 \/ magnitude ns = 1 \/ magnitude ns = 2 \/ magnitude ns = 3.
Proof. pose proof (magnitude_lt4 ns). lia. Qed.

(* the sub-second field fits its 10*magnitude bits, and nothing is lost by the division *)
Lemma subsecond_fits ns :
  ns <= 999999999 ->
  ns / sub_mult (magnitude ns) < 2 ^ (10 * magnitude ns) /\
  ns / sub_mult (magnitude ns) * sub_mult (magnitude ns) = ns.
Proof.
  intro H. unfold magnitude.
  destruct (N.eqb_spec ns 0) as [->|N0].
  - cbn [sub_mult]. split; reflexivity.
  - destruct (N.eqb_spec (ns mod 1000) 0) as [E1|E1]; cbn [negb].
    + destruct (N.eqb_spec (ns mod 1000000) 0) as [E2|E2]; cbn [negb sub_mult].
      * change (2 ^ (10 * 1)) with 1024. split; lia.
      * change (2 ^ (10 * 2)) with 1048576. split; lia.
    + cbn [sub_mult]. change (2 ^ (10 * 3)) with 1073741824. split; lia.
Qed.

Lemma pack_clock_closed x h mi s ns (utc : bool) :
  h < 2 ^ 5 -> mi < 2 ^ 6 -> s < 2 ^ 6 -> ns / sub_mult (magnitude ns) < 2 ^ (10 * magnitude ns) ->
  pack_clock (x mod 2 ^ 64) h mi s ns utc
  = clockP x h mi s (10 * magnitude ns) (ns / sub_mult (magnitude ns)) (magnitude ns) (if utc then 0 else 1) mod 2 ^ 64.
Proof.
  intros Hh Hm Hs Hsub. unfold pack_clock, clockP. cbv zeta.
  pose proof (magnitude_lt4 ns) as M.
  rewrite (pack64_mod x 5 h) by exact Hh.
  rewrite pack64_mod by exact Hm.
  rewrite pack64_mod by exact Hs.
  rewrite pack64_mod by exact Hsub.
  rewrite pack64_mod by (change (2 ^ 2) with 4; exact M).
  apply final_bit.
Qed.

Lemma unpack_clock_closed K mag x h mi s sub bit :
  20 + 10 * mag <= K -> h < 2 ^ 5 -> mi < 2 ^ 6 -> s < 2 ^ 6 -> sub < 2 ^ (10 * mag) -> mag < 2 ^ 2 -> bit < 2 ^ 1 ->
  unpack_clock mag (clockP x h mi s (10 * mag) sub mag bit mod 2 ^ K)
  = (bit =? 1, sub * sub_mult mag, s, mi, h, x mod 2 ^ (K - 20 - 10 * mag)).
Proof.
  intros HK Hh Hm Hs Hsub Hmag Hbit. unfold unpack_clock, clockP. cbv zeta.
  rewrite odd_low.
  rewrite peel_low by (first [lia | assumption]).
  rewrite peel_high by (first [lia | assumption]).
  rewrite peel_high by (first [lia | assumption]).
  rewrite peel_low by (first [lia | assumption]).
  rewrite peel_high by (first [lia | assumption]).
  rewrite peel_low by (first [lia | assumption]).
  rewrite peel_high by (first [lia | assumption]).
  rewrite peel_low by (first [lia | assumption]).
  rewrite peel_high by (first [lia | assumption]).
  rewrite peel_low by (first [lia | assumption]).
  rewrite peel_high by (first [lia | assumption]).
  replace (K - 1 - 2 - 10 * mag - 6 - 6 - 5) with (K - 20 - 10 * mag) by lia.
  reflexivity.
Qed.

(* the magnitude as the decoder reads it from the first byte *)
Lemma header_magnitude x h mi s w sub mag bit :
  mag < 2 ^ 2 -> bit < 2 ^ 1 ->
  low_bits 2 (N.shiftr (clockP x h mi s w sub mag bit mod 2 ^ 8) 1) = mag.
Proof.
  intros Hmag Hbit. unfold clockP.
  rewrite peel_high by (first [lia | assumption]).
  apply peel_low; [lia | assumption].
Qed.

Lemma le_encode_cons (n : nat) x tail : (1 <= n)%nat -> exists tl, le_encode n x ++ tail = (x mod 256) :: tl.
Proof. destruct n as [|k]; [lia|]. intros _. eexists. reflexivity. Qed.

(* the per-magnitude layout of a time: 8*bytes = 20 + 10*magnitude + reserved bits, all ones *)
Lemma time_layout mag :
  mag < 4 ->
  20 + 10 * mag <= 8 * N.of_nat (base_bytes_time mag) /\
  ones64 mod 2 ^ (8 * N.of_nat (base_bytes_time mag) - 20 - 10 * mag) = reserved_time mag /\
  (1 <= base_bytes_time mag <= 8)%nat.
Proof.
  intro H. assert (C : mag = 0 \/ mag = 1 \/ mag = 2 \/ mag = 3) by lia.
  destruct C as [-> | [-> | [-> | ->]]]; vm_compute; repeat split; try discriminate; lia.
Qed.

Lemma ones64_mod : ones64 = ones64 mod 2 ^ 64.
Proof. reflexivity. Qed.

(* DecodeTimeWithBuffer on what encodeTime wrote, up to the time zone *)
Lemma ct_decode_time_fields h mi s ns (utc : bool) tail :
  h < 2 ^ 5 -> mi < 2 ^ 6 -> s < 2 ^ 6 -> ns <= 999999999 ->
  ct_decode_time (encode_time_fields h mi s ns utc ++ tail) =
  if utc then Some (new_time h mi s ns tz_utc, tail)
  else match ct_decode_zone tail with
       | None => None
       | Some (z, rest) => Some (new_time h mi s ns z, rest)
       end.
Proof.
  intros Hh Hm Hs Hns.
  destruct (subsecond_fits ns Hns) as [Hsub Hback].
  pose proof (magnitude_lt4 ns) as M.
  destruct (time_layout _ M) as (HK & Hres & Hn1 & Hn8).
  unfold encode_time_fields.
  rewrite ones64_mod, pack_clock_closed by assumption.
  set (mag := magnitude ns) in *. set (sub := ns / sub_mult mag) in *.
  set (bit := if utc then 0 else 1).
  assert (Hbit : bit < 2 ^ 1) by (unfold bit; destruct utc; reflexivity).
  assert (Hmag : mag < 2 ^ 2) by exact M.
  set (P := clockP ones64 h mi s (10 * mag) sub mag bit).
  destruct (le_encode_cons (base_bytes_time mag) (P mod 2 ^ 64) tail Hn1) as [tl E].
  unfold ct_decode_time. rewrite E. cbv iota beta. rewrite <- E.
  change 256 with (2 ^ 8). rewrite mod_pow2_mod by lia.
  assert (HM : low_bits 2 (N.shiftr (P mod 2 ^ 8) 1) = mag) by (unfold P; apply header_magnitude; assumption).
  rewrite !HM.
  rewrite take_le_encode.
  rewrite le_roundtrip_mod64 by exact Hn8.
  unfold P. rewrite unpack_clock_closed by assumption.
  rewrite Hres, N.eqb_refl. cbn [negb].
  fold sub. rewrite Hback.
  unfold bit. destruct utc; reflexivity.
Qed.

(* the year: low bits from the register, the rest from the ULEB128 field *)
Lemma decode_year_tail_encoded lb ey rest :
  ey < 4294967296 -> lb <= 7 ->
  decode_year_tail lb (ey mod 2 ^ lb) (uleb_encode (N.shiftr ey lb) ++ rest) = Some (decode_year ey, rest).
Proof.
  intros He Hlb. unfold decode_year_tail. rewrite shiftr_div.
  set (v := ey / 2 ^ lb).
  assert (Hv : v <= ey) by (unfold v; apply N.div_le_upper_bound; [apply pow2_nz|]; pose proof (pow2_pos lb); nia).
  assert (Hv64 : v < Uleb.two64) by (unfold Uleb.two64; lia).
  rewrite uleb_decode_u64_encode by exact Hv64.
  rewrite uleb_span_encode, uleb_encode_length.
  assert (Hlen : (uleb_len v <= 5)%nat).
  { apply uleb_len_le; [lia|]. change (128 ^ N.of_nat 5) with 34359738368. lia. }
  assert (Ejoin : v * 2 ^ lb + ey mod 2 ^ lb = ey).
  { unfold v. pose proof (N.div_mod ey (2 ^ lb) (pow2_nz lb)). lia. }
  assert (Esh : u64 (N.shiftl v lb) = N.shiftl v lb).
  { unfold u64. apply N.mod_small. rewrite N.shiftl_mul_pow2.
    pose proof (N.mod_lt ey (2 ^ lb) (pow2_nz lb)). lia. }
  rewrite Esh, lor_shiftl_add by (apply N.mod_lt, pow2_nz).
  rewrite Ejoin.
  assert (Eu : u64 ey = ey) by (unfold u64; apply N.mod_small; lia).
  rewrite !Eu.
  replace (4294967295 <? ey) with false by lia.
  replace (64 <? N.of_nat (uleb_len v) * 7 + lb) with false by lia.
  reflexivity.
Qed.

(* DecodeDateWithBuffer on what encodeDate wrote *)
Lemma ct_decode_date_encoded year mo d rest :
  year_ok year = true -> 1 <= mo -> mo < 2 ^ 4 -> d < 2 ^ 5 ->
  ct_decode_date (encode_date year mo d ++ rest) = Some (new_date year mo d, rest).
Proof.
  intros Hy Hmo1 Hmo Hd. unfold encode_date. cbv zeta.
  pose proof (encoded_year_bound year Hy) as Hey.
  set (ey := encoded_year year) in *.
  assert (Hlow : u16 (N.land ey 127) = ey mod 2 ^ 7).
  { change 127 with (N.ones 7). rewrite N.land_ones. unfold u16. apply N.mod_small.
    pose proof (N.mod_lt ey (2 ^ 7) (pow2_nz 7)). change (2 ^ 7) with 128 in *. lia. }
  pose proof (N.mod_lt ey (2 ^ 7) (pow2_nz 7)) as Hl7.
  assert (P1 : pack16 (u16 (N.land ey 127)) 4 (u16 mo) = (ey mod 2 ^ 7) * 2 ^ 4 + mo).
  { unfold pack16. rewrite Hlow. unfold u16 at 2. rewrite (N.mod_small mo) by (change (2 ^ 4) with 16 in Hmo; lia).
    rewrite lor_shiftl_add by exact Hmo. unfold u16. apply N.mod_small.
    change (2 ^ 7) with 128 in *. change (2 ^ 4) with 16 in *. lia. }
  rewrite P1.
  assert (P2 : pack16 ((ey mod 2 ^ 7) * 2 ^ 4 + mo) 5 (u16 d) = ((ey mod 2 ^ 7) * 2 ^ 4 + mo) * 2 ^ 5 + d).
  { unfold pack16. unfold u16 at 2. rewrite (N.mod_small d) by (change (2 ^ 5) with 32 in Hd; lia).
    rewrite lor_shiftl_add by exact Hd. unfold u16. apply N.mod_small.
    change (2 ^ 7) with 128 in *. change (2 ^ 4) with 16 in *. change (2 ^ 5) with 32 in *. lia. }
  rewrite P2.
  set (X := (ey mod 2 ^ 7 * 2 ^ 4 + mo) * 2 ^ 5 + d).
  assert (HX : X < 2 ^ 16).
  { unfold X. change (2 ^ 7) with 128 in *. change (2 ^ 4) with 16 in *. change (2 ^ 5) with 32 in *.
    change (2 ^ 16) with 65536. lia. }
  unfold ct_decode_date. rewrite <- app_assoc, take_le_encode.
  rewrite le_decode_encode_small by (change (256 ^ N.of_nat 2) with (2 ^ 16); exact HX).
  cbv zeta.
  rewrite <- (N.mod_small X (2 ^ 16)) by exact HX. unfold X.
  rewrite peel_low by (first [lia | assumption]).
  rewrite peel_high by (first [lia | assumption]).
  rewrite peel_low by (first [lia | assumption]).
  rewrite peel_high by (first [lia | assumption]).
  change (2 ^ (16 - 5 - 4)) with (2 ^ 7).
  rewrite N.mod_mod by apply pow2_nz.
  rewrite decode_year_tail_encoded by (first [exact Hey | lia]).
  unfold ey. rewrite decode_encoded_year by exact Hy.
  replace (mo =? 0) with false by lia. rewrite andb_false_r. cbn [andb].
  reflexivity.
Qed.

(* the per-magnitude layout of a timestamp: 8*bytes = 20 + 10*magnitude + 9 + low year bits *)
Lemma ts_layout mag :
  mag < 4 ->
  8 * N.of_nat (base_bytes_ts mag) - 20 - 10 * mag = 9 + year_low_bits_ts mag /\
  20 + 10 * mag <= 8 * N.of_nat (base_bytes_ts mag) /\
  year_low_bits_ts mag <= 7 /\
  (1 <= base_bytes_ts mag <= 8)%nat.
Proof.
  intro H. assert (C : mag = 0 \/ mag = 1 \/ mag = 2 \/ mag = 3) by lia.
  destruct C as [-> | [-> | [-> | ->]]]; vm_compute; repeat split; try discriminate; lia.
Qed.

(* DecodeTimestampWithBuffer on what encodeTimestamp wrote, up to the time zone *)
Lemma ct_decode_timestamp_fields year mo d h mi s ns (utc : bool) tail :
  year_ok year = true -> 1 <= mo -> mo < 2 ^ 4 -> d < 2 ^ 5 ->
  h < 2 ^ 5 -> mi < 2 ^ 6 -> s < 2 ^ 6 -> ns <= 999999999 ->
  ct_decode_timestamp (encode_timestamp_fields year mo d h mi s ns utc ++ tail) =
  if utc then Some (new_timestamp year mo d h mi s ns tz_utc, tail)
  else match ct_decode_zone tail with
       | None => None
       | Some (z, rest) => Some (new_timestamp year mo d h mi s ns z, rest)
       end.
Proof.
  intros Hy Hmo1 Hmo Hd Hh Hm Hs Hns.
  destruct (subsecond_fits ns Hns) as [Hsub Hback].
  pose proof (magnitude_lt4 ns) as M.
  destruct (ts_layout _ M) as (Hrem & HK & Hlb & Hn1 & Hn8).
  pose proof (encoded_year_bound year Hy) as Hey.
  unfold encode_timestamp_fields. cbv zeta.
  set (ey := encoded_year year) in *.
  rewrite (pack64_raw ey 4 mo) by exact Hmo.
  rewrite pack64_mod by exact Hd.
  rewrite pack_clock_closed by assumption.
  set (mag := magnitude ns) in *. set (sub := ns / sub_mult mag) in *.
  set (bit := if utc then 0 else 1).
  assert (Hbit : bit < 2 ^ 1) by (unfold bit; destruct utc; reflexivity).
  assert (Hmag : mag < 2 ^ 2) by exact M.
  set (x := (ey * 2 ^ 4 + mo) * 2 ^ 5 + d).
  set (P := clockP x h mi s (10 * mag) sub mag bit).
  rewrite <- app_assoc.
  destruct (le_encode_cons (base_bytes_ts mag) (P mod 2 ^ 64)
              (uleb_encode (N.shiftr ey (year_low_bits_ts mag)) ++ tail) Hn1) as [tl E].
  unfold ct_decode_timestamp. rewrite E. cbv iota beta. rewrite <- E.
  change 256 with (2 ^ 8). rewrite mod_pow2_mod by lia.
  assert (HM : low_bits 2 (N.shiftr (P mod 2 ^ 8) 1) = mag) by (unfold P; apply header_magnitude; assumption).
  rewrite !HM.
  rewrite take_le_encode.
  rewrite le_roundtrip_mod64 by exact Hn8.
  unfold P. rewrite unpack_clock_closed by assumption.
  rewrite Hrem. unfold x.
  rewrite peel_low by (first [lia | assumption]).
  rewrite peel_high by (first [lia | assumption]).
  rewrite peel_low by (first [lia | assumption]).
  rewrite peel_high by (first [lia | assumption]).
  replace (9 + year_low_bits_ts mag - 5 - 4) with (year_low_bits_ts mag) by lia.
  rewrite decode_year_tail_encoded by assumption.
  unfold ey. rewrite decode_encoded_year by exact Hy.
  fold sub. rewrite Hback.
  replace (mo =? 0) with false by lia. rewrite andb_false_r. cbn [andb].
  unfold bit. destruct utc; reflexivity.
Qed.

(* ------------------------------------------------------------------ *)
(** * 4. Time zones *)

Lemma tzkind_eqb_eq a b : tzkind_eqb a b = true -> a = b.
Proof. destruct a, b; cbn; intro H; try reflexivity; discriminate. Qed.

Lemma gzone_eqb_eq a b : gzone_eqb a b = true -> a = b.
Proof.
  destruct a as [k1 s1 l1 la1 lo1 m1], b as [k2 s2 l2 la2 lo2 m2]. unfold gzone_eqb. cbn [z_kind z_short z_long z_lat z_lon z_min].
  intro H.
  apply andb_true_iff in H as [H Hm]. apply andb_true_iff in H as [H Hlo]. apply andb_true_iff in H as [H Hla].
  apply andb_true_iff in H as [H Hl]. apply andb_true_iff in H as [Hk Hs].
  apply tzkind_eqb_eq in Hk. apply bytes_eqb_eq in Hs. apply bytes_eqb_eq in Hl.
  apply Z.eqb_eq in Hla. apply Z.eqb_eq in Hlo. apply Z.eqb_eq in Hm. congruence.
Qed.

Lemma gzone_eqb_refl a : gzone_eqb a a = true.
Proof.
  destruct a as [k s l la lo m]. unfold gzone_eqb. cbn [z_kind z_short z_long z_lat z_lon z_min].
  rewrite !Z.eqb_refl. rewrite !(proj2 (bytes_eqb_eq _ _) eq_refl). destruct k; reflexivity.
Qed.

(* area / location strings: length byte, then the string *)
Lemma decode_zone_area short rest :
  (1 <= length short <= 127)%nat ->
  ct_decode_zone (encode_zone_area short ++ rest) =
  if bytes_eqb short [76] then Some (tz_local, rest)
  else if bytes_eqb short [90] then Some (tz_utc, rest)
  else Some (tz_at_area short, rest).
Proof.
  intro HL. unfold encode_zone_area, ct_decode_zone. cbn [app].
  set (n := N.of_nat (length short)).
  assert (Hn : 1 <= n <= 127) by (unfold n; lia).
  assert (Ehd : u8 (N.shiftl n 1) = n * 2).
  { unfold u8. rewrite N.shiftl_mul_pow2. change (2 ^ 1) with 2. apply N.mod_small. lia. }
  rewrite Ehd.
  replace (N.odd (n * 2)) with false by (rewrite N.odd_mul; cbn; rewrite andb_false_r; reflexivity).
  rewrite shiftr_div. change (2 ^ 1) with 2. rewrite N.div_mul by discriminate.
  replace (n =? 0) with false by lia.
  unfold n. rewrite Nat2N.id, take_app. reflexivity.
Qed.

(* latitude / longitude *)
Lemma decode_zone_latlong lat lon rest :
  (-16384 <= lat < 16384)%Z -> (-32768 <= lon < 32768)%Z ->
  ct_decode_zone (encode_zone_latlong lat lon ++ rest) = Some (tz_at_latlong lat lon, rest).
Proof.
  intros Hlat Hlon. unfold encode_zone_latlong.
  set (LO := twos 16 lon). set (LA := twos 15 lat).
  assert (HLO : LO = Z.to_N (lon mod 65536)) by reflexivity.
  assert (HLA : LA = Z.to_N (lat mod 32768)) by reflexivity.
  assert (BLO : LO < 65536) by lia. assert (BLA : LA < 32768) by lia.
  rewrite <- N.lor_assoc.
  rewrite (lor_shiftl_add LA 1 1) by reflexivity.
  rewrite (lor_shiftl_add LO 16) by (change (2 ^ 1) with 2; change (2 ^ 16) with 65536; lia).
  change (2 ^ 1) with 2. change (2 ^ 16) with 65536.
  set (v := LO * 65536 + (LA * 2 + 1)).
  assert (Hv : v < 4294967296) by (unfold v; lia).
  assert (Eu : u32 v = v) by (unfold u32; apply N.mod_small; exact Hv).
  rewrite Eu.
  destruct (le_encode_cons 4 v rest ltac:(lia)) as [tl E].
  unfold ct_decode_zone. rewrite E. cbv iota beta. rewrite <- E.
  replace (N.odd (v mod 256)) with true.
  2:{ rewrite odd_low, low_bits_mod. change 256 with (2 ^ 8). rewrite mod_pow2_mod by lia.
      change (2 ^ 1) with 2. unfold v. symmetry. apply N.eqb_eq. lia. }
  rewrite take_le_encode.
  rewrite le_decode_encode_small by (change (256 ^ N.of_nat 4) with 4294967296; exact Hv).
  cbv zeta. rewrite N.shiftl_mul_pow2. change (2 ^ 16) with 65536.
  f_equal. f_equal. unfold tz_at_latlong. f_equal.
  - f_equal. unfold i32, u32, v. lia.
  - f_equal. unfold i32, v. lia.
Qed.

(* UTC offsets: every value the format allows, by computation (2879 values) *)
Definition offset_minutes (raw : N) : Z :=
  if negb (N.land raw 2048 =? 0) then i16 (Z.of_N (N.lor raw 61440)) else i16 (Z.of_N (N.land raw 4095)).
Definition offset_check (m : Z) : bool :=
  match encode_zone_offset m with
  | [x; a; b] => (x =? 0) && (offset_minutes (le_decode [a; b]) =? m)%Z
  | _ => false
  end.
Definition offset_range : list Z := map (fun n => (Z.of_N n - 1439)%Z) (nseq 0 2879).

Lemma offset_sweep : forallb offset_check offset_range = true.
Proof. vm_compute. reflexivity. Qed.

Lemma decode_zone_offset m rest :
  (-1439 <= m <= 1439)%Z ->
  ct_decode_zone (encode_zone_offset m ++ rest) = Some (tz_with_minutes m, rest).
Proof.
  intro H.
  assert (I : In m offset_range).
  { unfold offset_range. apply in_map_iff. exists (Z.to_N (m + 1439)). split; [lia|]. apply nseq_In. lia. }
  pose proof (proj1 (forallb_forall _ _) offset_sweep m I) as C. unfold offset_check in C.
  destruct (encode_zone_offset m) as [|x [|a [|b [|? ?]]]]; try discriminate.
  apply andb_true_iff in C as [Cx Cm]. apply N.eqb_eq in Cx. apply Z.eqb_eq in Cm. subst x.
  unfold ct_decode_zone. cbn [app].
  change (N.odd 0) with false. cbv iota. change (N.shiftr 0 1) with 0. change (0 =? 0) with true. cbv iota.
  change (take 2 (a :: b :: rest)) with (Some ([a; b], rest)). cbv iota beta zeta.
  fold (offset_minutes (le_decode [a; b])). rewrite Cm. reflexivity.
Qed.

Lemma zone_roundtrip z rest :
  z_kind z <> ZUTC -> z_kind z <> ZUnset -> zone_validate z = true -> zone_consistent z = true ->
  ct_decode_zone (encode_zone z ++ rest) = Some (canon_zone z, rest).
Proof.
  destruct z as [k short long lat lon m]. unfold encode_zone, canon_zone, zone_validate, zone_consistent.
  cbn [z_kind z_short z_long z_lat z_lon z_min].
  intros NU N0 V C. destruct k; try congruence.
  - (* Local *)
    apply bytes_eqb_eq in C. subst short.
    rewrite decode_zone_area by (cbn; lia). reflexivity.
  - (* area / location *)
    apply andb_true_iff in C as [C Hok]. apply andb_true_iff in C as [C Hlen].
    apply Nat.leb_le in Hlen.
    assert (Hne : (1 <= length short)%nat).
    { destruct short; [vm_compute in C; discriminate | cbn; lia]. }
    rewrite decode_zone_area by lia.
    destruct (bytes_eqb short [76]) eqn:E1.
    { apply bytes_eqb_eq in E1. subst short. vm_compute in C. discriminate. }
    destruct (bytes_eqb short [90]) eqn:E2.
    { apply bytes_eqb_eq in E2. subst short. vm_compute in C. discriminate. }
    apply gzone_eqb_eq in C. rewrite C. reflexivity.
  - (* latitude / longitude *)
    rewrite decode_zone_latlong by lia.
    unfold tz_at_latlong. rewrite !i16_small by lia. reflexivity.
  - (* UTC offset *)
    rewrite decode_zone_offset by lia.
    unfold tz_with_minutes. rewrite !i16_small by lia. reflexivity.
Qed.

(* ------------------------------------------------------------------ *)
(** * 5. The round trip *)

Lemma kind_of_time_code k : kind_of_code (time_code k) = Some k.
Proof. destruct k; vm_compute; reflexivity. Qed.

Lemma u8_small n : n < 256 -> u8 n = n.
Proof. intro H. unfold u8. apply N.mod_small. exact H. Qed.
Lemma u32_small n : n < 4294967296 -> u32 n = n.
Proof. intro H. unfold u32. apply N.mod_small. exact H. Qed.

Lemma day_max_le m : day_max m <= 31.
Proof. unfold day_max. destruct (m =? 2); [lia|]. destruct ((m =? 4) || (m =? 6) || (m =? 9) || (m =? 11)); lia. Qed.

Lemma canon_zone_kind_unset z : z_kind z <> ZUnset -> z_kind (canon_zone z) <> ZUnset.
Proof.
  destruct z as [k s l la lo m]. unfold canon_zone. cbn [z_kind z_min]. intro H.
  destruct k; cbn; try congruence. destruct (m =? 0)%Z; cbn; congruence.
Qed.

(* the canonical value is again accepted by validateTime *)
Lemma canon_zone_validate z :
  zone_validate z = true -> zone_validate (canon_zone z) = true.
Proof.
  destruct z as [k s l la lo m]. unfold canon_zone, zone_validate. cbn [z_kind z_long z_lat z_lon z_min].
  destruct k; intro H; try reflexivity; try exact H.
  destruct (m =? 0)%Z; [reflexivity | exact H].
Qed.

Lemma canon_zone_area z :
  match z_kind (canon_zone z) with ZArea => area_chars_ok (z_long (canon_zone z)) | _ => true end
  = match z_kind z with ZArea => area_chars_ok (z_long z) | _ => true end.
Proof.
  destruct z as [k s l la lo m]. unfold canon_zone. cbn [z_kind z_long z_min].
  destruct k; try reflexivity. destruct (m =? 0)%Z; reflexivity.
Qed.

Lemma is_zero_false t : is_zero t = false <-> z_kind (g_zone t) <> ZUnset.
Proof. unfold is_zero. destruct (z_kind (g_zone t)); cbn; split; congruence. Qed.

Lemma canon_validate t : time_ok t = true -> cbe_validate_time (canon t) = true.
Proof.
  unfold time_ok, cbe_validate_time. intro H.
  apply andb_true_iff in H as [H _]. apply andb_true_iff in H as [Hz V].
  apply negb_true_iff in Hz. rewrite Hz in V.
  destruct t as [k y mo d h mi s ns z]. unfold canon, is_zero, ct_validate in *. cbn [g_kind g_zone] in *.
  destruct k; cbn [g_kind g_zone z_kind date_zone tzkind_eqb].
  - unfold date_validate in *. cbn [g_year g_month g_day g_zone z_kind date_zone] in *.
    apply andb_true_iff in V as [V _]. rewrite V. reflexivity.
  - assert (NZ : z_kind z <> ZUnset) by (destruct (z_kind z); cbn in Hz; congruence).
    pose proof (canon_zone_kind_unset z NZ) as NZ'.
    replace (tzkind_eqb (z_kind (canon_zone z)) ZUnset) with false by (destruct (z_kind (canon_zone z)); cbn; congruence).
    rewrite canon_zone_area.
    apply andb_true_iff in V as [V A]. rewrite A, andb_true_r.
    unfold clock_validate in *. cbn [g_hour g_minute g_second g_nano g_zone] in *.
    apply andb_true_iff in V as [V Vz]. rewrite V. apply canon_zone_validate. exact Vz.
  - assert (NZ : z_kind z <> ZUnset) by (destruct (z_kind z); cbn in Hz; congruence).
    pose proof (canon_zone_kind_unset z NZ) as NZ'.
    replace (tzkind_eqb (z_kind (canon_zone z)) ZUnset) with false by (destruct (z_kind (canon_zone z)); cbn; congruence).
    rewrite canon_zone_area.
    apply andb_true_iff in V as [V A]. rewrite A, andb_true_r.
    apply andb_true_iff in V as [Vd Vc].
    unfold date_validate, clock_validate in *. cbn [g_year g_month g_day g_hour g_minute g_second g_nano g_zone] in *.
    rewrite Vd. apply andb_true_iff in Vc as [Vc Vz]. rewrite Vc. apply canon_zone_validate. exact Vz.
Qed.

(* the library decoder on what the library encoder wrote *)
Lemma ct_roundtrip t rest :
  time_ok t = true -> ct_decode (g_kind t) (ct_encode t ++ rest) = Some (canon t, rest).
Proof.
  unfold time_ok, cbe_validate_time. intro H.
  apply andb_true_iff in H as [H K]. apply andb_true_iff in H as [Hz V].
  apply negb_true_iff in Hz. rewrite Hz in V. apply andb_true_iff in V as [V A].
  destruct t as [k y mo d h mi s ns z]. unfold ct_encode, ct_decode, canon, is_zero, ct_validate in *.
  cbn [g_kind g_year g_month g_day g_hour g_minute g_second g_nano g_zone] in *.
  assert (NZ : z_kind z <> ZUnset) by (destruct (z_kind z); cbn in Hz; congruence).
  destruct k.
  - (* date *)
    unfold date_validate in V. cbn [g_year g_month g_day] in V.
    pose proof (day_max_le mo).
    rewrite ct_decode_date_encoded by (first [exact K | change (2 ^ 4) with 16; lia | change (2 ^ 5) with 32; lia | lia]).
    unfold new_date. rewrite !u8_small by lia. reflexivity.
  - (* time *)
    unfold clock_validate in V. cbn [g_hour g_minute g_second g_nano g_zone] in V.
    apply andb_true_iff in V as [V Vz].
    rewrite <- app_assoc.
    rewrite ct_decode_time_fields
      by (first [change (2 ^ 5) with 32; lia | change (2 ^ 6) with 64; lia | lia]).
    unfold new_time. rewrite !u8_small, u32_small by lia.
    destruct (tzkind_eqb (z_kind z) ZUTC) eqn:EU.
    + apply tzkind_eqb_eq in EU. unfold canon_zone. rewrite EU. reflexivity.
    + assert (NU : z_kind z <> ZUTC) by (intro E; rewrite E in EU; discriminate).
      rewrite zone_roundtrip by assumption. reflexivity.
  - (* timestamp *)
    apply andb_true_iff in V as [Vd Vc]. apply andb_true_iff in K as [Ky Kz].
    unfold date_validate, clock_validate in *.
    cbn [g_year g_month g_day g_hour g_minute g_second g_nano g_zone] in *.
    apply andb_true_iff in Vc as [Vc Vz].
    pose proof (day_max_le mo).
    rewrite <- app_assoc.
    rewrite ct_decode_timestamp_fields
      by (first [exact Ky | change (2 ^ 4) with 16; lia | change (2 ^ 5) with 32; lia | change (2 ^ 6) with 64; lia | lia]).
    unfold new_timestamp. rewrite !u8_small, u32_small by lia.
    destruct (tzkind_eqb (z_kind z) ZUTC) eqn:EU.
    + apply tzkind_eqb_eq in EU. unfold canon_zone. rewrite EU. reflexivity.
    + assert (NU : z_kind z <> ZUTC) by (intro E; rewrite E in EU; discriminate).
      rewrite zone_roundtrip by assumption. reflexivity.
Qed.

(* C01 for times: what the CBE decoder makes of what the CBE encoder wrote for a time *)
Theorem cbe_time_roundtrip t rest :
  time_ok t = true -> cbe_decode_time (cbe_encode_time t ++ rest) = Some (canon t, rest).
Proof.
  intro H. pose proof (canon_validate t H) as V. pose proof (ct_roundtrip t rest H) as R.
  unfold time_ok in H. apply andb_true_iff in H as [H _]. apply andb_true_iff in H as [Hz _].
  apply negb_true_iff in Hz.
  unfold cbe_encode_time. rewrite Hz. cbn [app]. unfold cbe_decode_time.
  rewrite kind_of_time_code. unfold cbe_read_time. rewrite R, V. reflexivity.
Qed.

(* ------------------------------------------------------------------ *)
(** * 6. Consumed length, prefix-freedom *)

(* the decoder takes exactly the bytes the encoder wrote *)
Corollary cbe_time_consumed t rest :
  time_ok t = true ->
  decode_obs (cbe_encode_time t ++ rest) = Some (canon t, N.of_nat (length (cbe_encode_time t))).
Proof.
  intro H. unfold decode_obs. rewrite cbe_time_roundtrip by exact H.
  rewrite app_length. f_equal. f_equal. lia.
Qed.

(* two encodings that start the same input are encodings of the same value, and end at the same place *)
Corollary cbe_time_prefix_free t1 t2 r1 r2 :
  time_ok t1 = true -> time_ok t2 = true ->
  cbe_encode_time t1 ++ r1 = cbe_encode_time t2 ++ r2 ->
  canon t1 = canon t2 /\ r1 = r2 /\ cbe_encode_time t1 = cbe_encode_time t2.
Proof.
  intros H1 H2 E.
  pose proof (cbe_time_roundtrip t1 r1 H1) as D1. rewrite E, cbe_time_roundtrip in D1 by exact H2.
  injection D1 as Ec Er. subst r2. split; [symmetry; exact Ec|]. split; [reflexivity|].
  apply app_inv_tail in E. exact E.
Qed.

(* no encoding is a proper prefix of another *)
Corollary cbe_time_no_proper_prefix t1 t2 x :
  time_ok t1 = true -> time_ok t2 = true ->
  cbe_encode_time t2 = cbe_encode_time t1 ++ x -> x = [].
Proof.
  intros H1 H2 E.
  destruct (cbe_time_prefix_free t1 t2 x [] H1 H2) as (_ & Hx & _); [|exact Hx].
  rewrite app_nil_r. symmetry. exact E.
Qed.

(* for ANY input: what the decoder leaves is a suffix of the input *)
Lemma take_split n b a r : take n b = Some (a, r) -> b = a ++ r.
Proof.
  unfold take. destruct (n <=? length b)%nat; [|discriminate]. intro H. inversion H. symmetry. apply firstn_skipn.
Qed.

Lemma uleb_decode_u64_suffix b v r : uleb_decode_u64 b = Some (v, r) -> exists pre, b = pre ++ r.
Proof.
  intro H. apply uleb_decode_u64_sound in H as [H _]. apply uleb_decode_span in H as [H _].
  eexists. exact H.
Qed.

Lemma decode_year_tail_suffix lb acc b y r : decode_year_tail lb acc b = Some (y, r) -> exists pre, b = pre ++ r.
Proof.
  unfold decode_year_tail. destruct (uleb_decode_u64 b) as [[v r']|] eqn:E; [|discriminate].
  match goal with |- context [if ?c then _ else _] => destruct c end; [discriminate|].
  intro H. inversion H. subst. eapply uleb_decode_u64_suffix. exact E.
Qed.

Lemma ct_decode_zone_suffix b z r : ct_decode_zone b = Some (z, r) -> exists pre, b = pre ++ r.
Proof.
  unfold ct_decode_zone. destruct b as [|hd tl]; [discriminate|].
  destruct (N.odd hd).
  - destruct (take 4 (hd :: tl)) as [[f r']|] eqn:E; [|discriminate].
    intro H. inversion H. subst. apply take_split in E. eexists. exact E.
  - destruct (N.shiftr hd 1 =? 0).
    + destruct (take 2 tl) as [[f r']|] eqn:E; [|discriminate].
      intro H. inversion H. subst. apply take_split in E. exists (hd :: f). rewrite E. reflexivity.
    + destruct (take (N.to_nat (N.shiftr hd 1)) tl) as [[f r']|] eqn:E; [|discriminate].
      apply take_split in E.
      destruct (bytes_eqb f [76]); [|destruct (bytes_eqb f [90])];
        intro H; inversion H; subst; exists (hd :: f); reflexivity.
Qed.

Lemma app_suffix_trans (b p1 m p2 r : bytes) : b = p1 ++ m -> m = p2 ++ r -> b = (p1 ++ p2) ++ r.
Proof. intros -> ->. apply app_assoc. Qed.

Lemma ct_decode_suffix k b t r : ct_decode k b = Some (t, r) -> exists pre, b = pre ++ r.
Proof.
  destruct k; unfold ct_decode.
  - unfold ct_decode_date. destruct (take 2 b) as [[f r1]|] eqn:E1; [|discriminate]. cbv zeta.
    match goal with |- context [decode_year_tail ?a ?c r1] => destruct (decode_year_tail a c r1) as [[y r2]|] eqn:E2 end; [|discriminate].
    apply take_split in E1. apply decode_year_tail_suffix in E2 as [p2 E2].
    match goal with |- context [if ?c then _ else _] => destruct c end;
      intro H; inversion H; subst r2; eexists; eapply app_suffix_trans; eassumption.
  - unfold ct_decode_time. destruct b as [|hd tl]; [discriminate|]. cbv zeta.
    match goal with |- context [take ?n (hd :: tl)] => destruct (take n (hd :: tl)) as [[f r1]|] eqn:E1 end; [|discriminate].
    apply take_split in E1.
    match goal with |- context [unpack_clock ?m ?x] => destruct (unpack_clock m x) as [[[[[tz ns] sec] mi] h] acc] end.
    match goal with |- context [if negb (?a =? ?b) then _ else _] => destruct (negb (a =? b)) end.
    + match goal with |- context [if ?c then _ else _] => destruct c end; [|discriminate].
      intro H. inversion H. subst. eexists. exact E1.
    + destruct (negb tz).
      * intro H. inversion H. subst. eexists. exact E1.
      * destruct (ct_decode_zone r1) as [[z r2]|] eqn:E2; [|discriminate].
        apply ct_decode_zone_suffix in E2 as [p2 E2].
        intro H. inversion H. subst r2. eexists. eapply app_suffix_trans; eassumption.
  - unfold ct_decode_timestamp. destruct b as [|hd tl]; [discriminate|]. cbv zeta.
    match goal with |- context [take ?n (hd :: tl)] => destruct (take n (hd :: tl)) as [[f r1]|] eqn:E1 end; [|discriminate].
    apply take_split in E1.
    match goal with |- context [unpack_clock ?m ?x] => destruct (unpack_clock m x) as [[[[[tz ns] sec] mi] h] acc] end.
    match goal with |- context [decode_year_tail ?a ?c r1] => destruct (decode_year_tail a c r1) as [[y r2]|] eqn:E2 end; [|discriminate].
    apply decode_year_tail_suffix in E2 as [p2 E2].
    destruct (negb tz).
    + match goal with |- context [if ?c then _ else _] => destruct c end;
        intro H; inversion H; subst r2; eexists; eapply app_suffix_trans; eassumption.
    + destruct (ct_decode_zone r2) as [[z r3]|] eqn:E3; [|discriminate].
      apply ct_decode_zone_suffix in E3 as [p3 E3].
      intro H. inversion H. subst r3.
      exists ((f ++ p2) ++ p3). rewrite E1, E2, E3. rewrite <- !app_assoc. reflexivity.
Qed.

Theorem cbe_decode_time_suffix b t r : cbe_decode_time b = Some (t, r) -> exists pre, b = pre ++ r.
Proof.
  unfold cbe_decode_time. destruct b as [|c tl]; [discriminate|].
  destruct (kind_of_code c) as [k|]; [|discriminate]. unfold cbe_read_time.
  destruct (ct_decode k tl) as [[t' r']|] eqn:E; [|discriminate].
  destruct (cbe_validate_time t'); [|discriminate].
  intro H. inversion H. subst. apply ct_decode_suffix in E as [p E]. exists (c :: p). rewrite E. reflexivity.
Qed.

(* ------------------------------------------------------------------ *)
(** * 7. Non-canonical encodings: the converse of the round trip is false *)

Import String.StringSyntax.
Local Notation "'str' s" := (s2b s%string) (at level 9, only parsing).

(* "whatever the decoder accepts is what the encoder writes for the decoded value" *)
Definition cbe_time_canonical_full : Prop :=
  forall b t rest, cbe_decode_time b = Some (t, rest) -> is_zero t = false ->
  exists pre, b = pre ++ rest /\ cbe_encode_time t = pre.

(* accepted bytes [b], decoded completely to a non-zero [t], that the encoder writes differently *)
Definition noncanonical (b : bytes) (t : gtime) : Prop :=
  cbe_decode_time b = Some (t, []) /\ is_zero t = false /\ cbe_encode_time t <> b /\
  cbe_decode_time (cbe_encode_time t) = Some (canon t, []).

Ltac noncanon := unfold noncanonical; vm_compute; repeat split; discriminate.

(* the upper year bits padded with an empty ULEB128 group (up to 8 groups are accepted) *)
Example noncanonical_year_padding : noncanonical [122; 33; 0; 128; 0] (new_date 2000 1 1).
Proof. noncanon. Qed.
(* a larger sub-second magnitude than the value needs: 1000 ns written as nanoseconds *)
Example noncanonical_magnitude : noncanonical [123; 70; 31; 0; 0; 0; 0; 252] (new_time 0 0 0 1000 tz_utc).
Proof. noncanon. Qed.
(* magnitude 3 with no sub-seconds at all *)
Example noncanonical_magnitude_zero : noncanonical [123; 6; 0; 0; 0; 0; 0; 252] (new_time 0 0 0 0 tz_utc).
Proof. noncanon. Qed.
(* UTC spelled as the area string "Z", as a UTC offset of 0, as an alias the library keeps by name *)
Example noncanonical_zone_Z : noncanonical [123; 1; 0; 240; 2; 90] (new_time 0 0 0 0 tz_utc).
Proof. noncanon. Qed.
Example noncanonical_offset_zero : noncanonical [123; 1; 0; 240; 0; 0; 0] (new_time 0 0 0 0 tz_utc).
Proof. noncanon. Qed.
Example noncanonical_utc_alias :
  noncanonical (123 :: 1 :: 0 :: 240 :: 14 :: str "Etc/GMT") (new_time 0 0 0 0 (tz_at_area (str "Etc/GMT"))).
Proof. noncanon. Qed.
(* the four bits above a UTC offset are ignored *)
Example noncanonical_offset_high_bits : noncanonical [123; 1; 0; 240; 0; 1; 16] (new_time 0 0 0 0 (tz_with_minutes 1)).
Proof. noncanon. Qed.
(* an area name written in full; "Local" written in full *)
Example noncanonical_long_area_name :
  noncanonical (123 :: 1 :: 0 :: 240 :: 24 :: str "Africa/Cairo") (new_time 0 0 0 0 (tz_at_area (str "Africa/Cairo"))).
Proof. noncanon. Qed.
Example noncanonical_local_name :
  noncanonical (123 :: 1 :: 0 :: 240 :: 10 :: str "Local") (new_time 0 0 0 0 tz_local).
Proof. noncanon. Qed.

Theorem cbe_time_canonical_refuted : ~ cbe_time_canonical_full.
Proof.
  intro F. destruct noncanonical_year_padding as (D & Z & NE & _).
  destruct (F _ _ _ D Z) as (pre & E & Enc). rewrite app_nil_r in E. subst pre. exact (NE Enc).
Qed.

(* ------------------------------------------------------------------ *)
(** * 8. Outside the guards of the round trip *)

Definition with_nano (t : gtime) (ns : N) : gtime :=
  {| g_kind := g_kind t; g_year := g_year t; g_month := g_month t; g_day := g_day t; g_hour := g_hour t;
     g_minute := g_minute t; g_second := g_second t; g_nano := ns; g_zone := g_zone t |}.

(* the round trip without its guards: every value the Go struct can hold that is not the zero value *)
Definition cbe_time_roundtrip_unguarded : Prop :=
  forall t, gtime_wf t = true -> is_zero t = false ->
  cbe_decode_time (cbe_encode_time t) = Some (canon t, []) \/ cbe_decode_time (cbe_encode_time t) = None.

(* [t] is written without complaint and read back, accepted, as the different time [t'] *)
Definition silently_changed (t t' : gtime) : Prop :=
  gtime_wf t = true /\ is_zero t = false /\
  cbe_decode_time (cbe_encode_time t) = Some (t', []) /\ gtime_eqb (canon t) t' = false.

Ltac changed := unfold silently_changed; vm_compute; repeat split; reflexivity.

(* year_ok: the year leaves the 32-bit window (open finding C03/cte-cbe/time-year-beyond-32-bits) *)
Example year_above_window_refuted : silently_changed (new_date 2147485648 1 1) (new_date (-2147481648) 1 1).
Proof. changed. Qed.
Example year_below_window_refuted : silently_changed (new_date (-2147481649) 1 1) (new_date 2147485647 1 1).
Proof. changed. Qed.
Example year_minint32_refuted :
  silently_changed (new_timestamp (-2147483648) 1 1 23 59 60 7 tz_utc) (new_timestamp 2147483648 1 1 23 59 60 7 tz_utc).
Proof. changed. Qed.
(* nanoseconds of 10^9 and more: 2 * 10^9 has no digit below the millisecond, is written as 2000 ms into 10 bits *)
Example nanosecond_overflow_refuted :
  silently_changed (with_nano (new_time 1 2 3 0 tz_utc) 2000000000) (new_time 1 2 3 976000000 tz_utc).
Proof. changed. Qed.
(* ... while 10^9 itself is written and then refused by the decoder *)
Example nanosecond_1e9_rejected :
  cbe_decode_time (cbe_encode_time (with_nano (new_time 1 2 3 0 tz_utc) 1000000000)) = None.
Proof. vm_compute. reflexivity. Qed.
(* fields wider than their bit field spill into the neighbour *)
Example hour_overflow_refuted : silently_changed (new_time 37 0 0 0 tz_utc) (new_time 5 0 0 0 tz_utc).
Proof. changed. Qed.
Example minute_overflow_refuted : silently_changed (new_time 1 64 0 0 tz_utc) (new_time 1 0 0 0 tz_utc).
Proof. changed. Qed.
Example second_overflow_refuted : silently_changed (new_time 1 2 64 0 tz_utc) (new_time 1 3 0 0 tz_utc).
Proof. changed. Qed.
Example day_overflow_refuted : silently_changed (new_date 1 8 108) (new_date 1 11 12).
Proof. changed. Qed.
Example month_overflow_refuted :
  silently_changed (new_timestamp 976 151 1 13 1 25 204313576 tz_utc) (new_timestamp 976 7 1 13 1 25 204313576 tz_utc).
Proof. changed. Qed.
(* month 0, day 0 in the year 2000 is how the zero value is written *)
Example date_2000_00_00_refuted : silently_changed (new_date 2000 0 0) (zero_time KDate).
Proof. changed. Qed.
Example timestamp_2000_00_00_refuted : silently_changed (new_timestamp 2000 0 0 1 2 3 4 tz_utc) (zero_time KTimestamp).
Proof. changed. Qed.
(* zone fields beyond their widths *)
Example latitude_overflow_refuted :
  silently_changed (new_time 12 34 56 0 (tz_at_latlong 32767 1)) (new_time 12 34 56 0 (tz_at_latlong (-1) 1)).
Proof. changed. Qed.
Example offset_overflow_refuted :
  silently_changed (new_time 12 34 56 0 (tz_with_minutes 4095)) (new_time 12 34 56 0 (tz_with_minutes (-1))).
Proof. changed. Qed.
Example offset_4096_refuted : silently_changed (new_time 12 34 56 0 (tz_with_minutes 4096)) (new_time 12 34 56 0 tz_utc).
Proof. changed. Qed.

Theorem cbe_time_roundtrip_unguarded_refuted : ~ cbe_time_roundtrip_unguarded.
Proof.
  intro F. destruct hour_overflow_refuted as (W & Z & D & NE).
  destruct (F _ W Z) as [E|E]; rewrite D in E; [|discriminate].
  injection E as E. rewrite <- E in NE. vm_compute in NE. discriminate.
Qed.

(* the zero value is not written as a time at all: Encoder.OnTime writes null *)
Example zero_value_written_as_null :
  cbe_encode_time (zero_time KDate) = [cbeTypeNull] /\ cbe_encode_time (zero_time KTime) = [cbeTypeNull] /\
  cbe_encode_time (zero_time KTimestamp) = [cbeTypeNull] /\ cbe_decode_time [cbeTypeNull] = None.
Proof. vm_compute. repeat split; reflexivity. Qed.

(* ... and the decoder produces it from all-zero bytes (and lets it through validateTime) *)
Example zero_value_decoded :
  cbe_decode_time [cbeTypeDate; 0; 0; 0] = Some (zero_time KDate, []) /\
  cbe_decode_time [cbeTypeTime; 0; 0; 0] = Some (zero_time KTime, []) /\
  cbe_decode_time [cbeTypeTimestamp; 0; 0; 0; 0; 0] = Some (zero_time KTimestamp, []).
Proof. vm_compute. repeat split; reflexivity. Qed.

(* valid by Time.Validate, refused by the decoder's character class: the encoder writes what its own decoder rejects *)
Example area_characters_rejected :
  let t := new_time 1 2 3 0 (tz_at_area (str "x")) in
  ct_validate t = true /\ cbe_decode_time (cbe_encode_time t) = None.
Proof. vm_compute. split; reflexivity. Qed.

(* ------------------------------------------------------------------ *)
(** * Non-vacuity *)

Definition example_time : gtime :=
  new_timestamp 1987 6 5 23 59 60 123456789 (tz_at_area (str "America/Argentina/Buenos_Aires")).

Definition example_short : bytes := str "M/Argentina/Buenos_Aires".

Example example_time_ok :
  time_ok example_time = true /\
  g_nano example_time = 123456789 /\ z_kind (g_zone example_time) = ZArea /\
  z_short (g_zone example_time) = example_short /\
  canon example_time = example_time /\
  cbe_encode_time example_time = [124; 175; 104; 222; 58; 248; 253; 22; 203; 0; 48] ++ example_short.
Proof. vm_compute. repeat split; reflexivity. Qed.

(* ------------------------------------------------------------------ *)
(** * 9. What the decoder delivers lies in the domain of the round trip *)

Lemma split_slash_spec s a l : split_slash s = Some (a, l) -> s = a ++ 47 :: l /\ ~ In 47 a.
Proof.
  revert a l; induction s as [|c r IH]; intros a l H; cbn [split_slash] in H; [discriminate|].
  destruct (N.eqb_spec c 47) as [->|Hc].
  - inversion H; subst. split; [reflexivity | intros []].
  - destruct (split_slash r) as [[a' l']|]; [|discriminate]. inversion H; subst.
    destruct (IH a' l eq_refl) as [E N]. split; [cbn; rewrite E; reflexivity|].
    intros [F|F]; [congruence | exact (N F)].
Qed.

Lemma split_slash_app a l : ~ In 47 a -> split_slash (a ++ 47 :: l) = Some (a, l).
Proof.
  induction a as [|c r IH]; intro N; cbn [app split_slash].
  - reflexivity.
  - destruct (N.eqb_spec c 47) as [->|Hc]; [exfalso; apply N; left; reflexivity|].
    rewrite IH by (intro F; apply N; right; exact F). reflexivity.
Qed.

Lemma lookup_short_in area l sa : lookup_short area l = Some sa -> In (sa, area) l.
Proof.
  induction l as [|[s a] r IH]; cbn [lookup_short]; [discriminate|].
  destruct (bytes_eqb a area) eqn:E.
  - intro H. inversion H; subst. apply bytes_eqb_eq in E. subst. left. reflexivity.
  - intro H. right. exact (IH H).
Qed.

(* the thirteen pairs: one letter that is not a slash, expanding back to the same area, area names longer than the letter *)
Definition pair_ok (p : bytes * bytes) : bool :=
  let '(s, a) := p in
  match s with
  | [c] => negb (c =? 47) && (c <? 256) && option_eqb bytes_eqb (lookup_long [c] area_pairs) (Some a) && (2 <=? length a)%nat
  | _ => false
  end.
Lemma area_pairs_ok : forallb pair_ok area_pairs = true.
Proof. vm_compute. reflexivity. Qed.

Definition second_is_slash (n : bytes) : bool := match n with _ :: 47 :: _ => true | _ => false end.
Definition special_names : list bytes := names_utc ++ names_local ++ names_utc_preserve.
Lemma special_names_no_slash_second : forallb (fun n => negb (second_is_slash n)) special_names = true.
Proof. vm_compute. reflexivity. Qed.

Lemma mem_name_in x L : mem_name x L = true -> In x L.
Proof.
  unfold mem_name. intro H. apply existsb_exists in H as (y & I & E). apply bytes_eqb_eq in E. subst. exact I.
Qed.

Lemma not_special_second_slash x L :
  (forall n, In n L -> In n special_names) -> second_is_slash x = true -> mem_name x L = false.
Proof.
  intros Sub S. destruct (mem_name x L) eqn:E; [|reflexivity].
  apply mem_name_in in E. apply Sub in E.
  pose proof (proj1 (forallb_forall _ _) special_names_no_slash_second x E) as C.
  cbv beta in C. rewrite S in C. discriminate.
Qed.

Lemma len_ok_app a b : len_ok (a ++ b) = len_ok a && len_ok b.
Proof. unfold len_ok. apply forallb_app. Qed.

(* when the short name is the name itself, the second pass is the first one *)
Lemma tz_at_area_same s lg :
  mem_name s names_utc = false -> mem_name s names_local = false -> mem_name s names_utc_preserve = false ->
  split_area_location s = (s, lg) -> (length s <= 127)%nat -> len_ok s = true ->
  zone_consistent {| z_kind := ZArea; z_short := s; z_long := lg; z_lat := 0; z_lon := 0; z_min := 0 |} = true.
Proof.
  intros M1 M2 M3 E HL HW. unfold zone_consistent. cbn [z_kind z_short z_long].
  unfold tz_at_area. rewrite M1, M2, M3, E. rewrite gzone_eqb_refl, HW.
  replace (length s <=? 127)%nat with true by (symmetry; apply Nat.leb_le; exact HL). reflexivity.
Qed.

Lemma tz_at_area_consistent s :
  (length s <= 127)%nat -> len_ok s = true -> zone_consistent (tz_at_area s) = true.
Proof.
  intros HL HW. unfold tz_at_area.
  destruct (mem_name s names_utc) eqn:M1; [reflexivity|].
  destruct (mem_name s names_local) eqn:M2; [reflexivity|].
  destruct (mem_name s names_utc_preserve) eqn:M3; [reflexivity|].
  assert (ES : split_area_location s = split_area_location s) by reflexivity.
  unfold split_area_location at 2 in ES. unfold split_area_location.
  destruct (split_slash s) as [[area loc]|] eqn:E.
  2:{ apply tz_at_area_same; assumption. }
  destruct (length area =? 1)%nat eqn:L1.
  { apply tz_at_area_same; assumption. }
  destruct (lookup_short area area_pairs) as [sa|] eqn:EL.
  2:{ apply tz_at_area_same; assumption. }
  clear ES.
  apply split_slash_spec in E as [Es _].
  apply lookup_short_in in EL.
  pose proof (proj1 (forallb_forall _ _) area_pairs_ok _ EL) as P. cbn [pair_ok] in P.
  destruct sa as [|c [|? ?]]; try discriminate.
  apply andb_true_iff in P as [P Plen]. apply andb_true_iff in P as [P Plook]. apply andb_true_iff in P as [Pc Pw].
  apply negb_true_iff in Pc. apply Nat.leb_le in Plen.
  destruct (lookup_long [c] area_pairs) as [la|] eqn:ELL; [|discriminate]. cbn [option_eqb] in Plook.
  apply bytes_eqb_eq in Plook. subst la.
  unfold zone_consistent. cbn [z_kind z_short z_long app].
  assert (NS : forall L, (forall n, In n L -> In n special_names) -> mem_name (c :: 47 :: loc) L = false).
  { intros L Sub. apply not_special_second_slash; [exact Sub | reflexivity]. }
  unfold tz_at_area.
  rewrite (NS names_utc) by (intros n I; unfold special_names; apply in_or_app; left; exact I).
  rewrite (NS names_local) by (intros n I; unfold special_names; apply in_or_app; right; apply in_or_app; left; exact I).
  rewrite (NS names_utc_preserve) by (intros n I; unfold special_names; apply in_or_app; right; apply in_or_app; right; exact I).
  unfold split_area_location.
  change (c :: 47 :: loc) with ([c] ++ 47 :: loc).
  rewrite split_slash_app by (intros [F|[]]; apply N.eqb_neq in Pc; congruence).
  cbn [length Nat.eqb]. rewrite ELL. rewrite <- Es. rewrite gzone_eqb_refl.
  cbn [app].
  assert (Hlen : (length (c :: 47%N :: loc) <= 127)%nat).
  { rewrite Es, app_length in HL. cbn [length] in *. lia. }
  replace (length (c :: 47%N :: loc) <=? 127)%nat with true by (symmetry; apply Nat.leb_le; exact Hlen).
  rewrite Es, len_ok_app in HW. apply andb_true_iff in HW as [_ HW]. cbn [len_ok forallb] in HW |- *.
  rewrite Pw. exact HW.
Qed.

Lemma take_length n b a r : take n b = Some (a, r) -> length a = n.
Proof.
  unfold take. destruct (Nat.leb_spec n (length b)) as [L|L]; [|discriminate].
  intro H. inversion H. apply firstn_length_le. exact L.
Qed.

Lemma take_wf n b a r : bytes_wf b -> take n b = Some (a, r) -> bytes_wf a /\ bytes_wf r.
Proof. intros W H. apply take_split in H. subst b. apply bytes_wf_app. exact W. Qed.

Lemma len_ok_wf b : bytes_wf b -> len_ok b = true.
Proof. intro W. apply (proj2 (bytes_wfb_wf b)). exact W. Qed.

Lemma tz_at_area_kind s : z_kind (tz_at_area s) <> ZUnset.
Proof.
  unfold tz_at_area. destruct (mem_name s names_utc); [discriminate|].
  destruct (mem_name s names_local); [discriminate|].
  destruct (mem_name s names_utc_preserve); [discriminate|].
  destruct (split_area_location s). discriminate.
Qed.

Lemma ct_decode_zone_consistent b z r :
  bytes_wf b -> ct_decode_zone b = Some (z, r) -> z_kind z <> ZUnset /\ zone_consistent z = true.
Proof.
  intro W. unfold ct_decode_zone. destruct b as [|hd tl]; [discriminate|].
  apply bytes_wf_cons in W as [Hhd Wtl].
  destruct (N.odd hd).
  - destruct (take 4 (hd :: tl)) as [[f r']|]; [|discriminate].
    intro H. inversion H. split; [discriminate | reflexivity].
  - destruct (N.shiftr hd 1 =? 0).
    + destruct (take 2 tl) as [[f r']|]; [|discriminate].
      intro H. inversion H. unfold tz_with_minutes.
      match goal with |- context [if ?c then _ else _] => destruct c end; split; try discriminate; reflexivity.
    + destruct (take (N.to_nat (N.shiftr hd 1)) tl) as [[f r']|] eqn:E; [|discriminate].
      pose proof (take_length _ _ _ _ E) as Lf. destruct (take_wf _ _ _ _ Wtl E) as [Wf _].
      assert (L127 : (length f <= 127)%nat).
      { rewrite Lf, shiftr_div. change (2 ^ 1) with 2. lia. }
      destruct (bytes_eqb f [76]); [|destruct (bytes_eqb f [90])]; intro H; inversion H.
      * split; [discriminate | reflexivity].
      * split; [discriminate | reflexivity].
      * split; [apply tz_at_area_kind | apply tz_at_area_consistent; [exact L127 | apply len_ok_wf; exact Wf]].
Qed.

Lemma decode_year_ok e : year_ok (decode_year e) = true.
Proof.
  unfold decode_year, year_ok.
  assert (B : u32 e < 4294967296) by (unfold u32; apply N.mod_lt; discriminate).
  rewrite unzigzag32_closed by exact B.
  destruct (N.odd (u32 e)); lia.
Qed.

Lemma decode_year_tail_ok lb acc b y r : decode_year_tail lb acc b = Some (y, r) -> year_ok y = true.
Proof.
  unfold decode_year_tail. destruct (uleb_decode_u64 b) as [[v r']|]; [|discriminate].
  match goal with |- context [if ?c then _ else _] => destruct c end; [discriminate|].
  intro H. inversion H. apply decode_year_ok.
Qed.

Lemma decode_year_tail_wf lb acc b y r : bytes_wf b -> decode_year_tail lb acc b = Some (y, r) -> bytes_wf r.
Proof.
  intros W H. apply decode_year_tail_suffix in H as [p E]. subst b. apply bytes_wf_app in W. apply W.
Qed.

(* the part of [time_ok] that is not validateTime *)
Definition shape_ok (t : gtime) : bool :=
  match g_kind t with
  | KDate => year_ok (g_year t)
  | KTime => zone_consistent (g_zone t)
  | KTimestamp => year_ok (g_year t) && zone_consistent (g_zone t)
  end.

Lemma ct_decode_shape k b t r :
  bytes_wf b -> ct_decode k b = Some (t, r) -> is_zero t = false -> shape_ok t = true.
Proof.
  intro W. destruct k; unfold ct_decode.
  - unfold ct_decode_date. destruct (take 2 b) as [[f r1]|]; [|discriminate]. cbv zeta.
    match goal with |- context [decode_year_tail ?a ?c r1] => destruct (decode_year_tail a c r1) as [[y r2]|] eqn:E2 end; [|discriminate].
    apply decode_year_tail_ok in E2.
    match goal with |- context [if ?c then _ else _] => destruct c end; intro H; inversion H; subst t.
    + intro Z. vm_compute in Z. discriminate.
    + intros _. exact E2.
  - unfold ct_decode_time. destruct b as [|hd tl]; [discriminate|]. cbv zeta.
    match goal with |- context [take ?n (hd :: tl)] => destruct (take n (hd :: tl)) as [[f r1]|] eqn:E1 end; [|discriminate].
    destruct (take_wf _ _ _ _ W E1) as [_ W1].
    match goal with |- context [unpack_clock ?m ?x] => destruct (unpack_clock m x) as [[[[[tz ns] sec] mi] h] acc] end.
    match goal with |- context [if negb (?a =? ?b) then _ else _] => destruct (negb (a =? b)) end.
    + match goal with |- context [if ?c then _ else _] => destruct c end; [|discriminate].
      intro H. inversion H. intro Z. vm_compute in Z. discriminate.
    + destruct (negb tz).
      * intro H. inversion H. intros _. reflexivity.
      * destruct (ct_decode_zone r1) as [[z r2]|] eqn:E2; [|discriminate].
        apply ct_decode_zone_consistent in E2 as [_ C]; [|exact W1].
        intro H. inversion H. intros _. exact C.
  - unfold ct_decode_timestamp. destruct b as [|hd tl]; [discriminate|]. cbv zeta.
    match goal with |- context [take ?n (hd :: tl)] => destruct (take n (hd :: tl)) as [[f r1]|] eqn:E1 end; [|discriminate].
    destruct (take_wf _ _ _ _ W E1) as [_ W1].
    match goal with |- context [unpack_clock ?m ?x] => destruct (unpack_clock m x) as [[[[[tz ns] sec] mi] h] acc] end.
    match goal with |- context [decode_year_tail ?a ?c r1] => destruct (decode_year_tail a c r1) as [[y r2]|] eqn:E2 end; [|discriminate].
    pose proof (decode_year_tail_wf _ _ _ _ _ W1 E2) as W2.
    apply decode_year_tail_ok in E2.
    destruct (negb tz).
    + match goal with |- context [if ?c then _ else _] => destruct c end; intro H; inversion H.
      * intro Z. vm_compute in Z. discriminate.
      * intros _. unfold shape_ok. cbn [g_kind new_timestamp g_year g_zone]. rewrite E2. reflexivity.
    + destruct (ct_decode_zone r2) as [[z r3]|] eqn:E3; [|discriminate].
      apply ct_decode_zone_consistent in E3 as [_ C]; [|exact W2].
      intro H. inversion H. intros _. unfold shape_ok. cbn [g_kind new_timestamp g_year g_zone]. rewrite E2, C. reflexivity.
Qed.

Lemma ct_decode_kind k b t r : ct_decode k b = Some (t, r) -> g_kind t = k.
Proof.
  destruct k; unfold ct_decode.
  - unfold ct_decode_date. destruct (take 2 b) as [[f r1]|]; [|discriminate]. cbv zeta.
    match goal with |- context [decode_year_tail ?a ?c r1] => destruct (decode_year_tail a c r1) as [[y r2]|] end; [|discriminate].
    match goal with |- context [if ?c then _ else _] => destruct c end; intro H; inversion H; reflexivity.
  - unfold ct_decode_time. destruct b as [|hd tl]; [discriminate|]. cbv zeta.
    match goal with |- context [take ?n (hd :: tl)] => destruct (take n (hd :: tl)) as [[f r1]|] end; [|discriminate].
    match goal with |- context [unpack_clock ?m ?x] => destruct (unpack_clock m x) as [[[[[tz ns] sec] mi] h] acc] end.
    match goal with |- context [if negb (?a =? ?b) then _ else _] => destruct (negb (a =? b)) end.
    + match goal with |- context [if ?c then _ else _] => destruct c end; [|discriminate].
      intro H; inversion H; reflexivity.
    + destruct (negb tz); [intro H; inversion H; reflexivity|].
      destruct (ct_decode_zone r1) as [[z r2]|]; [|discriminate]. intro H; inversion H; reflexivity.
  - unfold ct_decode_timestamp. destruct b as [|hd tl]; [discriminate|]. cbv zeta.
    match goal with |- context [take ?n (hd :: tl)] => destruct (take n (hd :: tl)) as [[f r1]|] end; [|discriminate].
    match goal with |- context [unpack_clock ?m ?x] => destruct (unpack_clock m x) as [[[[[tz ns] sec] mi] h] acc] end.
    match goal with |- context [decode_year_tail ?a ?c r1] => destruct (decode_year_tail a c r1) as [[y r2]|] end; [|discriminate].
    destruct (negb tz).
    + match goal with |- context [if ?c then _ else _] => destruct c end; intro H; inversion H; reflexivity.
    + destruct (ct_decode_zone r2) as [[z r3]|]; [|discriminate]. intro H; inversion H; reflexivity.
Qed.

(* every non-zero time the decoder delivers is in the domain of the round trip *)
Theorem cbe_decode_time_ok b t r :
  bytes_wf b -> cbe_decode_time b = Some (t, r) -> is_zero t = false -> time_ok t = true.
Proof.
  intro W. unfold cbe_decode_time. destruct b as [|c tl]; [discriminate|].
  apply bytes_wf_cons in W as [_ W].
  destruct (kind_of_code c) as [k|]; [|discriminate]. unfold cbe_read_time.
  destruct (ct_decode k tl) as [[t' r']|] eqn:E; [|discriminate].
  destruct (cbe_validate_time t') eqn:V; [|discriminate].
  intro H. inversion H. subst t' r'. intro Z.
  pose proof (ct_decode_shape k tl t r W E Z) as S. pose proof (ct_decode_kind k tl t r E) as K.
  unfold time_ok. rewrite Z, V. cbn [negb andb]. exact S.
Qed.

(* ... so it is written in canonical form and read back as the same time (up to [canon]: only the
   long name of a UTC alias is lost) whatever the bytes were *)
Corollary cbe_time_reencode b t r r' :
  bytes_wf b -> cbe_decode_time b = Some (t, r) -> is_zero t = false ->
  cbe_decode_time (cbe_encode_time t ++ r') = Some (canon t, r').
Proof. intros W D Z. apply cbe_time_roundtrip. eapply cbe_decode_time_ok; eassumption. Qed.

(* ------------------------------------------------------------------ *)
(** * 10. The value-level time model of Model/Convert.v (C03) is this one *)

From CE Require Model.Convert Model.CteRead.

(* Convert.ctime is the time "as the CBE reader builds it from the fields": the zone is named by
   the string of the area/location field, i.e. the short name; Local is the string "L" *)
Definition to_czone (z : gzone) : Convert.tzone :=
  match z_kind z with
  | ZUnset | ZUTC => Convert.TzUTC
  | ZLocal | ZArea => Convert.TzArea (z_short z)
  | ZLatLong => Convert.TzLatLong (z_lat z) (z_lon z)
  | ZOffset => Convert.TzOffset (z_min z)
  end.
Definition to_ctime (t : gtime) : Convert.ctime :=
  {| Convert.t_type := match g_kind t with KDate => Convert.TDate | KTime => Convert.TTime | KTimestamp => Convert.TTimestamp end;
     Convert.t_year := g_year t; Convert.t_month := g_month t; Convert.t_day := g_day t; Convert.t_hour := g_hour t;
     Convert.t_minute := g_minute t; Convert.t_second := g_second t; Convert.t_nano := g_nano t;
     Convert.t_zone := to_czone (g_zone t) |}.

(* the tables are the same tables *)
Example area_tables_agree :
  names_utc = [] :: CteRead.area_utc /\ names_utc_preserve = CteRead.area_utc_preserve /\ names_local = CteRead.area_local /\
  map (fun p => match fst p with [c] => (c, snd p) | _ => (0, snd p) end) area_pairs = CteRead.short_areas.
Proof. vm_compute. repeat split; reflexivity. Qed.

(* validateTime, on a sample over every kind of value: the two models give the same verdict *)
Definition agreement_samples : list gtime :=
  let zones := [tz_utc; tz_local;
                tz_at_area (str "E/Berlin"); tz_at_area (str "Europe/Berlin"); tz_at_area (str "Q"); tz_at_area (str "Q/x");
                tz_at_area (str "x"); tz_at_area (str "A b"); tz_at_area (str "Etc/GMT"); tz_at_area (str "C/UTC");
                tz_at_area (str "Local/x"); tz_at_area (str "F/"); tz_at_area (200 :: str "A"); tz_at_area (str "A" ++ [200]);
                tz_at_area (str "F/" ++ repeat 120 125%nat); tz_at_area (str "F/" ++ repeat 120 120%nat); tz_at_area (repeat 65 127%nat);
                tz_at_area (repeat 65 128%nat);
                tz_at_latlong 0 0; tz_at_latlong 9000 18000; tz_at_latlong (-9000) (-18000); tz_at_latlong 9001 0;
                tz_at_latlong 0 18001; tz_at_latlong (-9001) 0; tz_at_latlong 0 (-18001);
                tz_with_minutes 1; tz_with_minutes (-1439); tz_with_minutes 1439; tz_with_minutes 1440; tz_with_minutes (-1440)] in
  map (fun z => new_time 1 2 3 4000 z) zones ++
  map (fun z => new_timestamp 2020 2 29 23 59 60 0 z) zones ++
  [new_date 2020 1 1; new_date 0 1 1; new_date 2020 0 1; new_date 2020 13 1; new_date 2020 2 30; new_date 2020 4 31;
   new_date 2020 12 31; new_date (-5) 12 32; new_time 24 0 0 0 tz_utc; new_time 23 60 0 0 tz_utc; new_time 23 59 61 0 tz_utc;
   with_nano (new_time 1 2 3 0 tz_utc) 1000000000; new_timestamp 0 1 1 0 0 0 0 tz_utc; new_timestamp 1 1 0 0 0 0 0 tz_utc].

Example validate_agrees_with_convert :
  forallb (fun t => Bool.eqb (cbe_validate_time t) (Convert.cbe_time_ok (to_ctime t))) agreement_samples = true.
Proof. vm_compute. reflexivity. Qed.
