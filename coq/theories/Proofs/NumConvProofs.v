(* Proofs about Model/NumConv.v (property C19). *)
From CE Require Import Model.NumConv.
From Coq Require Import ZArith Lia Bool.
Open Scope Z_scope.

Ltac Zify.zify_post_hook ::= Z.div_mod_to_equations.

(* ------------------------------------------------------------------ *)
(* small arithmetic facts                                              *)

Lemma sgn_mul s a b : sgn s (a * b) = sgn s a * b.
Proof. destruct s; simpl; lia. Qed.

Lemma sgn_invol s a : sgn s (sgn s a) = a.
Proof. destruct s; simpl; lia. Qed.

Lemma sgn_abs v : sgn (v <? 0) (Z.abs v) = v.
Proof. destruct (Z.ltb_spec v 0); simpl; lia. Qed.

Lemma sgn_0 s : sgn s 0 = 0.
Proof. destruct s; reflexivity. Qed.

Lemma pow2_pos k : 0 < 2 ^ k \/ 2 ^ k = 0.
Proof. destruct (Z.le_gt_cases 0 k); [left; apply Z.pow_pos_nonneg; lia | right; apply Z.pow_neg_r; lia]. Qed.

Lemma pow_pos_nonneg' b k : 0 < b -> 0 <= k -> 0 < b ^ k.
Proof. intros; apply Z.pow_pos_nonneg; assumption. Qed.

Lemma in_i64_spec z : in_i64 z = true <-> - p63 <= z < p63.
Proof. unfold in_i64. rewrite andb_true_iff, Z.leb_le, Z.ltb_lt. tauto. Qed.

Lemma in_u64_spec z : in_u64 z = true <-> 0 <= z < p64.
Proof. unfold in_u64. rewrite andb_true_iff, Z.leb_le, Z.ltb_lt. tauto. Qed.

Lemma wraps_range w z : - iw_half w <= wraps w z < iw_half w.
Proof. unfold wraps. destruct w; cbn [iw_half iw_mod]; lia. Qed.

Lemma wraps_id w z : - iw_half w <= z < iw_half w -> wraps w z = z.
Proof. unfold wraps. destruct w; cbn [iw_half iw_mod]; lia. Qed.

Lemma iw_half_le w : 128 <= iw_half w <= p63.
Proof. unfold p63. destruct w; cbn; lia. Qed.

(* ------------------------------------------------------------------ *)
(* mval_eq is an equivalence on finite values and infinities           *)

Lemma mval_eq_refl_fin n a b : mval_eq (MFin n a b) (MFin n a b).
Proof. reflexivity. Qed.

Lemma mval_eq_sym x y : mval_eq x y -> mval_eq y x.
Proof.
  destruct x as [n1 a1 b1| |], y as [n2 a2 b2| |]; simpl; try tauto; try congruence.
  rewrite (Z.min_comm a2 a1), (Z.min_comm b2 b1). congruence.
Qed.

(* value scaled by 2^-A 10^-B, an integer when A <= a and B <= b *)
Definition scaled (n a b A B : Z) : Z := n * 2 ^ (a - A) * 10 ^ (b - B).

Lemma scaled_shift n a b A B A' B' :
  A' <= A <= a -> B' <= B <= b ->
  scaled n a b A' B' = scaled n a b A B * (2 ^ (A - A') * 10 ^ (B - B')).
Proof.
  intros HA HB. unfold scaled.
  replace (a - A') with ((a - A) + (A - A')) by lia.
  replace (b - B') with ((b - B) + (B - B')) by lia.
  rewrite !Z.pow_add_r by lia. ring.
Qed.

Lemma mval_eq_scaled n1 a1 b1 n2 a2 b2 A B :
  A <= Z.min a1 a2 -> B <= Z.min b1 b2 ->
  (mval_eq (MFin n1 a1 b1) (MFin n2 a2 b2) <-> scaled n1 a1 b1 A B = scaled n2 a2 b2 A B).
Proof.
  intros HA HB. simpl. fold (scaled n1 a1 b1 (Z.min a1 a2) (Z.min b1 b2)).
  fold (scaled n2 a2 b2 (Z.min a1 a2) (Z.min b1 b2)).
  rewrite (scaled_shift n1 a1 b1 (Z.min a1 a2) (Z.min b1 b2) A B) by lia.
  rewrite (scaled_shift n2 a2 b2 (Z.min a1 a2) (Z.min b1 b2) A B) by lia.
  assert (0 < 2 ^ (Z.min a1 a2 - A) * 10 ^ (Z.min b1 b2 - B)) as Hpos.
  { apply Z.mul_pos_pos; apply Z.pow_pos_nonneg; lia. }
  split; intro H.
  - rewrite H. reflexivity.
  - apply Z.mul_reg_r in H; [exact H | lia].
Qed.

Lemma mval_eq_trans x y z : mval_eq x y -> mval_eq y z -> mval_eq x z.
Proof.
  destruct x as [n1 a1 b1|s1|], y as [n2 a2 b2|s2|], z as [n3 a3 b3|s3|]; try (simpl; tauto); try (simpl; congruence).
  intros H12 H23.
  set (A := Z.min a1 (Z.min a2 a3)). set (B := Z.min b1 (Z.min b2 b3)).
  apply (mval_eq_scaled _ _ _ _ _ _ A B) in H12; [| subst A; lia | subst B; lia].
  apply (mval_eq_scaled _ _ _ _ _ _ A B) in H23; [| subst A; lia | subst B; lia].
  apply (mval_eq_scaled _ _ _ _ _ _ A B); [subst A; lia | subst B; lia | congruence].
Qed.

Lemma mval_eq_int n v : n = v -> mval_eq (MFin n 0 0) (MFin v 0 0).
Proof. intros ->. reflexivity. Qed.

(* an integer z against sm * base^e, for base 2 (slot a) *)
Lemma mval_eq_int_dy z sm e :
  (if 0 <=? e then sm * 2 ^ e =? z else sm =? z * 2 ^ (- e)) = true ->
  mval_eq (MFin z 0 0) (MFin sm e 0).
Proof.
  intro H. simpl. destruct (Z.leb_spec 0 e) as [He|He]; apply Z.eqb_eq in H.
  - rewrite Z.min_l by lia. replace (0 - 0) with 0 by lia. replace (e - 0) with e by lia.
    cbn [Z.pow Z.pow_pos Pos.iter]. lia.
  - rewrite Z.min_r by lia. replace (e - e) with 0 by lia. replace (0 - e) with (- e) by lia.
    replace (0 - 0) with 0 by lia. cbn [Z.pow Z.pow_pos Pos.iter]. lia.
Qed.

(* the same for base 10 (slot b) *)
Lemma mval_eq_int_dec z sc e :
  (if 0 <=? e then sc * 10 ^ e = z else sc = z * 10 ^ (- e)) ->
  mval_eq (MFin z 0 0) (MFin sc 0 e).
Proof.
  intro H. simpl. destruct (Z.leb_spec 0 e) as [He|He].
  - rewrite Z.min_l by lia. replace (0 - 0) with 0 by lia. replace (e - 0) with e by lia.
    cbn [Z.pow Z.pow_pos Pos.iter]. lia.
  - rewrite Z.min_r by lia. replace (e - e) with 0 by lia. replace (0 - e) with (- e) by lia.
    replace (0 - 0) with 0 by lia. cbn [Z.pow Z.pow_pos Pos.iter]. lia.
Qed.

Lemma mval_eq_zero a b a' b' : mval_eq (MFin 0 a b) (MFin 0 a' b').
Proof. simpl. lia. Qed.

(* ------------------------------------------------------------------ *)
(* rounding                                                            *)

Lemma bitlen_small p n : 0 <= p -> n < 2 ^ p -> bitlen n <= p.
Proof.
  intros Hp Hn. unfold bitlen. destruct (Z.leb_spec n 0) as [H0|H0]; [lia|].
  assert (Z.log2 n < p) by (apply Z.log2_lt_pow2; lia). lia.
Qed.

Lemma rne_mag_small p n : 0 <= p -> n < 2 ^ p -> rne_mag p n = n.
Proof.
  intros Hp Hn. unfold rne_mag. pose proof (bitlen_small p n Hp Hn).
  destruct (Z.leb_spec (bitlen n) p); [reflexivity | lia].
Qed.

Lemma rne_small z : - 2 ^ 53 < z < 2 ^ 53 -> rne 53 z = z.
Proof.
  intro H. unfold rne. destruct (Z.ltb_spec z 0).
  - rewrite rne_mag_small; lia.
  - rewrite rne_mag_small; lia.
Qed.

Lemma rne_mag_nonneg p n : 0 <= n -> 0 <= rne_mag p n.
Proof.
  intro Hn. unfold rne_mag. destruct (bitlen n <=? p); [exact Hn|].
  set (s := bitlen n - p).
  assert (0 <= 2 ^ s) by (apply Z.pow_nonneg; lia).
  assert (0 <= n / 2 ^ s) by (destruct (pow2_pos s) as [Hp|Hp]; [apply Z.div_pos; lia | rewrite Hp, Zdiv_0_r; lia]).
  destruct (_ || _); apply Z.mul_nonneg_nonneg; lia.
Qed.

(* ------------------------------------------------------------------ *)
(* values of builder calls                                             *)

Definition call_val (c : call) : mval :=
  match c with
  | CInt v | CUint v | CBigInt v => MFin v 0 0
  | CFloat f => fdec_val f
  | CBigFloat b => bfl_val b
  | CDec d | CBigDec d => dec_val d
  end.

(* the float comparison f == float(R) forces f to be the integer R, and truncation returns it *)
Lemma f_eq_int_trunc s m e R : f_eq_int (FFin s m e) R = true -> sgn s (dy_trunc m e) = R.
Proof.
  unfold f_eq_int, dy_trunc. destruct (Z.leb_spec 0 e) as [He|He]; intro H; apply Z.eqb_eq in H.
  - rewrite sgn_mul. exact H.
  - assert (m = sgn s R * 2 ^ (- e)) as Hm.
    { rewrite <- sgn_mul, <- H, sgn_invol. reflexivity. }
    rewrite Hm, Z.div_mul by (apply Z.pow_nonzero; lia). apply sgn_invol.
Qed.

Lemma f_eq_int_val f R : f_eq_int f R = true -> mval_eq (MFin R 0 0) (fdec_val f).
Proof.
  destruct f as [|s|s m e]; try discriminate. intro H. apply mval_eq_int_dy. exact H.
Qed.

(* ---- integer destinations ---- *)

Lemma int_from_i64_exact w i s : int_from_i64 w i = Stored s -> s = StInt i.
Proof.
  unfold int_from_i64. destruct (Z.eqb_spec (wraps w i) i) as [E|E]; [|discriminate].
  intro H; inversion H; congruence.
Qed.

Lemma int_from_opt_exact w o s : int_from_opt w o = Stored s -> exists i, o = Some i /\ s = StInt i.
Proof.
  destruct o as [i|]; [|discriminate]. intro H. exists i. split; [reflexivity|]. eapply int_from_i64_exact; eauto.
Qed.

Lemma int_from_uint_exact w u s : 0 <= u -> int_from_uint w u = Stored s -> s = StInt u.
Proof.
  intros Hu. unfold int_from_uint. destruct (Z.ltb_spec (p63 - 1) u) as [H1|H1]; [discriminate|].
  pose proof (wraps_range w u) as Hr. pose proof (iw_half_le w) as Hh.
  destruct (Z.eqb_spec (wraps w u mod p64) u) as [E|E]; [|discriminate].
  intro H; inversion H. f_equal.
  unfold p63, p64 in *. set (st := wraps w u) in *. lia.
Qed.

Lemma wraps_minint w : wraps w (- p63) = - p63 \/ wraps w (- p63) = 0.
Proof. destruct w; vm_compute; tauto. Qed.

Lemma rne_minint : rne 53 (- p63) = - p63.
Proof. vm_compute. reflexivity. Qed.
Lemma rne_zero : rne 53 0 = 0.
Proof. vm_compute. reflexivity. Qed.

Lemma int_from_float_core w t :
  rne 53 (wraps w (if in_i64 t then t else - p63)) = t ->
  wraps w (if in_i64 t then t else - p63) = t.
Proof.
  destruct (in_i64 t) eqn:Hin.
  - apply in_i64_spec in Hin. pose proof (wraps_range w t) as Hr. destruct w.
    1-3: (intro H; rewrite rne_small in H; [exact H | cbn [iw_half] in Hr; lia]).
    intros _. apply wraps_id. exact Hin.
  - intro H. destruct (wraps_minint w) as [E|E]; rewrite E in H |- *.
    + rewrite rne_minint in H. subst t. vm_compute in Hin. discriminate.
    + rewrite rne_zero in H. subst t. vm_compute in Hin. discriminate.
Qed.

Lemma int_from_float_exact w f s :
  int_from_float w f = Stored s -> exists z, s = StInt z /\ mval_eq (MFin z 0 0) (fdec_val f).
Proof.
  unfold int_from_float.
  destruct (f_eq_int f (rne 53 (wraps w (cvt64 f)))) eqn:HE; [|discriminate].
  intro H; inversion H; subst s. eexists. split; [reflexivity|].
  destruct f as [|sg|sg m e]; try discriminate.
  pose proof (f_eq_int_trunc _ _ _ _ HE) as HT.
  pose proof (f_eq_int_val _ _ HE) as HV.
  cbn [cvt64] in *. cbv zeta in *.
  remember (sgn sg (dy_trunc m e)) as t eqn:Et.
  pose proof (int_from_float_core w t) as HC.
  remember (wraps w (if in_i64 t then t else - p63)) as st eqn:Est.
  assert (st = t) as E0 by (apply HC; congruence).
  assert (rne 53 st = st) as E by congruence.
  rewrite E in HV. exact HV.
Qed.

(* ---- big.Float and decimal integer values ---- *)

Lemma bf_int_value_exact b z : bf_int_value b = Some z -> mval_eq (MFin z 0 0) (bfl_val b).
Proof.
  destruct b as [s m e p|s]; [|discriminate]. cbn [bf_int_value bfl_val].
  intro H. apply mval_eq_int_dy.
  destruct (Z.leb_spec 0 e) as [He|He].
  - inversion H. rewrite sgn_mul. apply Z.eqb_refl.
  - destruct (Z.eqb_spec (m mod 2 ^ (- e)) 0) as [E|E]; [|discriminate]. inversion H.
    apply Z.eqb_eq. rewrite <- sgn_mul. f_equal.
    assert (0 < 2 ^ (- e)) by (apply Z.pow_pos_nonneg; lia).
    rewrite Z.mul_comm. apply Z_div_exact_full_2; lia.
Qed.

Lemma bf_int64_exact b i : bf_int64 b = Some i -> bf_int_value b = Some i.
Proof. unfold bf_int64. destruct (bf_int_value b) as [z|]; [|discriminate]. destruct (in_i64 z); congruence. Qed.

Lemma bf_uint64_exact b u : bf_uint64 b = Some u -> bf_int_value b = Some u /\ 0 <= u < p64.
Proof.
  unfold bf_uint64. destruct (bf_int_value b) as [z|]; [|discriminate].
  destruct (in_u64 z) eqn:E; [|discriminate]. intro H; inversion H; subst. apply in_u64_spec in E. tauto.
Qed.

Lemma bigfloat_to_int_exact b i : bigfloat_to_int b = Some i -> mval_eq (MFin i 0 0) (bfl_val b).
Proof.
  unfold bigfloat_to_int. destruct (bf_int64 b) as [z|] eqn:E; [|discriminate].
  destruct (rne 53 z =? z); [|discriminate]. intro H; inversion H; subst.
  apply bf_int_value_exact, bf_int64_exact, E.
Qed.

Lemma bigfloat_to_uint_exact b u : bigfloat_to_uint b = Some u -> mval_eq (MFin u 0 0) (bfl_val b).
Proof.
  unfold bigfloat_to_uint. destruct (bf_uint64 b) as [z|] eqn:E; [|discriminate].
  destruct (rne 53 z =? z); [|discriminate]. intro H; inversion H; subst.
  apply bf_int_value_exact. apply bf_uint64_exact in E. tauto.
Qed.

Lemma bigfloat_to_bigint_exact max2 b z : bigfloat_to_bigint max2 b = Some z -> mval_eq (MFin z 0 0) (bfl_val b).
Proof. unfold bigfloat_to_bigint. destruct (max2 <? bf_mantexp b); [discriminate|]. apply bf_int_value_exact. Qed.

Lemma dec_int_value_exact neg c e z :
  dec_int_value neg c e = Some z -> mval_eq (MFin z 0 0) (dec_val (Dec neg c e)).
Proof.
  unfold dec_int_value. cbn [dec_val]. intro H. apply mval_eq_int_dec.
  destruct (Z.leb_spec 0 e) as [He|He].
  - inversion H. symmetry. apply sgn_mul.
  - cbv zeta in H. destruct (Z.eqb_spec (c mod 10 ^ (- e)) 0) as [E|E]; [|discriminate]. inversion H.
    rewrite <- sgn_mul. f_equal.
    assert (0 < 10 ^ (- e)) by (apply Z.pow_pos_nonneg; lia).
    rewrite Z.mul_comm. apply Z_div_exact_full_2; lia.
Qed.

Lemma apd_int64_exact d i : apd_int64 d = Some i -> mval_eq (MFin i 0 0) (dec_val d) /\ - p63 <= i < p63.
Proof.
  destruct d as [neg c e|s|s]; try discriminate. cbn [apd_int64].
  destruct (dec_int_value neg c e) as [z|] eqn:E; [|discriminate].
  destruct (in_i64 z) eqn:Hin; [|discriminate]. intro H; inversion H; subst.
  split; [apply dec_int_value_exact, E | apply in_i64_spec, Hin].
Qed.

Lemma pow10_bound e : 0 <= e < 20 -> 0 < 10 ^ e < p64.
Proof.
  intro He. split; [apply Z.pow_pos_nonneg; lia|].
  apply Z.le_lt_trans with (10 ^ 19); [apply Z.pow_le_mono_r; lia | vm_compute; reflexivity].
Qed.

(* DFloat.Int: the division check detects every int64 overflow of the multiplication *)
Lemma dfloat_int_exact d r : dfloat_int d = Some r -> mval_eq (MFin r 0 0) (dec_val d).
Proof.
  destruct d as [neg c e|s|s]; try discriminate. unfold dfloat_int.
  destruct (dec_special (Dec neg c e)); [discriminate|].
  destruct (Z.ltb_spec e 0) as [He|He]; [discriminate|].
  destruct (Z.leb_spec 19 e) as [He'|He']; [discriminate|].
  cbv zeta. set (k := 10 ^ e). set (cs := sgn neg c).
  destruct (Z.ltb_spec (wraps I64 (cs * k)) 0) as [Hn|Hn]; [discriminate|]. cbn [orb].
  destruct (Z.eqb_spec (Z.quot (wraps I64 (cs * k)) k) cs) as [Hq|Hq]; [|discriminate]. cbn [negb].
  intro H; inversion H as [Hr]. clear H.
  pose proof (pow10_bound e ltac:(lia)) as Hk. fold k in Hk.
  cbn [dec_val]. apply mval_eq_int_dec. destruct (Z.leb_spec 0 e); [|lia]. fold k. fold cs.
  rewrite Z.quot_div_nonneg in Hq by lia.
  unfold wraps in *. cbn [iw_half iw_mod] in *. unfold p64 in Hk.
  set (P := cs * k) in *.
  assert (k * cs = P) as HP by (subst P; ring).
  set (r0 := (P + 9223372036854775808) mod 18446744073709551616 - 9223372036854775808) in *.
  assert (k * (r0 / k) <= r0 < k * (r0 / k) + k) as Hd.
  { pose proof (Z.div_mod r0 k ltac:(lia)). pose proof (Z.mod_pos_bound r0 k ltac:(lia)). lia. }
  rewrite Hq, HP in Hd. subst r0. lia.
Qed.

(* DFloat.Uint on a non-negative coefficient *)
Lemma dfloat_uint_exact c e r :
  0 <= c <= p63 -> dfloat_uint (Dec false c e) = Some r -> mval_eq (MFin r 0 0) (dec_val (Dec false c e)).
Proof.
  intro Hc. unfold dfloat_uint. cbn [dec_special].
  destruct (Z.ltb_spec e 0) as [He|He]; [discriminate|].
  destruct (Z.leb_spec 20 e) as [He'|He']; [discriminate|].
  cbv zeta. cbn [sgn]. set (k := 10 ^ e).
  assert (c mod p64 = c) as Hu by (apply Z.mod_small; unfold p63, p64 in *; lia). rewrite Hu.
  destruct (Z.eqb_spec ((c * k) mod p64 / k) c) as [Hq|Hq]; [|discriminate].
  intro H; inversion H as [Hr]. clear H.
  pose proof (pow10_bound e ltac:(lia)) as Hk. fold k in Hk.
  cbn [dec_val sgn]. apply mval_eq_int_dec. destruct (Z.leb_spec 0 e); [|lia]. fold k.
  unfold p64 in *. set (P := c * k) in *.
  assert (k * c = P) as HP by (subst P; ring).
  set (r0 := P mod 18446744073709551616) in *.
  assert (k * (r0 / k) <= r0 < k * (r0 / k) + k) as Hd.
  { pose proof (Z.div_mod r0 k ltac:(lia)). pose proof (Z.mod_pos_bound r0 k ltac:(lia)). lia. }
  rewrite Hq, HP in Hd. subst r0. lia.
Qed.

Lemma dfloat_bigint_exact max10 d z : dfloat_bigint max10 d = Some z -> mval_eq (MFin z 0 0) (dec_val d).
Proof.
  destruct d as [neg c e|s|s]; try discriminate. unfold dfloat_bigint.
  destruct (dec_special (Dec neg c e)); [discriminate|].
  destruct (max10 <? e); [discriminate|].
  destruct (Z.ltb_spec e 0) as [He|He]; [discriminate|].
  intro H; inversion H. cbn [dec_val]. apply mval_eq_int_dec.
  destruct (Z.leb_spec 0 e); [reflexivity | lia].
Qed.



(* ---- unsigned destinations ---- *)

Lemma uint_from_u64_exact w u s : uint_from_u64 w u = Stored s -> s = StUint u.
Proof.
  unfold uint_from_u64. destruct (Z.eqb_spec (wrapu w u) u) as [E|E]; [|discriminate].
  intro H; inversion H; congruence.
Qed.

Lemma uint_from_opt_exact w o s : uint_from_opt w o = Stored s -> exists u, o = Some u /\ s = StUint u.
Proof.
  destruct o as [u|]; [|discriminate]. intro H. exists u. split; [reflexivity|]. eapply uint_from_u64_exact; eauto.
Qed.

Lemma rne_p63 : rne 53 p63 = p63.
Proof. vm_compute. reflexivity. Qed.

Lemma rne_nonneg u : 0 <= u -> 0 <= rne 53 u.
Proof. intro H. unfold rne. destruct (Z.ltb_spec u 0); [lia|]. apply rne_mag_nonneg. exact H. Qed.

(* uint64(f) on integers, stated on the truncated magnitude d and sign s:
   the result u satisfies: if the float equals float64(u) =: R (so sgn s d = R) then u = R *)
Definition go_uint64_int (s : bool) (d : Z) : Z :=
  if s || (d <? p63) then (let t := sgn s d in if in_i64 t then t else - p63) mod p64
  else let y := d - p63 in if y <? p63 then y + p63 else p63.

Lemma go_uint64_int_eq s m e : go_uint64 (FFin s m e) = go_uint64_int s (dy_trunc m e).
Proof. reflexivity. Qed.

Lemma go_uint64_int_core s d :
  sgn s d = rne 53 (go_uint64_int s d) -> go_uint64_int s d = sgn s d.
Proof.
  unfold go_uint64_int.
  destruct (s || (d <? p63)) eqn:Hlt.
  - cbv zeta. destruct (in_i64 (sgn s d)) eqn:Hin.
    + apply in_i64_spec in Hin. intro HT.
      assert (0 <= sgn s d) as Hn.
      { rewrite HT. apply rne_nonneg. apply Z.mod_pos_bound. reflexivity. }
      apply Z.mod_small. unfold p63, p64 in *. lia.
    + intro HT. change ((- p63) mod p64) with p63 in *. rewrite rne_p63 in HT. congruence.
  - apply orb_false_iff in Hlt as [Hs Hd]. subst s. cbn [sgn]. cbv zeta.
    destruct (Z.ltb_spec (d - p63) p63) as [Hy|Hy].
    + intros _. lia.
    + rewrite rne_p63. congruence.
Qed.

Lemma uint_from_float_exact w f s :
  uint_from_float w f = Stored s -> exists u, s = StUint u /\ mval_eq (MFin u 0 0) (fdec_val f).
Proof.
  unfold uint_from_float.
  destruct (f_eq_int f (rne 53 (go_uint64 f))) eqn:HE; [|discriminate].
  intro H. apply uint_from_u64_exact in H. eexists. split; [exact H|].
  destruct f as [|sg|sg m e]; try discriminate.
  pose proof (f_eq_int_trunc _ _ _ _ HE) as HT.
  pose proof (f_eq_int_val _ _ HE) as HV.
  rewrite go_uint64_int_eq in *.
  pose proof (go_uint64_int_core _ _ HT) as HC.
  assert (rne 53 (go_uint64_int sg (dy_trunc m e)) = go_uint64_int sg (dy_trunc m e)) as E by congruence.
  rewrite E in HV. exact HV.
Qed.

(* ---- float destinations (integer arguments) ---- *)

Lemma store_float_cases w s n :
  store_float w s n = FInf s \/ exists n', store_float w s n = FFin s n' 0 /\ (n' = n \/ n' = rne_mag 24 n).
Proof.
  destruct w; cbn [store_float]; cbv zeta.
  - destruct (2 ^ 128 <=? rne_mag 24 n); [left; reflexivity | right; eexists; split; [reflexivity | right; reflexivity]].
  - right. eexists; split; [reflexivity | left; reflexivity].
Qed.

Lemma cvt64_int s n : cvt64 (FFin s n 0) = if in_i64 (sgn s n) then sgn s n else - p63.
Proof. cbn [cvt64]. unfold dy_trunc. cbn [Z.leb Z.compare Z.pow]. rewrite Z.mul_1_r. reflexivity. Qed.

Lemma float_from_int_exact w v s :
  float_from_int w v = Stored s -> mval_eq (stored_val s) (MFin v 0 0).
Proof.
  unfold float_from_int.
  destruct (Z.eqb_spec (cvt64 (store_float w (v <? 0) (rne_mag 53 (Z.abs v)))) v) as [E|E]; [|discriminate].
  intro H; inversion H; subst s; clear H. cbn [stored_val].
  destruct (store_float_cases w (v <? 0) (rne_mag 53 (Z.abs v))) as [HI|[n' [HF _]]].
  - exfalso. rewrite HI in E. cbn [cvt64] in E. subst v. vm_compute in HI. destruct w; discriminate.
  - rewrite HF in E |- *. rewrite cvt64_int in E. cbn [fdec_val].
    destruct (in_i64 (sgn (v <? 0) n')) eqn:Hin.
    + apply mval_eq_int. exact E.
    + exfalso. subst v. destruct w; vm_compute in HF; inversion HF; subst n'; vm_compute in Hin; discriminate.
Qed.

Lemma go_uint64_intval n : go_uint64 (FFin false n 0) = go_uint64_int false n.
Proof. rewrite go_uint64_int_eq. unfold dy_trunc. cbn [Z.leb Z.compare Z.pow]. rewrite Z.mul_1_r. reflexivity. Qed.

Lemma float_from_uint_exact w u s :
  0 <= u -> float_from_uint w u = Stored s -> mval_eq (stored_val s) (MFin u 0 0).
Proof.
  intro Hu. unfold float_from_uint.
  destruct (Z.eqb_spec (go_uint64 (store_float w false (rne_mag 53 u))) u) as [E|E]; [|discriminate].
  intro H; inversion H; subst s; clear H. cbn [stored_val].
  destruct (store_float_cases w false (rne_mag 53 u)) as [HI|[n' [HF Hn']]].
  - exfalso. rewrite HI in E. vm_compute in E. subst u. vm_compute in HI. destruct w; discriminate.
  - rewrite HF in E |- *. rewrite go_uint64_intval in E. cbn [fdec_val sgn].
    assert (0 <= n') as Hn0.
    { destruct Hn' as [->| ->]; [|apply rne_mag_nonneg]; apply rne_mag_nonneg; exact Hu. }
    apply mval_eq_int.
    unfold go_uint64_int in E. cbn [orb sgn] in E. cbv zeta in E.
    destruct (Z.ltb_spec n' p63) as [Hlt|Hlt].
    + assert (in_i64 n' = true) as Hin by (apply in_i64_spec; unfold p63 in *; lia).
      rewrite Hin in E. rewrite Z.mod_small in E by (unfold p63, p64 in *; lia). exact E.
    + destruct (Z.ltb_spec (n' - p63) p63) as [Hy|Hy]; [lia|].
      exfalso. subst u. destruct w; vm_compute in HF; inversion HF; subst n'; vm_compute in Hy; apply Hy; reflexivity.
Qed.

Lemma float_from_bigint_exact w z s :
  float_from_bigint w z = Stored s -> mval_eq (stored_val s) (MFin z 0 0).
Proof.
  unfold float_from_bigint. cbv zeta.
  destruct (2 ^ 1024 <=? rne_mag 53 (Z.abs z)); [discriminate|].
  destruct (rne_mag 53 (Z.abs z) =? Z.abs z); [|discriminate].
  destruct (store_float w (z <? 0) (rne_mag 53 (Z.abs z))) as [|sg|sg n' e']; try discriminate.
  destruct (Z.eqb_spec (sgn sg n') z) as [E|E]; [|discriminate].
  intro H; inversion H. cbn [stored_val fdec_val]. apply mval_eq_int. exact E.
Qed.

(* ---- the builders ---- *)

Definition wf_call (c : call) : Prop :=
  match c with
  | CUint u => 0 <= u
  | CDec (Dec _ c _) => 0 <= c <= p63
  | CBigDec (Dec _ c _) => 0 <= c
  | _ => True
  end.

(* the abstract decimal -> binary parse returned the exact value *)
Definition ext_exact (ext : dec -> option bfl) (d : dec) : Prop :=
  forall b, ext d = Some b -> mval_eq (bfl_val b) (dec_val d).

Lemma new_float_val f b : new_float f = Some b -> bfl_val b = fdec_val f.
Proof. destruct f; cbn; intro H; inversion H; reflexivity. Qed.

Lemma bfl_val_refl b : mval_eq (bfl_val b) (bfl_val b).
Proof. destruct b; reflexivity. Qed.

Lemma uint_to_bigint_exact u : uint_to_bigint u = u.
Proof. unfold uint_to_bigint. destruct (u <=? p63 - 1); reflexivity. Qed.

Lemma dec_int_value_nonneg c e z : 0 <= c -> dec_int_value false c e = Some z -> 0 <= z.
Proof.
  intro Hc. unfold dec_int_value. cbn [sgn]. destruct (Z.leb_spec 0 e) as [He|He].
  - intro H; inversion H. apply Z.mul_nonneg_nonneg; [exact Hc | apply Z.pow_nonneg; lia].
  - cbv zeta. destruct (c mod 10 ^ (- e) =? 0); [|discriminate]. intro H; inversion H.
    apply Z.div_pos; [exact Hc | apply Z.pow_pos_nonneg; lia].
Qed.


Lemma dec_int_value_zero neg e z : dec_int_value neg 0 e = Some z -> z = 0.
Proof.
  unfold dec_int_value. destruct (0 <=? e); destruct neg; cbn; intro H; inversion H; reflexivity.
Qed.

Section Build.
  Variables (ext_df ext_bdf : dec -> option bfl) (max2 max10 : Z).
  Notation build' := (build ext_df ext_bdf max2 max10).

  Lemma build_int_exact w c v :
    wf_call c -> build' c (TInt w) = Stored v -> mval_eq (stored_val v) (call_val c).
  Proof.
    intros Hwf. destruct c as [i|u|z|f|b|d|d]; cbn [build call_val].
    - intro H. apply int_from_i64_exact in H. subst v. reflexivity.
    - intro H. apply int_from_uint_exact in H; [subst v; reflexivity | exact Hwf].
    - destruct (in_i64 z); [|discriminate]. intro H. apply int_from_i64_exact in H. subst v. reflexivity.
    - intro H. apply int_from_float_exact in H as [z [-> Hz]]. exact Hz.
    - intro H. apply int_from_opt_exact in H as [i [Hi ->]]. apply bigfloat_to_int_exact, Hi.
    - intro H. apply int_from_opt_exact in H as [i [Hi ->]]. apply dfloat_int_exact, Hi.
    - intro H. apply int_from_opt_exact in H as [i [Hi ->]]. apply apd_int64_exact in Hi. tauto.
  Qed.

  Lemma uint_from_dec_exact w d v :
    wf_call (CDec d) -> uint_from_dec w d = Stored v -> mval_eq (stored_val v) (dec_val d).
  Proof.
    intros Hwf. destruct d as [neg c e|s|s]; cbn [uint_from_dec]; try discriminate.
    cbn [wf_call] in Hwf.
    destruct neg.
    - (* a negative sign: either the special negative zero or a negative coefficient *)
      destruct (Z.eq_dec c 0) as [->|Hc].
      + cbn. discriminate.
      + assert (dec_special (Dec true c e) = false) as Hs by (destruct c; try reflexivity; congruence).
        rewrite Hs. cbn [negb andb sgn].
        destruct (Z.ltb_spec (- c) 0); [discriminate | lia].
    - destruct (negb (dec_special (Dec false c e)) && (sgn false c <? 0)); [discriminate|].
      intro H. apply uint_from_opt_exact in H as [u [Hu ->]].
      apply dfloat_uint_exact; [exact Hwf | exact Hu].
  Qed.

  Lemma build_uint_exact w c v :
    wf_call c ->
    (forall d, c = CBigDec d -> ext_exact ext_bdf d) ->
    build' c (TUint w) = Stored v -> mval_eq (stored_val v) (call_val c).
  Proof.
    intros Hwf Hext. destruct c as [i|u|z|f|b|d|d]; cbn [build call_val].
    - destruct (i <? 0); [discriminate|]. intro H. apply uint_from_u64_exact in H. subst v. reflexivity.
    - intro H. apply uint_from_u64_exact in H. subst v. reflexivity.
    - destruct (in_u64 z); [|discriminate]. intro H. apply uint_from_u64_exact in H. subst v. reflexivity.
    - intro H. apply uint_from_float_exact in H as [u [-> Hu]]. exact Hu.
    - intro H. apply uint_from_opt_exact in H as [u [Hu ->]]. apply bigfloat_to_uint_exact, Hu.
    - apply uint_from_dec_exact. exact Hwf.
    - intro H. apply uint_from_opt_exact in H as [u [Hu ->]]. cbn [stored_val].
      unfold bigdec_to_uint in Hu.
      destruct (bigdec_negative_nonzero d) eqn:Hneg; [discriminate|].
      destruct (apd_int64 d) as [i|] eqn:Hi.
      + assert (0 <= i) as Hi0.
        { destruct d as [neg c e|s|s]; try discriminate. cbn [apd_int64] in Hi. cbn [wf_call] in Hwf.
          destruct (dec_int_value neg c e) as [z|] eqn:Hz; [|discriminate].
          destruct (in_i64 z); [|discriminate]. inversion Hi; subst z.
          cbn [bigdec_negative_nonzero] in Hneg. destruct neg.
          - cbn [andb] in Hneg. apply negb_false_iff, Z.eqb_eq in Hneg. subst c.
            apply dec_int_value_zero in Hz. lia.
          - eapply dec_int_value_nonneg; eauto. }
        apply apd_int64_exact in Hi as [Hv Hr].
        inversion Hu. rewrite Z.mod_small by (unfold p63, p64 in *; lia). exact Hv.
      + unfold bigdec_to_bf in Hu. destruct d as [neg c e|s|s]; try discriminate.
        destruct (ext_bdf (Dec neg c e)) as [b|] eqn:Hb; [|discriminate].
        eapply mval_eq_trans; [apply bigfloat_to_uint_exact, Hu | apply (Hext _ eq_refl), Hb].
  Qed.

  Lemma build_float_exact w c v :
    wf_call c ->
    build' c (TFloat w) = Stored v -> mval_eq (stored_val v) (call_val c).
  Proof.
    intros Hwf. destruct c as [i|u|z|f|b|d|d]; cbn [build call_val]; try discriminate.
    - apply float_from_int_exact.
    - apply float_from_uint_exact. exact Hwf.
    - apply float_from_bigint_exact.
    - destruct f as [|s|s m e]; try discriminate. destruct m; try discriminate.
      intro H; inversion H. cbn [stored_val fdec_val]. rewrite sgn_0. apply mval_eq_zero.
  Qed.

  Lemma build_bigint_exact c v :
    build' c TBigInt = Stored v -> mval_eq (stored_val v) (call_val c).
  Proof.
    destruct c as [i|u|z|f|b|d|d]; cbn [build call_val].
    - intro H; inversion H. reflexivity.
    - intro H; inversion H. cbn [stored_val]. rewrite uint_to_bigint_exact. reflexivity.
    - intro H; inversion H. reflexivity.
    - unfold bigint_from_float. destruct (new_float f) as [b|] eqn:Hb; [|discriminate].
      unfold bigint_from_opt. destruct (bigfloat_to_bigint max2 b) as [z|] eqn:Hz; [|discriminate].
      intro H; inversion H. cbn [stored_val]. rewrite <- (new_float_val _ _ Hb). eapply bigfloat_to_bigint_exact, Hz.
    - unfold bigint_from_opt. destruct (bigfloat_to_bigint max2 b) as [z|] eqn:Hz; [|discriminate].
      intro H; inversion H. eapply bigfloat_to_bigint_exact, Hz.
    - unfold bigint_from_opt. destruct (dfloat_bigint max10 d) as [z|] eqn:Hz; [|discriminate].
      intro H; inversion H. eapply dfloat_bigint_exact, Hz.
    - unfold bigint_from_opt. destruct (bigdec_to_bigint max10 d) as [z|] eqn:Hz; [|discriminate].
      intro H; inversion H. cbn [stored_val]. destruct d as [neg c e|s|s]; try discriminate.
      unfold bigdec_to_bigint in Hz. destruct (Z.ltb_spec e 0); [discriminate|].
      destruct (max10 <? e); [discriminate|]. inversion Hz.
      cbn [dec_val]. apply mval_eq_int_dec. destruct (Z.leb_spec 0 e); [|lia].
      symmetry. apply sgn_mul.
  Qed.

  Lemma build_bigfloat_exact c v :
    (forall d, c = CDec d -> ext_exact ext_df d) ->
    (forall d, c = CBigDec d -> ext_exact ext_bdf d) ->
    build' c TBigFloat = Stored v -> mval_eq (stored_val v) (call_val c).
  Proof.
    intros Hdf Hbdf. destruct c as [i|u|z|f|b|d|d]; cbn [build call_val].
    - intro H; inversion H. cbn [stored_val bfl_val]. rewrite sgn_abs. reflexivity.
    - intro H; inversion H. reflexivity.
    - intro H; inversion H. cbn [stored_val bf_set_int bfl_val]. unfold bf_set_int. cbn [bfl_val]. rewrite sgn_abs. reflexivity.
    - unfold bigfloat_from_opt. destruct (new_float f) as [b|] eqn:Hb; [|discriminate].
      intro H; inversion H. cbn [stored_val]. rewrite <- (new_float_val _ _ Hb). apply bfl_val_refl.
    - intro H; inversion H. apply bfl_val_refl.
    - unfold bigfloat_from_opt. destruct (dfloat_to_bf ext_df d) as [b|] eqn:Hb; [|discriminate].
      intro H; inversion H. cbn [stored_val]. clear H.
      assert (ext_df d = Some b -> mval_eq (bfl_val b) (dec_val d)) as Hx by (apply (Hdf _ eq_refl)).
      destruct d as [neg c e|s|s]; cbn [dfloat_to_bf] in Hb.
      + destruct neg, c; try (apply Hx; exact Hb).
        * inversion Hb. cbn. lia.
        * destruct e; try (apply Hx; exact Hb). inversion Hb. cbn. lia.
      + inversion Hb. reflexivity.
      + discriminate.
    - unfold bigfloat_from_opt. destruct (bigdec_to_bf ext_bdf d) as [b|] eqn:Hb; [|discriminate].
      intro H; inversion H. cbn [stored_val]. unfold bigdec_to_bf in Hb.
      destruct d as [neg c e|s|s]; try discriminate. apply (Hbdf _ eq_refl), Hb.
  Qed.

  Lemma build_exact c t v :
    wf_call c ->
    (forall d, c = CDec d -> ext_exact ext_df d) ->
    (forall d, c = CBigDec d -> ext_exact ext_bdf d) ->
    build' c t = Stored v -> mval_eq (stored_val v) (call_val c).
  Proof.
    intros Hwf Hdf Hbdf. destruct t as [w|w|w| |].
    - apply build_int_exact; assumption.
    - apply build_uint_exact; assumption.
    - apply build_float_exact; assumption.
    - apply build_bigint_exact; assumption.
    - apply build_bigfloat_exact; assumption.
  Qed.
End Build.

(* ------------------------------------------------------------------ *)
(* events                                                              *)

Lemma route_wf s : wf_src s = true -> wf_call (route s).
Proof.
  destruct s as [n|n|z|z|b|sg|b|d|d]; cbn [route wf_src wf_call]; intro H; try exact I.
  - apply in_u64_spec in H. lia.
  - destruct (n =? 0); [exact I|]. destruct (n <=? p63 - 1); exact I.
  - destruct d as [neg c e|s|s]; try exact I. cbn [wf_dec] in H.
    apply andb_true_iff in H as [H1 H2]. apply Z.leb_le in H1, H2. lia.
  - destruct d as [neg c e|s|s]; try exact I. cbn [wf_dec] in H. apply Z.leb_le in H. exact H.
Qed.

(* Whatever is stored is the value of the event, provided the decimal -> binary parse returned
   the exact value whenever it was consulted. *)
Theorem conv_exact ext_df ext_bdf max2 max10 s t v :
  wf_src s = true -> in_scope s t = true ->
  (forall d, s = SDec d -> ext_exact ext_df d) ->
  (forall d, s = SBigDec d -> ext_exact ext_bdf d) ->
  conv ext_df ext_bdf max2 max10 s t = Stored v ->
  mval_eq (stored_val v) (src_val s).
Proof.
  intros Hwf _ Hdf Hbdf. unfold conv.
  pose proof (route_wf s Hwf) as Hwc.
  assert (forall d, route s = CDec d -> ext_exact ext_df d) as Hdf'.
  { intros d Hd. apply Hdf. destruct s; cbn [route] in Hd; try discriminate.
    - destruct (_ =? 0); [discriminate|]. destruct (_ <=? _); discriminate.
    - congruence. }
  assert (forall d, route s = CBigDec d -> ext_exact ext_bdf d) as Hbdf'.
  { intros d Hd. apply Hbdf. destruct s; cbn [route] in Hd; try discriminate.
    - destruct (_ =? 0); [discriminate|]. destruct (_ <=? _); discriminate.
    - congruence. }
  intro H. pose proof (build_exact _ _ _ _ _ _ _ Hwc Hdf' Hbdf' H) as HB. clear H Hdf' Hbdf' Hwc.
  destruct s as [n|n|z|z|b|sg|b|d|d]; cbn [route] in HB; try exact HB.
  (* SNeg *)
  cbn [src_val].
  destruct (Z.eqb_spec n 0) as [E|E].
  - subst n. eapply mval_eq_trans; [exact HB|]. cbn. lia.
  - destruct (n <=? p63 - 1); exact HB.
Qed.

(* the (event, destination) pairs on which the builder calls the decimal -> binary parse *)
Definition consults_parse (s : src) (t : dst) : bool :=
  match s, t with
  | SDec _, TBigFloat | SBigDec _, TBigFloat | SBigDec _, TUint _ => true
  | _, _ => false
  end.

Lemma conv_no_parse ext_df ext_bdf max2 max10 s t :
  consults_parse s t = false ->
  conv ext_df ext_bdf max2 max10 s t = conv (fun _ => None) (fun _ => None) max2 max10 s t.
Proof.
  intro Hcp. unfold conv.
  destruct s as [n|n|z|z|b|sg|b|d|d], t as [w|w|w| |]; try reflexivity; try discriminate Hcp.
  all: cbn [route]; destruct (_ =? 0); [reflexivity|]; destruct (_ <=? _); reflexivity.
Qed.

(* Everywhere else the result does not depend on the parse and is exact, unconditionally. *)
Theorem conv_exact_no_parse ext_df ext_bdf max2 max10 s t v :
  wf_src s = true -> in_scope s t = true -> consults_parse s t = false ->
  conv ext_df ext_bdf max2 max10 s t = Stored v ->
  mval_eq (stored_val v) (src_val s).
Proof.
  intros Hwf Hsc Hcp H. rewrite conv_no_parse in H by exact Hcp.
  revert H. apply conv_exact; try assumption.
  - intros d _ b Hb. discriminate.
  - intros d _ b Hb. discriminate.
Qed.

Theorem conv_exact_int ext_df ext_bdf max2 max10 s w v :
  wf_src s = true ->
  conv ext_df ext_bdf max2 max10 s (TInt w) = Stored v ->
  mval_eq (stored_val v) (src_val s).
Proof.
  intros Hwf. apply conv_exact_no_parse; [exact Hwf | reflexivity | destruct s; reflexivity].
Qed.

Theorem conv_exact_bigint ext_df ext_bdf max2 max10 s v :
  wf_src s = true ->
  conv ext_df ext_bdf max2 max10 s TBigInt = Stored v ->
  mval_eq (stored_val v) (src_val s).
Proof.
  intros Hwf. apply conv_exact_no_parse; [exact Hwf | reflexivity | destruct s; reflexivity].
Qed.

Theorem conv_exact_float ext_df ext_bdf max2 max10 s w v :
  wf_src s = true -> src_is_integer_form s = true ->
  conv ext_df ext_bdf max2 max10 s (TFloat w) = Stored v ->
  mval_eq (stored_val v) (src_val s).
Proof.
  intros Hwf Hint. apply conv_exact_no_parse; [exact Hwf | exact Hint | destruct s; reflexivity].
Qed.

(* ------------------------------------------------------------------ *)
(* what remains false: the rounding parse                               *)

Definition violates (ext_df ext_bdf : dec -> option bfl) (s : src) (t : dst) : Prop :=
  exists v, wf_src s = true /\ in_scope s t = true /\
            conv ext_df ext_bdf 166 50 s t = Stored v /\ ~ mval_eq (stored_val v) (src_val s).

(* if the library's parse of 1e19 at 4 bits is the correctly rounded one (it is: ParseCase of the
   correspondence run), 1e19 lands in a uint64 as 10376293541461622784 *)
Lemma bigdecimal_rounded_into_uint ext_df ext_bdf :
  ext_bdf (Dec false 1 19) = parse_int_dec (bigdec_prec (Dec false 1 19)) (Dec false 1 19) ->
  violates ext_df ext_bdf (SBigDec (Dec false 1 19)) (TUint I64).
Proof.
  intro Hp. exists (StUint 10376293541461622784). repeat split; try reflexivity.
  - unfold conv. cbn [route build]. unfold bigdec_to_uint. cbn [bigdec_negative_nonzero andb].
    change (apd_int64 (Dec false 1 19)) with (@None Z). cbn [bigdec_to_bf]. rewrite Hp. vm_compute. reflexivity.
  - vm_compute. let HH := fresh in (intro HH; discriminate HH).
Qed.

(* no power of two is a multiple of five *)
Lemma pow2_mod5 y : 0 <= y -> 2 ^ y mod 5 <> 0.
Proof.
  revert y. apply natlike_ind.
  - vm_compute. discriminate.
  - intros y Hy IH. rewrite Z.pow_succ_r by exact Hy. rewrite Z.mul_mod by lia.
    pose proof (Z.mod_pos_bound (2 ^ y) 5 ltac:(lia)) as Hb.
    set (r := 2 ^ y mod 5) in *. change (2 mod 5) with 2.
    assert (r = 1 \/ r = 2 \/ r = 3 \/ r = 4) as [->|[->|[->| ->]]] by lia; vm_compute; discriminate.
Qed.

(* one tenth is not a binary fraction: whatever big.Float the parse returns for it is inexact *)
Lemma tenth_not_dyadic b : ~ mval_eq (bfl_val b) (MFin 1 0 (-1)).
Proof.
  destruct b as [s m e p|s]; [|simpl; tauto]. cbn [bfl_val]. unfold mval_eq.
  change (Z.min 0 (-1)) with (-1). change (0 - -1) with 1. change (-1 - -1) with 0.
  change (10 ^ 1) with 10. change (10 ^ 0) with 1.
  intro H.
  assert (0 <= 0 - Z.min e 0) as Hy by lia.
  apply (pow2_mod5 _ Hy). rewrite Z.mul_1_l, Z.mul_1_r in H. rewrite <- H.
  replace (sgn s m * 2 ^ (e - Z.min e 0) * 10) with ((sgn s m * 2 ^ (e - Z.min e 0) * 2) * 5) by ring.
  apply Z_mod_mult.
Qed.

(* a decimal 0.1 that is stored in a big.Float at all is stored inexactly (no error is raised,
   with AllowLossyFloatConversion on or off: no code reads the knob) *)
Lemma decimal_tenth_into_bigfloat ext_df ext_bdf b :
  ext_df (Dec false 1 (-1)) = Some b ->
  violates ext_df ext_bdf (SDec (Dec false 1 (-1))) TBigFloat.
Proof.
  intro Hb. exists (StBigFloat b). repeat split; try reflexivity.
  - unfold conv. cbn [route build dfloat_to_bf]. rewrite Hb. reflexivity.
  - cbn [stored_val src_val dec_val sgn]. apply tenth_not_dyadic.
Qed.

(* so the property as stated fails for the library's parse *)
Lemma full_refuted ext_df ext_bdf :
  ext_bdf (Dec false 1 19) = parse_int_dec (bigdec_prec (Dec false 1 19)) (Dec false 1 19) ->
  ~ (forall max2 max10 s t v,
       wf_src s = true -> in_scope s t = true ->
       conv ext_df ext_bdf max2 max10 s t = Stored v ->
       mval_eq (stored_val v) (src_val s)).
Proof.
  intros Hp HF.
  destruct (bigdecimal_rounded_into_uint ext_df ext_bdf Hp) as [v [Hwf [Hsc [Hc Hn]]]].
  exact (Hn (HF _ _ _ _ _ Hwf Hsc Hc)).
Qed.
