(* Proofs about Model/NumConv.v (property C19). *)
From CE Require Import Model.NumConv.
From Coq Require Import ZArith Lia Bool.
Open Scope Z_scope.

Ltac Zify.zify_post_hook ::= Z.div_mod_to_equations.

(* ------------------------------------------------------------------ *)
(* small arithmetic facts                                              *)

Lemma sgn_mul s a b : sgn s (a * b) = sgn s a * b.
Proof. destruct s; simpl; lia. Qed.

Lemma sgn_invol s a : sgn s (sgn s a) = a.
Proof. destruct s; simpl; lia. Qed.

Lemma sgn_abs v : sgn (v <? 0) (Z.abs v) = v.
Proof. destruct (Z.ltb_spec v 0); simpl; lia. Qed.

Lemma sgn_0 s : sgn s 0 = 0.
Proof. destruct s; reflexivity. Qed.

Lemma pow2_pos k : 0 < 2 ^ k \/ 2 ^ k = 0.
Proof. destruct (Z.le_gt_cases 0 k); [left; apply Z.pow_pos_nonneg; lia | right; apply Z.pow_neg_r; lia]. Qed.

Lemma pow_pos_nonneg' b k : 0 < b -> 0 <= k -> 0 < b ^ k.
Proof. intros; apply Z.pow_pos_nonneg; assumption. Qed.

Lemma in_i64_spec z : in_i64 z = true <-> - p63 <= z < p63.
Proof. unfold in_i64. rewrite andb_true_iff, Z.leb_le, Z.ltb_lt. tauto. Qed.

Lemma in_u64_spec z : in_u64 z = true <-> 0 <= z < p64.
Proof. unfold in_u64. rewrite andb_true_iff, Z.leb_le, Z.ltb_lt. tauto. Qed.

Lemma wraps_range w z : - iw_half w <= wraps w z < iw_half w.
Proof. unfold wraps. destruct w; cbn [iw_half iw_mod]; lia. Qed.

Lemma wraps_id w z : - iw_half w <= z < iw_half w -> wraps w z = z.
Proof. unfold wraps. destruct w; cbn [iw_half iw_mod]; lia. Qed.

Lemma iw_half_le w : 128 <= iw_half w <= p63.
Proof. unfold p63. destruct w; cbn; lia. Qed.

(* ------------------------------------------------------------------ *)
(* mval_eq is an equivalence on finite values and infinities           *)

Lemma mval_eq_refl_fin n a b : mval_eq (MFin n a b) (MFin n a b).
Proof. reflexivity. Qed.

Lemma mval_eq_sym x y : mval_eq x y -> mval_eq y x.
Proof.
  destruct x as [n1 a1 b1| |], y as [n2 a2 b2| |]; simpl; try tauto; try congruence.
  rewrite (Z.min_comm a2 a1), (Z.min_comm b2 b1). congruence.
Qed.

(* value scaled by 2^-A 10^-B, an integer when A <= a and B <= b *)
Definition scaled (n a b A B : Z) : Z := n * 2 ^ (a - A) * 10 ^ (b - B).

Lemma scaled_shift n a b A B A' B' :
  A' <= A <= a -> B' <= B <= b ->
  scaled n a b A' B' = scaled n a b A B * (2 ^ (A - A') * 10 ^ (B - B')).
Proof.
  intros HA HB. unfold scaled.
  replace (a - A') with ((a - A) + (A - A')) by lia.
  replace (b - B') with ((b - B) + (B - B')) by lia.
  rewrite !Z.pow_add_r by lia. ring.
Qed.

Lemma mval_eq_scaled n1 a1 b1 n2 a2 b2 A B :
  A <= Z.min a1 a2 -> B <= Z.min b1 b2 ->
  (mval_eq (MFin n1 a1 b1) (MFin n2 a2 b2) <-> scaled n1 a1 b1 A B = scaled n2 a2 b2 A B).
Proof.
  intros HA HB. simpl. fold (scaled n1 a1 b1 (Z.min a1 a2) (Z.min b1 b2)).
  fold (scaled n2 a2 b2 (Z.min a1 a2) (Z.min b1 b2)).
  rewrite (scaled_shift n1 a1 b1 (Z.min a1 a2) (Z.min b1 b2) A B) by lia.
  rewrite (scaled_shift n2 a2 b2 (Z.min a1 a2) (Z.min b1 b2) A B) by lia.
  assert (0 < 2 ^ (Z.min a1 a2 - A) * 10 ^ (Z.min b1 b2 - B)) as Hpos.
  { apply Z.mul_pos_pos; apply Z.pow_pos_nonneg; lia. }
  split; intro H.
  - rewrite H. reflexivity.
  - apply Z.mul_reg_r in H; [exact H | lia].
Qed.

Lemma mval_eq_trans x y z : mval_eq x y -> mval_eq y z -> mval_eq x z.
Proof.
  destruct x as [n1 a1 b1|s1|], y as [n2 a2 b2|s2|], z as [n3 a3 b3|s3|]; try (simpl; tauto); try (simpl; congruence).
  intros H12 H23.
  set (A := Z.min a1 (Z.min a2 a3)). set (B := Z.min b1 (Z.min b2 b3)).
  apply (mval_eq_scaled _ _ _ _ _ _ A B) in H12; [| subst A; lia | subst B; lia].
  apply (mval_eq_scaled _ _ _ _ _ _ A B) in H23; [| subst A; lia | subst B; lia].
  apply (mval_eq_scaled _ _ _ _ _ _ A B); [subst A; lia | subst B; lia | congruence].
Qed.

Lemma mval_eq_int n v : n = v -> mval_eq (MFin n 0 0) (MFin v 0 0).
Proof. intros ->. reflexivity. Qed.

(* an integer z against sm * base^e, for base 2 (slot a) *)
Lemma mval_eq_int_dy z sm e :
  (if 0 <=? e then sm * 2 ^ e =? z else sm =? z * 2 ^ (- e)) = true ->
  mval_eq (MFin z 0 0) (MFin sm e 0).
Proof.
  intro H. simpl. destruct (Z.leb_spec 0 e) as [He|He]; apply Z.eqb_eq in H.
  - rewrite Z.min_l by lia. replace (0 - 0) with 0 by lia. replace (e - 0) with e by lia.
    cbn [Z.pow Z.pow_pos Pos.iter]. lia.
  - rewrite Z.min_r by lia. replace (e - e) with 0 by lia. replace (0 - e) with (- e) by lia.
    replace (0 - 0) with 0 by lia. cbn [Z.pow Z.pow_pos Pos.iter]. lia.
Qed.

(* the same for base 10 (slot b) *)
Lemma mval_eq_int_dec z sc e :
  (if 0 <=? e then sc * 10 ^ e = z else sc = z * 10 ^ (- e)) ->
  mval_eq (MFin z 0 0) (MFin sc 0 e).
Proof.
  intro H. simpl. destruct (Z.leb_spec 0 e) as [He|He].
  - rewrite Z.min_l by lia. replace (0 - 0) with 0 by lia. replace (e - 0) with e by lia.
    cbn [Z.pow Z.pow_pos Pos.iter]. lia.
  - rewrite Z.min_r by lia. replace (e - e) with 0 by lia. replace (0 - e) with (- e) by lia.
    replace (0 - 0) with 0 by lia. cbn [Z.pow Z.pow_pos Pos.iter]. lia.
Qed.

Lemma mval_eq_zero a b a' b' : mval_eq (MFin 0 a b) (MFin 0 a' b').
Proof. simpl. lia. Qed.

(* ------------------------------------------------------------------ *)
(* rounding                                                            *)

Lemma bitlen_small p n : 0 <= p -> n < 2 ^ p -> bitlen n <= p.
Proof.
  intros Hp Hn. unfold bitlen. destruct (Z.leb_spec n 0) as [H0|H0]; [lia|].
  assert (Z.log2 n < p) by (apply Z.log2_lt_pow2; lia). lia.
Qed.

Lemma rne_mag_small p n : 0 <= p -> n < 2 ^ p -> rne_mag p n = n.
Proof.
  intros Hp Hn. unfold rne_mag. pose proof (bitlen_small p n Hp Hn).
  destruct (Z.leb_spec (bitlen n) p); [reflexivity | lia].
Qed.

Lemma rne_small z : - 2 ^ 53 < z < 2 ^ 53 -> rne 53 z = z.
Proof.
  intro H. unfold rne. destruct (Z.ltb_spec z 0).
  - rewrite rne_mag_small; lia.
  - rewrite rne_mag_small; lia.
Qed.

Lemma rne_mag_nonneg p n : 0 <= n -> 0 <= rne_mag p n.
Proof.
  intro Hn. unfold rne_mag. destruct (bitlen n <=? p); [exact Hn|].
  set (s := bitlen n - p).
  assert (0 <= 2 ^ s) by (apply Z.pow_nonneg; lia).
  assert (0 <= n / 2 ^ s) by (destruct (pow2_pos s) as [Hp|Hp]; [apply Z.div_pos; lia | rewrite Hp, Zdiv_0_r; lia]).
  destruct (_ || _); apply Z.mul_nonneg_nonneg; lia.
Qed.

(* ------------------------------------------------------------------ *)
(* values of builder calls                                             *)

Definition call_val (c : call) : mval :=
  match c with
  | CInt v | CUint v | CBigInt v => MFin v 0 0
  | CFloat f => fdec_val f
  | CBigFloat b => bfl_val b
  | CDec d | CBigDec d => dec_val d
  end.

(* the float comparison f == float(R) forces f to be the integer R, and truncation returns it *)
Lemma f_eq_int_trunc s m e R : f_eq_int (FFin s m e) R = true -> sgn s (dy_trunc m e) = R.
Proof.
  unfold f_eq_int, dy_trunc. destruct (Z.leb_spec 0 e) as [He|He]; intro H; apply Z.eqb_eq in H.
  - rewrite sgn_mul. exact H.
  - assert (m = sgn s R * 2 ^ (- e)) as Hm.
    { rewrite <- sgn_mul, <- H, sgn_invol. reflexivity. }
    rewrite Hm, Z.div_mul by (apply Z.pow_nonzero; lia). apply sgn_invol.
Qed.

Lemma f_eq_int_val f R : f_eq_int f R = true -> mval_eq (MFin R 0 0) (fdec_val f).
Proof.
  destruct f as [|s|s m e]; try discriminate. intro H. apply mval_eq_int_dy. exact H.
Qed.

(* ---- integer destinations ---- *)

Lemma int_from_i64_exact w i s : int_from_i64 w i = Stored s -> s = StInt i.
Proof.
  unfold int_from_i64. destruct (Z.eqb_spec (wraps w i) i) as [E|E]; [|discriminate].
  intro H; inversion H; congruence.
Qed.

Lemma int_from_opt_exact w o s : int_from_opt w o = Stored s -> exists i, o = Some i /\ s = StInt i.
Proof.
  destruct o as [i|]; [|discriminate]. intro H. exists i. split; [reflexivity|]. eapply int_from_i64_exact; eauto.
Qed.

Lemma int_from_uint_exact w u s : 0 <= u -> int_from_uint w u = Stored s -> s = StInt u.
Proof.
  intros Hu. unfold int_from_uint. destruct (Z.ltb_spec (p63 - 1) u) as [H1|H1]; [discriminate|].
  pose proof (wraps_range w u) as Hr. pose proof (iw_half_le w) as Hh.
  destruct (Z.eqb_spec (wraps w u mod p64) u) as [E|E]; [|discriminate].
  intro H; inversion H. f_equal.
  unfold p63, p64 in *. set (st := wraps w u) in *. lia.
Qed.

Lemma wraps_minint w : wraps w (- p63) = - p63 \/ wraps w (- p63) = 0.
Proof. destruct w; vm_compute; tauto. Qed.

Lemma rne_minint : rne 53 (- p63) = - p63.
Proof. vm_compute. reflexivity. Qed.
Lemma rne_zero : rne 53 0 = 0.
Proof. vm_compute. reflexivity. Qed.

Lemma int_from_float_core w t :
  rne 53 (wraps w (if in_i64 t then t else - p63)) = t ->
  wraps w (if in_i64 t then t else - p63) = t.
Proof.
  destruct (in_i64 t) eqn:Hin.
  - apply in_i64_spec in Hin. pose proof (wraps_range w t) as Hr. destruct w.
    1-3: (intro H; rewrite rne_small in H; [exact H | cbn [iw_half] in Hr; lia]).
    intros _. apply wraps_id. exact Hin.
  - intro H. destruct (wraps_minint w) as [E|E]; rewrite E in H |- *.
    + rewrite rne_minint in H. subst t. vm_compute in Hin. discriminate.
    + rewrite rne_zero in H. subst t. vm_compute in Hin. discriminate.
Qed.

Lemma int_from_float_exact w f s :
  int_from_float w f = Stored s -> exists z, s = StInt z /\ mval_eq (MFin z 0 0) (fdec_val f).
Proof.
  unfold int_from_float.
  destruct (f_eq_int f (rne 53 (wraps w (cvt64 f)))) eqn:HE; [|discriminate].
  intro H; inversion H; subst s. eexists. split; [reflexivity|].
  destruct f as [|sg|sg m e]; try discriminate.
  pose proof (f_eq_int_trunc _ _ _ _ HE) as HT.
  pose proof (f_eq_int_val _ _ HE) as HV.
  cbn [cvt64] in *. cbv zeta in *.
  remember (sgn sg (dy_trunc m e)) as t eqn:Et.
  pose proof (int_from_float_core w t) as HC.
  remember (wraps w (if in_i64 t then t else - p63)) as st eqn:Est.
  assert (st = t) as E0 by (apply HC; congruence).
  assert (rne 53 st = st) as E by congruence.
  rewrite E in HV. exact HV.
Qed.

(* ---- big.Float and decimal integer values ---- *)

Lemma bf_int_value_exact b z : bf_int_value b = Some z -> mval_eq (MFin z 0 0) (bfl_val b).
Proof.
  destruct b as [s m e p|s]; [|discriminate]. cbn [bf_int_value bfl_val].
  intro H. apply mval_eq_int_dy.
  destruct (Z.leb_spec 0 e) as [He|He].
  - inversion H. rewrite sgn_mul. apply Z.eqb_refl.
  - destruct (Z.eqb_spec (m mod 2 ^ (- e)) 0) as [E|E]; [|discriminate]. inversion H.
    apply Z.eqb_eq. rewrite <- sgn_mul. f_equal.
    assert (0 < 2 ^ (- e)) by (apply Z.pow_pos_nonneg; lia).
    rewrite Z.mul_comm. apply Z_div_exact_full_2; lia.
Qed.

Lemma bf_int64_exact b i : bf_int64 b = Some i -> bf_int_value b = Some i.
Proof. unfold bf_int64. destruct (bf_int_value b) as [z|]; [|discriminate]. destruct (in_i64 z); congruence. Qed.

Lemma bf_uint64_exact b u : bf_uint64 b = Some u -> bf_int_value b = Some u /\ 0 <= u < p64.
Proof.
  unfold bf_uint64. destruct (bf_int_value b) as [z|]; [|discriminate].
  destruct (in_u64 z) eqn:E; [|discriminate]. intro H; inversion H; subst. apply in_u64_spec in E. tauto.
Qed.

Lemma bigfloat_to_int_exact b i : bigfloat_to_int b = Some i -> mval_eq (MFin i 0 0) (bfl_val b).
Proof.
  unfold bigfloat_to_int. destruct (bf_int64 b) as [z|] eqn:E; [|discriminate].
  destruct (rne 53 z =? z); [|discriminate]. intro H; inversion H; subst.
  apply bf_int_value_exact, bf_int64_exact, E.
Qed.

Lemma bigfloat_to_uint_exact b u : bigfloat_to_uint b = Some u -> mval_eq (MFin u 0 0) (bfl_val b).
Proof.
  unfold bigfloat_to_uint. destruct (bf_uint64 b) as [z|] eqn:E; [|discriminate].
  destruct (rne 53 z =? z); [|discriminate]. intro H; inversion H; subst.
  apply bf_int_value_exact. apply bf_uint64_exact in E. tauto.
Qed.

Lemma bigfloat_to_bigint_exact max2 b z : bigfloat_to_bigint max2 b = Some z -> mval_eq (MFin z 0 0) (bfl_val b).
Proof. unfold bigfloat_to_bigint. destruct (max2 <? bf_mantexp b); [discriminate|]. apply bf_int_value_exact. Qed.

Lemma dec_int_value_exact neg c e z :
  dec_int_value neg c e = Some z -> mval_eq (MFin z 0 0) (dec_val (Dec neg c e)).
Proof.
  unfold dec_int_value. cbn [dec_val]. intro H. apply mval_eq_int_dec.
  destruct (Z.leb_spec 0 e) as [He|He].
  - inversion H. symmetry. apply sgn_mul.
  - cbv zeta in H. destruct (Z.eqb_spec (c mod 10 ^ (- e)) 0) as [E|E]; [|discriminate]. inversion H.
    rewrite <- sgn_mul. f_equal.
    assert (0 < 10 ^ (- e)) by (apply Z.pow_pos_nonneg; lia).
    rewrite Z.mul_comm. apply Z_div_exact_full_2; lia.
Qed.

Lemma apd_int64_exact d i : apd_int64 d = Some i -> mval_eq (MFin i 0 0) (dec_val d) /\ - p63 <= i < p63.
Proof.
  destruct d as [neg c e|s|s]; try discriminate. cbn [apd_int64].
  destruct (dec_int_value neg c e) as [z|] eqn:E; [|discriminate].
  destruct (in_i64 z) eqn:Hin; [|discriminate]. intro H; inversion H; subst.
  split; [apply dec_int_value_exact, E | apply in_i64_spec, Hin].
Qed.

Lemma pow10_bound e : 0 <= e < 20 -> 0 < 10 ^ e < p64.
Proof.
  intro He. split; [apply Z.pow_pos_nonneg; lia|].
  apply Z.le_lt_trans with (10 ^ 19); [apply Z.pow_le_mono_r; lia | vm_compute; reflexivity].
Qed.

(* DFloat.Int: the division check detects every int64 overflow of the multiplication *)
Lemma dfloat_int_exact d r : dfloat_int d = Some r -> mval_eq (MFin r 0 0) (dec_val d).
Proof.
  destruct d as [neg c e|s|s]; try discriminate. unfold dfloat_int.
  destruct (dec_special (Dec neg c e)); [discriminate|].
  destruct (Z.ltb_spec e 0) as [He|He]; [discriminate|].
  destruct (Z.leb_spec 19 e) as [He'|He']; [discriminate|].
  cbv zeta. set (k := 10 ^ e). set (cs := sgn neg c).
  destruct (Z.ltb_spec (wraps I64 (cs * k)) 0) as [Hn|Hn]; [discriminate|]. cbn [orb].
  destruct (Z.eqb_spec (Z.quot (wraps I64 (cs * k)) k) cs) as [Hq|Hq]; [|discriminate]. cbn [negb].
  intro H; inversion H as [Hr]. clear H.
  pose proof (pow10_bound e ltac:(lia)) as Hk. fold k in Hk.
  cbn [dec_val]. apply mval_eq_int_dec. destruct (Z.leb_spec 0 e); [|lia]. fold k. fold cs.
  rewrite Z.quot_div_nonneg in Hq by lia.
  unfold wraps in *. cbn [iw_half iw_mod] in *. unfold p64 in Hk.
  set (P := cs * k) in *.
  assert (k * cs = P) as HP by (subst P; ring).
  set (r0 := (P + 9223372036854775808) mod 18446744073709551616 - 9223372036854775808) in *.
  assert (k * (r0 / k) <= r0 < k * (r0 / k) + k) as Hd.
  { pose proof (Z.div_mod r0 k ltac:(lia)). pose proof (Z.mod_pos_bound r0 k ltac:(lia)). lia. }
  rewrite Hq, HP in Hd. subst r0. lia.
Qed.

(* DFloat.Uint on a non-negative coefficient *)
Lemma dfloat_uint_exact c e r :
  0 <= c <= p63 -> dfloat_uint (Dec false c e) = Some r -> mval_eq (MFin r 0 0) (dec_val (Dec false c e)).
Proof.
  intro Hc. unfold dfloat_uint. cbn [dec_special].
  destruct (Z.ltb_spec e 0) as [He|He]; [discriminate|].
  destruct (Z.leb_spec 20 e) as [He'|He']; [discriminate|].
  cbv zeta. cbn [sgn]. set (k := 10 ^ e).
  assert (c mod p64 = c) as Hu by (apply Z.mod_small; unfold p63, p64 in *; lia). rewrite Hu.
  destruct (Z.eqb_spec ((c * k) mod p64 / k) c) as [Hq|Hq]; [|discriminate].
  intro H; inversion H as [Hr]. clear H.
  pose proof (pow10_bound e ltac:(lia)) as Hk. fold k in Hk.
  cbn [dec_val sgn]. apply mval_eq_int_dec. destruct (Z.leb_spec 0 e); [|lia]. fold k.
  unfold p64 in *. set (P := c * k) in *.
  assert (k * c = P) as HP by (subst P; ring).
  set (r0 := P mod 18446744073709551616) in *.
  assert (k * (r0 / k) <= r0 < k * (r0 / k) + k) as Hd.
  { pose proof (Z.div_mod r0 k ltac:(lia)). pose proof (Z.mod_pos_bound r0 k ltac:(lia)). lia. }
  rewrite Hq, HP in Hd. subst r0. lia.
Qed.

Lemma dfloat_bigint_exact max10 d z : dfloat_bigint max10 d = Some z -> mval_eq (MFin z 0 0) (dec_val d).
Proof.
  destruct d as [neg c e|s|s]; try discriminate. unfold dfloat_bigint.
  destruct (dec_special (Dec neg c e)); [discriminate|].
  destruct (max10 <? e); [discriminate|].
  destruct (Z.ltb_spec e 0) as [He|He]; [discriminate|].
  intro H; inversion H. cbn [dec_val]. apply mval_eq_int_dec.
  destruct (Z.leb_spec 0 e); [reflexivity | lia].
Qed.

