(* C09 - truncated documents: proofs about Model/Trunc.v.

   Part R (validator): OnEndDocument is accepted only in the end-of-document state, that
     state accepts nothing else, and the terminal state accepts nothing: a list of accepted
     events contains at most one EEndDoc, and it is the last event.
   Part D (decoder): a read that succeeds on the input p ++ q either succeeds in the same way
     on p alone (consuming the same bytes) or fails on p; lifted to tokens, to chunked arrays
     (whatever the fuel), to the main decode loop and to Decoder.Decode.
   Part T: no proper prefix of a document that Decode accepts (decoder and validator) is
     accepted: truncation_rejected. *)
From CE Require Import Model.Trunc Model.Cbe Model.Rules Proofs.RulesInvariants.
From Coq Require Import ZifyN ZifyNat ZifyBool.
Open Scope N_scope.

(* ------------------------------------------------------------------ *)
(* Part R: the validator                                                *)
(* ------------------------------------------------------------------ *)

Lemma call_current_unfold cfg m a c :
  call_current cfg m a c =
  exec_prims cfg (call_rule 5 cfg) (e_rule (cur c)) m a (dispatch (e_rule (cur c)) m) c.
Proof. reflexivity. Qed.

(* every method except OnEndDocument is refused in the end-of-document state *)
Lemma end_document_only cfg m a c :
  e_rule (cur c) = REndDocument -> m <> MEndDocument -> call_current cfg m a c = None.
Proof.
  intros E Hm. rewrite call_current_unfold, E. apply exec_prims_reject.
  destruct m; try reflexivity. congruence.
Qed.

Lemma terminal_refuses cfg m a c :
  e_rule (cur c) = RTerminal -> call_current cfg m a c = None.
Proof.
  intro E. rewrite call_current_unfold, E. apply exec_prims_reject. destruct m; reflexivity.
Qed.

Lemma end_document_needs_state cfg a c c' :
  call_current cfg MEndDocument a c = Some c' -> e_rule (cur c) = REndDocument /\ e_rule (cur c') = RTerminal.
Proof.
  rewrite call_current_unfold. destruct (e_rule (cur c)) eqn:E;
    try (intro H; exfalso; revert H; cbn [dispatch]; rewrite exec_prims_reject by reflexivity; discriminate).
  cbn [dispatch exec_prims exec_prim]. destruct (fwd c); [|discriminate].
  intro H; inversion H; subst; clear H. split; reflexivity.
Qed.

Lemma nno_rule cfg real c c1 : notify_new_object cfg real c = Some c1 -> e_rule (cur c1) = e_rule (cur c).
Proof. intro H. apply nno_fields in H. tauto. Qed.

Lemma plan_meth_end cfg e pl : ev_plan cfg e = Some pl -> p_meth pl = MEndDocument -> e = EEndDoc /\ p_nno pl = None.
Proof.
  destruct e as [| |v| |m t| |b| | |n|n|z|[z|]|bits|[bf|]|[| | |]|[[| | |]|]|s|b|s| | |id|id| | | |id|id|t cnt d|t d|mt d|ct d|ct d|t|mt|t ct|n m|d];
    cbn [ev_plan mkplan]; intro H;
    repeat match goal with H : (if ?b then _ else _) = Some _ |- _ => destruct b; try discriminate H end;
    unfold mkplan in H; inversion H; subst; clear H; cbn [p_meth p_nno]; intro X; try discriminate X; split; reflexivity.
Qed.

(* in the end-of-document state the only event accepted is EEndDoc, and it leads to the terminal state *)
Lemma rstep_in_end_document cfg c e c' o :
  e_rule (cur c) = REndDocument -> rstep cfg c e = Some (c', o) -> e = EEndDoc /\ e_rule (cur c') = RTerminal.
Proof.
  intros E. rewrite rstep_plan. destruct (ev_plan cfg e) as [pl|] eqn:P; [|discriminate].
  destruct (plan_step cfg pl c) as [c2|] eqn:S; [|discriminate]. intro H; inversion H; subst; clear H.
  unfold plan_step in S.
  destruct (match p_nno pl with Some real => notify_new_object cfg real c | None => Some c end) as [c1|] eqn:N; [|discriminate].
  assert (E1 : e_rule (cur c1) = REndDocument).
  { destruct (p_nno pl); [apply nno_rule in N; congruence | inversion N; subst; exact E]. }
  destruct (p_meth pl) eqn:M;
    try (rewrite end_document_only in S by (assumption || discriminate); discriminate S).
  destruct (plan_meth_end _ _ _ P M) as [He _]. split; [exact He|].
  apply end_document_needs_state in S. tauto.
Qed.

Lemma rstep_in_terminal cfg c e : e_rule (cur c) = RTerminal -> rstep cfg c e = None.
Proof.
  intro E. rewrite rstep_plan. destruct (ev_plan cfg e) as [pl|]; [|reflexivity].
  unfold plan_step.
  destruct (match p_nno pl with Some real => notify_new_object cfg real c | None => Some c end) as [c1|] eqn:N; [|reflexivity].
  assert (E1 : e_rule (cur c1) = RTerminal).
  { destruct (p_nno pl); [apply nno_rule in N; congruence | inversion N; subst; exact E]. }
  rewrite (terminal_refuses _ _ _ _ E1). reflexivity.
Qed.

Lemma rstep_end_doc_state cfg c c' o :
  rstep cfg c EEndDoc = Some (c', o) -> e_rule (cur c) = REndDocument.
Proof.
  rewrite rstep_plan. cbn [ev_plan mkplan]. unfold plan_step. cbn [p_nno p_meth p_args].
  destruct (call_current cfg MEndDocument no_args c) as [c2|] eqn:S; [|discriminate].
  intros _. apply end_document_needs_state in S. tauto.
Qed.

(* An accepted event list in which EEndDoc is followed by anything does not exist. *)
Lemma accepted_end_doc_is_last cfg pre post c :
  steps cfg c (pre ++ EEndDoc :: post) <> None -> post = [].
Proof.
  rewrite steps_app. destruct (steps cfg c pre) as [c1|]; [|congruence].
  cbn [steps]. destruct (rstep cfg c1 EEndDoc) as [[c2 o]|] eqn:R; [|congruence].
  pose proof (rstep_end_doc_state _ _ _ _ R) as E1.
  destruct (rstep_in_end_document _ _ _ _ _ E1 R) as [_ E2].
  destruct post as [|e post]; [reflexivity|]. cbn [steps]. rewrite (rstep_in_terminal _ _ e E2). congruence.
Qed.

(* If the events [pre ++ [EEndDoc]] are accepted, then the only accepted continuation of
   [pre] is [EEndDoc] itself. *)
Lemma end_doc_unique_continuation cfg pre post :
  accepts cfg (pre ++ [EEndDoc]) = true -> accepts cfg (pre ++ post) = true -> post = [] \/ post = [EEndDoc].
Proof.
  rewrite !accepts_steps, !steps_app. intros [c1 H1] [c2 H2].
  destruct (steps cfg init_rctx pre) as [c|]; [|discriminate].
  cbn [steps] in H1. destruct (rstep cfg c EEndDoc) as [[c3 o]|] eqn:R; [|discriminate].
  pose proof (rstep_end_doc_state _ _ _ _ R) as E.
  destruct post as [|e post]; [left; reflexivity|]. right.
  cbn [steps] in H2. destruct (rstep cfg c e) as [[c4 o4]|] eqn:R4; [|discriminate].
  destruct (rstep_in_end_document _ _ _ _ _ E R4) as [He E4]. subst e.
  destruct post as [|e2 post]; [reflexivity|].
  cbn [steps] in H2. rewrite (rstep_in_terminal _ _ e2 E4) in H2. discriminate.
Qed.

(* ------------------------------------------------------------------ *)
(* Part D: the decoder reads a prefix the same way or fails            *)
(* ------------------------------------------------------------------ *)

Definition reads_prefix {A} (R : rstate -> option (A * rstate)) : Prop :=
  forall br p q a br' r, R (br, p ++ q) = Some (a, (br', r)) ->
    (exists p', r = p' ++ q /\ R (br, p) = Some (a, (br', p'))) \/ R (br, p) = None.

Lemma rp_read_u8 cfg : reads_prefix (read_u8 cfg).
Proof.
  intros br p q a br' r. unfold read_u8. cbn [fst snd].
  destruct p as [|x p0]; [right; reflexivity|]. cbn [app].
  destruct (mark cfg 1 br) as [br1|]; [|discriminate]. intro H; inversion H; subst; clear H.
  left. exists p0. split; reflexivity.
Qed.

Lemma firstn_app_le {A} n (l1 l2 : list A) : (n <= length l1)%nat -> firstn n (l1 ++ l2) = firstn n l1.
Proof.
  intro H. rewrite firstn_app. replace (n - length l1)%nat with O by lia. cbn. apply app_nil_r.
Qed.
Lemma skipn_app_le {A} n (l1 l2 : list A) : (n <= length l1)%nat -> skipn n (l1 ++ l2) = skipn n l1 ++ l2.
Proof.
  intro H. rewrite skipn_app. replace (n - length l1)%nat with O by lia. reflexivity.
Qed.

Lemma rp_read_bytes cfg n : reads_prefix (read_bytes cfg n).
Proof.
  intros br p q a br' r. unfold read_bytes. cbn [fst snd].
  destruct (n =? 0) eqn:Z.
  - intro H; inversion H; subst; clear H. left. exists p. split; reflexivity.
  - destruct (len (p ++ q) <? n) eqn:L1; [discriminate|].
    destruct (len p <? n) eqn:L2; [right; reflexivity|].
    destruct (mark cfg n br) as [br1|]; [|discriminate]. intro H; inversion H; subst; clear H.
    assert (Hn : (N.to_nat n <= length p)%nat) by (unfold len in L2; lia).
    left. exists (skipn (N.to_nat n) p). split.
    + apply skipn_app_le; exact Hn.
    + rewrite firstn_app_le by exact Hn. reflexivity.
Qed.

Lemma rp_read_le cfg n : reads_prefix (read_le cfg n).
Proof.
  intros br p q a br' r. unfold read_le.
  destruct (read_bytes cfg (N.of_nat n) (br, p ++ q)) as [[d [b1 r1]]|] eqn:E; [|discriminate].
  intro H; inversion H; subst; clear H.
  destruct (rp_read_bytes cfg _ _ _ _ _ _ _ E) as [[p' [Hr Hp]]|Hp]; rewrite Hp.
  - left. exists p'. split; [exact Hr | reflexivity].
  - right; reflexivity.
Qed.

(* ULEB128 fields *)
Lemma uleb_decode_prefix p q v r :
  uleb_decode (p ++ q) = Some (v, r) ->
  (exists p', r = p' ++ q /\ uleb_decode p = Some (v, p') /\ uleb_span (p ++ q) = uleb_span p) \/ uleb_decode p = None.
Proof.
  revert v r; induction p as [|x p IH]; intros v r; [right; reflexivity|].
  cbn [app uleb_decode uleb_span]. destruct (x <? 128).
  - intro H; inversion H; subst; clear H. left. exists p. repeat split; reflexivity.
  - destruct (uleb_decode (p ++ q)) as [[v1 r1]|] eqn:E; [|discriminate].
    intro H; inversion H; subst; clear H.
    destruct (IH _ _ eq_refl) as [[p' [Hr [Hp Hs]]]|Hp]; rewrite Hp.
    + left. exists p'. repeat split; [exact Hr | congruence].
    + right; reflexivity.
Qed.

Lemma rp_read_uleb_raw cfg : reads_prefix (read_uleb_raw cfg).
Proof.
  intros br p q a br' r. unfold read_uleb_raw. cbn [fst snd].
  destruct (uleb_decode (p ++ q)) as [[v r1]|] eqn:E; [|discriminate].
  destruct (uleb_decode_prefix _ _ _ _ E) as [[p' [Hr [Hp Hs]]]|Hp]; rewrite Hp; [|intros _; right; reflexivity].
  unfold uleb_is_big. rewrite Hs.
  destruct (mark cfg (N.of_nat (uleb_span p)) br) as [br1|]; [|discriminate].
  intro H; inversion H; subst; clear H. left. exists p'. split; reflexivity.
Qed.

Lemma rp_read_uleb cfg maxv : reads_prefix (read_uleb cfg maxv).
Proof.
  intros br p q a br' r. unfold read_uleb.
  destruct (read_uleb_raw cfg (br, p ++ q)) as [[[[v big] n] [b1 r1]]|] eqn:E; [|discriminate].
  destruct (rp_read_uleb_raw cfg _ _ _ _ _ _ E) as [[p' [Hr Hp]]|Hp]; rewrite Hp; [|intros _; right; reflexivity].
  destruct (big || (maxv <? v)); [discriminate|].
  intro H; inversion H; subst; clear H. left. exists p'. split; reflexivity.
Qed.

Lemma rp_read_identifier cfg : reads_prefix (read_identifier cfg).
Proof.
  intros br p q a br' r. unfold read_identifier.
  destruct (read_uleb cfg identifier_max_length (br, p ++ q)) as [[n [b1 r1]]|] eqn:E; [|discriminate].
  destruct (rp_read_uleb cfg _ _ _ _ _ _ _ E) as [[p' [Hr Hp]]|Hp]; rewrite Hp; [|intros _; right; reflexivity].
  destruct (n =? 0); [discriminate|]. subst r1. apply rp_read_bytes.
Qed.

Lemma rp_dec_decimal cfg : reads_prefix (dec_decimal cfg).
Proof.
  intros br p q a br' r. unfold dec_decimal.
  destruct (read_uleb_raw cfg (br, p ++ q)) as [[[[f big] n] [b1 r1]]|] eqn:E; [|discriminate].
  destruct (rp_read_uleb_raw cfg _ _ _ _ _ _ E) as [[p' [Hr Hp]]|Hp]; rewrite Hp; [|intros _; right; reflexivity].
  subst r1.
  repeat match goal with
  | |- (if ?b then _ else _) = _ -> _ =>
      destruct b; try discriminate;
      try (intro H; inversion H; subst; clear H; left; exists p'; split; reflexivity)
  end.
  match goal with |- match ?x with _ => _ end = _ -> _ =>
    destruct x as [[[[c cbig] n2] [b2 r2]]|] eqn:E2; [|discriminate] end.
  destruct (rp_read_uleb_raw cfg _ _ _ _ _ _ E2) as [[p2 [Hr2 Hp2]]|Hp2]; rewrite Hp2; [|intros _; right; reflexivity].
  subst r2.
  destruct (cbig || (Cbe.two63 <=? c)); intro H; inversion H; subst; clear H; left; exists p2; split; reflexivity.
Qed.

(* ---- tokens: the events delivered and the reader state ---- *)
Definition evprefix (a b : list event) : Prop := exists t, b = a ++ t.

Lemma evprefix_nil b : evprefix [] b.
Proof. exists b. reflexivity. Qed.
Lemma evprefix_refl a : evprefix a a.
Proof. exists []. symmetry. apply app_nil_r. Qed.
Lemma evprefix_cons e a b : evprefix a b -> evprefix (e :: a) (e :: b).
Proof. intros [t H]. exists t. subst b. reflexivity. Qed.
Lemma evprefix_app_l x a b : evprefix a b -> evprefix (x ++ a) (x ++ b).
Proof. intros [t H]. exists t. subst b. apply app_assoc. Qed.
Lemma evprefix_app_r a b t : evprefix a b -> evprefix a (b ++ t).
Proof. intros [u H]. exists (u ++ t). subst b. symmetry. apply app_assoc. Qed.

(* On the input p ++ q the token decoder succeeded; on p alone it does exactly the same
   (same events, same bytes consumed) or it fails after delivering a prefix of the events. *)
Definition tok_prefix (F : rstate -> tokres) : Prop :=
  forall br p q evs br' r, F (br, p ++ q) = (evs, Some (br', r)) ->
    (exists p', r = p' ++ q /\ F (br, p) = (evs, Some (br', p'))) \/
    (exists evs0, F (br, p) = (evs0, None) /\ evprefix evs0 evs).

Lemma dec_chunks_prefix cfg w : forall f br p q evs br' r,
  dec_chunks cfg f w (br, p ++ q) = (evs, Some (br', r)) ->
  forall f2,
    (exists p', r = p' ++ q /\ dec_chunks cfg f2 w (br, p) = (evs, Some (br', p'))) \/
    (exists evs0, dec_chunks cfg f2 w (br, p) = (evs0, None) /\ evprefix evs0 evs).
Proof.
  induction f as [|f IH]; intros br p q evs br' r H f2; cbn [dec_chunks] in H; [discriminate|].
  destruct f2 as [|f2]; [right; exists []; split; [reflexivity | apply evprefix_nil]|].
  cbn [dec_chunks].
  destruct (read_uleb cfg max_u64 (br, p ++ q)) as [[h [b1 r1]]|] eqn:E; [|discriminate].
  destruct (rp_read_uleb cfg _ _ _ _ _ _ _ E) as [[p1 [Hr1 Hp1]]|Hp1]; rewrite Hp1;
    [|right; exists []; split; [reflexivity | apply evprefix_nil]].
  subst r1. cbv zeta in H |- *.
  destruct (elem_bytes w (h / 2) =? 0).
  - destruct (N.odd h).
    + match type of H with context [dec_chunks cfg f w ?s] => destruct (dec_chunks cfg f w s) as [evs1 ro] eqn:R end.
      inversion H; subst; clear H.
      destruct (IH _ _ _ _ _ _ R f2) as [[p' [Hr Hp]]|[evs0 [Hp Hpre]]]; rewrite Hp.
      * left. exists p'. split; [exact Hr | reflexivity].
      * right. eexists. split; [reflexivity | apply evprefix_cons; exact Hpre].
    + inversion H; subst; clear H. left. exists p1. split; reflexivity.
  - match type of H with context [read_bytes cfg ?n ?s] =>
      destruct (read_bytes cfg n s) as [[d [b2 r2]]|] eqn:B end; [|discriminate].
    destruct (rp_read_bytes cfg _ _ _ _ _ _ _ B) as [[p2 [Hr2 Hp2]]|Hp2]; rewrite Hp2.
    + subst r2. destruct (N.odd h).
      * match type of H with context [dec_chunks cfg f w ?s] => destruct (dec_chunks cfg f w s) as [evs1 ro] eqn:R end.
        inversion H; subst; clear H.
        destruct (IH _ _ _ _ _ _ R f2) as [[p' [Hr Hp]]|[evs0 [Hp Hpre]]]; rewrite Hp.
        -- left. exists p'. split; [exact Hr | reflexivity].
        -- right. eexists. split; [reflexivity | do 2 apply evprefix_cons; exact Hpre].
      * inversion H; subst; clear H. left. exists p2. split; reflexivity.
    + right. eexists. split; [reflexivity|]. destruct (N.odd h).
      * match type of H with context [dec_chunks cfg f w ?s] => destruct (dec_chunks cfg f w s) as [evs1 ro] eqn:R end. inversion H; subst; clear H.
        apply evprefix_cons, evprefix_nil.
      * inversion H; subst; clear H. apply evprefix_cons, evprefix_nil.
Qed.

Lemma tp_dec_array cfg t : tok_prefix (dec_array cfg t).
Proof.
  intros br p q evs br' r. unfold dec_array.
  destruct (dec_chunks cfg (chunks_fuel (br, p ++ q)) (element_bits t) (br, p ++ q)) as [evs1 ro] eqn:R.
  intro H; inversion H; subst; clear H.
  destruct (dec_chunks_prefix _ _ _ _ _ _ _ _ _ R (chunks_fuel (br, p))) as [[p' [Hr Hp]]|[evs0 [Hp Hpre]]]; rewrite Hp.
  - left. exists p'. split; [exact Hr | reflexivity].
  - right. eexists. split; [reflexivity | apply evprefix_cons; exact Hpre].
Qed.

Lemma tp_dec_media cfg : tok_prefix (dec_media cfg).
Proof.
  intros br p q evs br' r. unfold dec_media.
  destruct (read_uleb cfg media_type_max_length (br, p ++ q)) as [[n [b1 r1]]|] eqn:E; [|discriminate].
  destruct (rp_read_uleb cfg _ _ _ _ _ _ _ E) as [[p1 [Hr1 Hp1]]|Hp1]; rewrite Hp1;
    [|intros _; right; exists []; split; [reflexivity | apply evprefix_nil]].
  subst r1.
  match goal with |- match ?x with _ => _ end = _ -> _ => destruct x as [[mt [b2 r2]]|] eqn:B; [|discriminate] end.
  destruct (rp_read_bytes cfg _ _ _ _ _ _ _ B) as [[p2 [Hr2 Hp2]]|Hp2]; rewrite Hp2;
    [|intros _; right; exists []; split; [reflexivity | apply evprefix_nil]].
  subst r2.
  match goal with |- match ?x with _ => _ end = _ -> _ => destruct x as [evs1 ro] eqn:R end.
  intro H; inversion H; subst; clear H.
  destruct (dec_chunks_prefix _ _ _ _ _ _ _ _ _ R (chunks_fuel (b2, p2))) as [[p' [Hr Hp]]|[evs0 [Hp Hpre]]]; rewrite Hp.
  - left. exists p'. split; [exact Hr | reflexivity].
  - right. eexists. split; [reflexivity | apply evprefix_cons; exact Hpre].
Qed.

Lemma tp_dec_custom cfg : tok_prefix (dec_custom cfg).
Proof.
  intros br p q evs br' r. unfold dec_custom.
  destruct (read_uleb cfg custom_type_max (br, p ++ q)) as [[n [b1 r1]]|] eqn:E; [|discriminate].
  destruct (rp_read_uleb cfg _ _ _ _ _ _ _ E) as [[p1 [Hr1 Hp1]]|Hp1]; rewrite Hp1;
    [|intros _; right; exists []; split; [reflexivity | apply evprefix_nil]].
  subst r1.
  match goal with |- match ?x with _ => _ end = _ -> _ => destruct x as [evs1 ro] eqn:R end.
  intro H; inversion H; subst; clear H.
  destruct (dec_chunks_prefix _ _ _ _ _ _ _ _ _ R (chunks_fuel (b1, p1))) as [[p' [Hr Hp]]|[evs0 [Hp Hpre]]]; rewrite Hp.
  - left. exists p'. split; [exact Hr | reflexivity].
  - right. eexists. split; [reflexivity | apply evprefix_cons; exact Hpre].
Qed.

Lemma tp_dec_var_int cfg neg : tok_prefix (dec_var_int cfg neg).
Proof.
  intros br p q evs br' r. unfold dec_var_int.
  destruct (read_uleb cfg (cbeMaxBigIntBitCount / 8) (br, p ++ q)) as [[n [b1 r1]]|] eqn:E; [|discriminate].
  destruct (rp_read_uleb cfg _ _ _ _ _ _ _ E) as [[p1 [Hr1 Hp1]]|Hp1]; rewrite Hp1;
    [|intros _; right; exists []; split; [reflexivity | apply evprefix_nil]].
  subst r1.
  match goal with |- match ?x with _ => _ end = _ -> _ => destruct x as [[d [b2 r2]]|] eqn:B; [|discriminate] end.
  destruct (rp_read_bytes cfg _ _ _ _ _ _ _ B) as [[p2 [Hr2 Hp2]]|Hp2]; rewrite Hp2;
    [|intros _; right; exists []; split; [reflexivity | apply evprefix_nil]].
  subst r2. cbv zeta.
  destruct (n <=? 8); intro H; inversion H; subst; clear H; left; exists p2; split; reflexivity.
Qed.

(* a token that is one read followed by one event *)
Lemma tp_one {A} (R : rstate -> option (A * rstate)) (mk : A -> event) :
  reads_prefix R ->
  tok_prefix (fun s => match R s with Some (a, s2) => tok_one (mk a) s2 | None => tok_fail end).
Proof.
  intros HR br p q evs br' r.
  destruct (R (br, p ++ q)) as [[a [b1 r1]]|] eqn:E; [|discriminate].
  unfold tok_one. intro H; inversion H; subst; clear H.
  destruct (HR _ _ _ _ _ _ E) as [[p' [Hr Hp]]|Hp]; rewrite Hp.
  - left. exists p'. split; [exact Hr | reflexivity].
  - right. exists []. split; [reflexivity | apply evprefix_nil].
Qed.

Lemma tp_const e : tok_prefix (tok_one e).
Proof.
  intros br p q evs br' r. unfold tok_one. intro H; inversion H; subst; clear H.
  left. exists p. split; reflexivity.
Qed.

Lemma tp_fail : tok_prefix (fun _ => tok_fail).
Proof. intros br p q evs br' r H. discriminate H. Qed.

Lemma tp_bind_u8 cfg (G : N -> rstate -> tokres) :
  (forall ty, tok_prefix (G ty)) ->
  tok_prefix (fun s => match read_u8 cfg s with None => tok_fail | Some (ty, s1) => G ty s1 end).
Proof.
  intros HG br p q evs br' r.
  destruct (read_u8 cfg (br, p ++ q)) as [[ty [b1 r1]]|] eqn:E; [|discriminate].
  destruct (rp_read_u8 cfg _ _ _ _ _ _ E) as [[p1 [Hr1 Hp1]]|Hp1]; rewrite Hp1.
  - subst r1. apply HG.
  - intros _. right. exists []. split; [reflexivity | apply evprefix_nil].
Qed.

Lemma tp_dec_plane7f cfg : tok_prefix (dec_plane7f cfg).
Proof.
  apply (tp_bind_u8 cfg (fun ty s1 =>
      match classify7f ty with
      | K7Short t k count =>
          match read_bytes cfg (count * k) s1 with
          | Some (d, s2) => tok_one (EArray t count d) s2
          | None => tok_fail
          end
      | K7Marker => match read_identifier cfg s1 with Some (id, s2) => tok_one (EMarker id) s2 | None => tok_fail end
      | K7RecordType => match read_identifier cfg s1 with Some (id, s2) => tok_one (ERecordType id) s2 | None => tok_fail end
      | K7Chunked t => dec_array cfg t s1
      | K7Media => dec_media cfg s1
      | K7Bad => tok_fail
      end)).
  intro ty. destruct (classify7f ty) as [t k count| | |t| |].
  - apply (tp_one (read_bytes cfg (count * k)) (fun d => EArray t count d)), rp_read_bytes.
  - apply (tp_one (read_identifier cfg) EMarker), rp_read_identifier.
  - apply (tp_one (read_identifier cfg) ERecordType), rp_read_identifier.
  - apply tp_dec_array.
  - apply tp_dec_media.
  - apply tp_fail.
Qed.

Lemma tp_dec_token cfg : tok_prefix (dec_token cfg).
Proof.
  apply (tp_bind_u8 cfg (fun ty s1 =>
      match classify ty with
      | KSmallInt z => tok_one (EInt z) s1
      | KBad => tok_fail
      | KDecimal =>
          match dec_decimal cfg s1 with
          | Some (e, s2) => tok_one e s2
          | None => tok_fail
          end
      | KVarInt neg => dec_var_int cfg neg s1
      | KFixInt neg w =>
          match read_le cfg w s1 with
          | Some (v, s2) => tok_one (if neg then ENegInt v else EPosInt v) s2
          | None => tok_fail
          end
      | KFloat W16 => match read_le cfg 2 s1 with Some (h, s2) => tok_one (EFloat (dec_bf16 h)) s2 | None => tok_fail end
      | KFloat W32 => match read_le cfg 4 s1 with Some (w, s2) => tok_one (EFloat (dec_f32 w)) s2 | None => tok_fail end
      | KFloat W64 => match read_le cfg 8 s1 with Some (x, s2) => tok_one (EFloat x) s2 | None => tok_fail end
      | KUid => match read_bytes cfg 16 s1 with Some (d, s2) => tok_one (EUid d) s2 | None => tok_fail end
      | KRefLocal => match read_identifier cfg s1 with Some (id, s2) => tok_one (ERefLocal id) s2 | None => tok_fail end
      | KFalse => tok_one EFalse s1
      | KTrue => tok_one ETrue s1
      | KNull => tok_one ENull s1
      | KTimeCode => tok_fail
      | KPlane7f => dec_plane7f cfg s1
      | KString n => match read_bytes cfg n s1 with Some (d, s2) => tok_one (EArray cbeAT_String n d) s2 | None => tok_fail end
      | KChunked t => dec_array cfg t s1
      | KCustom => dec_custom cfg s1
      | KPadding => tok_one EPadding s1
      | KRecord => match read_identifier cfg s1 with Some (id, s2) => tok_one (ERecord id) s2 | None => tok_fail end
      | KEdge => tok_one EEdge s1
      | KNode => tok_one ENode s1
      | KMap => tok_one EMap s1
      | KList => tok_one EList s1
      | KEndContainer => tok_one EEnd s1
      end)).
  intro ty. destruct (classify ty) as [z| | |neg|neg w|[| |]| | | | | | | |n|t| | | | | | | |];
    try apply tp_const; try apply tp_fail.
  - apply (tp_one (dec_decimal cfg) (fun e => e)), rp_dec_decimal.
  - apply tp_dec_var_int.
  - apply (tp_one (read_le cfg w) (fun v => if neg then ENegInt v else EPosInt v)), rp_read_le.
  - apply (tp_one (read_le cfg 2) (fun h => EFloat (dec_bf16 h))), rp_read_le.
  - apply (tp_one (read_le cfg 4) (fun w => EFloat (dec_f32 w))), rp_read_le.
  - apply (tp_one (read_le cfg 8) EFloat), rp_read_le.
  - apply (tp_one (read_bytes cfg 16) EUid), rp_read_bytes.
  - apply (tp_one (read_identifier cfg) ERefLocal), rp_read_identifier.
  - apply tp_dec_plane7f.
  - apply (tp_one (read_bytes cfg n) (fun d => EArray cbeAT_String n d)), rp_read_bytes.
  - apply tp_dec_array.
  - apply tp_dec_custom.
  - apply (tp_one (read_identifier cfg) ERecord), rp_read_identifier.
Qed.

(* every token delivers at least one event *)
Lemma dec_token_events_nonempty cfg s evs s' : dec_token cfg s = (evs, Some s') -> evs <> [].
Proof.
  unfold dec_token, dec_plane7f, dec_var_int, dec_array, dec_media, dec_custom, tok_one, tok_fail.
  repeat match goal with
  | |- context [match ?x with _ => _ end] => destruct x
  end; intro H; inversion H; discriminate.
Qed.

Lemma dec_loop_nil' cfg f br : dec_loop cfg f (br, []) = ([EEndDoc], DOk).
Proof. destruct f; reflexivity. Qed.

(* destruct the decoder calls that occur in the goal *)
Ltac d_token evs s' T :=
  match goal with |- context [dec_token ?cfg ?s] => destruct (dec_token cfg s) as [evs [s'|]] eqn:T end.
Ltac d_loop evs r R :=
  match goal with |- context [dec_loop ?cfg ?f ?s] => destruct (dec_loop cfg f s) as [evs r] eqn:R end.

Lemma dec_loop_ok_ends cfg : forall f s evs, dec_loop cfg f s = (evs, DOk) -> exists pre, evs = pre ++ [EEndDoc].
Proof.
  induction f as [|f IH]; intros [br l] evs; destruct l as [|x l]; cbn [dec_loop snd].
  - intro H. inversion H. exists []. reflexivity.
  - discriminate.
  - intro H. inversion H. exists []. reflexivity.
  - d_token evs1 s' T; [|discriminate]. d_loop evs' r' R. intro H. inversion H; subst; clear H.
    destruct (IH _ _ R) as [pre Hp]. exists (evs1 ++ pre). rewrite Hp. apply app_assoc.
Qed.

(* The main decode loop on a prefix p of the input p ++ q on which it succeeded: either an
   error after a prefix of the events, or the same events up to the point where p ends,
   followed by the end-of-document event - and then, when q is not empty, the run on the
   whole input continues with at least two more events. *)
Lemma dec_loop_prefix cfg : forall f br p q evs,
  dec_loop cfg f (br, p ++ q) = (evs, DOk) ->
  forall f2 evs2 r2, dec_loop cfg f2 (br, p) = (evs2, r2) ->
    (r2 = DErr /\ evprefix evs2 evs) \/
    (r2 = DOk /\ exists pre post, evs2 = pre ++ [EEndDoc] /\ evs = pre ++ post /\
                  (q <> [] -> exists e post', post = e :: post' /\ post' <> [])).
Proof.
  induction f as [|f IH]; intros br p q evs H f2 evs2 r2 H2.
  - (* no fuel: the input must be empty *)
    destruct p as [|x p]; [|cbn in H; discriminate].
    rewrite dec_loop_nil' in H2. inversion H2; subst; clear H2.
    right. split; [reflexivity|]. exists [], evs. repeat split; try reflexivity.
    intro Hq. destruct q as [|y q]; [congruence|]. cbn in H. discriminate.
  - destruct p as [|x p].
    + rewrite dec_loop_nil' in H2. inversion H2; subst; clear H2.
      right. split; [reflexivity|]. exists [], evs. repeat split; try reflexivity.
      intro Hq. destruct q as [|y q]; [congruence|].
      revert H. cbn [app dec_loop snd].
      d_token evs1 s' T; [|discriminate]. d_loop evs' r' R. intro H. inversion H; subst; clear H.
      pose proof (dec_token_events_nonempty _ _ _ _ T) as N1.
      destruct (dec_loop_ok_ends _ _ _ _ R) as [pre' Hp'].
      destruct evs1 as [|e t]; [congruence|]. exists e, (t ++ evs'). split; [reflexivity|].
      subst evs'. destruct t; destruct pre'; discriminate.
    + revert H. cbn [app dec_loop snd].
      d_token evs1 s1 T; [|discriminate]. destruct s1 as [b1 r1].
      d_loop evs' r' R. intro H. inversion H; subst; clear H.
      destruct (tp_dec_token cfg br (x :: p) q evs1 b1 r1 T) as [[p' [Hr Hp]]|[evs0 [Hp Hpre]]].
      * subst r1. revert H2. destruct f2 as [|f2]; cbn [dec_loop snd].
        { intro H2. inversion H2; subst; clear H2. left. split; [reflexivity | apply evprefix_nil]. }
        rewrite Hp. d_loop evs'' r'' R2. intro H2. inversion H2; subst; clear H2.
        destruct (IH _ _ _ _ R _ _ _ R2) as [[Hr2 Hpre]|[Hr2 [pre [post [H1 [H3 H4]]]]]].
        -- left. split; [exact Hr2 | apply evprefix_app_l; exact Hpre].
        -- right. split; [exact Hr2|]. exists (evs1 ++ pre), post. subst evs'' evs'.
           repeat split; [rewrite ?app_assoc; reflexivity | rewrite ?app_assoc; reflexivity | exact H4].
      * revert H2. destruct f2 as [|f2]; cbn [dec_loop snd].
        { intro H2. inversion H2; subst; clear H2. left. split; [reflexivity | apply evprefix_nil]. }
        rewrite Hp. intro H2. inversion H2; subst; clear H2.
        left. split; [reflexivity | apply evprefix_app_r; exact Hpre].
Qed.

(* rewrite the scrutinee at the head of the goal with an equation that holds up to conversion *)
Ltac rw_head H :=
  match goal with |- match ?x with _ => _ end = _ -> _ =>
    match type of H with _ = ?y => replace x with y by (symmetry; exact H) end end.

(* Decoder.Decode on a proper prefix of a document it decodes without error. *)
Lemma cbe_decode_prefix cfg p q evs :
  cbe_decode cfg (p ++ q) = (evs, DOk) -> q <> [] ->
  forall evs2 r2, cbe_decode cfg p = (evs2, r2) ->
    (r2 = DErr /\ evprefix evs2 evs) \/
    (r2 = DOk /\ exists pre e post', evs2 = pre ++ [EEndDoc] /\ evs = pre ++ e :: post' /\ post' <> []).
Proof.
  unfold cbe_decode. intros H Hq evs2 r2. revert H.
  match goal with |- match ?x with _ => _ end = _ -> _ => destruct x as [[sig [b1 r1]]|] eqn:E end; [|discriminate].
  destruct (negb (sig =? cbeSignatureByte)) eqn:Sg; [discriminate|].
  match goal with |- match ?x with _ => _ end = _ -> _ => destruct x as [[v [b2 r2']]|] eqn:V end; [|discriminate].
  d_loop evs' r' R. intro H. inversion H; subst; clear H.
  destruct (rp_read_u8 cfg _ _ _ _ _ _ E) as [[p1 [Hr1 Hp1]]|Hp1]; rw_head Hp1.
  2:{ intro H2. inversion H2; subst; clear H2. left. split; [reflexivity|]. eexists. reflexivity. }
  subst r1. rewrite Sg.
  destruct (rp_read_uleb cfg _ _ _ _ _ _ _ V) as [[p2 [Hr2 Hp2]]|Hp2]; rw_head Hp2.
  2:{ intro H2. inversion H2; subst; clear H2. left. split; [reflexivity|]. eexists. reflexivity. }
  subst r2'. d_loop evs'' r'' R2. intro H2. inversion H2; subst; clear H2.
  destruct (dec_loop_prefix _ _ _ _ _ _ R _ _ _ R2) as [[Hr Hpre]|[Hr [pre [post [H1 [H3 H4]]]]]].
  - left. split; [exact Hr | do 2 apply evprefix_cons; exact Hpre].
  - right. split; [exact Hr|]. destruct (H4 Hq) as [e [post' [He Hn]]]. subst.
    exists (EBeginDoc :: EVersion (if v =? 1 then 0 else v) :: pre), e, post'. repeat split; assumption.
Qed.

(* ------------------------------------------------------------------ *)
(* Part T: truncated documents are rejected                             *)
(* ------------------------------------------------------------------ *)

Theorem truncation_rejected dcfg rcfg doc (k : nat) :
  decode_accepts dcfg rcfg doc = true -> (k < length doc)%nat ->
  decode_accepts dcfg rcfg (firstn k doc) = false.
Proof.
  unfold decode_accepts. intros H Hk.
  destruct (cbe_decode dcfg doc) as [evs r] eqn:D.
  apply andb_true_iff in H as [Hr Ha]. destruct r; [|discriminate Hr].
  destruct (cbe_decode dcfg (firstn k doc)) as [evs2 r2] eqn:D2.
  assert (Hq : skipn k doc <> []).
  { intro X. pose proof (f_equal (@length _) X) as L. rewrite skipn_length in L. cbn in L. lia. }
  rewrite <- (firstn_skipn k doc) in D.
  destruct (cbe_decode_prefix _ _ _ _ D Hq _ _ D2) as [[Hr2 _]|[Hr2 [pre [e [post' [H1 [H3 Hn]]]]]]]; subst r2.
  - reflexivity.
  - cbn. destruct (accepts rcfg evs2) eqn:A2; [|reflexivity]. exfalso.
    subst evs2 evs.
    destruct (end_doc_unique_continuation _ _ _ A2 Ha) as [X|X]; [discriminate X|].
    inversion X. congruence.
Qed.

(* ------------------------------------------------------------------ *)
(* Part P: partial results of the plain builder are prefixes            *)
(* ------------------------------------------------------------------ *)

Scheme vprefix_mind := Induction for vprefix Sort Prop
  with lprefix_mind := Induction for lprefix Sort Prop
  with mprefix_mind := Induction for mprefix Sort Prop.
Combined Scheme vprefix_mutind from vprefix_mind, lprefix_mind, mprefix_mind.

Lemma lprefix_nil_inv lp : lprefix lp [] -> lp = [].
Proof. intro H. inversion H; reflexivity. Qed.
Lemma mprefix_nil_inv lp : mprefix lp [] -> lp = [].
Proof. intro H. inversion H; reflexivity. Qed.

Lemma vprefix_trans_mut :
  (forall a b, vprefix a b -> forall c, vprefix b c -> vprefix a c) /\
  (forall la lb, lprefix la lb -> forall lc, lprefix lb lc -> lprefix la lc) /\
  (forall ma mb, mprefix ma mb -> forall mc, mprefix mb mc -> mprefix ma mc).
Proof.
  apply vprefix_mutind.
  - intros v c H. exact H.
  - intros lp lf Hl IH c Hc. inversion Hc; subst.
    + apply VP_list. exact Hl.
    + apply VP_list. apply IH. assumption.
  - intros id lp lf Hm IH c Hc. inversion Hc; subst.
    + apply VP_map. exact Hm.
    + apply VP_map. apply IH. assumption.
  - intros lf lc _. apply LP_nil.
  - intros x y lf Hxy IH lc Hc. inversion Hc; subst.
    + apply LP_last. apply IH. assumption.
    + apply LP_last. exact Hxy.
  - intros x lp lf Hl IH lc Hc. inversion Hc; subst.
    + apply lprefix_nil_inv in Hl. subst lp. apply LP_last. assumption.
    + apply LP_cons. apply IH. assumption.
  - intros lf lc _. apply MP_nil.
  - intros k x y lf Hxy IH mc Hc. inversion Hc; subst.
    + apply MP_last. apply IH. assumption.
    + apply MP_last. exact Hxy.
  - intros e lp lf Hm IH mc Hc. inversion Hc; subst.
    + apply mprefix_nil_inv in Hm. subst lp. apply MP_last. assumption.
    + apply MP_cons. apply IH. assumption.
Qed.

Lemma vprefix_trans a b c : vprefix a b -> vprefix b c -> vprefix a c.
Proof. intros H1 H2. exact (proj1 vprefix_trans_mut a b H1 c H2). Qed.

Lemma ple_refl p : ple p p.
Proof. destruct p; cbn; [apply VP_refl | exact I]. Qed.
Lemma ple_trans a b c : ple a b -> ple b c -> ple a c.
Proof.
  destruct a as [a|], b as [b|], c as [c|]; cbn; try tauto. apply vprefix_trans.
Qed.

Lemma lprefix_app l r : lprefix l (l ++ r).
Proof. induction l as [|x l IH]; cbn; [apply LP_nil | apply LP_cons, IH]. Qed.
Lemma lprefix_app_last l x y r : vprefix x y -> lprefix (l ++ [x]) (l ++ y :: r).
Proof. intro H. induction l as [|z l IH]; cbn; [apply LP_last, H | apply LP_cons, IH]. Qed.
Lemma mprefix_app l r : mprefix l (l ++ r).
Proof. induction l as [|x l IH]; cbn; [apply MP_nil | apply MP_cons, IH]. Qed.
Lemma mprefix_app_last l k x y r : vprefix x y -> mprefix (l ++ [(k, x)]) (l ++ (k, y) :: r).
Proof. intro H. induction l as [|z l IH]; cbn; [apply MP_last, H | apply MP_cons, IH]. Qed.

(* what a frame holds grows when it absorbs a value, and grows with the value it absorbs *)
Lemma fval_absorb x fr : vprefix (fval fr) (fval (absorb x fr)).
Proof.
  destruct fr as [l|kvs [k|]]; cbn [absorb fval].
  - apply VP_list, lprefix_app.
  - apply VP_map, mprefix_app.
  - apply VP_refl.
Qed.

Lemma fval_absorb_mono x y fr : vprefix x y -> vprefix (fval (absorb x fr)) (fval (absorb y fr)).
Proof.
  intro H. destruct fr as [l|kvs [k|]]; cbn [absorb fval].
  - apply VP_list, lprefix_app_last, H.
  - apply VP_map, mprefix_app_last, H.
  - apply VP_refl.
Qed.

Lemma close_up_mono below : forall x y, vprefix x y -> vprefix (close_up x below) (close_up y below).
Proof.
  induction below as [|fr below IH]; intros x y H; cbn [close_up]; [exact H|].
  apply IH, fval_absorb_mono, H.
Qed.

(* delivering a value to the current builder only extends the partial result *)
Lemma pdeliver_mono x st st' : pdeliver x st = Some st' -> ple (pclose st) (pclose st').
Proof.
  unfold pdeliver, pclose. destruct (pstack st) as [|fr below] eqn:S.
  - destruct (presult st); [discriminate|]. intros _. exact I.
  - destruct (absorb_ok x fr); [|discriminate]. intro H; inversion H; subst; clear H.
    cbn [pstack set_pstack ple]. apply close_up_mono, fval_absorb.
Qed.

Section PlainProofs.
  Variable url_conv : bytes -> option bytes.
  Variable time_conv : bytes -> option (bytes * bytes).
  Notation pstep := (pstep url_conv time_conv).
  Notation prun := (prun url_conv time_conv).

  Lemma pscalar_mono sc st st' : pscalar url_conv time_conv sc st = Some st' -> ple (pclose st) (pclose st').
  Proof.
    unfold pscalar. destruct (conv url_conv time_conv (pnext st) sc) as [x|]; [|discriminate].
    intro H. apply pdeliver_mono in H. exact H.
  Qed.

  Lemma pfire_mono st st' : pfire url_conv time_conv st = Some st' -> ple (pclose st) (pclose st').
  Proof.
    unfold pfire. destruct (pcb st) as [|t|mt|t ct]; try discriminate.
    - destruct (elem_bits t =? 0); [discriminate|]. apply pscalar_mono.
    - apply pscalar_mono.
  Qed.

  Lemma pstep_mono st e st' : pstep st e = Some st' -> ple (pclose st) (pclose st').
  Proof.
    destruct e; cbn [Trunc.pstep event_scalar];
      try (intro H; inversion H; subst; apply ple_refl);
      try discriminate;
      try (apply pscalar_mono).
    - (* EList *)
      unfold pdone, pclose. destruct (pstack st) as [|fr below] eqn:S.
      + destruct (presult st); [discriminate|]. intro H; inversion H; subst; clear H. exact I.
      + intro H; inversion H; subst; clear H. cbn [pstack set_pstack close_up ple]. apply close_up_mono, fval_absorb.
    - (* EMap *)
      unfold pdone, pclose. destruct (pstack st) as [|fr below] eqn:S.
      + destruct (presult st); [discriminate|]. intro H; inversion H; subst; clear H. exact I.
      + intro H; inversion H; subst; clear H. cbn [pstack set_pstack close_up ple]. apply close_up_mono, fval_absorb.
    - (* EEnd *)
      destruct (pstack st) as [|fr below] eqn:S; [discriminate|].
      unfold pdeliver, pclose. rewrite S. cbn [pstack set_pstack presult].
      destruct below as [|fr2 below].
      + destruct (presult st); [discriminate|]. intro H; inversion H; subst; clear H. cbn. apply VP_refl.
      + destruct (absorb_ok (fval fr) fr2); [|discriminate]. intro H; inversion H; subst; clear H.
        cbn. apply VP_refl.
    - (* EArrayBegin *)
      match goal with |- (if ?b then _ else _) = _ -> _ => destruct b end; [|discriminate].
      intro H; inversion H; subst; apply ple_refl.
    - (* EArrayChunk *)
      match goal with |- (if ?b then _ else _) = _ -> _ => destruct b end;
        [|intro H; inversion H; subst; apply ple_refl].
      intro H. apply pfire_mono in H. exact H.
    - (* EArrayData *)
      match goal with |- (if ?b then _ else _) = _ -> _ => destruct b end;
        [|intro H; inversion H; subst; apply ple_refl].
      intro H. apply pfire_mono in H. exact H.
  Qed.

  Lemma prun_app st a b :
    prun st (a ++ b) = match prun st a with Some st1 => prun st1 b | None => None end.
  Proof.
    revert st; induction a as [|e a IH]; intro st; cbn [app Trunc.prun]; [reflexivity|].
    destruct (pstep st e); [apply IH | reflexivity].
  Qed.

  Lemma prun_mono es : forall st st', prun st es = Some st' -> ple (pclose st) (pclose st').
  Proof.
    induction es as [|e es IH]; intros st st' H; cbn [Trunc.prun] in H.
    - inversion H; subst. apply ple_refl.
    - destruct (pstep st e) as [st1|] eqn:E; [|discriminate].
      eapply ple_trans; [eapply pstep_mono; exact E | apply IH; exact H].
  Qed.

  (* C09, second half, on event lists: whatever has been built when the events stop after
     es1 is a prefix of what is built from any continuation es1 ++ es2 - in particular of the
     value of the whole document. *)
  Theorem partial_is_prefix es1 es2 st1 st2 :
    prun pinit es1 = Some st1 -> prun pinit (es1 ++ es2) = Some st2 -> ple (pclose st1) (pclose st2).
  Proof.
    intros H1 H2. rewrite prun_app, H1 in H2. apply prun_mono in H2. exact H2.
  Qed.
End PlainProofs.

(* ---- the validator's forwarded events along a prefix ---- *)
Lemma run_from_out cfg es : forall c i out c' o' r,
  run_from cfg c i es out = (c', o', r) -> exists t, o' = out ++ t.
Proof.
  induction es as [|e es IH]; intros c i out c' o' r H; cbn [run_from] in H.
  - inversion H; subst. exists []. symmetry. apply app_nil_r.
  - destruct (rstep cfg c e) as [[c1 o]|].
    + apply IH in H as [t Ht]. exists (o ++ t). rewrite Ht. symmetry. apply app_assoc.
    + inversion H; subst. exists []. symmetry. apply app_nil_r.
Qed.

Lemma run_from_none_app cfg es1 es2 c i out c' o' :
  run_from cfg c i (es1 ++ es2) out = (c', o', None) ->
  exists c1 o1, run_from cfg c i es1 out = (c1, o1, None) /\
                run_from cfg c1 (i + N.of_nat (length es1)) es2 o1 = (c', o', None).
Proof.
  rewrite run_from_app. destruct (run_from cfg c i es1 out) as [[c1 o1] [j|]]; [discriminate|].
  intro H. exists c1, o1. split; [reflexivity | exact H].
Qed.

(* C09 for the plain pipeline, on bytes: a document of the fragment that is accepted with the
   value v; any proper prefix of it gives an error, and the partial value returned with the
   error is nothing at all or a prefix of v. *)
Theorem punmarshal_truncated uc tc doc (k : nat) v :
  punmarshal uc tc doc = POk v -> (k < length doc)%nat ->
  exists p, punmarshal uc tc (firstn k doc) = PErr p /\ ple p (Some v).
Proof.
  unfold punmarshal. intros H Hk.
  destruct (cbe_decode default_dcfg doc) as [evs r] eqn:D.
  destruct (Rules.run default_rcfg evs) as [[c fwd] rej] eqn:Rn.
  destruct (prun uc tc pinit fwd) as [st|] eqn:P; [|discriminate].
  destruct r; cbn [dres_is_err] in H; [|discriminate]. destruct rej; [discriminate|].
  destruct (pstack st) as [|? ?] eqn:S; [|discriminate]. destruct (presult st) as [v'|] eqn:Rs; [|discriminate].
  inversion H; subst v'; clear H.
  assert (Hv : pclose st = Some v) by (unfold pclose; rewrite S; exact Rs).
  assert (Hq : skipn k doc <> []).
  { intro X. pose proof (f_equal (@length _) X) as L. rewrite skipn_length in L. cbn in L. lia. }
  rewrite <- (firstn_skipn k doc) in D.
  destruct (cbe_decode default_dcfg (firstn k doc)) as [evs2 r2] eqn:D2.
  unfold Rules.run in Rn.
  destruct (cbe_decode_prefix _ _ _ _ D Hq _ _ D2) as [[Hr2 [t Ht]]|[Hr2 [pre [e [post' [H1 [H3 Hn]]]]]]]; subst r2.
  - (* the decoder stops with an error inside the cut token *)
    subst evs. apply run_from_none_app in Rn as [c1 [o1 [R1 R2]]].
    apply run_from_out in R2 as [t' Ht']. subst fwd.
    unfold Rules.run. rewrite R1. rewrite prun_app in P.
    destruct (prun uc tc pinit o1) as [st1|] eqn:P1; [|discriminate].
    exists (pclose st1). split; [reflexivity|]. rewrite <- Hv. apply (prun_mono uc tc _ _ _ P).
  - (* the cut falls between two tokens: the validator refuses the end of the document *)
    subst evs evs2. apply run_from_none_app in Rn as [c1 [o1 [R1 R2]]].
    unfold Rules.run. rewrite run_from_app, R1. cbn [run_from].
    destruct (rstep default_rcfg c1 EEndDoc) as [[c2 o2]|] eqn:RE.
    + exfalso. pose proof (rstep_end_doc_state _ _ _ _ RE) as E1.
      cbn [run_from] in R2. destruct (rstep default_rcfg c1 e) as [[c3 o3]|] eqn:R3; [|discriminate].
      destruct (rstep_in_end_document _ _ _ _ _ E1 R3) as [_ E3].
      destruct post' as [|e2 post']; [congruence|]. cbn [run_from] in R2.
      rewrite (rstep_in_terminal _ _ e2 E3) in R2. discriminate.
    + apply run_from_out in R2 as [t' Ht']. subst fwd. rewrite prun_app in P.
      destruct (prun uc tc pinit o1) as [st1|] eqn:P1; [|discriminate].
      exists (pclose st1). split; [reflexivity|]. rewrite <- Hv. apply (prun_mono uc tc _ _ _ P).
Qed.

(* ------------------------------------------------------------------ *)
(* The verdict of the general pipeline                                  *)
(* ------------------------------------------------------------------ *)

Lemma unmarshal_ok_accepts uc tc doc v :
  unmarshal_cbe uc tc doc = TOk v -> decode_accepts default_dcfg default_rcfg doc = true.
Proof.
  unfold unmarshal_cbe, unmarshal_events, decode_accepts, accepts, rejected_at.
  destruct (cbe_decode default_dcfg doc) as [evs r].
  destruct (Rules.run default_rcfg evs) as [[c fwd] rej]. cbn [snd].
  destruct (Build.run uc tc init_state fwd 0) as [[st|st] i].
  - destruct (dres_is_err r); [unfold on_error; destruct (terminate_st _ _) as [[[|] ?]|]; discriminate|].
    destruct rej; [unfold on_error; destruct (terminate_st _ _) as [[[|] ?]|]; discriminate|]. reflexivity.
  - unfold on_error; destruct (terminate_st _ _) as [[[|] ?]|]; discriminate.
Qed.

Lemma unmarshal_rejected_not_ok uc tc doc :
  decode_accepts default_dcfg default_rcfg doc = false -> forall v, unmarshal_cbe uc tc doc <> TOk v.
Proof.
  intros H v X. apply unmarshal_ok_accepts in X. congruence.
Qed.

(* the untyped unmarshal entry point never reports success on a proper prefix of a
   document it accepts *)
Theorem unmarshal_truncated_not_ok uc tc doc (k : nat) v :
  unmarshal_cbe uc tc doc = TOk v -> (k < length doc)%nat ->
  forall w, unmarshal_cbe uc tc (firstn k doc) <> TOk w.
Proof.
  intros H Hk. apply unmarshal_rejected_not_ok.
  apply truncation_rejected; [eapply unmarshal_ok_accepts; exact H | exact Hk].
Qed.

(* ------------------------------------------------------------------ *)
(* Part H: OnError always returns (ArtificiallyTerminate makes progress) *)
(* ------------------------------------------------------------------ *)

Notation bstack := Build.stack.

Lemma stack_state_map f st : length (bstack (state_map f st)) = length (bstack st).
Proof. unfold state_map. cbn. apply map_length. Qed.

Lemma stack_state_mapset mid k x st : length (bstack (state_mapset mid k x st)) = length (bstack st).
Proof. unfold state_mapset. cbn. rewrite !map_length. reflexivity. Qed.

Lemma run_setter_stack s v st st' : run_setter s v st = ROk st' -> length (bstack st') = length (bstack st).
Proof.
  destruct s as [h|mid [k|]]; cbn [run_setter].
  - intro H; inversion H; subst. apply stack_state_map.
  - destruct (hashable k); intro H; inversion H; subst. apply stack_state_mapset.
  - discriminate.
Qed.

Lemma run_setters_stack ss id : forall st st', run_setters ss id st = ROk st' -> length (bstack st') = length (bstack st).
Proof.
  induction ss as [|s ss IH]; intros st st'; cbn [run_setters].
  - intro H; inversion H; reflexivity.
  - destruct (lookup_marked id (Build.marked st)) as [v|]; [|discriminate].
    unfold rbind. destruct (run_setter s v st) as [st1|st1] eqn:E; [|discriminate].
    intro H. apply IH in H. apply run_setter_stack in E. congruence.
Qed.

Lemma notify_marker_stack id v st st' : notify_marker id v st = ROk st' -> length (bstack st') = length (bstack st).
Proof. unfold notify_marker. intro H. apply run_setters_stack in H. exact H. Qed.

Lemma done_to_stack : forall f v st st', done_to f v st = ROk st' -> (length (bstack st') <= S (length (bstack st)))%nat.
Proof.
  induction f as [|f IH]; intros v st st'; cbn [done_to]; [discriminate|].
  destruct (bstack st) as [|fr below] eqn:S; [discriminate|].
  destruct fr as [|l|id kvs key w rc|[|] val|a b c i|id isc|].
  - intro H; inversion H; subst. cbn. rewrite S. cbn. lia.
  - intro H; inversion H; subst. cbn. lia.
  - destruct (map_store (snap v) id kvs key w rc); [|discriminate]. intro H; inversion H; subst. cbn. lia.
  - destruct v; try discriminate. intro H. apply IH in H. cbn in H. cbn. lia.
  - intro H; inversion H; subst. cbn. lia.
  - destruct (i =? 0); [intro H; inversion H; subst; cbn; lia|].
    destruct (i =? 1); [intro H; inversion H; subst; cbn; lia|].
    destruct (i =? 2); [|discriminate]. intro H. apply IH in H. cbn in H. cbn. lia.
  - destruct isc; [|discriminate]. unfold rbind.
    destruct (notify_marker id v st) as [st1|st1] eqn:E; [|discriminate].
    intro H. apply IH in H. apply notify_marker_stack in E. cbn in H. rewrite S in E. cbn in E.
    destruct (bstack st1); cbn in *; lia.
  - discriminate.
Qed.

Lemma notify_done_stack v st st' : notify_done v st = ROk st' -> (length (bstack st') <= S (length (bstack st)))%nat.
Proof. apply done_to_stack. Qed.

Lemma tl_app_len {A} (above : list A) fr below :
  length (tl (above ++ fr :: below)) = (length above + length below)%nat.
Proof. destruct above; cbn; rewrite ?app_length; cbn; lia. Qed.

Lemma recv_end_stack : forall below above fr st st',
  recv_end above fr below st = ROk st' -> (length (bstack st') <= length (above ++ fr :: below))%nat.
Proof.
  induction below as [|child below IH]; intros above fr st st'; destruct fr as [|l|id kvs key w rc|cm val|a b c i|id isc|];
    cbn [recv_end]; try discriminate;
    try (intro H; apply notify_done_stack in H; cbn [bstack Build.set_stack] in H;
         rewrite tl_app_len in H; rewrite app_length; cbn [length] in *; lia);
    try (intro H; inversion H; subst; cbn [bstack Build.set_stack set_rt];
         rewrite tl_app_len, app_length; cbn [length]; lia).
  intro H. apply IH in H. rewrite <- app_assoc in H. cbn [app] in H. exact H.
Qed.

Lemma art_end_stack st st1 : art_end st = ROk st1 -> (length (bstack st1) <= length (bstack st))%nat.
Proof.
  unfold art_end. destruct (bstack st) as [|fr below] eqn:S; [intro H; inversion H; subst; rewrite S; cbn; lia|].
  destruct (art_end_target fr below).
  - intro H. apply recv_end_stack in H. cbn in H. exact H.
  - intro H; inversion H; subst. rewrite S. cbn. lia.
Qed.

Lemma pop_if_stuck_len n st1 :
  (length (bstack st1) <= n)%nat -> (0 < n)%nat ->
  (length (bstack (if (n <=? length (bstack st1))%nat then Build.set_stack st1 (tl (bstack st1)) else st1)) < n)%nat.
Proof.
  intros L Hn. destruct (n <=? length (bstack st1))%nat eqn:C.
  - apply Nat.leb_le in C. cbn [bstack Build.set_stack]. destruct (bstack st1); cbn [length tl] in *; lia.
  - apply Nat.leb_gt in C. exact C.
Qed.

Lemma terminate_st_total : forall fuel st, (length (bstack st) < fuel)%nat -> terminate_st fuel st <> None.
Proof.
  induction fuel as [|f IH]; intros st Hl; [lia|]. cbn [terminate_st].
  remember (length (bstack st)) as n eqn:Hn.
  destruct (bstack st) as [|fr [|fr2 below]] eqn:S; try discriminate.
  destruct (art_end st) as [st1|st1] eqn:E; [|discriminate].
  pose proof (art_end_stack _ _ E) as L.
  assert (Hn' : n = Datatypes.S (Datatypes.S (length below))) by (rewrite Hn; rewrite ?S; reflexivity).
  assert (L' : (length (bstack st1) <= n)%nat) by (rewrite Hn'; rewrite ?S in L; exact L).
  apply IH. eapply Nat.lt_le_trans; [apply pop_if_stuck_len; [exact L' | lia] | lia].
Qed.

Lemma on_error_returns st : on_error st <> THang.
Proof.
  unfold on_error. destruct (terminate_st (terminate_fuel st) st) as [[[|] st1]|] eqn:T; try discriminate.
  exfalso. revert T. apply terminate_st_total. unfold terminate_fuel. lia.
Qed.

(* ce.UnmarshalFromCBEDocument(doc, nil, cfg) returns, whatever the document *)
Theorem unmarshal_never_hangs uc tc doc : unmarshal_cbe uc tc doc <> THang.
Proof.
  unfold unmarshal_cbe, unmarshal_events.
  destruct (cbe_decode default_dcfg doc) as [evs r].
  destruct (Rules.run default_rcfg evs) as [[c fwd] rej].
  destruct (Build.run uc tc init_state fwd 0) as [[st|st] i]; [|apply on_error_returns].
  destruct (dres_is_err r); [apply on_error_returns|]. destruct rej; [apply on_error_returns | discriminate].
Qed.

(* C09, first half, for the untyped entry point: every proper prefix of an accepted
   document makes it return an error (and it does return). *)
Theorem unmarshal_truncated_is_error uc tc doc (k : nat) v :
  unmarshal_cbe uc tc doc = TOk v -> (k < length doc)%nat ->
  exists p, unmarshal_cbe uc tc (firstn k doc) = TErr p.
Proof.
  intros H Hk. destruct (unmarshal_cbe uc tc (firstn k doc)) as [w|p|] eqn:E.
  - exfalso. exact (unmarshal_truncated_not_ok _ _ _ _ _ H Hk w E).
  - exists p. reflexivity.
  - exfalso. exact (unmarshal_never_hangs _ _ _ E).
Qed.

(* ------------------------------------------------------------------ *)
(* The full property and the defect that refutes it                     *)
(* ------------------------------------------------------------------ *)

(* C09 as stated, for the untyped CBE entry point of the general model *)
Definition truncation_property : Prop :=
  forall uc tc doc (k : nat) v,
    unmarshal_cbe uc tc doc = TOk v -> (k < length doc)%nat ->
    exists p, unmarshal_cbe uc tc (firstn k doc) = TErr p /\ (p = UNil \/ vprefix p v).

Definition no_url (b : bytes) : option bytes := None.
Definition no_time (b : bytes) : option (bytes * bytes) := None.

(* [ &a:5 $a ] cut behind the marker: the marker builder forwards the artificial end to the
   slice builder below it, which unstacks the MARKER and hands its own unfinished list to
   itself: the partial result is [[]], and an empty list is not an element of [5 5]. *)
Definition marker_witness : bytes := [129; 0; 154; 127; 240; 1; 97; 5; 119; 1; 97; 155].

Lemma marker_witness_whole :
  unmarshal_cbe no_url no_time marker_witness = TOk (UList [UInt 5; UInt 5]).
Proof. vm_compute. reflexivity. Qed.

Lemma marker_witness_cut :
  unmarshal_cbe no_url no_time (firstn 7 marker_witness) = TErr (UList [UList []]).
Proof. vm_compute. reflexivity. Qed.

Lemma truncation_property_refuted : ~ truncation_property.
Proof.
  intro H. destruct (H no_url no_time marker_witness 7%nat _ marker_witness_whole) as [p [E [X|X]]].
  - cbn. lia.
  - rewrite marker_witness_cut in E. congruence.
  - rewrite marker_witness_cut in E. inversion E; subst; clear E.
    inversion X; subst.
    match goal with H : lprefix _ _ |- _ => inversion H; subst end.
    match goal with H : vprefix (UList []) (UInt 5) |- _ => inversion H end.
Qed.

(* the same in value position of a map: { "k" = &a:{ "x" = 1 } "l" = $a } cut behind the marker *)
Definition marker_map_witness : bytes :=
  [129; 0; 153; 129; 107; 127; 240; 1; 97; 153; 129; 120; 1; 155; 129; 108; 119; 1; 97; 155].

Lemma marker_map_witness_cut :
  unmarshal_cbe no_url no_time marker_map_witness = TOk (UMap 2 [(UStr [107], UMap 5 [(UStr [120], UInt 1)]); (UStr [108], UMap 5 [(UStr [120], UInt 1)])]) /\
  exists inner, unmarshal_cbe no_url no_time (firstn 9 marker_map_witness) = TErr (UMap 2 [(UStr [107], UMap 2 inner)]).
Proof. split; [vm_compute; reflexivity | eexists; vm_compute; reflexivity]. Qed.
