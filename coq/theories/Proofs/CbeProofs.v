(* Proofs about the CBE model (Model/Cbe.v):
     1. integer form selection is minimal over the format's menu of forms,
     2. binary floats use the narrowest exact width,
     3. short array headers are used exactly when the format allows them,
     4. per-token decode-after-encode lemmas (reused by the round-trip property),
     5. decode -> re-encode reproduces the encoder's bytes (idempotence). *)
From CE Require Import Model.Cbe Proofs.FloatBitsProofs.
From Coq Require Import ZifyN ZifyNat ZifyBool.
Open Scope N_scope.

#[local] Arguments N.pow : simpl never.
#[local] Arguments N.div : simpl never.
#[local] Arguments N.modulo : simpl never.
#[local] Arguments N.mul : simpl never.
#[local] Arguments N.add : simpl never.
#[local] Arguments N.sub : simpl never.
#[local] Arguments N.ltb : simpl never.
#[local] Arguments N.leb : simpl never.
#[local] Arguments N.eqb : simpl never.
#[local] Arguments N.lor : simpl never.
#[local] Arguments N.land : simpl never.
#[local] Arguments N.of_nat : simpl never.
#[local] Arguments N.to_nat : simpl never.
#[local] Arguments le_encode : simpl never.
#[local] Arguments uleb_encode : simpl never.
#[local] Arguments min_le_len : simpl never.

(* ------------------------------------------------------------------ *)
(** * Small facts *)

Lemma pow256_1 : 256 ^ N.of_nat 1 = 256. Proof. reflexivity. Qed.
Lemma pow256_2 : 256 ^ N.of_nat 2 = 65536. Proof. reflexivity. Qed.
Lemma pow256_3 : 256 ^ N.of_nat 3 = 16777216. Proof. reflexivity. Qed.
Lemma pow256_4 : 256 ^ N.of_nat 4 = 4294967296. Proof. reflexivity. Qed.
Lemma pow256_5 : 256 ^ N.of_nat 5 = 1099511627776. Proof. reflexivity. Qed.
Lemma pow256_6 : 256 ^ N.of_nat 6 = 281474976710656. Proof. reflexivity. Qed.
Lemma pow256_7 : 256 ^ N.of_nat 7 = 72057594037927936. Proof. reflexivity. Qed.
Lemma pow256_8 : 256 ^ N.of_nat 8 = 18446744073709551616. Proof. reflexivity. Qed.

Lemma pow256_mono (a b : nat) : (a <= b)%nat -> 256 ^ N.of_nat a <= 256 ^ N.of_nat b.
Proof. intro H. apply N.pow_le_mono_r; [discriminate | lia]. Qed.

(* lower bound on the minimal byte length *)
Lemma min_le_len_ge v (k : nat) : 256 ^ N.of_nat k <= v -> (k < min_le_len v)%nat.
Proof.
  intro H. destruct (Nat.lt_ge_cases k (min_le_len v)) as [L|L]; [exact L|].
  pose proof (min_le_len_spec v) as S. pose proof (pow256_mono _ _ L). lia.
Qed.

Lemma uleb_len_mono a b : a <= b -> (uleb_len a <= uleb_len b)%nat.
Proof.
  intro H. apply uleb_len_le; [apply uleb_len_pos|].
  pose proof (uleb_len_spec b). lia.
Qed.

Lemma uleb_len_1 v : v < 128 -> uleb_len v = 1%nat.
Proof. apply uleb_len_small. Qed.

(* ------------------------------------------------------------------ *)
(** * 1. Integers: the menu of forms and minimality *)

(* The integer forms of the format (appendix B of the design):
     - small int: one byte, for -100..100 (negative zero has no small form),
     - fixed width w in {1,2,4,8}: type byte carrying the sign + w magnitude bytes,
     - variable length: type byte carrying the sign, ULEB128 byte count n, n magnitude bytes
       (any n that is large enough, leading zero bytes are legal). *)
Inductive int_form := FSmall | FFix (w : nat) | FVar (n : nat).

Definition form_available (neg : bool) (m : N) (f : int_form) : Prop :=
  match f with
  | FSmall => m <= 100 /\ ~ (neg = true /\ m = 0)
  | FFix w => In w [1; 2; 4; 8]%nat /\ m < 256 ^ N.of_nat w
  | FVar n => m < 256 ^ N.of_nat n
  end.

Definition form_length (f : int_form) : nat :=
  match f with
  | FSmall => 1
  | FFix w => 1 + w
  | FVar n => 1 + uleb_len (N.of_nat n) + n
  end.

(* what the encoder writes for sign [neg] and magnitude [m] *)
Definition enc_signed (neg : bool) (m : N) : bytes :=
  if m <? two64 then (if neg then enc_neg_int m else enc_pos_int m)
  else enc_big_magnitude (if neg then cbeTypeNegInt else cbeTypePosInt) m.

(* the form the encoder picks *)
Definition chosen_form (neg : bool) (m : N) : int_form :=
  if (m <=? 100) && negb (neg && (m =? 0)) then FSmall
  else if m <=? 255 then FFix 1
  else if m <=? 65535 then FFix 2
  else if m <=? 4294967295 then FFix 4
  else if m <=? 281474976710655 then FVar (min_le_len m)
  else if m <? two64 then FFix 8
  else FVar (min_le_len m).

Ltac int_consts :=
  unfold cbeFitsSmallintMax, cbeFitsUint8Max, cbeFitsUint16Max, cbeFitsUint32Max, cbeFitsUint48Max, two64 in *.

Lemma chosen_form_available neg m : form_available neg m (chosen_form neg m).
Proof.
  unfold chosen_form.
  destruct (N.leb_spec m 100) as [H100|H100]; cbn [andb].
  - destruct neg; cbn [andb negb].
    + destruct (N.eqb_spec m 0) as [E|E]; cbn [negb].
      * subst m. replace (0 <=? 255) with true by reflexivity. cbn [form_available].
        split; [left; reflexivity|]. rewrite pow256_1. lia.
      * split; [exact H100|]. intros [_ C]. contradiction.
    + split; [exact H100|]. intros [C _]. discriminate.
  - destruct (N.leb_spec m 255); [cbn; split; [auto|rewrite pow256_1; lia]|].
    destruct (N.leb_spec m 65535); [cbn; split; [auto|rewrite pow256_2; lia]|].
    destruct (N.leb_spec m 4294967295); [cbn; split; [auto|rewrite pow256_4; lia]|].
    destruct (N.leb_spec m 281474976710655); [cbn; apply min_le_len_spec|].
    destruct (N.ltb_spec m two64) as [L|L]; [cbn; split; [auto 6|rewrite pow256_8; unfold two64 in L; lia]|].
    cbn. apply min_le_len_spec.
Qed.

Lemma length_enc_pos_int v :
  v < two64 -> length (enc_pos_int v) = form_length (chosen_form false v).
Proof.
  intro Hv. unfold enc_pos_int, chosen_form. int_consts. cbn [andb negb].
  destruct (N.leb_spec v 100); [reflexivity|]. cbn [andb].
  destruct (N.leb_spec v 255); [cbn [length form_length]; rewrite le_encode_length; reflexivity|].
  destruct (N.leb_spec v 65535); [cbn [length form_length]; rewrite le_encode_length; reflexivity|].
  destruct (N.leb_spec v 4294967295); [cbn [length form_length]; rewrite le_encode_length; reflexivity|].
  destruct (N.leb_spec v 281474976710655) as [H48|H48].
  - cbn [length form_length]. rewrite le_encode_length.
    assert (L : (min_le_len v <= 6)%nat) by (apply min_le_len_le; rewrite pow256_6; lia).
    rewrite uleb_len_1 by lia. lia.
  - destruct (N.ltb_spec v 18446744073709551616) as [L|L]; [|lia].
    cbn [length form_length]. rewrite le_encode_length. reflexivity.
Qed.

Lemma length_enc_neg_int v :
  v < two64 -> length (enc_neg_int v) = form_length (chosen_form true v).
Proof.
  intro Hv. unfold enc_neg_int, chosen_form. int_consts. cbn [andb negb].
  destruct (N.eqb_spec v 0) as [E0|E0].
  - subst v. reflexivity.
  - destruct (N.leb_spec v 100); cbn [negb andb]; [reflexivity|].
    destruct (N.leb_spec v 255); [cbn [length form_length]; rewrite le_encode_length; reflexivity|].
    destruct (N.leb_spec v 65535); [cbn [length form_length]; rewrite le_encode_length; reflexivity|].
    destruct (N.leb_spec v 4294967295); [cbn [length form_length]; rewrite le_encode_length; reflexivity|].
    destruct (N.leb_spec v 281474976710655) as [H48|H48].
    + cbn [length form_length]. rewrite le_encode_length.
      assert (L : (min_le_len v <= 6)%nat) by (apply min_le_len_le; rewrite pow256_6; lia).
      rewrite uleb_len_1 by lia. lia.
    + destruct (N.ltb_spec v 18446744073709551616) as [L|L]; [|lia].
      cbn [length form_length]. rewrite le_encode_length. reflexivity.
Qed.

Lemma length_enc_signed neg m : length (enc_signed neg m) = form_length (chosen_form neg m).
Proof.
  unfold enc_signed. destruct (N.ltb_spec m two64) as [L|L].
  - destruct neg; [apply length_enc_neg_int | apply length_enc_pos_int]; exact L.
  - unfold chosen_form, enc_big_magnitude. unfold two64 in L.
    replace (m <=? 100) with false by (symmetry; apply N.leb_gt; lia). cbn [andb].
    replace (m <=? 255) with false by (symmetry; apply N.leb_gt; lia).
    replace (m <=? 65535) with false by (symmetry; apply N.leb_gt; lia).
    replace (m <=? 4294967295) with false by (symmetry; apply N.leb_gt; lia).
    replace (m <=? 281474976710655) with false by (symmetry; apply N.leb_gt; lia).
    replace (m <? two64) with false by (symmetry; apply N.ltb_ge; unfold two64; lia).
    cbn [length form_length]. rewrite app_length, uleb_encode_length, le_encode_length. lia.
Qed.

(* every form that can hold the value is at least as long as the chosen one *)
Lemma chosen_form_minimal neg m f :
  form_available neg m f -> (form_length (chosen_form neg m) <= form_length f)%nat.
Proof.
  intro Hf.
  assert (Hvar : forall n, m < 256 ^ N.of_nat n ->
                  (1 + uleb_len (N.of_nat (min_le_len m)) + min_le_len m <= 1 + uleb_len (N.of_nat n) + n)%nat).
  { intros n Hn. pose proof (min_le_len_le m n Hn) as L.
    pose proof (uleb_len_mono (N.of_nat (min_le_len m)) (N.of_nat n) ltac:(lia)). lia. }
  assert (Hvar_ge : forall n k, m < 256 ^ N.of_nat n -> 256 ^ N.of_nat k <= m -> (k < n)%nat).
  { intros n k Hn Hk. destruct (Nat.lt_ge_cases k n) as [L|L]; [exact L|].
    pose proof (pow256_mono _ _ L). lia. }
  pose proof (uleb_len_pos) as Hup.
  (* a fixed-width form: its width is one of 1, 2, 4, 8 and bounds m *)
  assert (Hfix : forall w, form_available neg m (FFix w) ->
                  (w = 1%nat /\ m < 256) \/ (w = 2%nat /\ m < 65536) \/ (w = 4%nat /\ m < 4294967296) \/
                  (w = 8%nat /\ m < 18446744073709551616)).
  { intros w [[<-|[<-|[<-|[<-|[]]]]] Hw].
    - rewrite pow256_1 in Hw. auto.
    - rewrite pow256_2 in Hw. auto.
    - rewrite pow256_4 in Hw. auto.
    - rewrite pow256_8 in Hw. auto 6. }
  unfold chosen_form.
  destruct (N.leb_spec m 100) as [H100|H100]; cbn [andb].
  - destruct (negb (neg && (m =? 0))) eqn:Hz.
    + (* small *) destruct f as [|w|n]; cbn [form_length]; [lia|lia|]. specialize (Hup (N.of_nat n)). lia.
    + (* negative zero: two bytes *)
      apply negb_false_iff, andb_true_iff in Hz as [-> Hm0]. apply N.eqb_eq in Hm0. subst m.
      replace (0 <=? 255) with true by reflexivity. cbn [form_length].
      destruct f as [|w|n].
      * destruct Hf as [_ C]. exfalso. apply C. split; reflexivity.
      * destruct (Hfix w Hf) as [[-> _]|[[-> _]|[[-> _]|[-> _]]]]; cbn [form_length]; lia.
      * cbn [form_length]. specialize (Hup (N.of_nat n)). lia.
  - destruct (N.leb_spec m 255) as [H8|H8].
    { cbn [form_length]. destruct f as [|w|n].
      - destruct Hf as [C _]. lia.
      - destruct (Hfix w Hf) as [[-> ?]|[[-> ?]|[[-> ?]|[-> ?]]]]; cbn [form_length]; lia.
      - cbn [form_available form_length] in *.
        pose proof (Hvar_ge n 0%nat Hf ltac:(change (256 ^ N.of_nat 0) with 1; lia)).
        specialize (Hup (N.of_nat n)). lia. }
    destruct (N.leb_spec m 65535) as [H16|H16].
    { cbn [form_length]. destruct f as [|w|n].
      - destruct Hf as [C _]. lia.
      - destruct (Hfix w Hf) as [[-> ?]|[[-> ?]|[[-> ?]|[-> ?]]]]; cbn [form_length]; lia.
      - cbn [form_available form_length] in *.
        pose proof (Hvar_ge n 1%nat Hf ltac:(rewrite pow256_1; lia)).
        specialize (Hup (N.of_nat n)). lia. }
    destruct (N.leb_spec m 4294967295) as [H32|H32].
    { cbn [form_length]. destruct f as [|w|n].
      - destruct Hf as [C _]. lia.
      - destruct (Hfix w Hf) as [[-> ?]|[[-> ?]|[[-> ?]|[-> ?]]]]; cbn [form_length]; lia.
      - cbn [form_available form_length] in *.
        pose proof (Hvar_ge n 2%nat Hf ltac:(rewrite pow256_2; lia)).
        specialize (Hup (N.of_nat n)). lia. }
    destruct (N.leb_spec m 281474976710655) as [H48|H48].
    { cbn [form_length].
      assert (L6 : (min_le_len m <= 6)%nat) by (apply min_le_len_le; rewrite pow256_6; lia).
      destruct f as [|w|n].
      - destruct Hf as [C _]. lia.
      - rewrite uleb_len_1 by lia.
        destruct (Hfix w Hf) as [[-> ?]|[[-> ?]|[[-> ?]|[-> ?]]]]; cbn [form_length]; lia.
      - apply Hvar. exact Hf. }
    destruct (N.ltb_spec m two64) as [H64|H64].
    { cbn [form_length]. destruct f as [|w|n].
      - destruct Hf as [C _]. lia.
      - destruct (Hfix w Hf) as [[-> ?]|[[-> ?]|[[-> ?]|[-> ?]]]]; cbn [form_length]; lia.
      - cbn [form_available form_length] in *.
        pose proof (Hvar_ge n 6%nat Hf ltac:(rewrite pow256_6; lia)).
        specialize (Hup (N.of_nat n)). lia. }
    cbn [form_length]. unfold two64 in H64. destruct f as [|w|n].
    + destruct Hf as [C _]. lia.
    + destruct (Hfix w Hf) as [[-> ?]|[[-> ?]|[[-> ?]|[-> ?]]]]; cbn [form_length]; lia.
    + apply Hvar. exact Hf.
Qed.

(* Main statement, for every sign and magnitude (no size bound): the encoder's
   output has the length of an available form, and no available form is shorter. *)
Theorem int_minimal neg m :
  form_available neg m (chosen_form neg m) /\
  length (enc_signed neg m) = form_length (chosen_form neg m) /\
  forall f, form_available neg m f -> (length (enc_signed neg m) <= form_length f)%nat.
Proof.
  split; [apply chosen_form_available|]. split; [apply length_enc_signed|].
  intros f Hf. rewrite length_enc_signed. apply chosen_form_minimal. exact Hf.
Qed.

(* The menu as an explicit list: the small form, the four fixed widths, and the
   variable-length form with every byte count the decoder accepts (0..1024),
   each kept only if it can hold the value; paired with its length. *)
Definition form_availableb (neg : bool) (m : N) (f : int_form) : bool :=
  match f with
  | FSmall => (m <=? 100) && negb (neg && (m =? 0))
  | FFix w => m <? 256 ^ N.of_nat w
  | FVar n => m <? 256 ^ N.of_nat n
  end.

Definition all_forms : list int_form :=
  FSmall :: FFix 1 :: FFix 2 :: FFix 4 :: FFix 8 :: map FVar (seq 0 1025).

Definition int_menu (neg : bool) (m : N) : list (int_form * nat) :=
  map (fun f => (f, form_length f)) (filter (form_availableb neg m) all_forms).

Definition list_min (l : list nat) : option nat :=
  match l with
  | [] => None
  | x :: r => Some (fold_left Nat.min r x)
  end.

Lemma fold_left_min_le l x : (fold_left Nat.min l x <= x)%nat.
Proof. revert x; induction l as [|y l IH]; intro x; cbn [fold_left]; [lia|]. specialize (IH (Nat.min x y)). lia. Qed.

Lemma fold_left_min_le_in l x y : In y l -> (fold_left Nat.min l x <= y)%nat.
Proof.
  revert x; induction l as [|z l IH]; intros x H; [destruct H|].
  cbn [fold_left]. destruct H as [->|H].
  - pose proof (fold_left_min_le l (Nat.min x y)). lia.
  - apply IH. exact H.
Qed.

Lemma fold_left_min_in l x : fold_left Nat.min l x = x \/ In (fold_left Nat.min l x) l.
Proof.
  revert x; induction l as [|z l IH]; intro x; cbn [fold_left]; [left; reflexivity|].
  destruct (IH (Nat.min x z)) as [E|E].
  - rewrite E. destruct (Nat.min_spec x z) as [[_ ->]|[_ ->]]; [left; reflexivity | right; left; reflexivity].
  - right. right. exact E.
Qed.

(* characterisation: [v] is the minimum of a list *)
Lemma list_min_spec l v :
  In v l -> (forall y, In y l -> (v <= y)%nat) -> list_min l = Some v.
Proof.
  destruct l as [|x r]; intros Hin Hle; [destruct Hin|]. cbn [list_min]. f_equal.
  assert (A : (fold_left Nat.min r x <= v)%nat).
  { destruct Hin as [->|Hin]; [apply fold_left_min_le | apply fold_left_min_le_in; exact Hin]. }
  assert (B : (v <= fold_left Nat.min r x)%nat).
  { destruct (fold_left_min_in r x) as [E|E]; [rewrite E; apply Hle; left; reflexivity|].
    apply Hle. right. exact E. }
  lia.
Qed.

Lemma form_availableb_spec neg m f :
  In f all_forms -> (form_availableb neg m f = true <-> form_available neg m f).
Proof.
  intro Hin. destruct f as [|w|n]; cbn [form_availableb form_available].
  - rewrite andb_true_iff, N.leb_le, negb_true_iff, andb_false_iff. split.
    + intros [H1 H2]. split; [exact H1|]. intros [-> Hm]. subst m. destruct H2 as [H2|H2]; discriminate.
    + intros [H1 H2]. split; [exact H1|]. destruct neg; [|left; reflexivity].
      right. apply N.eqb_neq. intro C. apply H2. split; [reflexivity | exact C].
  - rewrite N.ltb_lt. split; [|intros [_ H]; exact H]. intro H. split; [|exact H].
    unfold all_forms in Hin. cbn [In] in Hin.
    destruct Hin as [C|[C|[C|[C|[C|C]]]]]; try discriminate; try (injection C as <-; cbn; auto 6).
    apply in_map_iff in C as (k & C & _). discriminate.
  - apply N.ltb_lt.
Qed.

Lemma FVar_in_all_forms n : (n <= 1024)%nat -> In (FVar n) all_forms.
Proof.
  intro H. unfold all_forms. do 5 right. apply in_map. apply in_seq. lia.
Qed.

Lemma chosen_form_in_all_forms neg m :
  m < 256 ^ N.of_nat 1024 -> In (chosen_form neg m) all_forms.
Proof.
  intro Hm. assert (L : (min_le_len m <= 1024)%nat) by (apply min_le_len_le; exact Hm).
  unfold chosen_form.
  destruct ((m <=? 100) && negb (neg && (m =? 0))); [left; reflexivity|].
  destruct (m <=? 255); [right; left; reflexivity|].
  destruct (m <=? 65535); [do 2 right; left; reflexivity|].
  destruct (m <=? 4294967295); [do 3 right; left; reflexivity|].
  destruct (m <=? 281474976710655); [apply FVar_in_all_forms; exact L|].
  destruct (m <? two64); [do 4 right; left; reflexivity|].
  apply FVar_in_all_forms; exact L.
Qed.

(* length of the encoding = minimum of the explicit menu, for every value the
   decoder's limit on the byte count (1024) lets the format express *)
Theorem int_minimal_menu neg m :
  m < 256 ^ N.of_nat 1024 ->
  list_min (map snd (int_menu neg m)) = Some (length (enc_signed neg m)).
Proof.
  intro Hm. apply list_min_spec.
  - unfold int_menu. rewrite map_map. cbn [snd]. apply in_map_iff.
    exists (chosen_form neg m). split; [symmetry; apply length_enc_signed|].
    apply filter_In. split; [apply chosen_form_in_all_forms; exact Hm|].
    apply form_availableb_spec; [apply chosen_form_in_all_forms; exact Hm|].
    apply chosen_form_available.
  - intros y Hy. unfold int_menu in Hy. rewrite map_map in Hy. cbn [snd] in Hy.
    apply in_map_iff in Hy as (f & <- & Hf). apply filter_In in Hf as [Hin Hav].
    apply (proj2 (proj2 (int_minimal neg m))). apply form_availableb_spec; assumption.
Qed.

(* the event-level encoders are [enc_signed] *)
Lemma enc_pos_int_signed v : v < two64 -> enc_pos_int v = enc_signed false v.
Proof. intro H. unfold enc_signed. apply N.ltb_lt in H. rewrite H. reflexivity. Qed.

Lemma enc_neg_int_signed v : v < two64 -> enc_neg_int v = enc_signed true v.
Proof. intro H. unfold enc_signed. apply N.ltb_lt in H. rewrite H. reflexivity. Qed.

Lemma enc_int_signed z :
  is_i64 z = true -> enc_int z = enc_signed (z <? 0)%Z (Z.abs_N z).
Proof.
  unfold is_i64, enc_int. intro H. apply andb_true_iff in H as [H1 H2].
  apply Z.leb_le in H1. apply Z.ltb_lt in H2.
  destruct (Z.leb_spec 0 z) as [P|P].
  - replace (z <? 0)%Z with false by (symmetry; apply Z.ltb_ge; exact P).
    replace (Z.abs_N z) with (Z.to_N z) by lia.
    apply enc_pos_int_signed. unfold two64. lia.
  - replace (z <? 0)%Z with true by (symmetry; apply Z.ltb_lt; exact P).
    apply enc_neg_int_signed. unfold two64. lia.
Qed.

Lemma enc_big_int_signed z : enc_big_int z = enc_signed (z <? 0)%Z (Z.abs_N z).
Proof.
  unfold enc_big_int, enc_signed. cbv zeta.
  destruct (z <? 0)%Z; destruct (Z.abs_N z <? two64); reflexivity.
Qed.

(* ------------------------------------------------------------------ *)
(** * 2. Binary floats: narrowest exact width *)

Definition width_bytes (w : fwidth) : nat := match w with W16 => 2 | W32 => 4 | W64 => 8 end.
Definition width_code (w : fwidth) : N :=
  match w with W16 => cbeTypeFloat16 | W32 => cbeTypeFloat32 | W64 => cbeTypeFloat64 end.

(* exactly representable in the width (finite values; see FloatBitsProofs) *)
Definition repr_in (w : fwidth) (b : N) : Prop :=
  match w with W16 => repr16 b | W32 => repr32 b | W64 => True end.

Definition f64_ordinary (b : N) : bool :=
  negb (FloatBits.f64_is_inf b) && negb (FloatBits.f64_is_nan b) && negb (f64_is_zero b).

Lemma f64_ordinary_split b :
  f64_ordinary b = true ->
  FloatBits.f64_is_inf b = false /\ FloatBits.f64_is_nan b = false /\ f64_is_zero b = false.
Proof.
  unfold f64_ordinary. intro H. apply andb_true_iff in H as [H H3]. apply andb_true_iff in H as [H1 H2].
  apply negb_true_iff in H1, H2, H3. auto.
Qed.

Lemma enc_float_ordinary b :
  f64_ordinary b = true ->
  enc_float b = width_code (fst (float_encode b)) ::
                le_encode (width_bytes (fst (float_encode b))) (snd (float_encode b)).
Proof.
  intro H. apply f64_ordinary_split in H as (H1 & H2 & H3).
  unfold enc_float. rewrite H1, H2, H3. destruct (float_encode b) as [[| |] x]; reflexivity.
Qed.

(* The encoder writes type byte + the narrowest width that holds the value exactly. *)
Theorem float_narrowest b :
  b < 2 ^ 64 -> f64_ordinary b = true ->
  length (enc_float b) = S (width_bytes (float_width b)) /\
  repr_in (float_width b) b /\
  forall w, repr_in w b -> (width_bytes (float_width b) <= width_bytes w)%nat.
Proof.
  intros Hb Ho. rewrite (enc_float_ordinary b Ho), float_encode_width.
  split; [cbn [length]; rewrite le_encode_length; reflexivity|].
  pose proof (float_width_minimal b Hb) as M.
  destruct (float_width b); cbn [repr_in width_bytes].
  - split; [exact M|]. intros [| |] _; cbn; lia.
  - destruct M as [N16 R32]. split; [exact R32|]. intros [| |] Hw; cbn in *; try lia. contradiction.
  - destruct M as [N16 N32]. split; [exact I|]. intros [| |] Hw; cbn in *; try lia; contradiction.
Qed.

(* infinities and NaNs take three bytes (as a bfloat16 would), zeros one or two *)
Lemma enc_float_special_length b :
  f64_ordinary b = false -> (length (enc_float b) <= 3)%nat.
Proof.
  unfold f64_ordinary, enc_float. intro H.
  destruct (FloatBits.f64_is_inf b); [destruct (f64_sign b =? 1); vm_compute; lia|].
  destruct (FloatBits.f64_is_nan b); [destruct (negb (FloatBits.f64_quiet_bit b)); vm_compute; lia|].
  destruct (f64_is_zero b); [destruct (f64_sign b =? 1); vm_compute; lia|]. discriminate.
Qed.

(* ------------------------------------------------------------------ *)
(** * 3. Arrays: short headers *)

Definition array_info (t : N) : option (N * bool * bool) := nth_error cbeArrayInfo (N.to_nat t).

Definition has_short_form (t : N) : bool :=
  match array_info t with Some (_, has, _) => has | None => false end.

Definition short_header (t n : N) : bytes :=
  match array_info t with
  | Some (short, _, p7) => (if p7 then [cbeTypePlane7f] else []) ++ [N.lor (short mod 256) (n mod 256)]
  | None => []
  end.

(* writeSmallArrayHeader writes the short header iff the count allows it and the type has one *)
Lemma enc_small_header_spec t n :
  enc_small_header t n =
  if cbeMaxSmallArrayLength <? n then Some None
  else match array_info t with
       | None => None
       | Some _ => if has_short_form t then Some (Some (short_header t n)) else Some None
       end.
Proof.
  unfold enc_small_header, has_short_form, short_header, array_info.
  destruct (cbeMaxSmallArrayLength <? n); [reflexivity|].
  destruct (nth_error cbeArrayInfo (N.to_nat t)) as [[[short has] p7]|]; [|reflexivity].
  destruct has; reflexivity.
Qed.

Theorem array_header_short t n :
  n <= cbeMaxSmallArrayLength -> has_short_form t = true ->
  enc_whole_array_header t n = Some (short_header t n).
Proof.
  intros Hn Hs. unfold enc_whole_array_header. rewrite enc_small_header_spec.
  replace (cbeMaxSmallArrayLength <? n) with false by (symmetry; apply N.ltb_ge; exact Hn).
  unfold has_short_form in *. destruct (array_info t) as [[[short has] p7]|]; [|discriminate].
  rewrite Hs. reflexivity.
Qed.

Theorem array_header_long t n :
  cbeMaxSmallArrayLength < n \/ (has_short_form t = false /\ array_info t <> None) ->
  enc_whole_array_header t n =
  opt_map (fun h => h ++ uleb_encode (chunk_header n false)) (enc_array_header t).
Proof.
  intro H. unfold enc_whole_array_header. rewrite enc_small_header_spec.
  destruct (N.ltb_spec cbeMaxSmallArrayLength n) as [L|L].
  - destruct (enc_array_header t); reflexivity.
  - destruct H as [H|[Hs Hi]]; [lia|]. destruct (array_info t); [|contradiction].
    rewrite Hs. destruct (enc_array_header t); reflexivity.
Qed.

(* the short header is one byte for strings and two bytes (7f xn) for the typed arrays:
   shorter than any regular header, which needs the type code(s) and a chunk header *)
Lemma short_header_length t n :
  has_short_form t = true -> (1 <= length (short_header t n) <= 2)%nat.
Proof.
  unfold has_short_form, short_header. destruct (array_info t) as [[[short has] p7]|]; [|discriminate].
  intros _. destruct p7; cbn; lia.
Qed.

(* chunked API: the first chunk gets the short header exactly when it is final
   and a whole array of that type and count would get it *)
Theorem chunk_first_final t n :
  n < two64 ->
  cbe_encode_event {| es_array_type := t; es_try_small := true |} (EArrayChunk n false) =
  opt_map (fun h => ({| es_array_type := t; es_try_small := false |}, h)) (enc_whole_array_header t n).
Proof.
  intro Hn. unfold cbe_encode_event, enc_whole_array_header, guard, is_u64. cbn [es_array_type es_try_small].
  apply N.ltb_lt in Hn. rewrite Hn.
  destruct (enc_small_header t n) as [[h|]|]; try reflexivity.
  destruct (enc_array_header t); reflexivity.
Qed.

Theorem chunk_first_not_final t n :
  n < two64 ->
  cbe_encode_event {| es_array_type := t; es_try_small := true |} (EArrayChunk n true) =
  opt_map (fun h => ({| es_array_type := t; es_try_small := false |}, h ++ uleb_encode (chunk_header n true)))
          (enc_array_header t).
Proof.
  intro Hn. unfold cbe_encode_event, guard, is_u64. cbn [es_array_type es_try_small].
  apply N.ltb_lt in Hn. rewrite Hn. reflexivity.
Qed.

Theorem chunk_later st n more :
  n < two64 -> es_try_small st = false ->
  cbe_encode_event st (EArrayChunk n more) =
  Some ({| es_array_type := es_array_type st; es_try_small := false |}, uleb_encode (chunk_header n more)).
Proof.
  intros Hn Hs. unfold cbe_encode_event, guard, is_u64. apply N.ltb_lt in Hn. rewrite Hn, Hs. reflexivity.
Qed.

(* which types have a short form: exactly strings and the eleven plane-7f typed arrays (from the table) *)
Example short_form_types :
  filter has_short_form (nseq 0 256) =
  [cbeAT_String; cbeAT_Uint16; cbeAT_Uint32; cbeAT_Uint64; cbeAT_Int8; cbeAT_Int16; cbeAT_Int32; cbeAT_Int64;
   cbeAT_Float16; cbeAT_Float32; cbeAT_Float64; cbeAT_UID].
Proof. vm_compute. reflexivity. Qed.

(* ------------------------------------------------------------------ *)
(** * 4. The reader on encoder output *)

#[local] Arguments classify : simpl never.
#[local] Arguments classify7f : simpl never.
#[local] Arguments uleb_decode : simpl never.
#[local] Arguments uleb_decode_u64 : simpl never.
#[local] Arguments uleb_span : simpl never.
#[local] Arguments le_decode : simpl never.
#[local] Arguments firstn : simpl never.
#[local] Arguments skipn : simpl never.

Lemma len_nil : len [] = 0.
Proof. reflexivity. Qed.

Lemma len_cons x (r : bytes) : len (x :: r) = 1 + len r.
Proof. unfold len. cbn [length]. lia. Qed.

Lemma len_app (a b : bytes) : len (a ++ b) = len a + len b.
Proof. unfold len. rewrite app_length. lia. Qed.

Lemma len_le_encode n v : len (le_encode n v) = N.of_nat n.
Proof. unfold len. rewrite le_encode_length. reflexivity. Qed.

Lemma len_zero (d : bytes) : len d = 0 -> d = [].
Proof. unfold len. destruct d; [reflexivity|]. cbn [length]. lia. Qed.

Lemma firstn_len_app (d r : bytes) : firstn (N.to_nat (len d)) (d ++ r) = d.
Proof.
  unfold len. rewrite Nat2N.id, firstn_app, Nat.sub_diag, firstn_all.
  change (firstn 0 r) with (@nil N). apply app_nil_r.
Qed.

Lemma skipn_len_app (d r : bytes) : skipn (N.to_nat (len d)) (d ++ r) = r.
Proof.
  unfold len. rewrite Nat2N.id, skipn_app, Nat.sub_diag, skipn_all. reflexivity.
Qed.

(* the document size limit is not reached while [br] plus the unread input stays below it *)
Definition fits (cfg : dcfg) (br : N) (b : bytes) : Prop := br + len b <= max_doc_size cfg.

Lemma mark_ok cfg n br : br + n <= max_doc_size cfg -> mark cfg n br = Some (br + n).
Proof. intro H. unfold mark. replace (max_doc_size cfg <? br + n) with false; [reflexivity|]. symmetry. apply N.ltb_ge. exact H. Qed.

Lemma read_u8_ok cfg br x r :
  br + 1 <= max_doc_size cfg -> read_u8 cfg (br, x :: r) = Some (x, (br + 1, r)).
Proof. intro H. unfold read_u8. cbn [fst snd]. rewrite mark_ok by exact H. reflexivity. Qed.

Lemma read_bytes_ok cfg br n d r :
  len d = n -> br + n <= max_doc_size cfg ->
  read_bytes cfg n (br, d ++ r) = Some (d, (br + n, r)).
Proof.
  intros Hn H. unfold read_bytes. cbn [fst snd]. subst n.
  destruct (N.eqb_spec (len d) 0) as [E|E].
  - rewrite E, N.add_0_r. apply len_zero in E. subst d. reflexivity.
  - rewrite len_app. replace (len d + len r <? len d) with false by (symmetry; apply N.ltb_ge; lia).
    rewrite mark_ok by exact H. rewrite firstn_len_app, skipn_len_app. reflexivity.
Qed.

Lemma read_le_ok cfg br n v r :
  br + N.of_nat n <= max_doc_size cfg -> v < 256 ^ N.of_nat n ->
  read_le cfg n (br, le_encode n v ++ r) = Some (v, (br + N.of_nat n, r)).
Proof.
  intros H Hv. unfold read_le. rewrite (read_bytes_ok cfg br (N.of_nat n)) by (try apply len_le_encode; exact H).
  rewrite le_decode_encode_small by exact Hv. reflexivity.
Qed.

Lemma uleb_not_big v rest : v < two64 -> uleb_is_big (uleb_encode v ++ rest) v = false.
Proof.
  intro Hv. unfold uleb_is_big. rewrite uleb_span_encode.
  pose proof (uleb_encode_length_u64 v Hv) as L.
  replace (length (uleb_encode v) <=? 18)%nat with true by (symmetry; apply Nat.leb_le; lia).
  replace (v <? two64) with true by (symmetry; apply N.ltb_lt; exact Hv).
  rewrite orb_true_r. reflexivity.
Qed.

Lemma read_uleb_raw_ok cfg br v r :
  br + len (uleb_encode v) <= max_doc_size cfg ->
  read_uleb_raw cfg (br, uleb_encode v ++ r) =
  Some (v, uleb_is_big (uleb_encode v ++ r) v, length (uleb_encode v), (br + len (uleb_encode v), r)).
Proof.
  intro H. unfold read_uleb_raw. cbn [fst snd]. rewrite uleb_decode_encode, uleb_span_encode.
  fold (len (uleb_encode v)). rewrite mark_ok by exact H. reflexivity.
Qed.

Lemma read_uleb_ok cfg maxv br v r :
  v < two64 -> v <= maxv -> br + len (uleb_encode v) <= max_doc_size cfg ->
  read_uleb cfg maxv (br, uleb_encode v ++ r) = Some (v, (br + len (uleb_encode v), r)).
Proof.
  intros Hv Hm H. unfold read_uleb. rewrite read_uleb_raw_ok by exact H. rewrite uleb_not_big by exact Hv.
  replace (maxv <? v) with false by (symmetry; apply N.ltb_ge; exact Hm). reflexivity.
Qed.

Lemma read_identifier_ok cfg br id r :
  1 <= len id <= identifier_max_length -> br + len (enc_identifier id) <= max_doc_size cfg ->
  read_identifier cfg (br, enc_identifier id ++ r) = Some (id, (br + len (enc_identifier id), r)).
Proof.
  intros [H1 H2] H. unfold read_identifier, enc_identifier in *. rewrite <- app_assoc. rewrite len_app in *.
  rewrite read_uleb_ok; [|unfold identifier_max_length, two64 in *; lia|exact H2|lia].
  replace (len id =? 0) with false by (symmetry; apply N.eqb_neq; lia).
  rewrite (read_bytes_ok cfg _ (len id)) by (try reflexivity; lia). rewrite N.add_assoc. reflexivity.
Qed.

(* [tok] decodes, in front of any continuation, to exactly the events [evs]. *)
Definition tok_ok (cfg : dcfg) (tok : bytes) (evs : list event) : Prop :=
  forall br rest, fits cfg br (tok ++ rest) ->
    exists br', dec_token cfg (br, tok ++ rest) = (evs, Some (br', rest)) /\ br' <= br + len tok.

Ltac norm_len_in H :=
  repeat (rewrite len_app in H || rewrite len_cons in H || rewrite len_le_encode in H || rewrite len_nil in H).
Ltac norm_len :=
  repeat (rewrite len_app || rewrite len_cons || rewrite len_le_encode || rewrite len_nil).

Ltac tok_start br rest Hfit :=
  intros br rest Hfit; unfold fits in Hfit; norm_len_in Hfit;
  unfold dec_token; cbn [app]; rewrite read_u8_ok by lia.

Ltac tok_done := eexists; split; [reflexivity | norm_len; lia].

(* ---- classification of the bytes the encoder writes ---- *)

Definition tkind_is_small (k : tkind) (z : Z) : bool :=
  match k with KSmallInt z' => (z' =? z)%Z | _ => false end.

Lemma classify_small_sweep :
  forallb (fun v => tkind_is_small (classify v) (Z.of_N v)) (nseq 0 101) = true.
Proof. vm_compute. reflexivity. Qed.

Lemma classify_small_neg_sweep :
  forallb (fun v => tkind_is_small (classify (256 - v)) (- Z.of_N v)) (nseq 1 100) = true.
Proof. vm_compute. reflexivity. Qed.

Lemma tkind_is_small_eq k z : tkind_is_small k z = true -> k = KSmallInt z.
Proof. destruct k; cbn; try discriminate. intro H. apply Z.eqb_eq in H. subst. reflexivity. Qed.

Lemma classify_small v : v <= 100 -> classify v = KSmallInt (Z.of_N v).
Proof.
  intro H. apply tkind_is_small_eq.
  pose proof classify_small_sweep as S. rewrite forallb_forall in S. apply S, nseq_In. cbn. lia.
Qed.

Lemma classify_small_neg v : 1 <= v <= 100 -> classify (256 - v) = KSmallInt (- Z.of_N v).
Proof.
  intro H. apply tkind_is_small_eq.
  pose proof classify_small_neg_sweep as S. rewrite forallb_forall in S. apply S, nseq_In. cbn. lia.
Qed.

Definition fix_code (neg : bool) (w : nat) : N :=
  match w, neg with
  | 1%nat, false => cbeTypePosInt8 | 1%nat, true => cbeTypeNegInt8
  | 2%nat, false => cbeTypePosInt16 | 2%nat, true => cbeTypeNegInt16
  | 4%nat, false => cbeTypePosInt32 | 4%nat, true => cbeTypeNegInt32
  | 8%nat, false => cbeTypePosInt64 | 8%nat, true => cbeTypeNegInt64
  | _, _ => 0
  end.

Lemma classify_fix neg w : In w [1; 2; 4; 8]%nat -> classify (fix_code neg w) = KFixInt neg w.
Proof. intros [<-|[<-|[<-|[<-|[]]]]]; destruct neg; reflexivity. Qed.

Definition var_code (neg : bool) : N := if neg then cbeTypeNegInt else cbeTypePosInt.

Lemma classify_var neg : classify (var_code neg) = KVarInt neg.
Proof. destruct neg; reflexivity. Qed.

(* ---- integer tokens ---- *)

Section Tokens.
Variable cfg : dcfg.

Lemma tok_small_pos v : v <= 100 -> tok_ok cfg [v] [EInt (Z.of_N v)].
Proof. intro H. tok_start br rest Hfit. rewrite classify_small by exact H. unfold tok_one. tok_done. Qed.

Lemma tok_small_neg v : 1 <= v <= 100 -> tok_ok cfg [256 - v] [EInt (- Z.of_N v)].
Proof. intro H. tok_start br rest Hfit. rewrite classify_small_neg by exact H. unfold tok_one. tok_done. Qed.

Lemma tok_fix neg w v :
  In w [1; 2; 4; 8]%nat -> v < 256 ^ N.of_nat w ->
  tok_ok cfg (fix_code neg w :: le_encode w v) [if neg then ENegInt v else EPosInt v].
Proof.
  intros Hw Hv. tok_start br rest Hfit. rewrite classify_fix by exact Hw.
  rewrite read_le_ok by (try exact Hv; lia). unfold tok_one. tok_done.
Qed.

Definition var_event (neg : bool) (n : nat) (v : N) : event :=
  if (n <=? 8)%nat then (if neg then ENegInt v else EPosInt v)
  else EBigInt (Some (if neg then (- Z.of_N v)%Z else Z.of_N v)).

Lemma max_bigint_bytes : cbeMaxBigIntBitCount / 8 = 1024.
Proof. reflexivity. Qed.

Lemma tok_var neg (n : nat) v :
  (n <= 1024)%nat -> v < 256 ^ N.of_nat n ->
  tok_ok cfg (var_code neg :: uleb_encode (N.of_nat n) ++ le_encode n v) [var_event neg n v].
Proof.
  intros Hn Hv. tok_start br rest Hfit. rewrite classify_var.
  unfold dec_var_int. rewrite max_bigint_bytes. rewrite <- app_assoc.
  rewrite read_uleb_ok by (unfold two64; lia).
  rewrite (read_bytes_ok cfg _ (N.of_nat n)) by (try apply len_le_encode; lia).
  rewrite le_decode_encode_small by exact Hv.
  unfold var_event.
  destruct (Nat.leb_spec n 8) as [L|L].
  - replace (N.of_nat n <=? 8) with true by (symmetry; apply N.leb_le; lia). destruct neg; tok_done.
  - replace (N.of_nat n <=? 8) with false by (symmetry; apply N.leb_gt; lia). destruct neg; tok_done.
Qed.

(* the event the decoder reports for an integer the encoder wrote *)
Definition signed_z (neg : bool) (m : N) : Z := if neg then (- Z.of_N m)%Z else Z.of_N m.

Definition norm_signed (neg : bool) (m : N) : event :=
  if (m <=? 100) && negb (neg && (m =? 0)) then EInt (signed_z neg m)
  else if m <? two64 then (if neg then ENegInt m else EPosInt m)
  else EBigInt (Some (signed_z neg m)).

Lemma tok_signed neg m :
  m < 256 ^ N.of_nat 1024 -> tok_ok cfg (enc_signed neg m) [norm_signed neg m].
Proof.
  intro Hm. unfold enc_signed, norm_signed.
  destruct (N.ltb_spec m two64) as [H64|H64].
  - unfold two64 in H64.
    assert (Hvar : 4294967295 < m -> m <= 281474976710655 ->
                   tok_ok cfg (var_code neg :: N.of_nat (min_le_len m) :: le_encode (min_le_len m) m)
                              [if neg then ENegInt m else EPosInt m]).
    { intros Lo Hi.
      assert (L6 : (min_le_len m <= 6)%nat) by (apply min_le_len_le; rewrite pow256_6; lia).
      pose proof (tok_var neg (min_le_len m) m ltac:(lia) (min_le_len_spec m)) as T.
      rewrite uleb_encode_small in T by lia. cbn [app] in T. unfold var_event in T.
      replace (min_le_len m <=? 8)%nat with true in T by (symmetry; apply Nat.leb_le; lia). exact T. }
    destruct neg; cbn [andb negb].
    + unfold enc_neg_int. int_consts.
      destruct (N.eqb_spec m 0) as [E0|E0]; cbn [negb andb].
      * subst m. rewrite andb_false_r. apply (tok_fix true 1 0); [left; reflexivity | rewrite pow256_1; lia].
      * rewrite andb_true_r. destruct (N.leb_spec m 100) as [H|H].
        { apply (tok_small_neg m). lia. }
        destruct (N.leb_spec m 255); [apply (tok_fix true 1 m); [cbn; auto | rewrite pow256_1; lia]|].
        destruct (N.leb_spec m 65535); [apply (tok_fix true 2 m); [cbn; auto | rewrite pow256_2; lia]|].
        destruct (N.leb_spec m 4294967295); [apply (tok_fix true 4 m); [cbn; auto | rewrite pow256_4; lia]|].
        destruct (N.leb_spec m 281474976710655); [apply Hvar; lia|].
        apply (tok_fix true 8 m); [cbn; auto 6 | rewrite pow256_8; lia].
    + unfold enc_pos_int. int_consts. rewrite andb_true_r.
      destruct (N.leb_spec m 100) as [H|H]; [apply (tok_small_pos m H)|].
      destruct (N.leb_spec m 255); [apply (tok_fix false 1 m); [cbn; auto | rewrite pow256_1; lia]|].
      destruct (N.leb_spec m 65535); [apply (tok_fix false 2 m); [cbn; auto | rewrite pow256_2; lia]|].
      destruct (N.leb_spec m 4294967295); [apply (tok_fix false 4 m); [cbn; auto | rewrite pow256_4; lia]|].
      destruct (N.leb_spec m 281474976710655); [apply Hvar; lia|].
      apply (tok_fix false 8 m); [cbn; auto 6 | rewrite pow256_8; lia].
  - unfold two64 in H64.
    replace (m <=? 100) with false by (symmetry; apply N.leb_gt; lia). cbn [andb].
    assert (L9 : (8 < min_le_len m)%nat) by (apply min_le_len_ge; rewrite pow256_8; lia).
    assert (L1024 : (min_le_len m <= 1024)%nat) by (apply min_le_len_le; exact Hm).
    pose proof (tok_var neg (min_le_len m) m L1024 (min_le_len_spec m)) as T.
    unfold var_event in T. replace (min_le_len m <=? 8)%nat with false in T by (symmetry; apply Nat.leb_gt; lia).
    unfold enc_big_magnitude, signed_z. destruct neg; exact T.
Qed.

End Tokens.

(* ------------------------------------------------------------------ *)
(** * 5. Tokens: floats, decimal specials, one-byte tokens, identifiers *)

Section Tokens2.
Variable cfg : dcfg.

Lemma classify_decimal : classify cbeTypeDecimal = KDecimal.
Proof. reflexivity. Qed.

Lemma dec_decimal_special (x : N) e br rest :
  In (x, e) [(128, DQNan); (129, DSNan); (130, DInf false); (131, DInf true)] ->
  br + 2 <= max_doc_size cfg ->
  dec_decimal cfg (br, x :: 0 :: rest) = Some (EDecimal e, (br + 2, rest)).
Proof.
  intros Hin H. unfold dec_decimal, read_uleb_raw. cbn [fst snd].
  cbn [In] in Hin. destruct Hin as [E|[E|[E|[E|[]]]]]; injection E as <- <-;
    match goal with |- context [uleb_decode ?b] =>
      let v := eval lazy in (uleb_decode b) in change (uleb_decode b) with v;
      let n := eval lazy in (uleb_span b) in change (uleb_span b) with n;
      let g := eval lazy in (uleb_is_big b) in change (uleb_is_big b) with g
    end;
    change (N.of_nat 2) with 2; rewrite mark_ok by exact H; reflexivity.
Qed.

Lemma tok_infinity neg : tok_ok cfg (enc_infinity neg) [EDecimal (DInf neg)].
Proof.
  unfold enc_infinity. destruct neg.
  - change cfNegativeInfinity with [131; 0]. tok_start br rest Hfit. rewrite classify_decimal.
    rewrite (dec_decimal_special 131 (DInf true)) by (cbn; auto 6; lia). unfold tok_one. tok_done.
  - change cfInfinity with [130; 0]. tok_start br rest Hfit. rewrite classify_decimal.
    rewrite (dec_decimal_special 130 (DInf false)) by (cbn; auto 6; lia). unfold tok_one. tok_done.
Qed.

Lemma tok_nan s : tok_ok cfg (enc_nan s) [EDecimal (if s then DSNan else DQNan)].
Proof.
  unfold enc_nan. destruct s.
  - change cfSignalingNan with [129; 0]. tok_start br rest Hfit. rewrite classify_decimal.
    rewrite (dec_decimal_special 129 DSNan) by (cbn; auto 6; lia). unfold tok_one. tok_done.
  - change cfQuietNan with [128; 0]. tok_start br rest Hfit. rewrite classify_decimal.
    rewrite (dec_decimal_special 128 DQNan) by (cbn; auto 6; lia). unfold tok_one. tok_done.
Qed.

Lemma tok_zero neg : tok_ok cfg (enc_zero neg) [if neg then ENegInt 0 else EInt 0].
Proof.
  destruct neg; cbn [enc_zero].
  - apply (tok_fix cfg true 1 0); [cbn; auto | rewrite pow256_1; lia].
  - apply (tok_small_pos cfg 0). lia.
Qed.

Definition norm_float (b : N) : event :=
  if FloatBits.f64_is_inf b then EDecimal (DInf (f64_sign b =? 1))
  else if FloatBits.f64_is_nan b then EDecimal (if negb (FloatBits.f64_quiet_bit b) then DSNan else DQNan)
  else if f64_is_zero b then (if f64_sign b =? 1 then ENegInt 0 else EInt 0)
  else EFloat b.

Lemma classify_float w : classify (width_code w) = KFloat w.
Proof. destruct w; reflexivity. Qed.

Lemma tok_float b : b < 2 ^ 64 -> tok_ok cfg (enc_float b) [norm_float b].
Proof.
  intro Hb. unfold enc_float, norm_float.
  destruct (FloatBits.f64_is_inf b); [apply tok_infinity|].
  destruct (FloatBits.f64_is_nan b); [apply tok_nan|].
  destruct (f64_is_zero b); [apply tok_zero|].
  unfold float_encode.
  destruct (f64_narrow16 b) as [h|] eqn:H16.
  - destruct (widen_narrow16 b h Hb H16) as (Hw & Hh & Hnan).
    change (2 ^ 16) with 65536 in Hh.
    tok_start br rest Hfit. change (classify cbeTypeFloat16) with (KFloat W16).
    rewrite read_le_ok by (try (rewrite pow256_2; exact Hh); lia).
    unfold dec_bf16. rewrite Hnan, Hw. unfold tok_one. tok_done.
  - destruct (f64_narrow32 b) as [w|] eqn:H32.
    + destruct (widen_narrow32 b w Hb H32) as (Hw & Hlt & Hnan).
      change (2 ^ 32) with 4294967296 in Hlt.
      tok_start br rest Hfit. change (classify cbeTypeFloat32) with (KFloat W32).
      rewrite read_le_ok by (try (rewrite pow256_4; exact Hlt); lia).
      unfold dec_f32. rewrite Hnan, Hw. unfold tok_one. tok_done.
    + change (2 ^ 64) with 18446744073709551616 in Hb.
      tok_start br rest Hfit. change (classify cbeTypeFloat64) with (KFloat W64).
      rewrite read_le_ok by (try (rewrite pow256_8; exact Hb); lia).
      unfold tok_one. tok_done.
Qed.

(* one-byte tokens *)
Definition byte_token (e : event) : option N :=
  match e with
  | ENull => Some cbeTypeNull | ETrue => Some cbeTypeTrue | EFalse => Some cbeTypeFalse
  | EList => Some cbeTypeList | EMap => Some cbeTypeMap | EEdge => Some cbeTypeEdge | ENode => Some cbeTypeNode
  | EEnd => Some cbeTypeEndContainer | EPadding => Some cbeTypePadding
  | _ => None
  end.

Lemma tok_byte e c : byte_token e = Some c -> tok_ok cfg [c] [e].
Proof.
  intro H. destruct e; try discriminate; injection H as <-; tok_start br rest Hfit;
    match goal with |- context [classify ?c] => change (classify c) with ltac:(let v := eval vm_compute in (classify c) in exact v) end;
    unfold tok_one; tok_done.
Qed.

(* identifiers *)
Definition id_ok (id : bytes) : Prop := 1 <= len id <= identifier_max_length.

Lemma tok_ref_local id : id_ok id -> tok_ok cfg (cbeTypeLocalReference :: enc_identifier id) [ERefLocal id].
Proof.
  intro H. tok_start br rest Hfit.
  change (classify cbeTypeLocalReference) with KRefLocal.
  rewrite read_identifier_ok by (try exact H; lia). unfold tok_one. tok_done.
Qed.

Lemma tok_record id : id_ok id -> tok_ok cfg (cbeTypeRecord :: enc_identifier id) [ERecord id].
Proof.
  intro H. tok_start br rest Hfit.
  change (classify cbeTypeRecord) with KRecord.
  rewrite read_identifier_ok by (try exact H; lia). unfold tok_one. tok_done.
Qed.

Lemma classify_plane7f : classify cbeTypePlane7f = KPlane7f.
Proof. reflexivity. Qed.

Ltac tok_start7f br rest Hfit :=
  tok_start br rest Hfit; rewrite classify_plane7f; unfold dec_plane7f; rewrite read_u8_ok by lia.

Lemma tok_marker id : id_ok id -> tok_ok cfg ([cbeTypePlane7f; cbeTypeMarker] ++ enc_identifier id) [EMarker id].
Proof.
  intro H. tok_start7f br rest Hfit.
  change (classify7f cbeTypeMarker) with K7Marker.
  rewrite read_identifier_ok by (try exact H; lia). unfold tok_one. tok_done.
Qed.

Lemma tok_record_type id : id_ok id -> tok_ok cfg ([cbeTypePlane7f; cbeTypeRecordType] ++ enc_identifier id) [ERecordType id].
Proof.
  intro H. tok_start7f br rest Hfit.
  change (classify7f cbeTypeRecordType) with K7RecordType.
  rewrite read_identifier_ok by (try exact H; lia). unfold tok_one. tok_done.
Qed.

Lemma tok_uid d : len d = 16 -> tok_ok cfg (cbeTypeUID :: d) [EUid d].
Proof.
  intro H. tok_start br rest Hfit. change (classify cbeTypeUID) with KUid.
  rewrite (read_bytes_ok cfg (br + 1) 16) by (try exact H; lia). unfold tok_one. tok_done.
Qed.

End Tokens2.

(* ------------------------------------------------------------------ *)
(** * 6. Tokens: arrays *)

(* one chunk: element count, continuation flag, the chunk's bytes *)
Definition chunk := (N * bool * bytes)%type.

Fixpoint enc_chunks (cs : list chunk) : bytes :=
  match cs with
  | [] => []
  | (n, more, d) :: r => uleb_encode (chunk_header n more) ++ d ++ enc_chunks r
  end.

(* what the decoder reports for the chunks: one data event per chunk, none for an empty chunk *)
Fixpoint chunk_events (cs : list chunk) : list event :=
  match cs with
  | [] => []
  | (n, more, d) :: r => EArrayChunk n more :: (if len d =? 0 then [] else [EArrayData d]) ++ chunk_events r
  end.

(* a chunk sequence as the array protocol demands: counts match the data, the last chunk and only it is final *)
Inductive chunks_wf (width : N) : list chunk -> Prop :=
| cw_last n d : n < two63 -> len d = elem_bytes width n -> chunks_wf width [(n, false, d)]
| cw_more n d r : n < two63 -> len d = elem_bytes width n -> chunks_wf width r -> chunks_wf width ((n, true, d) :: r).

Lemma chunk_header_small n more : n < two63 -> chunk_header n more = sign_bit more + 2 * n.
Proof.
  intro H. unfold chunk_header, u64, two63, two64 in *. rewrite N.mod_small by lia. lia.
Qed.

Lemma chunk_header_facts n more :
  n < two63 ->
  chunk_header n more < two64 /\ chunk_header n more / 2 = n /\ N.odd (chunk_header n more) = more.
Proof.
  intro H. rewrite chunk_header_small by exact H. unfold two63, two64 in *.
  assert (Hb : sign_bit more < 2) by (destruct more; cbn; lia).
  split; [lia|]. split.
  - rewrite N.mul_comm, N.div_add by discriminate. rewrite N.div_small by exact Hb. lia.
  - rewrite N.odd_add_mul_2. destruct more; reflexivity.
Qed.

Lemma enc_chunks_length_ge cs : (length cs <= length (enc_chunks cs))%nat.
Proof.
  induction cs as [|[[n more] d] r IH]; cbn [enc_chunks length]; [lia|].
  rewrite !app_length. pose proof (uleb_encode_nonempty (chunk_header n more)) as NE.
  destruct (uleb_encode (chunk_header n more)); [contradiction|]. cbn [length]. lia.
Qed.

Ltac tok_start7f br rest Hfit :=
  tok_start br rest Hfit; rewrite classify_plane7f; unfold dec_plane7f; rewrite read_u8_ok by lia.

Section Tokens3.
Variable cfg : dcfg.

Lemma dec_chunks_ok width cs :
  chunks_wf width cs ->
  forall fuel br rest, (length cs <= fuel)%nat -> fits cfg br (enc_chunks cs ++ rest) ->
  exists br', dec_chunks cfg fuel width (br, enc_chunks cs ++ rest) = (chunk_events cs, Some (br', rest)) /\
              br' <= br + len (enc_chunks cs).
Proof.
  induction 1 as [n d Hn Hd | n d r Hn Hd Hr IH]; intros fuel br rest Hfuel Hfit;
    (destruct fuel as [|f]; [cbn [length] in Hfuel; lia|]);
    destruct (chunk_header_facts n false Hn) as (A1 & A2 & A3);
    destruct (chunk_header_facts n true Hn) as (B1 & B2 & B3);
    unfold fits in Hfit; cbn [enc_chunks] in *; norm_len_in Hfit; cbn [dec_chunks]; rewrite <- !app_assoc.
  - rewrite read_uleb_ok by (try exact A1; unfold max_u64, two64 in *; lia).
    rewrite A2, A3, <- Hd. cbn [chunk_events]. rewrite app_nil_r.
    destruct (N.eqb_spec (len d) 0) as [E|E].
    + apply len_zero in E. subst d. cbn [app]. eexists; split; [reflexivity|]. norm_len. lia.
    + rewrite (read_bytes_ok cfg _ (len d)) by (try reflexivity; lia). cbn [app].
      eexists; split; [reflexivity|]. norm_len. lia.
  - rewrite read_uleb_ok by (try exact B1; unfold max_u64, two64 in *; lia).
    rewrite B2, B3, <- Hd. cbn [chunk_events].
    set (u := len (uleb_encode (chunk_header n true))) in *.
    destruct (N.eqb_spec (len d) 0) as [E|E].
    + apply len_zero in E. subst d. cbn [app].
      destruct (IH f (br + u) rest) as (br' & E1 & E2); [cbn [length] in Hfuel; lia | unfold fits; norm_len; norm_len_in Hfit; lia|].
      rewrite E1. eexists; split; [reflexivity|]. norm_len. fold u. lia.
    + rewrite (read_bytes_ok cfg _ (len d)) by (try reflexivity; lia).
      destruct (IH f (br + u + len d) rest) as (br' & E1 & E2); [cbn [length] in Hfuel; lia | unfold fits; norm_len; lia|].
      rewrite E1. cbn [app]. eexists; split; [reflexivity|]. norm_len. fold u. lia.
Qed.

Lemma chunks_fuel_enough br cs rest : (length cs <= chunks_fuel (br, enc_chunks cs ++ rest))%nat.
Proof.
  unfold chunks_fuel. cbn [snd]. rewrite app_length. pose proof (enc_chunks_length_ge cs). lia.
Qed.

(* ---- short arrays ---- *)

Definition short_check (t n : N) : bool :=
  match array_info t with
  | Some (short, true, p7) =>
      let c := N.lor (short mod 256) (n mod 256) in
      let eb := element_bits t in
      (elem_bytes eb n =? n * (eb / 8)) &&
      (if p7 then match classify7f c with
                  | K7Short t' k n' => (t' =? t) && (k =? eb / 8) && (n' =? n)
                  | _ => false
                  end
       else match classify c with
            | KString n' => (n' =? n) && (t =? cbeAT_String) && (eb / 8 =? 1)
            | _ => false
            end)
  | _ => true
  end.

Lemma short_sweep : forallb (fun t => forallb (short_check t) (nseq 0 16)) (nseq 0 256) = true.
Proof. vm_compute. reflexivity. Qed.

Lemma short_check_ok t n : t < 256 -> n <= 15 -> short_check t n = true.
Proof.
  intros Ht Hn. pose proof short_sweep as S. rewrite forallb_forall in S.
  specialize (S t ltac:(apply nseq_In; cbn; lia)). rewrite forallb_forall in S.
  apply S, nseq_In. cbn. lia.
Qed.

Lemma tok_short_array t n d :
  t < 256 -> n <= 15 -> has_short_form t = true -> len d = elem_bytes (element_bits t) n ->
  tok_ok cfg (short_header t n ++ d) [EArray t n d].
Proof.
  intros Ht Hn Hs Hd. pose proof (short_check_ok t n Ht Hn) as C.
  unfold short_check in C. unfold has_short_form in Hs. unfold short_header.
  destruct (array_info t) as [[[short has] p7]|]; [|discriminate]. subst has.
  cbv zeta in C. apply andb_true_iff in C as [C1 C2]. apply N.eqb_eq in C1. rewrite C1 in Hd.
  destruct p7.
  - destruct (classify7f (N.lor (short mod 256) (n mod 256))) as [t' k n'| | | | |] eqn:K; try discriminate.
    apply andb_true_iff in C2 as [C2 C3]. apply andb_true_iff in C2 as [C2 C4].
    apply N.eqb_eq in C2, C3, C4. subst t' k n'.
    cbn [app]. tok_start7f br rest Hfit. rewrite K.
    rewrite (read_bytes_ok cfg (br + 1 + 1) (n * (element_bits t / 8))) by (try exact Hd; lia).
    unfold tok_one. tok_done.
  - destruct (classify (N.lor (short mod 256) (n mod 256))) eqn:K; try discriminate.
    apply andb_true_iff in C2 as [C2 C3]. apply andb_true_iff in C2 as [C2 C4].
    apply N.eqb_eq in C2, C3, C4. subst. rewrite C3, N.mul_1_r in Hd.
    cbn [app]. tok_start br rest Hfit. rewrite K.
    rewrite (read_bytes_ok cfg (br + 1) n) by (try exact Hd; lia).
    unfold tok_one. tok_done.
Qed.

(* ---- regular (chunked) form ---- *)

Definition arr_ok (t : N) : bool :=
  in_list t [cbeAT_String; cbeAT_ResourceID; cbeAT_ReferenceRemote; cbeAT_Bit; cbeAT_Uint8; cbeAT_Uint16;
             cbeAT_Uint32; cbeAT_Uint64; cbeAT_Int8; cbeAT_Int16; cbeAT_Int32; cbeAT_Int64;
             cbeAT_Float16; cbeAT_Float32; cbeAT_Float64; cbeAT_UID].

Definition long_check (t : N) : bool :=
  if arr_ok t then
    match array_info t with Some _ => true | None => false end &&
    match enc_array_header t with
    | Some [c] => match classify c with KChunked t' => t' =? t | _ => false end
    | Some [p; c] => (p =? cbeTypePlane7f) && match classify7f c with K7Chunked t' => t' =? t | _ => false end
    | _ => false
    end
  else true.

Lemma long_sweep : forallb long_check (nseq 0 256) = true.
Proof. vm_compute. reflexivity. Qed.

Lemma arr_ok_lt t : arr_ok t = true -> t < 256.
Proof.
  unfold arr_ok, in_list. rewrite existsb_exists. intros (x & Hin & E). apply N.eqb_eq in E. subst x.
  cbn [In] in Hin. repeat (destruct Hin as [<-|Hin]; [reflexivity|]). destruct Hin.
Qed.

Lemma arr_ok_header t : arr_ok t = true -> exists hd, enc_array_header t = Some hd.
Proof.
  intro H. pose proof long_sweep as S. rewrite forallb_forall in S.
  specialize (S t ltac:(apply nseq_In; pose proof (arr_ok_lt t H); cbn; lia)).
  unfold long_check in S. rewrite H in S. apply andb_true_iff in S as [_ S].
  destruct (enc_array_header t) as [hd|]; [eauto | discriminate].
Qed.

Lemma arr_ok_info t : arr_ok t = true -> array_info t <> None.
Proof.
  intro H. pose proof long_sweep as S. rewrite forallb_forall in S.
  specialize (S t ltac:(apply nseq_In; pose proof (arr_ok_lt t H); cbn; lia)).
  unfold long_check in S. rewrite H in S. apply andb_true_iff in S as [S _].
  destruct (array_info t); [discriminate | discriminate].
Qed.

Lemma tok_long_array t hd cs :
  arr_ok t = true -> enc_array_header t = Some hd -> chunks_wf (element_bits t) cs ->
  tok_ok cfg (hd ++ enc_chunks cs) (EArrayBegin t :: chunk_events cs).
Proof.
  intros Ht Hh Hcs. pose proof long_sweep as S. rewrite forallb_forall in S.
  specialize (S t ltac:(apply nseq_In; pose proof (arr_ok_lt t Ht); cbn; lia)).
  unfold long_check in S. rewrite Ht, Hh in S. apply andb_true_iff in S as [_ S].
  destruct hd as [|c1 [|c2 [|c3 hd]]]; try discriminate.
  - destruct (classify c1) eqn:K; try discriminate. apply N.eqb_eq in S. subst.
    cbn [app]. tok_start br rest Hfit. rewrite K. unfold dec_array.
    destruct (dec_chunks_ok (element_bits t) cs Hcs (chunks_fuel (br + 1, enc_chunks cs ++ rest)) (br + 1) rest)
      as (br' & E1 & E2); [apply chunks_fuel_enough | unfold fits; norm_len; lia|].
    rewrite E1. eexists; split; [reflexivity|]. norm_len. lia.
  - apply andb_true_iff in S as [S1 S2]. apply N.eqb_eq in S1. subst c1.
    destruct (classify7f c2) eqn:K; try discriminate. apply N.eqb_eq in S2. subst.
    cbn [app]. tok_start7f br rest Hfit. rewrite K. unfold dec_array.
    destruct (dec_chunks_ok (element_bits t) cs Hcs (chunks_fuel (br + 1 + 1, enc_chunks cs ++ rest)) (br + 1 + 1) rest)
      as (br' & E1 & E2); [apply chunks_fuel_enough | unfold fits; norm_len; lia|].
    rewrite E1. eexists; split; [reflexivity|]. norm_len. lia.
Qed.

(* ---- media and custom ---- *)

Lemma tok_media mt cs :
  len mt <= media_type_max_length -> chunks_wf 8 cs ->
  tok_ok cfg (enc_media_begin mt ++ enc_chunks cs) (EMediaBegin mt :: chunk_events cs).
Proof.
  intros Hm Hcs. unfold enc_media_begin. rewrite <- !app_assoc. cbn [app].
  tok_start7f br rest Hfit. change (classify7f cbeTypeMedia) with K7Media.
  unfold dec_media. rewrite <- !app_assoc.
  rewrite read_uleb_ok by (try exact Hm; unfold media_type_max_length, two64 in *; lia).
  rewrite (read_bytes_ok cfg _ (len mt)) by (try reflexivity; lia).
  set (u := len (uleb_encode (len mt))) in *.
  destruct (dec_chunks_ok 8 cs Hcs (chunks_fuel (br + 1 + 1 + u + len mt, enc_chunks cs ++ rest)) (br + 1 + 1 + u + len mt) rest)
    as (br' & E1 & E2); [apply chunks_fuel_enough | unfold fits; norm_len; lia|].
  rewrite E1. eexists; split; [reflexivity|]. norm_len. lia.
Qed.

Lemma tok_custom ct cs :
  ct <= custom_type_max -> chunks_wf 8 cs ->
  tok_ok cfg (enc_custom_begin ct ++ enc_chunks cs) (ECustomBegin cbeAT_CustomBinary ct :: chunk_events cs).
Proof.
  intros Hc Hcs. unfold enc_custom_begin. cbn [app].
  tok_start br rest Hfit. change (classify cbeTypeCustomType) with KCustom.
  unfold dec_custom. rewrite <- !app_assoc.
  rewrite read_uleb_ok by (try exact Hc; unfold custom_type_max, two64 in *; lia).
  set (u := len (uleb_encode ct)) in *.
  destruct (dec_chunks_ok 8 cs Hcs (chunks_fuel (br + 1 + u, enc_chunks cs ++ rest)) (br + 1 + u) rest)
    as (br' & E1 & E2); [apply chunks_fuel_enough | unfold fits; norm_len; lia|].
  rewrite E1. eexists; split; [reflexivity|]. norm_len. lia.
Qed.

End Tokens3.

(* ------------------------------------------------------------------ *)
(** * 7. Tokens: finite decimal floats *)

Section Tokens4.
Variable cfg : dcfg.

Definition norm_decimal_fin (neg : bool) (c : N) (e : Z) : event :=
  if two63 <=? c then EBigDecimal (Some (DFin neg c e)) else EDecimal (DFin neg c e).

Lemma cf_field_facts neg e :
  (Z.abs e < 2147483648)%Z ->
  let f := cf_field neg e in
  f <= cf_max_encoded_exponent /\ N.odd f = neg /\ N.odd (f / 2) = (e <? 0)%Z /\ Z.of_N (f / 4) = Z.abs e /\
  f <> 2 /\ f <> 3 /\ (f < 128 \/ 4 <= f).
Proof.
  intro He. cbv zeta. unfold cf_field, cf_max_encoded_exponent.
  set (a := Z.abs_N e). assert (Ha : a < 2147483648) by (unfold a; lia).
  assert (Hz : a = 0 -> (e <? 0)%Z = false) by (intro E; apply Z.ltb_ge; unfold a in E; lia).
  set (x := sign_bit (e <? 0)%Z). set (y := sign_bit neg).
  assert (Hx : x < 2) by (unfold x; destruct (e <? 0)%Z; cbn; lia).
  assert (Hy : y < 2) by (unfold y; destruct neg; cbn; lia).
  replace (a * 4 + 2 * x + y) with (y + 2 * (x + 2 * a)) by lia.
  repeat split.
  - lia.
  - rewrite N.odd_add_mul_2. unfold y. destruct neg; reflexivity.
  - replace ((y + 2 * (x + 2 * a)) / 2) with (x + 2 * a).
    + rewrite N.odd_add_mul_2. unfold x. destruct (e <? 0)%Z; reflexivity.
    + symmetry. rewrite (N.mul_comm 2), N.div_add by discriminate. rewrite N.div_small by exact Hy. lia.
  - replace ((y + 2 * (x + 2 * a)) / 4) with a.
    + unfold a. lia.
    + symmetry. replace (y + 2 * (x + 2 * a)) with ((y + 2 * x) + a * 4) by lia.
      rewrite N.div_add by discriminate. rewrite N.div_small by lia. lia.
  - destruct (N.eq_dec a 0) as [E|E]; [|lia]. specialize (Hz E). unfold x. rewrite Hz. cbn. lia.
  - destruct (N.eq_dec a 0) as [E|E]; [|lia]. specialize (Hz E). unfold x. rewrite Hz. cbn. lia.
  - lia.
Qed.

Lemma tok_decimal_fin neg c e :
  (Z.abs e < 2147483648)%Z ->
  tok_ok cfg (cbeTypeDecimal :: uleb_encode (cf_field neg e) ++ uleb_encode c)
         [if two63 <=? c then EBigDecimal (Some (DFin neg c e)) else EDecimal (DFin (neg && negb (c =? 0)) c e)].
Proof.
  intro He. destruct (cf_field_facts neg e He) as (F1 & F2 & F3 & F4 & F5 & F6 & F7).
  set (f := cf_field neg e) in *.
  assert (Hf64 : f < two64) by (unfold cf_max_encoded_exponent, two64 in *; lia).
  tok_start br rest Hfit. rewrite classify_decimal. unfold dec_decimal. rewrite <- app_assoc.
  rewrite read_uleb_raw_ok by lia. rewrite uleb_not_big by exact Hf64.
  assert (Hspecial : forall k, ((length (uleb_encode f) =? 1)%nat && (f =? k)) = false \/ k < 2 \/ 3 < k).
  { intro k. destruct (N.eqb_spec f k) as [E|E]; [|left; apply andb_false_r]. right. lia. }
  replace ((length (uleb_encode f) =? 1)%nat && (f =? 2)) with false
    by (symmetry; apply andb_false_iff; right; apply N.eqb_neq; exact F5).
  replace ((length (uleb_encode f) =? 1)%nat && (f =? 3)) with false
    by (symmetry; apply andb_false_iff; right; apply N.eqb_neq; exact F6).
  assert (H2 : forall k, k < 4 -> ((length (uleb_encode f) =? 2)%nat && (f =? k)) = false).
  { intros k Hk. destruct F7 as [S|S].
    - rewrite uleb_encode_small by exact S. reflexivity.
    - apply andb_false_iff. right. apply N.eqb_neq. lia. }
  rewrite !H2 by lia.
  replace (cf_max_encoded_exponent <? f) with false by (symmetry; apply N.ltb_ge; exact F1).
  rewrite read_uleb_raw_ok by lia. rewrite F2, F3, F4.
  replace (if (e <? 0)%Z then (- Z.abs e)%Z else Z.abs e) with e
    by (destruct (Z.ltb_spec e 0); lia).
  destruct (N.leb_spec two63 c) as [Hc|Hc].
  - rewrite orb_true_r. unfold tok_one. tok_done.
  - rewrite uleb_not_big by (unfold two63, two64 in *; lia). cbn [orb]. unfold tok_one. tok_done.
Qed.

End Tokens4.

(* ------------------------------------------------------------------ *)
(** * 8. Re-encoding what the decoder reports *)

Definition idle (st : enc_state) : Prop := es_try_small st = false.

(* [es] encode to [B] from any state in which no array header is pending, and leave such a state *)
Definition encodes (es : list event) (B : bytes) : Prop :=
  forall st, idle st -> exists st', cbe_encode_from st es = Some (st', B) /\ idle st'.

Lemma cbe_encode_from_app st es1 es2 :
  cbe_encode_from st (es1 ++ es2) =
  match cbe_encode_from st es1 with
  | Some (st1, b1) =>
      match cbe_encode_from st1 es2 with
      | Some (st2, b2) => Some (st2, b1 ++ b2)
      | None => None
      end
  | None => None
  end.
Proof.
  revert st; induction es1 as [|e r IH]; intro st; cbn [app cbe_encode_from].
  - destruct (cbe_encode_from st es2) as [[st2 b2]|]; reflexivity.
  - destruct (cbe_encode_event st e) as [[st1 b1]|]; [|reflexivity]. rewrite IH.
    destruct (cbe_encode_from st1 r) as [[st2 b2]|]; [|reflexivity].
    destruct (cbe_encode_from st2 es2) as [[st3 b3]|]; [|reflexivity].
    rewrite app_assoc. reflexivity.
Qed.

Lemma encodes_nil : encodes [] [].
Proof. intros st H. exists st. split; [reflexivity | exact H]. Qed.

Lemma encodes_app es1 es2 B1 B2 : encodes es1 B1 -> encodes es2 B2 -> encodes (es1 ++ es2) (B1 ++ B2).
Proof.
  intros H1 H2 st Hst. destruct (H1 st Hst) as (st1 & E1 & I1). destruct (H2 st1 I1) as (st2 & E2 & I2).
  exists st2. rewrite cbe_encode_from_app, E1, E2. split; [reflexivity | exact I2].
Qed.

Lemma encodes_one e B :
  (forall st, idle st -> exists st', cbe_encode_event st e = Some (st', B) /\ idle st') -> encodes [e] B.
Proof.
  intros H st Hst. destruct (H st Hst) as (st' & E & I). exists st'. cbn [cbe_encode_from]. rewrite E.
  rewrite app_nil_r. split; [reflexivity | exact I].
Qed.

(* an event that does not touch the encoder state *)
Lemma encodes_keep e B : (forall st, cbe_encode_event st e = Some (st, B)) -> encodes [e] B.
Proof. intro H. apply encodes_one. intros st Hst. exists st. split; [apply H | exact Hst]. Qed.

Lemma wfb_of_wf b : bytes_wf b -> bytes_wfb b = true.
Proof. apply bytes_wfb_wf. Qed.

(* ---- integers ---- *)

Lemma is_u64_true n : n < two64 -> is_u64 n = true.
Proof. intro H. apply N.ltb_lt. exact H. Qed.

Lemma encodes_norm_signed neg m : encodes [norm_signed neg m] (enc_signed neg m).
Proof.
  apply encodes_keep. intro st. unfold norm_signed, enc_signed, signed_z.
  destruct (N.leb_spec m 100) as [H100|H100]; cbn [andb].
  - assert (H64 : m < two64) by (unfold two64; lia).
    replace (m <? two64) with true by (symmetry; apply N.ltb_lt; exact H64).
    destruct neg; cbn [andb negb].
    + destruct (N.eqb_spec m 0) as [E|E]; cbn [negb].
      * replace (m <? two64) with true by (symmetry; apply N.ltb_lt; exact H64).
        unfold cbe_encode_event. rewrite is_u64_true by exact H64. reflexivity.
      * unfold cbe_encode_event, guard, opt_map, is_i64, enc_int.
        replace ((-9223372036854775808 <=? - Z.of_N m)%Z && (- Z.of_N m <? 9223372036854775808)%Z) with true
          by (symmetry; apply andb_true_iff; split; [apply Z.leb_le | apply Z.ltb_lt]; lia).
        replace (0 <=? - Z.of_N m)%Z with false by (symmetry; apply Z.leb_gt; lia).
        replace (Z.abs_N (- Z.of_N m)) with m by lia. reflexivity.
    + unfold cbe_encode_event, guard, opt_map, is_i64, enc_int.
      replace ((-9223372036854775808 <=? Z.of_N m)%Z && (Z.of_N m <? 9223372036854775808)%Z) with true
        by (symmetry; apply andb_true_iff; split; [apply Z.leb_le | apply Z.ltb_lt]; lia).
      replace (0 <=? Z.of_N m)%Z with true by (symmetry; apply Z.leb_le; lia).
      rewrite N2Z.id. reflexivity.
  - destruct (N.ltb_spec m two64) as [H64|H64].
    + unfold cbe_encode_event. destruct neg; rewrite is_u64_true by exact H64; reflexivity.
    + unfold cbe_encode_event, opt_map, enc_big_int. cbv zeta.
      destruct neg.
      * replace (- Z.of_N m <? 0)%Z with true by (symmetry; apply Z.ltb_lt; unfold two64 in H64; lia).
        replace (Z.abs_N (- Z.of_N m)) with m by lia.
        replace (m <? two64) with false by (symmetry; apply N.ltb_ge; exact H64). reflexivity.
      * replace (Z.of_N m <? 0)%Z with false by (symmetry; apply Z.ltb_ge; lia).
        replace (Z.abs_N (Z.of_N m)) with m by lia.
        replace (m <? two64) with false by (symmetry; apply N.ltb_ge; exact H64). reflexivity.
Qed.

(* ---- floats ---- *)

Lemma encodes_norm_float b : b < 2 ^ 64 -> encodes [norm_float b] (enc_float b).
Proof.
  intro Hb. apply encodes_keep. intro st. unfold norm_float.
  destruct (FloatBits.f64_is_inf b) eqn:Hinf.
  - unfold enc_float. rewrite Hinf. reflexivity.
  - destruct (FloatBits.f64_is_nan b) eqn:Hnan.
    + unfold enc_float. rewrite Hinf, Hnan. destruct (negb (FloatBits.f64_quiet_bit b)); reflexivity.
    + destruct (f64_is_zero b) eqn:Hz.
      * unfold enc_float. rewrite Hinf, Hnan, Hz. destruct (f64_sign b =? 1); reflexivity.
      * unfold cbe_encode_event. rewrite is_u64_true by exact Hb. reflexivity.
Qed.

(* ------------------------------------------------------------------ *)
(** * 9. Arrays through the chunked API, and re-encoding them *)

(* a chunk as the caller delivers it: the data may come in several OnArrayData calls *)
Definition rchunk := (N * bool * list bytes)%type.

Definition merge (c : rchunk) : chunk := let '(n, more, ds) := c in (n, more, concat ds).

Definition raw_chunk_events (cs : list rchunk) : list event :=
  flat_map (fun c : rchunk => let '(n, more, ds) := c in EArrayChunk n more :: map EArrayData ds) cs.

Definition rchunks_data_wf (cs : list rchunk) : Prop :=
  Forall (fun c : rchunk => Forall bytes_wf (snd c)) cs.

(* the decoder's chunks are delivered with at most one data event *)
Definition unmerge (c : chunk) : rchunk :=
  let '(n, more, d) := c in (n, more, if len d =? 0 then [] else [d]).

Lemma merge_unmerge c : merge (unmerge c) = c.
Proof.
  destruct c as [[n more] d]. cbn [unmerge merge].
  destruct (N.eqb_spec (len d) 0) as [E|E]; cbn [concat].
  - apply len_zero in E. subst d. reflexivity.
  - rewrite app_nil_r. reflexivity.
Qed.

Lemma map_merge_unmerge cs : map merge (map unmerge cs) = cs.
Proof. rewrite map_map. rewrite <- (map_id cs) at 2. apply map_ext. apply merge_unmerge. Qed.

Lemma chunk_events_raw cs : chunk_events cs = raw_chunk_events (map unmerge cs).
Proof.
  induction cs as [|[[n more] d] r IH]; [reflexivity|].
  cbn [chunk_events map unmerge raw_chunk_events flat_map]. fold (raw_chunk_events (map unmerge r)).
  rewrite <- IH. destruct (len d =? 0); reflexivity.
Qed.

Lemma unmerge_data_wf cs :
  Forall (fun c : chunk => bytes_wf (snd c)) cs -> rchunks_data_wf (map unmerge cs).
Proof.
  intro H. unfold rchunks_data_wf. rewrite Forall_map. eapply Forall_impl; [|exact H].
  intros [[n more] d] Hd. cbn [unmerge snd] in *. destruct (len d =? 0); repeat constructor. exact Hd.
Qed.

Lemma enc_data_events st ds :
  Forall bytes_wf ds -> cbe_encode_from st (map EArrayData ds) = Some (st, concat ds).
Proof.
  induction 1 as [|d r Hd Hr IH]; [reflexivity|].
  cbn [map cbe_encode_from]. unfold cbe_encode_event, guard, opt_map.
  rewrite wfb_of_wf by exact Hd. rewrite IH. reflexivity.
Qed.

Lemma chunks_wf_counts width cs : chunks_wf width cs -> Forall (fun c : chunk => fst (fst c) < two63) cs.
Proof. induction 1; constructor; cbn; auto. Qed.

(* chunks after the first one: chunk header + data *)
Lemma enc_later_chunks cs :
  rchunks_data_wf cs -> Forall (fun c : rchunk => fst (fst c) < two64) cs ->
  encodes (raw_chunk_events cs) (enc_chunks (map merge cs)).
Proof.
  intros Hd Hn. induction cs as [|[[n more] ds] r IH]; [apply encodes_nil|].
  inversion Hd as [|? ? Hd1 Hd2]; subst. inversion Hn as [|? ? Hn1 Hn2]; subst. cbn [fst snd] in *.
  cbn [raw_chunk_events flat_map map merge enc_chunks]. fold (raw_chunk_events r).
  apply (encodes_app [EArrayChunk n more] (map EArrayData ds ++ raw_chunk_events r)
                     (uleb_encode (chunk_header n more)) (concat ds ++ enc_chunks (map merge r))).
  - apply encodes_one. intros st Hst. eexists. split; [apply chunk_later; [exact Hn1 | exact Hst] | reflexivity].
  - apply encodes_app; [|apply IH; assumption].
    intros st Hst. exists st. split; [apply enc_data_events; exact Hd1 | exact Hst].
Qed.

Lemma two63_lt_two64 n : n < two63 -> n < two64.
Proof. unfold two63, two64. lia. Qed.

Lemma counts_u64 cs : Forall (fun c : chunk => fst (fst c) < two63) (map merge cs) ->
  Forall (fun c : rchunk => fst (fst c) < two64) cs.
Proof.
  rewrite Forall_map. apply Forall_impl. intros [[n more] ds]. cbn. apply two63_lt_two64.
Qed.

Lemma cbe_encode_from_cons st e r :
  cbe_encode_from st (e :: r) =
  match cbe_encode_event st e with
  | None => None
  | Some (st1, b1) =>
      match cbe_encode_from st1 r with
      | None => None
      | Some (st2, b2) => Some (st2, b1 ++ b2)
      end
  end.
Proof. reflexivity. Qed.

Lemma encode_array_begin st t :
  t < 256 -> cbe_encode_event st (EArrayBegin t) = Some ({| es_array_type := t; es_try_small := true |}, []).
Proof. intro H. unfold cbe_encode_event, guard. apply N.ltb_lt in H. rewrite H. reflexivity. Qed.

Definition is_short (t n : N) : bool := (n <=? cbeMaxSmallArrayLength) && has_short_form t.

(* the bytes of a whole array delivered as the chunk list [cs] *)
Definition array_bytes (t : N) (hd : bytes) (cs : list chunk) : bytes :=
  match cs with
  | [(n, false, d)] => if is_short t n then short_header t n ++ d else hd ++ enc_chunks cs
  | _ => hd ++ enc_chunks cs
  end.

(* what the decoder reports for them *)
Definition array_norm (t : N) (cs : list chunk) : list event :=
  match cs with
  | [(n, false, d)] => if is_short t n then [EArray t n d] else EArrayBegin t :: chunk_events cs
  | _ => EArrayBegin t :: chunk_events cs
  end.

Lemma whole_header_cases t n hd :
  arr_ok t = true -> enc_array_header t = Some hd ->
  enc_whole_array_header t n =
  Some (if is_short t n then short_header t n else hd ++ uleb_encode (chunk_header n false)).
Proof.
  intros Ht Hh. unfold is_short.
  destruct (N.leb_spec n cbeMaxSmallArrayLength) as [L|L]; cbn [andb].
  - destruct (has_short_form t) eqn:Hs.
    + apply array_header_short; assumption.
    + rewrite array_header_long by (right; split; [exact Hs | apply arr_ok_info; exact Ht]). rewrite Hh. reflexivity.
  - rewrite array_header_long by (left; exact L). rewrite Hh. reflexivity.
Qed.

Lemma encodes_array_begin t hd cs :
  arr_ok t = true -> enc_array_header t = Some hd ->
  chunks_wf (element_bits t) (map merge cs) -> rchunks_data_wf cs ->
  encodes (EArrayBegin t :: raw_chunk_events cs) (array_bytes t hd (map merge cs)).
Proof.
  intros Ht Hh Hwf Hd. pose proof (arr_ok_lt t Ht) as Hlt.
  pose proof (counts_u64 cs (chunks_wf_counts _ _ Hwf)) as Hn.
  destruct cs as [|[[n more] ds] r]; [inversion Hwf|].
  inversion Hd as [|? ? Hd1 Hd2]; subst. inversion Hn as [|? ? Hn1 Hn2]; subst. cbn [fst snd] in *.
  cbn [map merge] in Hwf |- *.
  intros st Hst.
  cbn [raw_chunk_events flat_map app]. fold (raw_chunk_events r).
  rewrite cbe_encode_from_cons, encode_array_begin by exact Hlt. rewrite cbe_encode_from_cons.
  destruct more.
  - (* not final: regular header *)
    assert (Hr : exists c r', map merge r = c :: r').
    { inversion Hwf; subst. match goal with H : chunks_wf _ (map merge r) |- _ => inversion H; eauto end. }
    destruct Hr as (c & r' & Er).
    replace (array_bytes t hd ((n, true, concat ds) :: map merge r))
      with (hd ++ enc_chunks ((n, true, concat ds) :: map merge r)) by (unfold array_bytes; rewrite Er; reflexivity).
    rewrite chunk_first_not_final by exact Hn1. rewrite Hh. cbn [opt_map].
    rewrite cbe_encode_from_app, enc_data_events by exact Hd1.
    destruct (enc_later_chunks r Hd2 Hn2 {| es_array_type := t; es_try_small := false |} eq_refl) as (st' & E & I).
    rewrite E. exists st'. split; [|exact I]. f_equal. f_equal.
    cbn [enc_chunks app]. rewrite <- !app_assoc. reflexivity.
  - (* final: it is the only chunk *)
    assert (Er : r = []).
    { inversion Hwf; subst. destruct r; [reflexivity | discriminate]. }
    subst r. cbn [map array_bytes].
    rewrite chunk_first_final by exact Hn1. rewrite (whole_header_cases t n hd Ht Hh). cbn [opt_map].
    cbn [raw_chunk_events flat_map]. rewrite app_nil_r. rewrite enc_data_events by exact Hd1.
    eexists. split.
    { f_equal. apply f_equal2; [reflexivity|].
      destruct (is_short t n); cbn [enc_chunks app]; rewrite <- ?app_assoc, ?app_nil_r; reflexivity. }
    reflexivity.
Qed.

Section Units.
Variable cfg : dcfg.

Lemma tok_array t hd cs :
  arr_ok t = true -> enc_array_header t = Some hd -> chunks_wf (element_bits t) cs ->
  tok_ok cfg (array_bytes t hd cs) (array_norm t cs).
Proof.
  intros Ht Hh Hwf.
  assert (G : tok_ok cfg (hd ++ enc_chunks cs) (EArrayBegin t :: chunk_events cs))
    by (apply tok_long_array; assumption).
  destruct cs as [|[[n more] d] r]; [exact G|]. destruct more; [exact G|]. destruct r; [|exact G].
  cbn [array_bytes array_norm]. destruct (is_short t n) eqn:Hs; [|exact G].
  unfold is_short in Hs. apply andb_true_iff in Hs as [H1 H2]. apply N.leb_le in H1.
  inversion Hwf; subst.
  apply tok_short_array; [apply arr_ok_lt; exact Ht | exact H1 | exact H2 | assumption].
Qed.

Lemma encodes_array_norm t hd cs :
  arr_ok t = true -> enc_array_header t = Some hd -> chunks_wf (element_bits t) cs ->
  Forall (fun c : chunk => bytes_wf (snd c)) cs ->
  encodes (array_norm t cs) (array_bytes t hd cs).
Proof.
  intros Ht Hh Hwf Hd.
  assert (G : encodes (EArrayBegin t :: chunk_events cs) (array_bytes t hd cs)).
  { rewrite chunk_events_raw. rewrite <- (map_merge_unmerge cs) at 2.
    apply encodes_array_begin; [exact Ht | exact Hh | rewrite map_merge_unmerge; exact Hwf | apply unmerge_data_wf; exact Hd]. }
  destruct cs as [|[[n more] d] r]; [exact G|]. destruct more; [exact G|]. destruct r; [|exact G].
  cbn [array_norm] in *. destruct (is_short t n) eqn:Hs; [|exact G].
  cbn [array_bytes]. rewrite Hs. inversion Hwf; subst. inversion Hd; subst. cbn [snd] in *.
  apply encodes_keep. intro st. unfold cbe_encode_event, guard, opt_map.
  replace (t <? 256) with true by (symmetry; apply N.ltb_lt; apply arr_ok_lt; exact Ht).
  rewrite is_u64_true by (apply two63_lt_two64; assumption). rewrite wfb_of_wf by assumption. cbn [andb].
  rewrite (whole_header_cases t n hd Ht Hh), Hs. reflexivity.
Qed.

End Units.

(* ------------------------------------------------------------------ *)
(** * 10. Media and custom arrays through the chunked API *)

Lemma encodes_media_begin mt cs :
  bytes_wf mt -> chunks_wf 8 (map merge cs) -> rchunks_data_wf cs ->
  encodes (EMediaBegin mt :: raw_chunk_events cs) (enc_media_begin mt ++ enc_chunks (map merge cs)).
Proof.
  intros Hm Hwf Hd.
  apply (encodes_app [EMediaBegin mt] (raw_chunk_events cs)).
  - apply encodes_one. intros st _. eexists. split.
    + unfold cbe_encode_event, guard. rewrite wfb_of_wf by exact Hm. reflexivity.
    + reflexivity.
  - apply enc_later_chunks; [exact Hd | apply counts_u64; eapply chunks_wf_counts; exact Hwf].
Qed.

Lemma encodes_custom_begin t ct cs :
  t < 256 -> t <> cbeAT_CustomText -> ct < two64 -> chunks_wf 8 (map merge cs) -> rchunks_data_wf cs ->
  encodes (ECustomBegin t ct :: raw_chunk_events cs) (enc_custom_begin ct ++ enc_chunks (map merge cs)).
Proof.
  intros Ht Hnt Hc Hwf Hd.
  apply (encodes_app [ECustomBegin t ct] (raw_chunk_events cs)).
  - apply encodes_one. intros st _. eexists. split.
    + unfold cbe_encode_event, guard. apply N.ltb_lt in Ht. apply N.eqb_neq in Hnt.
      rewrite Ht, Hnt, is_u64_true by exact Hc. reflexivity.
    + reflexivity.
  - apply enc_later_chunks; [exact Hd | apply counts_u64; eapply chunks_wf_counts; exact Hwf].
Qed.

(* ------------------------------------------------------------------ *)
(** * 11. Single events: what the decoder reports for them, and that it re-encodes to the same bytes *)

Definition norm_decimal (d : dfloat) : event :=
  match d with
  | DFin neg c e => if c =? 0 then (if neg then ENegInt 0 else EInt 0) else norm_decimal_fin neg c e
  | _ => EDecimal d
  end.

Definition whole_chunks (n : N) (d : bytes) : list chunk := [(n, false, d)].

Definition norm_event (e : event) : list event :=
  match e with
  | EComment _ _ => []
  | EBool b => [if b then ETrue else EFalse]
  | EPosInt n => [norm_signed false n]
  | ENegInt n => [norm_signed true n]
  | EInt z => [norm_signed (z <? 0)%Z (Z.abs_N z)]
  | EBigInt None | EBigFloat None | EBigDecimal None => [ENull]
  | EBigInt (Some z) => [norm_signed (z <? 0)%Z (Z.abs_N z)]
  | EFloat b => [norm_float b]
  | EBigFloat (Some (BInf neg)) => [EDecimal (DInf neg)]
  | EBigFloat (Some (BFin neg mant exp _)) =>
      match bigfloat_to_f64 neg mant exp with Some b => [norm_float b] | None => [e] end
  | ENan s => [EDecimal (if s then DSNan else DQNan)]
  | EDecimal d | EBigDecimal (Some d) => [norm_decimal d]
  | EArray t n d => array_norm t (whole_chunks n d)
  | EStringArray t d => array_norm t (whole_chunks (len d) d)
  | EMedia mt d => EMediaBegin mt :: chunk_events (whole_chunks (len d) d)
  | ECustomBin ct d => ECustomBegin cbeAT_CustomBinary ct :: chunk_events (whole_chunks (len d) d)
  | _ => [e]
  end.

Definition two61 : N := 2305843009213693952.

(* the single events covered (with the payload constraints the wire format imposes) *)
Definition simple_ok (e : event) : Prop :=
  match e with
  | ENull | ETrue | EFalse | EBool _ | EList | EMap | EEdge | ENode | EEnd | EPadding | EComment _ _ => True
  | EPosInt n | ENegInt n => n < two64
  | EInt z => is_i64 z = true
  | EBigInt None => True
  | EBigInt (Some z) => Z.abs_N z < 256 ^ N.of_nat 1024
  | EFloat b => b < 2 ^ 64
  | EBigFloat None => True
  | EBigFloat (Some (BInf _)) => True
  | EBigFloat (Some (BFin neg mant exp _)) =>
      match bigfloat_to_f64 neg mant exp with Some b => b < 2 ^ 64 | None => False end
  | ENan _ => True
  | EDecimal d => dfloat_small_ok d = true
  | EBigDecimal None => True
  | EBigDecimal (Some (DFin neg c e)) => is_i32 e = true /\ (c <> 0 -> (Z.abs e < 2147483648)%Z)
  | EBigDecimal (Some _) => True
  | EUid b => bytes_wf b /\ len b = 16
  | ERecordType id | ERecord id | EMarker id | ERefLocal id => bytes_wf id /\ id_ok id
  | EArray t n d => arr_ok t = true /\ n < two63 /\ bytes_wf d /\ len d = elem_bytes (element_bits t) n
  | EStringArray t d => arr_ok t = true /\ element_bits t = 8 /\ bytes_wf d /\ len d < two61
  | EMedia mt d => bytes_wf mt /\ len mt <= media_type_max_length /\ bytes_wf d /\ len d < two61
  | ECustomBin ct d => ct <= custom_type_max /\ bytes_wf d /\ len d < two61
  | _ => False
  end.

(* a group of events that makes up one token (or nothing at all, for comments) *)
Definition unit_ok (cfg : dcfg) (es : list event) (B : bytes) (norm : list event) : Prop :=
  encodes es B /\ encodes norm B /\ ((B = [] /\ norm = []) \/ (B <> [] /\ tok_ok cfg B norm)).

Lemma elem_bytes_8 n : n < two61 -> elem_bytes 8 n = n.
Proof.
  intro H. unfold elem_bytes, u64, two61, two64 in *. cbn [andb N.eqb].
  replace (8 =? 1) with false by reflexivity. cbn [andb].
  rewrite N.mod_small by lia. rewrite N.div_mul by discriminate. reflexivity.
Qed.

Lemma whole_chunks_wf width n d :
  n < two63 -> len d = elem_bytes width n -> chunks_wf width (whole_chunks n d).
Proof. intros. apply cw_last; assumption. Qed.

Lemma two61_lt_two63 n : n < two61 -> n < two63.
Proof. unfold two61, two63. lia. Qed.

Lemma two64_le_pow1024 : two64 <= 256 ^ N.of_nat 1024.
Proof. change two64 with (256 ^ N.of_nat 8). apply pow256_mono. lia. Qed.

Lemma cf_field_big_eq neg e : (Z.abs e < 2147483648)%Z -> cf_field_big neg e = cf_field neg e.
Proof.
  intro H. unfold cf_field_big, cf_field, u64, two64.
  replace (e =? -2147483648)%Z with false by (symmetry; apply Z.eqb_neq; lia).
  rewrite N.mod_small by lia. reflexivity.
Qed.

Lemma is_i32_abs e : (Z.abs e < 2147483648)%Z -> is_i32 e = true.
Proof. intro H. unfold is_i32. apply andb_true_iff. split; [apply Z.leb_le | apply Z.ltb_lt]; lia. Qed.

Lemma array_bytes_nonempty t hd cs :
  arr_ok t = true -> enc_array_header t = Some hd -> array_bytes t hd cs <> [].
Proof.
  intros Ht Hh.
  assert (Hhd : hd <> []).
  { pose proof long_sweep as S. rewrite forallb_forall in S.
    specialize (S t ltac:(apply nseq_In; pose proof (arr_ok_lt t Ht); cbn; lia)).
    unfold long_check in S. rewrite Ht, Hh in S. apply andb_true_iff in S as [_ S].
    destruct hd; [discriminate S | discriminate]. }
  assert (Hsh : forall n d, short_header t n ++ d <> []).
  { intros n d. unfold short_header. pose proof (arr_ok_info t Ht) as Hi.
    destruct (array_info t) as [[[short has] p7]|]; [destruct p7; discriminate | contradiction]. }
  assert (G : hd ++ enc_chunks cs <> []) by (destruct hd; [contradiction | discriminate]).
  destruct cs as [|[[n more] d] r]; [exact G|]. destruct more; [exact G|]. destruct r; [|exact G].
  cbn [array_bytes]. destruct (is_short t n); [apply Hsh | exact G].
Qed.

Section Units2.
Variable cfg : dcfg.

Ltac unit_intro B := exists B; unfold unit_ok.

Lemma unit_byte e c : byte_token e = Some c -> (forall st, cbe_encode_event st e = Some (st, [c])) ->
  unit_ok cfg [e] [c] [e].
Proof.
  intros H E. split; [apply encodes_keep; exact E|]. split; [apply encodes_keep; exact E|].
  right. split; [discriminate | apply tok_byte; exact H].
Qed.

Lemma unit_signed e neg m :
  m < 256 ^ N.of_nat 1024 -> (forall st, cbe_encode_event st e = Some (st, enc_signed neg m)) ->
  unit_ok cfg [e] (enc_signed neg m) [norm_signed neg m].
Proof.
  intros Hm E. split; [apply encodes_keep; exact E|]. split; [apply encodes_norm_signed|].
  right. split; [|apply tok_signed; exact Hm].
  intro C. pose proof (length_enc_signed neg m) as L. rewrite C in L. cbn [length] in L.
  destruct (chosen_form neg m); cbn [form_length] in L; lia.
Qed.

Lemma dfloat_small_ok_fin neg c e :
  dfloat_small_ok (DFin neg c e) = true -> c <> 0 ->
  (Z.abs e < 2147483648)%Z /\ (c < two63 \/ (neg = true /\ c = two63)).
Proof.
  unfold dfloat_small_ok. intros H Hc. replace (c =? 0) with false in H by (symmetry; apply N.eqb_neq; exact Hc).
  apply andb_true_iff in H as [H H3]. apply andb_true_iff in H as [H1 H2].
  unfold is_i32 in H1. apply andb_true_iff in H1 as [H1a H1b]. apply Z.leb_le in H1a. apply Z.ltb_lt in H1b.
  apply negb_true_iff, Z.eqb_neq in H2. split; [lia|].
  apply orb_true_iff in H3 as [H3|H3]; [left; apply N.ltb_lt; exact H3|].
  apply andb_true_iff in H3 as [-> H3]. right. split; [reflexivity | apply N.eqb_eq; exact H3].
Qed.

Lemma encodes_norm_decimal_fin neg c e :
  c <> 0 -> (Z.abs e < 2147483648)%Z -> (c < two63 \/ two63 <= c) ->
  encodes [norm_decimal_fin neg c e] (cbeTypeDecimal :: uleb_encode (cf_field neg e) ++ uleb_encode c).
Proof.
  intros Hc He _. apply encodes_keep. intro st. unfold norm_decimal_fin.
  destruct (N.leb_spec two63 c) as [L|L].
  - unfold cbe_encode_event, opt_map, enc_big_decimal. rewrite is_i32_abs by exact He. cbn [negb].
    replace (c =? 0) with false by (symmetry; apply N.eqb_neq; exact Hc).
    rewrite cf_field_big_eq by exact He. reflexivity.
  - unfold cbe_encode_event, opt_map, enc_decimal.
    assert (Hok : dfloat_small_ok (DFin neg c e) = true).
    { unfold dfloat_small_ok. replace (c =? 0) with false by (symmetry; apply N.eqb_neq; exact Hc).
      rewrite is_i32_abs by exact He.
      replace (e =? -2147483648)%Z with false by (symmetry; apply Z.eqb_neq; lia).
      replace (c <? two63) with true by (symmetry; apply N.ltb_lt; exact L). reflexivity. }
    rewrite Hok. cbn [negb]. replace (c =? 0) with false by (symmetry; apply N.eqb_neq; exact Hc). reflexivity.
Qed.

Lemma tok_norm_decimal_fin neg c e :
  c <> 0 -> (Z.abs e < 2147483648)%Z ->
  tok_ok cfg (cbeTypeDecimal :: uleb_encode (cf_field neg e) ++ uleb_encode c) [norm_decimal_fin neg c e].
Proof.
  intros Hc He. pose proof (tok_decimal_fin cfg neg c e He) as T. unfold norm_decimal_fin.
  replace (c =? 0) with false in T by (symmetry; apply N.eqb_neq; exact Hc).
  cbn [negb] in T. rewrite andb_true_r in T. exact T.
Qed.

Lemma unit_special (e : event) (B : bytes) (n : event) :
  (forall st, cbe_encode_event st e = Some (st, B)) -> (forall st, cbe_encode_event st n = Some (st, B)) ->
  B <> [] -> tok_ok cfg B [n] -> unit_ok cfg [e] B [n].
Proof.
  intros E1 E2 NE T. split; [apply encodes_keep; exact E1|]. split; [apply encodes_keep; exact E2|].
  right. split; assumption.
Qed.

Lemma unit_identifier e (pre : bytes) id :
  bytes_wf id -> pre <> [] ->
  (forall st, cbe_encode_event st e = Some (st, pre ++ enc_identifier id)) ->
  tok_ok cfg (pre ++ enc_identifier id) [e] ->
  unit_ok cfg [e] (pre ++ enc_identifier id) [e].
Proof.
  intros Hw Hp E T. apply unit_special; try assumption.
  destruct pre; [contradiction | discriminate].
Qed.

Theorem simple_unit e : simple_ok e -> exists B, unit_ok cfg [e] B (norm_event e).
Proof.
  destruct e; cbn [simple_ok norm_event]; intro H; try contradiction.
  - (* EPadding *) exists [cbeTypePadding]. apply unit_byte; reflexivity.
  - (* EComment *) exists []. split; [apply encodes_keep; reflexivity|]. split; [apply encodes_nil|]. left. split; reflexivity.
  - (* ENull *) exists [cbeTypeNull]. apply unit_byte; reflexivity.
  - (* EBool *) destruct b.
    + exists [cbeTypeTrue]. apply unit_special; [reflexivity | reflexivity | discriminate | apply tok_byte; reflexivity].
    + exists [cbeTypeFalse]. apply unit_special; [reflexivity | reflexivity | discriminate | apply tok_byte; reflexivity].
  - exists [cbeTypeTrue]. apply unit_byte; reflexivity.
  - exists [cbeTypeFalse]. apply unit_byte; reflexivity.
  - (* EPosInt *) exists (enc_signed false n). apply unit_signed.
    + pose proof two64_le_pow1024. lia.
    + intro st. unfold cbe_encode_event. rewrite is_u64_true by exact H. rewrite enc_pos_int_signed by exact H. reflexivity.
  - (* ENegInt *) exists (enc_signed true n). apply unit_signed.
    + pose proof two64_le_pow1024. lia.
    + intro st. unfold cbe_encode_event. rewrite is_u64_true by exact H. rewrite enc_neg_int_signed by exact H. reflexivity.
  - (* EInt *) exists (enc_signed (z <? 0)%Z (Z.abs_N z)). apply unit_signed.
    + pose proof two64_le_pow1024. unfold is_i64 in H. apply andb_true_iff in H as [H1 H2].
      apply Z.leb_le in H1. apply Z.ltb_lt in H2. unfold two64 in *. lia.
    + intro st. unfold cbe_encode_event. rewrite H. rewrite enc_int_signed by exact H. reflexivity.
  - (* EBigInt *) destruct v as [z|].
    + exists (enc_signed (z <? 0)%Z (Z.abs_N z)). apply unit_signed; [exact H|].
      intro st. unfold cbe_encode_event. rewrite enc_big_int_signed. reflexivity.
    + exists [cbeTypeNull]. apply unit_special; [reflexivity | reflexivity | discriminate | apply tok_byte; reflexivity].
  - (* EFloat *) exists (enc_float bits). split.
    + apply encodes_keep. intro st. unfold cbe_encode_event. rewrite is_u64_true by exact H. reflexivity.
    + split; [apply encodes_norm_float; exact H|]. right. split; [|apply tok_float; exact H].
      unfold enc_float. destruct (FloatBits.f64_is_inf bits); [discriminate|].
      destruct (FloatBits.f64_is_nan bits); [discriminate|].
      destruct (f64_is_zero bits); [destruct (f64_sign bits =? 1); discriminate|].
      destruct (float_encode bits) as [[| |] x]; discriminate.
  - (* EBigFloat *) destruct v as [f|].
    + destruct f as [neg mant exp prec|neg].
      * destruct (bigfloat_to_f64 neg mant exp) as [b|] eqn:Hb; [|contradiction].
        exists (enc_float b). split.
        -- apply encodes_keep. intro st. unfold cbe_encode_event, opt_map, enc_big_float. rewrite Hb. reflexivity.
        -- split; [apply encodes_norm_float; exact H|]. right. split; [|apply tok_float; exact H].
           unfold enc_float. destruct (FloatBits.f64_is_inf b); [discriminate|].
           destruct (FloatBits.f64_is_nan b); [discriminate|].
           destruct (f64_is_zero b); [destruct (f64_sign b =? 1); discriminate|].
           destruct (float_encode b) as [[| |] x]; discriminate.
      * exists (enc_infinity neg). apply unit_special; [reflexivity | reflexivity | discriminate | apply tok_infinity].
    + exists [cbeTypeNull]. apply unit_special; [reflexivity | reflexivity | discriminate | apply tok_byte; reflexivity].
  - (* EDecimal *) destruct d as [neg c e|neg| |]; cbn [norm_decimal].
    + destruct (N.eqb_spec c 0) as [E0|E0].
      * subst c. exists (enc_zero neg). apply unit_special.
        -- intro st. unfold cbe_encode_event, opt_map, enc_decimal. rewrite H. reflexivity.
        -- intro st. destruct neg; reflexivity.
        -- destruct neg; discriminate.
        -- apply tok_zero.
      * destruct (dfloat_small_ok_fin neg c e H E0) as (He & Hc).
        exists (cbeTypeDecimal :: uleb_encode (cf_field neg e) ++ uleb_encode c). split.
        -- apply encodes_keep. intro st. unfold cbe_encode_event, opt_map, enc_decimal. rewrite H. cbn [negb].
           replace (c =? 0) with false by (symmetry; apply N.eqb_neq; exact E0). reflexivity.
        -- split; [apply encodes_norm_decimal_fin; [exact E0 | exact He | lia]|].
           right. split; [discriminate | apply tok_norm_decimal_fin; assumption].
    + exists (enc_infinity neg). apply unit_special; [reflexivity | reflexivity | discriminate | apply tok_infinity].
    + exists (enc_nan false). apply unit_special; [reflexivity | reflexivity | discriminate | apply (tok_nan cfg false)].
    + exists (enc_nan true). apply unit_special; [reflexivity | reflexivity | discriminate | apply (tok_nan cfg true)].
  - (* EBigDecimal *) destruct v as [d|].
    + destruct d as [neg c e|neg| |]; cbn [norm_decimal].
      * destruct H as [Hi He]. destruct (N.eqb_spec c 0) as [Hc|Hc].
        { subst c. exists (enc_zero neg). apply unit_special.
          - intro st. unfold cbe_encode_event, opt_map, enc_big_decimal. rewrite Hi. reflexivity.
          - intro st. destruct neg; reflexivity.
          - destruct neg; discriminate.
          - apply tok_zero. }
        specialize (He Hc).
        exists (cbeTypeDecimal :: uleb_encode (cf_field neg e) ++ uleb_encode c). split.
        -- apply encodes_keep. intro st. unfold cbe_encode_event, opt_map, enc_big_decimal.
           rewrite is_i32_abs by exact He. cbn [negb].
           replace (c =? 0) with false by (symmetry; apply N.eqb_neq; exact Hc).
           rewrite cf_field_big_eq by exact He. reflexivity.
        -- split; [apply encodes_norm_decimal_fin; [exact Hc | exact He | lia]|].
           right. split; [discriminate | apply tok_norm_decimal_fin; assumption].
      * exists (enc_infinity neg). apply unit_special; [reflexivity | reflexivity | discriminate | apply tok_infinity].
      * exists (enc_nan false). apply unit_special; [reflexivity | reflexivity | discriminate | apply (tok_nan cfg false)].
      * exists (enc_nan true). apply unit_special; [reflexivity | reflexivity | discriminate | apply (tok_nan cfg true)].
    + exists [cbeTypeNull]. apply unit_special; [reflexivity | reflexivity | discriminate | apply tok_byte; reflexivity].
  - (* ENan *) exists (enc_nan signaling). apply unit_special.
    + reflexivity.
    + intro st. destruct signaling; reflexivity.
    + discriminate.
    + apply tok_nan.
  - (* EUid *) destruct H as [Hw Hl]. exists (cbeTypeUID :: b). apply unit_special.
    + intro st. unfold cbe_encode_event, guard, opt_map. rewrite wfb_of_wf by exact Hw. reflexivity.
    + intro st. unfold cbe_encode_event, guard, opt_map. rewrite wfb_of_wf by exact Hw. reflexivity.
    + discriminate.
    + apply tok_uid. exact Hl.
  - exists [cbeTypeList]. apply unit_byte; reflexivity.
  - exists [cbeTypeMap]. apply unit_byte; reflexivity.
  - (* ERecordType *) destruct H as [Hw Hi]. exists ([cbeTypePlane7f; cbeTypeRecordType] ++ enc_identifier id).
    apply unit_identifier; [exact Hw | discriminate | | apply tok_record_type; exact Hi].
    intro st. unfold cbe_encode_event, guard, opt_map. rewrite wfb_of_wf by exact Hw. reflexivity.
  - (* ERecord *) destruct H as [Hw Hi]. exists ([cbeTypeRecord] ++ enc_identifier id).
    apply unit_identifier; [exact Hw | discriminate | | apply tok_record; exact Hi].
    intro st. unfold cbe_encode_event, guard, opt_map. rewrite wfb_of_wf by exact Hw. reflexivity.
  - exists [cbeTypeEdge]. apply unit_byte; reflexivity.
  - exists [cbeTypeNode]. apply unit_byte; reflexivity.
  - exists [cbeTypeEndContainer]. apply unit_byte; reflexivity.
  - (* EMarker *) destruct H as [Hw Hi]. exists ([cbeTypePlane7f; cbeTypeMarker] ++ enc_identifier id).
    apply unit_identifier; [exact Hw | discriminate | | apply tok_marker; exact Hi].
    intro st. unfold cbe_encode_event, guard, opt_map. rewrite wfb_of_wf by exact Hw. reflexivity.
  - (* ERefLocal *) destruct H as [Hw Hi]. exists ([cbeTypeLocalReference] ++ enc_identifier id).
    apply unit_identifier; [exact Hw | discriminate | | apply tok_ref_local; exact Hi].
    intro st. unfold cbe_encode_event, guard, opt_map. rewrite wfb_of_wf by exact Hw. reflexivity.
  - (* EArray *) destruct H as (Ht & Hn & Hw & Hl). destruct (arr_ok_header t Ht) as [hd Hh].
    pose proof (whole_chunks_wf (element_bits t) count data Hn Hl) as Hwf.
    exists (array_bytes t hd (whole_chunks count data)). split; [|split].
    + apply encodes_keep. intro st. unfold cbe_encode_event, guard, opt_map.
      replace (t <? 256) with true by (symmetry; apply N.ltb_lt; apply arr_ok_lt; exact Ht).
      rewrite is_u64_true by (apply two63_lt_two64; exact Hn). rewrite wfb_of_wf by exact Hw. cbn [andb].
      rewrite (whole_header_cases t count hd Ht Hh). unfold whole_chunks, array_bytes.
      destruct (is_short t count); cbn [enc_chunks]; rewrite <- ?app_assoc, ?app_nil_r; reflexivity.
    + apply encodes_array_norm; [exact Ht | exact Hh | exact Hwf | repeat constructor; exact Hw].
    + right. split; [apply array_bytes_nonempty; assumption | apply tok_array; assumption].
  - (* EStringArray *) destruct H as (Ht & He & Hw & Hl). destruct (arr_ok_header t Ht) as [hd Hh].
    assert (Hl' : len data = elem_bytes (element_bits t) (len data)) by (rewrite He, elem_bytes_8 by exact Hl; reflexivity).
    pose proof (whole_chunks_wf (element_bits t) (len data) data (two61_lt_two63 _ Hl) Hl') as Hwf.
    exists (array_bytes t hd (whole_chunks (len data) data)). split; [|split].
    + apply encodes_keep. intro st. unfold cbe_encode_event, guard, opt_map.
      replace (t <? 256) with true by (symmetry; apply N.ltb_lt; apply arr_ok_lt; exact Ht).
      rewrite wfb_of_wf by exact Hw. cbn [andb].
      rewrite (whole_header_cases t (len data) hd Ht Hh). unfold whole_chunks, array_bytes.
      destruct (is_short t (len data)); cbn [enc_chunks]; rewrite <- ?app_assoc, ?app_nil_r; reflexivity.
    + apply encodes_array_norm; [exact Ht | exact Hh | exact Hwf | repeat constructor; exact Hw].
    + right. split; [apply array_bytes_nonempty; assumption | apply tok_array; assumption].
  - (* EMedia *) destruct H as (Hwm & Hlm & Hw & Hl).
    assert (Hwf : chunks_wf 8 (whole_chunks (len data) data))
      by (apply whole_chunks_wf; [apply two61_lt_two63; exact Hl | rewrite elem_bytes_8 by exact Hl; reflexivity]).
    exists (enc_media_begin mediatype ++ enc_chunks (whole_chunks (len data) data)). split; [|split].
    + apply encodes_one. intros st _. eexists. split.
      * unfold cbe_encode_event, guard. rewrite !wfb_of_wf by assumption. cbn [andb enc_chunks whole_chunks].
        rewrite app_nil_r. reflexivity.
      * reflexivity.
    + rewrite chunk_events_raw. rewrite <- (map_merge_unmerge (whole_chunks (len data) data)) at 2.
      apply encodes_media_begin; [exact Hwm | rewrite map_merge_unmerge; exact Hwf|].
      apply unmerge_data_wf. repeat constructor. exact Hw.
    + right. split; [unfold enc_media_begin; discriminate|]. apply tok_media; assumption.
  - (* ECustomBin *) destruct H as (Hc & Hw & Hl).
    assert (Hwf : chunks_wf 8 (whole_chunks (len data) data))
      by (apply whole_chunks_wf; [apply two61_lt_two63; exact Hl | rewrite elem_bytes_8 by exact Hl; reflexivity]).
    assert (Hc64 : ct < two64) by (unfold custom_type_max, two64 in *; lia).
    exists (enc_custom_begin ct ++ enc_chunks (whole_chunks (len data) data)). split; [|split].
    + apply encodes_keep. intro st. unfold cbe_encode_event, guard, opt_map.
      rewrite is_u64_true by exact Hc64. rewrite wfb_of_wf by exact Hw. cbn [andb enc_chunks whole_chunks].
      rewrite app_nil_r. reflexivity.
    + rewrite chunk_events_raw. rewrite <- (map_merge_unmerge (whole_chunks (len data) data)) at 2.
      apply encodes_custom_begin; [reflexivity | discriminate | exact Hc64 | rewrite map_merge_unmerge; exact Hwf|].
      apply unmerge_data_wf. repeat constructor. exact Hw.
    + right. split; [unfold enc_custom_begin; discriminate|]. apply tok_custom; assumption.
Qed.

End Units2.

(* ------------------------------------------------------------------ *)
(** * 12. Streams, and the idempotence theorem *)

(* One unit of a stream: a single covered event, or an array delivered through
   the chunked API (begin, then per chunk: the chunk event and its data events). *)
Inductive wf_unit : list event -> Prop :=
| wu_simple e : simple_ok e -> wf_unit [e]
| wu_array t cs :
    arr_ok t = true -> chunks_wf (element_bits t) (map merge cs) -> rchunks_data_wf cs ->
    wf_unit (EArrayBegin t :: raw_chunk_events cs)
| wu_media mt cs :
    bytes_wf mt -> len mt <= media_type_max_length -> chunks_wf 8 (map merge cs) -> rchunks_data_wf cs ->
    wf_unit (EMediaBegin mt :: raw_chunk_events cs)
| wu_custom t ct cs :
    t < 256 -> t <> cbeAT_CustomText -> ct <= custom_type_max -> chunks_wf 8 (map merge cs) -> rchunks_data_wf cs ->
    wf_unit (ECustomBegin t ct :: raw_chunk_events cs).

Inductive wf_body : list event -> Prop :=
| wb_nil : wf_body []
| wb_app u r : wf_unit u -> wf_body r -> wf_body (u ++ r).

Lemma merged_data_wf cs : rchunks_data_wf cs -> Forall (fun c : chunk => bytes_wf (snd c)) (map merge cs).
Proof.
  unfold rchunks_data_wf. intro H. rewrite Forall_map. eapply Forall_impl; [|exact H].
  intros [[n more] ds] Hd. cbn [merge snd] in *.
  induction Hd as [|d r Hd Hr IH]; cbn [concat]; [constructor|]. apply bytes_wf_app. split; assumption.
Qed.

Section Streams.
Variable cfg : dcfg.

Theorem unit_roundtrip es : wf_unit es -> exists B norm, unit_ok cfg es B norm.
Proof.
  intro H. destruct H as [e He | t cs Ht Hwf Hd | mt cs Hm Hl Hwf Hd | t ct cs Ht Hnt Hc Hwf Hd].
  - destruct (simple_unit cfg e He) as [B U]. eauto.
  - destruct (arr_ok_header t Ht) as [hd Hh].
    exists (array_bytes t hd (map merge cs)), (array_norm t (map merge cs)). split; [|split].
    + apply encodes_array_begin; assumption.
    + apply encodes_array_norm; [exact Ht | exact Hh | exact Hwf | apply merged_data_wf; exact Hd].
    + right. split; [apply array_bytes_nonempty; assumption | apply tok_array; assumption].
  - exists (enc_media_begin mt ++ enc_chunks (map merge cs)), (EMediaBegin mt :: chunk_events (map merge cs)).
    split; [|split].
    + apply encodes_media_begin; assumption.
    + rewrite chunk_events_raw. rewrite <- (map_merge_unmerge (map merge cs)) at 2.
      apply encodes_media_begin; [exact Hm | rewrite map_merge_unmerge; exact Hwf|].
      apply unmerge_data_wf. apply merged_data_wf. exact Hd.
    + right. split; [unfold enc_media_begin; discriminate | apply tok_media; assumption].
  - assert (Hc64 : ct < two64) by (unfold custom_type_max, two64 in *; lia).
    exists (enc_custom_begin ct ++ enc_chunks (map merge cs)), (ECustomBegin cbeAT_CustomBinary ct :: chunk_events (map merge cs)).
    split; [|split].
    + apply encodes_custom_begin; assumption.
    + rewrite chunk_events_raw. rewrite <- (map_merge_unmerge (map merge cs)) at 2.
      apply encodes_custom_begin; [reflexivity | discriminate | exact Hc64 | rewrite map_merge_unmerge; exact Hwf|].
      apply unmerge_data_wf. apply merged_data_wf. exact Hd.
    + right. split; [unfold enc_custom_begin; discriminate | apply tok_custom; assumption].
Qed.

Lemma dec_loop_nil fuel br : dec_loop cfg fuel (br, []) = ([EEndDoc], DOk).
Proof. destruct fuel; reflexivity. Qed.

Lemma dec_loop_token fuel br tok rest evs :
  tok <> [] -> tok_ok cfg tok evs -> fits cfg br (tok ++ rest) ->
  exists br', br' <= br + len tok /\
    dec_loop cfg (S fuel) (br, tok ++ rest) =
    (let '(evs', r) := dec_loop cfg fuel (br', rest) in (evs ++ evs', r)).
Proof.
  intros NE T Hfit. destruct (T br rest Hfit) as (br' & E & L). exists br'. split; [exact L|].
  destruct tok as [|x tok]; [contradiction|]. cbn [app dec_loop snd] in *. rewrite E. reflexivity.
Qed.

Theorem body_roundtrip es :
  wf_body es ->
  exists B norm, encodes es B /\ encodes norm B /\
    forall fuel br, (length B <= fuel)%nat -> fits cfg br B ->
      dec_loop cfg fuel (br, B) = (norm ++ [EEndDoc], DOk).
Proof.
  induction 1 as [|u r Hu Hr IH].
  - exists [], []. split; [apply encodes_nil|]. split; [apply encodes_nil|]. intros. apply dec_loop_nil.
  - destruct (unit_roundtrip u Hu) as (B1 & n1 & E1 & N1 & T1). destruct IH as (B2 & n2 & E2 & N2 & D2).
    exists (B1 ++ B2), (n1 ++ n2). split; [apply encodes_app; assumption|]. split; [apply encodes_app; assumption|].
    intros fuel br Hfuel Hfit. destruct T1 as [[-> ->]|[NE T]].
    + cbn [app] in *. apply D2; assumption.
    + destruct fuel as [|f].
      { rewrite app_length in Hfuel. destruct B1; [contradiction | cbn [length] in Hfuel; lia]. }
      destruct (dec_loop_token f br B1 B2 n1 NE T Hfit) as (br' & L & E).
      etransitivity; [exact E|].
      assert (D2' : dec_loop cfg f (br', B2) = (n2 ++ [EEndDoc], DOk)).
      { apply D2.
        - rewrite app_length in Hfuel. destruct B1; [contradiction | cbn [length] in Hfuel; lia].
        - unfold fits in *. rewrite len_app in Hfit. lia. }
      unfold rstate, bytes, byte in *. rewrite D2'. rewrite <- app_assoc. reflexivity.
Qed.

(* Decoding a document the encoder produced for a covered stream succeeds, and
   encoding the decoded events again reproduces the document byte for byte. *)
Theorem reencode_idempotent v body doc :
  v < two64 -> v <> 1 -> wf_body body ->
  cbe_encode (EBeginDoc :: EVersion v :: body ++ [EEndDoc]) = Some doc ->
  len doc <= max_doc_size cfg ->
  snd (cbe_decode cfg doc) = DOk /\ cbe_encode (fst (cbe_decode cfg doc)) = Some doc.
Proof.
  intros Hv Hv1 Hb Henc Hlen.
  destruct (body_roundtrip body Hb) as (B & norm & EB & EN & D).
  assert (Hdoc : forall es, encodes es B ->
            cbe_encode (EBeginDoc :: EVersion v :: es ++ [EEndDoc]) = Some (cbeSignatureByte :: uleb_encode v ++ B)).
  { intros es Ees. unfold cbe_encode. rewrite cbe_encode_from_cons.
    change (cbe_encode_event enc_init EBeginDoc) with (Some (enc_init, [cbeSignatureByte])). cbv beta iota.
    assert (Ev : cbe_encode_event enc_init (EVersion v) = Some (enc_init, uleb_encode v))
      by (unfold cbe_encode_event, guard, opt_map; rewrite is_u64_true by exact Hv; reflexivity).
    rewrite cbe_encode_from_cons, Ev. cbv beta iota. rewrite cbe_encode_from_app.
    destruct (Ees enc_init eq_refl) as (st' & E & I). rewrite E.
    cbn [cbe_encode_from]. unfold cbe_encode_event. unfold idle in I. rewrite I. cbn [opt_map snd].
    rewrite !app_nil_r. reflexivity. }
  rewrite (Hdoc body EB) in Henc. injection Henc as <-.
  unfold fits in *. norm_len_in Hlen.
  assert (Hdec : cbe_decode cfg (cbeSignatureByte :: uleb_encode v ++ B) = (EBeginDoc :: EVersion v :: norm ++ [EEndDoc], DOk)).
  { unfold cbe_decode. rewrite read_u8_ok by lia.
    replace (negb (cbeSignatureByte =? cbeSignatureByte)) with false by reflexivity.
    rewrite read_uleb_ok by (try exact Hv; unfold max_u64, two64 in *; lia).
    replace (v =? 1) with false by (symmetry; apply N.eqb_neq; exact Hv1).
    cbn [snd]. rewrite D; [reflexivity | lia | unfold fits; lia]. }
  unfold rstate, bytes, byte in *. rewrite Hdec. cbn [fst snd]. split; [reflexivity|]. apply Hdoc. exact EN.
Qed.

End Streams.

(* ------------------------------------------------------------------ *)
(** * 13. A decision procedure for the covered fragment *)

Definition id_okb (id : bytes) : bool := (1 <=? len id) && (len id <=? identifier_max_length).

Definition simple_okb (e : event) : bool :=
  match e with
  | ENull | ETrue | EFalse | EBool _ | EList | EMap | EEdge | ENode | EEnd | EPadding | EComment _ _ => true
  | EPosInt n | ENegInt n => n <? two64
  | EInt z => is_i64 z
  | EBigInt None => true
  | EBigInt (Some z) => N.size (Z.abs_N z) <=? 8192
  | EFloat b => b <? two64
  | EBigFloat None => true
  | EBigFloat (Some (BInf _)) => true
  | EBigFloat (Some (BFin neg mant exp _)) =>
      match bigfloat_to_f64 neg mant exp with Some b => b <? two64 | None => false end
  | ENan _ => true
  | EDecimal d => dfloat_small_ok d
  | EBigDecimal None => true
  | EBigDecimal (Some (DFin neg c e)) => is_i32 e && ((c =? 0) || (Z.abs e <? 2147483648)%Z)
  | EBigDecimal (Some _) => true
  | EUid b => bytes_wfb b && (len b =? 16)
  | ERecordType id | ERecord id | EMarker id | ERefLocal id => bytes_wfb id && id_okb id
  | EArray t n d => arr_ok t && (n <? two63) && bytes_wfb d && (len d =? elem_bytes (element_bits t) n)
  | EStringArray t d => arr_ok t && (element_bits t =? 8) && bytes_wfb d && (len d <? two61)
  | EMedia mt d => bytes_wfb mt && (len mt <=? media_type_max_length) && bytes_wfb d && (len d <? two61)
  | ECustomBin ct d => (ct <=? custom_type_max) && bytes_wfb d && (len d <? two61)
  | _ => false
  end.

Lemma size_bound m : N.size m <= 8192 -> m < 256 ^ N.of_nat 1024.
Proof.
  intro H. pose proof (N.size_gt m) as G. eapply N.lt_le_trans; [exact G|].
  rewrite pow256_pow2. apply N.pow_le_mono_r; [discriminate | lia].
Qed.

Ltac split_andb H :=
  repeat match type of H with
         | (_ && _) = true => let H1 := fresh H in apply andb_true_iff in H as [H H1]; split_andb H1
         end.

Lemma simple_okb_sound e : simple_okb e = true -> simple_ok e.
Proof.
  destruct e; cbn [simple_okb simple_ok]; intro H; try discriminate; try exact I.
  - apply N.ltb_lt. exact H.
  - apply N.ltb_lt. exact H.
  - exact H.
  - destruct v as [z|]; [|exact I]. apply size_bound. apply N.leb_le. exact H.
  - apply N.ltb_lt. exact H.
  - destruct v as [[neg mant exp prec|neg]|]; try exact I.
    destruct (bigfloat_to_f64 neg mant exp) as [b|]; [|discriminate]. apply N.ltb_lt. exact H.
  - exact H.
  - destruct v as [[neg c e|neg| |]|]; try exact I.
    apply andb_true_iff in H as [H1 H2]. split; [exact H1|]. intro Hc.
    apply orb_true_iff in H2 as [H2|H2]; [apply N.eqb_eq in H2; contradiction | apply Z.ltb_lt; exact H2].
  - apply andb_true_iff in H as [H1 H2]. split; [apply bytes_wfb_wf; exact H1 | apply N.eqb_eq; exact H2].
  - apply andb_true_iff in H as [H1 H2]. split; [apply bytes_wfb_wf; exact H1|].
    unfold id_okb in H2. apply andb_true_iff in H2 as [A B]. split; [apply N.leb_le; exact A | apply N.leb_le; exact B].
  - apply andb_true_iff in H as [H1 H2]. split; [apply bytes_wfb_wf; exact H1|].
    unfold id_okb in H2. apply andb_true_iff in H2 as [A B]. split; [apply N.leb_le; exact A | apply N.leb_le; exact B].
  - apply andb_true_iff in H as [H1 H2]. split; [apply bytes_wfb_wf; exact H1|].
    unfold id_okb in H2. apply andb_true_iff in H2 as [A B]. split; [apply N.leb_le; exact A | apply N.leb_le; exact B].
  - apply andb_true_iff in H as [H1 H2]. split; [apply bytes_wfb_wf; exact H1|].
    unfold id_okb in H2. apply andb_true_iff in H2 as [A B]. split; [apply N.leb_le; exact A | apply N.leb_le; exact B].
  - apply andb_true_iff in H as [H H4]. apply andb_true_iff in H as [H H3]. apply andb_true_iff in H as [H1 H2].
    repeat split; [exact H1 | apply N.ltb_lt; exact H2 | apply bytes_wfb_wf; exact H3 | apply N.eqb_eq; exact H4].
  - apply andb_true_iff in H as [H H4]. apply andb_true_iff in H as [H H3]. apply andb_true_iff in H as [H1 H2].
    repeat split; [exact H1 | apply N.eqb_eq; exact H2 | apply bytes_wfb_wf; exact H3 | apply N.ltb_lt; exact H4].
  - apply andb_true_iff in H as [H H4]. apply andb_true_iff in H as [H H3]. apply andb_true_iff in H as [H1 H2].
    repeat split; [apply bytes_wfb_wf; exact H1 | apply N.leb_le; exact H2 | apply bytes_wfb_wf; exact H3 | apply N.ltb_lt; exact H4].
  - apply andb_true_iff in H as [H H3]. apply andb_true_iff in H as [H1 H2].
    repeat split; [apply N.leb_le; exact H1 | apply bytes_wfb_wf; exact H2 | apply N.ltb_lt; exact H3].
Qed.

(* leading data events *)
Fixpoint take_data (es : list event) : list bytes * list event :=
  match es with
  | EArrayData d :: r => let '(ds, r') := take_data r in (d :: ds, r')
  | _ => ([], es)
  end.

Lemma take_data_spec es : es = map EArrayData (fst (take_data es)) ++ snd (take_data es).
Proof.
  induction es as [|e r IH]; [reflexivity|].
  destruct e; try reflexivity. cbn [take_data]. destruct (take_data r) as [ds r'] eqn:E.
  cbn [fst snd map app] in *. rewrite <- IH. reflexivity.
Qed.

Lemma take_data_length es : (length (snd (take_data es)) <= length es)%nat.
Proof.
  induction es as [|e r IH]; [cbn; lia|]. destruct e; cbn [take_data snd length]; try lia.
  destruct (take_data r) as [ds r']. cbn [snd] in *. lia.
Qed.

(* chunk events up to and including the final chunk *)
Fixpoint take_chunks (fuel : nat) (es : list event) : option (list rchunk * list event) :=
  match fuel with
  | O => None
  | S f =>
      match es with
      | EArrayChunk n more :: r =>
          let '(ds, r1) := take_data r in
          if more then
            match take_chunks f r1 with
            | Some (cs, r2) => Some ((n, more, ds) :: cs, r2)
            | None => None
            end
          else Some ([(n, false, ds)], r1)
      | _ => None
      end
  end.

Lemma take_chunks_spec fuel es cs r :
  take_chunks fuel es = Some (cs, r) -> es = raw_chunk_events cs ++ r /\ (length r <= length es)%nat.
Proof.
  revert es cs r; induction fuel as [|f IH]; intros es cs r H; [discriminate|].
  cbn [take_chunks] in H. destruct es as [|e es']; [discriminate|]. destruct e; try discriminate.
  pose proof (take_data_spec es') as D. pose proof (take_data_length es') as DL.
  destruct (take_data es') as [ds r1]. cbn [fst snd] in D, DL.
  destruct more.
  - destruct (take_chunks f r1) as [[cs' r2]|] eqn:E; [|discriminate]. injection H as <- <-.
    destruct (IH _ _ _ E) as [E1 E2]. split.
    + cbn [raw_chunk_events flat_map]. fold (raw_chunk_events cs'). cbn [app]. rewrite <- app_assoc, <- E1, <- D. reflexivity.
    + cbn [length]. lia.
  - injection H as <- <-. split.
    + cbn [raw_chunk_events flat_map app]. rewrite app_nil_r. rewrite <- D. reflexivity.
    + cbn [length]. lia.
Qed.

Fixpoint chunks_wfb (width : N) (cs : list chunk) : bool :=
  match cs with
  | [] => false
  | (n, more, d) :: r =>
      (n <? two63) && (len d =? elem_bytes width n) &&
      (if more then chunks_wfb width r else match r with [] => true | _ => false end)
  end.

Lemma chunks_wfb_sound width cs : chunks_wfb width cs = true -> chunks_wf width cs.
Proof.
  induction cs as [|[[n more] d] r IH]; [discriminate|]. cbn [chunks_wfb]. intro H.
  apply andb_true_iff in H as [H H3]. apply andb_true_iff in H as [H1 H2].
  apply N.ltb_lt in H1. apply N.eqb_eq in H2. destruct more.
  - apply cw_more; [exact H1 | exact H2 | apply IH; exact H3].
  - destruct r; [|discriminate]. apply cw_last; assumption.
Qed.

Definition rchunks_data_wfb (cs : list rchunk) : bool :=
  forallb (fun c : rchunk => forallb bytes_wfb (snd c)) cs.

Lemma rchunks_data_wfb_sound cs : rchunks_data_wfb cs = true -> rchunks_data_wf cs.
Proof.
  unfold rchunks_data_wfb, rchunks_data_wf. rewrite forallb_forall, Forall_forall. intros H c Hc.
  specialize (H c Hc). rewrite forallb_forall in H. rewrite Forall_forall. intros d Hd.
  apply bytes_wfb_wf. apply H. exact Hd.
Qed.

Fixpoint wf_bodyb (fuel : nat) (es : list event) : bool :=
  match fuel with
  | O => false
  | S f =>
      match es with
      | [] => true
      | EArrayBegin t :: r =>
          match take_chunks (S (length r)) r with
          | Some (cs, r') =>
              arr_ok t && chunks_wfb (element_bits t) (map merge cs) && rchunks_data_wfb cs && wf_bodyb f r'
          | None => false
          end
      | EMediaBegin mt :: r =>
          match take_chunks (S (length r)) r with
          | Some (cs, r') =>
              bytes_wfb mt && (len mt <=? media_type_max_length) && chunks_wfb 8 (map merge cs) &&
              rchunks_data_wfb cs && wf_bodyb f r'
          | None => false
          end
      | ECustomBegin t ct :: r =>
          match take_chunks (S (length r)) r with
          | Some (cs, r') =>
              (t <? 256) && negb (t =? cbeAT_CustomText) && (ct <=? custom_type_max) && chunks_wfb 8 (map merge cs) &&
              rchunks_data_wfb cs && wf_bodyb f r'
          | None => false
          end
      | e :: r => simple_okb e && wf_bodyb f r
      end
  end.

Lemma wf_bodyb_sound fuel es : wf_bodyb fuel es = true -> wf_body es.
Proof.
  revert es; induction fuel as [|f IH]; intros es H; [discriminate|].
  destruct es as [|e r]; [apply wb_nil|].
  assert (Simple : simple_okb e && wf_bodyb f r = true -> wf_body (e :: r)).
  { intro S. apply andb_true_iff in S as [S1 S2].
    apply (wb_app [e] r); [apply wu_simple; apply simple_okb_sound; exact S1 | apply IH; exact S2]. }
  destruct e; try (apply Simple; exact H); cbn [wf_bodyb] in H.
  - (* EArrayBegin *)
    destruct (take_chunks (S (length r)) r) as [[cs r']|] eqn:E; [|discriminate].
    destruct (take_chunks_spec _ _ _ _ E) as [E1 _].
    apply andb_true_iff in H as [H H4]. apply andb_true_iff in H as [H H3]. apply andb_true_iff in H as [H1 H2].
    rewrite E1. apply (wb_app (EArrayBegin t :: raw_chunk_events cs) r'); [|apply IH; exact H4].
    apply wu_array; [exact H1 | apply chunks_wfb_sound; exact H2 | apply rchunks_data_wfb_sound; exact H3].
  - (* EMediaBegin *)
    destruct (take_chunks (S (length r)) r) as [[cs r']|] eqn:E; [|discriminate].
    destruct (take_chunks_spec _ _ _ _ E) as [E1 _].
    apply andb_true_iff in H as [H H5]. apply andb_true_iff in H as [H H4]. apply andb_true_iff in H as [H H3].
    apply andb_true_iff in H as [H1 H2].
    rewrite E1. apply (wb_app (EMediaBegin mediatype :: raw_chunk_events cs) r'); [|apply IH; exact H5].
    apply wu_media; [apply bytes_wfb_wf; exact H1 | apply N.leb_le; exact H2 | apply chunks_wfb_sound; exact H3 |
                     apply rchunks_data_wfb_sound; exact H4].
  - (* ECustomBegin *)
    destruct (take_chunks (S (length r)) r) as [[cs r']|] eqn:E; [|discriminate].
    destruct (take_chunks_spec _ _ _ _ E) as [E1 _].
    apply andb_true_iff in H as [H H5]. apply andb_true_iff in H as [H H4]. apply andb_true_iff in H as [H H3].
    apply andb_true_iff in H as [H H2]. apply andb_true_iff in H as [H1 H1'].
    rewrite E1. apply (wb_app (ECustomBegin t ct :: raw_chunk_events cs) r'); [|apply IH; exact H5].
    apply wu_custom; [apply N.ltb_lt; exact H1 | apply N.eqb_neq, negb_true_iff; exact H1' | apply N.leb_le; exact H2 | apply chunks_wfb_sound; exact H3 |
                      apply rchunks_data_wfb_sound; exact H4].
Qed.

(* a whole document: begin, a version other than 1, a covered body, end *)
Definition doc_body (es : list event) : option (N * list event) :=
  match es with
  | EBeginDoc :: EVersion v :: rest =>
      match rev rest with
      | EEndDoc :: rbody => Some (v, rev rbody)
      | _ => None
      end
  | _ => None
  end.

Definition doc_okb (es : list event) : bool :=
  match doc_body es with
  | Some (v, body) => (v <? two64) && negb (v =? 1) && wf_bodyb (S (length body)) body
  | None => false
  end.

Lemma doc_body_spec es v body : doc_body es = Some (v, body) -> es = EBeginDoc :: EVersion v :: body ++ [EEndDoc].
Proof.
  unfold doc_body. destruct es as [|e1 [|e2 rest]]; try discriminate; destruct e1; try discriminate.
  destruct e2; try discriminate. destruct (rev rest) as [|l rbody] eqn:E; [discriminate|].
  destruct l; try discriminate. intro H. injection H as <- <-.
  rewrite <- (rev_involutive rest), E. reflexivity.
Qed.

(* the idempotence theorem with a decidable hypothesis *)
Theorem reencode_idempotent_checked cfg es doc :
  doc_okb es = true -> cbe_encode es = Some doc -> len doc <= max_doc_size cfg ->
  snd (cbe_decode cfg doc) = DOk /\ cbe_encode (fst (cbe_decode cfg doc)) = Some doc.
Proof.
  unfold doc_okb. intros H Henc Hlen. destruct (doc_body es) as [[v body]|] eqn:E; [|discriminate].
  apply doc_body_spec in E. subst es.
  apply andb_true_iff in H as [H H3]. apply andb_true_iff in H as [H1 H2].
  apply N.ltb_lt in H1. apply negb_true_iff, N.eqb_neq in H2. apply wf_bodyb_sound in H3.
  eapply reencode_idempotent; eassumption.
Qed.

(* ------------------------------------------------------------------ *)
(** * 14. The unrestricted idempotence statement and where it fails *)

(* "Decoding an encoder-produced document and encoding it again reproduces it byte
   for byte", for every stream the model's encoder accepts. *)
Definition reencode_full : Prop :=
  forall es doc, cbe_encode es = Some doc ->
    snd (cbe_decode default_dcfg doc) = DOk /\ cbe_encode (fst (cbe_decode default_dcfg doc)) = Some doc.

Definition bigdecimal_expmin_doc : list event :=
  [EBeginDoc; EVersion 0; EBigDecimal (Some (DFin false 7 (-2147483648))); EEndDoc].

(* an apd exponent of MinInt32 is written as a field the decoder rejects *)
Lemma reencode_bigdecimal_expmin :
  cbe_encode bigdecimal_expmin_doc = Some [129; 0; 118; 130; 128; 128; 128; 224; 255; 255; 255; 255; 1; 7] /\
  snd (cbe_decode default_dcfg [129; 0; 118; 130; 128; 128; 128; 224; 255; 255; 255; 255; 1; 7]) = DErr.
Proof. vm_compute. split; reflexivity. Qed.

Theorem reencode_full_refuted : ~ reencode_full.
Proof.
  intro H. destruct reencode_bigdecimal_expmin as (E1 & E2).
  destruct (H bigdecimal_expmin_doc _ E1) as [C _]. rewrite E2 in C. discriminate.
Qed.

(* ------------------------------------------------------------------ *)
(** * 15. Examples (non-vacuity) *)

Example ex_int_menu :
  map (fun m => (length (enc_signed false m), length (enc_signed true m)))
      [0; 100; 101; 255; 256; 65535; 65536; 4294967295; 4294967296; 281474976710655; 281474976710656;
       18446744073709551615; 18446744073709551616]
  = [(1, 2); (1, 1); (2, 2); (2, 2); (3, 3); (3, 3); (5, 5); (5, 5); (7, 7); (8, 8); (9, 9); (9, 9); (11, 11)]%nat.
Proof. vm_compute. reflexivity. Qed.

Example ex_int_menu_min :
  list_min (map snd (int_menu true 70000)) = Some 5%nat /\ list_min (map snd (int_menu false 0)) = Some 1%nat.
Proof. vm_compute. split; reflexivity. Qed.

Example ex_float_widths :
  map (fun b => length (enc_float b))
      [0x3ff8000000000000; 0x3ff8000020000000; 0x3ff8000000000001; 0x7ff0000000000000; 0x8000000000000000; 0]
  = [3; 5; 9; 3; 2; 1]%nat.
Proof. vm_compute. reflexivity. Qed.

Definition ex_doc : list event :=
  [EBeginDoc; EVersion 0; EList; EPosInt 300; EInt (-5); EBigInt (Some (-18446744073709551616)%Z);
   EFloat 0x3ff8000000000000; EFloat 0x7ff8000000000001; EStringArray cbeAT_String [104; 105];
   EArray cbeAT_Uint16 2 [1; 0; 2; 0];
   EArrayBegin cbeAT_String; EArrayChunk 2 true; EArrayData [104]; EArrayData [105]; EArrayChunk 0 false;
   EArrayBegin cbeAT_Uint8; EArrayChunk 3 false; EArrayData [1; 2; 3];
   EMedia [97; 47; 98] [1; 2]; ECustomBin 9 [7]; EMarker [109; 49]; ERefLocal [109; 49];
   EDecimal (DFin true 15 (-1)); EBigDecimal (Some (DFin false 18446744073709551616 3));
   EBigDecimal (Some (DFin true 0 5));
   EComment false [120]; EPadding; EBool true; ENull; EEnd; EEndDoc].

Example ex_doc_covered : doc_okb ex_doc = true.
Proof. vm_compute. reflexivity. Qed.

Definition ex_doc_bytes : bytes := match cbe_encode ex_doc with Some d => d | None => [] end.

Example ex_doc_idempotent :
  cbe_encode ex_doc = Some ex_doc_bytes /\ (30 < length ex_doc_bytes)%nat /\
  snd (cbe_decode default_dcfg ex_doc_bytes) = DOk /\
  cbe_encode (fst (cbe_decode default_dcfg ex_doc_bytes)) = Some ex_doc_bytes /\
  events_eqb (fst (cbe_decode default_dcfg ex_doc_bytes)) ex_doc = false.
Proof. vm_compute. repeat split. lia. Qed.

(* ------------------------------------------------------------------ *)
(** * 16. The integer events *)

(* sign and magnitude an integer event denotes (ENegInt 0 is the negative zero) *)
Definition int_event_value (e : event) : option (bool * N) :=
  match e with
  | EPosInt n => if n <? two64 then Some (false, n) else None
  | ENegInt n => if n <? two64 then Some (true, n) else None
  | EInt z => if is_i64 z then Some ((z <? 0)%Z, Z.abs_N z) else None
  | EBigInt (Some z) => Some ((z <? 0)%Z, Z.abs_N z)
  | _ => None
  end.

Lemma int_event_encoding st e neg m :
  int_event_value e = Some (neg, m) -> cbe_encode_event st e = Some (st, enc_signed neg m).
Proof.
  destruct e; cbn [int_event_value]; try discriminate.
  - destruct (N.ltb_spec n two64) as [L|L]; [|discriminate]. intro H. injection H as <- <-.
    unfold cbe_encode_event. rewrite is_u64_true by exact L. rewrite enc_pos_int_signed by exact L. reflexivity.
  - destruct (N.ltb_spec n two64) as [L|L]; [|discriminate]. intro H. injection H as <- <-.
    unfold cbe_encode_event. rewrite is_u64_true by exact L. rewrite enc_neg_int_signed by exact L. reflexivity.
  - destruct (is_i64 z) eqn:L; [|discriminate]. intro H. injection H as <- <-.
    unfold cbe_encode_event. rewrite L. rewrite enc_int_signed by exact L. reflexivity.
  - destruct v as [z|]; [|discriminate]. intro H. injection H as <- <-.
    unfold cbe_encode_event. rewrite enc_big_int_signed. reflexivity.
Qed.

(* Every integer event is written in a form of the format's menu that can hold
   its value, and no form of the menu that can hold the value is shorter. *)
Theorem int_event_minimal st e neg m :
  int_event_value e = Some (neg, m) ->
  exists B, cbe_encode_event st e = Some (st, B) /\
    form_available neg m (chosen_form neg m) /\ length B = form_length (chosen_form neg m) /\
    forall f, form_available neg m f -> (length B <= form_length f)%nat.
Proof.
  intro H. exists (enc_signed neg m). split; [apply int_event_encoding; exact H|]. apply int_minimal.
Qed.

Theorem float_event_narrowest st b :
  b < 2 ^ 64 -> f64_ordinary b = true ->
  exists B, cbe_encode_event st (EFloat b) = Some (st, B) /\
    length B = S (width_bytes (float_width b)) /\ repr_in (float_width b) b /\
    forall w, repr_in w b -> (width_bytes (float_width b) <= width_bytes w)%nat.
Proof.
  intros Hb Ho. exists (enc_float b). split; [|apply float_narrowest; assumption].
  unfold cbe_encode_event. rewrite is_u64_true by exact Hb. reflexivity.
Qed.

(* whole arrays through OnArray / OnStringlikeArray: the short header iff the count allows it and the type has one *)
Theorem array_event_header st t n d :
  t < 256 -> n < two64 -> bytes_wf d ->
  cbe_encode_event st (EArray t n d) = opt_map (fun h => (st, h ++ d)) (enc_whole_array_header t n) /\
  cbe_encode_event st (EStringArray t d) = opt_map (fun h => (st, h ++ d)) (enc_whole_array_header t (len d)) /\
  (n <= cbeMaxSmallArrayLength -> has_short_form t = true -> enc_whole_array_header t n = Some (short_header t n)) /\
  (cbeMaxSmallArrayLength < n \/ (has_short_form t = false /\ array_info t <> None) ->
   enc_whole_array_header t n = opt_map (fun h => h ++ uleb_encode (chunk_header n false)) (enc_array_header t)).
Proof.
  intros Ht Hn Hd. apply N.ltb_lt in Ht. split; [|split; [|split]].
  - unfold cbe_encode_event, guard. rewrite Ht, is_u64_true by exact Hn. rewrite wfb_of_wf by exact Hd. cbn [andb].
    destruct (enc_whole_array_header t n); reflexivity.
  - unfold cbe_encode_event, guard. rewrite Ht. rewrite wfb_of_wf by exact Hd. cbn [andb].
    destruct (enc_whole_array_header t (len d)); reflexivity.
  - apply array_header_short.
  - apply array_header_long.
Qed.

(* correspondence case: a stream and whether the harness expects it to lie in the covered fragment *)
Definition frag_case := (list event * bool)%type.
Definition frag_case_ok (c : frag_case) : bool := Bool.eqb (doc_okb (fst c)) (snd c).
