(* Proofs about the CBE model (Model/Cbe.v):
     1. integer form selection is minimal over the format's menu of forms,
     2. binary floats use the narrowest exact width,
     3. short array headers are used exactly when the format allows them,
     4. per-token decode-after-encode lemmas (reused by the round-trip property),
     5. decode -> re-encode reproduces the encoder's bytes (idempotence). *)
From CE Require Import Model.Cbe Proofs.FloatBitsProofs.
From Coq Require Import ZifyN ZifyNat ZifyBool.
Open Scope N_scope.

#[local] Arguments N.pow : simpl never.
#[local] Arguments N.div : simpl never.
#[local] Arguments N.modulo : simpl never.
#[local] Arguments N.mul : simpl never.
#[local] Arguments N.add : simpl never.
#[local] Arguments N.sub : simpl never.
#[local] Arguments N.ltb : simpl never.
#[local] Arguments N.leb : simpl never.
#[local] Arguments N.eqb : simpl never.
#[local] Arguments N.lor : simpl never.
#[local] Arguments N.land : simpl never.
#[local] Arguments N.of_nat : simpl never.
#[local] Arguments N.to_nat : simpl never.
#[local] Arguments le_encode : simpl never.
#[local] Arguments uleb_encode : simpl never.
#[local] Arguments min_le_len : simpl never.

(* ------------------------------------------------------------------ *)
(** * Small facts *)

Lemma pow256_1 : 256 ^ N.of_nat 1 = 256. Proof. reflexivity. Qed.
Lemma pow256_2 : 256 ^ N.of_nat 2 = 65536. Proof. reflexivity. Qed.
Lemma pow256_3 : 256 ^ N.of_nat 3 = 16777216. Proof. reflexivity. Qed.
Lemma pow256_4 : 256 ^ N.of_nat 4 = 4294967296. Proof. reflexivity. Qed.
Lemma pow256_5 : 256 ^ N.of_nat 5 = 1099511627776. Proof. reflexivity. Qed.
Lemma pow256_6 : 256 ^ N.of_nat 6 = 281474976710656. Proof. reflexivity. Qed.
Lemma pow256_7 : 256 ^ N.of_nat 7 = 72057594037927936. Proof. reflexivity. Qed.
Lemma pow256_8 : 256 ^ N.of_nat 8 = 18446744073709551616. Proof. reflexivity. Qed.

Lemma pow256_mono (a b : nat) : (a <= b)%nat -> 256 ^ N.of_nat a <= 256 ^ N.of_nat b.
Proof. intro H. apply N.pow_le_mono_r; [discriminate | lia]. Qed.

(* lower bound on the minimal byte length *)
Lemma min_le_len_ge v (k : nat) : 256 ^ N.of_nat k <= v -> (k < min_le_len v)%nat.
Proof.
  intro H. destruct (Nat.lt_ge_cases k (min_le_len v)) as [L|L]; [exact L|].
  pose proof (min_le_len_spec v) as S. pose proof (pow256_mono _ _ L). lia.
Qed.

Lemma uleb_len_mono a b : a <= b -> (uleb_len a <= uleb_len b)%nat.
Proof.
  intro H. apply uleb_len_le; [apply uleb_len_pos|].
  pose proof (uleb_len_spec b). lia.
Qed.

Lemma uleb_len_1 v : v < 128 -> uleb_len v = 1%nat.
Proof. apply uleb_len_small. Qed.

(* ------------------------------------------------------------------ *)
(** * 1. Integers: the menu of forms and minimality *)

(* The integer forms of the format (appendix B of the design):
     - small int: one byte, for -100..100 (negative zero has no small form),
     - fixed width w in {1,2,4,8}: type byte carrying the sign + w magnitude bytes,
     - variable length: type byte carrying the sign, ULEB128 byte count n, n magnitude bytes
       (any n that is large enough, leading zero bytes are legal). *)
Inductive int_form := FSmall | FFix (w : nat) | FVar (n : nat).

Definition form_available (neg : bool) (m : N) (f : int_form) : Prop :=
  match f with
  | FSmall => m <= 100 /\ ~ (neg = true /\ m = 0)
  | FFix w => In w [1; 2; 4; 8]%nat /\ m < 256 ^ N.of_nat w
  | FVar n => m < 256 ^ N.of_nat n
  end.

Definition form_length (f : int_form) : nat :=
  match f with
  | FSmall => 1
  | FFix w => 1 + w
  | FVar n => 1 + uleb_len (N.of_nat n) + n
  end.

(* what the encoder writes for sign [neg] and magnitude [m] *)
Definition enc_signed (neg : bool) (m : N) : bytes :=
  if m <? two64 then (if neg then enc_neg_int m else enc_pos_int m)
  else enc_big_magnitude (if neg then cbeTypeNegInt else cbeTypePosInt) m.

(* the form the encoder picks *)
Definition chosen_form (neg : bool) (m : N) : int_form :=
  if (m <=? 100) && negb (neg && (m =? 0)) then FSmall
  else if m <=? 255 then FFix 1
  else if m <=? 65535 then FFix 2
  else if m <=? 4294967295 then FFix 4
  else if m <=? 281474976710655 then FVar (min_le_len m)
  else if m <? two64 then FFix 8
  else FVar (min_le_len m).

Ltac int_consts :=
  unfold cbeFitsSmallintMax, cbeFitsUint8Max, cbeFitsUint16Max, cbeFitsUint32Max, cbeFitsUint48Max, two64 in *.

Lemma chosen_form_available neg m : form_available neg m (chosen_form neg m).
Proof.
  unfold chosen_form.
  destruct (N.leb_spec m 100) as [H100|H100]; cbn [andb].
  - destruct neg; cbn [andb negb].
    + destruct (N.eqb_spec m 0) as [E|E]; cbn [negb].
      * subst m. replace (0 <=? 255) with true by reflexivity. cbn [form_available].
        split; [left; reflexivity|]. rewrite pow256_1. lia.
      * split; [exact H100|]. intros [_ C]. contradiction.
    + split; [exact H100|]. intros [C _]. discriminate.
  - destruct (N.leb_spec m 255); [cbn; split; [auto|rewrite pow256_1; lia]|].
    destruct (N.leb_spec m 65535); [cbn; split; [auto|rewrite pow256_2; lia]|].
    destruct (N.leb_spec m 4294967295); [cbn; split; [auto|rewrite pow256_4; lia]|].
    destruct (N.leb_spec m 281474976710655); [cbn; apply min_le_len_spec|].
    destruct (N.ltb_spec m two64) as [L|L]; [cbn; split; [auto 6|rewrite pow256_8; unfold two64 in L; lia]|].
    cbn. apply min_le_len_spec.
Qed.

Lemma length_enc_pos_int v :
  v < two64 -> length (enc_pos_int v) = form_length (chosen_form false v).
Proof.
  intro Hv. unfold enc_pos_int, chosen_form. int_consts. cbn [andb negb].
  destruct (N.leb_spec v 100); [reflexivity|]. cbn [andb].
  destruct (N.leb_spec v 255); [cbn [length form_length]; rewrite le_encode_length; reflexivity|].
  destruct (N.leb_spec v 65535); [cbn [length form_length]; rewrite le_encode_length; reflexivity|].
  destruct (N.leb_spec v 4294967295); [cbn [length form_length]; rewrite le_encode_length; reflexivity|].
  destruct (N.leb_spec v 281474976710655) as [H48|H48].
  - cbn [length form_length]. rewrite le_encode_length.
    assert (L : (min_le_len v <= 6)%nat) by (apply min_le_len_le; rewrite pow256_6; lia).
    rewrite uleb_len_1 by lia. lia.
  - destruct (N.ltb_spec v 18446744073709551616) as [L|L]; [|lia].
    cbn [length form_length]. rewrite le_encode_length. reflexivity.
Qed.

Lemma length_enc_neg_int v :
  v < two64 -> length (enc_neg_int v) = form_length (chosen_form true v).
Proof.
  intro Hv. unfold enc_neg_int, chosen_form. int_consts. cbn [andb negb].
  destruct (N.eqb_spec v 0) as [E0|E0].
  - subst v. reflexivity.
  - destruct (N.leb_spec v 100); cbn [negb andb]; [reflexivity|].
    destruct (N.leb_spec v 255); [cbn [length form_length]; rewrite le_encode_length; reflexivity|].
    destruct (N.leb_spec v 65535); [cbn [length form_length]; rewrite le_encode_length; reflexivity|].
    destruct (N.leb_spec v 4294967295); [cbn [length form_length]; rewrite le_encode_length; reflexivity|].
    destruct (N.leb_spec v 281474976710655) as [H48|H48].
    + cbn [length form_length]. rewrite le_encode_length.
      assert (L : (min_le_len v <= 6)%nat) by (apply min_le_len_le; rewrite pow256_6; lia).
      rewrite uleb_len_1 by lia. lia.
    + destruct (N.ltb_spec v 18446744073709551616) as [L|L]; [|lia].
      cbn [length form_length]. rewrite le_encode_length. reflexivity.
Qed.

Lemma length_enc_signed neg m : length (enc_signed neg m) = form_length (chosen_form neg m).
Proof.
  unfold enc_signed. destruct (N.ltb_spec m two64) as [L|L].
  - destruct neg; [apply length_enc_neg_int | apply length_enc_pos_int]; exact L.
  - unfold chosen_form, enc_big_magnitude. unfold two64 in L.
    replace (m <=? 100) with false by (symmetry; apply N.leb_gt; lia). cbn [andb].
    replace (m <=? 255) with false by (symmetry; apply N.leb_gt; lia).
    replace (m <=? 65535) with false by (symmetry; apply N.leb_gt; lia).
    replace (m <=? 4294967295) with false by (symmetry; apply N.leb_gt; lia).
    replace (m <=? 281474976710655) with false by (symmetry; apply N.leb_gt; lia).
    replace (m <? two64) with false by (symmetry; apply N.ltb_ge; unfold two64; lia).
    cbn [length form_length]. rewrite app_length, uleb_encode_length, le_encode_length. lia.
Qed.

(* every form that can hold the value is at least as long as the chosen one *)
Lemma chosen_form_minimal neg m f :
  form_available neg m f -> (form_length (chosen_form neg m) <= form_length f)%nat.
Proof.
  intro Hf.
  assert (Hvar : forall n, m < 256 ^ N.of_nat n ->
                  (1 + uleb_len (N.of_nat (min_le_len m)) + min_le_len m <= 1 + uleb_len (N.of_nat n) + n)%nat).
  { intros n Hn. pose proof (min_le_len_le m n Hn) as L.
    pose proof (uleb_len_mono (N.of_nat (min_le_len m)) (N.of_nat n) ltac:(lia)). lia. }
  assert (Hvar_ge : forall n k, m < 256 ^ N.of_nat n -> 256 ^ N.of_nat k <= m -> (k < n)%nat).
  { intros n k Hn Hk. destruct (Nat.lt_ge_cases k n) as [L|L]; [exact L|].
    pose proof (pow256_mono _ _ L). lia. }
  pose proof (uleb_len_pos) as Hup.
  (* a fixed-width form: its width is one of 1, 2, 4, 8 and bounds m *)
  assert (Hfix : forall w, form_available neg m (FFix w) ->
                  (w = 1%nat /\ m < 256) \/ (w = 2%nat /\ m < 65536) \/ (w = 4%nat /\ m < 4294967296) \/
                  (w = 8%nat /\ m < 18446744073709551616)).
  { intros w [[<-|[<-|[<-|[<-|[]]]]] Hw].
    - rewrite pow256_1 in Hw. auto.
    - rewrite pow256_2 in Hw. auto.
    - rewrite pow256_4 in Hw. auto.
    - rewrite pow256_8 in Hw. auto 6. }
  unfold chosen_form.
  destruct (N.leb_spec m 100) as [H100|H100]; cbn [andb].
  - destruct (negb (neg && (m =? 0))) eqn:Hz.
    + (* small *) destruct f as [|w|n]; cbn [form_length]; [lia|lia|]. specialize (Hup (N.of_nat n)). lia.
    + (* negative zero: two bytes *)
      apply negb_false_iff, andb_true_iff in Hz as [-> Hm0]. apply N.eqb_eq in Hm0. subst m.
      replace (0 <=? 255) with true by reflexivity. cbn [form_length].
      destruct f as [|w|n].
      * destruct Hf as [_ C]. exfalso. apply C. split; reflexivity.
      * destruct (Hfix w Hf) as [[-> _]|[[-> _]|[[-> _]|[-> _]]]]; cbn [form_length]; lia.
      * cbn [form_length]. specialize (Hup (N.of_nat n)). lia.
  - destruct (N.leb_spec m 255) as [H8|H8].
    { cbn [form_length]. destruct f as [|w|n].
      - destruct Hf as [C _]. lia.
      - destruct (Hfix w Hf) as [[-> ?]|[[-> ?]|[[-> ?]|[-> ?]]]]; cbn [form_length]; lia.
      - cbn [form_available form_length] in *.
        pose proof (Hvar_ge n 0%nat Hf ltac:(change (256 ^ N.of_nat 0) with 1; lia)).
        specialize (Hup (N.of_nat n)). lia. }
    destruct (N.leb_spec m 65535) as [H16|H16].
    { cbn [form_length]. destruct f as [|w|n].
      - destruct Hf as [C _]. lia.
      - destruct (Hfix w Hf) as [[-> ?]|[[-> ?]|[[-> ?]|[-> ?]]]]; cbn [form_length]; lia.
      - cbn [form_available form_length] in *.
        pose proof (Hvar_ge n 1%nat Hf ltac:(rewrite pow256_1; lia)).
        specialize (Hup (N.of_nat n)). lia. }
    destruct (N.leb_spec m 4294967295) as [H32|H32].
    { cbn [form_length]. destruct f as [|w|n].
      - destruct Hf as [C _]. lia.
      - destruct (Hfix w Hf) as [[-> ?]|[[-> ?]|[[-> ?]|[-> ?]]]]; cbn [form_length]; lia.
      - cbn [form_available form_length] in *.
        pose proof (Hvar_ge n 2%nat Hf ltac:(rewrite pow256_2; lia)).
        specialize (Hup (N.of_nat n)). lia. }
    destruct (N.leb_spec m 281474976710655) as [H48|H48].
    { cbn [form_length].
      assert (L6 : (min_le_len m <= 6)%nat) by (apply min_le_len_le; rewrite pow256_6; lia).
      destruct f as [|w|n].
      - destruct Hf as [C _]. lia.
      - rewrite uleb_len_1 by lia.
        destruct (Hfix w Hf) as [[-> ?]|[[-> ?]|[[-> ?]|[-> ?]]]]; cbn [form_length]; lia.
      - apply Hvar. exact Hf. }
    destruct (N.ltb_spec m two64) as [H64|H64].
    { cbn [form_length]. destruct f as [|w|n].
      - destruct Hf as [C _]. lia.
      - destruct (Hfix w Hf) as [[-> ?]|[[-> ?]|[[-> ?]|[-> ?]]]]; cbn [form_length]; lia.
      - cbn [form_available form_length] in *.
        pose proof (Hvar_ge n 6%nat Hf ltac:(rewrite pow256_6; lia)).
        specialize (Hup (N.of_nat n)). lia. }
    cbn [form_length]. unfold two64 in H64. destruct f as [|w|n].
    + destruct Hf as [C _]. lia.
    + destruct (Hfix w Hf) as [[-> ?]|[[-> ?]|[[-> ?]|[-> ?]]]]; cbn [form_length]; lia.
    + apply Hvar. exact Hf.
Qed.

(* Main statement, for every sign and magnitude (no size bound): the encoder's
   output has the length of an available form, and no available form is shorter. *)
Theorem int_minimal neg m :
  form_available neg m (chosen_form neg m) /\
  length (enc_signed neg m) = form_length (chosen_form neg m) /\
  forall f, form_available neg m f -> (length (enc_signed neg m) <= form_length f)%nat.
Proof.
  split; [apply chosen_form_available|]. split; [apply length_enc_signed|].
  intros f Hf. rewrite length_enc_signed. apply chosen_form_minimal. exact Hf.
Qed.

(* The menu as an explicit list: the small form, the four fixed widths, and the
   variable-length form with every byte count the decoder accepts (0..1024),
   each kept only if it can hold the value; paired with its length. *)
Definition form_availableb (neg : bool) (m : N) (f : int_form) : bool :=
  match f with
  | FSmall => (m <=? 100) && negb (neg && (m =? 0))
  | FFix w => m <? 256 ^ N.of_nat w
  | FVar n => m <? 256 ^ N.of_nat n
  end.

Definition all_forms : list int_form :=
  FSmall :: FFix 1 :: FFix 2 :: FFix 4 :: FFix 8 :: map FVar (seq 0 1025).

Definition int_menu (neg : bool) (m : N) : list (int_form * nat) :=
  map (fun f => (f, form_length f)) (filter (form_availableb neg m) all_forms).

Definition list_min (l : list nat) : option nat :=
  match l with
  | [] => None
  | x :: r => Some (fold_left Nat.min r x)
  end.

Lemma fold_left_min_le l x : (fold_left Nat.min l x <= x)%nat.
Proof. revert x; induction l as [|y l IH]; intro x; cbn [fold_left]; [lia|]. specialize (IH (Nat.min x y)). lia. Qed.

Lemma fold_left_min_le_in l x y : In y l -> (fold_left Nat.min l x <= y)%nat.
Proof.
  revert x; induction l as [|z l IH]; intros x H; [destruct H|].
  cbn [fold_left]. destruct H as [->|H].
  - pose proof (fold_left_min_le l (Nat.min x y)). lia.
  - apply IH. exact H.
Qed.

Lemma fold_left_min_in l x : fold_left Nat.min l x = x \/ In (fold_left Nat.min l x) l.
Proof.
  revert x; induction l as [|z l IH]; intro x; cbn [fold_left]; [left; reflexivity|].
  destruct (IH (Nat.min x z)) as [E|E].
  - rewrite E. destruct (Nat.min_spec x z) as [[_ ->]|[_ ->]]; [left; reflexivity | right; left; reflexivity].
  - right. right. exact E.
Qed.

(* characterisation: [v] is the minimum of a list *)
Lemma list_min_spec l v :
  In v l -> (forall y, In y l -> (v <= y)%nat) -> list_min l = Some v.
Proof.
  destruct l as [|x r]; intros Hin Hle; [destruct Hin|]. cbn [list_min]. f_equal.
  assert (A : (fold_left Nat.min r x <= v)%nat).
  { destruct Hin as [->|Hin]; [apply fold_left_min_le | apply fold_left_min_le_in; exact Hin]. }
  assert (B : (v <= fold_left Nat.min r x)%nat).
  { destruct (fold_left_min_in r x) as [E|E]; [rewrite E; apply Hle; left; reflexivity|].
    apply Hle. right. exact E. }
  lia.
Qed.

Lemma form_availableb_spec neg m f :
  In f all_forms -> (form_availableb neg m f = true <-> form_available neg m f).
Proof.
  intro Hin. destruct f as [|w|n]; cbn [form_availableb form_available].
  - rewrite andb_true_iff, N.leb_le, negb_true_iff, andb_false_iff. split.
    + intros [H1 H2]. split; [exact H1|]. intros [-> Hm]. subst m. destruct H2 as [H2|H2]; discriminate.
    + intros [H1 H2]. split; [exact H1|]. destruct neg; [|left; reflexivity].
      right. apply N.eqb_neq. intro C. apply H2. split; [reflexivity | exact C].
  - rewrite N.ltb_lt. split; [|intros [_ H]; exact H]. intro H. split; [|exact H].
    unfold all_forms in Hin. cbn [In] in Hin.
    destruct Hin as [C|[C|[C|[C|[C|C]]]]]; try discriminate; try (injection C as <-; cbn; auto 6).
    apply in_map_iff in C as (k & C & _). discriminate.
  - apply N.ltb_lt.
Qed.

Lemma FVar_in_all_forms n : (n <= 1024)%nat -> In (FVar n) all_forms.
Proof.
  intro H. unfold all_forms. do 5 right. apply in_map. apply in_seq. lia.
Qed.

Lemma chosen_form_in_all_forms neg m :
  m < 256 ^ N.of_nat 1024 -> In (chosen_form neg m) all_forms.
Proof.
  intro Hm. assert (L : (min_le_len m <= 1024)%nat) by (apply min_le_len_le; exact Hm).
  unfold chosen_form.
  destruct ((m <=? 100) && negb (neg && (m =? 0))); [left; reflexivity|].
  destruct (m <=? 255); [right; left; reflexivity|].
  destruct (m <=? 65535); [do 2 right; left; reflexivity|].
  destruct (m <=? 4294967295); [do 3 right; left; reflexivity|].
  destruct (m <=? 281474976710655); [apply FVar_in_all_forms; exact L|].
  destruct (m <? two64); [do 4 right; left; reflexivity|].
  apply FVar_in_all_forms; exact L.
Qed.

(* length of the encoding = minimum of the explicit menu, for every value the
   decoder's limit on the byte count (1024) lets the format express *)
Theorem int_minimal_menu neg m :
  m < 256 ^ N.of_nat 1024 ->
  list_min (map snd (int_menu neg m)) = Some (length (enc_signed neg m)).
Proof.
  intro Hm. apply list_min_spec.
  - unfold int_menu. rewrite map_map. cbn [snd]. apply in_map_iff.
    exists (chosen_form neg m). split; [symmetry; apply length_enc_signed|].
    apply filter_In. split; [apply chosen_form_in_all_forms; exact Hm|].
    apply form_availableb_spec; [apply chosen_form_in_all_forms; exact Hm|].
    apply chosen_form_available.
  - intros y Hy. unfold int_menu in Hy. rewrite map_map in Hy. cbn [snd] in Hy.
    apply in_map_iff in Hy as (f & <- & Hf). apply filter_In in Hf as [Hin Hav].
    apply (proj2 (proj2 (int_minimal neg m))). apply form_availableb_spec; assumption.
Qed.

(* the event-level encoders are [enc_signed] *)
Lemma enc_pos_int_signed v : v < two64 -> enc_pos_int v = enc_signed false v.
Proof. intro H. unfold enc_signed. apply N.ltb_lt in H. rewrite H. reflexivity. Qed.

Lemma enc_neg_int_signed v : v < two64 -> enc_neg_int v = enc_signed true v.
Proof. intro H. unfold enc_signed. apply N.ltb_lt in H. rewrite H. reflexivity. Qed.

Lemma enc_int_signed z :
  is_i64 z = true -> enc_int z = enc_signed (z <? 0)%Z (Z.abs_N z).
Proof.
  unfold is_i64, enc_int. intro H. apply andb_true_iff in H as [H1 H2].
  apply Z.leb_le in H1. apply Z.ltb_lt in H2.
  destruct (Z.leb_spec 0 z) as [P|P].
  - replace (z <? 0)%Z with false by (symmetry; apply Z.ltb_ge; exact P).
    replace (Z.abs_N z) with (Z.to_N z) by lia.
    apply enc_pos_int_signed. unfold two64. lia.
  - replace (z <? 0)%Z with true by (symmetry; apply Z.ltb_lt; exact P).
    apply enc_neg_int_signed. unfold two64. lia.
Qed.

Lemma enc_big_int_signed z : enc_big_int z = enc_signed (z <? 0)%Z (Z.abs_N z).
Proof.
  unfold enc_big_int, enc_signed. cbv zeta.
  destruct (z <? 0)%Z; destruct (Z.abs_N z <? two64); reflexivity.
Qed.

(* ------------------------------------------------------------------ *)
(** * 2. Binary floats: narrowest exact width *)

Definition width_bytes (w : fwidth) : nat := match w with W16 => 2 | W32 => 4 | W64 => 8 end.
Definition width_code (w : fwidth) : N :=
  match w with W16 => cbeTypeFloat16 | W32 => cbeTypeFloat32 | W64 => cbeTypeFloat64 end.

(* exactly representable in the width (finite values; see FloatBitsProofs) *)
Definition repr_in (w : fwidth) (b : N) : Prop :=
  match w with W16 => repr16 b | W32 => repr32 b | W64 => True end.

Definition f64_ordinary (b : N) : bool :=
  negb (FloatBits.f64_is_inf b) && negb (FloatBits.f64_is_nan b) && negb (f64_is_zero b).

Lemma f64_ordinary_split b :
  f64_ordinary b = true ->
  FloatBits.f64_is_inf b = false /\ FloatBits.f64_is_nan b = false /\ f64_is_zero b = false.
Proof.
  unfold f64_ordinary. intro H. apply andb_true_iff in H as [H H3]. apply andb_true_iff in H as [H1 H2].
  apply negb_true_iff in H1, H2, H3. auto.
Qed.

Lemma enc_float_ordinary b :
  f64_ordinary b = true ->
  enc_float b = width_code (fst (float_encode b)) ::
                le_encode (width_bytes (fst (float_encode b))) (snd (float_encode b)).
Proof.
  intro H. apply f64_ordinary_split in H as (H1 & H2 & H3).
  unfold enc_float. rewrite H1, H2, H3. destruct (float_encode b) as [[| |] x]; reflexivity.
Qed.

(* The encoder writes type byte + the narrowest width that holds the value exactly. *)
Theorem float_narrowest b :
  b < 2 ^ 64 -> f64_ordinary b = true ->
  length (enc_float b) = S (width_bytes (float_width b)) /\
  repr_in (float_width b) b /\
  forall w, repr_in w b -> (width_bytes (float_width b) <= width_bytes w)%nat.
Proof.
  intros Hb Ho. rewrite (enc_float_ordinary b Ho), float_encode_width.
  split; [cbn [length]; rewrite le_encode_length; reflexivity|].
  pose proof (float_width_minimal b Hb) as M.
  destruct (float_width b); cbn [repr_in width_bytes].
  - split; [exact M|]. intros [| |] _; cbn; lia.
  - destruct M as [N16 R32]. split; [exact R32|]. intros [| |] Hw; cbn in *; try lia. contradiction.
  - destruct M as [N16 N32]. split; [exact I|]. intros [| |] Hw; cbn in *; try lia; contradiction.
Qed.

(* infinities and NaNs take three bytes (as a bfloat16 would), zeros one or two *)
Lemma enc_float_special_length b :
  f64_ordinary b = false -> (length (enc_float b) <= 3)%nat.
Proof.
  unfold f64_ordinary, enc_float. intro H.
  destruct (FloatBits.f64_is_inf b); [destruct (f64_sign b =? 1); vm_compute; lia|].
  destruct (FloatBits.f64_is_nan b); [destruct (negb (FloatBits.f64_quiet_bit b)); vm_compute; lia|].
  destruct (f64_is_zero b); [destruct (f64_sign b =? 1); vm_compute; lia|]. discriminate.
Qed.

(* ------------------------------------------------------------------ *)
(** * 3. Arrays: short headers *)

Definition array_info (t : N) : option (N * bool * bool) := nth_error cbeArrayInfo (N.to_nat t).

Definition has_short_form (t : N) : bool :=
  match array_info t with Some (_, has, _) => has | None => false end.

Definition short_header (t n : N) : bytes :=
  match array_info t with
  | Some (short, _, p7) => (if p7 then [cbeTypePlane7f] else []) ++ [N.lor (short mod 256) (n mod 256)]
  | None => []
  end.

(* writeSmallArrayHeader writes the short header iff the count allows it and the type has one *)
Lemma enc_small_header_spec t n :
  enc_small_header t n =
  if cbeMaxSmallArrayLength <? n then Some None
  else match array_info t with
       | None => None
       | Some _ => if has_short_form t then Some (Some (short_header t n)) else Some None
       end.
Proof.
  unfold enc_small_header, has_short_form, short_header, array_info.
  destruct (cbeMaxSmallArrayLength <? n); [reflexivity|].
  destruct (nth_error cbeArrayInfo (N.to_nat t)) as [[[short has] p7]|]; [|reflexivity].
  destruct has; reflexivity.
Qed.

Theorem array_header_short t n :
  n <= cbeMaxSmallArrayLength -> has_short_form t = true ->
  enc_whole_array_header t n = Some (short_header t n).
Proof.
  intros Hn Hs. unfold enc_whole_array_header. rewrite enc_small_header_spec.
  replace (cbeMaxSmallArrayLength <? n) with false by (symmetry; apply N.ltb_ge; exact Hn).
  unfold has_short_form in *. destruct (array_info t) as [[[short has] p7]|]; [|discriminate].
  rewrite Hs. reflexivity.
Qed.

Theorem array_header_long t n :
  cbeMaxSmallArrayLength < n \/ (has_short_form t = false /\ array_info t <> None) ->
  enc_whole_array_header t n =
  opt_map (fun h => h ++ uleb_encode (chunk_header n false)) (enc_array_header t).
Proof.
  intro H. unfold enc_whole_array_header. rewrite enc_small_header_spec.
  destruct (N.ltb_spec cbeMaxSmallArrayLength n) as [L|L].
  - destruct (enc_array_header t); reflexivity.
  - destruct H as [H|[Hs Hi]]; [lia|]. destruct (array_info t); [|contradiction].
    rewrite Hs. destruct (enc_array_header t); reflexivity.
Qed.

(* the short header is one byte for strings and two bytes (7f xn) for the typed arrays:
   shorter than any regular header, which needs the type code(s) and a chunk header *)
Lemma short_header_length t n :
  has_short_form t = true -> (1 <= length (short_header t n) <= 2)%nat.
Proof.
  unfold has_short_form, short_header. destruct (array_info t) as [[[short has] p7]|]; [|discriminate].
  intros _. destruct p7; cbn; lia.
Qed.

(* chunked API: the first chunk gets the short header exactly when it is final
   and a whole array of that type and count would get it *)
Theorem chunk_first_final t n :
  n < two64 ->
  cbe_encode_event {| es_array_type := t; es_try_small := true |} (EArrayChunk n false) =
  opt_map (fun h => ({| es_array_type := t; es_try_small := false |}, h)) (enc_whole_array_header t n).
Proof.
  intro Hn. unfold cbe_encode_event, enc_whole_array_header, guard, is_u64. cbn [es_array_type es_try_small].
  apply N.ltb_lt in Hn. rewrite Hn.
  destruct (enc_small_header t n) as [[h|]|]; try reflexivity.
  destruct (enc_array_header t); reflexivity.
Qed.

Theorem chunk_first_not_final t n :
  n < two64 ->
  cbe_encode_event {| es_array_type := t; es_try_small := true |} (EArrayChunk n true) =
  opt_map (fun h => ({| es_array_type := t; es_try_small := false |}, h ++ uleb_encode (chunk_header n true)))
          (enc_array_header t).
Proof.
  intro Hn. unfold cbe_encode_event, guard, is_u64. cbn [es_array_type es_try_small].
  apply N.ltb_lt in Hn. rewrite Hn. reflexivity.
Qed.

Theorem chunk_later st n more :
  n < two64 -> es_try_small st = false ->
  cbe_encode_event st (EArrayChunk n more) =
  Some ({| es_array_type := es_array_type st; es_try_small := false |}, uleb_encode (chunk_header n more)).
Proof.
  intros Hn Hs. unfold cbe_encode_event, guard, is_u64. apply N.ltb_lt in Hn. rewrite Hn, Hs. reflexivity.
Qed.

(* which types have a short form: exactly strings and the eleven plane-7f typed arrays (from the table) *)
Example short_form_types :
  filter has_short_form (nseq 0 256) =
  [cbeAT_String; cbeAT_Uint16; cbeAT_Uint32; cbeAT_Uint64; cbeAT_Int8; cbeAT_Int16; cbeAT_Int32; cbeAT_Int64;
   cbeAT_Float16; cbeAT_Float32; cbeAT_Float64; cbeAT_UID].
Proof. vm_compute. reflexivity. Qed.

(* ------------------------------------------------------------------ *)
(** * 4. The reader on encoder output *)

#[local] Arguments classify : simpl never.
#[local] Arguments classify7f : simpl never.
#[local] Arguments uleb_decode : simpl never.
#[local] Arguments uleb_decode_u64 : simpl never.
#[local] Arguments uleb_span : simpl never.
#[local] Arguments le_decode : simpl never.
#[local] Arguments firstn : simpl never.
#[local] Arguments skipn : simpl never.

Lemma len_nil : len [] = 0.
Proof. reflexivity. Qed.

Lemma len_cons x (r : bytes) : len (x :: r) = 1 + len r.
Proof. unfold len. cbn [length]. lia. Qed.

Lemma len_app (a b : bytes) : len (a ++ b) = len a + len b.
Proof. unfold len. rewrite app_length. lia. Qed.

Lemma len_le_encode n v : len (le_encode n v) = N.of_nat n.
Proof. unfold len. rewrite le_encode_length. reflexivity. Qed.

Lemma len_zero (d : bytes) : len d = 0 -> d = [].
Proof. unfold len. destruct d; [reflexivity|]. cbn [length]. lia. Qed.

Lemma firstn_len_app (d r : bytes) : firstn (N.to_nat (len d)) (d ++ r) = d.
Proof.
  unfold len. rewrite Nat2N.id, firstn_app, Nat.sub_diag, firstn_all.
  change (firstn 0 r) with (@nil N). apply app_nil_r.
Qed.

Lemma skipn_len_app (d r : bytes) : skipn (N.to_nat (len d)) (d ++ r) = r.
Proof.
  unfold len. rewrite Nat2N.id, skipn_app, Nat.sub_diag, skipn_all. reflexivity.
Qed.

(* the document size limit is not reached while [br] plus the unread input stays below it *)
Definition fits (cfg : dcfg) (br : N) (b : bytes) : Prop := br + len b <= max_doc_size cfg.

Lemma mark_ok cfg n br : br + n <= max_doc_size cfg -> mark cfg n br = Some (br + n).
Proof. intro H. unfold mark. replace (max_doc_size cfg <? br + n) with false; [reflexivity|]. symmetry. apply N.ltb_ge. exact H. Qed.

Lemma read_u8_ok cfg br x r :
  br + 1 <= max_doc_size cfg -> read_u8 cfg (br, x :: r) = Some (x, (br + 1, r)).
Proof. intro H. unfold read_u8. cbn [fst snd]. rewrite mark_ok by exact H. reflexivity. Qed.

Lemma read_bytes_ok cfg br n d r :
  len d = n -> br + n <= max_doc_size cfg ->
  read_bytes cfg n (br, d ++ r) = Some (d, (br + n, r)).
Proof.
  intros Hn H. unfold read_bytes. cbn [fst snd]. subst n.
  destruct (N.eqb_spec (len d) 0) as [E|E].
  - rewrite E, N.add_0_r. apply len_zero in E. subst d. reflexivity.
  - rewrite len_app. replace (len d + len r <? len d) with false by (symmetry; apply N.ltb_ge; lia).
    rewrite mark_ok by exact H. rewrite firstn_len_app, skipn_len_app. reflexivity.
Qed.

Lemma read_le_ok cfg br n v r :
  br + N.of_nat n <= max_doc_size cfg -> v < 256 ^ N.of_nat n ->
  read_le cfg n (br, le_encode n v ++ r) = Some (v, (br + N.of_nat n, r)).
Proof.
  intros H Hv. unfold read_le. rewrite (read_bytes_ok cfg br (N.of_nat n)) by (try apply len_le_encode; exact H).
  rewrite le_decode_encode_small by exact Hv. reflexivity.
Qed.

Lemma read_uleb_ok maxv br v r :
  v < two64 -> v <= maxv -> read_uleb maxv (br, uleb_encode v ++ r) = Some (v, (br, r)).
Proof.
  intros Hv Hm. unfold read_uleb. cbn [fst snd]. rewrite uleb_decode_u64_encode by exact Hv.
  replace (maxv <? v) with false by (symmetry; apply N.ltb_ge; exact Hm). reflexivity.
Qed.

Lemma read_identifier_ok cfg br id r :
  1 <= len id <= identifier_max_length -> br + len id <= max_doc_size cfg ->
  read_identifier cfg (br, enc_identifier id ++ r) = Some (id, (br + len id, r)).
Proof.
  intros [H1 H2] H. unfold read_identifier, enc_identifier. rewrite <- app_assoc.
  rewrite read_uleb_ok; [|unfold identifier_max_length, two64 in *; lia|exact H2].
  replace (len id =? 0) with false by (symmetry; apply N.eqb_neq; lia).
  apply read_bytes_ok; [reflexivity | exact H].
Qed.

(* [tok] decodes, in front of any continuation, to exactly the events [evs]. *)
Definition tok_ok (cfg : dcfg) (tok : bytes) (evs : list event) : Prop :=
  forall br rest, fits cfg br (tok ++ rest) ->
    exists br', dec_token cfg (br, tok ++ rest) = (evs, Some (br', rest)) /\ br' <= br + len tok.

Ltac norm_len_in H :=
  repeat (rewrite len_app in H || rewrite len_cons in H || rewrite len_le_encode in H || rewrite len_nil in H).
Ltac norm_len :=
  repeat (rewrite len_app || rewrite len_cons || rewrite len_le_encode || rewrite len_nil).

Ltac tok_start br rest Hfit :=
  intros br rest Hfit; unfold fits in Hfit; norm_len_in Hfit;
  unfold dec_token; cbn [app]; rewrite read_u8_ok by lia.

Ltac tok_done := eexists; split; [reflexivity | norm_len; lia].

(* ---- classification of the bytes the encoder writes ---- *)

Definition tkind_is_small (k : tkind) (z : Z) : bool :=
  match k with KSmallInt z' => (z' =? z)%Z | _ => false end.

Lemma classify_small_sweep :
  forallb (fun v => tkind_is_small (classify v) (Z.of_N v)) (nseq 0 101) = true.
Proof. vm_compute. reflexivity. Qed.

Lemma classify_small_neg_sweep :
  forallb (fun v => tkind_is_small (classify (256 - v)) (- Z.of_N v)) (nseq 1 100) = true.
Proof. vm_compute. reflexivity. Qed.

Lemma tkind_is_small_eq k z : tkind_is_small k z = true -> k = KSmallInt z.
Proof. destruct k; cbn; try discriminate. intro H. apply Z.eqb_eq in H. subst. reflexivity. Qed.

Lemma classify_small v : v <= 100 -> classify v = KSmallInt (Z.of_N v).
Proof.
  intro H. apply tkind_is_small_eq.
  pose proof classify_small_sweep as S. rewrite forallb_forall in S. apply S, nseq_In. cbn. lia.
Qed.

Lemma classify_small_neg v : 1 <= v <= 100 -> classify (256 - v) = KSmallInt (- Z.of_N v).
Proof.
  intro H. apply tkind_is_small_eq.
  pose proof classify_small_neg_sweep as S. rewrite forallb_forall in S. apply S, nseq_In. cbn. lia.
Qed.

Definition fix_code (neg : bool) (w : nat) : N :=
  match w, neg with
  | 1%nat, false => cbeTypePosInt8 | 1%nat, true => cbeTypeNegInt8
  | 2%nat, false => cbeTypePosInt16 | 2%nat, true => cbeTypeNegInt16
  | 4%nat, false => cbeTypePosInt32 | 4%nat, true => cbeTypeNegInt32
  | 8%nat, false => cbeTypePosInt64 | 8%nat, true => cbeTypeNegInt64
  | _, _ => 0
  end.

Lemma classify_fix neg w : In w [1; 2; 4; 8]%nat -> classify (fix_code neg w) = KFixInt neg w.
Proof. intros [<-|[<-|[<-|[<-|[]]]]]; destruct neg; reflexivity. Qed.

Definition var_code (neg : bool) : N := if neg then cbeTypeNegInt else cbeTypePosInt.

Lemma classify_var neg : classify (var_code neg) = KVarInt neg.
Proof. destruct neg; reflexivity. Qed.

(* ---- integer tokens ---- *)

Section Tokens.
Variable cfg : dcfg.

Lemma tok_small_pos v : v <= 100 -> tok_ok cfg [v] [EInt (Z.of_N v)].
Proof. intro H. tok_start br rest Hfit. rewrite classify_small by exact H. unfold tok_one. tok_done. Qed.

Lemma tok_small_neg v : 1 <= v <= 100 -> tok_ok cfg [256 - v] [EInt (- Z.of_N v)].
Proof. intro H. tok_start br rest Hfit. rewrite classify_small_neg by exact H. unfold tok_one. tok_done. Qed.

Lemma tok_fix neg w v :
  In w [1; 2; 4; 8]%nat -> v < 256 ^ N.of_nat w ->
  tok_ok cfg (fix_code neg w :: le_encode w v) [if neg then ENegInt v else EPosInt v].
Proof.
  intros Hw Hv. tok_start br rest Hfit. rewrite classify_fix by exact Hw.
  rewrite read_le_ok by (try exact Hv; lia). unfold tok_one. tok_done.
Qed.

Definition var_event (neg : bool) (n : nat) (v : N) : event :=
  if (n <=? 8)%nat then (if neg then ENegInt v else EPosInt v)
  else EBigInt (Some (if neg then (- Z.of_N v)%Z else Z.of_N v)).

Lemma max_bigint_bytes : cbeMaxBigIntBitCount / 8 = 1024.
Proof. reflexivity. Qed.

Lemma tok_var neg (n : nat) v :
  (n <= 1024)%nat -> v < 256 ^ N.of_nat n ->
  tok_ok cfg (var_code neg :: uleb_encode (N.of_nat n) ++ le_encode n v) [var_event neg n v].
Proof.
  intros Hn Hv. tok_start br rest Hfit. rewrite classify_var.
  unfold dec_var_int. rewrite max_bigint_bytes. rewrite <- app_assoc.
  rewrite read_uleb_ok by (unfold two64; lia).
  rewrite (read_bytes_ok cfg (br + 1) (N.of_nat n)) by (try apply len_le_encode; lia).
  rewrite le_decode_encode_small by exact Hv.
  unfold var_event.
  destruct (Nat.leb_spec n 8) as [L|L].
  - replace (N.of_nat n <=? 8) with true by (symmetry; apply N.leb_le; lia). destruct neg; tok_done.
  - replace (N.of_nat n <=? 8) with false by (symmetry; apply N.leb_gt; lia). destruct neg; tok_done.
Qed.

(* the event the decoder reports for an integer the encoder wrote *)
Definition signed_z (neg : bool) (m : N) : Z := if neg then (- Z.of_N m)%Z else Z.of_N m.

Definition norm_signed (neg : bool) (m : N) : event :=
  if (m <=? 100) && negb (neg && (m =? 0)) then EInt (signed_z neg m)
  else if m <? two64 then (if neg then ENegInt m else EPosInt m)
  else EBigInt (Some (signed_z neg m)).

Lemma tok_signed neg m :
  m < 256 ^ N.of_nat 1024 -> tok_ok cfg (enc_signed neg m) [norm_signed neg m].
Proof.
  intro Hm. unfold enc_signed, norm_signed.
  destruct (N.ltb_spec m two64) as [H64|H64].
  - unfold two64 in H64.
    assert (Hvar : 4294967295 < m -> m <= 281474976710655 ->
                   tok_ok cfg (var_code neg :: N.of_nat (min_le_len m) :: le_encode (min_le_len m) m)
                              [if neg then ENegInt m else EPosInt m]).
    { intros Lo Hi.
      assert (L6 : (min_le_len m <= 6)%nat) by (apply min_le_len_le; rewrite pow256_6; lia).
      pose proof (tok_var neg (min_le_len m) m ltac:(lia) (min_le_len_spec m)) as T.
      rewrite uleb_encode_small in T by lia. cbn [app] in T. unfold var_event in T.
      replace (min_le_len m <=? 8)%nat with true in T by (symmetry; apply Nat.leb_le; lia). exact T. }
    destruct neg; cbn [andb negb].
    + unfold enc_neg_int. int_consts.
      destruct (N.eqb_spec m 0) as [E0|E0]; cbn [negb andb].
      * subst m. rewrite andb_false_r. apply (tok_fix true 1 0); [left; reflexivity | rewrite pow256_1; lia].
      * rewrite andb_true_r. destruct (N.leb_spec m 100) as [H|H].
        { apply (tok_small_neg m). lia. }
        destruct (N.leb_spec m 255); [apply (tok_fix true 1 m); [cbn; auto | rewrite pow256_1; lia]|].
        destruct (N.leb_spec m 65535); [apply (tok_fix true 2 m); [cbn; auto | rewrite pow256_2; lia]|].
        destruct (N.leb_spec m 4294967295); [apply (tok_fix true 4 m); [cbn; auto | rewrite pow256_4; lia]|].
        destruct (N.leb_spec m 281474976710655); [apply Hvar; lia|].
        apply (tok_fix true 8 m); [cbn; auto 6 | rewrite pow256_8; lia].
    + unfold enc_pos_int. int_consts. rewrite andb_true_r.
      destruct (N.leb_spec m 100) as [H|H]; [apply (tok_small_pos m H)|].
      destruct (N.leb_spec m 255); [apply (tok_fix false 1 m); [cbn; auto | rewrite pow256_1; lia]|].
      destruct (N.leb_spec m 65535); [apply (tok_fix false 2 m); [cbn; auto | rewrite pow256_2; lia]|].
      destruct (N.leb_spec m 4294967295); [apply (tok_fix false 4 m); [cbn; auto | rewrite pow256_4; lia]|].
      destruct (N.leb_spec m 281474976710655); [apply Hvar; lia|].
      apply (tok_fix false 8 m); [cbn; auto 6 | rewrite pow256_8; lia].
  - unfold two64 in H64.
    replace (m <=? 100) with false by (symmetry; apply N.leb_gt; lia). cbn [andb].
    assert (L9 : (8 < min_le_len m)%nat) by (apply min_le_len_ge; rewrite pow256_8; lia).
    assert (L1024 : (min_le_len m <= 1024)%nat) by (apply min_le_len_le; exact Hm).
    pose proof (tok_var neg (min_le_len m) m L1024 (min_le_len_spec m)) as T.
    unfold var_event in T. replace (min_le_len m <=? 8)%nat with false in T by (symmetry; apply Nat.leb_gt; lia).
    unfold enc_big_magnitude, signed_z. destruct neg; exact T.
Qed.

End Tokens.

(* ------------------------------------------------------------------ *)
(** * 5. Tokens: floats, decimal specials, one-byte tokens, identifiers *)

Section Tokens2.
Variable cfg : dcfg.

Lemma classify_decimal : classify cbeTypeDecimal = KDecimal.
Proof. reflexivity. Qed.

Lemma dec_decimal_infinity (neg : bool) rest :
  dec_decimal ((if neg then cfNegativeInfinity else cfInfinity) ++ rest) = Some (EDecimal (DInf neg), rest).
Proof. destruct neg; reflexivity. Qed.

Lemma dec_decimal_nan (s : bool) rest :
  dec_decimal ((if s then cfSignalingNan else cfQuietNan) ++ rest) = Some (EDecimal (if s then DSNan else DQNan), rest).
Proof. destruct s; reflexivity. Qed.

Lemma tok_infinity neg : tok_ok cfg (enc_infinity neg) [EDecimal (DInf neg)].
Proof.
  unfold enc_infinity. tok_start br rest Hfit. rewrite classify_decimal. cbn [snd fst].
  rewrite dec_decimal_infinity. unfold tok_one. eexists; split; [reflexivity|]. norm_len. lia.
Qed.

Lemma tok_nan s : tok_ok cfg (enc_nan s) [EDecimal (if s then DSNan else DQNan)].
Proof.
  unfold enc_nan. tok_start br rest Hfit. rewrite classify_decimal. cbn [snd fst].
  rewrite dec_decimal_nan. unfold tok_one. eexists; split; [reflexivity|]. norm_len. lia.
Qed.

Lemma tok_zero neg : tok_ok cfg (enc_zero neg) [if neg then ENegInt 0 else EInt 0].
Proof.
  destruct neg; cbn [enc_zero].
  - apply (tok_fix cfg true 1 0); [cbn; auto | rewrite pow256_1; lia].
  - apply (tok_small_pos cfg 0). lia.
Qed.

Definition norm_float (b : N) : event :=
  if FloatBits.f64_is_inf b then EDecimal (DInf (f64_sign b =? 1))
  else if FloatBits.f64_is_nan b then EDecimal (if negb (FloatBits.f64_quiet_bit b) then DSNan else DQNan)
  else if f64_is_zero b then (if f64_sign b =? 1 then ENegInt 0 else EInt 0)
  else EFloat b.

Lemma classify_float w : classify (width_code w) = KFloat w.
Proof. destruct w; reflexivity. Qed.

Lemma tok_float b : b < 2 ^ 64 -> tok_ok cfg (enc_float b) [norm_float b].
Proof.
  intro Hb. unfold enc_float, norm_float.
  destruct (FloatBits.f64_is_inf b); [apply tok_infinity|].
  destruct (FloatBits.f64_is_nan b); [apply tok_nan|].
  destruct (f64_is_zero b); [apply tok_zero|].
  unfold float_encode.
  destruct (f64_narrow16 b) as [h|] eqn:H16.
  - destruct (widen_narrow16 b h Hb H16) as (Hw & Hh & Hnan).
    change (2 ^ 16) with 65536 in Hh.
    tok_start br rest Hfit. change (classify cbeTypeFloat16) with (KFloat W16).
    rewrite read_le_ok by (try (rewrite pow256_2; exact Hh); lia).
    unfold dec_bf16. rewrite Hnan, Hw. unfold tok_one. tok_done.
  - destruct (f64_narrow32 b) as [w|] eqn:H32.
    + destruct (widen_narrow32 b w Hb H32) as (Hw & Hlt & Hnan).
      change (2 ^ 32) with 4294967296 in Hlt.
      tok_start br rest Hfit. change (classify cbeTypeFloat32) with (KFloat W32).
      rewrite read_le_ok by (try (rewrite pow256_4; exact Hlt); lia).
      unfold dec_f32. rewrite Hnan, Hw. unfold tok_one. tok_done.
    + change (2 ^ 64) with 18446744073709551616 in Hb.
      tok_start br rest Hfit. change (classify cbeTypeFloat64) with (KFloat W64).
      rewrite read_le_ok by (try (rewrite pow256_8; exact Hb); lia).
      unfold tok_one. tok_done.
Qed.

(* one-byte tokens *)
Definition byte_token (e : event) : option N :=
  match e with
  | ENull => Some cbeTypeNull | ETrue => Some cbeTypeTrue | EFalse => Some cbeTypeFalse
  | EList => Some cbeTypeList | EMap => Some cbeTypeMap | EEdge => Some cbeTypeEdge | ENode => Some cbeTypeNode
  | EEnd => Some cbeTypeEndContainer | EPadding => Some cbeTypePadding
  | _ => None
  end.

Lemma tok_byte e c : byte_token e = Some c -> tok_ok cfg [c] [e].
Proof.
  intro H. destruct e; try discriminate; injection H as <-; tok_start br rest Hfit;
    match goal with |- context [classify ?c] => change (classify c) with ltac:(let v := eval vm_compute in (classify c) in exact v) end;
    unfold tok_one; tok_done.
Qed.

(* identifiers *)
Definition id_ok (id : bytes) : Prop := 1 <= len id <= identifier_max_length.

Lemma tok_ref_local id : id_ok id -> tok_ok cfg (cbeTypeLocalReference :: enc_identifier id) [ERefLocal id].
Proof.
  intro H. tok_start br rest Hfit. unfold enc_identifier in Hfit. norm_len_in Hfit.
  change (classify cbeTypeLocalReference) with KRefLocal.
  rewrite read_identifier_ok by (try exact H; lia). unfold tok_one.
  eexists; split; [reflexivity|]. unfold enc_identifier. norm_len. lia.
Qed.

Lemma tok_record id : id_ok id -> tok_ok cfg (cbeTypeRecord :: enc_identifier id) [ERecord id].
Proof.
  intro H. tok_start br rest Hfit. unfold enc_identifier in Hfit. norm_len_in Hfit.
  change (classify cbeTypeRecord) with KRecord.
  rewrite read_identifier_ok by (try exact H; lia). unfold tok_one.
  eexists; split; [reflexivity|]. unfold enc_identifier. norm_len. lia.
Qed.

Lemma classify_plane7f : classify cbeTypePlane7f = KPlane7f.
Proof. reflexivity. Qed.

Ltac tok_start7f br rest Hfit :=
  tok_start br rest Hfit; rewrite classify_plane7f; unfold dec_plane7f; rewrite read_u8_ok by lia.

Lemma tok_marker id : id_ok id -> tok_ok cfg ([cbeTypePlane7f; cbeTypeMarker] ++ enc_identifier id) [EMarker id].
Proof.
  intro H. tok_start7f br rest Hfit. unfold enc_identifier in Hfit. norm_len_in Hfit.
  change (classify7f cbeTypeMarker) with K7Marker.
  rewrite read_identifier_ok by (try exact H; lia). unfold tok_one.
  eexists; split; [reflexivity|]. unfold enc_identifier. norm_len. lia.
Qed.

Lemma tok_record_type id : id_ok id -> tok_ok cfg ([cbeTypePlane7f; cbeTypeRecordType] ++ enc_identifier id) [ERecordType id].
Proof.
  intro H. tok_start7f br rest Hfit. unfold enc_identifier in Hfit. norm_len_in Hfit.
  change (classify7f cbeTypeRecordType) with K7RecordType.
  rewrite read_identifier_ok by (try exact H; lia). unfold tok_one.
  eexists; split; [reflexivity|]. unfold enc_identifier. norm_len. lia.
Qed.

Lemma tok_uid d : len d = 16 -> tok_ok cfg (cbeTypeUID :: d) [EUid d].
Proof.
  intro H. tok_start br rest Hfit. change (classify cbeTypeUID) with KUid.
  rewrite (read_bytes_ok cfg (br + 1) 16) by (try exact H; lia). unfold tok_one. tok_done.
Qed.

End Tokens2.

(* ------------------------------------------------------------------ *)
(** * 6. Tokens: arrays *)

(* one chunk: element count, continuation flag, the chunk's bytes *)
Definition chunk := (N * bool * bytes)%type.

Fixpoint enc_chunks (cs : list chunk) : bytes :=
  match cs with
  | [] => []
  | (n, more, d) :: r => uleb_encode (chunk_header n more) ++ d ++ enc_chunks r
  end.

(* what the decoder reports for the chunks: one data event per chunk, none for an empty chunk *)
Fixpoint chunk_events (cs : list chunk) : list event :=
  match cs with
  | [] => []
  | (n, more, d) :: r => EArrayChunk n more :: (if len d =? 0 then [] else [EArrayData d]) ++ chunk_events r
  end.

(* a chunk sequence as the array protocol demands: counts match the data, the last chunk and only it is final *)
Inductive chunks_wf (width : N) : list chunk -> Prop :=
| cw_last n d : n < two63 -> len d = elem_bytes width n -> chunks_wf width [(n, false, d)]
| cw_more n d r : n < two63 -> len d = elem_bytes width n -> chunks_wf width r -> chunks_wf width ((n, true, d) :: r).

Lemma chunk_header_small n more : n < two63 -> chunk_header n more = sign_bit more + 2 * n.
Proof.
  intro H. unfold chunk_header, u64, two63, two64 in *. rewrite N.mod_small by lia. lia.
Qed.

Lemma chunk_header_facts n more :
  n < two63 ->
  chunk_header n more < two64 /\ chunk_header n more / 2 = n /\ N.odd (chunk_header n more) = more.
Proof.
  intro H. rewrite chunk_header_small by exact H. unfold two63, two64 in *.
  assert (Hb : sign_bit more < 2) by (destruct more; cbn; lia).
  split; [lia|]. split.
  - rewrite N.mul_comm, N.div_add by discriminate. rewrite N.div_small by exact Hb. lia.
  - rewrite N.odd_add_mul_2. destruct more; reflexivity.
Qed.

Lemma enc_chunks_length_ge cs : (length cs <= length (enc_chunks cs))%nat.
Proof.
  induction cs as [|[[n more] d] r IH]; cbn [enc_chunks length]; [lia|].
  rewrite !app_length. pose proof (uleb_encode_nonempty (chunk_header n more)) as NE.
  destruct (uleb_encode (chunk_header n more)); [contradiction|]. cbn [length]. lia.
Qed.

Ltac tok_start7f br rest Hfit :=
  tok_start br rest Hfit; rewrite classify_plane7f; unfold dec_plane7f; rewrite read_u8_ok by lia.

Section Tokens3.
Variable cfg : dcfg.

Lemma dec_chunks_ok width cs :
  chunks_wf width cs ->
  forall fuel br rest, (length cs <= fuel)%nat -> fits cfg br (enc_chunks cs ++ rest) ->
  exists br', dec_chunks cfg fuel width (br, enc_chunks cs ++ rest) = (chunk_events cs, Some (br', rest)) /\
              br' <= br + len (enc_chunks cs).
Proof.
  induction 1 as [n d Hn Hd | n d r Hn Hd Hr IH]; intros fuel br rest Hfuel Hfit;
    (destruct fuel as [|f]; [cbn [length] in Hfuel; lia|]);
    destruct (chunk_header_facts n false Hn) as (A1 & A2 & A3);
    destruct (chunk_header_facts n true Hn) as (B1 & B2 & B3);
    unfold fits in Hfit; cbn [enc_chunks] in *; norm_len_in Hfit; cbn [dec_chunks]; rewrite <- !app_assoc.
  - rewrite read_uleb_ok by (try exact A1; unfold max_u64, two64 in *; lia).
    rewrite A2, A3, <- Hd. cbn [chunk_events]. rewrite app_nil_r.
    destruct (N.eqb_spec (len d) 0) as [E|E].
    + apply len_zero in E. subst d. cbn [app]. eexists; split; [reflexivity|]. norm_len. lia.
    + rewrite (read_bytes_ok cfg br (len d)) by (try reflexivity; lia). cbn [app].
      eexists; split; [reflexivity|]. norm_len. lia.
  - rewrite read_uleb_ok by (try exact B1; unfold max_u64, two64 in *; lia).
    rewrite B2, B3, <- Hd. cbn [chunk_events].
    destruct (N.eqb_spec (len d) 0) as [E|E].
    + apply len_zero in E. subst d. cbn [app].
      destruct (IH f br rest) as (br' & E1 & E2); [cbn [length] in Hfuel; lia | unfold fits; norm_len; norm_len_in Hfit; lia|].
      rewrite E1. eexists; split; [reflexivity|]. norm_len. lia.
    + rewrite (read_bytes_ok cfg br (len d)) by (try reflexivity; lia).
      destruct (IH f (br + len d) rest) as (br' & E1 & E2); [cbn [length] in Hfuel; lia | unfold fits; norm_len; lia|].
      rewrite E1. cbn [app]. eexists; split; [reflexivity|]. norm_len. lia.
Qed.

Lemma chunks_fuel_enough br cs rest : (length cs <= chunks_fuel (br, enc_chunks cs ++ rest))%nat.
Proof.
  unfold chunks_fuel. cbn [snd]. rewrite app_length. pose proof (enc_chunks_length_ge cs). lia.
Qed.

(* ---- short arrays ---- *)

Definition short_check (t n : N) : bool :=
  match array_info t with
  | Some (short, true, p7) =>
      let c := N.lor (short mod 256) (n mod 256) in
      let eb := element_bits t in
      (elem_bytes eb n =? n * (eb / 8)) &&
      (if p7 then match classify7f c with
                  | K7Short t' k n' => (t' =? t) && (k =? eb / 8) && (n' =? n)
                  | _ => false
                  end
       else match classify c with
            | KString n' => (n' =? n) && (t =? cbeAT_String) && (eb / 8 =? 1)
            | _ => false
            end)
  | _ => true
  end.

Lemma short_sweep : forallb (fun t => forallb (short_check t) (nseq 0 16)) (nseq 0 256) = true.
Proof. vm_compute. reflexivity. Qed.

Lemma short_check_ok t n : t < 256 -> n <= 15 -> short_check t n = true.
Proof.
  intros Ht Hn. pose proof short_sweep as S. rewrite forallb_forall in S.
  specialize (S t ltac:(apply nseq_In; cbn; lia)). rewrite forallb_forall in S.
  apply S, nseq_In. cbn. lia.
Qed.

Lemma tok_short_array t n d :
  t < 256 -> n <= 15 -> has_short_form t = true -> len d = elem_bytes (element_bits t) n ->
  tok_ok cfg (short_header t n ++ d) [EArray t n d].
Proof.
  intros Ht Hn Hs Hd. pose proof (short_check_ok t n Ht Hn) as C.
  unfold short_check in C. unfold has_short_form in Hs. unfold short_header.
  destruct (array_info t) as [[[short has] p7]|]; [|discriminate]. subst has.
  cbv zeta in C. apply andb_true_iff in C as [C1 C2]. apply N.eqb_eq in C1. rewrite C1 in Hd.
  destruct p7.
  - destruct (classify7f (N.lor (short mod 256) (n mod 256))) as [t' k n'| | | | |] eqn:K; try discriminate.
    apply andb_true_iff in C2 as [C2 C3]. apply andb_true_iff in C2 as [C2 C4].
    apply N.eqb_eq in C2, C3, C4. subst t' k n'.
    cbn [app]. tok_start7f br rest Hfit. rewrite K.
    rewrite (read_bytes_ok cfg (br + 1 + 1) (n * (element_bits t / 8))) by (try exact Hd; lia).
    unfold tok_one. tok_done.
  - destruct (classify (N.lor (short mod 256) (n mod 256))) eqn:K; try discriminate.
    apply andb_true_iff in C2 as [C2 C3]. apply andb_true_iff in C2 as [C2 C4].
    apply N.eqb_eq in C2, C3, C4. subst. rewrite C3, N.mul_1_r in Hd.
    cbn [app]. tok_start br rest Hfit. rewrite K.
    rewrite (read_bytes_ok cfg (br + 1) n) by (try exact Hd; lia).
    unfold tok_one. tok_done.
Qed.

(* ---- regular (chunked) form ---- *)

Definition arr_ok (t : N) : bool :=
  in_list t [cbeAT_String; cbeAT_ResourceID; cbeAT_ReferenceRemote; cbeAT_Bit; cbeAT_Uint8; cbeAT_Uint16;
             cbeAT_Uint32; cbeAT_Uint64; cbeAT_Int8; cbeAT_Int16; cbeAT_Int32; cbeAT_Int64;
             cbeAT_Float16; cbeAT_Float32; cbeAT_Float64; cbeAT_UID].

Definition long_check (t : N) : bool :=
  if arr_ok t then
    match enc_array_header t with
    | Some [c] => match classify c with KChunked t' => t' =? t | _ => false end
    | Some [p; c] => (p =? cbeTypePlane7f) && match classify7f c with K7Chunked t' => t' =? t | _ => false end
    | _ => false
    end
  else true.

Lemma long_sweep : forallb long_check (nseq 0 256) = true.
Proof. vm_compute. reflexivity. Qed.

Lemma arr_ok_lt t : arr_ok t = true -> t < 256.
Proof.
  unfold arr_ok, in_list. rewrite existsb_exists. intros (x & Hin & E). apply N.eqb_eq in E. subst x.
  cbn [In] in Hin. repeat (destruct Hin as [<-|Hin]; [reflexivity|]). destruct Hin.
Qed.

Lemma arr_ok_header t : arr_ok t = true -> exists hd, enc_array_header t = Some hd.
Proof.
  intro H. pose proof long_sweep as S. rewrite forallb_forall in S.
  specialize (S t ltac:(apply nseq_In; pose proof (arr_ok_lt t H); cbn; lia)).
  unfold long_check in S. rewrite H in S. destruct (enc_array_header t) as [hd|]; [eauto | discriminate].
Qed.

Lemma tok_long_array t hd cs :
  arr_ok t = true -> enc_array_header t = Some hd -> chunks_wf (element_bits t) cs ->
  tok_ok cfg (hd ++ enc_chunks cs) (EArrayBegin t :: chunk_events cs).
Proof.
  intros Ht Hh Hcs. pose proof long_sweep as S. rewrite forallb_forall in S.
  specialize (S t ltac:(apply nseq_In; pose proof (arr_ok_lt t Ht); cbn; lia)).
  unfold long_check in S. rewrite Ht, Hh in S.
  destruct hd as [|c1 [|c2 [|c3 hd]]]; try discriminate.
  - destruct (classify c1) eqn:K; try discriminate. apply N.eqb_eq in S. subst.
    cbn [app]. tok_start br rest Hfit. rewrite K. unfold dec_array.
    destruct (dec_chunks_ok (element_bits t) cs Hcs (chunks_fuel (br + 1, enc_chunks cs ++ rest)) (br + 1) rest)
      as (br' & E1 & E2); [apply chunks_fuel_enough | unfold fits; norm_len; lia|].
    rewrite E1. eexists; split; [reflexivity|]. norm_len. lia.
  - apply andb_true_iff in S as [S1 S2]. apply N.eqb_eq in S1. subst c1.
    destruct (classify7f c2) eqn:K; try discriminate. apply N.eqb_eq in S2. subst.
    cbn [app]. tok_start7f br rest Hfit. rewrite K. unfold dec_array.
    destruct (dec_chunks_ok (element_bits t) cs Hcs (chunks_fuel (br + 1 + 1, enc_chunks cs ++ rest)) (br + 1 + 1) rest)
      as (br' & E1 & E2); [apply chunks_fuel_enough | unfold fits; norm_len; lia|].
    rewrite E1. eexists; split; [reflexivity|]. norm_len. lia.
Qed.

(* ---- media and custom ---- *)

Lemma tok_media mt cs :
  len mt <= media_type_max_length -> chunks_wf 8 cs ->
  tok_ok cfg (enc_media_begin mt ++ enc_chunks cs) (EMediaBegin mt :: chunk_events cs).
Proof.
  intros Hm Hcs. unfold enc_media_begin. rewrite <- !app_assoc. cbn [app].
  tok_start7f br rest Hfit. change (classify7f cbeTypeMedia) with K7Media.
  unfold dec_media. rewrite <- !app_assoc.
  rewrite read_uleb_ok by (try exact Hm; unfold media_type_max_length, two64 in *; lia).
  rewrite (read_bytes_ok cfg (br + 1 + 1) (len mt)) by (try reflexivity; lia).
  destruct (dec_chunks_ok 8 cs Hcs (chunks_fuel (br + 1 + 1 + len mt, enc_chunks cs ++ rest)) (br + 1 + 1 + len mt) rest)
    as (br' & E1 & E2); [apply chunks_fuel_enough | unfold fits; norm_len; lia|].
  rewrite E1. eexists; split; [reflexivity|]. norm_len. lia.
Qed.

Lemma tok_custom ct cs :
  ct <= custom_type_max -> chunks_wf 8 cs ->
  tok_ok cfg (enc_custom_begin ct ++ enc_chunks cs) (ECustomBegin cbeAT_CustomBinary ct :: chunk_events cs).
Proof.
  intros Hc Hcs. unfold enc_custom_begin. cbn [app].
  tok_start br rest Hfit. change (classify cbeTypeCustomType) with KCustom.
  unfold dec_custom. rewrite <- !app_assoc.
  rewrite read_uleb_ok by (try exact Hc; unfold custom_type_max, two64 in *; lia).
  destruct (dec_chunks_ok 8 cs Hcs (chunks_fuel (br + 1, enc_chunks cs ++ rest)) (br + 1) rest)
    as (br' & E1 & E2); [apply chunks_fuel_enough | unfold fits; norm_len; lia|].
  rewrite E1. eexists; split; [reflexivity|]. norm_len. lia.
Qed.

End Tokens3.
