(* Proofs about the CBE model (Model/Cbe.v):
     1. integer form selection is minimal over the format's menu of forms,
     2. binary floats use the narrowest exact width,
     3. short array headers are used exactly when the format allows them,
     4. per-token decode-after-encode lemmas (reused by the round-trip property),
     5. decode -> re-encode reproduces the encoder's bytes (idempotence). *)
From CE Require Import Model.Cbe Proofs.FloatBitsProofs.
From Coq Require Import ZifyN ZifyNat ZifyBool.
Open Scope N_scope.

#[local] Arguments N.pow : simpl never.
#[local] Arguments N.div : simpl never.
#[local] Arguments N.modulo : simpl never.
#[local] Arguments N.mul : simpl never.
#[local] Arguments N.add : simpl never.
#[local] Arguments N.sub : simpl never.
#[local] Arguments N.ltb : simpl never.
#[local] Arguments N.leb : simpl never.
#[local] Arguments N.eqb : simpl never.
#[local] Arguments N.lor : simpl never.
#[local] Arguments N.land : simpl never.
#[local] Arguments N.of_nat : simpl never.
#[local] Arguments N.to_nat : simpl never.
#[local] Arguments le_encode : simpl never.
#[local] Arguments uleb_encode : simpl never.
#[local] Arguments min_le_len : simpl never.

(* ------------------------------------------------------------------ *)
(** * Small facts *)

Lemma pow256_1 : 256 ^ N.of_nat 1 = 256. Proof. reflexivity. Qed.
Lemma pow256_2 : 256 ^ N.of_nat 2 = 65536. Proof. reflexivity. Qed.
Lemma pow256_3 : 256 ^ N.of_nat 3 = 16777216. Proof. reflexivity. Qed.
Lemma pow256_4 : 256 ^ N.of_nat 4 = 4294967296. Proof. reflexivity. Qed.
Lemma pow256_5 : 256 ^ N.of_nat 5 = 1099511627776. Proof. reflexivity. Qed.
Lemma pow256_6 : 256 ^ N.of_nat 6 = 281474976710656. Proof. reflexivity. Qed.
Lemma pow256_7 : 256 ^ N.of_nat 7 = 72057594037927936. Proof. reflexivity. Qed.
Lemma pow256_8 : 256 ^ N.of_nat 8 = 18446744073709551616. Proof. reflexivity. Qed.

Lemma pow256_mono (a b : nat) : (a <= b)%nat -> 256 ^ N.of_nat a <= 256 ^ N.of_nat b.
Proof. intro H. apply N.pow_le_mono_r; [discriminate | lia]. Qed.

(* lower bound on the minimal byte length *)
Lemma min_le_len_ge v (k : nat) : 256 ^ N.of_nat k <= v -> (k < min_le_len v)%nat.
Proof.
  intro H. destruct (Nat.lt_ge_cases k (min_le_len v)) as [L|L]; [exact L|].
  pose proof (min_le_len_spec v) as S. pose proof (pow256_mono _ _ L). lia.
Qed.

Lemma uleb_len_mono a b : a <= b -> (uleb_len a <= uleb_len b)%nat.
Proof.
  intro H. apply uleb_len_le; [apply uleb_len_pos|].
  pose proof (uleb_len_spec b). lia.
Qed.

Lemma uleb_len_1 v : v < 128 -> uleb_len v = 1%nat.
Proof. apply uleb_len_small. Qed.

(* ------------------------------------------------------------------ *)
(** * 1. Integers: the menu of forms and minimality *)

(* The integer forms of the format (appendix B of the design):
     - small int: one byte, for -100..100 (negative zero has no small form),
     - fixed width w in {1,2,4,8}: type byte carrying the sign + w magnitude bytes,
     - variable length: type byte carrying the sign, ULEB128 byte count n, n magnitude bytes
       (any n that is large enough, leading zero bytes are legal). *)
Inductive int_form := FSmall | FFix (w : nat) | FVar (n : nat).

Definition form_available (neg : bool) (m : N) (f : int_form) : Prop :=
  match f with
  | FSmall => m <= 100 /\ ~ (neg = true /\ m = 0)
  | FFix w => In w [1; 2; 4; 8]%nat /\ m < 256 ^ N.of_nat w
  | FVar n => m < 256 ^ N.of_nat n
  end.

Definition form_length (f : int_form) : nat :=
  match f with
  | FSmall => 1
  | FFix w => 1 + w
  | FVar n => 1 + uleb_len (N.of_nat n) + n
  end.

(* what the encoder writes for sign [neg] and magnitude [m] *)
Definition enc_signed (neg : bool) (m : N) : bytes :=
  if m <? two64 then (if neg then enc_neg_int m else enc_pos_int m)
  else enc_big_magnitude (if neg then cbeTypeNegInt else cbeTypePosInt) m.

(* the form the encoder picks *)
Definition chosen_form (neg : bool) (m : N) : int_form :=
  if (m <=? 100) && negb (neg && (m =? 0)) then FSmall
  else if m <=? 255 then FFix 1
  else if m <=? 65535 then FFix 2
  else if m <=? 4294967295 then FFix 4
  else if m <=? 281474976710655 then FVar (min_le_len m)
  else if m <? two64 then FFix 8
  else FVar (min_le_len m).

Ltac int_consts :=
  unfold cbeFitsSmallintMax, cbeFitsUint8Max, cbeFitsUint16Max, cbeFitsUint32Max, cbeFitsUint48Max, two64 in *.

Lemma chosen_form_available neg m : form_available neg m (chosen_form neg m).
Proof.
  unfold chosen_form.
  destruct (N.leb_spec m 100) as [H100|H100]; cbn [andb].
  - destruct neg; cbn [andb negb].
    + destruct (N.eqb_spec m 0) as [E|E]; cbn [negb].
      * subst m. replace (0 <=? 255) with true by reflexivity. cbn [form_available].
        split; [left; reflexivity|]. rewrite pow256_1. lia.
      * split; [exact H100|]. intros [_ C]. contradiction.
    + split; [exact H100|]. intros [C _]. discriminate.
  - destruct (N.leb_spec m 255); [cbn; split; [auto|rewrite pow256_1; lia]|].
    destruct (N.leb_spec m 65535); [cbn; split; [auto|rewrite pow256_2; lia]|].
    destruct (N.leb_spec m 4294967295); [cbn; split; [auto|rewrite pow256_4; lia]|].
    destruct (N.leb_spec m 281474976710655); [cbn; apply min_le_len_spec|].
    destruct (N.ltb_spec m two64) as [L|L]; [cbn; split; [auto 6|rewrite pow256_8; unfold two64 in L; lia]|].
    cbn. apply min_le_len_spec.
Qed.

Lemma length_enc_pos_int v :
  v < two64 -> length (enc_pos_int v) = form_length (chosen_form false v).
Proof.
  intro Hv. unfold enc_pos_int, chosen_form. int_consts. cbn [andb negb].
  destruct (N.leb_spec v 100); [reflexivity|]. cbn [andb].
  destruct (N.leb_spec v 255); [cbn [length form_length]; rewrite le_encode_length; reflexivity|].
  destruct (N.leb_spec v 65535); [cbn [length form_length]; rewrite le_encode_length; reflexivity|].
  destruct (N.leb_spec v 4294967295); [cbn [length form_length]; rewrite le_encode_length; reflexivity|].
  destruct (N.leb_spec v 281474976710655) as [H48|H48].
  - cbn [length form_length]. rewrite le_encode_length.
    assert (L : (min_le_len v <= 6)%nat) by (apply min_le_len_le; rewrite pow256_6; lia).
    rewrite uleb_len_1 by lia. lia.
  - destruct (N.ltb_spec v 18446744073709551616) as [L|L]; [|lia].
    cbn [length form_length]. rewrite le_encode_length. reflexivity.
Qed.

Lemma length_enc_neg_int v :
  v < two64 -> length (enc_neg_int v) = form_length (chosen_form true v).
Proof.
  intro Hv. unfold enc_neg_int, chosen_form. int_consts. cbn [andb negb].
  destruct (N.eqb_spec v 0) as [E0|E0].
  - subst v. reflexivity.
  - destruct (N.leb_spec v 100); cbn [negb andb]; [reflexivity|].
    destruct (N.leb_spec v 255); [cbn [length form_length]; rewrite le_encode_length; reflexivity|].
    destruct (N.leb_spec v 65535); [cbn [length form_length]; rewrite le_encode_length; reflexivity|].
    destruct (N.leb_spec v 4294967295); [cbn [length form_length]; rewrite le_encode_length; reflexivity|].
    destruct (N.leb_spec v 281474976710655) as [H48|H48].
    + cbn [length form_length]. rewrite le_encode_length.
      assert (L : (min_le_len v <= 6)%nat) by (apply min_le_len_le; rewrite pow256_6; lia).
      rewrite uleb_len_1 by lia. lia.
    + destruct (N.ltb_spec v 18446744073709551616) as [L|L]; [|lia].
      cbn [length form_length]. rewrite le_encode_length. reflexivity.
Qed.

Lemma length_enc_signed neg m : length (enc_signed neg m) = form_length (chosen_form neg m).
Proof.
  unfold enc_signed. destruct (N.ltb_spec m two64) as [L|L].
  - destruct neg; [apply length_enc_neg_int | apply length_enc_pos_int]; exact L.
  - unfold chosen_form, enc_big_magnitude. unfold two64 in L.
    replace (m <=? 100) with false by (symmetry; apply N.leb_gt; lia). cbn [andb].
    replace (m <=? 255) with false by (symmetry; apply N.leb_gt; lia).
    replace (m <=? 65535) with false by (symmetry; apply N.leb_gt; lia).
    replace (m <=? 4294967295) with false by (symmetry; apply N.leb_gt; lia).
    replace (m <=? 281474976710655) with false by (symmetry; apply N.leb_gt; lia).
    replace (m <? two64) with false by (symmetry; apply N.ltb_ge; unfold two64; lia).
    cbn [length form_length]. rewrite app_length, uleb_encode_length, le_encode_length. lia.
Qed.

(* every form that can hold the value is at least as long as the chosen one *)
Lemma chosen_form_minimal neg m f :
  form_available neg m f -> (form_length (chosen_form neg m) <= form_length f)%nat.
Proof.
  intro Hf.
  assert (Hvar : forall n, m < 256 ^ N.of_nat n ->
                  (1 + uleb_len (N.of_nat (min_le_len m)) + min_le_len m <= 1 + uleb_len (N.of_nat n) + n)%nat).
  { intros n Hn. pose proof (min_le_len_le m n Hn) as L.
    pose proof (uleb_len_mono (N.of_nat (min_le_len m)) (N.of_nat n) ltac:(lia)). lia. }
  assert (Hvar_ge : forall n k, m < 256 ^ N.of_nat n -> 256 ^ N.of_nat k <= m -> (k < n)%nat).
  { intros n k Hn Hk. destruct (Nat.lt_ge_cases k n) as [L|L]; [exact L|].
    pose proof (pow256_mono _ _ L). lia. }
  pose proof (uleb_len_pos) as Hup.
  (* a fixed-width form: its width is one of 1, 2, 4, 8 and bounds m *)
  assert (Hfix : forall w, form_available neg m (FFix w) ->
                  (w = 1%nat /\ m < 256) \/ (w = 2%nat /\ m < 65536) \/ (w = 4%nat /\ m < 4294967296) \/
                  (w = 8%nat /\ m < 18446744073709551616)).
  { intros w [[<-|[<-|[<-|[<-|[]]]]] Hw].
    - rewrite pow256_1 in Hw. auto.
    - rewrite pow256_2 in Hw. auto.
    - rewrite pow256_4 in Hw. auto.
    - rewrite pow256_8 in Hw. auto 6. }
  unfold chosen_form.
  destruct (N.leb_spec m 100) as [H100|H100]; cbn [andb].
  - destruct (negb (neg && (m =? 0))) eqn:Hz.
    + (* small *) destruct f as [|w|n]; cbn [form_length]; [lia|lia|]. specialize (Hup (N.of_nat n)). lia.
    + (* negative zero: two bytes *)
      apply negb_false_iff, andb_true_iff in Hz as [-> Hm0]. apply N.eqb_eq in Hm0. subst m.
      replace (0 <=? 255) with true by reflexivity. cbn [form_length].
      destruct f as [|w|n].
      * destruct Hf as [_ C]. exfalso. apply C. split; reflexivity.
      * destruct (Hfix w Hf) as [[-> _]|[[-> _]|[[-> _]|[-> _]]]]; cbn [form_length]; lia.
      * cbn [form_length]. specialize (Hup (N.of_nat n)). lia.
  - destruct (N.leb_spec m 255) as [H8|H8].
    { cbn [form_length]. destruct f as [|w|n].
      - destruct Hf as [C _]. lia.
      - destruct (Hfix w Hf) as [[-> ?]|[[-> ?]|[[-> ?]|[-> ?]]]]; cbn [form_length]; lia.
      - cbn [form_available form_length] in *.
        pose proof (Hvar_ge n 0%nat Hf ltac:(change (256 ^ N.of_nat 0) with 1; lia)).
        specialize (Hup (N.of_nat n)). lia. }
    destruct (N.leb_spec m 65535) as [H16|H16].
    { cbn [form_length]. destruct f as [|w|n].
      - destruct Hf as [C _]. lia.
      - destruct (Hfix w Hf) as [[-> ?]|[[-> ?]|[[-> ?]|[-> ?]]]]; cbn [form_length]; lia.
      - cbn [form_available form_length] in *.
        pose proof (Hvar_ge n 1%nat Hf ltac:(rewrite pow256_1; lia)).
        specialize (Hup (N.of_nat n)). lia. }
    destruct (N.leb_spec m 4294967295) as [H32|H32].
    { cbn [form_length]. destruct f as [|w|n].
      - destruct Hf as [C _]. lia.
      - destruct (Hfix w Hf) as [[-> ?]|[[-> ?]|[[-> ?]|[-> ?]]]]; cbn [form_length]; lia.
      - cbn [form_available form_length] in *.
        pose proof (Hvar_ge n 2%nat Hf ltac:(rewrite pow256_2; lia)).
        specialize (Hup (N.of_nat n)). lia. }
    destruct (N.leb_spec m 281474976710655) as [H48|H48].
    { cbn [form_length].
      assert (L6 : (min_le_len m <= 6)%nat) by (apply min_le_len_le; rewrite pow256_6; lia).
      destruct f as [|w|n].
      - destruct Hf as [C _]. lia.
      - rewrite uleb_len_1 by lia.
        destruct (Hfix w Hf) as [[-> ?]|[[-> ?]|[[-> ?]|[-> ?]]]]; cbn [form_length]; lia.
      - apply Hvar. exact Hf. }
    destruct (N.ltb_spec m two64) as [H64|H64].
    { cbn [form_length]. destruct f as [|w|n].
      - destruct Hf as [C _]. lia.
      - destruct (Hfix w Hf) as [[-> ?]|[[-> ?]|[[-> ?]|[-> ?]]]]; cbn [form_length]; lia.
      - cbn [form_available form_length] in *.
        pose proof (Hvar_ge n 6%nat Hf ltac:(rewrite pow256_6; lia)).
        specialize (Hup (N.of_nat n)). lia. }
    cbn [form_length]. unfold two64 in H64. destruct f as [|w|n].
    + destruct Hf as [C _]. lia.
    + destruct (Hfix w Hf) as [[-> ?]|[[-> ?]|[[-> ?]|[-> ?]]]]; cbn [form_length]; lia.
    + apply Hvar. exact Hf.
Qed.

(* Main statement, for every sign and magnitude (no size bound): the encoder's
   output has the length of an available form, and no available form is shorter. *)
Theorem int_minimal neg m :
  form_available neg m (chosen_form neg m) /\
  length (enc_signed neg m) = form_length (chosen_form neg m) /\
  forall f, form_available neg m f -> (length (enc_signed neg m) <= form_length f)%nat.
Proof.
  split; [apply chosen_form_available|]. split; [apply length_enc_signed|].
  intros f Hf. rewrite length_enc_signed. apply chosen_form_minimal. exact Hf.
Qed.

(* The menu as an explicit list: the small form, the four fixed widths, and the
   variable-length form with every byte count the decoder accepts (0..1024),
   each kept only if it can hold the value; paired with its length. *)
Definition form_availableb (neg : bool) (m : N) (f : int_form) : bool :=
  match f with
  | FSmall => (m <=? 100) && negb (neg && (m =? 0))
  | FFix w => m <? 256 ^ N.of_nat w
  | FVar n => m <? 256 ^ N.of_nat n
  end.

Definition all_forms : list int_form :=
  FSmall :: FFix 1 :: FFix 2 :: FFix 4 :: FFix 8 :: map FVar (seq 0 1025).

Definition int_menu (neg : bool) (m : N) : list (int_form * nat) :=
  map (fun f => (f, form_length f)) (filter (form_availableb neg m) all_forms).

Definition list_min (l : list nat) : option nat :=
  match l with
  | [] => None
  | x :: r => Some (fold_left Nat.min r x)
  end.

Lemma fold_left_min_le l x : (fold_left Nat.min l x <= x)%nat.
Proof. revert x; induction l as [|y l IH]; intro x; cbn [fold_left]; [lia|]. specialize (IH (Nat.min x y)). lia. Qed.

Lemma fold_left_min_le_in l x y : In y l -> (fold_left Nat.min l x <= y)%nat.
Proof.
  revert x; induction l as [|z l IH]; intros x H; [destruct H|].
  cbn [fold_left]. destruct H as [->|H].
  - pose proof (fold_left_min_le l (Nat.min x y)). lia.
  - apply IH. exact H.
Qed.

Lemma fold_left_min_in l x : fold_left Nat.min l x = x \/ In (fold_left Nat.min l x) l.
Proof.
  revert x; induction l as [|z l IH]; intro x; cbn [fold_left]; [left; reflexivity|].
  destruct (IH (Nat.min x z)) as [E|E].
  - rewrite E. destruct (Nat.min_spec x z) as [[_ ->]|[_ ->]]; [left; reflexivity | right; left; reflexivity].
  - right. right. exact E.
Qed.

(* characterisation: [v] is the minimum of a list *)
Lemma list_min_spec l v :
  In v l -> (forall y, In y l -> (v <= y)%nat) -> list_min l = Some v.
Proof.
  destruct l as [|x r]; intros Hin Hle; [destruct Hin|]. cbn [list_min]. f_equal.
  assert (A : (fold_left Nat.min r x <= v)%nat).
  { destruct Hin as [->|Hin]; [apply fold_left_min_le | apply fold_left_min_le_in; exact Hin]. }
  assert (B : (v <= fold_left Nat.min r x)%nat).
  { destruct (fold_left_min_in r x) as [E|E]; [rewrite E; apply Hle; left; reflexivity|].
    apply Hle. right. exact E. }
  lia.
Qed.

Lemma form_availableb_spec neg m f :
  In f all_forms -> (form_availableb neg m f = true <-> form_available neg m f).
Proof.
  intro Hin. destruct f as [|w|n]; cbn [form_availableb form_available].
  - rewrite andb_true_iff, N.leb_le, negb_true_iff, andb_false_iff. split.
    + intros [H1 H2]. split; [exact H1|]. intros [-> Hm]. subst m. destruct H2 as [H2|H2]; discriminate.
    + intros [H1 H2]. split; [exact H1|]. destruct neg; [|left; reflexivity].
      right. apply N.eqb_neq. intro C. apply H2. split; [reflexivity | exact C].
  - rewrite N.ltb_lt. split; [|intros [_ H]; exact H]. intro H. split; [|exact H].
    unfold all_forms in Hin. cbn [In] in Hin.
    destruct Hin as [C|[C|[C|[C|[C|C]]]]]; try discriminate; try (injection C as <-; cbn; auto 6).
    apply in_map_iff in C as (k & C & _). discriminate.
  - apply N.ltb_lt.
Qed.

Lemma FVar_in_all_forms n : (n <= 1024)%nat -> In (FVar n) all_forms.
Proof.
  intro H. unfold all_forms. do 5 right. apply in_map. apply in_seq. lia.
Qed.

Lemma chosen_form_in_all_forms neg m :
  m < 256 ^ N.of_nat 1024 -> In (chosen_form neg m) all_forms.
Proof.
  intro Hm. assert (L : (min_le_len m <= 1024)%nat) by (apply min_le_len_le; exact Hm).
  unfold chosen_form.
  destruct ((m <=? 100) && negb (neg && (m =? 0))); [left; reflexivity|].
  destruct (m <=? 255); [right; left; reflexivity|].
  destruct (m <=? 65535); [do 2 right; left; reflexivity|].
  destruct (m <=? 4294967295); [do 3 right; left; reflexivity|].
  destruct (m <=? 281474976710655); [apply FVar_in_all_forms; exact L|].
  destruct (m <? two64); [do 4 right; left; reflexivity|].
  apply FVar_in_all_forms; exact L.
Qed.

(* length of the encoding = minimum of the explicit menu, for every value the
   decoder's limit on the byte count (1024) lets the format express *)
Theorem int_minimal_menu neg m :
  m < 256 ^ N.of_nat 1024 ->
  list_min (map snd (int_menu neg m)) = Some (length (enc_signed neg m)).
Proof.
  intro Hm. apply list_min_spec.
  - unfold int_menu. rewrite map_map. cbn [snd]. apply in_map_iff.
    exists (chosen_form neg m). split; [symmetry; apply length_enc_signed|].
    apply filter_In. split; [apply chosen_form_in_all_forms; exact Hm|].
    apply form_availableb_spec; [apply chosen_form_in_all_forms; exact Hm|].
    apply chosen_form_available.
  - intros y Hy. unfold int_menu in Hy. rewrite map_map in Hy. cbn [snd] in Hy.
    apply in_map_iff in Hy as (f & <- & Hf). apply filter_In in Hf as [Hin Hav].
    apply (proj2 (proj2 (int_minimal neg m))). apply form_availableb_spec; assumption.
Qed.

(* the event-level encoders are [enc_signed] *)
Lemma enc_pos_int_signed v : v < two64 -> enc_pos_int v = enc_signed false v.
Proof. intro H. unfold enc_signed. apply N.ltb_lt in H. rewrite H. reflexivity. Qed.

Lemma enc_neg_int_signed v : v < two64 -> enc_neg_int v = enc_signed true v.
Proof. intro H. unfold enc_signed. apply N.ltb_lt in H. rewrite H. reflexivity. Qed.

Lemma enc_int_signed z :
  is_i64 z = true -> enc_int z = enc_signed (z <? 0)%Z (Z.abs_N z).
Proof.
  unfold is_i64, enc_int. intro H. apply andb_true_iff in H as [H1 H2].
  apply Z.leb_le in H1. apply Z.ltb_lt in H2.
  destruct (Z.leb_spec 0 z) as [P|P].
  - replace (z <? 0)%Z with false by (symmetry; apply Z.ltb_ge; exact P).
    replace (Z.abs_N z) with (Z.to_N z) by lia.
    apply enc_pos_int_signed. unfold two64. lia.
  - replace (z <? 0)%Z with true by (symmetry; apply Z.ltb_lt; exact P).
    apply enc_neg_int_signed. unfold two64. lia.
Qed.

Lemma enc_big_int_signed z : enc_big_int z = enc_signed (z <? 0)%Z (Z.abs_N z).
Proof.
  unfold enc_big_int, enc_signed. cbv zeta.
  destruct (z <? 0)%Z; destruct (Z.abs_N z <? two64); reflexivity.
Qed.

(* ------------------------------------------------------------------ *)
(** * 2. Binary floats: narrowest exact width *)

Definition width_bytes (w : fwidth) : nat := match w with W16 => 2 | W32 => 4 | W64 => 8 end.
Definition width_code (w : fwidth) : N :=
  match w with W16 => cbeTypeFloat16 | W32 => cbeTypeFloat32 | W64 => cbeTypeFloat64 end.

(* exactly representable in the width (finite values; see FloatBitsProofs) *)
Definition repr_in (w : fwidth) (b : N) : Prop :=
  match w with W16 => repr16 b | W32 => repr32 b | W64 => True end.

Definition f64_ordinary (b : N) : bool :=
  negb (FloatBits.f64_is_inf b) && negb (FloatBits.f64_is_nan b) && negb (f64_is_zero b).

Lemma f64_ordinary_split b :
  f64_ordinary b = true ->
  FloatBits.f64_is_inf b = false /\ FloatBits.f64_is_nan b = false /\ f64_is_zero b = false.
Proof.
  unfold f64_ordinary. intro H. apply andb_true_iff in H as [H H3]. apply andb_true_iff in H as [H1 H2].
  apply negb_true_iff in H1, H2, H3. auto.
Qed.

Lemma enc_float_ordinary b :
  f64_ordinary b = true ->
  enc_float b = width_code (fst (float_encode b)) ::
                le_encode (width_bytes (fst (float_encode b))) (snd (float_encode b)).
Proof.
  intro H. apply f64_ordinary_split in H as (H1 & H2 & H3).
  unfold enc_float. rewrite H1, H2, H3. destruct (float_encode b) as [[| |] x]; reflexivity.
Qed.

(* The encoder writes type byte + the narrowest width that holds the value exactly. *)
Theorem float_narrowest b :
  b < 2 ^ 64 -> f64_ordinary b = true ->
  length (enc_float b) = S (width_bytes (float_width b)) /\
  repr_in (float_width b) b /\
  forall w, repr_in w b -> (width_bytes (float_width b) <= width_bytes w)%nat.
Proof.
  intros Hb Ho. rewrite (enc_float_ordinary b Ho), float_encode_width.
  split; [cbn [length]; rewrite le_encode_length; reflexivity|].
  pose proof (float_width_minimal b Hb) as M.
  destruct (float_width b); cbn [repr_in width_bytes].
  - split; [exact M|]. intros [| |] _; cbn; lia.
  - destruct M as [N16 R32]. split; [exact R32|]. intros [| |] Hw; cbn in *; try lia. contradiction.
  - destruct M as [N16 N32]. split; [exact I|]. intros [| |] Hw; cbn in *; try lia; contradiction.
Qed.

(* infinities and NaNs take three bytes (as a bfloat16 would), zeros one or two *)
Lemma enc_float_special_length b :
  f64_ordinary b = false -> (length (enc_float b) <= 3)%nat.
Proof.
  unfold f64_ordinary, enc_float. intro H.
  destruct (FloatBits.f64_is_inf b); [destruct (f64_sign b =? 1); vm_compute; lia|].
  destruct (FloatBits.f64_is_nan b); [destruct (negb (FloatBits.f64_quiet_bit b)); vm_compute; lia|].
  destruct (f64_is_zero b); [destruct (f64_sign b =? 1); vm_compute; lia|]. discriminate.
Qed.

(* ------------------------------------------------------------------ *)
(** * 3. Arrays: short headers *)

Definition array_info (t : N) : option (N * bool * bool) := nth_error cbeArrayInfo (N.to_nat t).

Definition has_short_form (t : N) : bool :=
  match array_info t with Some (_, has, _) => has | None => false end.

Definition short_header (t n : N) : bytes :=
  match array_info t with
  | Some (short, _, p7) => (if p7 then [cbeTypePlane7f] else []) ++ [N.lor (short mod 256) (n mod 256)]
  | None => []
  end.

(* writeSmallArrayHeader writes the short header iff the count allows it and the type has one *)
Lemma enc_small_header_spec t n :
  enc_small_header t n =
  if cbeMaxSmallArrayLength <? n then Some None
  else match array_info t with
       | None => None
       | Some _ => if has_short_form t then Some (Some (short_header t n)) else Some None
       end.
Proof.
  unfold enc_small_header, has_short_form, short_header, array_info.
  destruct (cbeMaxSmallArrayLength <? n); [reflexivity|].
  destruct (nth_error cbeArrayInfo (N.to_nat t)) as [[[short has] p7]|]; [|reflexivity].
  destruct has; reflexivity.
Qed.

Theorem array_header_short t n :
  n <= cbeMaxSmallArrayLength -> has_short_form t = true ->
  enc_whole_array_header t n = Some (short_header t n).
Proof.
  intros Hn Hs. unfold enc_whole_array_header. rewrite enc_small_header_spec.
  replace (cbeMaxSmallArrayLength <? n) with false by (symmetry; apply N.ltb_ge; exact Hn).
  unfold has_short_form in *. destruct (array_info t) as [[[short has] p7]|]; [|discriminate].
  rewrite Hs. reflexivity.
Qed.

Theorem array_header_long t n :
  cbeMaxSmallArrayLength < n \/ (has_short_form t = false /\ array_info t <> None) ->
  enc_whole_array_header t n =
  opt_map (fun h => h ++ uleb_encode (chunk_header n false)) (enc_array_header t).
Proof.
  intro H. unfold enc_whole_array_header. rewrite enc_small_header_spec.
  destruct (N.ltb_spec cbeMaxSmallArrayLength n) as [L|L].
  - destruct (enc_array_header t); reflexivity.
  - destruct H as [H|[Hs Hi]]; [lia|]. destruct (array_info t); [|contradiction].
    rewrite Hs. destruct (enc_array_header t); reflexivity.
Qed.

(* the short header is one byte for strings and two bytes (7f xn) for the typed arrays:
   shorter than any regular header, which needs the type code(s) and a chunk header *)
Lemma short_header_length t n :
  has_short_form t = true -> (1 <= length (short_header t n) <= 2)%nat.
Proof.
  unfold has_short_form, short_header. destruct (array_info t) as [[[short has] p7]|]; [|discriminate].
  intros _. destruct p7; cbn; lia.
Qed.

(* chunked API: the first chunk gets the short header exactly when it is final
   and a whole array of that type and count would get it *)
Theorem chunk_first_final t n :
  n < two64 ->
  cbe_encode_event {| es_array_type := t; es_try_small := true |} (EArrayChunk n false) =
  opt_map (fun h => ({| es_array_type := t; es_try_small := false |}, h)) (enc_whole_array_header t n).
Proof.
  intro Hn. unfold cbe_encode_event, enc_whole_array_header, guard, is_u64. cbn [es_array_type es_try_small].
  apply N.ltb_lt in Hn. rewrite Hn.
  destruct (enc_small_header t n) as [[h|]|]; try reflexivity.
  destruct (enc_array_header t); reflexivity.
Qed.

Theorem chunk_first_not_final t n :
  n < two64 ->
  cbe_encode_event {| es_array_type := t; es_try_small := true |} (EArrayChunk n true) =
  opt_map (fun h => ({| es_array_type := t; es_try_small := false |}, h ++ uleb_encode (chunk_header n true)))
          (enc_array_header t).
Proof.
  intro Hn. unfold cbe_encode_event, guard, is_u64. cbn [es_array_type es_try_small].
  apply N.ltb_lt in Hn. rewrite Hn. reflexivity.
Qed.

Theorem chunk_later st n more :
  n < two64 -> es_try_small st = false ->
  cbe_encode_event st (EArrayChunk n more) =
  Some ({| es_array_type := es_array_type st; es_try_small := false |}, uleb_encode (chunk_header n more)).
Proof.
  intros Hn Hs. unfold cbe_encode_event, guard, is_u64. apply N.ltb_lt in Hn. rewrite Hn, Hs. reflexivity.
Qed.

(* which types have a short form: exactly strings and the eleven plane-7f typed arrays (from the table) *)
Example short_form_types :
  filter has_short_form (nseq 0 256) =
  [cbeAT_String; cbeAT_Uint16; cbeAT_Uint32; cbeAT_Uint64; cbeAT_Int8; cbeAT_Int16; cbeAT_Int32; cbeAT_Int64;
   cbeAT_Float16; cbeAT_Float32; cbeAT_Float64; cbeAT_UID].
Proof. vm_compute. reflexivity. Qed.

(* ------------------------------------------------------------------ *)
(** * 4. The reader on encoder output *)

#[local] Arguments classify : simpl never.
#[local] Arguments classify7f : simpl never.
#[local] Arguments uleb_decode : simpl never.
#[local] Arguments uleb_decode_u64 : simpl never.
#[local] Arguments uleb_span : simpl never.
#[local] Arguments le_decode : simpl never.
#[local] Arguments firstn : simpl never.
#[local] Arguments skipn : simpl never.

Lemma len_nil : len [] = 0.
Proof. reflexivity. Qed.

Lemma len_cons x (r : bytes) : len (x :: r) = 1 + len r.
Proof. unfold len. cbn [length]. lia. Qed.

Lemma len_app (a b : bytes) : len (a ++ b) = len a + len b.
Proof. unfold len. rewrite app_length. lia. Qed.

Lemma len_le_encode n v : len (le_encode n v) = N.of_nat n.
Proof. unfold len. rewrite le_encode_length. reflexivity. Qed.

Lemma len_zero (d : bytes) : len d = 0 -> d = [].
Proof. unfold len. destruct d; [reflexivity|]. cbn [length]. lia. Qed.

Lemma firstn_len_app (d r : bytes) : firstn (N.to_nat (len d)) (d ++ r) = d.
Proof.
  unfold len. rewrite Nat2N.id, firstn_app, Nat.sub_diag, firstn_all.
  change (firstn 0 r) with (@nil N). apply app_nil_r.
Qed.

Lemma skipn_len_app (d r : bytes) : skipn (N.to_nat (len d)) (d ++ r) = r.
Proof.
  unfold len. rewrite Nat2N.id, skipn_app, Nat.sub_diag, skipn_all. reflexivity.
Qed.

(* the document size limit is not reached while [br] plus the unread input stays below it *)
Definition fits (cfg : dcfg) (br : N) (b : bytes) : Prop := br + len b <= max_doc_size cfg.

Lemma mark_ok cfg n br : br + n <= max_doc_size cfg -> mark cfg n br = Some (br + n).
Proof. intro H. unfold mark. replace (max_doc_size cfg <? br + n) with false; [reflexivity|]. symmetry. apply N.ltb_ge. exact H. Qed.

Lemma read_u8_ok cfg br x r :
  br + 1 <= max_doc_size cfg -> read_u8 cfg (br, x :: r) = Some (x, (br + 1, r)).
Proof. intro H. unfold read_u8. cbn [fst snd]. rewrite mark_ok by exact H. reflexivity. Qed.

Lemma read_bytes_ok cfg br n d r :
  len d = n -> br + n <= max_doc_size cfg ->
  read_bytes cfg n (br, d ++ r) = Some (d, (br + n, r)).
Proof.
  intros Hn H. unfold read_bytes. cbn [fst snd]. subst n.
  destruct (N.eqb_spec (len d) 0) as [E|E].
  - rewrite E, N.add_0_r. apply len_zero in E. subst d. reflexivity.
  - rewrite len_app. replace (len d + len r <? len d) with false by (symmetry; apply N.ltb_ge; lia).
    rewrite mark_ok by exact H. rewrite firstn_len_app, skipn_len_app. reflexivity.
Qed.

Lemma read_le_ok cfg br n v r :
  br + N.of_nat n <= max_doc_size cfg -> v < 256 ^ N.of_nat n ->
  read_le cfg n (br, le_encode n v ++ r) = Some (v, (br + N.of_nat n, r)).
Proof.
  intros H Hv. unfold read_le. rewrite (read_bytes_ok cfg br (N.of_nat n)) by (try apply len_le_encode; exact H).
  rewrite le_decode_encode_small by exact Hv. reflexivity.
Qed.

Lemma read_uleb_ok maxv br v r :
  v < two64 -> v <= maxv -> read_uleb maxv (br, uleb_encode v ++ r) = Some (v, (br, r)).
Proof.
  intros Hv Hm. unfold read_uleb. cbn [fst snd]. rewrite uleb_decode_u64_encode by exact Hv.
  replace (maxv <? v) with false by (symmetry; apply N.ltb_ge; exact Hm). reflexivity.
Qed.

Lemma read_identifier_ok cfg br id r :
  1 <= len id <= identifier_max_length -> br + len id <= max_doc_size cfg ->
  read_identifier cfg (br, enc_identifier id ++ r) = Some (id, (br + len id, r)).
Proof.
  intros [H1 H2] H. unfold read_identifier, enc_identifier. rewrite <- app_assoc.
  rewrite read_uleb_ok; [|unfold identifier_max_length, two64 in *; lia|exact H2].
  replace (len id =? 0) with false by (symmetry; apply N.eqb_neq; lia).
  apply read_bytes_ok; [reflexivity | exact H].
Qed.

(* [tok] decodes, in front of any continuation, to exactly the events [evs]. *)
Definition tok_ok (cfg : dcfg) (tok : bytes) (evs : list event) : Prop :=
  forall br rest, fits cfg br (tok ++ rest) ->
    exists br', dec_token cfg (br, tok ++ rest) = (evs, Some (br', rest)) /\ br' <= br + len tok.

Ltac norm_len_in H :=
  repeat (rewrite len_app in H || rewrite len_cons in H || rewrite len_le_encode in H || rewrite len_nil in H).
Ltac norm_len :=
  repeat (rewrite len_app || rewrite len_cons || rewrite len_le_encode || rewrite len_nil).

Ltac tok_start br rest Hfit :=
  intros br rest Hfit; unfold fits in Hfit; norm_len_in Hfit;
  unfold dec_token; cbn [app]; rewrite read_u8_ok by lia.

Ltac tok_done := eexists; split; [reflexivity | norm_len; lia].

(* ---- classification of the bytes the encoder writes ---- *)

Definition tkind_is_small (k : tkind) (z : Z) : bool :=
  match k with KSmallInt z' => (z' =? z)%Z | _ => false end.

Lemma classify_small_sweep :
  forallb (fun v => tkind_is_small (classify v) (Z.of_N v)) (nseq 0 101) = true.
Proof. vm_compute. reflexivity. Qed.

Lemma classify_small_neg_sweep :
  forallb (fun v => tkind_is_small (classify (256 - v)) (- Z.of_N v)) (nseq 1 100) = true.
Proof. vm_compute. reflexivity. Qed.

Lemma tkind_is_small_eq k z : tkind_is_small k z = true -> k = KSmallInt z.
Proof. destruct k; cbn; try discriminate. intro H. apply Z.eqb_eq in H. subst. reflexivity. Qed.

Lemma classify_small v : v <= 100 -> classify v = KSmallInt (Z.of_N v).
Proof.
  intro H. apply tkind_is_small_eq.
  pose proof classify_small_sweep as S. rewrite forallb_forall in S. apply S, nseq_In. cbn. lia.
Qed.

Lemma classify_small_neg v : 1 <= v <= 100 -> classify (256 - v) = KSmallInt (- Z.of_N v).
Proof.
  intro H. apply tkind_is_small_eq.
  pose proof classify_small_neg_sweep as S. rewrite forallb_forall in S. apply S, nseq_In. cbn. lia.
Qed.

Definition fix_code (neg : bool) (w : nat) : N :=
  match w, neg with
  | 1%nat, false => cbeTypePosInt8 | 1%nat, true => cbeTypeNegInt8
  | 2%nat, false => cbeTypePosInt16 | 2%nat, true => cbeTypeNegInt16
  | 4%nat, false => cbeTypePosInt32 | 4%nat, true => cbeTypeNegInt32
  | 8%nat, false => cbeTypePosInt64 | 8%nat, true => cbeTypeNegInt64
  | _, _ => 0
  end.

Lemma classify_fix neg w : In w [1; 2; 4; 8]%nat -> classify (fix_code neg w) = KFixInt neg w.
Proof. intros [<-|[<-|[<-|[<-|[]]]]]; destruct neg; reflexivity. Qed.

Definition var_code (neg : bool) : N := if neg then cbeTypeNegInt else cbeTypePosInt.

Lemma classify_var neg : classify (var_code neg) = KVarInt neg.
Proof. destruct neg; reflexivity. Qed.

(* ---- integer tokens ---- *)

Section Tokens.
Variable cfg : dcfg.

Lemma tok_small_pos v : v <= 100 -> tok_ok cfg [v] [EInt (Z.of_N v)].
Proof. intro H. tok_start br rest Hfit. rewrite classify_small by exact H. unfold tok_one. tok_done. Qed.

Lemma tok_small_neg v : 1 <= v <= 100 -> tok_ok cfg [256 - v] [EInt (- Z.of_N v)].
Proof. intro H. tok_start br rest Hfit. rewrite classify_small_neg by exact H. unfold tok_one. tok_done. Qed.

Lemma tok_fix neg w v :
  In w [1; 2; 4; 8]%nat -> v < 256 ^ N.of_nat w ->
  tok_ok cfg (fix_code neg w :: le_encode w v) [if neg then ENegInt v else EPosInt v].
Proof.
  intros Hw Hv. tok_start br rest Hfit. rewrite classify_fix by exact Hw.
  rewrite read_le_ok by (try exact Hv; lia). unfold tok_one. tok_done.
Qed.

Definition var_event (neg : bool) (n : nat) (v : N) : event :=
  if (n <=? 8)%nat then (if neg then ENegInt v else EPosInt v)
  else EBigInt (Some (if neg then (- Z.of_N v)%Z else Z.of_N v)).

Lemma max_bigint_bytes : cbeMaxBigIntBitCount / 8 = 1024.
Proof. reflexivity. Qed.

Lemma tok_var neg (n : nat) v :
  (n <= 1024)%nat -> v < 256 ^ N.of_nat n ->
  tok_ok cfg (var_code neg :: uleb_encode (N.of_nat n) ++ le_encode n v) [var_event neg n v].
Proof.
  intros Hn Hv. tok_start br rest Hfit. rewrite classify_var.
  unfold dec_var_int. rewrite max_bigint_bytes. rewrite <- app_assoc.
  rewrite read_uleb_ok by (unfold two64; lia).
  rewrite (read_bytes_ok cfg (br + 1) (N.of_nat n)) by (try apply len_le_encode; lia).
  rewrite le_decode_encode_small by exact Hv.
  unfold var_event.
  destruct (Nat.leb_spec n 8) as [L|L].
  - replace (N.of_nat n <=? 8) with true by (symmetry; apply N.leb_le; lia). destruct neg; tok_done.
  - replace (N.of_nat n <=? 8) with false by (symmetry; apply N.leb_gt; lia). destruct neg; tok_done.
Qed.

(* the event the decoder reports for an integer the encoder wrote *)
Definition signed_z (neg : bool) (m : N) : Z := if neg then (- Z.of_N m)%Z else Z.of_N m.

Definition norm_signed (neg : bool) (m : N) : event :=
  if (m <=? 100) && negb (neg && (m =? 0)) then EInt (signed_z neg m)
  else if m <? two64 then (if neg then ENegInt m else EPosInt m)
  else EBigInt (Some (signed_z neg m)).

Lemma tok_signed neg m :
  m < 256 ^ N.of_nat 1024 -> tok_ok cfg (enc_signed neg m) [norm_signed neg m].
Proof.
  intro Hm. unfold enc_signed, norm_signed.
  destruct (N.ltb_spec m two64) as [H64|H64].
  - unfold two64 in H64.
    assert (Hvar : 4294967295 < m -> m <= 281474976710655 ->
                   tok_ok cfg (var_code neg :: N.of_nat (min_le_len m) :: le_encode (min_le_len m) m)
                              [if neg then ENegInt m else EPosInt m]).
    { intros Lo Hi.
      assert (L6 : (min_le_len m <= 6)%nat) by (apply min_le_len_le; rewrite pow256_6; lia).
      pose proof (tok_var neg (min_le_len m) m ltac:(lia) (min_le_len_spec m)) as T.
      rewrite uleb_encode_small in T by lia. cbn [app] in T. unfold var_event in T.
      replace (min_le_len m <=? 8)%nat with true in T by (symmetry; apply Nat.leb_le; lia). exact T. }
    destruct neg; cbn [andb negb].
    + unfold enc_neg_int. int_consts.
      destruct (N.eqb_spec m 0) as [E0|E0]; cbn [negb andb].
      * subst m. rewrite andb_false_r. apply (tok_fix true 1 0); [left; reflexivity | rewrite pow256_1; lia].
      * rewrite andb_true_r. destruct (N.leb_spec m 100) as [H|H].
        { apply (tok_small_neg m). lia. }
        destruct (N.leb_spec m 255); [apply (tok_fix true 1 m); [cbn; auto | rewrite pow256_1; lia]|].
        destruct (N.leb_spec m 65535); [apply (tok_fix true 2 m); [cbn; auto | rewrite pow256_2; lia]|].
        destruct (N.leb_spec m 4294967295); [apply (tok_fix true 4 m); [cbn; auto | rewrite pow256_4; lia]|].
        destruct (N.leb_spec m 281474976710655); [apply Hvar; lia|].
        apply (tok_fix true 8 m); [cbn; auto 6 | rewrite pow256_8; lia].
    + unfold enc_pos_int. int_consts. rewrite andb_true_r.
      destruct (N.leb_spec m 100) as [H|H]; [apply (tok_small_pos m H)|].
      destruct (N.leb_spec m 255); [apply (tok_fix false 1 m); [cbn; auto | rewrite pow256_1; lia]|].
      destruct (N.leb_spec m 65535); [apply (tok_fix false 2 m); [cbn; auto | rewrite pow256_2; lia]|].
      destruct (N.leb_spec m 4294967295); [apply (tok_fix false 4 m); [cbn; auto | rewrite pow256_4; lia]|].
      destruct (N.leb_spec m 281474976710655); [apply Hvar; lia|].
      apply (tok_fix false 8 m); [cbn; auto 6 | rewrite pow256_8; lia].
  - unfold two64 in H64.
    replace (m <=? 100) with false by (symmetry; apply N.leb_gt; lia). cbn [andb].
    assert (L9 : (8 < min_le_len m)%nat) by (apply min_le_len_ge; rewrite pow256_8; lia).
    assert (L1024 : (min_le_len m <= 1024)%nat) by (apply min_le_len_le; exact Hm).
    pose proof (tok_var neg (min_le_len m) m L1024 (min_le_len_spec m)) as T.
    unfold var_event in T. replace (min_le_len m <=? 8)%nat with false in T by (symmetry; apply Nat.leb_gt; lia).
    unfold enc_big_magnitude, signed_z. destruct neg; exact T.
Qed.

End Tokens.
