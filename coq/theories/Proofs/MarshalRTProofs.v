(* C04 - lemmas about the typed builder (Model/MarshalRT.v): a marshaled value, delivered through
   the CBE forms of its events, is rebuilt as an equal value ([veq]) on the fragment [sup]; the
   constructs outside the fragment that the code does not bring back are refuted by evaluation. *)
From CE Require Import Model.MarshalRT Proofs.FloatBitsProofs.
From Coq Require Import ZifyN ZifyNat ZifyBool.
Open Scope N_scope.

#[local] Arguments N.pow : simpl never.
#[local] Arguments N.div : simpl never.
#[local] Arguments N.modulo : simpl never.
#[local] Arguments N.mul : simpl never.
#[local] Arguments N.add : simpl never.
#[local] Arguments N.sub : simpl never.
#[local] Arguments N.ltb : simpl never.
#[local] Arguments N.leb : simpl never.
#[local] Arguments N.eqb : simpl never.
#[local] Arguments Z.pow : simpl never.
#[local] Arguments Z.mul : simpl never.
#[local] Arguments Z.sub : simpl never.
#[local] Arguments Z.add : simpl never.
#[local] Arguments Z.ltb : simpl never.
#[local] Arguments Z.leb : simpl never.
#[local] Arguments Z.eqb : simpl never.
#[local] Arguments le_encode : simpl never.
#[local] Arguments le_decode : simpl never.

(* induction over values with the nested lists opened (as in Proofs/IterateProofs.v) *)
Section GvalIndC04.
  Variable P : gval -> Prop.
  Hypothesis HBool : forall b, P (VBool b).
  Hypothesis HInt : forall z, P (VInt z).
  Hypothesis HUint : forall n, P (VUint n).
  Hypothesis HF32 : forall w, P (VF32 w).
  Hypothesis HF64 : forall b, P (VF64 b).
  Hypothesis HString : forall s, P (VString s).
  Hypothesis HNum : forall sk k es, P (VNum sk k es).
  Hypothesis HBools : forall sk l, P (VBools sk l).
  Hypothesis HSlice : forall a es, Forall P es -> P (VSlice a es).
  Hypothesis HNilSlice : P VNilSlice.
  Hypothesis HArray : forall es, Forall P es -> P (VArray es).
  Hypothesis HMap : forall a kvs, Forall (fun kv => P (fst kv) /\ P (snd kv)) kvs -> P (VMap a kvs).
  Hypothesis HNilMap : P VNilMap.
  Hypothesis HPtr : forall a p, P p -> P (VPtr a p).
  Hypothesis HNilPtr : P VNilPtr.
  Hypothesis HOPtr : forall p, P p -> P (VOPtr p).
  Hypothesis HIface : forall p, P p -> P (VIface p).
  Hypothesis HNilIface : P VNilIface.
  Hypothesis HStruct : forall sid fs, Forall (fun iv => P (snd iv)) fs -> P (VStruct sid fs).
  Hypothesis HTime : forall z t, P (VTime z t).
  Hypothesis HUrl : forall z t, P (VUrl z t).
  Hypothesis HBigInt : forall z x, P (VBigInt z x).
  Hypothesis HBigFloat : forall z x, P (VBigFloat z x).
  Hypothesis HBigDec : forall z x, P (VBigDec z x).
  Hypothesis HDFloat : forall z x, P (VDFloat z x).
  Hypothesis HUid : forall b, P (VUid b).
  Hypothesis HMedia : forall z mt d, P (VMedia z mt d).
  Hypothesis HNode : forall x ch, P x -> P ch -> P (VNode x ch).
  Hypothesis HEdge : forall a b c, P a -> P b -> P c -> P (VEdge a b c).

  Fixpoint gval_ind4 (v : gval) : P v :=
    match v with
    | VBool b => HBool b
    | VInt z => HInt z
    | VUint n => HUint n
    | VF32 w => HF32 w
    | VF64 b => HF64 b
    | VString s => HString s
    | VNum sk k es => HNum sk k es
    | VBools sk l => HBools sk l
    | VSlice a es =>
        HSlice a es ((fix go (l : list gval) : Forall P l :=
                        match l with [] => Forall_nil _ | x :: r => Forall_cons _ (gval_ind4 x) (go r) end) es)
    | VNilSlice => HNilSlice
    | VArray es =>
        HArray es ((fix go (l : list gval) : Forall P l :=
                      match l with [] => Forall_nil _ | x :: r => Forall_cons _ (gval_ind4 x) (go r) end) es)
    | VMap a kvs =>
        HMap a kvs ((fix go (l : list (gval * gval)) : Forall (fun kv => P (fst kv) /\ P (snd kv)) l :=
                       match l with
                       | [] => Forall_nil _
                       | kv :: r => Forall_cons _ (conj (gval_ind4 (fst kv)) (gval_ind4 (snd kv))) (go r)
                       end) kvs)
    | VNilMap => HNilMap
    | VPtr a p => HPtr a p (gval_ind4 p)
    | VNilPtr => HNilPtr
    | VOPtr p => HOPtr p (gval_ind4 p)
    | VIface p => HIface p (gval_ind4 p)
    | VNilIface => HNilIface
    | VStruct sid fs =>
        HStruct sid fs ((fix go (l : list (finfo * gval)) : Forall (fun iv => P (snd iv)) l :=
                           match l with [] => Forall_nil _ | iv :: r => Forall_cons _ (gval_ind4 (snd iv)) (go r) end) fs)
    | VTime z t => HTime z t
    | VUrl z t => HUrl z t
    | VBigInt z x => HBigInt z x
    | VBigFloat z x => HBigFloat z x
    | VBigDec z x => HBigDec z x
    | VDFloat z x => HDFloat z x
    | VUid b => HUid b
    | VMedia z mt d => HMedia z mt d
    | VNode x ch => HNode x ch (gval_ind4 x) (gval_ind4 ch)
    | VEdge a b c => HEdge a b c (gval_ind4 a) (gval_ind4 b) (gval_ind4 c)
    end.
End GvalIndC04.

Section Proofs.
Variable url_conv : bytes -> option bytes.
Variable time_conv : bytes -> option bytes.
Variable dec_bigfloat : dfloat -> option bigfloat.
Variable bigdec_bigfloat : dfloat -> option bigfloat.
Variable cfg : bcfg.

Notation conv' := (conv url_conv time_conv dec_bigfloat bigdec_bigfloat).
Notation on_scalar' := (on_scalar url_conv time_conv dec_bigfloat bigdec_bigfloat cfg).
Notation bstep' := (bstep url_conv time_conv dec_bigfloat bigdec_bigfloat cfg).
Notation brun' := (brun url_conv time_conv dec_bigfloat bigdec_bigfloat cfg).

(* ------------------------------------------------------------------ *)
(** * 1. Running event lists *)

Fixpoint run (st : bstate) (es : list event) : bres :=
  match es with
  | [] => ROk st
  | e :: r => match bstep' st e with ROk st1 => run st1 r | other => other end
  end.

Definition rbind (r : bres) (f : bstate -> bres) : bres :=
  match r with ROk st => f st | other => other end.

Lemma run_app a b st : run st (a ++ b) = rbind (run st a) (fun st1 => run st1 b).
Proof.
  revert st; induction a as [|e a IH]; intro st; cbn [app run rbind]; [reflexivity|].
  destruct (bstep' st e); cbn [rbind]; auto.
Qed.

Lemma brun_run es : forall st i, fst (brun' st es i) = run st es.
Proof.
  induction es as [|e r IH]; intros st i; cbn [brun run fst]; [reflexivity|].
  destruct (bstep' st e); cbn [fst]; auto.
Qed.

(* states that differ in the chunk registers only *)
Definition same_frames (a b : bstate) : Prop := bstack a = bstack b /\ bobject a = bobject b.
Lemma same_frames_refl a : same_frames a a. Proof. split; reflexivity. Qed.
Lemma same_frames_trans a b c : same_frames a b -> same_frames b c -> same_frames a c.
Proof. intros [A B] [C D]. split; congruence. Qed.
Lemma same_frames_chunk st d r m cb bits : same_frames st (with_chunk st d r m cb bits).
Proof. split; reflexivity. Qed.

(* ------------------------------------------------------------------ *)
(** * 2. Scalars and chunked arrays reach [on_scalar] *)

Lemma on_scalar_deliver st fr below t s x :
  bstack st = fr :: below -> slot_type fr = Some t -> conv' t s = COk x ->
  on_scalar' s st = deliver (bstack st) false x st.
Proof.
  intros Hs Ht Hc. unfold on_scalar. rewrite Hs.
  destruct fr as [t0|e acc|n e acc|k v kvs key|t0 cur next is_key|e|cm val|comps]; cbn [slot_type] in Ht.
  - injection Ht as <-. cbn [slot_type]. rewrite Hc. reflexivity.
  - injection Ht as <-. cbn [slot_type]. rewrite Hc. reflexivity.
  - injection Ht as <-. cbn [slot_type deliver]. rewrite Hc.
    match goal with |- context [if ?c then _ else _] => destruct c end; reflexivity.
  - injection Ht as <-. cbn [slot_type]. rewrite Hc. reflexivity.
  - destruct next as [[p ft]|]; [|destruct is_key; discriminate]. destruct is_key; [discriminate|].
    injection Ht as <-. cbn [slot_type]. rewrite Hc. reflexivity.
  - discriminate.
  - destruct cm; [discriminate|]. injection Ht as <-. cbn [slot_type]. rewrite Hc. reflexivity.
  - injection Ht as <-. cbn [slot_type]. rewrite Hc. reflexivity.
Qed.

Lemma data_rem r : r < two64 -> (r + two64 - r mod two64) mod two64 = 0.
Proof.
  intro H. rewrite (N.mod_small r) by exact H. replace (r + two64 - r) with two64 by lia.
  apply N.mod_same. unfold two64. lia.
Qed.

Lemma bres_eta (r : bres) : match r with ROk s => ROk s | RPanic => RPanic | ROut => ROut end = r.
Proof. destruct r; reflexivity. Qed.

Lemma array_form_run st t n d :
  t < AT_Count -> elem_bits_of t <> 0 ->
  blen d = elem_byte_count (elem_bits_of t) n -> blen d < two64 ->
  exists st1, same_frames st st1 /\ run st (cbe_array_form t n d) = on_scalar' (BArr t d) st1.
Proof.
  intros Ht Hb Hl Hlt. apply N.ltb_lt in Ht. apply N.eqb_neq in Hb.
  unfold cbe_array_form. destruct (cbe_short t n).
  - exists st. split; [apply same_frames_refl|]. cbn [run bstep event_scalar]. apply bres_eta.
  - cbn [run bstep]. rewrite Ht.
    set (st_a := with_chunk st [] (crem st) (cmore st) (CBArray t) (elem_bits_of t)).
    unfold on_chunk. cbn [negb andb]. change (cbits st_a) with (elem_bits_of t). rewrite <- Hl.
    destruct d as [|x d'].
    + cbn [is_nil]. change (blen []) with 0. change (0 =? 0) with true. cbv iota. cbn [run].
      set (st_b := with_chunk st_a (cdata st_a) 0 false (ccb st_a) (elem_bits_of t)).
      exists st_b. split; [split; reflexivity|].
      unfold fire. change (ccb st_b) with (CBArray t). change (cdata st_b) with (@nil N).
      cbv iota. rewrite Hb. apply bres_eta.
    + cbn [is_nil].
      assert (Hnz : (blen (x :: d') =? 0) = false) by (apply N.eqb_neq; unfold blen; cbn [length]; lia).
      rewrite Hnz. cbn [run bstep].
      set (st_b := with_chunk st_a (cdata st_a) (blen (x :: d')) false (ccb st_a) (elem_bits_of t)).
      unfold on_data. change (cmore st_b) with false. change (crem st_b) with (blen (x :: d')).
      cbn [negb andb]. fold (blen (x :: d')). rewrite (data_rem _ Hlt).
      change (0 =? 0) with true. cbv iota.
      set (st_c := with_chunk st_b (cdata st_b ++ x :: d') 0 false (ccb st_b) (cbits st_b)).
      exists st_c. split; [split; reflexivity|].
      unfold fire. change (ccb st_c) with (CBArray t). change (cdata st_c) with (x :: d').
      cbv iota. rewrite Hb. apply bres_eta.
Qed.

Lemma elem_byte_count_8 n : n * 8 < two64 -> elem_byte_count 8 n = n.
Proof.
  intro H. unfold elem_byte_count. replace (8 =? 1) with false by reflexivity. cbn [andb].
  rewrite N.mod_small by exact H. apply N.div_mul. discriminate.
Qed.

Lemma media_form_run st mt d :
  blen d * 8 < two64 ->
  exists st1, same_frames st st1 /\
  run st (EMediaBegin mt :: EArrayChunk (Iterate.len d) false :: (if is_nil d then [] else [EArrayData d]))
  = on_scalar' (BMedia mt d) st1.
Proof.
  intros Hlt. cbn [run bstep].
  set (st_a := with_chunk st [] (crem st) (cmore st) (CBMedia mt) 8).
  unfold on_chunk. cbn [negb andb]. change (cbits st_a) with 8. unfold Iterate.len. fold (blen d).
  rewrite (elem_byte_count_8 _ Hlt).
  destruct d as [|x d'].
  - cbn [is_nil]. change (blen []) with 0. change (0 =? 0) with true. cbv iota. cbn [run].
    set (st_b := with_chunk st_a (cdata st_a) 0 false (ccb st_a) 8).
    exists st_b. split; [split; reflexivity|].
    unfold fire. change (ccb st_b) with (CBMedia mt). change (cdata st_b) with (@nil N).
    cbv iota. apply bres_eta.
  - cbn [is_nil].
    assert (Hnz : (blen (x :: d') =? 0) = false) by (apply N.eqb_neq; unfold blen; cbn [length]; lia).
    rewrite Hnz. cbn [run bstep].
    set (st_b := with_chunk st_a (cdata st_a) (blen (x :: d')) false (ccb st_a) 8).
    unfold on_data. change (cmore st_b) with false. change (crem st_b) with (blen (x :: d')).
    cbn [negb andb]. fold (blen (x :: d')).
    rewrite data_rem by (unfold two64 in *; lia).
    change (0 =? 0) with true. cbv iota.
    set (st_c := with_chunk st_b (cdata st_b ++ x :: d') 0 false (ccb st_b) (cbits st_b)).
    exists st_c. split; [split; reflexivity|].
    unfold fire. change (ccb st_c) with (CBMedia mt). change (cdata st_c) with (x :: d').
    cbv iota. apply bres_eta.
Qed.

(* a single event that is a scalar for the receiver *)
Lemma scalar_event_run st e s :
  event_scalar e = Some s ->
  match e with EList | EMap | ENode | EEdge | EEnd | EArrayBegin _ | EMediaBegin _ | EArrayChunk _ _ | EArrayData _
             | EBeginDoc | EEndDoc | EVersion _ | EPadding | EComment _ _ => False | _ => True end ->
  run st [e] = on_scalar' s st.
Proof.
  intros Hs Hk. cbn [run]. destruct e; try contradiction; cbn [bstep]; rewrite Hs; apply bres_eta.
Qed.

(* ------------------------------------------------------------------ *)
(** * 3. The fragment *)

Variable ic : icfg.
Hypothesis ic_records : c_records ic = [].

(* the events of a value as the builder receives them *)
Definition bevs (v : gval) : list event := flat_map cbe_form (plain ic v).

Definition key_type (t : gtype) : bool :=
  match t with TBool | TInt _ | TUint _ | TString | TUid => true | _ => false end.

(* the builder of type t answers Null *)
Fixpoint nullable (t : gtype) : bool :=
  match t with
  | TString | TPtr _ | TNumSlice _ _ | TCTime | TPUrl | TPBigInt | TPBigFloat | TPBigDec => true
  | TSlice e => nullable e
  | TArr n e => negb (n =? 0) && nullable e
  | TMap k _ => nullable k
  | _ => false
  end.

(* values written as Null *)
Fixpoint null_like (v : gval) : bool :=
  match v with
  | VNilSlice | VNilMap | VNilPtr | VNilIface => true
  | VTime _ x => bytes_eqb x zero_ctime_text
  | VPtr _ p | VOPtr p => null_like p
  | _ => false
  end.
Fixpoint container_like (v : gval) : bool :=
  match v with
  | VSlice _ _ | VArray _ | VMap _ _ | VStruct _ _ => true
  | VPtr _ p => container_like p
  | _ => false
  end.
Fixpoint media_like (v : gval) : bool :=
  match v with
  | VMedia _ _ _ => true
  | VPtr _ p => media_like p
  | _ => false
  end.

Fixpoint keys_distinct (l : list gval) : bool :=
  match l with
  | [] => true
  | k :: r => negb (existsb (gkey_eqb k) r) && keys_distinct r
  end.

Definition max_order : Z := 9223372036854775807%Z.
Definition bkey (name : bytes) : bytes := if b_case_insensitive cfg then field_ident name else name.

Definition opt_bytes_is (o : option bytes) (x : bytes) : bool :=
  match o with Some y => bytes_eqb y x | None => false end.

(* [sup t v]: the value v of type t lies in the fragment of the theorem.  Excluded, by name:
   - []int []uint [n]int [n]uint ([VNum] at [TSlice]/[TArr]), []bool [n]bool, slices of a named
     numeric element type: no builder accepts the typed array the marshaler writes; float32
     arrays holding a signalling NaN (the marshaler quiets it);
   - a nil slice / map whose element / key builder does not answer Null; a pointer to a value
     written as Null (nil slice, nil map, nil pointer, zero compact time); a pointer to a slice,
     map, or to a pointer to a container;
   - Edge (no end-container event), and everything held by an interface (Node included): the
     untyped builder gives other Go types back (covered by the correspondence only);
   - big.Float (library conversions);
   - struct types with embedded fields or order= tags (the marshaler's field sort is not followed
     here);
   and required: an omitted field holds a value [veq] to the zero value of its type; the emitted
   name of a kept field is answered by that field ([lookup_field]); map keys are of a keyable
   scalar type and pairwise different; url.Parse / AsGoTime give the value back ([url_conv],
   [time_conv] are the library); sizes below 2^61 bytes. *)
Fixpoint sup (t : gtype) (v : gval) {struct v} : bool :=
  match v with
  | VBool _ | VInt _ | VUint _ | VF32 _ | VF64 _ => true
  | VString s => blen s <? 2 ^ 61
  | VNum _ k es =>
      (match t with TNumSlice k' asg => asg || akind_eqb k' AU8 | TNumArr _ _ => true | _ => false end)
      && (Iterate.len es <? 2 ^ 58)
      && (match k with AF32 => forallb (fun z => negb (is_snan32 (elem_pattern AF32 z))) es | _ => true end)
  | VBools _ _ => false
  | VNilSlice => match t with TSlice e => nullable e | _ => false end
  | VSlice _ es => match t with TSlice e => forallb (sup e) es | _ => false end
  | VArray es => match t with TArr _ e => forallb (sup e) es | _ => false end
  | VNilMap => match t with TMap k _ => nullable k | _ => false end
  | VMap _ kvs =>
      match t with
      | TMap kt vt => key_type kt && forallb (fun kv => sup kt (fst kv) && sup vt (snd kv)) kvs
                      && keys_distinct (map fst kvs)
      | _ => false
      end
  | VNilPtr => true
  | VPtr _ p =>
      match t with
      | TPtr e => negb (null_like p)
                  && (if container_like p then addressable e else true) && sup e p
      | _ => false
      end
  | VOPtr p =>
      negb (null_like p) &&
      match t with
      | TPtr e => sup e p
      | TPUrl => sup TUrl p
      | TPBigInt => sup TBigInt p
      | TPBigDec => sup TBigDec p
      | _ => false
      end
  | VNilIface | VIface _ => false
  | VStruct _ fs =>
      match t with
      | TStruct _ fts =>
          forallb (fun iv => negb (f_anon (fst iv)) && (f_order (fst iv) =? max_order)%Z) fs &&
          (fix go (fs : list (finfo * gval)) (idx : nat) : bool :=
             match fs with
             | [] => true
             | (i, x) :: r =>
                 (if extractable i && should_include ic i (is_empty x) (is_value_zero x)
                  then (blen (field_name ic i) <? 2 ^ 61) &&
                       match lookup_field (flat_fields t []) (bkey (field_name ic i)) with
                       | LFound p ft' => list_eqb Nat.eqb p [idx] && has_type ft' x && sup ft' x
                       | _ => false
                       end
                  else match nth_error fts idx with
                       | Some (_, ft) => veq x (zero_of ft)
                       | None => false
                       end)
                 && go r (S idx)
             end) fs O
      | _ => false
      end
  | VTime _ x =>
      match t with
      | TTime => negb (bytes_eqb x zero_ctime_text) && opt_bytes_is (time_conv x) x
      | TCTime => true
      | _ => false
      end
  | VUrl _ x => opt_bytes_is (url_conv x) x && (blen x <? 2 ^ 61)
  | VBigInt _ _ => true
  | VBigFloat _ _ => false
  | VBigDec _ _ => true
  | VDFloat _ d => match d with DFin _ c _ => c <? p63 | _ => true end
  | VUid _ => true
  | VMedia _ _ d => blen d <? 2 ^ 61
  | VNode _ _ | VEdge _ _ _ => false
  end.

(* the value is delivered as one scalar *)
Definition scalar_like (v : gval) (s : bscalar) : Prop :=
  forall st, exists st1, same_frames st st1 /\ run st (bevs v) = on_scalar' s st1.

Definition SL (t : gtype) (v : gval) : Prop :=
  exists s v', scalar_like v s /\ conv' t s = COk v' /\ veq v v' = true /\ (s = BNull <-> null_like v = true)
               /\ ((exists mt d, s = BMedia mt d) <-> media_like v = true).

Definition begin_event (k : ckind) : event :=
  match k with KList => EList | KMap => EMap | KNode => ENode | KEdge => EEdge end.

(* the value is delivered as a container: its first event pushes the builders [frs], the rest
   runs on them and ends by handing the finished value to whoever is below *)
Definition CL (t : gtype) (v : gval) : Prop :=
  exists k frs v' rest,
    bevs v = begin_event k :: rest /\ begin_cont t k = GPush frs /\ veq v v' = true /\
    forall st S, exists st1, bstack st1 = S /\ bobject st1 = bobject st /\
                 run (with_stack st (frs ++ S)) rest = deliver S true v' st1.

Lemma scalar_like_single v e s :
  bevs v = [e] -> event_scalar e = Some s ->
  match e with EList | EMap | ENode | EEdge | EEnd | EArrayBegin _ | EMediaBegin _ | EArrayChunk _ _ | EArrayData _
             | EBeginDoc | EEndDoc | EVersion _ | EPadding | EComment _ _ => False | _ => True end ->
  scalar_like v s.
Proof.
  intros Hb Hs Hk st. exists st. split; [apply same_frames_refl|]. rewrite Hb. apply scalar_event_run; assumption.
Qed.

(* ------------------------------------------------------------------ *)
(** * 4. Leaves *)

Ltac not_null_media :=
  split; [split; [discriminate | intro; discriminate]
         | split; [intros (? & ? & ?); discriminate | intro; discriminate]].

Lemma sl_bool b : SL TBool (VBool b).
Proof.
  exists (BBool b), (VBool b). split; [|split; [reflexivity | split; [apply Bool.eqb_reflx | not_null_media]]].
  apply (scalar_like_single _ (if b then ETrue else EFalse)); [reflexivity | destruct b; reflexivity | destruct b; exact I].
Qed.

(* integers *)
Definition int_sc (z : Z) : bscalar :=
  if Z.abs_N z <=? 100 then BInt z
  else if Z.abs_N z <? two64 then
    (if (z <? 0)%Z then (if Z.abs_N z <=? max_i64 then BInt z else BBigInt z) else BUint (Z.to_N z))
  else BBigInt z.

Lemma int_form_scalar z :
  event_scalar (cbe_int_form (z <? 0)%Z (Z.abs_N z)) = Some (int_sc z) /\
  match cbe_int_form (z <? 0)%Z (Z.abs_N z) with EInt _ | EPosInt _ | ENegInt _ | EBigInt _ => True | _ => False end.
Proof.
  unfold cbe_int_form, int_sc.
  assert (Hz : (if (z <? 0)%Z then (- Z.of_N (Z.abs_N z))%Z else Z.of_N (Z.abs_N z)) = z) by (destruct (Z.ltb_spec z 0); lia).
  rewrite Hz.
  destruct (N.leb_spec (Z.abs_N z) 100) as [L|L]; cbn [andb].
  - assert (Hn : ((z <? 0)%Z && (Z.abs_N z =? 0)) = false).
    { destruct (Z.ltb_spec z 0); [|reflexivity]. cbn [andb]. apply N.eqb_neq. lia. }
    rewrite Hn. cbn [negb]. split; [reflexivity | exact I].
  - destruct (N.ltb_spec (Z.abs_N z) two64) as [L2|L2].
    + destruct (Z.ltb_spec z 0) as [Hneg|Hpos].
      * cbn [event_scalar]. replace (Z.abs_N z =? 0) with false by (symmetry; apply N.eqb_neq; lia).
        replace (- Z.of_N (Z.abs_N z))%Z with z by lia.
        destruct (Z.abs_N z <=? max_i64); split; try reflexivity; exact I.
      * cbn [event_scalar]. replace (Z.abs_N z) with (Z.to_N z) by lia. split; [reflexivity | exact I].
    + split; [reflexivity | exact I].
Qed.

Lemma sl_of_int_form v z :
  bevs v = [cbe_int_form (z <? 0)%Z (Z.abs_N z)] -> scalar_like v (int_sc z).
Proof.
  intro Hb. destruct (int_form_scalar z) as [H1 H2].
  apply (scalar_like_single _ _ _ Hb H1).
  destruct (cbe_int_form (z <? 0)%Z (Z.abs_N z)); try contradiction; exact I.
Qed.

Lemma int_sc_not_null z : int_sc z <> BNull /\ (forall mt d, int_sc z <> BMedia mt d).
Proof.
  unfold int_sc. repeat match goal with |- context [if ?c then _ else _] => destruct c end;
    split; try discriminate; intros; discriminate.
Qed.

Lemma fits_int_64 w z : fits_int w z = true -> fits_int W64 z = true.
Proof.
  unfold fits_int. intro H. apply andb_true_iff in H as [A B]. apply Z.leb_le in A. apply Z.ltb_lt in B.
  apply andb_true_iff. split; [apply Z.leb_le | apply Z.ltb_lt]; destruct w; cbn [wbits] in *;
    change (2 ^ (64 - 1))%Z with 9223372036854775808%Z;
    change (2 ^ (8 - 1))%Z with 128%Z in *; change (2 ^ (16 - 1))%Z with 32768%Z in *;
    change (2 ^ (32 - 1))%Z with 2147483648%Z in *; change (2 ^ (64 - 1))%Z with 9223372036854775808%Z in *; lia.
Qed.

Lemma fits_int_bounds z : fits_int W64 z = true -> (- 9223372036854775808 <= z < 9223372036854775808)%Z.
Proof.
  unfold fits_int. cbn [wbits]. change (2 ^ (64 - 1))%Z with 9223372036854775808%Z.
  intro H. apply andb_true_iff in H as [A B]. apply Z.leb_le in A. apply Z.ltb_lt in B. lia.
Qed.

Lemma conv_int_sc w z : fits_int w z = true -> conv_int w (int_sc z) = COk (VInt z).
Proof.
  intro H. pose proof (fits_int_bounds z (fits_int_64 w z H)) as Hb. unfold int_sc, max_i64, two64.
  destruct (Z.abs_N z <=? 100); cbn [conv_int]; [rewrite H; reflexivity|].
  destruct (N.ltb_spec (Z.abs_N z) 18446744073709551616) as [L|L]; [|lia].
  destruct (Z.ltb_spec z 0) as [Hneg|Hpos].
  - destruct (Z.abs_N z <=? 9223372036854775807); cbn [conv_int]; [rewrite H; reflexivity|].
    rewrite (fits_int_64 w z H), H. reflexivity.
  - cbn [conv_int]. unfold max_i64. replace (Z.to_N z <=? 9223372036854775807) with true by (symmetry; apply N.leb_le; lia).
    rewrite Z2N.id by lia. rewrite H. reflexivity.
Qed.

Lemma fits_uint_bounds w n : fits_uint w n = true -> n < two64.
Proof.
  unfold fits_uint, two64. intro H. apply Z.ltb_lt in H.
  assert (2 ^ wbits w <= 18446744073709551616)%Z by (destruct w; cbn [wbits]; [change (2^8)%Z with 256%Z | change (2^16)%Z with 65536%Z | change (2^32)%Z with 4294967296%Z | change (2^64)%Z with 18446744073709551616%Z]; lia).
  lia.
Qed.

Lemma conv_uint_sc w n : fits_uint w n = true -> conv_uint w (int_sc (Z.of_N n)) = COk (VUint n).
Proof.
  intro H. pose proof (fits_uint_bounds w n H) as Hb. unfold int_sc.
  rewrite N2Z.id. replace (Z.abs_N (Z.of_N n)) with n by lia.
  destruct (n <=? 100); cbn [conv_uint].
  - replace (0 <=? Z.of_N n)%Z with true by (symmetry; apply Z.leb_le; lia). rewrite N2Z.id, H. reflexivity.
  - destruct (N.ltb_spec n two64) as [L|L]; [|lia].
    replace (Z.of_N n <? 0)%Z with false by (symmetry; apply Z.ltb_ge; lia).
    cbn [conv_uint]. rewrite H. reflexivity.
Qed.

Lemma conv_bigint_sc z : conv_bigint (int_sc z) = COk (VBigInt false z).
Proof.
  unfold int_sc. destruct (Z.abs_N z <=? 100); [reflexivity|].
  destruct (Z.abs_N z <? two64); [|reflexivity].
  destruct (Z.ltb_spec z 0); [destruct (Z.abs_N z <=? max_i64); reflexivity|].
  cbn [conv_bigint]. rewrite Z2N.id by lia. reflexivity.
Qed.

Lemma sl_int w z : fits_int w z = true -> SL (TInt w) (VInt z).
Proof.
  intro H. exists (int_sc z), (VInt z).
  split; [apply sl_of_int_form; reflexivity|].
  split; [apply conv_int_sc; exact H|].
  split; [cbn [veq]; apply Z.eqb_refl|].
  destruct (int_sc_not_null z) as [A B].
  split; [split; [intro E; contradiction | intro; discriminate]
         | split; [intros (mt & d & E); exfalso; exact (B mt d E) | intro; discriminate]].
Qed.

Lemma abs_of_N n : Z.abs_N (Z.of_N n) = n. Proof. lia. Qed.
Lemma neg_of_N n : (Z.of_N n <? 0)%Z = false. Proof. apply Z.ltb_ge. lia. Qed.

Lemma sl_uint w n : fits_uint w n = true -> SL (TUint w) (VUint n).
Proof.
  intro H. exists (int_sc (Z.of_N n)), (VUint n).
  split.
  { apply sl_of_int_form. rewrite abs_of_N, neg_of_N. reflexivity. }
  split; [apply conv_uint_sc; exact H|].
  split; [cbn [veq]; apply N.eqb_refl|].
  destruct (int_sc_not_null (Z.of_N n)) as [A B].
  split; [split; [intro E; contradiction | intro; discriminate]
         | split; [intros (mt & d & E); exfalso; exact (B mt d E) | intro; discriminate]].
Qed.

Lemma sl_bigint fl z : SL TBigInt (VBigInt fl z).
Proof.
  exists (int_sc z), (VBigInt false z).
  split; [apply sl_of_int_form; reflexivity|].
  split; [apply conv_bigint_sc|].
  split; [cbn [veq]; apply Z.eqb_refl|].
  destruct (int_sc_not_null z) as [A B].
  split; [split; [intro E; contradiction | intro; discriminate]
         | split; [intros (mt & d & E); exfalso; exact (B mt d E) | intro; discriminate]].
Qed.

(* floats *)
Lemma f64_bits_of_fields b s e m :
  b < 2 ^ 64 -> FloatBits.f64_sign b = s -> FloatBits.f64_expo b = e -> FloatBits.f64_mant b = m -> b = FloatBits.f64_make s e m.
Proof.
  intros Hb <- <- <-. exact (proj2 (proj2 (proj2 (f64_decompose b Hb)))).
Qed.

Definition f64_sc (b : N) : bscalar :=
  if FloatBits.f64_is_inf b then BDec (DInf (FloatBits.f64_sign b =? 1))
  else if FloatBits.f64_is_nan b then BFloat (if negb (FloatBits.f64_quiet_bit b) then bsignaling_nan_bits else bquiet_nan_bits)
  else if FloatBits.f64_is_zero b then (if FloatBits.f64_sign b =? 1 then BFloat neg_zero64 else BInt 0)
  else BFloat b.

Lemma float_form_scalar b :
  event_scalar (cbe_float_form b) = Some (f64_sc b) /\
  match cbe_float_form b with EDecimal _ | ENan _ | ENegInt _ | EInt _ | EFloat _ => True | _ => False end.
Proof.
  unfold cbe_float_form, f64_sc.
  destruct (FloatBits.f64_is_inf b); [split; [reflexivity | exact I]|].
  destruct (FloatBits.f64_is_nan b); [split; [reflexivity | exact I]|].
  destruct (FloatBits.f64_is_zero b); [|split; [reflexivity | exact I]].
  destruct (FloatBits.f64_sign b =? 1); split; try reflexivity; exact I.
Qed.

Lemma sl_of_float_form v b : bevs v = [cbe_float_form b] -> scalar_like v (f64_sc b).
Proof.
  intro Hb. destruct (float_form_scalar b) as [H1 H2].
  apply (scalar_like_single _ _ _ Hb H1).
  destruct (cbe_float_form b); try contradiction; exact I.
Qed.

Lemma f64_sc_not_null b : f64_sc b <> BNull /\ (forall mt d, f64_sc b <> BMedia mt d).
Proof.
  unfold f64_sc. repeat match goal with |- context [if ?c then _ else _] => destruct c end;
    split; try discriminate; intros; discriminate.
Qed.

Lemma conv_f64_sc b :
  b < 2 ^ 64 ->
  conv_f64 (f64_sc b) = COk (VF64 (if FloatBits.f64_is_nan b then nan64 else b)).
Proof.
  intro Hb. destruct (f64_decompose b Hb) as (Hs & He & Hm & E).
  unfold f64_sc, FloatBits.f64_is_inf, FloatBits.f64_is_nan, FloatBits.f64_is_zero.
  destruct (N.eqb_spec (FloatBits.f64_expo b) 2047) as [E1|E1]; cbn [andb].
  - destruct (N.eqb_spec (FloatBits.f64_mant b) 0) as [E2|E2]; cbn [negb andb].
    + (* infinity *)
      cbn [conv_f64 dec_special_f64]. rewrite E at 2. rewrite E1, E2.
      assert (Hs' : FloatBits.f64_sign b = 0 \/ FloatBits.f64_sign b = 1) by lia.
      destruct Hs' as [S|S]; rewrite S; reflexivity.
    + (* NaN *)
      destruct (negb (FloatBits.f64_quiet_bit b)); reflexivity.
  - destruct (N.eqb_spec (FloatBits.f64_expo b) 0) as [E3|E3]; cbn [andb].
    + destruct (N.eqb_spec (FloatBits.f64_mant b) 0) as [E2|E2]; cbn [andb negb].
      * assert (Hs' : FloatBits.f64_sign b = 0 \/ FloatBits.f64_sign b = 1) by lia.
        rewrite E at 2. rewrite E3, E2.
        destruct Hs' as [S|S]; rewrite S; reflexivity.
      * cbn [conv_f64]. unfold FloatBits.f64_is_nan.
        replace (FloatBits.f64_expo b =? 2047) with false by (symmetry; apply N.eqb_neq; exact E1). reflexivity.
    + cbn [conv_f64]. unfold FloatBits.f64_is_nan.
      replace (FloatBits.f64_expo b =? 2047) with false by (symmetry; apply N.eqb_neq; exact E1). reflexivity.
Qed.

Lemma f64_veq_canon b : f64_veq b (if FloatBits.f64_is_nan b then nan64 else b) = true.
Proof.
  unfold f64_veq. destruct (FloatBits.f64_is_nan b) eqn:H; [reflexivity|]. cbn [andb orb]. apply N.eqb_refl.
Qed.

Lemma sl_f64 b : b < two64 -> SL TF64 (VF64 b).
Proof.
  intro H. exists (f64_sc b), (VF64 (if FloatBits.f64_is_nan b then nan64 else b)).
  split; [apply sl_of_float_form; reflexivity|].
  split; [apply conv_f64_sc; exact H|].
  split; [cbn [veq]; apply f64_veq_canon|].
  destruct (f64_sc_not_null b) as [A B].
  split; [split; [intro E; contradiction | intro; discriminate]
         | split; [intros (mt & d & E); exfalso; exact (B mt d E) | intro; discriminate]].
Qed.

Lemma widen32_eq w : FloatBits.f32_is_nan w = false -> widen32 w = FloatBits.f32_widen w.
Proof.
  unfold FloatBits.f32_is_nan, widen32, FloatBits.f32_widen. intro H.
  change (w32_expo w) with (FloatBits.f32_expo w). change (w32_mant w) with (FloatBits.f32_mant w). change (w32_sign w) with (FloatBits.f32_sign w).
  destruct (FloatBits.f32_expo w =? 255); [|reflexivity].
  destruct (FloatBits.f32_mant w =? 0); [reflexivity | discriminate H].
Qed.

Lemma sl_f32_num w : w < 2 ^ 32 -> FloatBits.f32_is_nan w = false -> SL TF32 (VF32 w).
Proof.
  intros Hw Hn. set (b := FloatBits.f32_widen w).
  assert (Hb : b < 2 ^ 64) by (apply f32_widen_lt; exact Hw).
  assert (Hbn : FloatBits.f64_is_nan b = false) by (unfold b; rewrite widen_is_nan by exact Hw; exact Hn).
  exists (f64_sc b), (VF32 w).
  split.
  { apply sl_of_float_form. unfold bevs. cbn [plain walk fst flat_map cbe_form app]. rewrite (widen32_eq w Hn). reflexivity. }
  split.
  { unfold conv. unfold conv_f32. rewrite (conv_f64_sc b Hb), Hbn. unfold narrow_f32. rewrite Hbn.
    unfold b. rewrite (narrow32_widen w Hw Hn). reflexivity. }
  split; [cbn [veq]; unfold f32_veq; rewrite N.eqb_refl; apply orb_true_r|].
  destruct (f64_sc_not_null b) as [A B].
  split; [split; [intro E; contradiction | intro; discriminate]
         | split; [intros (mt & d & E); exfalso; exact (B mt d E) | intro; discriminate]].
Qed.

(* the widening of a float32 NaN is a float64 NaN *)
Lemma widen32_nan w :
  w < 2 ^ 32 -> FloatBits.f32_is_nan w = true ->
  FloatBits.f64_is_inf (widen32 w) = false /\ FloatBits.f64_is_nan (widen32 w) = true.
Proof.
  intros Hw Hn. destruct (f32_decompose w Hw) as (Hs & He & Hm & _).
  unfold FloatBits.f32_is_nan in Hn. apply andb_true_iff in Hn as [H1 H2].
  apply N.eqb_eq in H1. apply negb_true_iff in H2. apply N.eqb_neq in H2.
  unfold widen32. change (w32_expo w) with (FloatBits.f32_expo w). change (w32_mant w) with (FloatBits.f32_mant w).
  change (w32_sign w) with (FloatBits.f32_sign w).
  rewrite H1. change (255 =? 255) with true. cbv iota.
  replace (FloatBits.f32_mant w =? 0) with false by (symmetry; apply N.eqb_neq; exact H2).
  set (M := N.lor (FloatBits.f32_mant w * p29) p51).
  assert (HM0 : M <> 0).
  { unfold M. intro E. apply N.lor_eq_0_iff in E as [_ E]. discriminate E. }
  assert (HM : M < FloatBits.p2_52).
  { change FloatBits.p2_52 with (2 ^ 52). apply N.log2_lt_pow2; [lia|]. unfold M. rewrite N.log2_lor.
    change p51 with (2 ^ 51). rewrite N.log2_pow2 by lia. change p29 with (2 ^ 29).
    rewrite N.log2_mul_pow2 by lia.
    assert (N.log2 (FloatBits.f32_mant w) < 23) by (apply N.log2_lt_pow2; [lia | exact Hm]). lia. }
  change (mk64 (FloatBits.f32_sign w) 2047 M) with (FloatBits.f64_make (FloatBits.f32_sign w) 2047 M).
  destruct (f64_fields (FloatBits.f32_sign w) 2047 M Hs ltac:(lia) HM) as (_ & E1 & E2).
  unfold FloatBits.f64_is_inf, FloatBits.f64_is_nan. rewrite E1, E2.
  replace (M =? 0) with false by (symmetry; apply N.eqb_neq; exact HM0). split; reflexivity.
Qed.

Lemma sl_f32_nan w : w < 2 ^ 32 -> FloatBits.f32_is_nan w = true -> SL TF32 (VF32 w).
Proof.
  intros Hw Hn. destruct (widen32_nan w Hw Hn) as [Hi Hnan].
  set (s := BFloat (if negb (FloatBits.f64_quiet_bit (widen32 w)) then bsignaling_nan_bits else bquiet_nan_bits)).
  exists s, (VF32 nan32).
  split.
  { apply (scalar_like_single _ (ENan (negb (FloatBits.f64_quiet_bit (widen32 w))))); [| reflexivity | exact I].
    unfold bevs. cbn [plain walk fst flat_map cbe_form app]. unfold cbe_float_form. rewrite Hi, Hnan. reflexivity. }
  split; [unfold s; destruct (negb (FloatBits.f64_quiet_bit (widen32 w))); reflexivity|].
  split; [cbn [veq]; unfold f32_veq; rewrite Hn; reflexivity|].
  unfold s. split; [split; [discriminate | intro; discriminate] | split; [intros (? & ? & ?); discriminate | intro; discriminate]].
Qed.

Lemma sl_f32 w : w < 2 ^ 32 -> SL TF32 (VF32 w).
Proof.
  intro Hw. destruct (FloatBits.f32_is_nan w) eqn:Hn; [apply sl_f32_nan | apply sl_f32_num]; assumption.
Qed.

(* arrays in one event or in chunks *)
Lemma bevs_single v e : plain ic v = [e] -> bevs v = cbe_form e.
Proof. intro H. unfold bevs. rewrite H. cbn [flat_map]. apply app_nil_r. Qed.

Lemma sl_of_array_form v t n d :
  bevs v = cbe_array_form t n d ->
  t < AT_Count -> elem_bits_of t <> 0 -> blen d = elem_byte_count (elem_bits_of t) n -> blen d < two64 ->
  scalar_like v (BArr t d).
Proof.
  intros Hb H1 H2 H3 H4 st. rewrite Hb. apply array_form_run; assumption.
Qed.

Lemma pow61_8 n : n < 2 ^ 61 -> n * 8 < two64.
Proof. unfold two64. change (2 ^ 61) with 2305843009213693952. lia. Qed.

Lemma sl_string s : blen s < 2 ^ 61 -> SL TString (VString s).
Proof.
  intro H. exists (BArr AT_String s), (VString s).
  split.
  { apply (sl_of_array_form _ AT_String (Iterate.len s) s); [exact (bevs_single (VString s) (EStringArray AT_String s) eq_refl) | reflexivity | discriminate | |].
    - change (elem_bits_of AT_String) with 8. symmetry. apply elem_byte_count_8. apply pow61_8. exact H.
    - pose proof (pow61_8 _ H). lia. }
  split; [reflexivity|].
  split; [cbn [veq]; apply bytes_eqb_eq; reflexivity | not_null_media].
Qed.

Lemma sl_url fl x : opt_bytes_is (url_conv x) x = true -> blen x < 2 ^ 61 -> SL TUrl (VUrl fl x).
Proof.
  intros Hu H. exists (BArr AT_ResourceID x), (VUrl false x).
  split.
  { apply (sl_of_array_form _ AT_ResourceID (Iterate.len x) x); [exact (bevs_single (VUrl fl x) (EStringArray AT_ResourceID x) eq_refl) | reflexivity | discriminate | |].
    - change (elem_bits_of AT_ResourceID) with 8. symmetry. apply elem_byte_count_8. apply pow61_8. exact H.
    - pose proof (pow61_8 _ H). lia. }
  split.
  { cbn [conv conv_url]. change (AT_ResourceID =? AT_ResourceID) with true. cbv iota.
    unfold opt_bytes_is in Hu. destruct (url_conv x) as [y|]; [|discriminate].
    apply bytes_eqb_eq in Hu. subst y. reflexivity. }
  split; [cbn [veq]; apply bytes_eqb_eq; reflexivity | not_null_media].
Qed.

Lemma sl_media fl mt d : blen d < 2 ^ 61 -> SL TMedia (VMedia fl mt d).
Proof.
  intro H. exists (BMedia mt d), (VMedia false mt d).
  split.
  { intro st. rewrite (bevs_single _ (EMedia mt d)) by reflexivity. apply media_form_run. apply pow61_8. exact H. }
  split; [reflexivity|].
  split.
  { cbn [veq]. apply andb_true_iff. split; apply bytes_eqb_eq; reflexivity. }
  split; [split; [discriminate | intro; discriminate]|].
  split; [reflexivity | intros _; exists mt, d; reflexivity].
Qed.

Lemma sl_uid b : (length b =? 16)%nat = true -> SL TUid (VUid b).
Proof.
  intro H. exists (BUid b), (VUid b).
  split; [apply (scalar_like_single _ (EUid b)); [reflexivity | reflexivity | exact I]|].
  split; [cbn [conv]; rewrite H; reflexivity|].
  split; [cbn [veq]; apply bytes_eqb_eq; reflexivity | not_null_media].
Qed.

(* times *)
Lemma sl_time fl x :
  bytes_eqb x zero_ctime_text = false -> opt_bytes_is (time_conv x) x = true -> SL TTime (VTime fl x).
Proof.
  intros Hz Ht. exists (BTime x), (VTime false x).
  split.
  { apply (scalar_like_single _ (ETime x)); [|reflexivity | exact I].
    unfold bevs. cbn [plain walk fst flat_map cbe_form app]. rewrite Hz. reflexivity. }
  split.
  { cbn [conv conv_time]. unfold opt_bytes_is in Ht. destruct (time_conv x) as [y|]; [|discriminate].
    apply bytes_eqb_eq in Ht. subst y. reflexivity. }
  split; [cbn [veq]; apply bytes_eqb_eq; reflexivity|].
  split; [split; [discriminate | cbn [null_like]; rewrite Hz; discriminate]|].
  split; [intros (? & ? & ?); discriminate | intro; discriminate].
Qed.

Lemma sl_ctime fl x : SL TCTime (VTime fl x).
Proof.
  destruct (bytes_eqb x zero_ctime_text) eqn:Hz.
  - exists BNull, (VTime true zero_ctime_text).
    split.
    { apply (scalar_like_single _ ENull); [|reflexivity | exact I].
      unfold bevs. cbn [plain walk fst flat_map cbe_form app]. rewrite Hz. reflexivity. }
    split; [reflexivity|].
    split; [cbn [veq]; exact Hz|].
    split; [split; [intros _; cbn [null_like]; exact Hz | reflexivity]|].
    split; [intros (? & ? & ?); discriminate | intro; discriminate].
  - exists (BTime x), (VTime false x).
    split.
    { apply (scalar_like_single _ (ETime x)); [|reflexivity | exact I].
      unfold bevs. cbn [plain walk fst flat_map cbe_form app]. rewrite Hz. reflexivity. }
    split; [reflexivity|].
    split; [cbn [veq]; apply bytes_eqb_eq; reflexivity|].
    split; [split; [discriminate | cbn [null_like]; rewrite Hz; discriminate]|].
    split; [intros (? & ? & ?); discriminate | intro; discriminate].
Qed.

(* Null *)
Lemma nullable_conv t : nullable t = true -> exists z, conv' t BNull = COk z.
Proof.
  induction t; cbn [nullable]; intro H; try discriminate; try (eexists; reflexivity).
  - (* TSlice *) destruct (IHt H) as [z Hz]. eexists. cbn [conv]. rewrite Hz. reflexivity.
  - (* TArr *) apply andb_true_iff in H as [H1 H2]. destruct (IHt H2) as [z Hz]. eexists. cbn [conv].
    apply negb_true_iff in H1. rewrite H1, Hz. reflexivity.
  - (* TMap *) destruct (IHt1 H) as [z Hz]. eexists. cbn [conv]. rewrite Hz. reflexivity.
Qed.

Lemma sl_null_event v : bevs v = [ENull] -> scalar_like v BNull.
Proof. intro H. apply (scalar_like_single _ ENull); [exact H | reflexivity | exact I]. Qed.


(* typed arrays *)
Lemma skipn_len_app' {A} (a b : list A) : skipn (length a) (a ++ b) = b.
Proof. induction a; cbn; auto. Qed.
Lemma firstn_len_app' {A} (a b : list A) : firstn (length a) (a ++ b) = a.
Proof. induction a; cbn; [reflexivity | f_equal; assumption]. Qed.

Lemma split_elems_flat w (f : Z -> bytes) es :
  (0 < w)%nat -> (forall z, length (f z) = w) ->
  forall fuel, (length (flat_map f es) <= fuel)%nat ->
  split_elems w fuel (flat_map f es) = map (fun z => le_decode (f z)) es.
Proof.
  intros Hw Hf. induction es as [|z es IH]; intros fuel Hfuel.
  - cbn [flat_map map]. destruct fuel; [reflexivity|]. cbn [split_elems length].
    replace (0 <? w)%nat with true by (symmetry; apply Nat.ltb_lt; lia). reflexivity.
  - cbn [flat_map map] in *. rewrite app_length, Hf in Hfuel.
    destruct fuel as [|fuel]; [lia|]. cbn [split_elems].
    rewrite app_length, Hf.
    replace (w + length (flat_map f es) <? w)%nat with false by (symmetry; apply Nat.ltb_ge; lia).
    assert (F : firstn w (f z ++ flat_map f es) = f z) by (rewrite <- (Hf z); apply firstn_len_app').
    assert (S : skipn w (f z ++ flat_map f es) = flat_map f es) by (rewrite <- (Hf z); apply skipn_len_app').
    rewrite F, S. f_equal. apply IH. lia.
Qed.

Lemma arr_elems_flat w (f : Z -> bytes) es :
  (0 < w)%nat -> (forall z, length (f z) = w) ->
  arr_elems w (flat_map f es) = map (fun z => le_decode (f z)) es.
Proof. intros Hw Hf. unfold arr_elems. apply split_elems_flat; auto. Qed.

Lemma width_pos k : (0 < width_of k)%nat. Proof. destruct k; cbn; lia. Qed.

Lemma elem_pattern_lt' k z : elem_pattern k z < 256 ^ N.of_nat (width_of k).
Proof.
  unfold elem_pattern.
  assert (Hb : forall M : Z, (0 < M)%Z -> (Z.to_N (z mod M) < Z.to_N M)) by
    (intros M HM; pose proof (Z.mod_pos_bound z M HM); lia).
  destruct k; cbn [width_of];
    match goal with |- Z.to_N (z mod ?M) < _ => apply (N.lt_le_trans _ _ _ (Hb M eq_refl)) end;
    vm_compute; discriminate.
Qed.

Lemma lor_pow2_set' x n : N.testbit x n = true -> N.lor x (2 ^ n) = x.
Proof.
  intro H. apply N.bits_inj. intro i. rewrite N.lor_spec, N.pow2_bits_eqb.
  destruct (N.eqb_spec n i) as [->|_]; [rewrite H; reflexivity | apply orb_false_r].
Qed.

Lemma elem_bytes_decode k z :
  (match k with AF32 => is_snan32 (elem_pattern AF32 z) = false | _ => True end) ->
  le_decode (Iterate.elem_bytes k z) = elem_pattern k z.
Proof.
  intro Hs. unfold Iterate.elem_bytes. fold (elem_pattern k z).
  assert (Hraw : (match k with AF32 => f32_through_f64 (elem_pattern k z) | _ => elem_pattern k z end) = elem_pattern k z).
  { destruct k; try reflexivity. unfold f32_through_f64. unfold is_snan32 in Hs.
    destruct (w32_is_nan (elem_pattern AF32 z)); [|reflexivity]. cbn [andb] in Hs.
    apply negb_false_iff in Hs. change p22 with (2 ^ 22). apply lor_pow2_set'. exact Hs. }
  rewrite Hraw. rewrite le_decode_encode. apply N.mod_small. apply elem_pattern_lt'.
Qed.

Lemma elem_bytes_length k z : length (Iterate.elem_bytes k z) = width_of k.
Proof. unfold Iterate.elem_bytes. apply le_encode_length. Qed.

Lemma blen_num_bytes' k es : blen (num_bytes k es) = Iterate.len es * N.of_nat (width_of k).
Proof.
  unfold blen, Iterate.len, num_bytes. induction es as [|z es IH]; cbn [flat_map length]; [lia|].
  rewrite app_length, elem_bytes_length. lia.
Qed.

Lemma elem_of_pattern_inv k z : in_range_elem k z = true -> elem_of_pattern k (elem_pattern k z) = z.
Proof.
  unfold in_range_elem, elem_of_pattern, elem_pattern. intro H.
  destruct k; cbn [width_of] in *; apply andb_true_iff in H as [A B]; apply Z.leb_le in A; apply Z.ltb_lt in B;
    repeat match goal with
           | H : context [(8 * Z.of_nat ?n)%Z] |- _ => let v := eval vm_compute in (8 * Z.of_nat n)%Z in change (8 * Z.of_nat n)%Z with v in H
           | |- context [(8 * Z.of_nat ?n)%Z] => let v := eval vm_compute in (8 * Z.of_nat n)%Z in change (8 * Z.of_nat n)%Z with v
           end;
    repeat match goal with
           | H : context [(2 ^ ?n)%Z] |- _ => let v := eval vm_compute in (2 ^ n)%Z in change (2 ^ n)%Z with v in H
           | |- context [(2 ^ ?n)%Z] => let v := eval vm_compute in (2 ^ n)%Z in change (2 ^ n)%Z with v
           end;
    try (rewrite Z.mod_small by lia; lia);
    match goal with |- context [(z mod ?M)%Z] =>
      pose proof (Z.mod_pos_bound z M eq_refl) as Hm;
      destruct (Z.ltb_spec z 0) as [Hn|Hp];
      [ assert (E : (z mod M = z + M)%Z) by (symmetry; apply (Z.mod_unique_pos _ _ (-1)%Z); lia); rewrite E
      | rewrite (Z.mod_small z M) by lia ]
    end;
    rewrite Z2N.id by lia;
    match goal with |- context [if ?c then _ else _] => destruct c eqn:Hc end;
    try apply Z.ltb_lt in Hc; try apply Z.ltb_ge in Hc; cbn in Hc; lia.
Qed.

Lemma akind_eqb_refl k : akind_eqb k k = true. Proof. destruct k; reflexivity. Qed.
Lemma akind_eqb_eq a b : akind_eqb a b = true -> a = b.
Proof. destruct a, b; cbn; intro H; try reflexivity; discriminate. Qed.

Definition af32_ok (k : akind) (es : list Z) : bool :=
  match k with AF32 => forallb (fun z => negb (is_snan32 (elem_pattern AF32 z))) es | _ => true end.

Lemma arr_elems_num_bytes k es :
  af32_ok k es = true -> arr_elems (width_of k) (num_bytes k es) = map (elem_pattern k) es.
Proof.
  intro H. unfold num_bytes. rewrite (arr_elems_flat _ _ _ (width_pos k) (elem_bytes_length k)).
  apply map_ext_in. intros z Hz. apply elem_bytes_decode.
  destruct k; try exact I. cbn [af32_ok] in H. rewrite forallb_forall in H. apply negb_true_iff. apply H. exact Hz.
Qed.

Lemma decode_slice_num_bytes k es :
  forallb (in_range_elem k) es = true -> af32_ok k es = true -> decode_slice k (num_bytes k es) = es.
Proof.
  intros Hr Ha. unfold decode_slice. rewrite (arr_elems_num_bytes k es Ha), map_map.
  rewrite <- (map_id es) at 2. apply map_ext_in. intros z Hz.
  apply elem_of_pattern_inv. rewrite forallb_forall in Hr. apply Hr. exact Hz.
Qed.

Lemma num_veq_refl k z : num_veq k z z = true.
Proof.
  destruct k; cbn [num_veq]; try apply Z.eqb_refl; unfold f32_veq, f64_veq; rewrite N.eqb_refl; apply orb_true_r.
Qed.
Lemma list_num_veq_refl k es : list_eqb (num_veq k) es es = true.
Proof. induction es as [|z es IH]; [reflexivity|]. cbn [list_eqb]. rewrite num_veq_refl, IH. reflexivity. Qed.

Lemma at_of_lt k : at_of k < AT_Count. Proof. destruct k; reflexivity. Qed.
Lemma elem_bits_at_of k : elem_bits_of (at_of k) = 8 * N.of_nat (width_of k). Proof. destruct k; reflexivity. Qed.
Lemma width_le8 k : 1 <= N.of_nat (width_of k) <= 8. Proof. destruct k; cbn [width_of]; lia. Qed.

Lemma elem_byte_count_w w n : 1 <= w -> n * (8 * w) < two64 -> elem_byte_count (8 * w) n = n * w.
Proof.
  intros Hw Hlt. unfold elem_byte_count.
  replace (8 * w =? 1) with false by (symmetry; apply N.eqb_neq; lia). cbn [andb].
  rewrite N.mod_small by exact Hlt.
  replace (n * (8 * w)) with (n * w * 8) by lia. apply N.div_mul. lia.
Qed.

Lemma sl_num_scalar sk k es :
  Iterate.len es < 2 ^ 58 -> scalar_like (VNum sk k es) (BArr (at_of k) (num_bytes k es)).
Proof.
  intro Hl. pose proof (width_le8 k) as Hw. change (2 ^ 58) with 288230376151711744 in Hl.
  apply (sl_of_array_form _ (at_of k) (Iterate.len es) (num_bytes k es)).
  - exact (bevs_single (VNum sk k es) (EArray (at_of k) (Iterate.len es) (num_bytes k es)) eq_refl).
  - apply at_of_lt.
  - rewrite elem_bits_at_of. lia.
  - rewrite elem_bits_at_of, blen_num_bytes'. symmetry. apply elem_byte_count_w; [lia|]. unfold two64. nia.
  - rewrite blen_num_bytes'. unfold two64. nia.
Qed.

Lemma sl_numslice sk k asg es :
  has_type (TNumSlice k asg) (VNum sk k es) = true -> sup (TNumSlice k asg) (VNum sk k es) = true ->
  SL (TNumSlice k asg) (VNum sk k es).
Proof.
  intros Ht Hs. cbn [has_type] in Ht. cbn [sup] in Hs.
  apply andb_true_iff in Ht as [Hr Ht]. apply andb_true_iff in Hs as [Hs Ha]. apply andb_true_iff in Hs as [Hasg Hl].
  apply N.ltb_lt in Hl.
  exists (BArr (at_of k) (num_bytes k es)), (VNum SSlice k es).
  split; [apply sl_num_scalar; exact Hl|].
  split.
  { cbn [conv conv_num_slice]. rewrite N.eqb_refl, Hasg, (decode_slice_num_bytes k es Hr Ha). reflexivity. }
  split.
  { cbn [veq]. rewrite akind_eqb_refl, list_num_veq_refl. destruct sk; try reflexivity. discriminate Ht. }
  not_null_media.
Qed.

Lemma arr_f32_veq es :
  forallb (in_range_elem AF32) es = true ->
  list_eqb (num_veq AF32) es (map arr_f32_elem (map (elem_pattern AF32) es)) = true.
Proof.
  induction es as [|z es IH]; [reflexivity|]. cbn [forallb map list_eqb]. intro H.
  apply andb_true_iff in H as [Hz Hr]. rewrite (IH Hr), andb_true_r.
  unfold in_range_elem in Hz. cbn [width_of] in Hz. change (2 ^ (8 * Z.of_nat 4))%Z with 4294967296%Z in Hz.
  apply andb_true_iff in Hz as [A B]. apply Z.leb_le in A. apply Z.ltb_lt in B.
  assert (E : elem_pattern AF32 z = Z.to_N z).
  { unfold elem_pattern. cbn [width_of]. change (2 ^ (8 * Z.of_nat 4))%Z with 4294967296%Z. rewrite Z.mod_small by lia. reflexivity. }
  rewrite E. unfold num_veq, arr_f32_elem.
  destruct (FloatBits.f32_is_nan (Z.to_N z)) eqn:Hn; rewrite N2Z.id; unfold f32_veq.
  - rewrite Hn. reflexivity.
  - rewrite N.eqb_refl. apply orb_true_r.
Qed.

Lemma sl_numarr k n es :
  has_type (TNumArr k n) (VNum SArr k es) = true -> sup (TNumArr k n) (VNum SArr k es) = true ->
  SL (TNumArr k n) (VNum SArr k es).
Proof.
  intros Ht Hs. cbn [has_type] in Ht. cbn [sup] in Hs.
  apply andb_true_iff in Ht as [Hr Ht]. apply andb_true_iff in Ht as [_ Hn]. apply N.eqb_eq in Hn.
  apply andb_true_iff in Hs as [Hs Ha]. apply andb_true_iff in Hs as [_ Hl]. apply N.ltb_lt in Hl.
  exists (BArr (at_of k) (num_bytes k es)), (VNum SArr k (decode_array k (num_bytes k es))).
  split; [apply sl_num_scalar; exact Hl|].
  assert (Hlen : length (decode_array k (num_bytes k es)) = length es).
  { unfold decode_array. destruct k; try (rewrite (decode_slice_num_bytes _ es Hr Ha); reflexivity).
    change 4%nat with (width_of AF32). rewrite (arr_elems_num_bytes AF32 es Ha), !map_length. reflexivity. }
  split.
  { cbn [conv conv_num_arr]. rewrite N.eqb_refl. rewrite Hlen. unfold Iterate.len in Hn.
    replace (N.to_nat n) with (length es) by lia. rewrite Nat.leb_refl, Nat.sub_diag. cbn [repeat]. rewrite app_nil_r. reflexivity. }
  split.
  { cbn [veq]. rewrite akind_eqb_refl, andb_true_r. cbn [andb].
    unfold decode_array. destruct k; try (rewrite (decode_slice_num_bytes _ es Hr Ha); apply list_num_veq_refl).
    change 4%nat with (width_of AF32). rewrite (arr_elems_num_bytes AF32 es Ha). apply arr_f32_veq. exact Hr. }
  not_null_media.
Qed.

(* decimal floats *)
Lemma dfloat_veq_refl d : dfloat_veq d d = true.
Proof.
  destruct d as [neg c e|neg| |]; cbn [dfloat_veq dfloat_eqb]; try reflexivity.
  - destruct c; [apply Bool.eqb_reflx|]. rewrite Bool.eqb_reflx, N.eqb_refl, Z.eqb_refl. reflexivity.
  - apply Bool.eqb_reflx.
Qed.

Definition scalar_kind (e : event) : Prop :=
  match e with EList | EMap | ENode | EEdge | EEnd | EArrayBegin _ | EMediaBegin _ | EArrayChunk _ _ | EArrayData _
             | EBeginDoc | EEndDoc | EVersion _ | EPadding | EComment _ _ => False | _ => True end.

Lemma decimal_form_bigdec d :
  exists s d', event_scalar (cbe_decimal_form d) = Some s /\ scalar_kind (cbe_decimal_form d) /\
               conv_bigdec s = COk (VBigDec false d') /\ dfloat_veq d d' = true /\
               s <> BNull /\ (forall mt x, s <> BMedia mt x).
Proof.
  destruct d as [neg c e|neg| |]; cbn [cbe_decimal_form].
  - destruct (N.eqb_spec c 0) as [->|Hc].
    + destruct neg; cbn [event_scalar].
      * exists (BFloat neg_zero64), (DFin true 0 0). repeat split; try discriminate; intros; discriminate.
      * exists (BInt 0), (DFin false 0 0). repeat split; try discriminate; intros; discriminate.
    + destruct (p63 <=? c).
      * exists (BBigDec (DFin neg c e)), (DFin neg c e). repeat split; try (apply dfloat_veq_refl); try discriminate; intros; discriminate.
      * exists (BDec (DFin neg c e)), (DFin neg c e). repeat split; try (apply dfloat_veq_refl); try discriminate; intros; discriminate.
  - exists (BDec (DInf neg)), (DInf neg). repeat split; try (apply dfloat_veq_refl); try discriminate; intros; discriminate.
  - exists (BFloat bquiet_nan_bits), DQNan. repeat split; try discriminate; intros; discriminate.
  - exists (BFloat bsignaling_nan_bits), DQNan. repeat split; try discriminate; intros; discriminate.
Qed.

Lemma decimal_form_dfloat d :
  (match d with DFin _ c _ => c <? p63 | _ => true end) = true ->
  exists s d', event_scalar (cbe_decimal_form d) = Some s /\ scalar_kind (cbe_decimal_form d) /\
               conv_dfloat s = COk (VDFloat false d') /\ dfloat_veq d d' = true /\
               s <> BNull /\ (forall mt x, s <> BMedia mt x).
Proof.
  intro Hc63. destruct d as [neg c e|neg| |]; cbn [cbe_decimal_form].
  - destruct (N.eqb_spec c 0) as [->|Hc].
    + destruct neg; cbn [event_scalar].
      * exists (BFloat neg_zero64), (DFin true 0 0). repeat split; try discriminate; intros; discriminate.
      * exists (BInt 0), (DFin false 0 0). repeat split; try discriminate; intros; discriminate.
    + apply N.ltb_lt in Hc63. replace (p63 <=? c) with false by (symmetry; apply N.leb_gt; exact Hc63).
      exists (BDec (DFin neg c e)), (DFin neg c e). repeat split; try (apply dfloat_veq_refl); try discriminate; intros; discriminate.
  - exists (BDec (DInf neg)), (DInf neg). repeat split; try (apply dfloat_veq_refl); try discriminate; intros; discriminate.
  - exists (BFloat bquiet_nan_bits), DQNan. repeat split; try discriminate; intros; discriminate.
  - exists (BFloat bsignaling_nan_bits), DSNan. repeat split; try discriminate; intros; discriminate.
Qed.

Lemma sl_bigdec fl d : SL TBigDec (VBigDec fl d).
Proof.
  destruct (decimal_form_bigdec d) as (s & d' & H1 & H2 & H3 & H4 & H5 & H6).
  exists s, (VBigDec false d').
  split.
  { apply (scalar_like_single _ (cbe_decimal_form d)); [reflexivity | exact H1 | exact H2]. }
  split; [exact H3|]. split; [exact H4|].
  split; [split; [intro E; contradiction | intro; discriminate]
         | split; [intros (mt & x & E); exfalso; exact (H6 mt x E) | intro; discriminate]].
Qed.

Lemma sl_dfloat fl d : sup TDFloat (VDFloat fl d) = true -> SL TDFloat (VDFloat fl d).
Proof.
  intro Hs. destruct (decimal_form_dfloat d Hs) as (s & d' & H1 & H2 & H3 & H4 & H5 & H6).
  exists s, (VDFloat false d').
  split.
  { apply (scalar_like_single _ (cbe_decimal_form d)); [reflexivity | exact H1 | exact H2]. }
  split; [exact H3|]. split; [exact H4|].
  split; [split; [intro E; contradiction | intro; discriminate]
         | split; [intros (mt & x & E); exfalso; exact (H6 mt x E) | intro; discriminate]].
Qed.

(* ------------------------------------------------------------------ *)
(** * 5. Values in element position *)

Definition EL (t : gtype) (v : gval) : Prop :=
  exists v' raw, veq v v' = true /\
  forall st fr below, bstack st = fr :: below -> slot_type fr = Some t ->
  exists st1, same_frames st st1 /\ run st (bevs v) = deliver (bstack st1) raw v' st1.

Lemma on_begin_push st fr below t k frs :
  bstack st = fr :: below -> slot_type fr = Some t -> begin_cont t k = GPush frs ->
  on_begin k st = ROk (with_stack st (frs ++ bstack st)).
Proof.
  intros Hs Ht Hb. unfold on_begin. rewrite Hs.
  destruct fr as [t0|e acc|n e acc|kt vt kvs key|t0 cur next is_key|e|cm val|comps]; cbn [slot_type] in *;
    try (injection Ht as <-; rewrite Hb; reflexivity); try discriminate.
  - destruct next as [[p ft]|]; [|destruct is_key; discriminate]. destruct is_key; [discriminate|].
    injection Ht as <-. rewrite Hb. reflexivity.
  - destruct cm; [discriminate|]. injection Ht as <-. rewrite Hb. reflexivity.
Qed.

Lemma bstep_begin st k : bstep' st (begin_event k) = on_begin k st.
Proof. destruct k; reflexivity. Qed.

Lemma SL_EL t v : SL t v -> EL t v.
Proof.
  intros (s & v' & Hsl & Hc & Hv & _). exists v', false. split; [exact Hv|].
  intros st fr below Hs Ht.
  destruct (Hsl st) as (st1 & Hsf & Hr).
  exists st1. split; [exact Hsf|].
  rewrite Hr. destruct Hsf as [Hst _]. apply (on_scalar_deliver st1 fr below t s v'); [congruence | exact Ht | exact Hc].
Qed.

Lemma CL_EL t v : CL t v -> EL t v.
Proof.
  intros (k & frs & v' & rest & Hb & Hg & Hv & Hrun). exists v', true. split; [exact Hv|].
  intros st fr below Hs Ht.
  destruct (Hrun st (bstack st)) as (st1 & Hs1 & Ho1 & Hr).
  exists st1. split; [split; congruence|].
  rewrite Hb. cbn [run]. rewrite bstep_begin, (on_begin_push st fr below t k frs Hs Ht Hg).
  rewrite Hr, Hs1. reflexivity.
Qed.

(* the stack recorded in the state passed to [deliver] is not read *)
Lemma deliver_stack_irrel stk : forall raw x st s', deliver stk raw x st = deliver stk raw x (with_stack st s').
Proof.
  induction stk as [|fr below IH]; intros raw x st s'; [reflexivity|].
  destruct fr as [t0|e acc|n e acc|kt vt kvs key|t0 cur next is_key|e|cm val|comps]; cbn [deliver]; try reflexivity.
  - destruct (addressable e); [apply IH | reflexivity].
  - destruct cm; [|reflexivity]. destruct x; try reflexivity. apply IH.
  - destruct comps as [|a [|b [|c r]]]; try reflexivity. apply IH.
Qed.

Lemma wrap_id t raw x : t <> TIface -> wrap_for t raw x = x.
Proof. intro H. unfold wrap_for. destruct raw; [|reflexivity]. destruct t; try reflexivity. contradiction. Qed.

Lemma typed_not_iface t v : has_type t v = true -> sup t v = true -> t <> TIface.
Proof. intros Ht Hs E. subst t. destruct v; cbn in Ht, Hs; discriminate. Qed.

(* pointers *)
Lemma bevs_ptr a p : bevs (VPtr a p) = bevs p. Proof. reflexivity. Qed.
Lemma bevs_optr p : bevs (VOPtr p) = bevs p. Proof. reflexivity. Qed.

Lemma SL_ptr e v p :
  bevs v = bevs p -> null_like v = null_like p -> media_like v = media_like p ->
  (forall q, veq p q = veq v (mk_ptr e q)) ->
  null_like p = false -> SL e p -> SL (TPtr e) v.
Proof.
  intros Hb Hn Hm Hveq Hnl (s & v' & Hsl & Hc & Hv & Hnull & Hmedia).
  exists s, (mk_ptr e v').
  split; [intro st; rewrite Hb; apply Hsl|].
  split.
  { assert (s <> BNull) by (intro E; apply Hnull in E; congruence).
    cbn [conv]. destruct s; try contradiction; rewrite Hc; reflexivity. }
  split; [rewrite <- Hveq; exact Hv|].
  rewrite Hn, Hm. split; assumption.
Qed.

Lemma CL_ptr e a p : addressable e = true -> is_optr_elem e = false -> CL e p -> CL (TPtr e) (VPtr a p).
Proof.
  intros Ha Ho (k & frs & v' & rest & Hb & Hg & Hv & Hrun).
  exists k, (frs ++ [BPtr e]), (VPtr 0 v'), rest.
  split; [exact Hb|].
  split; [cbn [begin_cont]; rewrite Hg; reflexivity|].
  split; [cbn [veq]; exact Hv|].
  intros st S. destruct (Hrun st (BPtr e :: S)) as (st1 & Hs1 & Ho1 & Hr).
  exists (with_stack st1 S). split; [reflexivity|]. split; [exact Ho1|].
  rewrite <- app_assoc. cbn [app]. rewrite Hr. cbn [deliver]. rewrite Ha.
  unfold mk_ptr. rewrite Ho. apply deliver_stack_irrel.
Qed.

(* pointers to library types with their own builders *)
Lemma SL_optr t0 t p (c0 : bscalar -> cres) :
  (forall s, conv' t0 s = c0 s) -> (forall s, conv' t s = opt_ptr (c0 s) s) ->
  null_like p = false -> media_like p = false -> SL t0 p -> SL t (VOPtr p).
Proof.
  intros H0 Ht Hnl Hml (s & v' & Hsl & Hc & Hv & Hnull & Hmedia).
  exists s, (VOPtr v').
  split; [intro st; rewrite bevs_optr; apply Hsl|].
  split.
  { assert (s <> BNull) by (intro E; apply Hnull in E; congruence).
    rewrite Ht, <- H0, Hc. destruct s; try reflexivity. contradiction. }
  split; [cbn [veq]; exact Hv|].
  cbn [null_like media_like]. split; [exact Hnull|].
  split; [|intro; discriminate].
  intro E. apply Hmedia in E. congruence.
Qed.

(* ------------------------------------------------------------------ *)
(** * 6. Containers *)

Lemma flat_map_flat_map {A B C} (f : B -> list C) (g : A -> list B) l :
  flat_map f (flat_map g l) = flat_map (fun x => flat_map f (g x)) l.
Proof. induction l as [|x l IH]; [reflexivity|]. cbn [flat_map]. rewrite flat_map_app, IH. reflexivity. Qed.

Lemma bevs_list a es : bevs (VSlice a es) = EList :: flat_map bevs es ++ [EEnd].
Proof.
  unfold bevs. change (plain ic (VSlice a es)) with (EList :: flat_map (plain ic) es ++ [EEnd]).
  cbn [flat_map cbe_form app]. rewrite flat_map_app, flat_map_flat_map. reflexivity.
Qed.
Lemma bevs_array es : bevs (VArray es) = EList :: flat_map bevs es ++ [EEnd].
Proof.
  unfold bevs. change (plain ic (VArray es)) with (EList :: flat_map (plain ic) es ++ [EEnd]).
  cbn [flat_map cbe_form app]. rewrite flat_map_app, flat_map_flat_map. reflexivity.
Qed.

(* one element arrives at a frame whose slot is not an interface *)
Lemma deliver_raw_irrel t fr S raw x st :
  slot_type fr = Some t -> t <> TIface -> deliver (fr :: S) raw x st = deliver (fr :: S) false x st.
Proof.
  intros Ht Hni. destruct raw; [|reflexivity].
  destruct fr as [t0|e acc|n e acc|kt vt kvs key|t0 cur next is_key|e|cm val|comps]; cbn [slot_type] in Ht; cbn [deliver].
  - injection Ht as <-. rewrite !wrap_id by exact Hni. reflexivity.
  - injection Ht as <-. rewrite !wrap_id by exact Hni. reflexivity.
  - injection Ht as <-. rewrite !wrap_id by exact Hni. reflexivity.
  - destruct key; injection Ht as <-; rewrite !wrap_id by exact Hni; reflexivity.
  - destruct next as [[p ft]|]; [|destruct is_key; discriminate]. destruct is_key; [discriminate|].
    injection Ht as <-. rewrite !wrap_id by exact Hni. reflexivity.
  - discriminate.
  - destruct cm; [discriminate|]. injection Ht as <-. contradiction.
  - injection Ht as <-. contradiction.
Qed.

Definition ELn (t : gtype) (x x' : gval) : Prop :=
  forall st fr S, bstack st = fr :: S -> slot_type fr = Some t ->
  exists st1, same_frames st st1 /\ run st (bevs x) = deliver (fr :: S) false x' st1.

Lemma el_step t x : EL t x -> t <> TIface -> exists x', veq x x' = true /\ ELn t x x'.
Proof.
  intros (x' & raw & Hv & He) Hni. exists x'. split; [exact Hv|].
  intros st fr S Hs Ht. destruct (He st fr S Hs Ht) as (st1 & Hsf & Hr).
  exists st1. split; [exact Hsf|]. rewrite Hr. destruct Hsf as [Hst _]. rewrite <- Hst, Hs.
  apply (deliver_raw_irrel t); assumption.
Qed.

Lemma veq_list_go es xs :
  Forall2 (fun x y => veq x y = true) es xs ->
  (fix go (l l' : list gval) : bool :=
     match l, l' with
     | [], [] => true
     | x :: r, y :: r' => veq x y && go r r'
     | _, _ => false
     end) es xs = true.
Proof. induction 1 as [|x y es xs H _ IH]; [reflexivity|]. rewrite H, IH. reflexivity. Qed.

(* the elements of a slice, one after the other *)
Lemma slice_loop e es xs :
  e <> TIface -> Forall2 (ELn e) es xs ->
  forall acc st S, bstack st = BSlice e acc :: S ->
  exists st1, bstack st1 = BSlice e (acc ++ xs) :: S /\ bobject st1 = bobject st /\
              run st (flat_map bevs es) = ROk st1.
Proof.
  intros Hni Hall. induction Hall as [|x x' es xs Hx _ IH]; intros acc st S Hs.
  - exists st. rewrite app_nil_r. repeat split. exact Hs.
  - cbn [flat_map]. rewrite run_app.
    destruct (Hx st (BSlice e acc) S Hs eq_refl) as (st1 & [Hst Hob] & Hr).
    rewrite Hr. cbn [deliver rbind]. rewrite (wrap_id e false x' Hni).
    destruct (IH (acc ++ [x']) (with_stack st1 (BSlice e (acc ++ [x']) :: S)) S eq_refl) as (st2 & Hs2 & Ho2 & Hr2).
    exists st2. split; [rewrite Hs2, <- app_assoc; reflexivity|]. split; [cbn in Ho2; congruence | exact Hr2].
Qed.

Lemma Forall_el_step e es :
  e <> TIface -> Forall (EL e) es ->
  exists xs, Forall2 (fun x y => veq x y = true) es xs /\ Forall2 (ELn e) es xs.
Proof.
  intros Hni H. induction H as [|x es Hx _ (xs & H1 & H2)]; [exists []; split; constructor|].
  destruct (el_step e x Hx Hni) as (x' & Hv & Hn). exists (x' :: xs). split; constructor; assumption.
Qed.

Lemma CL_slice e a es :
  akind_of_elem e = None -> e <> TBool -> (es <> [] -> e <> TIface) -> Forall (EL e) es ->
  CL (TSlice e) (VSlice a es).
Proof.
  intros Hak Hnb Hni Hall.
  assert (Hmk : forall xs, mk_seq SSlice e xs = VSlice 0 xs).
  { intro xs. unfold mk_seq. rewrite Hak. destruct e; try reflexivity. contradiction. }
  assert (Hend : forall st S xs, bstack st = BSlice e xs :: S ->
            run st [EEnd] = deliver S true (VSlice 0 xs) (with_stack st S)).
  { intros st S xs Hs. cbn [run bstep]. unfold on_end. rewrite Hs, Hmk, bres_eta. apply deliver_stack_irrel. }
  destruct es as [|x0 es0].
  - exists KList, [BSlice e []], (VSlice 0 []), [EEnd].
    split; [reflexivity|]. split; [reflexivity|]. split; [reflexivity|].
    intros st S. exists (with_stack st S). split; [reflexivity|]. split; [reflexivity|].
    rewrite (Hend _ S []) by reflexivity. reflexivity.
  - assert (Hni' : e <> TIface) by (apply Hni; discriminate).
    destruct (Forall_el_step e _ Hni' Hall) as (xs & Hv & Hn).
    exists KList, [BSlice e []], (VSlice 0 xs), (flat_map bevs (x0 :: es0) ++ [EEnd]).
    split; [apply bevs_list|]. split; [reflexivity|].
    split; [exact (veq_list_go _ _ Hv)|].
    intros st S.
    destruct (slice_loop e _ xs Hni' Hn [] (with_stack st ([BSlice e []] ++ S)) S eq_refl) as (st1 & Hs1 & Ho1 & Hr1).
    exists (with_stack st1 S). split; [reflexivity|]. split; [exact Ho1|].
    rewrite run_app, Hr1. cbn [rbind]. apply (Hend st1 S xs). exact Hs1.
Qed.

Lemma Forall2_len {A B} (R : A -> B -> Prop) l l' : Forall2 R l l' -> length l = length l'.
Proof. induction 1; cbn; congruence. Qed.

Lemma array_loop e n es xs :
  e <> TIface -> Forall2 (ELn e) es xs ->
  forall acc st S, (length acc + length es = N.to_nat n)%nat -> bstack st = BArr' n e acc :: S ->
  exists st1, bstack st1 = BArr' n e (acc ++ xs) :: S /\ bobject st1 = bobject st /\
              run st (flat_map bevs es) = ROk st1.
Proof.
  intros Hni Hall. induction Hall as [|x x' es xs Hx _ IH]; intros acc st S Hlen Hs.
  - exists st. rewrite app_nil_r. repeat split. exact Hs.
  - cbn [flat_map]. rewrite run_app. cbn [length] in Hlen.
    destruct (Hx st (BArr' n e acc) S Hs eq_refl) as (st1 & [Hst Hob] & Hr).
    rewrite Hr. cbn [deliver rbind]. rewrite (wrap_id e false x' Hni).
    replace (length acc <? N.to_nat n)%nat with true by (symmetry; apply Nat.ltb_lt; lia).
    destruct (IH (acc ++ [x']) (with_stack st1 (BArr' n e (acc ++ [x']) :: S)) S) as (st2 & Hs2 & Ho2 & Hr2);
      [rewrite app_length; cbn [length]; lia | reflexivity|].
    exists st2. split; [rewrite Hs2, <- app_assoc; reflexivity|]. split; [cbn in Ho2; congruence | exact Hr2].
Qed.

Lemma CL_array e n es :
  akind_of_elem e = None -> e <> TBool -> (es <> [] -> e <> TIface) -> Iterate.len es = n -> Forall (EL e) es ->
  CL (TArr n e) (VArray es).
Proof.
  intros Hak Hnb Hni Hlen Hall.
  assert (Hmk : forall xs, mk_seq SArr e xs = VArray xs).
  { intro xs. unfold mk_seq. rewrite Hak. destruct e; try reflexivity. contradiction. }
  assert (Hend : forall st S xs, bstack st = BArr' n e xs :: S -> length xs = N.to_nat n ->
            run st [EEnd] = deliver S true (VArray xs) (with_stack st S)).
  { intros st S xs Hs Hl. cbn [run bstep]. unfold on_end. rewrite Hs, Hl, Nat.sub_diag. cbn [repeat].
    rewrite app_nil_r, Hmk, bres_eta. apply deliver_stack_irrel. }
  unfold Iterate.len in Hlen.
  destruct es as [|x0 es0].
  - exists KList, [BArr' n e []], (VArray []), [EEnd].
    split; [reflexivity|]. split; [reflexivity|]. split; [reflexivity|].
    intros st S. exists (with_stack st S). split; [reflexivity|]. split; [reflexivity|].
    rewrite (Hend _ S []); [reflexivity | reflexivity | cbn [length] in *; lia].
  - assert (Hni' : e <> TIface) by (apply Hni; discriminate).
    destruct (Forall_el_step e _ Hni' Hall) as (xs & Hv & Hn).
    exists KList, [BArr' n e []], (VArray xs), (flat_map bevs (x0 :: es0) ++ [EEnd]).
    split; [apply bevs_array|]. split; [reflexivity|].
    split; [exact (veq_list_go _ _ Hv)|].
    intros st S.
    destruct (array_loop e n _ xs Hni' Hn [] (with_stack st ([BArr' n e []] ++ S)) S) as (st1 & Hs1 & Ho1 & Hr1);
      [cbn [length] in *; lia | reflexivity|].
    exists (with_stack st1 S). split; [reflexivity|]. split; [exact Ho1|].
    rewrite run_app, Hr1. cbn [rbind]. apply (Hend st1 S xs); [exact Hs1|].
    rewrite <- (Forall2_len _ _ _ Hn). cbn [length] in *. lia.
Qed.

(* maps *)
Lemma key_exact kt k :
  key_type kt = true -> has_type kt k = true -> sup kt k = true ->
  (exists s, scalar_like k s /\ conv' kt s = COk k) /\ gkey_known k = true /\ veq k k = true /\ gkey_eqb k k = true.
Proof.
  intros Hk Ht Hs. destruct kt; try discriminate Hk; destruct k; cbn [has_type] in Ht; try discriminate Ht;
    try (rewrite andb_false_r in Ht; discriminate Ht); try (destruct sk; discriminate Ht); cbn [sup] in Hs.
  - split; [|repeat split; cbn; apply Bool.eqb_reflx]. exists (BBool b). split; [|reflexivity].
    apply (scalar_like_single _ (if b then ETrue else EFalse)); [reflexivity | destruct b; reflexivity | destruct b; exact I].
  - split; [|repeat split; cbn; apply Z.eqb_refl]. exists (int_sc z). split; [apply sl_of_int_form; reflexivity | apply conv_int_sc; exact Ht].
  - split; [|repeat split; cbn; apply N.eqb_refl]. exists (int_sc (Z.of_N n)). split; [|apply conv_uint_sc; exact Ht].
    apply sl_of_int_form. rewrite abs_of_N, neg_of_N. reflexivity.
  - split; [|repeat split; cbn; apply bytes_eqb_eq; reflexivity]. apply N.ltb_lt in Hs.
    destruct (sl_string s Hs) as (s0 & v' & _). clear s0 v'.
    exists (BArr AT_String s). split; [|reflexivity].
    apply (sl_of_array_form _ AT_String (Iterate.len s) s); [exact (bevs_single (VString s) (EStringArray AT_String s) eq_refl) | reflexivity | discriminate | |].
    + change (elem_bits_of AT_String) with 8. symmetry. apply elem_byte_count_8. apply pow61_8. exact Hs.
    + pose proof (pow61_8 _ Hs). lia.
  - split; [|repeat split; cbn; apply bytes_eqb_eq; reflexivity]. exists (BUid b). split.
    + apply (scalar_like_single _ (EUid b)); [reflexivity | reflexivity | exact I].
    + cbn [conv]. rewrite Ht. reflexivity.
Qed.

Lemma key_ELn kt k : key_type kt = true -> has_type kt k = true -> sup kt k = true -> ELn kt k k.
Proof.
  intros Hk Ht Hs. destruct (key_exact kt k Hk Ht Hs) as ((s & Hsl & Hc) & _).
  intros st fr S Hst Hslot. destruct (Hsl st) as (st1 & Hsf & Hr). exists st1. split; [exact Hsf|].
  rewrite Hr. destruct Hsf as [E _]. rewrite <- Hst, E.
  apply (on_scalar_deliver st1 fr S kt s k); [congruence | exact Hslot | exact Hc].
Qed.

Definition zipk (kvs : list (gval * gval)) (xs : list gval) : list (gval * gval) :=
  map (fun p => (fst (fst p), snd p)) (combine kvs xs).

Definition fresh_key (k : gval) (acc : list (gval * gval)) : bool :=
  forallb (fun kv' => negb (gkey_eqb (fst kv') k)) acc.

Lemma map_set_fresh k x acc : fresh_key k acc = true -> map_set k x acc = acc ++ [(k, x)].
Proof.
  induction acc as [|[k' x'] acc IH]; [reflexivity|]. cbn [fresh_key forallb fst]. intro H.
  apply andb_true_iff in H as [H1 H2]. apply negb_true_iff in H1. cbn [map_set]. rewrite H1. cbn [app]. f_equal. apply IH. exact H2.
Qed.

Lemma bevs_map a kvs : bevs (VMap a kvs) = EMap :: flat_map (fun kv => bevs (fst kv) ++ bevs (snd kv)) kvs ++ [EEnd].
Proof.
  unfold bevs. change (plain ic (VMap a kvs)) with (EMap :: flat_map (fun kv => plain ic (fst kv) ++ plain ic (snd kv)) kvs ++ [EEnd]).
  cbn [flat_map cbe_form app]. rewrite flat_map_app, flat_map_flat_map. f_equal. f_equal.
  apply flat_map_ext. intro kv. apply flat_map_app.
Qed.

Lemma map_loop kt vt kvs xs :
  kt <> TIface -> vt <> TIface ->
  Forall2 (fun kv x' => ELn kt (fst kv) (fst kv) /\ ELn vt (snd kv) x' /\ gkey_known (fst kv) = true) kvs xs ->
  forall acc st S, bstack st = BMap kt vt acc None :: S ->
    (forall kv, In kv kvs -> fresh_key (fst kv) acc = true) -> keys_distinct (map fst kvs) = true ->
  exists st1, bstack st1 = BMap kt vt (acc ++ zipk kvs xs) None :: S /\ bobject st1 = bobject st /\
              run st (flat_map (fun kv => bevs (fst kv) ++ bevs (snd kv)) kvs) = ROk st1.
Proof.
  intros Hnk Hnv Hall. induction Hall as [|[k x] x' kvs xs (Hk & Hx & Hkn) _ IH]; intros acc st S Hs Hfresh Hdist.
  - exists st. unfold zipk. cbn [combine map]. rewrite app_nil_r. repeat split. exact Hs.
  - cbn [flat_map fst snd] in *. rewrite !run_app.
    destruct (Hk st (BMap kt vt acc None) S Hs eq_refl) as (st1 & [Hst1 Hob1] & Hr1).
    rewrite Hr1. cbn [deliver rbind]. rewrite (wrap_id kt false k Hnk).
    set (st1' := with_stack st1 (BMap kt vt acc (Some k) :: S)).
    destruct (Hx st1' (BMap kt vt acc (Some k)) S eq_refl eq_refl) as (st2 & [Hst2 Hob2] & Hr2).
    rewrite Hr2. cbn [deliver rbind]. rewrite Hkn, (wrap_id vt false x' Hnv).
    rewrite (map_set_fresh k x' acc) by (apply (Hfresh (k, x)); left; reflexivity).
    cbn [map keys_distinct fst] in Hdist. apply andb_true_iff in Hdist as [Hd1 Hd2]. apply negb_true_iff in Hd1.
    destruct (IH (acc ++ [(k, x')]) (with_stack st2 (BMap kt vt (acc ++ [(k, x')]) None :: S)) S eq_refl) as (st3 & Hs3 & Ho3 & Hr3).
    + intros kv Hin. unfold fresh_key. rewrite forallb_app. apply andb_true_iff. split.
      * apply Hfresh. right. exact Hin.
      * cbn [forallb fst]. rewrite andb_true_r. apply negb_true_iff.
        destruct (gkey_eqb k (fst kv)) eqn:E; [|reflexivity].
        exfalso. assert (exists y, In y (map fst kvs) /\ gkey_eqb k y = true) as Hex by (exists (fst kv); split; [apply in_map; exact Hin | exact E]).
        apply existsb_exists in Hex. congruence.
    + exact Hd2.
    + exists st3. split; [rewrite Hs3, <- app_assoc; reflexivity|].
      split; [cbn in Ho3, Hob2; unfold st1' in Hob2; cbn in Hob2; congruence | exact Hr3].
Qed.

Lemma veq_map_go (kvs' : list (gval * gval)) l :
  (forall kv, In kv l -> exists kv', In kv' kvs' /\ veq (fst kv) (fst kv') = true /\ veq (snd kv) (snd kv') = true) ->
  (fix go (l : list (gval * gval)) : bool :=
     match l with
     | [] => true
     | kv :: r => existsb (fun kv' => veq (fst kv) (fst kv') && veq (snd kv) (snd kv')) kvs' && go r
     end) l = true.
Proof.
  induction l as [|kv l IH]; intro H; [reflexivity|].
  apply andb_true_iff. split.
  - destruct (H kv (or_introl eq_refl)) as (kv' & Hin & H1 & H2). apply existsb_exists. exists kv'.
    split; [exact Hin | rewrite H1, H2; reflexivity].
  - apply IH. intros kv0 Hin. apply H. right. exact Hin.
Qed.

Lemma zipk_partner kvs xs :
  Forall2 (fun kv x' => veq (snd kv) x' = true) kvs xs ->
  forall kv, In kv kvs -> exists x', In (fst kv, x') (zipk kvs xs) /\ veq (snd kv) x' = true.
Proof.
  induction 1 as [|kv0 x0 kvs xs H0 _ IH]; intros kv Hin; [destruct Hin|].
  unfold zipk. cbn [combine map fst snd]. destruct Hin as [->|Hin].
  - exists x0. split; [left; reflexivity | exact H0].
  - destruct (IH kv Hin) as (x' & Hi & Hv). exists x'. split; [right; exact Hi | exact Hv].
Qed.

Lemma zipk_length kvs xs : length kvs = length xs -> length (zipk kvs xs) = length kvs.
Proof. intro H. unfold zipk. rewrite map_length, combine_length. lia. Qed.

Lemma map_images kt vt kvs :
  key_type kt = true -> vt <> TIface ->
  Forall (fun kv => has_type kt (fst kv) = true /\ sup kt (fst kv) = true /\ EL vt (snd kv)) kvs ->
  exists xs, Forall2 (fun kv x' => veq (snd kv) x' = true) kvs xs /\
             Forall2 (fun kv x' => ELn kt (fst kv) (fst kv) /\ ELn vt (snd kv) x' /\ gkey_known (fst kv) = true) kvs xs.
Proof.
  intros Hkt Hnv Hall. induction Hall as [|kv l (H1 & H2 & H3) _ (xs & IH1 & IH2)]; [exists []; split; constructor|].
  destruct (el_step vt (snd kv) H3 Hnv) as (x' & Hv & Hn). exists (x' :: xs). split; constructor; try assumption.
  split; [apply key_ELn; assumption|]. split; [exact Hn|].
  exact (proj1 (proj2 (key_exact kt (fst kv) Hkt H1 H2))).
Qed.

Lemma CL_map kt vt a kvs :
  key_type kt = true -> (kvs <> [] -> vt <> TIface) ->
  Forall (fun kv => has_type kt (fst kv) = true /\ sup kt (fst kv) = true /\ EL vt (snd kv)) kvs ->
  keys_distinct (map fst kvs) = true ->
  CL (TMap kt vt) (VMap a kvs).
Proof.
  intros Hkt Hni Hall Hdist.
  assert (Hnk : kt <> TIface) by (intro E; subst kt; discriminate Hkt).
  assert (Hend : forall st S acc key, bstack st = BMap kt vt acc key :: S ->
            run st [EEnd] = deliver S true (VMap 0 acc) (with_stack st S)).
  { intros st S acc key Hs. cbn [run bstep]. unfold on_end. rewrite Hs, bres_eta. apply deliver_stack_irrel. }
  destruct kvs as [|kv0 kvs0].
  - exists KMap, [BMap kt vt [] None], (VMap 0 []), [EEnd].
    split; [reflexivity|]. split; [reflexivity|]. split; [reflexivity|].
    intros st S. exists (with_stack st S). split; [reflexivity|]. split; [reflexivity|].
    rewrite (Hend _ S [] None) by reflexivity. reflexivity.
  - assert (Hnv : vt <> TIface) by (apply Hni; discriminate).
    set (kvs := kv0 :: kvs0) in *.
    destruct (map_images kt vt kvs Hkt Hnv Hall) as (xs & Hv & Hn).
    exists KMap, [BMap kt vt [] None], (VMap 0 (zipk kvs xs)), (flat_map (fun kv => bevs (fst kv) ++ bevs (snd kv)) kvs ++ [EEnd]).
    split; [apply bevs_map|]. split; [reflexivity|].
    split.
    { change (veq (VMap a kvs) (VMap 0 (zipk kvs xs))) with
        ((length kvs =? length (zipk kvs xs))%nat &&
         (fix go (l : list (gval * gval)) : bool :=
            match l with
            | [] => true
            | kv :: r => existsb (fun kv' => veq (fst kv) (fst kv') && veq (snd kv) (snd kv')) (zipk kvs xs) && go r
            end) kvs).
      rewrite (zipk_length kvs xs (Forall2_len _ _ _ Hv)), Nat.eqb_refl. cbn [andb].
      apply veq_map_go. intros kv Hin. destruct (zipk_partner kvs xs Hv kv Hin) as (x' & Hi & Hx).
      exists (fst kv, x'). split; [exact Hi|]. split; [|exact Hx]. cbn [fst].
      rewrite Forall_forall in Hall. destruct (Hall kv Hin) as (H1 & H2 & _).
      exact (proj1 (proj2 (proj2 (key_exact kt (fst kv) Hkt H1 H2)))). }
    intros st S.
    destruct (map_loop kt vt kvs xs Hnk Hnv Hn [] (with_stack st ([BMap kt vt [] None] ++ S)) S eq_refl) as (st1 & Hs1 & Ho1 & Hr1);
      [intros; reflexivity | exact Hdist|].
    exists (with_stack st1 S). split; [reflexivity|]. split; [exact Ho1|].
    rewrite run_app, Hr1. cbn [rbind]. apply (Hend st1 S _ None). exact Hs1.
Qed.

(* structs *)
Definition keptf (iv : finfo * gval) : bool :=
  extractable (fst iv) && should_include ic (fst iv) (is_empty (snd iv)) (is_value_zero (snd iv)).

Fixpoint gofs' (fs : list (finfo * gval)) : list item :=
  match fs with
  | [] => []
  | (i, x) :: r =>
      (if extractable i then
         if flattened i x then items_of ic x
         else [(i, should_include ic i (is_empty x) (is_value_zero x), plain ic x)]
       else []) ++ gofs' r
  end.

Lemma walk_struct_items sid fs : snd (walk ic (VStruct sid fs)) = gofs' fs.
Proof.
  cbn [walk snd]. induction fs as [|[i x] r IH]; [reflexivity|]. cbn [gofs']. rewrite <- IH. reflexivity.
Qed.

Lemma plain_struct' sid fs : plain ic (VStruct sid fs) = struct_events ic (gofs' fs).
Proof.
  rewrite <- (walk_struct_items sid fs). unfold plain. cbn [walk fst snd]. rewrite ic_records. reflexivity.
Qed.

Lemma sort_same {A} (key : A -> Z) c l : Forall (fun x => key x = c) l -> sort_by key l = l.
Proof.
  induction 1 as [|x l Hx Hl IH]; [reflexivity|]. unfold sort_by in *. cbn [fold_right]. rewrite IH.
  destruct l as [|y r]; [reflexivity|]. cbn [ins_by]. inversion Hl as [|? ? Hy _]. rewrite Hx, Hy, Z.leb_refl. reflexivity.
Qed.

Definition plain_fields (fs : list (finfo * gval)) : Prop :=
  Forall (fun iv => f_anon (fst iv) = false /\ f_order (fst iv) = max_order) fs.

Lemma gofs_orders fs : plain_fields fs -> Forall (fun it : item => gitem_order it = max_order) (gofs' fs).
Proof.
  induction 1 as [|[i x] r [Ha Ho] _ IH]; [constructor|]. cbn [gofs' fst] in *.
  destruct (extractable i); [|exact IH]. unfold flattened. rewrite Ha. cbn [andb app]. constructor; [exact Ho | exact IH].
Qed.

Definition field_plain (iv : finfo * gval) : list event :=
  if keptf iv then EStringArray AT_String (field_name ic (fst iv)) :: plain ic (snd iv) else [].

Lemma struct_events_plain fs :
  plain_fields fs -> struct_events ic (gofs' fs) = EMap :: flat_map field_plain fs ++ [EEnd].
Proof.
  intro Hp. unfold struct_events, kept_items, sorted_items.
  rewrite (sort_same (@gitem_order (list event)) max_order _ (gofs_orders fs Hp)). f_equal. f_equal.
  induction Hp as [|[i x] r [Ha Ho] _ IH]; [reflexivity|].
  cbn [gofs' flat_map fst snd] in *. unfold field_plain at 1, keptf. cbn [fst snd].
  destruct (extractable i); cbn [andb]; [|exact IH]. unfold flattened. rewrite Ha. cbn [andb app filter fst snd].
  destruct (should_include ic i (is_empty x) (is_value_zero x)); cbn [flat_map fst snd app]; rewrite IH; reflexivity.
Qed.

Definition field_bevs (iv : finfo * gval) : list event :=
  if keptf iv
  then cbe_array_form AT_String (Iterate.len (field_name ic (fst iv))) (field_name ic (fst iv)) ++ bevs (snd iv)
  else [].

Lemma bevs_struct sid fs :
  plain_fields fs -> bevs (VStruct sid fs) = EMap :: flat_map field_bevs fs ++ [EEnd].
Proof.
  intro Hp. unfold bevs at 1. rewrite plain_struct', (struct_events_plain fs Hp).
  cbn [flat_map cbe_form app]. rewrite flat_map_app, flat_map_flat_map. f_equal. f_equal.
  apply flat_map_ext. intro iv. unfold field_plain, field_bevs. destruct (keptf iv); reflexivity.
Qed.

Definition zeros (fts : list (finfo * gtype)) : list (finfo * gval) := map (fun it => (fst it, zero_of (snd it))) fts.

Lemma zero_of_struct sid fts : zero_of (TStruct sid fts) = VStruct sid (zeros fts).
Proof.
  cbn [zero_of]. f_equal. induction fts as [|[i ft] r IH]; [reflexivity|]. unfold zeros in *. cbn [map fst snd]. rewrite <- IH. reflexivity.
Qed.

Section Struct.
Variable t : gtype.
Variable sid' : N.

Inductive fields_ok : nat -> list (finfo * gval) -> list (finfo * gtype) -> list (finfo * gval) -> Prop :=
| fo_nil idx : fields_ok idx [] [] []
| fo_kept idx i x i' ft ft' x' r r' rs :
    keptf (i, x) = true ->
    lookup_field (flat_fields t []) (bkey (field_name ic i)) = LFound [idx] ft' ->
    blen (field_name ic i) < 2 ^ 61 -> ELn ft' x x' -> ft' <> TIface -> veq x x' = true ->
    fields_ok (S idx) r r' rs -> fields_ok idx ((i, x) :: r) ((i', ft) :: r') ((i', x') :: rs)
| fo_skip idx i x i' ft r r' rs :
    keptf (i, x) = false -> veq x (zero_of ft) = true ->
    fields_ok (S idx) r r' rs -> fields_ok idx ((i, x) :: r) ((i', ft) :: r') ((i', zero_of ft) :: rs).

Lemma set_nth_app {A} (f : A -> A) (a : list A) x b : set_nth (length a) f (a ++ x :: b) = a ++ f x :: b.
Proof. induction a as [|y a IH]; [reflexivity|]. cbn [length app set_nth]. rewrite IH. reflexivity. Qed.

Lemma key_run st S cur nx name p ft' :
  bstack st = BStruct t cur nx true :: S -> blen name < 2 ^ 61 ->
  lookup_field (flat_fields t []) (bkey name) = LFound p ft' ->
  exists st1, bobject st1 = bobject st /\ bstack st1 = BStruct t cur (Some (p, ft')) false :: S /\
              run st (cbe_array_form AT_String (Iterate.len name) name) = ROk st1.
Proof.
  intros Hs Hl Hlk.
  destruct (array_form_run st AT_String (Iterate.len name) name) as (st1 & [Hst Hob] & Hr).
  - reflexivity.
  - discriminate.
  - change (elem_bits_of AT_String) with 8. symmetry. apply elem_byte_count_8. apply pow61_8. exact Hl.
  - pose proof (pow61_8 _ Hl). lia.
  - exists (with_stack st1 (BStruct t cur (Some (p, ft')) false :: S)). split; [cbn; congruence|]. split; [reflexivity|].
    rewrite Hr. unfold on_scalar. rewrite <- Hst, Hs. change (AT_String =? AT_String) with true. cbv iota.
    fold (bkey name). rewrite Hlk. reflexivity.
Qed.

Lemma struct_loop idx fs fts rs :
  fields_ok idx fs fts rs ->
  forall done st S nx, length done = idx ->
    bstack st = BStruct t (VStruct sid' (done ++ zeros fts)) nx true :: S ->
  exists st1 nx', bstack st1 = BStruct t (VStruct sid' (done ++ rs)) nx' true :: S /\ bobject st1 = bobject st /\
                  run st (flat_map field_bevs fs) = ROk st1.
Proof.
  induction 1 as [idx | idx i x i' ft ft' x' r r' rs Hk Hlk Hlen Hel Hni Hv _ IH | idx i x i' ft r r' rs Hk Hv _ IH];
    intros done st S nx Hd Hs.
  - exists st, nx. repeat split. exact Hs.
  - cbn [flat_map]. unfold field_bevs at 1. rewrite Hk. cbn [fst snd]. rewrite !run_app.
    destruct (key_run st S _ nx (field_name ic i) [idx] ft' Hs Hlen Hlk) as (st1 & Ho1 & Hs1 & Hr1).
    rewrite Hr1. cbn [rbind].
    destruct (Hel st1 _ S Hs1 eq_refl) as (st2 & [Hst2 Hob2] & Hr2).
    rewrite Hr2. cbn [deliver rbind]. rewrite (wrap_id ft' false x' Hni).
    cbn [zeros map fst snd]. cbn [set_path]. rewrite <- Hd, set_nth_app. cbn [fst].
    destruct (IH (done ++ [(i', x')]) (with_stack st2 (BStruct t (VStruct sid' (done ++ (i', x') :: zeros r')) (Some ([length done], ft')) true :: S)) S (Some ([length done], ft')))
      as (st3 & nx3 & Hs3 & Ho3 & Hr3).
    + rewrite app_length. cbn [length]. lia.
    + cbn [bstack with_stack]. rewrite <- app_assoc. reflexivity.
    + exists st3, nx3. split; [rewrite Hs3, <- app_assoc; reflexivity|]. split; [cbn in Ho3; congruence | exact Hr3].
  - cbn [flat_map]. unfold field_bevs at 1. rewrite Hk. cbn [app].
    destruct (IH (done ++ [(i', zero_of ft)]) st S nx) as (st3 & nx3 & Hs3 & Ho3 & Hr3).
    + rewrite app_length. cbn [length]. lia.
    + rewrite Hs. cbn [zeros map fst snd]. rewrite <- app_assoc. reflexivity.
    + exists st3, nx3. split; [rewrite Hs3, <- app_assoc; reflexivity|]. split; [exact Ho3 | exact Hr3].
Qed.

Lemma fields_ok_veq idx fs fts rs :
  fields_ok idx fs fts rs ->
  (fix go (l l' : list (finfo * gval)) : bool :=
     match l, l' with
     | [], [] => true
     | x :: r, y :: r' => veq (snd x) (snd y) && go r r'
     | _, _ => false
     end) fs rs = true.
Proof.
  induction 1 as [idx | idx i x i' ft ft' x' r r' rs Hk Hlk Hlen Hel Hni Hv _ IH | idx i x i' ft r r' rs Hk Hv _ IH];
    [reflexivity | |]; cbn [snd]; rewrite Hv, IH; reflexivity.
Qed.
End Struct.

Fixpoint ht_fields (fvs : list (finfo * gval)) (fts : list (finfo * gtype)) : bool :=
  match fvs, fts with
  | [], [] => true
  | (i, x) :: r, (i', ft) :: r' =>
      finfo_eqb i i' && has_type ft x
      && (if f_anon i then match ft with TStruct _ _ => true | _ => false end else true)
      && ht_fields r r'
  | _, _ => false
  end.

Lemma has_type_struct sid sid' fvs fts :
  has_type (TStruct sid' fts) (VStruct sid fvs) = (sid =? sid') && ht_fields fvs fts.
Proof.
  reflexivity.
Qed.

Fixpoint sup_fields (t : gtype) (fts : list (finfo * gtype)) (fs : list (finfo * gval)) (idx : nat) : bool :=
  match fs with
  | [] => true
  | (i, x) :: r =>
      (if extractable i && should_include ic i (is_empty x) (is_value_zero x)
       then (blen (field_name ic i) <? 2 ^ 61) &&
            match lookup_field (flat_fields t []) (bkey (field_name ic i)) with
            | LFound p ft' => list_eqb Nat.eqb p [idx] && has_type ft' x && sup ft' x
            | _ => false
            end
       else match nth_error fts idx with
            | Some (_, ft) => veq x (zero_of ft)
            | None => false
            end)
      && sup_fields t fts r (S idx)
  end.

Lemma sup_struct sid sid' fts fs :
  sup (TStruct sid' fts) (VStruct sid fs) =
  forallb (fun iv => negb (f_anon (fst iv)) && (f_order (fst iv) =? max_order)%Z) fs
  && sup_fields (TStruct sid' fts) fts fs O.
Proof.
  cbn [sup]. f_equal. generalize O. induction fs as [|[i x] r IH]; intro idx; [reflexivity|].
  cbn [sup_fields]. rewrite <- IH. reflexivity.
Qed.

Lemma skipn_cons_nth {A} (l : list A) : forall idx x r, skipn idx l = x :: r -> nth_error l idx = Some x /\ skipn (S idx) l = r.
Proof.
  induction l as [|y l IH]; intros [|idx] x r H; cbn in *; try discriminate.
  - injection H as -> ->. split; reflexivity.
  - apply IH. exact H.
Qed.

Definition IHv (v : gval) : Prop :=
  forall t, has_type t v = true -> sup t v = true ->
  (container_like v = false /\ SL t v) \/ (container_like v = true /\ CL t v).

Lemma IHv_EL v t : IHv v -> has_type t v = true -> sup t v = true -> EL t v.
Proof. intros H Ht Hs. destruct (H t Ht Hs) as [[_ H1]|[_ H1]]; [apply SL_EL | apply CL_EL]; assumption. Qed.

Lemma list_nat_eqb_eq (a b : list nat) : list_eqb Nat.eqb a b = true -> a = b.
Proof. apply list_eqb_eq. intros x y. apply Nat.eqb_eq. Qed.

Lemma fields_ok_intro t fts_all :
  forall fs idx fts_rest,
    ht_fields fs fts_rest = true -> skipn idx fts_all = fts_rest -> sup_fields t fts_all fs idx = true ->
    Forall (fun iv => IHv (snd iv)) fs ->
    exists rs, fields_ok t idx fs fts_rest rs.
Proof.
  induction fs as [|[i x] r IH]; intros idx fts_rest Hht Hsk Hsup Hall.
  - destruct fts_rest; [|discriminate]. exists []. constructor.
  - destruct fts_rest as [|[i' ft] r']; [discriminate|]. cbn [ht_fields] in Hht. cbn [sup_fields] in Hsup.
    apply andb_true_iff in Hht as [Hht Hr]. apply andb_true_iff in Hsup as [Hf Hsr].
    inversion Hall as [|? ? Hx Hall']. subst. cbn [snd] in Hx.
    destruct (skipn_cons_nth fts_all idx (i', ft) r' Hsk) as [Hnth Hsk'].
    destruct (IH (S idx) r' Hr Hsk' Hsr Hall') as (rs & Hrs).
    destruct (extractable i && should_include ic i (is_empty x) (is_value_zero x)) eqn:Hk.
    + apply andb_true_iff in Hf as [Hlen Hlk]. apply N.ltb_lt in Hlen.
      destruct (lookup_field (flat_fields t []) (bkey (field_name ic i))) as [p ft'| |] eqn:El; try discriminate.
      apply andb_true_iff in Hlk as [Hlk Hs']. apply andb_true_iff in Hlk as [Hp Ht'].
      apply list_nat_eqb_eq in Hp. subst p.
      pose proof (typed_not_iface ft' x Ht' Hs') as Hni.
      destruct (el_step ft' x (IHv_EL x ft' Hx Ht' Hs') Hni) as (x' & Hv & Hn).
      exists ((i', x') :: rs). apply (fo_kept t idx i x i' ft ft' x'); assumption.
    + rewrite Hnth in Hf. exists ((i', zero_of ft) :: rs). apply fo_skip; assumption.
Qed.

Lemma CL_struct sid sid' fts fs :
  has_type (TStruct sid' fts) (VStruct sid fs) = true -> sup (TStruct sid' fts) (VStruct sid fs) = true ->
  Forall (fun iv => IHv (snd iv)) fs -> CL (TStruct sid' fts) (VStruct sid fs).
Proof.
  intros Ht Hs Hall. set (t := TStruct sid' fts).
  rewrite has_type_struct in Ht. apply andb_true_iff in Ht as [Hsid Hht].
  rewrite sup_struct in Hs. apply andb_true_iff in Hs as [Hpl Hsf].
  assert (Hp : plain_fields fs).
  { unfold plain_fields. rewrite Forall_forall. rewrite forallb_forall in Hpl. intros iv Hin.
    specialize (Hpl iv Hin). apply andb_true_iff in Hpl as [A B]. apply negb_true_iff in A. apply Z.eqb_eq in B. split; assumption. }
  destruct (fields_ok_intro t fts fs O fts Hht eq_refl Hsf Hall) as (rs & Hrs).
  exists KMap, [BStruct t (zero_of t) None true], (VStruct sid' rs), (flat_map field_bevs fs ++ [EEnd]).
  split; [apply bevs_struct; exact Hp|]. split; [reflexivity|].
  split.
  { change (veq (VStruct sid fs) (VStruct sid' rs)) with
      ((sid =? sid') &&
       (fix go (l l' : list (finfo * gval)) : bool :=
          match l, l' with
          | [], [] => true
          | x :: r, y :: r' => veq (snd x) (snd y) && go r r'
          | _, _ => false
          end) fs rs).
    rewrite Hsid. cbn [andb]. apply (fields_ok_veq t O fs fts rs Hrs). }
  intros st S. unfold t at 2. rewrite zero_of_struct. fold t.
  destruct (struct_loop t sid' O fs fts rs Hrs [] (with_stack st ([BStruct t (VStruct sid' (zeros fts)) None true] ++ S)) S None eq_refl eq_refl)
    as (st1 & nx' & Hs1 & Ho1 & Hr1).
  exists (with_stack st1 S). split; [reflexivity|]. split; [exact Ho1|].
  rewrite run_app, Hr1. cbn [rbind run bstep]. unfold on_end. rewrite Hs1. cbn [app]. rewrite bres_eta. apply deliver_stack_irrel.
Qed.

(* ------------------------------------------------------------------ *)
(** * 7. Every value of the fragment is rebuilt *)

Ltac split_and H :=
  match type of H with
  | (_ && _) = true => let H' := fresh H in apply andb_true_iff in H as [H H']; split_and H; split_and H'
  | _ => idtac
  end.

Lemma null_SL t v z :
  bevs v = [ENull] -> conv' t BNull = COk z -> veq v z = true -> null_like v = true -> media_like v = false ->
  SL t v.
Proof.
  intros Hb Hc Hv Hn Hm. exists BNull, z. split; [apply sl_null_event; exact Hb|].
  split; [exact Hc|]. split; [exact Hv|].
  split; [split; [intros _; exact Hn | reflexivity]|].
  split; [intros (? & ? & ?); discriminate | intro E; congruence].
Qed.

Lemma elem_kind_ok e :
  (match akind_of_elem e, e with None, TBool => false | None, _ => true | _, _ => false end) = true ->
  akind_of_elem e = None /\ e <> TBool.
Proof.
  destruct (akind_of_elem e) eqn:E; [discriminate|]. intro H. split; [reflexivity|]. intro E2. subst e. discriminate H.
Qed.

Lemma Forall_EL e es :
  Forall IHv es -> forallb (has_type e) es = true -> forallb (sup e) es = true -> Forall (EL e) es.
Proof.
  intros Hall Ht Hs. rewrite Forall_forall in *. rewrite forallb_forall in Ht, Hs.
  intros x Hin. apply IHv_EL; auto.
Qed.

Lemma nonempty_not_iface e (es : list gval) :
  forallb (has_type e) es = true -> forallb (sup e) es = true -> es <> [] -> e <> TIface.
Proof.
  destruct es as [|x es]; [contradiction|]. cbn [forallb]. intros Ht Hs _.
  apply andb_true_iff in Ht as [Ht _]. apply andb_true_iff in Hs as [Hs _]. apply (typed_not_iface e x Ht Hs).
Qed.

Theorem values_rebuilt : forall v, IHv v.
Proof.
  apply gval_ind4; unfold IHv.
  - (* bool *) intros b t Ht Hs. left. split; [reflexivity|]. destruct t; try discriminate Ht. apply sl_bool.
  - (* int *) intros z t Ht Hs. left. split; [reflexivity|]. destruct t; try discriminate Ht. apply sl_int. exact Ht.
  - (* uint *) intros n t Ht Hs. left. split; [reflexivity|]. destruct t; try discriminate Ht. apply sl_uint. exact Ht.
  - (* float32 *) intros w t Ht Hs. left. split; [reflexivity|]. destruct t; try discriminate Ht.
    cbn [has_type] in Ht. apply N.ltb_lt in Ht. apply sl_f32; assumption.
  - (* float64 *) intros b t Ht Hs. left. split; [reflexivity|]. destruct t; try discriminate Ht.
    cbn [has_type] in Ht. apply N.ltb_lt in Ht. apply sl_f64. exact Ht.
  - (* string *) intros s t Ht Hs. left. split; [reflexivity|]. destruct t; try discriminate Ht.
    cbn [sup] in Hs. apply N.ltb_lt in Hs. apply sl_string. exact Hs.
  - (* numeric slices and arrays *)
    intros sk k es t Ht Hs. left. split; [reflexivity|].
    destruct t; try (cbn [has_type] in Ht; rewrite andb_false_r in Ht; discriminate Ht);
      try (cbn [has_type] in Ht; destruct sk; rewrite andb_false_r in Ht; discriminate Ht).
    + (* TNumSlice *)
      assert (k0 = k).
      { cbn [has_type] in Ht. apply andb_true_iff in Ht as [_ Ht]. destruct sk; try discriminate Ht;
          apply andb_true_iff in Ht as [Ht _]; symmetry; apply akind_eqb_eq; exact Ht. }
      subst k0. apply sl_numslice; assumption.
    + (* TNumArr *)
      assert (k0 = k /\ sk = SArr).
      { cbn [has_type] in Ht. apply andb_true_iff in Ht as [_ Ht]. destruct sk; try discriminate Ht.
        apply andb_true_iff in Ht as [Ht _]. split; [symmetry; apply akind_eqb_eq; exact Ht | reflexivity]. }
      destruct H as [-> ->]. apply sl_numarr; assumption.
    + (* TSlice: no builder *) cbn [sup] in Hs. discriminate Hs.
    + (* TArr: no builder *) cbn [sup] in Hs. discriminate Hs.
  - (* bool slices *) intros sk l t Ht Hs. discriminate Hs.
  - (* slices *)
    intros a es Hall t Ht Hs. right. split; [reflexivity|]. destruct t; try discriminate Ht.
    cbn [has_type] in Ht. cbn [sup] in Hs. apply andb_true_iff in Ht as [Hk Ht].
    destruct (elem_kind_ok t Hk) as [Hak Hnb].
    apply CL_slice; [exact Hak | exact Hnb | apply nonempty_not_iface; assumption | apply Forall_EL; assumption].
  - (* nil slice *)
    intros t Ht Hs. left. split; [reflexivity|]. destruct t; try discriminate Ht.
    cbn [has_type] in Ht. cbn [sup] in Hs. destruct (elem_kind_ok t Ht) as [Hak Hnb].
    destruct (nullable_conv t Hs) as [z Hz].
    apply (null_SL _ _ (zero_of (TSlice t))); try reflexivity.
    + cbn [conv]. rewrite Hz. reflexivity.
    + cbn [zero_of]. unfold mk_seq. rewrite Hak. destruct t; try reflexivity. contradiction.
  - (* arrays *)
    intros es Hall t Ht Hs. right. split; [reflexivity|]. destruct t; try discriminate Ht.
    cbn [has_type] in Ht. cbn [sup] in Hs. split_and Ht.
    destruct (elem_kind_ok t Ht) as [Hak Hnb]. apply N.eqb_eq in Ht1.
    apply CL_array; [exact Hak | exact Hnb | apply nonempty_not_iface; assumption | exact Ht1 | apply Forall_EL; assumption].
  - (* maps *)
    intros a kvs Hall t Ht Hs. right. split; [reflexivity|]. destruct t; try discriminate Ht.
    cbn [has_type] in Ht. cbn [sup] in Hs. split_and Hs.
    rewrite forallb_forall in Ht, Hs1. rewrite Forall_forall in Hall.
    apply CL_map; [exact Hs | | | exact Hs0].
    + intro Hne. destruct kvs as [|kv kvs]; [contradiction|].
      specialize (Ht kv (or_introl eq_refl)). specialize (Hs1 kv (or_introl eq_refl)).
      apply andb_true_iff in Ht as [_ Ht]. apply andb_true_iff in Hs1 as [_ Hs1]. apply (typed_not_iface _ _ Ht Hs1).
    + rewrite Forall_forall. intros kv Hin. specialize (Ht kv Hin). specialize (Hs1 kv Hin).
      apply andb_true_iff in Ht as [Ht1 Ht2]. apply andb_true_iff in Hs1 as [Hs01 Hs02].
      split; [exact Ht1|]. split; [exact Hs01|]. apply IHv_EL; [exact (proj2 (Hall kv Hin)) | exact Ht2 | exact Hs02].
  - (* nil map *)
    intros t Ht Hs. left. split; [reflexivity|]. destruct t; try discriminate Ht. cbn [sup] in Hs.
    destruct (nullable_conv t1 Hs) as [z Hz].
    apply (null_SL _ _ VNilMap); try reflexivity. cbn [conv]. rewrite Hz. reflexivity.
  - (* pointers *)
    intros a p IHp t Ht Hs. destruct t; try discriminate Ht.
    cbn [has_type] in Ht. cbn [sup] in Hs. split_and Ht. split_and Hs.
    apply negb_true_iff in Ht, Hs.
    destruct (IHp t Ht0 Hs0) as [[Hc Hsl]|[Hc Hcl]].
    + left. split; [exact Hc|].
      apply (SL_ptr t (VPtr a p) p); [reflexivity | reflexivity | reflexivity | | assumption | assumption].
      intro q. unfold mk_ptr. rewrite Ht. reflexivity.
    + right. split; [exact Hc|]. rewrite Hc in Hs1. apply CL_ptr; assumption.
  - (* nil pointer *)
    intros t Ht Hs. left. split; [reflexivity|].
    destruct t; try discriminate Ht; apply (null_SL _ _ VNilPtr); reflexivity.
  - (* pointers to library types *)
    intros p IHp t Ht Hs. cbn [sup] in Hs. apply andb_true_iff in Hs as [Hn Hs]. apply negb_true_iff in Hn.
    assert (Hnc : forall t0, has_type t0 p = true -> (t0 = TTime \/ t0 = TCTime \/ t0 = TUrl \/ t0 = TBigInt \/ t0 = TBigDec) ->
                  container_like p = false /\ media_like p = false).
    { intros t0 H0 Ht0. destruct p; try (split; reflexivity); destruct Ht0 as [E|[E|[E|[E|E]]]]; subst t0; try discriminate H0;
        cbn [has_type] in H0; try (rewrite andb_false_r in H0; discriminate H0); try (destruct sk; discriminate H0).  }
    left. split; [reflexivity|].
    destruct t; try discriminate Ht; cbn [has_type] in Ht.
    + (* TPtr to time *)
      apply andb_true_iff in Ht as [Ho Ht].
      assert (Ht' : t = TTime \/ t = TCTime) by (destruct t; try discriminate Ho; auto).
      destruct (Hnc t Ht) as [Hc Hm]; [destruct Ht' as [E|E]; subst t; auto|].
      destruct (IHp t Ht Hs) as [[_ Hsl]|[Hc' _]]; [|congruence].
      apply (SL_ptr t (VOPtr p) p); [reflexivity | reflexivity | | | assumption | assumption].
      * cbn [media_like]. symmetry. exact Hm.
      * intro q. unfold mk_ptr. rewrite Ho. reflexivity.
    + destruct (Hnc TUrl Ht) as [Hc Hm]; [auto|].
      destruct (IHp TUrl Ht Hs) as [[_ Hsl]|[Hc' _]]; [|congruence].
      apply (SL_optr TUrl TPUrl p (conv_url url_conv)); try assumption; reflexivity.
    + destruct (Hnc TBigInt Ht) as [Hc Hm]; [auto 6|].
      destruct (IHp TBigInt Ht Hs) as [[_ Hsl]|[Hc' _]]; [|congruence].
      apply (SL_optr TBigInt TPBigInt p conv_bigint); try assumption; reflexivity.
    + discriminate Hs.
    + destruct (Hnc TBigDec Ht) as [Hc Hm]; [auto 6|].
      destruct (IHp TBigDec Ht Hs) as [[_ Hsl]|[Hc' _]]; [|congruence].
      apply (SL_optr TBigDec TPBigDec p conv_bigdec); try assumption; reflexivity.
  - (* interface *) intros p _ t Ht Hs. discriminate Hs.
  - intros t Ht Hs. discriminate Hs.
  - (* structs *)
    intros sid fs Hall t Ht Hs. right. split; [reflexivity|]. destruct t; try discriminate Ht.
    apply CL_struct; assumption.
  - (* times *)
    intros z x t Ht Hs. left. split; [reflexivity|]. destruct t; try discriminate Ht.
    + cbn [sup] in Hs. apply andb_true_iff in Hs as [H1 H2]. apply negb_true_iff in H1. apply sl_time; assumption.
    + apply sl_ctime.
  - (* url *)
    intros z x t Ht Hs. left. split; [reflexivity|]. destruct t; try discriminate Ht.
    cbn [sup] in Hs. apply andb_true_iff in Hs as [H1 H2]. apply N.ltb_lt in H2. apply sl_url; assumption.
  - intros z x t Ht Hs. left. split; [reflexivity|]. destruct t; try discriminate Ht. apply sl_bigint.
  - intros z x t Ht Hs. discriminate Hs.
  - intros z x t Ht Hs. left. split; [reflexivity|]. destruct t; try discriminate Ht. apply sl_bigdec.
  - intros z x t Ht Hs. left. split; [reflexivity|]. destruct t; try discriminate Ht. apply sl_dfloat. exact Hs.
  - intros b t Ht Hs. left. split; [reflexivity|]. destruct t; try discriminate Ht. apply sl_uid. exact Ht.
  - intros z mt d t Ht Hs. left. split; [reflexivity|]. destruct t; try discriminate Ht.
    cbn [sup] in Hs. apply N.ltb_lt in Hs. apply sl_media. exact Hs.
  - intros x ch _ _ t Ht Hs. discriminate Hs.
  - intros a b c _ _ _ t Ht Hs. discriminate Hs.
Qed.

(* ------------------------------------------------------------------ *)
(** * 8. The round trip *)

Lemma iterate_events v :
  c_recursion ic = false ->
  cbe_events (iterate ic (Some v)) = EBeginDoc :: EVersion 0 :: bevs v ++ [EEndDoc].
Proof.
  intro Hr. unfold iterate, iterate_outcome, value_outcome, rectypes_events. rewrite Hr, ic_records.
  cbn [sort_records fold_right flat_map app fst]. unfold cbe_events. cbn [flat_map cbe_form app].
  rewrite flat_map_app. reflexivity.
Qed.

Theorem marshal_unmarshal t v :
  c_recursion ic = false -> has_type t v = true -> sup t v = true ->
  exists v', build_typed url_conv time_conv dec_bigfloat bigdec_bigfloat cfg t (cbe_events (iterate ic (Some v))) = TOk v'
             /\ veq v v' = true.
Proof.
  intros Hr Ht Hs. rewrite (iterate_events v Hr).
  pose proof (typed_not_iface t v Ht Hs) as Hni.
  destruct (IHv_EL v t (values_rebuilt v) Ht Hs) as (v' & raw & Hv & Hel).
  exists v'. split; [|exact Hv].
  unfold build_typed.
  pose proof (brun_run (EBeginDoc :: EVersion 0 :: bevs v ++ [EEndDoc]) (init_bstate t) 0) as Hrun.
  destruct (brun' (init_bstate t) (EBeginDoc :: EVersion 0 :: bevs v ++ [EEndDoc]) 0) as [r i].
  cbn [fst] in Hrun. subst r. cbn [run bstep]. rewrite run_app.
  destruct (Hel (init_bstate t) (BTop t) [] eq_refl eq_refl) as (st1 & [Hst Hob] & Hr1).
  rewrite Hr1, <- Hst. cbn [init_bstate bstack deliver rbind run bstep with_object bobject].
  rewrite (wrap_id t raw v' Hni). reflexivity.
Qed.
End Proofs.

(* ------------------------------------------------------------------ *)
(** * 9. The property in full, and the constructs the code does not bring back *)

Definition icfg0 : icfg := mkCfg true false OEmpty [].      (* configuration.New(): snake case, no recursion support, omit empty *)

(* marshal to CBE, decode, validate, build: an equal value comes back *)
Definition roundtrip_ok (lt : libtabs) (t : gtype) (v : gval) : Prop :=
  exists v', unmarshal_events lt default_bcfg t (cbe_events (iterate icfg0 (Some v))) = TOk v' /\ veq v v' = true.

(* every value of every type built from the supported kinds *)
Definition roundtrip_full : Prop := forall lt t v, has_type t v = true -> roundtrip_ok lt t v.

Definition fails (t : gtype) (v : gval) : Prop := has_type t v = true /\ ~ roundtrip_ok no_lib t v.

Ltac refute :=
  split; [vm_compute; reflexivity |
          intros (v' & H & Hv); vm_compute in H;
          first [discriminate H | injection H as <-; vm_compute in Hv; discriminate Hv]].

Definition fA : finfo := mkF [65] true false ODefault 9223372036854775807%Z.

Definition w_int_slice := (TSlice (TInt W64), VNum SSlice AI64 [1; -2]%Z).
Definition w_uint_array := (TArr 2 (TUint W64), VNum SArr AU64 [1; 2]%Z).
Definition w_bool_slice := (TSlice TBool, VBools SSlice [true; false; true]).
Definition w_named_elem_slice := (TNumSlice AI64 false, VNum SSlice AI64 [1; 2]%Z).
Definition w_ptr_slice := (TPtr (TSlice TString), VPtr 1 (VSlice 2 [VString [120]])).
Definition w_ptr_map := (TPtr (TMap TString (TInt W64)), VPtr 1 (VMap 2 [(VString [97], VInt 1)])).
Definition w_ptr_media := (TPtr TMedia, VPtr 1 (VMedia false [97; 47; 98] [1; 2])).
Definition w_ptr_ptr_struct := (TPtr (TPtr (TStruct 1 [])), VPtr 1 (VPtr 2 (VStruct 1 []))).
Definition w_ptr_nil_ptr := (TPtr (TPtr (TInt W64)), VPtr 1 VNilPtr).
Definition w_ptr_nil_slice := (TPtr (TSlice TString), VPtr 1 VNilSlice).
Definition w_ptr_zero_ctime := (TPtr TCTime, VOPtr (VTime true zero_ctime_text)).
Definition w_edge := (TEdge, VEdge (VIface (VString [97])) (VIface (VInt 1)) (VIface (VString [98]))).
Definition w_nil_map_int_key := (TMap (TInt W64) TString, VNilMap).
Definition w_nil_struct_slice := (TSlice (TStruct 1 [(fA, TInt W64)]), VNilSlice).
Definition w_nil_time_slice := (TSlice TTime, VNilSlice).

Lemma int_slice_fails : fails (fst w_int_slice) (snd w_int_slice). Proof. refute. Qed.
Lemma uint_array_fails : fails (fst w_uint_array) (snd w_uint_array). Proof. refute. Qed.
Lemma bool_slice_fails : fails (fst w_bool_slice) (snd w_bool_slice). Proof. refute. Qed.
Lemma named_elem_slice_fails : fails (fst w_named_elem_slice) (snd w_named_elem_slice). Proof. refute. Qed.
Lemma ptr_slice_fails : fails (fst w_ptr_slice) (snd w_ptr_slice). Proof. refute. Qed.
Lemma ptr_map_fails : fails (fst w_ptr_map) (snd w_ptr_map). Proof. refute. Qed.
(* repaired by /repo commit bfbf710: the pointer to Media comes back *)
Lemma ptr_media_roundtrip : forall lt, has_type (fst w_ptr_media) (snd w_ptr_media) = true /\ roundtrip_ok lt (fst w_ptr_media) (snd w_ptr_media).
Proof.
  intro lt. split; [vm_compute; reflexivity|]. eexists. split; [vm_compute; reflexivity | vm_compute; reflexivity].
Qed.
Lemma ptr_ptr_struct_fails : fails (fst w_ptr_ptr_struct) (snd w_ptr_ptr_struct). Proof. refute. Qed.
Lemma ptr_nil_ptr_fails : fails (fst w_ptr_nil_ptr) (snd w_ptr_nil_ptr). Proof. refute. Qed.
Lemma ptr_nil_slice_fails : fails (fst w_ptr_nil_slice) (snd w_ptr_nil_slice). Proof. refute. Qed.
Lemma ptr_zero_ctime_fails : fails (fst w_ptr_zero_ctime) (snd w_ptr_zero_ctime). Proof. refute. Qed.
Lemma edge_fails : fails (fst w_edge) (snd w_edge). Proof. refute. Qed.
Lemma nil_map_int_key_fails : fails (fst w_nil_map_int_key) (snd w_nil_map_int_key). Proof. refute. Qed.
Lemma nil_struct_slice_fails : fails (fst w_nil_struct_slice) (snd w_nil_struct_slice). Proof. refute. Qed.
Lemma nil_time_slice_fails : fails (fst w_nil_time_slice) (snd w_nil_time_slice). Proof. refute. Qed.

Lemma roundtrip_full_false : ~ roundtrip_full.
Proof. intro H. destruct int_slice_fails as [Ht Hf]. apply Hf. apply H. exact Ht. Qed.

(* ------------------------------------------------------------------ *)
(** * 10. A value of the fragment *)

Definition mkf (name : bytes) (o : omit) : finfo := mkF name true false o 9223372036854775807%Z.
Definition ex_inner_t : gtype := TStruct 2 [(mkf [88] ODefault, TInt W8); (mkf [89; 122] ODefault, TSlice TString)].
Definition ex_type : gtype :=
  TStruct 1
    [(mkf [78; 117; 109] ODefault, TInt W64);                            (* Num int64 *)
     (mkf [85; 115; 101; 114; 73; 68] ODefault, TString);                (* UserID string *)
     (mkf [87; 111; 114; 100; 115] ODefault, TNumSlice AU16 true);       (* Words []uint16 *)
     (mkf [76] ODefault, TSlice (TSlice TString));                       (* L [][]string *)
     (mkf [77] ODefault, TMap TString (TInt W8));                        (* M map[string]int8 *)
     (mkf [80] ODefault, TPtr (TInt W32));                               (* P *int32 *)
     (mkf [69] ODefault, TSlice TString);                                (* E []string, empty: omitted *)
     (mkf [73; 110] ONever, TPtr ex_inner_t);                            (* In *inner *)
     (mkf [84] ODefault, TTime); (mkf [85] ODefault, TPUrl); (mkf [66] ODefault, TPBigInt);
     (mkf [70] ODefault, TF64); (mkf [71] ODefault, TNumArr AF32 2); (mkf [72] OZero, TUint W8)].
Definition ex_value : gval :=
  VStruct 1
    [(mkf [78; 117; 109] ODefault, VInt (-9223372036854775808));
     (mkf [85; 115; 101; 114; 73; 68] ODefault, VString (repeat 97 20));
     (mkf [87; 111; 114; 100; 115] ODefault, VNum SSlice AU16 (repeat 65535%Z 17));
     (mkf [76] ODefault, VSlice 1 [VSlice 2 [VString [97]]; VNilSlice]);
     (mkf [77] ODefault, VMap 3 [(VString [107], VInt (-128)); (VString [], VInt 127)]);
     (mkf [80] ODefault, VPtr 4 (VInt 7));
     (mkf [69] ODefault, VSlice 5 []);
     (mkf [73; 110] ONever, VPtr 6 (VStruct 2 [(mkf [88] ODefault, VInt 0); (mkf [89; 122] ODefault, VSlice 7 [VString [120]])]));
     (mkf [84] ODefault, VTime false [50; 48; 50; 48; 45; 48; 49; 45; 48; 50; 47; 48; 51; 58; 48; 52; 58; 48; 53]);
     (mkf [85] ODefault, VOPtr (VUrl false [104; 116; 116; 112; 58; 47; 47; 120]));
     (mkf [66] ODefault, VOPtr (VBigInt false (-18446744073709551617)));
     (mkf [70] ODefault, VF64 0x7ff8000000000001);
     (mkf [71] ODefault, VNum SArr AF32 [0x7fc00000; 0x3fc00000]%Z);
     (mkf [72] OZero, VUint 0)].

Definition idlib (b : bytes) : option bytes := Some b.

(* a pointer to Media lies in the fragment (since /repo commit bfbf710) *)
Lemma ptr_media_supported :
  has_type (fst w_ptr_media) (snd w_ptr_media) = true /\
  sup idlib idlib default_bcfg icfg0 (fst w_ptr_media) (snd w_ptr_media) = true.
Proof. split; vm_compute; reflexivity. Qed.

Lemma ex_typed : has_type ex_type ex_value = true. Proof. vm_compute. reflexivity. Qed.
Lemma ex_supported : sup idlib idlib default_bcfg icfg0 ex_type ex_value = true. Proof. vm_compute. reflexivity. Qed.
Lemma ex_rebuilt :
  exists v', build_typed idlib idlib (fun _ => None) (fun _ => None) default_bcfg ex_type (cbe_events (iterate icfg0 (Some ex_value))) = TOk v'
             /\ veq ex_value v' = true /\ (40 < length (cbe_events (iterate icfg0 (Some ex_value))))%nat.
Proof. eexists. split; [vm_compute; reflexivity | split; [vm_compute; reflexivity | vm_compute; lia]]. Qed.

(* ------------------------------------------------------------------ *)
(** * 11. [cbe_form] is the CBE codec followed by the validator's rewriting

   CbeProofs.norm_event: what the CBE decoder reports for an event the CBE encoder wrote (proved
   there against Model/Cbe.v); RulesPassthrough.nn: what the validator hands on (C15). *)
From CE Require Import Model.Cbe Proofs.CbeProofs Proofs.CbeRoundtrip Proofs.RulesPassthrough.

(* the events of the marshaler covered here (times are outside Model/Cbe.v) *)
Definition iter_event (e : event) : bool :=
  match e with
  | EBeginDoc | EEndDoc | EVersion _ | ENull | EBool _ | EPosInt _ | EInt _ | EBigInt (Some _)
  | EFloat _ | EBigFloat (Some _) | EDecimal _ | EBigDecimal (Some _) | EUid _
  | EList | EMap | ENode | EEdge | EEnd | EArray _ _ _ | EStringArray _ _ | EMedia _ _ => true
  | _ => false
  end.

Lemma cbe_short_is_short t n : cbe_short t n = is_short t n.
Proof.
  unfold cbe_short, is_short. rewrite enc_small_header_spec.
  destruct (N.ltb_spec cbeMaxSmallArrayLength n) as [L|L].
  - replace (n <=? cbeMaxSmallArrayLength) with false by (symmetry; apply N.leb_gt; exact L). reflexivity.
  - replace (n <=? cbeMaxSmallArrayLength) with true by (symmetry; apply N.leb_le; exact L). cbn [andb].
    unfold has_short_form. destruct (array_info t) as [[[a b] c]|]; [|reflexivity]. destruct b; reflexivity.
Qed.

Lemma nil_len0 (d : bytes) : (Cbe.len d =? 0) = is_nil d.
Proof. destruct d; [reflexivity|]. unfold Cbe.len. cbn [length is_nil]. apply N.eqb_neq. lia. Qed.

Lemma array_form_norm t n d : cbe_array_form t n d = map nn (array_norm t (whole_chunks n d)).
Proof.
  unfold cbe_array_form, array_norm, whole_chunks. rewrite cbe_short_is_short.
  destruct (is_short t n); [reflexivity|]. cbn [chunk_events map nn]. rewrite nil_len0, app_nil_r.
  destruct (is_nil d); reflexivity.
Qed.

Lemma float_form_norm b : cbe_float_form b = nn (norm_float b).
Proof.
  unfold cbe_float_form, norm_float.
  destruct (FloatBits.f64_is_inf b); [reflexivity|].
  destruct (FloatBits.f64_is_nan b) eqn:Hn; [destruct (FloatBits.f64_quiet_bit b); reflexivity|].
  destruct (FloatBits.f64_is_zero b); [destruct (FloatBits.f64_sign b =? 1); reflexivity|].
  cbn [nn]. rewrite ev_f64_is_nan, Hn. reflexivity.
Qed.

Lemma int_form_norm neg m : cbe_int_form neg m = nn (norm_signed neg m).
Proof.
  unfold cbe_int_form, norm_signed, signed_z. change Rules.two64 with Uleb.two64.
  destruct ((m <=? 100) && negb (neg && (m =? 0))); [reflexivity|].
  destruct (m <? two64); [destruct neg; reflexivity | reflexivity].
Qed.

Lemma decimal_form_norm d : cbe_decimal_form d = nn (norm_decimal d).
Proof.
  destruct d as [neg c e|neg| |]; cbn [cbe_decimal_form norm_decimal]; try reflexivity.
  destruct (c =? 0); [destruct neg; reflexivity|]. unfold norm_decimal_fin.
  change Cbe.two63 with p63. destruct (p63 <=? c); reflexivity.
Qed.

Lemma cbe_form_norm e : iter_event e = true -> cbe_form e = map nn (norm_event e).
Proof.
  destruct e; cbn [iter_event]; intro H; try discriminate H; try reflexivity.
  - (* bool *) destruct b; reflexivity.
  - (* positive int *) cbn [cbe_form norm_event map]. rewrite int_form_norm. reflexivity.
  - (* int *) cbn [cbe_form norm_event map]. rewrite int_form_norm. reflexivity.
  - (* big int *) destruct v; [|discriminate H]. cbn [cbe_form norm_event map]. rewrite int_form_norm. reflexivity.
  - (* float *) cbn [cbe_form norm_event map]. rewrite float_form_norm. reflexivity.
  - (* big float *)
    destruct v as [[neg mant ex prec|neg]|]; [| reflexivity | discriminate H].
    cbn [cbe_form norm_event]. destruct (bigfloat_to_f64 neg mant ex); [|reflexivity].
    cbn [map]. rewrite float_form_norm. reflexivity.
  - (* decimal *) cbn [cbe_form norm_event map]. rewrite decimal_form_norm. reflexivity.
  - (* big decimal *) destruct v; [|discriminate H]. cbn [cbe_form norm_event map]. rewrite decimal_form_norm. reflexivity.
  - (* array *) apply array_form_norm.
  - (* string-like array *) apply array_form_norm.
  - (* media *)
    cbn [cbe_form norm_event whole_chunks chunk_events map nn]. rewrite nil_len0, app_nil_r.
    destruct (is_nil data); reflexivity.
Qed.

Lemma cbe_events_norm es : forallb iter_event es = true -> cbe_events es = map nn (flat_map norm_event es).
Proof.
  induction es as [|e es IH]; [reflexivity|]. cbn [forallb]. intro H. apply andb_true_iff in H as [H1 H2].
  unfold cbe_events in *. cbn [flat_map]. rewrite map_app, (cbe_form_norm e H1), (IH H2). reflexivity.
Qed.

Lemma simple_body body : Forall c01_simple body -> c01_body body (flat_map norm_event body).
Proof.
  induction 1 as [|e body He _ IH]; [apply cb_nil|]. cbn [flat_map].
  apply (cb_app [e] (norm_event e) body (flat_map norm_event body)); [apply cu_simple; exact He | exact IH].
Qed.

(* The round trip stated on the codec model itself: the document the CBE encoder writes for the
   marshaler's events decodes (Model/Cbe.v) to events which, passed through the validator's
   rewriting, make the builder return an equal value.  [c01_simpleb]: the events lie in the
   fragment on which CbeRoundtrip proves what the decoder reports (no times). *)
Theorem marshal_unmarshal_codec :
  forall (url_conv time_conv : bytes -> option bytes) (dec_bigfloat bigdec_bigfloat : dfloat -> option bigfloat)
         (cfg : bcfg) (ic : icfg) (dc : dcfg) (t : gtype) (v : gval) (doc : bytes),
    c_records ic = [] -> c_recursion ic = false ->
    has_type t v = true -> sup url_conv time_conv cfg ic t v = true ->
    forallb c01_simpleb (plain ic v) = true -> forallb iter_event (plain ic v) = true ->
    cbe_encode (iterate ic (Some v)) = Some doc -> Cbe.len doc <= max_doc_size dc ->
    exists es v',
      cbe_decode dc doc = (es, DOk) /\
      build_typed url_conv time_conv dec_bigfloat bigdec_bigfloat cfg t (map nn es) = TOk v' /\ veq v v' = true.
Proof.
  intros uc tc db bb cfg ic dc t v doc Hrec Hrcs Ht Hs Hsimple Hiter Henc Hlen.
  assert (Hit : iterate ic (Some v) = document 0 (plain ic v)).
  { unfold iterate, iterate_outcome, value_outcome, rectypes_events, document. rewrite Hrcs, Hrec. reflexivity. }
  assert (Hbody : c01_body (plain ic v) (flat_map norm_event (plain ic v))).
  { apply simple_body. rewrite Forall_forall. rewrite forallb_forall in Hsimple. intros e He. apply c01_simpleb_sound. apply Hsimple. exact He. }
  rewrite Hit in Henc.
  destruct (c01_den_roundtrip dc (plain ic v) _ doc Hbody Henc Hlen) as [Hdec _].
  destruct (marshal_unmarshal uc tc db bb cfg ic Hrec t v Hrcs Ht Hs) as (v' & Hb & Hv).
  exists (document 0 (flat_map norm_event (plain ic v))), v'. split; [exact Hdec|]. split; [|exact Hv].
  rewrite <- Hb. f_equal. rewrite Hit. unfold document.
  cbn [map nn]. rewrite map_app. cbn [map nn].
  unfold cbe_events. cbn [flat_map cbe_form app]. rewrite flat_map_app. cbn [flat_map cbe_form app].
  fold (cbe_events (plain ic v)). rewrite (cbe_events_norm _ Hiter). reflexivity.
Qed.

(* the example value without its time field lies in that fragment too *)
Definition ex_type2 : gtype := match ex_type with TStruct s fs => TStruct s (firstn 8 fs ++ skipn 9 fs) | x => x end.
Definition ex_value2 : gval := match ex_value with VStruct s fs => VStruct s (firstn 8 fs ++ skipn 9 fs) | x => x end.
Lemma ex2_covered :
  has_type ex_type2 ex_value2 = true /\ sup idlib idlib default_bcfg icfg0 ex_type2 ex_value2 = true /\
  forallb c01_simpleb (plain icfg0 ex_value2) = true /\ forallb iter_event (plain icfg0 ex_value2) = true /\
  exists doc, cbe_encode (iterate icfg0 (Some ex_value2)) = Some doc /\ Cbe.len doc <= max_doc_size default_dcfg.
Proof.
  split; [vm_compute; reflexivity|]. split; [vm_compute; reflexivity|]. split; [vm_compute; reflexivity|].
  split; [vm_compute; reflexivity|]. eexists. split; [vm_compute; reflexivity | vm_compute; discriminate].
Qed.
