(* C28 — proofs about Model/ReaderSplit.v.

   Main results
     decode_stream_good   : for scripts made of (k>0 bytes, nil) responses optionally
                            followed by one (0, io.EOF), the CBE decoder delivers
                            exactly what it delivers from memory (all documents,
                            valid or not, any MaxDocumentSizeBytes);
     cte_stream_all       : the CTE entry point is independent of the script for
                            EVERY script that is a reader (zero reads and data+EOF included);
     ce_stream_good       : the universal entry points on the same script class;
     refutations          : a (n>0, io.EOF) response and a (0, nil) response each make
                            the CBE decoder deliver something else than from memory;
     decode_never_hangs   : the fuel of the model is never exhausted (no script at all
                            makes the model answer SHang). *)
From CE Require Import Model.ReaderSplit.
From Coq Require Import ZifyN ZifyNat ZifyBool Lia.
Open Scope N_scope.

(* ------------------------------------------------------------------ *)
(* lists                                                                *)
(* ------------------------------------------------------------------ *)

Lemma lenN_length l : lenN l = N.of_nat (length l).
Proof. induction l as [|x l IH]; simpl; [reflexivity|]. rewrite IH. lia. Qed.

Lemma takeN_firstn n l : takeN n l = firstn (N.to_nat n) l.
Proof.
  revert n; induction l as [|x l IH]; intro n; simpl.
  - destruct (N.to_nat n); reflexivity.
  - destruct (N.eqb_spec n 0) as [->|Hn]; [reflexivity|].
    replace (N.to_nat n) with (S (N.to_nat (N.pred n))) by lia. simpl. now rewrite IH.
Qed.

Lemma dropN_skipn n l : dropN n l = skipn (N.to_nat n) l.
Proof.
  revert n; induction l as [|x l IH]; intro n; simpl.
  - destruct (N.to_nat n); reflexivity.
  - destruct (N.eqb_spec n 0) as [->|Hn]; [reflexivity|].
    replace (N.to_nat n) with (S (N.to_nat (N.pred n))) by lia. simpl. now rewrite IH.
Qed.

Lemma take_drop n l : takeN n l ++ dropN n l = l.
Proof. rewrite takeN_firstn, dropN_skipn. apply firstn_skipn. Qed.

Lemma lenN_takeN n l : lenN (takeN n l) = N.min n (lenN l).
Proof. rewrite takeN_firstn, !lenN_length, firstn_length. lia. Qed.

Lemma lenN_nil l : lenN l = 0 <-> l = [].
Proof. destruct l; simpl; split; intro H; try reflexivity; try discriminate; lia. Qed.

Lemma takeN_nonnil n l : 1 <= n -> l <> [] -> takeN n l <> [].
Proof.
  intros Hn Hl E. apply lenN_nil in E. rewrite lenN_takeN in E.
  assert (lenN l <> 0) by (rewrite lenN_nil; exact Hl). lia.
Qed.

Lemma dropN_nonnil n l : n < lenN l -> dropN n l <> [].
Proof.
  intros Hn E. pose proof (take_drop n l) as H. rewrite E, app_nil_r in H.
  pose proof (lenN_takeN n l) as H2. rewrite H in H2. lia.
Qed.

Lemma takeN_app_exact a b : takeN (lenN a) (a ++ b) = a.
Proof.
  rewrite takeN_firstn, lenN_length, Nat2N.id.
  rewrite firstn_app, Nat.sub_diag, firstn_all. simpl. apply app_nil_r.
Qed.

Lemma dropN_app_exact a b : dropN (lenN a) (a ++ b) = b.
Proof.
  rewrite dropN_skipn, lenN_length, Nat2N.id.
  rewrite skipn_app, Nat.sub_diag, skipn_all. reflexivity.
Qed.

Lemma takeN_app_more n a b : lenN a <= n -> takeN n (a ++ b) = a ++ takeN (n - lenN a) b.
Proof.
  intro H. rewrite !takeN_firstn, firstn_app. rewrite lenN_length in *.
  rewrite firstn_all2 by lia. f_equal. f_equal. lia.
Qed.

Lemma dropN_app_more n a b : lenN a <= n -> dropN n (a ++ b) = dropN (n - lenN a) b.
Proof.
  intro H. rewrite !dropN_skipn, skipn_app. rewrite lenN_length in *.
  rewrite skipn_all2 by lia. simpl. f_equal. lia.
Qed.

Lemma lenN_app a b : lenN (a ++ b) = lenN a + lenN b.
Proof. rewrite !lenN_length, app_length. lia. Qed.

Local Arguments takeN : simpl never.
Local Arguments dropN : simpl never.

(* ------------------------------------------------------------------ *)
(* good sources                                                         *)
(* ------------------------------------------------------------------ *)

Definition good_src (s : src) : bool :=
  match s with
  | Direct sc => good_script sc
  | Buffered _ pend sc => negb pend && good_script sc
  end.

Lemma good_script_cases bs e rest :
  good_script ((bs, e) :: rest) = true ->
  (bs = [] /\ e = true /\ rest = []) \/ (e = false /\ bs <> [] /\ good_script rest = true).
Proof.
  destruct bs as [|x bs], e, rest as [|r rest]; simpl; intro H; try discriminate;
    try (left; repeat split; reflexivity);
    right; repeat split; try discriminate; try reflexivity; exact H.
Qed.

Lemma good_script_zeros sc : good_script sc = true -> script_zeros sc = O.
Proof.
  induction sc as [|[bs e] rest IH]; [reflexivity|]. intro H.
  apply good_script_cases in H as [(-> & -> & ->) | (-> & Hbs & Hr)]; [reflexivity|].
  unfold script_zeros in *. simpl. destruct bs; [congruence|]. apply IH, Hr.
Qed.

Lemma good_src_zeros s : good_src s = true -> src_zeros s = O.
Proof.
  destruct s as [sc | buf pend sc]; simpl; intro H.
  - now apply good_script_zeros.
  - apply andb_true_iff in H as [_ H]. now apply good_script_zeros.
Qed.

(* What one Read does on a good source: end of data <-> (0, EOF); otherwise
   some bytes (at least one, at most cap), no error, and the rest stays good. *)
Definition rd_ok (cap : N) (data : bytes) (bs : bytes) (e : bool) (data' : bytes) : Prop :=
  (data = [] -> bs = [] /\ e = true /\ data' = []) /\
  (data <> [] -> e = false /\ bs <> [] /\ lenN bs <= cap /\ data = bs ++ data').

Lemma rd_script_good cap sc :
  good_script sc = true -> 1 <= cap ->
  let '(bs, e, sc') := rd_script cap sc in
  good_script sc' = true /\ rd_ok cap (script_data sc) bs e (script_data sc').
Proof.
  intros Hg Hcap. destruct sc as [|[bs e] rest]; simpl.
  - split; [reflexivity|]. split; [auto|]. intro H. exfalso. apply H. reflexivity.
  - apply good_script_cases in Hg as [(-> & -> & ->) | (-> & Hbs & Hr)].
    + simpl. destruct (N.leb_spec 0 cap); [|lia].
      split; [reflexivity|]. split; [auto|]. intro Hx. exfalso. apply Hx. reflexivity.
    + unfold script_data; simpl. fold (script_data rest).
      destruct (N.leb_spec (lenN bs) cap) as [Hle|Hgt].
      * split; [exact Hr|]. split.
        -- intro E. apply app_eq_nil in E as [E _]. congruence.
        -- intros _. repeat split; auto.
      * split.
        -- simpl. pose proof (dropN_nonnil cap bs Hgt) as Hd.
           destruct (dropN cap bs); [congruence|]. exact Hr.
        -- unfold script_data; simpl. fold (script_data rest). split.
           ++ intro E. apply app_eq_nil in E as [E _]. congruence.
           ++ intros _. repeat split.
              ** now apply takeN_nonnil.
              ** rewrite lenN_takeN. lia.
              ** rewrite app_assoc, take_drop. reflexivity.
Qed.

Lemma rd_good cap s :
  good_src s = true -> 1 <= cap ->
  let '(bs, e, s') := rd cap s in
  good_src s' = true /\ rd_ok cap (src_data s) bs e (src_data s').
Proof.
  intros Hg Hcap. destruct s as [sc | buf pend sc]; simpl in *.
  - pose proof (rd_script_good cap sc Hg Hcap) as H.
    destruct (rd_script cap sc) as [[bs e] sc']. exact H.
  - apply andb_true_iff in Hg as [Hp Hg]. destruct pend; [discriminate|]. clear Hp.
    destruct buf as [|x buf].
    + destruct (N.leb_spec bufio_size cap) as [Hbig|Hsmall].
      * pose proof (rd_script_good cap sc Hg Hcap) as H.
        destruct (rd_script cap sc) as [[bs e] sc']. simpl. exact H.
      * assert (H1 : 1 <= bufio_size) by (unfold bufio_size; lia).
        pose proof (rd_script_good bufio_size sc Hg H1) as H.
        destruct (rd_script bufio_size sc) as [[bs e] sc']. destruct H as [Hg' [Hnil Hdat]].
        destruct bs as [|y bs]; simpl.
        -- split; [exact Hg'|]. split; [exact Hnil|].
           intro Hne. destruct (Hdat Hne) as (_ & Hbad & _). congruence.
        -- assert (Hne : script_data sc <> []).
           { intro E. destruct (Hnil E) as [Hbad _]. discriminate. }
           destruct (Hdat Hne) as (-> & _ & Hlen & Hd).
           split; [simpl; exact Hg'|]. split; [intro E; congruence|].
           intros _. repeat split.
           ++ apply takeN_nonnil; [exact Hcap | discriminate].
           ++ rewrite lenN_takeN. lia.
           ++ rewrite Hd, app_assoc, take_drop. reflexivity.
    + split; [simpl; exact Hg|]. split; [intro E; discriminate|].
      intros _. repeat split.
      * apply takeN_nonnil; [exact Hcap | discriminate].
      * rewrite lenN_takeN. lia.
      * change (src_data (Buffered (dropN cap (x :: buf)) false sc))
          with (dropN cap (x :: buf) ++ script_data sc).
        rewrite app_assoc, take_drop. reflexivity.
Qed.

(* ------------------------------------------------------------------ *)
(* simulation between two runs on good sources holding the same data    *)
(* ------------------------------------------------------------------ *)

Definition Rst (s1 s2 : rstate) : Prop :=
  good_src (s_src s1) = true /\ good_src (s_src s2) = true /\
  src_data (s_src s1) = src_data (s_src s2) /\
  s_b0 s1 = s_b0 s2 /\ s_cnt s1 = s_cnt s2 /\ s_out s1 = s_out s2.

Definition res_rel {A} (r1 r2 : res A) : Prop :=
  match r1, r2 with
  | Ret a s1, Ret b s2 => a = b /\ Rst s1 s2
  | Fail s1, Fail s2 => s_out s1 = s_out s2
  | Stuck, Stuck => True
  | _, _ => False
  end.

Definition sim {A} (m : M A) : Prop := forall s1 s2, Rst s1 s2 -> res_rel (m s1) (m s2).

Lemma sim_ret {A} (a : A) : sim (ret a).
Proof. intros s1 s2 H. simpl. auto. Qed.

Lemma sim_fail {A} : sim (@fail A).
Proof. intros s1 s2 H. simpl. apply H. Qed.

Lemma sim_stuck {A} : sim (@stuck A).
Proof. intros s1 s2 H. exact I. Qed.

Lemma sim_bind {A B} (m : M A) (f : A -> M B) :
  sim m -> (forall a, sim (f a)) -> sim (bind m f).
Proof.
  intros Hm Hf s1 s2 H. unfold bind. specialize (Hm s1 s2 H).
  destruct (m s1) as [a s1'| s1' |], (m s2) as [b s2' | s2' |]; simpl in Hm; try contradiction; auto.
  destruct Hm as [-> Hm]. apply Hf, Hm.
Qed.

Lemma sim_emit t : sim (emit t).
Proof.
  intros s1 s2 (H1 & H2 & H3 & H4 & H5 & H6). simpl. split; [reflexivity|].
  unfold Rst; simpl. repeat split; auto. now rewrite H6.
Qed.

Lemma sim_ev e : sim (ev e).
Proof. apply sim_emit. Qed.

Lemma sim_get_b0 : sim get_b0.
Proof. intros s1 s2 H. simpl. split; [apply H | exact H]. Qed.

Lemma src_fuel_eq s1 s2 :
  good_src s1 = true -> good_src s2 = true -> src_data s1 = src_data s2 -> src_fuel s1 = src_fuel s2.
Proof.
  intros H1 H2 H3. unfold src_fuel. rewrite (good_src_zeros _ H1), (good_src_zeros _ H2), H3. reflexivity.
Qed.

Lemma sim_get_fuel : sim get_fuel.
Proof.
  intros s1 s2 H. simpl. split; [|exact H].
  destruct H as (H1 & H2 & H3 & _). now apply src_fuel_eq.
Qed.

Lemma sim_mark maxdoc n : sim (mark maxdoc n).
Proof.
  intros s1 s2 (H1 & H2 & H3 & H4 & H5 & H6). unfold mark. rewrite H5.
  destruct (maxdoc <? (s_cnt s2 + n) mod two64); simpl; [exact H6|].
  split; [reflexivity|]. unfold Rst; simpl. auto 10.
Qed.

Lemma one_byte bs : bs <> [] -> lenN bs <= 1 -> exists x, bs = [x].
Proof.
  destruct bs as [|x [|y bs]]; simpl; intros H1 H2; [congruence | eauto |].
  rewrite lenN_length in H2. lia.
Qed.

Lemma sim_rd1 : sim rd1.
Proof.
  intros s1 s2 (H1 & H2 & H3 & H4 & H5 & H6). unfold rd1.
  pose proof (rd_good 1 (s_src s1) H1 ltac:(lia)) as R1.
  pose proof (rd_good 1 (s_src s2) H2 ltac:(lia)) as R2.
  destruct (rd 1 (s_src s1)) as [[bs1 e1] t1], (rd 1 (s_src s2)) as [[bs2 e2] t2].
  destruct R1 as [G1 [N1 D1]], R2 as [G2 [N2 D2]].
  destruct (src_data (s_src s1)) as [|x d] eqn:E1.
  - symmetry in H3. destruct (N1 eq_refl) as (-> & -> & T1), (N2 H3) as (-> & -> & T2).
    simpl. split; [reflexivity|]. unfold Rst; simpl. rewrite T1, T2. auto 10.
  - assert (Hne1 : x :: d <> []) by discriminate.
    assert (Hne2 : src_data (s_src s2) <> []) by (rewrite <- H3; discriminate).
    destruct (D1 Hne1) as (-> & B1 & L1 & A1), (D2 Hne2) as (-> & B2 & L2 & A2).
    destruct (one_byte _ B1 L1) as [y1 ->], (one_byte _ B2 L2) as [y2 ->].
    rewrite <- H3 in A2. simpl in A1, A2. injection A1 as -> A1. injection A2 as -> A2.
    simpl. split; [reflexivity|]. unfold Rst; simpl. rewrite <- A1, <- A2. auto 10.
Qed.

(* the fill loop on a good source, by its data alone *)
Lemma fill_loop_good fuel : forall need s,
  good_src s = true -> 1 <= need -> (length (src_data s) < fuel)%nat ->
  if need <=? lenN (src_data s) then
    exists s', fill_loop fuel need s = Some (Some (takeN need (src_data s), s')) /\
               good_src s' = true /\ src_data s' = dropN need (src_data s)
  else fill_loop fuel need s = Some None.
Proof.
  induction fuel as [|f IH]; intros need s Hg Hn Hf; [lia|].
  simpl. pose proof (rd_good need s Hg Hn) as R.
  destruct (rd need s) as [[bs e] s']. destruct R as [G [Nil Dat]].
  destruct (src_data s) as [|x d] eqn:E.
  - destruct (Nil eq_refl) as (-> & -> & _). simpl.
    destruct (N.leb_spec need 0); [lia | reflexivity].
  - destruct (Dat ltac:(discriminate)) as (-> & B & L & A).
    assert (Hlen : (length (src_data s') < f)%nat).
    { apply (f_equal (@length _)) in A. rewrite app_length in A. simpl in *.
      destruct bs; [congruence|]. simpl in A. lia. }
    destruct (N.leb_spec need (lenN bs)) as [Hfull|Hpart].
    + assert (lenN bs = need) by lia. subst need.
      rewrite A, lenN_app. destruct (N.leb_spec (lenN bs) (lenN bs + lenN (src_data s'))); [|lia].
      exists s'. rewrite takeN_app_exact, dropN_app_exact. auto.
    + specialize (IH (need - lenN bs) s' G ltac:(lia) Hlen).
      rewrite A, lenN_app.
      destruct (N.leb_spec (need - lenN bs) (lenN (src_data s'))) as [Hen|Hno].
      * destruct IH as (s'' & -> & G'' & D'').
        destruct (N.leb_spec need (lenN bs + lenN (src_data s'))); [|lia].
        exists s''. rewrite takeN_app_more, dropN_app_more by lia. auto.
      * rewrite IH. destruct (N.leb_spec need (lenN bs + lenN (src_data s'))); [lia | reflexivity].
Qed.

Lemma sim_fill at0 need : sim (fill at0 need).
Proof.
  intros s1 s2 (H1 & H2 & H3 & H4 & H5 & H6). unfold fill.
  destruct (N.eqb_spec need 0) as [->|Hn].
  - simpl. split; [reflexivity|]. unfold Rst. auto 10.
  - pose proof (fill_loop_good (src_fuel (s_src s1)) need (s_src s1) H1 ltac:(lia)
                  ltac:(unfold src_fuel; lia)) as F1.
    pose proof (fill_loop_good (src_fuel (s_src s2)) need (s_src s2) H2 ltac:(lia)
                  ltac:(unfold src_fuel; lia)) as F2.
    rewrite <- H3 in F2.
    destruct (need <=? lenN (src_data (s_src s1))).
    + destruct F1 as (t1 & -> & G1 & D1), F2 as (t2 & -> & G2 & D2).
      simpl. split; [reflexivity|]. unfold Rst; simpl. rewrite D1, D2, H4. auto 10.
    + rewrite F1, F2. simpl. exact H6.
Qed.

#[export] Hint Resolve sim_ret sim_fail sim_stuck sim_emit sim_ev sim_get_b0 sim_get_fuel
  sim_mark sim_rd1 sim_fill : simdb.

Ltac sim_go :=
  repeat first
    [ solve [auto 2 with simdb]
    | apply sim_bind; [ | intros ]
    | match goal with |- sim (if ?c then _ else _) => destruct c end
    | match goal with |- sim (match ?x with _ => _ end) => destruct x end
    | match goal with |- sim (let '(_, _) := ?p in _) => destruct p end ].

Section Sims.
  Variable maxdoc : N.

  Lemma sim_read_u8 : sim (read_u8 maxdoc).
  Proof. unfold read_u8. sim_go. Qed.

  Lemma sim_read_type_or_eof : sim (read_type_or_eof maxdoc).
  Proof. unfold read_type_or_eof. sim_go. Qed.

  Lemma sim_fill_mark at0 n : sim (fill_mark maxdoc at0 n).
  Proof. unfold fill_mark. sim_go. Qed.

  Lemma sim_read_bytes n : sim (read_bytes maxdoc n).
  Proof. apply sim_fill_mark. Qed.

  Lemma sim_rd1x : sim (rd1x maxdoc).
  Proof. unfold rd1x. sim_go. Qed.
  Hint Resolve sim_fill_mark sim_rd1x : simdb.

  Lemma sim_uleb_loop fuel : forall acc shift k, sim (uleb_loop maxdoc fuel acc shift k).
  Proof.
    induction fuel as [|f IH]; intros acc shift k; simpl; [apply sim_stuck|].
    sim_go; try apply IH.
  Qed.

  Lemma sim_uleb : sim (uleb maxdoc).
  Proof. unfold uleb. sim_go; try apply sim_uleb_loop. Qed.

  Hint Resolve sim_read_u8 sim_read_type_or_eof sim_read_bytes sim_uleb : simdb.

  Lemma sim_small_uleb maxv : sim (small_uleb maxdoc maxv).
  Proof. unfold small_uleb. sim_go. Qed.
  Hint Resolve sim_small_uleb : simdb.

  Lemma sim_read_identifier : sim (read_identifier maxdoc).
  Proof. unfold read_identifier. sim_go. Qed.

  Lemma sim_read_uint : sim (read_uint maxdoc).
  Proof. unfold read_uint. sim_go. Qed.

  Lemma sim_read_decimal : sim (read_decimal maxdoc).
  Proof. unfold read_decimal. sim_go. Qed.

  Lemma sim_read_timezone : sim (read_timezone maxdoc).
  Proof. unfold read_timezone. sim_go. Qed.
  Hint Resolve sim_read_identifier sim_read_uint sim_read_decimal sim_read_timezone : simdb.

  Lemma sim_read_date : sim (read_date maxdoc).
  Proof. unfold read_date. sim_go. Qed.

  Lemma sim_read_time : sim (read_time maxdoc).
  Proof. unfold read_time. sim_go. Qed.

  Lemma sim_read_timestamp : sim (read_timestamp maxdoc).
  Proof. unfold read_timestamp. sim_go. Qed.
  Hint Resolve sim_read_date sim_read_time sim_read_timestamp : simdb.

  Lemma sim_chunks fuel : forall width, sim (chunks maxdoc fuel width).
  Proof.
    induction fuel as [|f IH]; intro width; simpl; [apply sim_stuck|].
    sim_go; try apply IH.
  Qed.
  Hint Resolve sim_chunks : simdb.

  Lemma sim_decode_array fuel t : sim (decode_array maxdoc fuel t).
  Proof. unfold decode_array. sim_go. Qed.

  Lemma sim_decode_media fuel : sim (decode_media maxdoc fuel).
  Proof. unfold decode_media. sim_go. Qed.

  Lemma sim_decode_custom fuel : sim (decode_custom maxdoc fuel).
  Proof. unfold decode_custom. sim_go. Qed.

  Lemma sim_short_array t sz cnt : sim (short_array maxdoc t sz cnt).
  Proof. unfold short_array. sim_go. Qed.
  Hint Resolve sim_decode_array sim_decode_media sim_decode_custom sim_short_array : simdb.

  Lemma sim_decode_plane7f fuel : sim (decode_plane7f maxdoc fuel).
  Proof. unfold decode_plane7f. sim_go. Qed.

  Lemma sim_int_event neg v : sim (int_event neg v).
  Proof. unfold int_event. sim_go. Qed.
  Hint Resolve sim_decode_plane7f sim_int_event : simdb.

  Lemma sim_decode_token fuel t : sim (decode_token maxdoc fuel t).
  Proof. unfold decode_token. sim_go. Qed.
  Hint Resolve sim_decode_token : simdb.

  Lemma sim_main_loop fuel : sim (main_loop maxdoc fuel).
  Proof.
    induction fuel as [|f IH]; simpl; [apply sim_stuck|].
    sim_go; try exact IH.
  Qed.
  Hint Resolve sim_main_loop : simdb.

  Lemma sim_decode_doc fuel : sim (decode_doc maxdoc fuel).
  Proof. unfold decode_doc. sim_go. Qed.

  (* Two good sources holding the same bytes: same events, same error-or-not. *)
  Lemma cbe_decode_src_good s1 s2 :
    good_src s1 = true -> good_src s2 = true -> src_data s1 = src_data s2 ->
    cbe_decode_src maxdoc s1 = cbe_decode_src maxdoc s2.
  Proof.
    intros H1 H2 H3. unfold cbe_decode_src. rewrite (src_fuel_eq s1 s2 H1 H2 H3).
    assert (R : Rst (mkst s1 0 0 []) (mkst s2 0 0 [])) by (unfold Rst; simpl; auto 10).
    pose proof (sim_decode_doc (src_fuel s2) _ _ R) as S.
    destruct (decode_doc maxdoc (src_fuel s2) (mkst s1 0 0 [])) as [a t1|t1|],
             (decode_doc maxdoc (src_fuel s2) (mkst s2 0 0 [])) as [b t2|t2|];
      simpl in S; try contradiction; simpl.
    - destruct S as [_ (_ & _ & _ & _ & _ & ->)]. reflexivity.
    - now rewrite S.
    - reflexivity.
  Qed.
End Sims.

Lemma mem_script_good d : good_script (mem_script d) = true.
Proof. destruct d; reflexivity. Qed.

Lemma mem_script_data d : script_data (mem_script d) = d.
Proof. destruct d; [reflexivity|]. unfold script_data; simpl. now rewrite app_nil_r. Qed.

(* stream_eq_memory on the script class that works *)
Theorem decode_stream_good maxdoc sc d :
  good_script sc = true -> script_data sc = d ->
  decode_stream maxdoc sc = decode_mem maxdoc d.
Proof.
  intros Hg Hd. unfold decode_mem, decode_stream. apply cbe_decode_src_good; simpl.
  - exact Hg.
  - apply mem_script_good.
  - now rewrite mem_script_data.
Qed.

(* ------------------------------------------------------------------ *)
(* facts about one Read that hold for every source                      *)
(* ------------------------------------------------------------------ *)

Definition mu (s : src) : nat := (length (src_data s) + src_zeros s)%nat.

Lemma script_zeros_cons r rest :
  script_zeros (r :: rest) = ((if is_zero_resp r then 1 else 0) + script_zeros rest)%nat.
Proof. unfold script_zeros; simpl. destruct (is_zero_resp r); reflexivity. Qed.

Lemma script_data_cons bs e rest : script_data ((bs, e) :: rest) = bs ++ script_data rest.
Proof. reflexivity. Qed.

Lemma is_zero_nonnil bs e : bs <> [] -> is_zero_resp (bs, e) = false.
Proof. destruct bs; [congruence | reflexivity]. Qed.

(* data is handed out in order; (0, nil) responses are used up; without an
   error something is always used up *)
Lemma rd_script_gen cap sc :
  1 <= cap ->
  let '(bs, e, sc') := rd_script cap sc in
  script_data sc = bs ++ script_data sc' /\
  (script_zeros sc' <= script_zeros sc)%nat /\
  lenN bs <= cap /\
  (e = false -> bs = [] -> (script_zeros sc' < script_zeros sc)%nat).
Proof.
  intro Hcap. destruct sc as [|[bs e] rest]; cbn [rd_script].
  - simpl. repeat split; auto; try lia; try discriminate.
  - destruct (N.leb_spec (lenN bs) cap) as [Hle|Hgt].
    + rewrite script_data_cons, script_zeros_cons. repeat split; auto; try lia.
      intros -> ->. simpl. lia.
    + rewrite !script_data_cons, !script_zeros_cons.
      assert (Hb : bs <> []) by (intro E; subst bs; simpl in Hgt; lia).
      assert (Z1 : is_zero_resp (bs, e) = false) by (destruct bs; [congruence | reflexivity]).
      assert (Z2 : is_zero_resp (dropN cap bs, e) = false).
      { pose proof (dropN_nonnil cap bs Hgt) as Hd. destruct (dropN cap bs); [congruence | reflexivity]. }
      rewrite Z1, Z2.
      repeat split; try lia.
      * rewrite app_assoc, take_drop. reflexivity.
      * rewrite lenN_takeN. lia.
      * intros _ E. exfalso. revert E. apply takeN_nonnil; assumption.
Qed.

Lemma rd_gen cap s :
  1 <= cap ->
  let '(bs, e, s') := rd cap s in
  src_data s = bs ++ src_data s' /\
  (src_zeros s' <= src_zeros s)%nat /\
  lenN bs <= cap /\
  (e = false -> bs = [] -> (src_zeros s' < src_zeros s)%nat).
Proof.
  intro Hcap. destruct s as [sc | buf pend sc]; simpl.
  - pose proof (rd_script_gen cap sc Hcap) as H.
    destruct (rd_script cap sc) as [[bs e] sc']. exact H.
  - destruct buf as [|x buf].
    + destruct pend.
      * simpl. repeat split; auto; try lia; try discriminate.
      * destruct (N.leb_spec bufio_size cap) as [Hbig|Hsmall].
        -- pose proof (rd_script_gen cap sc Hcap) as H.
           destruct (rd_script cap sc) as [[bs e] sc']. exact H.
        -- assert (H1 : 1 <= bufio_size) by (unfold bufio_size; lia).
           pose proof (rd_script_gen bufio_size sc H1) as H.
           destruct (rd_script bufio_size sc) as [[bs e] sc'].
           destruct H as (Hd & Hz & Hl & Hp). destruct bs as [|y bs].
           ++ simpl. repeat split; auto. lia.
           ++ cbn [src_data src_zeros]. repeat split; auto.
              ** rewrite Hd. change ([] ++ ?x) with x.
                 rewrite (app_assoc (takeN cap (y :: bs))), take_drop. reflexivity.
              ** rewrite lenN_takeN. lia.
              ** intros _ E. exfalso. revert E. apply takeN_nonnil; [assumption | discriminate].
    + cbn [src_data src_zeros]. repeat split; auto.
      * rewrite (app_assoc (takeN cap (x :: buf))), take_drop. reflexivity.
      * rewrite lenN_takeN. lia.
      * intros _ E. exfalso. revert E. apply takeN_nonnil; [assumption | discriminate].
Qed.

(* every Read that returns no error makes the measure smaller *)
Lemma rd_mu cap s :
  1 <= cap ->
  let '(bs, e, s') := rd cap s in
  (mu s' <= mu s)%nat /\ (e = false -> (mu s' < mu s)%nat).
Proof.
  intro Hcap. pose proof (rd_gen cap s Hcap) as H.
  destruct (rd cap s) as [[bs e] s']. destruct H as (Hd & Hz & _ & Hp).
  unfold mu. rewrite Hd, app_length. split; [lia|].
  intro He. destruct bs as [|x bs]; [specialize (Hp He eq_refl); simpl; lia | simpl; lia].
Qed.

(* ------------------------------------------------------------------ *)
(* io.Copy: every reader gives the whole data                           *)
(* ------------------------------------------------------------------ *)

(* io.EOF at the very end only: with the error the data is finished *)
Definition wf_src (s : src) : Prop :=
  match s with
  | Direct sc => eof_last sc = true
  | Buffered _ pend sc => eof_last sc = true /\ (pend = true -> script_data sc = [])
  end.

Lemma eof_last_cons bs e r rest :
  eof_last ((bs, e) :: r :: rest) = true -> e = false /\ eof_last (r :: rest) = true.
Proof.
  simpl. destruct r as [bs' e']. intro H. apply andb_true_iff in H as [H1 H2].
  split; [now destruct e | exact H2].
Qed.

Lemma eof_last_tail r rest : eof_last (r :: rest) = true -> eof_last rest = true.
Proof.
  destruct rest as [|r' rest]; [reflexivity|]. destruct r as [bs e].
  intro H. now apply eof_last_cons in H.
Qed.

Lemma rd_script_wf cap sc :
  eof_last sc = true ->
  let '(bs, e, sc') := rd_script cap sc in
  eof_last sc' = true /\ (e = true -> script_data sc' = []).
Proof.
  intro H. destruct sc as [|[bs e] rest]; simpl; [auto|].
  destruct (lenN bs <=? cap).
  - split; [now apply eof_last_tail in H|].
    intros ->. destruct rest as [|r rest]; [reflexivity|].
    apply eof_last_cons in H as [H _]. discriminate.
  - split; [|discriminate]. destruct rest as [|r rest]; [reflexivity|].
    apply eof_last_cons in H as [-> H]. simpl. destruct r. exact H.
Qed.

Lemma rd_wf cap s :
  wf_src s ->
  let '(bs, e, s') := rd cap s in wf_src s' /\ (e = true -> src_data s' = []).
Proof.
  intro H. destruct s as [sc | buf pend sc]; simpl in *.
  - pose proof (rd_script_wf cap sc H) as W.
    destruct (rd_script cap sc) as [[bs e] sc']. exact W.
  - destruct H as [H Hp]. destruct buf as [|x buf].
    + destruct pend.
      * simpl. split; [split; [exact H | discriminate]|]. intros _. now apply Hp.
      * destruct (bufio_size <=? cap).
        -- pose proof (rd_script_wf cap sc H) as W.
           destruct (rd_script cap sc) as [[bs e] sc']. destruct W as [W1 W2].
           simpl. split; [split; [exact W1 | discriminate]|]. exact W2.
        -- pose proof (rd_script_wf bufio_size sc H) as W.
           destruct (rd_script bufio_size sc) as [[bs e] sc']. destruct W as [W1 W2].
           destruct bs as [|y bs]; simpl.
           ++ split; [split; [exact W1 | discriminate]|]. exact W2.
           ++ split; [split; [exact W1 | exact W2]|]. discriminate.
    + simpl. split; [split; assumption | discriminate].
Qed.

Lemma copy_loop_all fuel : forall s,
  wf_src s -> (mu s < fuel)%nat -> copy_loop fuel s = Some (src_data s).
Proof.
  induction fuel as [|f IH]; intros s Hw Hf; [lia|]. simpl.
  assert (Hc : 1 <= copy_cap) by (unfold copy_cap; lia).
  pose proof (rd_gen copy_cap s Hc) as G. pose proof (rd_mu copy_cap s Hc) as U.
  pose proof (rd_wf copy_cap s Hw) as W.
  destruct (rd copy_cap s) as [[bs e] s']. destruct G as (Hd & _), U as (U1 & U2), W as (W1 & W2).
  destruct e.
  - rewrite Hd, (W2 eq_refl), app_nil_r. reflexivity.
  - rewrite (IH s' W1 ltac:(specialize (U2 eq_refl); lia)), Hd. reflexivity.
Qed.

Lemma copy_all_wf s : wf_src s -> copy_all s = Some (src_data s).
Proof. intro H. apply copy_loop_all; [exact H | unfold mu, src_fuel; lia]. Qed.

Section EntryProofs.
  Context {R : Type}.
  Variable maxdoc : N.
  Variable cte_parse : bytes -> outcome R.
  Variable cbe_build : result -> outcome R.

  (* The CTE entry points do not depend on the script at all. *)
  Theorem cte_stream_all sc d :
    eof_last sc = true -> script_data sc = d ->
    cte_stream cte_parse sc = cte_mem cte_parse d.
  Proof.
    intros Hw Hd. unfold cte_stream, cte_src, cte_mem.
    rewrite (copy_all_wf (Direct sc) Hw). simpl. now rewrite Hd.
  Qed.

  Theorem cbe_stream_good sc d :
    good_script sc = true -> script_data sc = d ->
    cbe_stream maxdoc cbe_build sc = cbe_mem maxdoc cbe_build d.
  Proof.
    intros Hg Hd. unfold cbe_stream, cbe_mem. now rewrite (decode_stream_good maxdoc sc d Hg Hd).
  Qed.
End EntryProofs.

(* ------------------------------------------------------------------ *)
(* universal entry points on good scripts                               *)
(* ------------------------------------------------------------------ *)

Lemma good_eof_last sc : good_script sc = true -> eof_last sc = true.
Proof.
  induction sc as [|[bs e] rest IH]; [reflexivity|]. intro H.
  apply good_script_cases in H as [(-> & -> & ->) | (-> & _ & Hr)]; [reflexivity|].
  destruct rest as [|r rest]; [reflexivity|]. simpl. destruct r. apply IH, Hr.
Qed.

Lemma peek_init_good sc :
  good_script sc = true ->
  match peek_init sc with
  | None => script_data sc = []
  | Some s => good_src s = true /\ wf_src s /\ src_data s = script_data sc /\ script_data sc <> []
  end.
Proof.
  intro Hg. unfold peek_init. change (peek_fill 100 sc) with
    (let '(bs, e, sc') := rd_script bufio_size sc in
     if e then Some (bs, true, sc')
     else match bs with [] => peek_fill 99 sc' | _ => Some (bs, false, sc') end).
  assert (H1 : 1 <= bufio_size) by (unfold bufio_size; lia).
  pose proof (rd_script_good bufio_size sc Hg H1) as H.
  destruct (rd_script bufio_size sc) as [[bs e] sc']. destruct H as [Hg' [Hnil Hdat]].
  destruct (script_data sc) as [|x d] eqn:E.
  - destruct (Hnil eq_refl) as (-> & -> & _). reflexivity.
  - destruct (Hdat ltac:(discriminate)) as (-> & Hb & _ & Hd).
    destruct bs as [|y bs]; [congruence|].
    simpl. rewrite Hg'. repeat split; auto.
    + now apply good_eof_last.
    + discriminate.
    + discriminate.
Qed.

Section EntryProofs2.
  Context {R : Type}.
  Variable maxdoc : N.
  Variable cte_parse : bytes -> outcome R.
  Variable cbe_build : result -> outcome R.

  Theorem ce_stream_good sc d :
    good_script sc = true -> script_data sc = d ->
    ce_stream maxdoc cte_parse cbe_build sc = ce_mem maxdoc cte_parse cbe_build d.
  Proof.
    intros Hg Hd. unfold ce_stream, ce_mem. pose proof (peek_init_good sc Hg) as P.
    destruct (peek_init sc) as [s|].
    - destruct P as (G & W & D & Hne). rewrite D, Hd. destruct d as [|b d]; [congruence|].
      destruct ((b =? 99) || (b =? 67)).
      + unfold cte_src, cte_mem. rewrite (copy_all_wf s W), D, Hd. reflexivity.
      + destruct (b =? 129); [|reflexivity].
        unfold cbe_mem, decode_mem, decode_stream. f_equal.
        apply cbe_decode_src_good.
        * exact G.
        * apply mem_script_good.
        * cbn [src_data]. rewrite mem_script_data, D, Hd. reflexivity.
    - rewrite <- Hd, P. reflexivity.
  Qed.
End EntryProofs2.

(* ------------------------------------------------------------------ *)
(* the two response kinds that break the CBE decoder                    *)
(* ------------------------------------------------------------------ *)

Definition default_maxdoc : N := 5368709120.

(* the whole document [81 00 01] in one response together with io.EOF:
   the last byte is taken for the end of the document *)
Definition witness_data_eof : script := [([129; 0; 1], true)].
(* a (0, nil) read where a type byte is expected: the previous byte is decoded again *)
Definition witness_zero_read : script := [([129; 0], false); ([], false); ([1], false)].
(* a (0, nil) read inside a multi-byte ULEB128 (version 80 80 00): value 0, and the
   rest of the field is decoded as objects *)
Definition witness_zero_read_uleb : script := [([129; 128], false); ([], false); ([128; 0; 154; 155], false)].
(* one byte per call, the last one with io.EOF, inside a 2-byte field: an error *)
Definition witness_data_eof_field : script := [([129], false); ([0], false); ([106], false); ([1], false); ([2], true)].

Lemma refute_data_eof :
  delivers witness_data_eof [129; 0; 1] /\
  decode_stream default_maxdoc witness_data_eof <> decode_mem default_maxdoc [129; 0; 1].
Proof. split; [split; reflexivity|]. vm_compute. discriminate. Qed.

Lemma refute_zero_read :
  delivers witness_zero_read [129; 0; 1] /\
  decode_stream default_maxdoc witness_zero_read <> decode_mem default_maxdoc [129; 0; 1].
Proof. split; [split; reflexivity|]. vm_compute. discriminate. Qed.

Lemma refute_zero_read_uleb :
  delivers witness_zero_read_uleb [129; 128; 128; 0; 154; 155] /\
  decode_stream default_maxdoc witness_zero_read_uleb <> decode_mem default_maxdoc [129; 128; 128; 0; 154; 155].
Proof. split; [split; reflexivity|]. vm_compute. discriminate. Qed.

Lemma refute_data_eof_field :
  delivers witness_data_eof_field [129; 0; 106; 1; 2] /\
  decode_stream default_maxdoc witness_data_eof_field <> decode_mem default_maxdoc [129; 0; 106; 1; 2].
Proof. split; [split; reflexivity|]. vm_compute. discriminate. Qed.

(* the same through the universal entry point: bufio hides data+EOF for small
   reads but passes (0, nil) on *)
Lemma refute_zero_read_universal :
  match peek_init witness_zero_read with
  | Some s => cbe_decode_src default_maxdoc s <> decode_mem default_maxdoc [129; 0; 1]
  | None => False
  end.
Proof. vm_compute. discriminate. Qed.

Lemma good_excludes sc :
  good_script sc = true -> has_zero_read sc = false /\ has_data_eof sc = false.
Proof.
  induction sc as [|[bs e] rest IH]; [auto|]. intro H.
  apply good_script_cases in H as [(-> & -> & ->) | (-> & Hb & Hr)]; [auto|].
  destruct (IH Hr) as [Z D]. unfold has_zero_read, has_data_eof in *. simpl.
  destruct bs; [congruence|]. simpl. auto.
Qed.

(* ------------------------------------------------------------------ *)
(* statements as used by Props/C28.v                                    *)
(* ------------------------------------------------------------------ *)

Lemma delivers_eof_last sc d : delivers sc d -> eof_last sc = true.
Proof. intros [H _]. unfold script_wf in H. now apply andb_true_iff in H as [H _]. Qed.

Lemma stream_eq_memory_partial :
  forall maxdoc sc d, delivers sc d -> good_script sc = true ->
    decode_stream maxdoc sc = decode_mem maxdoc d.
Proof. intros maxdoc sc d [_ Hd] Hg. now apply decode_stream_good. Qed.

Lemma stream_eq_memory_refuted :
  ~ (forall maxdoc sc d, delivers sc d -> decode_stream maxdoc sc = decode_mem maxdoc d).
Proof. intro H. destruct refute_data_eof as [Hd Hn]. apply Hn, H, Hd. Qed.

Lemma stream_eq_memory_refuted_data_eof :
  exists maxdoc sc d, delivers sc d /\ has_zero_read sc = false /\
    decode_stream maxdoc sc <> decode_mem maxdoc d.
Proof.
  exists default_maxdoc, witness_data_eof, [129; 0; 1].
  destruct refute_data_eof as [Hd Hn]. repeat split; try apply Hd. exact Hn.
Qed.

Lemma stream_eq_memory_refuted_zero_read :
  exists maxdoc sc d, delivers sc d /\ has_data_eof sc = false /\
    decode_stream maxdoc sc <> decode_mem maxdoc d.
Proof.
  exists default_maxdoc, witness_zero_read, [129; 0; 1].
  destruct refute_zero_read as [Hd Hn]. repeat split; try apply Hd. exact Hn.
Qed.

Lemma cte_stream_eq_memory :
  forall (R : Type) (cte_parse : bytes -> outcome R) sc d,
    delivers sc d -> cte_stream cte_parse sc = cte_mem cte_parse d.
Proof.
  intros R cte_parse sc d H. apply cte_stream_all; [now apply (delivers_eof_last sc d) | apply H].
Qed.

Lemma ce_stream_eq_memory_partial :
  forall (R : Type) maxdoc (cte_parse : bytes -> outcome R) (cbe_build : result -> outcome R) sc d,
    delivers sc d -> good_script sc = true ->
    ce_stream maxdoc cte_parse cbe_build sc = ce_mem maxdoc cte_parse cbe_build d.
Proof. intros R maxdoc cte_parse cbe_build sc d [_ Hd] Hg. now apply ce_stream_good. Qed.

(* ------------------------------------------------------------------ *)
(* the fuel is never exhausted                                          *)
(* ------------------------------------------------------------------ *)

Definition smu (s : rstate) : nat := mu (s_src s).

(* below the bound n: no Stuck, and the measure does not grow (P) / shrinks (Q) *)
Definition P (n : nat) {A} (m : M A) : Prop :=
  forall s, (smu s < n)%nat ->
    match m s with Ret _ s' => (smu s' <= smu s)%nat | Fail _ => True | Stuck => False end.
Definition Q (n : nat) {A} (m : M A) : Prop :=
  forall s, (smu s < n)%nat ->
    match m s with Ret _ s' => (smu s' < smu s)%nat | Fail _ => True | Stuck => False end.

Lemma Q_P n {A} (m : M A) : Q n m -> P n m.
Proof. intros H s Hs. specialize (H s Hs). destruct (m s); auto. lia. Qed.

Lemma P_ret n {A} (a : A) : P n (ret a).
Proof. intros s _. simpl. lia. Qed.
Lemma P_fail n {A} : P n (@fail A).
Proof. intros s _. exact I. Qed.
Lemma P_emit n t : P n (emit t).
Proof. intros s _. unfold emit, smu. simpl. lia. Qed.
Lemma P_ev n e : P n (ev e).
Proof. apply P_emit. Qed.
Lemma P_get_b0 n : P n get_b0.
Proof. intros s _. simpl. lia. Qed.
Lemma P_get_fuel n : P n get_fuel.
Proof. intros s _. simpl. lia. Qed.
Lemma P_mark n maxdoc k : P n (mark maxdoc k).
Proof. intros s _. unfold mark. destruct (_ <? _); [exact I|]. unfold smu; simpl. lia. Qed.

Lemma P_bind n {A B} (m : M A) (f : A -> M B) :
  P n m -> (forall a, P n (f a)) -> P n (bind m f).
Proof.
  intros Hm Hf s Hs. unfold bind. specialize (Hm s Hs).
  destruct (m s) as [a s'|s'|]; auto.
  specialize (Hf a s' ltac:(lia)). destruct (f a s'); auto. lia.
Qed.

Lemma Q_bind_l n {A B} (m : M A) (f : A -> M B) :
  Q n m -> (forall a, P n (f a)) -> Q n (bind m f).
Proof.
  intros Hm Hf s Hs. unfold bind. specialize (Hm s Hs).
  destruct (m s) as [a s'|s'|]; auto.
  specialize (Hf a s' ltac:(lia)). destruct (f a s'); auto. lia.
Qed.

(* a loop body: the head makes progress, the rest runs with one unit less *)
Lemma P_step n {A B} (m : M A) (f : A -> M B) :
  Q (S n) m -> (forall a, P n (f a)) -> P (S n) (bind m f).
Proof.
  intros Hm Hf s Hs. unfold bind. specialize (Hm s Hs).
  destruct (m s) as [a s'|s'|]; auto.
  specialize (Hf a s' ltac:(lia)). destruct (f a s'); auto. lia.
Qed.

Lemma P_weaken n n' {A} (m : M A) : (n' <= n)%nat -> P n m -> P n' m.
Proof. intros Hle H s Hs. apply H. lia. Qed.

Lemma rd1_spec s :
  exists got e s', rd1 s = Ret (got, e) s' /\ (smu s' <= smu s)%nat /\
    (got = true \/ e = false -> (smu s' < smu s)%nat).
Proof.
  unfold rd1. pose proof (rd_gen 1 (s_src s) ltac:(lia)) as G.
  destruct (rd 1 (s_src s)) as [[bs e] s']. destruct G as (Hd & Hz & _ & Hp).
  destruct bs as [|x bs].
  - exists false, e, (mkst s' (s_b0 s) (s_cnt s) (s_out s)). split; [reflexivity|].
    unfold smu, mu; simpl. rewrite Hd. simpl. split; [lia|].
    intros [Hx|He]; [discriminate|]. specialize (Hp He eq_refl). lia.
  - exists true, e, (mkst s' x (s_cnt s) (s_out s)). split; [reflexivity|].
    unfold smu, mu; simpl. rewrite Hd. simpl. rewrite app_length. lia.
Qed.

Lemma P_rd1 n : P n rd1.
Proof. intros s _. destruct (rd1_spec s) as (g & e & s' & -> & H & _). exact H. Qed.

Lemma rd1x_spec maxdoc s :
  match rd1x maxdoc s with
  | Ret r s' => (smu s' <= smu s)%nat /\ (fst r = true \/ snd r = false -> (smu s' < smu s)%nat)
  | Fail _ => True
  | Stuck => False
  end.
Proof.
  unfold rd1x, bind. destruct (rd1_spec s) as (g & e & s' & -> & H1 & H2).
  unfold mark. destruct (_ <? _); [exact I|]. simpl. unfold smu in *; simpl. auto.
Qed.

Lemma P_rd1x n maxdoc : P n (rd1x maxdoc).
Proof. intros s _. pose proof (rd1x_spec maxdoc s) as H. destruct (rd1x maxdoc s); auto. apply H. Qed.

(* r <- read ;; if io.EOF then fail else ...: success means progress *)
Lemma Q_rd1_guard n {B} (k : bool * bool -> M B) :
  (forall r, P n (k r)) -> Q n (bind rd1 (fun r => if snd r then fail else k r)).
Proof.
  intros Hk s Hs. unfold bind. destruct (rd1_spec s) as (g & e & s' & -> & H1 & H2).
  simpl. destruct e; [exact I|]. specialize (H2 (or_intror eq_refl)).
  specialize (Hk (g, false) s' ltac:(lia)). destruct (k (g, false) s'); auto. lia.
Qed.

Lemma Q_rd1x_guard n maxdoc {B} (k : bool * bool -> M B) :
  (forall r, P n (k r)) -> Q n (bind (rd1x maxdoc) (fun r => if snd r then fail else k r)).
Proof.
  intros Hk s Hs. unfold bind. pose proof (rd1x_spec maxdoc s) as H.
  destruct (rd1x maxdoc s) as [[g e] s'|s'|]; auto. simpl in *. destruct H as [H1 H2].
  destruct e; [exact I|]. specialize (H2 (or_intror eq_refl)).
  specialize (Hk (g, false) s' ltac:(lia)). destruct (k (g, false) s'); auto. lia.
Qed.

Lemma fill_loop_total fuel : forall need s,
  1 <= need -> (mu s < fuel)%nat ->
  match fill_loop fuel need s with
  | None => False
  | Some None => True
  | Some (Some (_, s')) => (mu s' <= mu s)%nat
  end.
Proof.
  induction fuel as [|f IH]; intros need s Hn Hf; [lia|]. simpl.
  pose proof (rd_mu need s Hn) as U. pose proof (rd_gen need s Hn) as G.
  destruct (rd need s) as [[bs e] s']. destruct U as [U1 U2], G as (_ & _ & Hl & _).
  destruct e; [exact I|]. specialize (U2 eq_refl).
  destruct (N.leb_spec need (lenN bs)); [exact U1|].
  specialize (IH (need - lenN bs) s' ltac:(lia) ltac:(lia)).
  destruct (fill_loop f (need - lenN bs) s') as [[[more s'']|]|]; auto. lia.
Qed.

Lemma P_fill n at0 need : P n (fill at0 need).
Proof.
  intros s _. unfold fill. destruct (need =? 0) eqn:E; [simpl; lia|].
  apply N.eqb_neq in E.
  pose proof (fill_loop_total (src_fuel (s_src s)) need (s_src s) ltac:(lia)
                ltac:(unfold mu, src_fuel; lia)) as H.
  destruct (fill_loop _ need (s_src s)) as [[[bs s']|]|]; auto.
Qed.

#[export] Hint Resolve P_ret P_fail P_emit P_ev P_get_b0 P_get_fuel P_mark P_rd1 P_rd1x P_fill : pdb.

Ltac p_go :=
  repeat first
    [ solve [auto 2 with pdb]
    | apply P_bind; [ | intros ]
    | match goal with |- P _ (if ?c then _ else _) => destruct c end
    | match goal with |- P _ (match ?x with _ => _ end) => destruct x end
    | match goal with |- P _ (let '(_, _) := ?p in _) => destruct p end ].

Section NoHang.
  Variable maxdoc : N.

  Lemma P_read_u8 n : P n (read_u8 maxdoc).
  Proof. unfold read_u8. p_go. Qed.
  Lemma P_fill_mark n at0 k : P n (fill_mark maxdoc at0 k).
  Proof. unfold fill_mark. p_go. Qed.
  Lemma P_read_bytes n k : P n (read_bytes maxdoc k).
  Proof. apply P_fill_mark. Qed.
  Hint Resolve P_read_u8 P_fill_mark P_read_bytes : pdb.

  Lemma P_uleb_loop f : forall acc shift k, P f (uleb_loop maxdoc f acc shift k).
  Proof.
    induction f as [|f IH]; intros acc shift k; [intros s Hs; lia|].
    intros s Hs. cbn [uleb_loop]. unfold bind at 1.
    pose proof (rd1x_spec maxdoc s) as H.
    destruct (rd1x maxdoc s) as [[g e] s'|s'|]; auto. cbn [fst snd] in H.
    destruct H as [H1 H2]. destruct g; cbn [fst snd negb].
    - specialize (H2 (or_introl eq_refl)). unfold bind, get_b0.
      destruct (N.testbit (s_b0 s') 7).
      + specialize (IH (acc + N.shiftl (N.land (s_b0 s') 127) shift) (shift + 7) (k + 1) s' ltac:(lia)).
        destruct (uleb_loop maxdoc f _ _ _ s'); auto. lia.
      + destruct e; simpl; auto.
    - destruct e; simpl; auto.
  Qed.

  Lemma P_uleb_tail n acc shift k :
    P n (bind get_fuel (fun fuel => uleb_loop maxdoc fuel acc shift k)).
  Proof.
    intros s _. unfold bind, get_fuel.
    apply (P_uleb_loop (src_fuel (s_src s))). unfold smu, mu, src_fuel. lia.
  Qed.
  Hint Resolve P_uleb_tail : pdb.

  Lemma Q_uleb n : Q n (uleb maxdoc).
  Proof. unfold uleb. apply Q_rd1x_guard. intro r. p_go. Qed.

  Lemma Q_small_uleb n maxv : Q n (small_uleb maxdoc maxv).
  Proof. unfold small_uleb. apply Q_bind_l; [apply Q_uleb|]. intro u. p_go. Qed.

  Lemma P_uleb n : P n (uleb maxdoc).
  Proof. apply Q_P, Q_uleb. Qed.
  Lemma P_small_uleb n maxv : P n (small_uleb maxdoc maxv).
  Proof. apply Q_P, Q_small_uleb. Qed.
  Hint Resolve P_uleb P_small_uleb : pdb.

  Lemma P_read_identifier n : P n (read_identifier maxdoc).
  Proof. unfold read_identifier. p_go. Qed.
  Lemma P_read_uint n : P n (read_uint maxdoc).
  Proof. unfold read_uint. p_go. Qed.
  Lemma P_read_decimal n : P n (read_decimal maxdoc).
  Proof. unfold read_decimal. p_go. Qed.
  Lemma P_read_timezone n : P n (read_timezone maxdoc).
  Proof. unfold read_timezone. p_go. Qed.
  Hint Resolve P_read_identifier P_read_uint P_read_decimal P_read_timezone : pdb.
  Lemma P_read_date n : P n (read_date maxdoc).
  Proof. unfold read_date. p_go. Qed.
  Lemma P_read_time n : P n (read_time maxdoc).
  Proof. unfold read_time. p_go. Qed.
  Lemma P_read_timestamp n : P n (read_timestamp maxdoc).
  Proof. unfold read_timestamp. p_go. Qed.
  Hint Resolve P_read_date P_read_time P_read_timestamp : pdb.

  Lemma P_chunks f : forall width, P f (chunks maxdoc f width).
  Proof.
    induction f as [|f IH]; intro width; [intros s Hs; lia|].
    cbn [chunks]. apply P_step; [apply Q_small_uleb|]. intro hdr.
    p_go; try apply IH.
  Qed.
  Hint Resolve P_chunks : pdb.

  Lemma P_decode_array f t : P f (decode_array maxdoc f t).
  Proof. unfold decode_array. p_go. Qed.
  Lemma P_decode_media f : P f (decode_media maxdoc f).
  Proof. unfold decode_media. p_go. Qed.
  Lemma P_decode_custom f : P f (decode_custom maxdoc f).
  Proof. unfold decode_custom. p_go. Qed.
  Lemma P_short_array n t sz cnt : P n (short_array maxdoc t sz cnt).
  Proof. unfold short_array. p_go. Qed.
  Hint Resolve P_decode_array P_decode_media P_decode_custom P_short_array : pdb.
  Lemma P_decode_plane7f f : P f (decode_plane7f maxdoc f).
  Proof. unfold decode_plane7f. p_go. Qed.
  Lemma P_int_event n neg v : P n (int_event neg v).
  Proof. unfold int_event. p_go. Qed.
  Hint Resolve P_decode_plane7f P_int_event : pdb.
  Lemma P_decode_token f t : P f (decode_token maxdoc f t).
  Proof. unfold decode_token. p_go. Qed.

  Lemma rtoe_spec s :
    match read_type_or_eof maxdoc s with
    | Ret None s' => (smu s' <= smu s)%nat
    | Ret (Some _) s' => (smu s' < smu s)%nat
    | Fail _ => True
    | Stuck => False
    end.
  Proof.
    unfold read_type_or_eof, bind. destruct (rd1_spec s) as (g & e & s' & -> & H1 & H2).
    cbn [snd]. destruct e; [exact H1|]. specialize (H2 (or_intror eq_refl)).
    unfold mark. destruct (maxdoc <? (s_cnt s' + 1) mod two64); [exact I|].
    unfold get_b0, ret, smu in *. simpl. exact H2.
  Qed.

  Lemma P_main_loop f : P f (main_loop maxdoc f).
  Proof.
    induction f as [|f IH]; [intros s Hs; lia|].
    intros s Hs. cbn [main_loop]. unfold bind at 1.
    pose proof (rtoe_spec s) as H.
    destruct (read_type_or_eof maxdoc s) as [[t|] s1|s1|]; auto.
    unfold bind. pose proof (P_decode_token f t s1 ltac:(lia)) as T.
    destruct (decode_token maxdoc f t s1) as [u s2|s2|]; auto.
    specialize (IH s2 ltac:(lia)). destruct (main_loop maxdoc f s2); auto. lia.
  Qed.

  Lemma decode_doc_not_stuck s0 :
    (smu s0 < src_fuel (s_src s0))%nat -> decode_doc maxdoc (src_fuel (s_src s0)) s0 <> Stuck.
  Proof.
    intros Hs E.
    assert (H : P (src_fuel (s_src s0)) (decode_doc maxdoc (src_fuel (s_src s0)))).
    { unfold decode_doc. p_go. apply P_main_loop. }
    specialize (H s0 Hs). rewrite E in H. exact H.
  Qed.

  (* no script whatsoever (good or not, buffered or not) exhausts the model's fuel *)
  Theorem decode_never_hangs s : snd (cbe_decode_src maxdoc s) <> SHang.
  Proof.
    unfold cbe_decode_src.
    pose proof (decode_doc_not_stuck (mkst s 0 0 []) ltac:(unfold smu, mu, src_fuel; simpl; lia)) as H.
    simpl in H. destruct (decode_doc maxdoc (src_fuel s) (mkst s 0 0 [])); simpl; congruence.
  Qed.
End NoHang.

Lemma copy_never_hangs sc : eof_last sc = true -> copy_all (Direct sc) <> None.
Proof. intro H. rewrite (copy_all_wf (Direct sc) H). discriminate. Qed.

Lemma stream_never_hangs : forall maxdoc sc, snd (decode_stream maxdoc sc) <> SHang.
Proof. intros maxdoc sc. apply decode_never_hangs. Qed.
