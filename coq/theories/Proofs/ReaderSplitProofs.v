(* C28 — proofs about Model/ReaderSplit.v.

   Main results
     decode_stream_good   : for scripts made of (k>0 bytes, nil) responses optionally
                            followed by one (0, io.EOF), the CBE decoder delivers
                            exactly what it delivers from memory (all documents,
                            valid or not, any MaxDocumentSizeBytes);
     cte_stream_all       : the CTE entry point is independent of the script for
                            EVERY script that is a reader (zero reads and data+EOF included);
     ce_stream_good       : the universal entry points on the same script class;
     refutations          : a (n>0, io.EOF) response and a (0, nil) response each make
                            the CBE decoder deliver something else than from memory;
     decode_never_hangs   : the fuel of the model is never exhausted (no script at all
                            makes the model answer SHang). *)
From CE Require Import Model.ReaderSplit.
From Coq Require Import ZifyN ZifyNat ZifyBool Lia.
Open Scope N_scope.

(* ------------------------------------------------------------------ *)
(* lists                                                                *)
(* ------------------------------------------------------------------ *)

Lemma lenN_length l : lenN l = N.of_nat (length l).
Proof. induction l as [|x l IH]; simpl; [reflexivity|]. rewrite IH. lia. Qed.

Lemma takeN_firstn n l : takeN n l = firstn (N.to_nat n) l.
Proof.
  revert n; induction l as [|x l IH]; intro n; simpl.
  - destruct (N.to_nat n); reflexivity.
  - destruct (N.eqb_spec n 0) as [->|Hn]; [reflexivity|].
    replace (N.to_nat n) with (S (N.to_nat (N.pred n))) by lia. simpl. now rewrite IH.
Qed.

Lemma dropN_skipn n l : dropN n l = skipn (N.to_nat n) l.
Proof.
  revert n; induction l as [|x l IH]; intro n; simpl.
  - destruct (N.to_nat n); reflexivity.
  - destruct (N.eqb_spec n 0) as [->|Hn]; [reflexivity|].
    replace (N.to_nat n) with (S (N.to_nat (N.pred n))) by lia. simpl. now rewrite IH.
Qed.

Lemma take_drop n l : takeN n l ++ dropN n l = l.
Proof. rewrite takeN_firstn, dropN_skipn. apply firstn_skipn. Qed.

Lemma lenN_takeN n l : lenN (takeN n l) = N.min n (lenN l).
Proof. rewrite takeN_firstn, !lenN_length, firstn_length. lia. Qed.

Lemma lenN_nil l : lenN l = 0 <-> l = [].
Proof. destruct l; simpl; split; intro H; try reflexivity; try discriminate; lia. Qed.

Lemma takeN_nonnil n l : 1 <= n -> l <> [] -> takeN n l <> [].
Proof.
  intros Hn Hl E. apply lenN_nil in E. rewrite lenN_takeN in E.
  assert (lenN l <> 0) by (rewrite lenN_nil; exact Hl). lia.
Qed.

Lemma dropN_nonnil n l : n < lenN l -> dropN n l <> [].
Proof.
  intros Hn E. pose proof (take_drop n l) as H. rewrite E, app_nil_r in H.
  pose proof (lenN_takeN n l) as H2. rewrite H in H2. lia.
Qed.

Lemma takeN_app_exact a b : takeN (lenN a) (a ++ b) = a.
Proof.
  rewrite takeN_firstn, lenN_length, Nat2N.id.
  rewrite firstn_app, Nat.sub_diag, firstn_all. simpl. apply app_nil_r.
Qed.

Lemma dropN_app_exact a b : dropN (lenN a) (a ++ b) = b.
Proof.
  rewrite dropN_skipn, lenN_length, Nat2N.id.
  rewrite skipn_app, Nat.sub_diag, skipn_all. reflexivity.
Qed.

Lemma takeN_app_more n a b : lenN a <= n -> takeN n (a ++ b) = a ++ takeN (n - lenN a) b.
Proof.
  intro H. rewrite !takeN_firstn, firstn_app. rewrite lenN_length in *.
  rewrite firstn_all2 by lia. f_equal. f_equal. lia.
Qed.

Lemma dropN_app_more n a b : lenN a <= n -> dropN n (a ++ b) = dropN (n - lenN a) b.
Proof.
  intro H. rewrite !dropN_skipn, skipn_app. rewrite lenN_length in *.
  rewrite skipn_all2 by lia. simpl. f_equal. lia.
Qed.

Lemma lenN_app a b : lenN (a ++ b) = lenN a + lenN b.
Proof. rewrite !lenN_length, app_length. lia. Qed.

Local Arguments takeN : simpl never.
Local Arguments dropN : simpl never.

(* ------------------------------------------------------------------ *)
(* good sources                                                         *)
(* ------------------------------------------------------------------ *)

Definition good_src (s : src) : bool :=
  match s with
  | Direct sc => good_script sc
  | Buffered _ pend sc => negb pend && good_script sc
  end.

Lemma good_script_cases bs e rest :
  good_script ((bs, e) :: rest) = true ->
  (bs = [] /\ e = true /\ rest = []) \/ (e = false /\ bs <> [] /\ good_script rest = true).
Proof.
  destruct bs as [|x bs], e, rest as [|r rest]; simpl; intro H; try discriminate;
    try (left; repeat split; reflexivity);
    right; repeat split; try discriminate; try reflexivity; exact H.
Qed.

Lemma good_script_zeros sc : good_script sc = true -> script_zeros sc = O.
Proof.
  induction sc as [|[bs e] rest IH]; [reflexivity|]. intro H.
  apply good_script_cases in H as [(-> & -> & ->) | (-> & Hbs & Hr)]; [reflexivity|].
  unfold script_zeros in *. simpl. destruct bs; [congruence|]. apply IH, Hr.
Qed.

Lemma good_src_zeros s : good_src s = true -> src_zeros s = O.
Proof.
  destruct s as [sc | buf pend sc]; simpl; intro H.
  - now apply good_script_zeros.
  - apply andb_true_iff in H as [_ H]. now apply good_script_zeros.
Qed.

(* What one Read does on a good source: end of data <-> (0, EOF); otherwise
   some bytes (at least one, at most cap), no error, and the rest stays good. *)
Definition rd_ok (cap : N) (data : bytes) (bs : bytes) (e : bool) (data' : bytes) : Prop :=
  (data = [] -> bs = [] /\ e = true /\ data' = []) /\
  (data <> [] -> e = false /\ bs <> [] /\ lenN bs <= cap /\ data = bs ++ data').

Lemma rd_script_good cap sc :
  good_script sc = true -> 1 <= cap ->
  let '(bs, e, sc') := rd_script cap sc in
  good_script sc' = true /\ rd_ok cap (script_data sc) bs e (script_data sc').
Proof.
  intros Hg Hcap. destruct sc as [|[bs e] rest]; simpl.
  - split; [reflexivity|]. split; [auto|]. intro H. exfalso. apply H. reflexivity.
  - apply good_script_cases in Hg as [(-> & -> & ->) | (-> & Hbs & Hr)].
    + simpl. destruct (N.leb_spec 0 cap); [|lia].
      split; [reflexivity|]. split; [auto|]. intro Hx. exfalso. apply Hx. reflexivity.
    + unfold script_data; simpl. fold (script_data rest).
      destruct (N.leb_spec (lenN bs) cap) as [Hle|Hgt].
      * split; [exact Hr|]. split.
        -- intro E. apply app_eq_nil in E as [E _]. congruence.
        -- intros _. repeat split; auto.
      * split.
        -- simpl. pose proof (dropN_nonnil cap bs Hgt) as Hd.
           destruct (dropN cap bs); [congruence|]. exact Hr.
        -- unfold script_data; simpl. fold (script_data rest). split.
           ++ intro E. apply app_eq_nil in E as [E _]. congruence.
           ++ intros _. repeat split.
              ** now apply takeN_nonnil.
              ** rewrite lenN_takeN. lia.
              ** rewrite app_assoc, take_drop. reflexivity.
Qed.

Lemma rd_good cap s :
  good_src s = true -> 1 <= cap ->
  let '(bs, e, s') := rd cap s in
  good_src s' = true /\ rd_ok cap (src_data s) bs e (src_data s').
Proof.
  intros Hg Hcap. destruct s as [sc | buf pend sc]; simpl in *.
  - pose proof (rd_script_good cap sc Hg Hcap) as H.
    destruct (rd_script cap sc) as [[bs e] sc']. exact H.
  - apply andb_true_iff in Hg as [Hp Hg]. destruct pend; [discriminate|]. clear Hp.
    destruct buf as [|x buf].
    + destruct (N.leb_spec bufio_size cap) as [Hbig|Hsmall].
      * pose proof (rd_script_good cap sc Hg Hcap) as H.
        destruct (rd_script cap sc) as [[bs e] sc']. simpl. exact H.
      * assert (H1 : 1 <= bufio_size) by (unfold bufio_size; lia).
        pose proof (rd_script_good bufio_size sc Hg H1) as H.
        destruct (rd_script bufio_size sc) as [[bs e] sc']. destruct H as [Hg' [Hnil Hdat]].
        destruct bs as [|y bs]; simpl.
        -- split; [exact Hg'|]. split; [exact Hnil|].
           intro Hne. destruct (Hdat Hne) as (_ & Hbad & _). congruence.
        -- assert (Hne : script_data sc <> []).
           { intro E. destruct (Hnil E) as [Hbad _]. discriminate. }
           destruct (Hdat Hne) as (-> & _ & Hlen & Hd).
           split; [simpl; exact Hg'|]. split; [intro E; congruence|].
           intros _. repeat split.
           ++ apply takeN_nonnil; [exact Hcap | discriminate].
           ++ rewrite lenN_takeN. lia.
           ++ rewrite Hd, app_assoc, take_drop. reflexivity.
    + split; [simpl; exact Hg|]. split; [intro E; discriminate|].
      intros _. repeat split.
      * apply takeN_nonnil; [exact Hcap | discriminate].
      * rewrite lenN_takeN. lia.
      * rewrite app_assoc, take_drop. reflexivity.
Qed.

(* ------------------------------------------------------------------ *)
(* simulation between two runs on good sources holding the same data    *)
(* ------------------------------------------------------------------ *)

Definition Rst (s1 s2 : rstate) : Prop :=
  good_src (s_src s1) = true /\ good_src (s_src s2) = true /\
  src_data (s_src s1) = src_data (s_src s2) /\
  s_b0 s1 = s_b0 s2 /\ s_cnt s1 = s_cnt s2 /\ s_out s1 = s_out s2.

Definition res_rel {A} (r1 r2 : res A) : Prop :=
  match r1, r2 with
  | Ret a s1, Ret b s2 => a = b /\ Rst s1 s2
  | Fail s1, Fail s2 => s_out s1 = s_out s2
  | Stuck, Stuck => True
  | _, _ => False
  end.

Definition sim {A} (m : M A) : Prop := forall s1 s2, Rst s1 s2 -> res_rel (m s1) (m s2).

Lemma sim_ret {A} (a : A) : sim (ret a).
Proof. intros s1 s2 H. simpl. auto. Qed.

Lemma sim_fail {A} : sim (@fail A).
Proof. intros s1 s2 H. simpl. apply H. Qed.

Lemma sim_stuck {A} : sim (@stuck A).
Proof. intros s1 s2 H. exact I. Qed.

Lemma sim_bind {A B} (m : M A) (f : A -> M B) :
  sim m -> (forall a, sim (f a)) -> sim (bind m f).
Proof.
  intros Hm Hf s1 s2 H. unfold bind. specialize (Hm s1 s2 H).
  destruct (m s1) as [a s1'| s1' |], (m s2) as [b s2' | s2' |]; simpl in Hm; try contradiction; auto.
  destruct Hm as [-> Hm]. apply Hf, Hm.
Qed.

Lemma sim_emit t : sim (emit t).
Proof.
  intros s1 s2 (H1 & H2 & H3 & H4 & H5 & H6). simpl. split; [reflexivity|].
  unfold Rst; simpl. repeat split; auto. now rewrite H6.
Qed.

Lemma sim_ev e : sim (ev e).
Proof. apply sim_emit. Qed.

Lemma sim_get_b0 : sim get_b0.
Proof. intros s1 s2 H. simpl. split; [apply H | exact H]. Qed.

Lemma src_fuel_eq s1 s2 :
  good_src s1 = true -> good_src s2 = true -> src_data s1 = src_data s2 -> src_fuel s1 = src_fuel s2.
Proof.
  intros H1 H2 H3. unfold src_fuel. rewrite (good_src_zeros _ H1), (good_src_zeros _ H2), H3. reflexivity.
Qed.

Lemma sim_get_fuel : sim get_fuel.
Proof.
  intros s1 s2 H. simpl. split; [|exact H].
  destruct H as (H1 & H2 & H3 & _). now apply src_fuel_eq.
Qed.

Lemma sim_mark maxdoc n : sim (mark maxdoc n).
Proof.
  intros s1 s2 (H1 & H2 & H3 & H4 & H5 & H6). unfold mark. rewrite H5.
  destruct (maxdoc <? (s_cnt s2 + n) mod two64); simpl; [exact H6|].
  split; [reflexivity|]. unfold Rst; simpl. auto 10.
Qed.

Lemma one_byte bs : bs <> [] -> lenN bs <= 1 -> exists x, bs = [x].
Proof.
  destruct bs as [|x [|y bs]]; simpl; intros H1 H2; [congruence | eauto |].
  rewrite lenN_length in H2. lia.
Qed.

Lemma sim_rd1 : sim rd1.
Proof.
  intros s1 s2 (H1 & H2 & H3 & H4 & H5 & H6). unfold rd1.
  pose proof (rd_good 1 (s_src s1) H1 ltac:(lia)) as R1.
  pose proof (rd_good 1 (s_src s2) H2 ltac:(lia)) as R2.
  destruct (rd 1 (s_src s1)) as [[bs1 e1] t1], (rd 1 (s_src s2)) as [[bs2 e2] t2].
  destruct R1 as [G1 [N1 D1]], R2 as [G2 [N2 D2]].
  destruct (src_data (s_src s1)) as [|x d] eqn:E1.
  - symmetry in H3. destruct (N1 eq_refl) as (-> & -> & T1), (N2 H3) as (-> & -> & T2).
    simpl. split; [reflexivity|]. unfold Rst; simpl. rewrite T1, T2. auto 10.
  - assert (Hne1 : x :: d <> []) by discriminate.
    assert (Hne2 : src_data (s_src s2) <> []) by (rewrite <- H3; discriminate).
    destruct (D1 Hne1) as (-> & B1 & L1 & A1), (D2 Hne2) as (-> & B2 & L2 & A2).
    destruct (one_byte _ B1 L1) as [y1 ->], (one_byte _ B2 L2) as [y2 ->].
    rewrite <- H3 in A2. simpl in A1, A2. injection A1 as -> A1. injection A2 as -> A2.
    simpl. split; [reflexivity|]. unfold Rst; simpl. rewrite <- A1, <- A2. auto 10.
Qed.

(* the fill loop on a good source, by its data alone *)
Lemma fill_loop_good fuel : forall need s,
  good_src s = true -> 1 <= need -> (length (src_data s) < fuel)%nat ->
  if need <=? lenN (src_data s) then
    exists s', fill_loop fuel need s = Some (Some (takeN need (src_data s), s')) /\
               good_src s' = true /\ src_data s' = dropN need (src_data s)
  else fill_loop fuel need s = Some None.
Proof.
  induction fuel as [|f IH]; intros need s Hg Hn Hf; [lia|].
  simpl. pose proof (rd_good need s Hg Hn) as R.
  destruct (rd need s) as [[bs e] s']. destruct R as [G [Nil Dat]].
  destruct (src_data s) as [|x d] eqn:E.
  - destruct (Nil eq_refl) as (-> & -> & _). simpl.
    destruct (N.leb_spec need 0); [lia | reflexivity].
  - destruct (Dat ltac:(discriminate)) as (-> & B & L & A).
    assert (Hlen : (length (src_data s') < f)%nat).
    { apply (f_equal (@length _)) in A. rewrite app_length in A. simpl in *.
      destruct bs; [congruence|]. simpl in A. lia. }
    destruct (N.leb_spec need (lenN bs)) as [Hfull|Hpart].
    + assert (lenN bs = need) by lia. subst need.
      rewrite A, lenN_app. destruct (N.leb_spec (lenN bs) (lenN bs + lenN (src_data s'))); [|lia].
      exists s'. rewrite takeN_app_exact, dropN_app_exact. auto.
    + specialize (IH (need - lenN bs) s' G ltac:(lia) Hlen).
      rewrite A, lenN_app.
      destruct (N.leb_spec (need - lenN bs) (lenN (src_data s'))) as [Hen|Hno].
      * destruct IH as (s'' & -> & G'' & D'').
        destruct (N.leb_spec need (lenN bs + lenN (src_data s'))); [|lia].
        exists s''. rewrite takeN_app_more, dropN_app_more by lia. auto.
      * rewrite IH. destruct (N.leb_spec need (lenN bs + lenN (src_data s'))); [lia | reflexivity].
Qed.

Lemma sim_fill at0 need : sim (fill at0 need).
Proof.
  intros s1 s2 (H1 & H2 & H3 & H4 & H5 & H6). unfold fill.
  destruct (N.eqb_spec need 0) as [->|Hn].
  - simpl. split; [reflexivity|]. unfold Rst. auto 10.
  - pose proof (fill_loop_good (src_fuel (s_src s1)) need (s_src s1) H1 ltac:(lia)
                  ltac:(unfold src_fuel; lia)) as F1.
    pose proof (fill_loop_good (src_fuel (s_src s2)) need (s_src s2) H2 ltac:(lia)
                  ltac:(unfold src_fuel; lia)) as F2.
    rewrite <- H3 in F2.
    destruct (need <=? lenN (src_data (s_src s1))).
    + destruct F1 as (t1 & -> & G1 & D1), F2 as (t2 & -> & G2 & D2).
      simpl. split; [reflexivity|]. unfold Rst; simpl. rewrite D1, D2, H4. auto 10.
    + rewrite F1, F2. simpl. exact H6.
Qed.

#[export] Hint Resolve sim_ret sim_fail sim_stuck sim_emit sim_ev sim_get_b0 sim_get_fuel
  sim_mark sim_rd1 sim_fill : simdb.

Ltac sim_go :=
  repeat first
    [ solve [auto 2 with simdb]
    | apply sim_bind; [ | intros ]
    | match goal with |- sim (if ?c then _ else _) => destruct c end
    | match goal with |- sim (match ?x with _ => _ end) => destruct x end
    | match goal with |- sim (let '(_, _) := ?p in _) => destruct p end ].

Section Sims.
  Variable maxdoc : N.

  Lemma sim_read_u8 : sim (read_u8 maxdoc).
  Proof. unfold read_u8. sim_go. Qed.

  Lemma sim_read_type_or_eof : sim (read_type_or_eof maxdoc).
  Proof. unfold read_type_or_eof. sim_go. Qed.

  Lemma sim_fill_mark at0 n : sim (fill_mark maxdoc at0 n).
  Proof. unfold fill_mark. sim_go. Qed.

  Lemma sim_read_bytes n : sim (read_bytes maxdoc n).
  Proof. apply sim_fill_mark. Qed.

  Lemma sim_rd1x : sim (rd1x maxdoc).
  Proof. unfold rd1x. sim_go. Qed.
  Hint Resolve sim_fill_mark sim_rd1x : simdb.

  Lemma sim_uleb_loop fuel : forall acc shift k, sim (uleb_loop fuel acc shift k).
  Proof.
    induction fuel as [|f IH]; intros acc shift k; simpl; [apply sim_stuck|].
    sim_go. apply IH.
  Qed.

  Lemma sim_uleb : sim uleb.
  Proof. unfold uleb. sim_go. apply sim_uleb_loop. Qed.

  Hint Resolve sim_read_u8 sim_read_type_or_eof sim_read_bytes sim_uleb : simdb.

  Lemma sim_small_uleb maxv : sim (small_uleb maxv).
  Proof. unfold small_uleb. sim_go. Qed.
  Hint Resolve sim_small_uleb : simdb.

  Lemma sim_read_identifier : sim (read_identifier maxdoc).
  Proof. unfold read_identifier. sim_go. Qed.

  Lemma sim_read_uint : sim (read_uint maxdoc).
  Proof. unfold read_uint. sim_go. Qed.

  Lemma sim_read_decimal : sim read_decimal.
  Proof. unfold read_decimal. sim_go. Qed.

  Lemma sim_read_timezone : sim read_timezone.
  Proof. unfold read_timezone. sim_go. Qed.
  Hint Resolve sim_read_identifier sim_read_uint sim_read_decimal sim_read_timezone : simdb.

  Lemma sim_read_date : sim read_date.
  Proof. unfold read_date. sim_go. Qed.

  Lemma sim_read_time : sim read_time.
  Proof. unfold read_time. sim_go. Qed.

  Lemma sim_read_timestamp : sim read_timestamp.
  Proof. unfold read_timestamp. sim_go. Qed.
  Hint Resolve sim_read_date sim_read_time sim_read_timestamp : simdb.

  Lemma sim_chunks fuel : forall width, sim (chunks maxdoc fuel width).
  Proof.
    induction fuel as [|f IH]; intro width; simpl; [apply sim_stuck|].
    sim_go. apply IH.
  Qed.
  Hint Resolve sim_chunks : simdb.

  Lemma sim_decode_array fuel t : sim (decode_array maxdoc fuel t).
  Proof. unfold decode_array. sim_go. Qed.

  Lemma sim_decode_media fuel : sim (decode_media maxdoc fuel).
  Proof. unfold decode_media. sim_go. Qed.

  Lemma sim_decode_custom fuel : sim (decode_custom maxdoc fuel).
  Proof. unfold decode_custom. sim_go. Qed.

  Lemma sim_short_array t sz cnt : sim (short_array maxdoc t sz cnt).
  Proof. unfold short_array. sim_go. Qed.
  Hint Resolve sim_decode_array sim_decode_media sim_decode_custom sim_short_array : simdb.

  Lemma sim_decode_plane7f fuel : sim (decode_plane7f maxdoc fuel).
  Proof. unfold decode_plane7f. sim_go. Qed.

  Lemma sim_int_event neg v : sim (int_event neg v).
  Proof. unfold int_event. sim_go. Qed.
  Hint Resolve sim_decode_plane7f sim_int_event : simdb.

  Lemma sim_decode_token fuel t : sim (decode_token maxdoc fuel t).
  Proof. unfold decode_token. sim_go. Qed.
  Hint Resolve sim_decode_token : simdb.

  Lemma sim_main_loop fuel : sim (main_loop maxdoc fuel).
  Proof.
    induction fuel as [|f IH]; simpl; [apply sim_stuck|].
    sim_go. exact IH.
  Qed.
  Hint Resolve sim_main_loop : simdb.

  Lemma sim_decode_doc fuel : sim (decode_doc maxdoc fuel).
  Proof. unfold decode_doc. sim_go. Qed.

  (* Two good sources holding the same bytes: same events, same error-or-not. *)
  Lemma cbe_decode_src_good s1 s2 :
    good_src s1 = true -> good_src s2 = true -> src_data s1 = src_data s2 ->
    cbe_decode_src maxdoc s1 = cbe_decode_src maxdoc s2.
  Proof.
    intros H1 H2 H3. unfold cbe_decode_src. rewrite (src_fuel_eq s1 s2 H1 H2 H3).
    assert (R : Rst (mkst s1 0 0 []) (mkst s2 0 0 [])) by (unfold Rst; simpl; auto 10).
    pose proof (sim_decode_doc (src_fuel s2) _ _ R) as S.
    destruct (decode_doc maxdoc (src_fuel s2) (mkst s1 0 0 [])) as [a t1|t1|],
             (decode_doc maxdoc (src_fuel s2) (mkst s2 0 0 [])) as [b t2|t2|];
      simpl in S; try contradiction; simpl.
    - destruct S as [_ (_ & _ & _ & _ & _ & ->)]. reflexivity.
    - now rewrite S.
    - reflexivity.
  Qed.
End Sims.

Lemma mem_script_good d : good_script (mem_script d) = true.
Proof. destruct d; reflexivity. Qed.

Lemma mem_script_data d : script_data (mem_script d) = d.
Proof. destruct d; [reflexivity|]. unfold script_data; simpl. now rewrite app_nil_r. Qed.

(* stream_eq_memory on the script class that works *)
Theorem decode_stream_good maxdoc sc d :
  good_script sc = true -> script_data sc = d ->
  decode_stream maxdoc sc = decode_mem maxdoc d.
Proof.
  intros Hg Hd. unfold decode_mem, decode_stream. apply cbe_decode_src_good; simpl.
  - exact Hg.
  - apply mem_script_good.
  - now rewrite mem_script_data.
Qed.
