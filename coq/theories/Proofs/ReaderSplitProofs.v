(* C28 — proofs about Model/ReaderSplit.v (reader as of /repo afaa1e5).

   Main results
     decode_stream_all    : for EVERY script that is a reader (io.EOF on the last
                            response at most; zero-length reads and data+EOF anywhere)
                            the CBE decoder delivers exactly what it delivers from
                            memory (all documents, valid or not, any MaxDocumentSizeBytes);
     cte_stream_all       : the same for the CTE entry points;
     ce_stream_all        : the same for the universal entry points, for scripts with
                            fewer than 100 zero-length reads (bufio gives up with
                            io.ErrNoProgress after 100 consecutive empty reads);
     decode_never_hangs   : the fuel of the model is never exhausted (no script at all
                            makes the model answer SHang). *)
From CE Require Import Model.ReaderSplit.
From Coq Require Import ZifyN ZifyNat ZifyBool Lia.
Open Scope N_scope.

(* ------------------------------------------------------------------ *)
(* lists                                                                *)
(* ------------------------------------------------------------------ *)

Lemma lenN_length l : lenN l = N.of_nat (length l).
Proof. induction l as [|x l IH]; simpl; [reflexivity|]. rewrite IH. lia. Qed.

Lemma takeN_firstn n l : takeN n l = firstn (N.to_nat n) l.
Proof.
  revert n; induction l as [|x l IH]; intro n; simpl.
  - destruct (N.to_nat n); reflexivity.
  - destruct (N.eqb_spec n 0) as [->|Hn]; [reflexivity|].
    replace (N.to_nat n) with (S (N.to_nat (N.pred n))) by lia. simpl. now rewrite IH.
Qed.

Lemma dropN_skipn n l : dropN n l = skipn (N.to_nat n) l.
Proof.
  revert n; induction l as [|x l IH]; intro n; simpl.
  - destruct (N.to_nat n); reflexivity.
  - destruct (N.eqb_spec n 0) as [->|Hn]; [reflexivity|].
    replace (N.to_nat n) with (S (N.to_nat (N.pred n))) by lia. simpl. now rewrite IH.
Qed.

Lemma take_drop n l : takeN n l ++ dropN n l = l.
Proof. rewrite takeN_firstn, dropN_skipn. apply firstn_skipn. Qed.

Lemma lenN_takeN n l : lenN (takeN n l) = N.min n (lenN l).
Proof. rewrite takeN_firstn, !lenN_length, firstn_length. lia. Qed.

Lemma lenN_nil l : lenN l = 0 <-> l = [].
Proof. destruct l; simpl; split; intro H; try reflexivity; try discriminate; lia. Qed.

Lemma takeN_nonnil n l : 1 <= n -> l <> [] -> takeN n l <> [].
Proof.
  intros Hn Hl E. apply lenN_nil in E. rewrite lenN_takeN in E.
  assert (lenN l <> 0) by (rewrite lenN_nil; exact Hl). lia.
Qed.

Lemma dropN_nonnil n l : n < lenN l -> dropN n l <> [].
Proof.
  intros Hn E. pose proof (take_drop n l) as H. rewrite E, app_nil_r in H.
  pose proof (lenN_takeN n l) as H2. rewrite H in H2. lia.
Qed.

Lemma takeN_app_exact a b : takeN (lenN a) (a ++ b) = a.
Proof.
  rewrite takeN_firstn, lenN_length, Nat2N.id.
  rewrite firstn_app, Nat.sub_diag, firstn_all. simpl. apply app_nil_r.
Qed.

Lemma dropN_app_exact a b : dropN (lenN a) (a ++ b) = b.
Proof.
  rewrite dropN_skipn, lenN_length, Nat2N.id.
  rewrite skipn_app, Nat.sub_diag, skipn_all. reflexivity.
Qed.

Lemma takeN_app_more n a b : lenN a <= n -> takeN n (a ++ b) = a ++ takeN (n - lenN a) b.
Proof.
  intro H. rewrite !takeN_firstn, firstn_app. rewrite lenN_length in *.
  rewrite firstn_all2 by lia. f_equal. f_equal. lia.
Qed.

Lemma dropN_app_more n a b : lenN a <= n -> dropN n (a ++ b) = dropN (n - lenN a) b.
Proof.
  intro H. rewrite !dropN_skipn, skipn_app. rewrite lenN_length in *.
  rewrite skipn_all2 by lia. simpl. f_equal. lia.
Qed.

Lemma lenN_app a b : lenN (a ++ b) = lenN a + lenN b.
Proof. rewrite !lenN_length, app_length. lia. Qed.

Local Arguments takeN : simpl never.
Local Arguments dropN : simpl never.

Local Arguments takeN : simpl never.
Local Arguments dropN : simpl never.

(* ------------------------------------------------------------------ *)
(* facts about one Read that hold for every source                      *)
(* ------------------------------------------------------------------ *)

Definition mu (s : src) : nat := (length (src_data s) + src_zeros s)%nat.

Lemma script_zeros_cons r rest :
  script_zeros (r :: rest) = ((if is_zero_resp r then 1 else 0) + script_zeros rest)%nat.
Proof. unfold script_zeros; simpl. destruct (is_zero_resp r); reflexivity. Qed.

Lemma script_data_cons bs e rest : script_data ((bs, e) :: rest) = bs ++ script_data rest.
Proof. reflexivity. Qed.

Lemma is_zero_nonnil bs e : bs <> [] -> is_zero_resp (bs, e) = false.
Proof. destruct bs; [congruence | reflexivity]. Qed.

(* data is handed out in order; (0, nil) responses are used up; without an
   error something is always used up *)
Lemma rd_script_gen cap sc :
  1 <= cap ->
  let '(bs, e, sc') := rd_script cap sc in
  script_data sc = bs ++ script_data sc' /\
  (script_zeros sc' <= script_zeros sc)%nat /\
  lenN bs <= cap /\
  (e = false -> bs = [] -> (script_zeros sc' < script_zeros sc)%nat).
Proof.
  intro Hcap. destruct sc as [|[bs e] rest]; cbn [rd_script].
  - simpl. repeat split; auto; try lia; try discriminate.
  - destruct (N.leb_spec (lenN bs) cap) as [Hle|Hgt].
    + rewrite script_data_cons, script_zeros_cons. repeat split; auto; try lia.
      intros -> ->. simpl. lia.
    + rewrite !script_data_cons, !script_zeros_cons.
      assert (Hb : bs <> []) by (intro E; subst bs; simpl in Hgt; lia).
      assert (Z1 : is_zero_resp (bs, e) = false) by (destruct bs; [congruence | reflexivity]).
      assert (Z2 : is_zero_resp (dropN cap bs, e) = false).
      { pose proof (dropN_nonnil cap bs Hgt) as Hd. destruct (dropN cap bs); [congruence | reflexivity]. }
      rewrite Z1, Z2.
      repeat split; try lia.
      * rewrite app_assoc, take_drop. reflexivity.
      * rewrite lenN_takeN. lia.
      * intros _ E. exfalso. revert E. apply takeN_nonnil; assumption.
Qed.

Lemma rd_gen cap s :
  1 <= cap ->
  let '(bs, e, s') := rd cap s in
  src_data s = bs ++ src_data s' /\
  (src_zeros s' <= src_zeros s)%nat /\
  lenN bs <= cap /\
  (e = false -> bs = [] -> (src_zeros s' < src_zeros s)%nat).
Proof.
  intro Hcap. destruct s as [sc | buf pend sc]; simpl.
  - pose proof (rd_script_gen cap sc Hcap) as H.
    destruct (rd_script cap sc) as [[bs e] sc']. exact H.
  - destruct buf as [|x buf].
    + destruct pend.
      * simpl. repeat split; auto; try lia; try discriminate.
      * destruct (N.leb_spec bufio_size cap) as [Hbig|Hsmall].
        -- pose proof (rd_script_gen cap sc Hcap) as H.
           destruct (rd_script cap sc) as [[bs e] sc']. exact H.
        -- assert (H1 : 1 <= bufio_size) by (unfold bufio_size; lia).
           pose proof (rd_script_gen bufio_size sc H1) as H.
           destruct (rd_script bufio_size sc) as [[bs e] sc'].
           destruct H as (Hd & Hz & Hl & Hp). destruct bs as [|y bs].
           ++ simpl. repeat split; auto. lia.
           ++ cbn [src_data src_zeros]. repeat split; auto.
              ** rewrite Hd. change ([] ++ ?x) with x.
                 rewrite (app_assoc (takeN cap (y :: bs))), take_drop. reflexivity.
              ** rewrite lenN_takeN. lia.
              ** intros _ E. exfalso. revert E. apply takeN_nonnil; [assumption | discriminate].
    + cbn [src_data src_zeros]. repeat split; auto.
      * rewrite (app_assoc (takeN cap (x :: buf))), take_drop. reflexivity.
      * rewrite lenN_takeN. lia.
      * intros _ E. exfalso. revert E. apply takeN_nonnil; [assumption | discriminate].
Qed.

(* every Read that returns no error makes the measure smaller *)
Lemma rd_mu cap s :
  1 <= cap ->
  let '(bs, e, s') := rd cap s in
  (mu s' <= mu s)%nat /\ (e = false -> (mu s' < mu s)%nat).
Proof.
  intro Hcap. pose proof (rd_gen cap s Hcap) as H.
  destruct (rd cap s) as [[bs e] s']. destruct H as (Hd & Hz & _ & Hp).
  unfold mu. rewrite Hd, app_length. split; [lia|].
  intro He. destruct bs as [|x bs]; [specialize (Hp He eq_refl); simpl; lia | simpl; lia].
Qed.

(* ------------------------------------------------------------------ *)
(* io.Copy: every reader gives the whole data                           *)
(* ------------------------------------------------------------------ *)

(* io.EOF at the very end only: with the error the data is finished *)
Definition wf_src (s : src) : Prop :=
  match s with
  | Direct sc => eof_last sc = true
  | Buffered _ pend sc => eof_last sc = true /\ (pend = true -> script_data sc = [])
  end.

Lemma eof_last_cons bs e r rest :
  eof_last ((bs, e) :: r :: rest) = true -> e = false /\ eof_last (r :: rest) = true.
Proof.
  simpl. destruct r as [bs' e']. intro H. apply andb_true_iff in H as [H1 H2].
  split; [now destruct e | exact H2].
Qed.

Lemma eof_last_tail r rest : eof_last (r :: rest) = true -> eof_last rest = true.
Proof.
  destruct rest as [|r' rest]; [reflexivity|]. destruct r as [bs e].
  intro H. now apply eof_last_cons in H.
Qed.

Lemma rd_script_wf cap sc :
  eof_last sc = true ->
  let '(bs, e, sc') := rd_script cap sc in
  eof_last sc' = true /\ (e = true -> script_data sc' = []).
Proof.
  intro H. destruct sc as [|[bs e] rest]; simpl; [auto|].
  destruct (lenN bs <=? cap).
  - split; [now apply eof_last_tail in H|].
    intros ->. destruct rest as [|r rest]; [reflexivity|].
    apply eof_last_cons in H as [H _]. discriminate.
  - split; [|discriminate]. destruct rest as [|r rest]; [reflexivity|].
    apply eof_last_cons in H as [-> H]. simpl. destruct r. exact H.
Qed.

Lemma rd_wf cap s :
  wf_src s ->
  let '(bs, e, s') := rd cap s in wf_src s' /\ (e = true -> src_data s' = []).
Proof.
  intro H. destruct s as [sc | buf pend sc]; simpl in *.
  - pose proof (rd_script_wf cap sc H) as W.
    destruct (rd_script cap sc) as [[bs e] sc']. exact W.
  - destruct H as [H Hp]. destruct buf as [|x buf].
    + destruct pend.
      * simpl. split; [split; [exact H | discriminate]|]. intros _. now apply Hp.
      * destruct (bufio_size <=? cap).
        -- pose proof (rd_script_wf cap sc H) as W.
           destruct (rd_script cap sc) as [[bs e] sc']. destruct W as [W1 W2].
           simpl. split; [split; [exact W1 | discriminate]|]. exact W2.
        -- pose proof (rd_script_wf bufio_size sc H) as W.
           destruct (rd_script bufio_size sc) as [[bs e] sc']. destruct W as [W1 W2].
           destruct bs as [|y bs]; simpl.
           ++ split; [split; [exact W1 | discriminate]|]. exact W2.
           ++ split; [split; [exact W1 | exact W2]|]. discriminate.
    + simpl. split; [split; assumption | discriminate].
Qed.

Lemma copy_loop_all fuel : forall s,
  wf_src s -> (mu s < fuel)%nat -> copy_loop fuel s = Some (src_data s).
Proof.
  induction fuel as [|f IH]; intros s Hw Hf; [lia|]. simpl.
  assert (Hc : 1 <= copy_cap) by (unfold copy_cap; lia).
  pose proof (rd_gen copy_cap s Hc) as G. pose proof (rd_mu copy_cap s Hc) as U.
  pose proof (rd_wf copy_cap s Hw) as W.
  destruct (rd copy_cap s) as [[bs e] s']. destruct G as (Hd & _), U as (U1 & U2), W as (W1 & W2).
  destruct e.
  - rewrite Hd, (W2 eq_refl), app_nil_r. reflexivity.
  - rewrite (IH s' W1 ltac:(specialize (U2 eq_refl); lia)), Hd. reflexivity.
Qed.

Lemma copy_all_wf s : wf_src s -> copy_all s = Some (src_data s).
Proof. intro H. apply copy_loop_all; [exact H | unfold mu, src_fuel; lia]. Qed.


Lemma one_byte bs : bs <> [] -> lenN bs <= 1 -> exists x, bs = [x].
Proof.
  destruct bs as [|x [|y bs]]; simpl; intros H1 H2; [congruence | eauto |].
  rewrite lenN_length in H2. simpl in H2. lia.
Qed.

(* ------------------------------------------------------------------ *)
(* Reader.Read: the retry loop and the pending error                    *)
(* ------------------------------------------------------------------ *)

Lemma skip_zeros_spec fuel : forall cap s,
  1 <= cap -> (src_zeros s < fuel)%nat ->
  exists bs e s',
    skip_zeros fuel cap s = Some (bs, e, s') /\
    src_data s = bs ++ src_data s' /\ lenN bs <= cap /\ (bs = [] -> e = true) /\
    (wf_src s -> wf_src s' /\ (e = true -> src_data s' = [])).
Proof.
  induction fuel as [|f IH]; intros cap s Hcap Hf; [lia|]. simpl.
  pose proof (rd_gen cap s Hcap) as G. pose proof (rd_wf cap s) as W.
  destruct (rd cap s) as [[bs e] s']. destruct G as (Hd & Hz & Hl & Hp).
  destruct bs as [|x bs].
  - destruct e.
    + exists [], true, s'. split; [reflexivity|]. split; [exact Hd|]. split; [exact Hl|].
      split; [reflexivity|]. intro Hw. apply W, Hw.
    + specialize (Hp eq_refl eq_refl).
      destruct (IH cap s' Hcap ltac:(lia)) as (bs2 & e2 & s2 & E & D2 & L2 & N2 & W2).
      exists bs2, e2, s2. rewrite E. split; [reflexivity|]. split; [rewrite Hd; exact D2|].
      split; [exact L2|]. split; [exact N2|]. intro Hw. apply W2, W, Hw.
  - exists (x :: bs), e, s'. split; [reflexivity|]. split; [exact Hd|]. split; [exact Hl|].
    split; [discriminate|]. intro Hw. apply W, Hw.
Qed.

(* the decoder's state is consistent: after io.EOF nothing is left *)
Definition wf_st (s : rstate) : Prop :=
  wf_src (s_src s) /\ (s_pend s = true -> src_data (s_src s) = []).

Definition same_regs (s s' : rstate) : Prop :=
  s_b0 s' = s_b0 s /\ s_out s' = s_out s.

Section Nrd.
  Variable maxdoc : N.

  (* What Reader.Read does, in terms of the data alone. *)
  Lemma nrd_spec cap s :
    1 <= cap -> wf_st s ->
    (src_data (s_src s) = [] ->
       exists s', nrd maxdoc cap s = Ret ([], true) s' /\ wf_st s' /\ src_data (s_src s') = [] /\
                  same_regs s s' /\ s_cnt s' = s_cnt s) /\
    (src_data (s_src s) <> [] ->
       exists bs s', bs <> [] /\ lenN bs <= cap /\
         src_data (s_src s) = bs ++ src_data (s_src s') /\ wf_st s' /\
         same_regs s s' /\ s_cnt s' = s_cnt s + lenN bs /\
         nrd maxdoc cap s = (if maxdoc <? s_cnt s + lenN bs then Fail s' else Ret (bs, false) s')).
  Proof.
    intros Hcap [Hw Hp]. unfold nrd. destruct (s_pend s) eqn:Ep.
    - specialize (Hp eq_refl). split; [|congruence].
      intros _. exists s. unfold wf_st, same_regs. rewrite Ep. auto 10.
    - destruct (skip_zeros_spec (S (src_zeros (s_src s))) cap (s_src s) Hcap ltac:(lia))
        as (bs & e & s' & -> & Hd & Hl & Hn & W). destruct (W Hw) as [W1 W2]. clear W.
      destruct bs as [|x bs].
      + specialize (Hn eq_refl). subst e. specialize (W2 eq_refl). simpl in Hd. split.
        * intros _. eexists. split; [reflexivity|]. unfold wf_st, same_regs; simpl. auto 10.
        * intro Hne. congruence.
      + split; [intro E; rewrite Hd in E; discriminate|]. intros _.
        exists (x :: bs), (mkst s' e (s_b0 s) (s_blen s) (s_cnt s + lenN (x :: bs)) (s_out s)).
        unfold wf_st, same_regs; simpl. repeat split; auto; try discriminate;
          try (destruct (maxdoc <? s_cnt s + lenN (x :: bs)); reflexivity).
  Qed.
End Nrd.

(* ------------------------------------------------------------------ *)
(* simulation between two runs on readers holding the same data         *)
(* ------------------------------------------------------------------ *)

Definition Rst (s1 s2 : rstate) : Prop :=
  wf_st s1 /\ wf_st s2 /\
  src_data (s_src s1) = src_data (s_src s2) /\
  s_b0 s1 = s_b0 s2 /\ s_cnt s1 = s_cnt s2 /\ s_out s1 = s_out s2.

Definition res_rel {A} (r1 r2 : res A) : Prop :=
  match r1, r2 with
  | Ret a s1, Ret b s2 => a = b /\ Rst s1 s2
  | Fail s1, Fail s2 => s_out s1 = s_out s2
  | Stuck, Stuck => True
  | _, _ => False
  end.

Definition sim {A} (m : M A) : Prop := forall s1 s2, Rst s1 s2 -> res_rel (m s1) (m s2).

Lemma sim_ret {A} (a : A) : sim (ret a).
Proof. intros s1 s2 H. simpl. auto. Qed.

Lemma sim_fail {A} : sim (@fail A).
Proof. intros s1 s2 H. simpl. apply H. Qed.

Lemma sim_stuck {A} : sim (@stuck A).
Proof. intros s1 s2 H. exact I. Qed.

Lemma sim_bind {A B} (m : M A) (f : A -> M B) :
  sim m -> (forall a, sim (f a)) -> sim (bind m f).
Proof.
  intros Hm Hf s1 s2 H. unfold bind. specialize (Hm s1 s2 H).
  destruct (m s1) as [a s1'| s1' |], (m s2) as [b s2' | s2' |]; simpl in Hm; try contradiction; auto.
  destruct Hm as [-> Hm]. apply Hf, Hm.
Qed.

Lemma sim_emit t : sim (emit t).
Proof.
  intros s1 s2 (H1 & H2 & H3 & H4 & H5 & H6). simpl. split; [reflexivity|].
  unfold Rst, wf_st in *; simpl. repeat split; try tauto. now rewrite H6.
Qed.

Lemma sim_ev e : sim (ev e).
Proof. apply sim_emit. Qed.

Lemma sim_get_b0 : sim get_b0.
Proof. intros s1 s2 H. simpl. split; [apply H | exact H]. Qed.

Lemma sim_set_b0 x : sim (set_b0 x).
Proof.
  intros s1 s2 (H1 & H2 & H3 & H4 & H5 & H6). simpl. split; [reflexivity|].
  unfold Rst, wf_st in *; simpl. repeat split; tauto.
Qed.

Lemma sim_get_fuel : sim get_fuel.
Proof.
  intros s1 s2 H. simpl. split; [|exact H].
  destruct H as (_ & _ & H3 & _). unfold dec_fuel. now rewrite H3.
Qed.

Section SimPrims.
  Variable maxdoc : N.

  Lemma sim_nrd1 : sim (nrd maxdoc 1).
  Proof.
    intros s1 s2 (W1 & W2 & H3 & H4 & H5 & H6).
    destruct (nrd_spec maxdoc 1 s1 ltac:(lia) W1) as [N1 D1].
    destruct (nrd_spec maxdoc 1 s2 ltac:(lia) W2) as [N2 D2].
    destruct (src_data (s_src s1)) as [|x d] eqn:E1.
    - symmetry in H3.
      destruct (N1 eq_refl) as (t1 & -> & V1 & T1 & [B1 O1] & C1).
      destruct (N2 H3) as (t2 & -> & V2 & T2 & [B2 O2] & C2).
      simpl. split; [reflexivity|]. unfold Rst. rewrite T1, T2, B1, B2, O1, O2, C1, C2. auto 10.
    - assert (Hne2 : src_data (s_src s2) <> []) by (rewrite <- H3; discriminate).
      destruct (D1 ltac:(discriminate)) as (bs1 & t1 & Z1 & L1 & A1 & V1 & [B1 O1] & C1 & ->).
      destruct (D2 Hne2) as (bs2 & t2 & Z2 & L2 & A2 & V2 & [B2 O2] & C2 & ->).
      destruct (one_byte _ Z1 L1) as [y1 ->], (one_byte _ Z2 L2) as [y2 ->].
      rewrite <- H3 in A2. simpl in A1, A2. injection A1 as -> A1. injection A2 as -> A2.
      rewrite H5. destruct (maxdoc <? s_cnt s2 + lenN [y2]); simpl.
      + now rewrite O1, O2.
      + split; [reflexivity|]. unfold Rst. rewrite <- A1, <- A2, B1, B2, O1, O2, C1, C2, H5. auto 10.
  Qed.

  Lemma fill_loop_S f need s :
    fill_loop maxdoc (S f) need s =
    match nrd maxdoc need s with
    | Ret r s' =>
        (if snd r then fail
         else if need <=? lenN (fst r) then ret (fst r)
         else bind (fill_loop maxdoc f (need - lenN (fst r))) (fun more => ret (fst r ++ more))) s'
    | Fail s' => Fail s'
    | Stuck => Stuck
    end.
  Proof. reflexivity. Qed.

  (* the fill loop, in terms of the data and the byte budget alone *)
  Lemma fill_loop_spec fuel : forall need s,
    1 <= need -> wf_st s -> (length (src_data (s_src s)) < fuel)%nat ->
    if (need <=? lenN (src_data (s_src s))) && (s_cnt s + need <=? maxdoc) then
      exists s', fill_loop maxdoc fuel need s = Ret (takeN need (src_data (s_src s))) s' /\
                 wf_st s' /\ src_data (s_src s') = dropN need (src_data (s_src s)) /\
                 same_regs s s' /\ s_cnt s' = s_cnt s + need
    else exists s', fill_loop maxdoc fuel need s = Fail s' /\ s_out s' = s_out s.
  Proof.
    induction fuel as [|f IH]; intros need s Hn Hw Hf; [lia|].
    rewrite fill_loop_S.
    destruct (nrd_spec maxdoc need s Hn Hw) as [Nil Dat].
    destruct (src_data (s_src s)) as [|x d] eqn:E.
    - destruct (Nil eq_refl) as (t & -> & V & T & [B O] & C). cbn [snd]. simpl lenN.
      destruct (N.leb_spec need 0); [lia|]. simpl. exists t. split; [reflexivity | exact O].
    - destruct (Dat ltac:(discriminate)) as (bs & t & Z & L & A & V & [B O] & C & ->).
      assert (Hlen : (length (src_data (s_src t)) < f)%nat).
      { apply (f_equal (@length _)) in A. rewrite app_length in A. simpl in *.
        destruct bs; [congruence|]. simpl in A. lia. }
      rewrite A, lenN_app.
      destruct (N.ltb_spec maxdoc (s_cnt s + lenN bs)) as [Hover|Hfit].
      + (* over the limit already *)
        replace ((need <=? lenN bs + lenN (src_data (s_src t))) && (s_cnt s + need <=? maxdoc)) with false
          by (symmetry; apply andb_false_iff; right; apply N.leb_gt; lia).
        exists t. split; [reflexivity | exact O].
      + cbn [fst snd]. destruct (N.leb_spec need (lenN bs)) as [Hfull|Hpart].
        * assert (lenN bs = need) by lia. subst need.
          destruct (N.leb_spec (lenN bs) (lenN bs + lenN (src_data (s_src t)))); [|lia].
          destruct (N.leb_spec (s_cnt s + lenN bs) maxdoc); [|lia]. simpl.
          exists t. rewrite takeN_app_exact, dropN_app_exact. unfold same_regs. auto 10.
        * specialize (IH (need - lenN bs) t ltac:(lia) V Hlen). rewrite C in IH.
          replace ((need <=? lenN bs + lenN (src_data (s_src t))) && (s_cnt s + need <=? maxdoc))
            with ((need - lenN bs <=? lenN (src_data (s_src t))) && (s_cnt s + lenN bs + (need - lenN bs) <=? maxdoc)).
          2:{ f_equal.
              - destruct (N.leb_spec (need - lenN bs) (lenN (src_data (s_src t)))),
                         (N.leb_spec need (lenN bs + lenN (src_data (s_src t)))); try reflexivity; lia.
              - f_equal. lia. }
          unfold bind.
          destruct ((need - lenN bs <=? lenN (src_data (s_src t))) &&
                    (s_cnt s + lenN bs + (need - lenN bs) <=? maxdoc)).
          -- destruct IH as (t' & -> & V' & D' & [B' O'] & C'). simpl.
             exists t'. rewrite takeN_app_more, dropN_app_more by lia.
             unfold same_regs. split; [reflexivity|]. split; [exact V'|]. split; [exact D'|].
             split; [split; congruence | lia].
          -- destruct IH as (t' & -> & O'). exists t'. split; [reflexivity | congruence].
  Qed.

  Definition fill_tail (at0 : bool) (bs : bytes) : M bytes :=
    bind (if at0 then match bs with x :: _ => set_b0 x | [] => ret tt end else ret tt) (fun _ => ret bs).

  Lemma fill_eq at0 need s :
    need <> 0 ->
    fill maxdoc at0 need s =
    match fill_loop maxdoc (dec_fuel (s_src s)) need s with
    | Ret bs s' => fill_tail at0 bs s'
    | Fail s' => Fail s'
    | Stuck => Stuck
    end.
  Proof.
    intro Hn. unfold fill. apply N.eqb_neq in Hn. rewrite Hn. reflexivity.
  Qed.

  Lemma sim_fill_tail at0 bs : sim (fill_tail at0 bs).
  Proof.
    unfold fill_tail. apply sim_bind; [|intros; apply sim_ret].
    destruct at0; [|apply sim_ret]. destruct bs; [apply sim_ret | apply sim_set_b0].
  Qed.

  Lemma sim_fill at0 need : sim (fill maxdoc at0 need).
  Proof.
    intros s1 s2 (W1 & W2 & H3 & H4 & H5 & H6).
    destruct (N.eqb_spec need 0) as [->|Hn].
    - simpl. split; [reflexivity|]. unfold Rst. auto 10.
    - rewrite !fill_eq by exact Hn.
      pose proof (fill_loop_spec (dec_fuel (s_src s1)) need s1 ltac:(lia) W1
                    ltac:(unfold dec_fuel; lia)) as F1.
      pose proof (fill_loop_spec (dec_fuel (s_src s2)) need s2 ltac:(lia) W2
                    ltac:(unfold dec_fuel; lia)) as F2.
      rewrite <- H3, <- H5 in F2.
      destruct ((need <=? lenN (src_data (s_src s1))) && (s_cnt s1 + need <=? maxdoc)).
      + destruct F1 as (t1 & E1 & V1 & D1 & [B1 O1] & C1), F2 as (t2 & E2 & V2 & D2 & [B2 O2] & C2).
        rewrite E1, E2. apply sim_fill_tail.
        unfold Rst. rewrite D1, D2, B1, B2, O1, O2, C1, C2, H3, H4, H5, H6. auto 10.
      + destruct F1 as (t1 & E1 & O1), F2 as (t2 & E2 & O2). rewrite E1, E2. simpl. congruence.
  Qed.
  (* ---- readIntoBuffer with the growing buffer ---- *)

  Lemma rib_loop_S f count filled blen acc s :
    rib_loop maxdoc (S f) count filled blen acc s =
    if count <=? filled then Ret (acc, blen) s
    else
      let blen' := if filled =? blen then grow_buffer blen count else blen in
      match nrd maxdoc (N.min blen' count - filled) s with
      | Ret r s' =>
          (if snd r then fail
           else rib_loop maxdoc f count (filled + lenN (fst r)) blen' (acc ++ fst r)) s'
      | Fail s' => Fail s'
      | Stuck => Stuck
      end.
  Proof. cbn [rib_loop]. destruct (count <=? filled); reflexivity. Qed.

  (* the capacity of each Read is at least 1 and stays inside the buffer and the field *)
  Lemma rib_cap count filled blen :
    filled < count -> filled <= blen ->
    let blen' := if filled =? blen then grow_buffer blen count else blen in
    1 <= N.min blen' count - filled /\ filled + (N.min blen' count - filled) <= blen' /\
    filled + (N.min blen' count - filled) <= count.
  Proof.
    intros H1 H2. unfold grow_buffer, start_buffer. destruct (N.eqb_spec filled blen); cbv zeta; lia.
  Qed.

  (* in terms of the data and the byte budget alone: the buffer length does not matter *)
  Lemma rib_spec fuel : forall count filled blen acc s,
    wf_st s -> (length (src_data (s_src s)) < fuel)%nat ->
    (count <= filled -> rib_loop maxdoc fuel count filled blen acc s = Ret (acc, blen) s) /\
    (filled < count -> filled <= blen ->
       if (count - filled <=? lenN (src_data (s_src s))) && (s_cnt s + (count - filled) <=? maxdoc) then
         exists s' bl,
           rib_loop maxdoc fuel count filled blen acc s
             = Ret (acc ++ takeN (count - filled) (src_data (s_src s)), bl) s' /\
           wf_st s' /\ src_data (s_src s') = dropN (count - filled) (src_data (s_src s)) /\
           same_regs s s' /\ s_cnt s' = s_cnt s + (count - filled)
       else exists s', rib_loop maxdoc fuel count filled blen acc s = Fail s' /\ s_out s' = s_out s).
  Proof.
    induction fuel as [|f IH]; intros count filled blen acc s Hw Hf; [lia|].
    rewrite rib_loop_S. split.
    - intro H. destruct (N.leb_spec count filled); [reflexivity | lia].
    - intros Hlt Hbl. destruct (N.leb_spec count filled); [lia|].
      destruct (rib_cap count filled blen Hlt Hbl) as (C1 & C2 & C3). cbv zeta.
      set (blen' := if filled =? blen then grow_buffer blen count else blen) in *.
      set (cap := N.min blen' count - filled) in *.
      destruct (nrd_spec maxdoc cap s C1 Hw) as [Nil Dat].
      destruct (src_data (s_src s)) as [|x d] eqn:E.
      + destruct (Nil eq_refl) as (t & -> & V & T & [B O] & C). cbn [snd]. simpl lenN.
        destruct (N.leb_spec (count - filled) 0); [lia|]. simpl. exists t. split; [reflexivity | exact O].
      + destruct (Dat ltac:(discriminate)) as (bs & t & Z & L & A & V & [B O] & C & ->).
        assert (Hlen : (length (src_data (s_src t)) < f)%nat).
        { apply (f_equal (@length _)) in A. rewrite app_length in A. simpl in *.
          destruct bs; [congruence|]. simpl in A. lia. }
        rewrite A, lenN_app.
        destruct (N.ltb_spec maxdoc (s_cnt s + lenN bs)) as [Hover|Hfit].
        * replace ((count - filled <=? lenN bs + lenN (src_data (s_src t))) && (s_cnt s + (count - filled) <=? maxdoc))
            with false by (symmetry; apply andb_false_iff; right; apply N.leb_gt; lia).
          exists t. split; [reflexivity | exact O].
        * cbn [fst snd]. destruct (IH count (filled + lenN bs) blen' (acc ++ bs) t V Hlen) as [IH1 IH2].
          destruct (N.eq_dec (filled + lenN bs) count) as [Heq|Hne].
          -- (* the field is complete *)
             rewrite (IH1 ltac:(lia)).
             assert (Hn : count - filled = lenN bs) by lia. rewrite Hn.
             destruct (N.leb_spec (lenN bs) (lenN bs + lenN (src_data (s_src t)))); [|lia].
             destruct (N.leb_spec (s_cnt s + lenN bs) maxdoc); [|lia]. simpl.
             exists t, blen'. rewrite takeN_app_exact, dropN_app_exact. unfold same_regs. auto 10.
          -- specialize (IH2 ltac:(lia) ltac:(lia)). rewrite C in IH2.
             replace ((count - filled <=? lenN bs + lenN (src_data (s_src t))) && (s_cnt s + (count - filled) <=? maxdoc))
               with ((count - (filled + lenN bs) <=? lenN (src_data (s_src t))) &&
                     (s_cnt s + lenN bs + (count - (filled + lenN bs)) <=? maxdoc)).
             2:{ f_equal.
                 - destruct (N.leb_spec (count - (filled + lenN bs)) (lenN (src_data (s_src t)))),
                            (N.leb_spec (count - filled) (lenN bs + lenN (src_data (s_src t)))); try reflexivity; lia.
                 - f_equal. lia. }
             destruct ((count - (filled + lenN bs) <=? lenN (src_data (s_src t))) &&
                       (s_cnt s + lenN bs + (count - (filled + lenN bs)) <=? maxdoc)).
             ++ destruct IH2 as (t' & bl & -> & V' & D' & [B' O'] & C').
                exists t', bl. rewrite takeN_app_more, dropN_app_more by lia.
                replace (count - filled - lenN bs) with (count - (filled + lenN bs)) by lia.
                rewrite <- app_assoc. unfold same_regs.
                split; [reflexivity|]. split; [exact V'|]. split; [exact D'|].
                split; [split; congruence | lia].
             ++ destruct IH2 as (t' & -> & O'). exists t'. split; [reflexivity | congruence].
  Qed.

  Definition rb_tail (r : bytes * N) : M bytes :=
    bind (set_blen (snd r)) (fun _ =>
    bind (match fst r with x :: _ => set_b0 x | [] => ret tt end) (fun _ => ret (fst r))).

  Lemma read_bytes_eq n s :
    n <> 0 ->
    read_bytes maxdoc n s =
    match rib_loop maxdoc (dec_fuel (s_src s)) n 0 (s_blen s) [] s with
    | Ret r s' => rb_tail r s'
    | Fail s' => Fail s'
    | Stuck => Stuck
    end.
  Proof. intro Hn. unfold read_bytes. apply N.eqb_neq in Hn. rewrite Hn. reflexivity. Qed.

  Lemma sim_set_blen_any n1 n2 s1 s2 : Rst s1 s2 -> res_rel (set_blen n1 s1) (set_blen n2 s2).
  Proof.
    intros (H1 & H2 & H3 & H4 & H5 & H6). simpl. split; [reflexivity|].
    unfold Rst, wf_st in *; simpl. repeat split; tauto.
  Qed.

  (* the buffer lengths of the two runs are not related (they are in fact equal, but nothing
     observable depends on them), so the tail is compared by hand *)
  Lemma sim_rb_tail bs bl1 bl2 s1 s2 : Rst s1 s2 -> res_rel (rb_tail (bs, bl1) s1) (rb_tail (bs, bl2) s2).
  Proof.
    intro R. unfold rb_tail, bind at 1 3. cbn [fst snd].
    pose proof (sim_set_blen_any bl1 bl2 s1 s2 R) as S.
    destruct (set_blen bl1 s1) as [u1 t1|t1|] eqn:E1, (set_blen bl2 s2) as [u2 t2|t2|] eqn:E2;
      simpl in S; try contradiction; try discriminate.
    destruct S as [_ R']. revert R'. apply sim_bind; [|intros; apply sim_ret].
    destruct bs; [apply sim_ret | apply sim_set_b0].
  Qed.

  Lemma sim_read_bytes n : sim (read_bytes maxdoc n).
  Proof.
    intros s1 s2 R. pose proof R as (W1 & W2 & H3 & H4 & H5 & H6).
    destruct (N.eqb_spec n 0) as [->|Hn].
    - simpl. split; [reflexivity | exact R].
    - rewrite !read_bytes_eq by exact Hn.
      destruct (rib_spec (dec_fuel (s_src s1)) n 0 (s_blen s1) [] s1 W1 ltac:(unfold dec_fuel; lia)) as [_ F1].
      destruct (rib_spec (dec_fuel (s_src s2)) n 0 (s_blen s2) [] s2 W2 ltac:(unfold dec_fuel; lia)) as [_ F2].
      specialize (F1 ltac:(lia) ltac:(lia)). specialize (F2 ltac:(lia) ltac:(lia)).
      rewrite <- H3, <- H5 in F2. rewrite N.sub_0_r in F1, F2.
      destruct ((n <=? lenN (src_data (s_src s1))) && (s_cnt s1 + n <=? maxdoc)).
      + destruct F1 as (t1 & bl1 & E1 & V1 & D1 & [B1 O1] & C1), F2 as (t2 & bl2 & E2 & V2 & D2 & [B2 O2] & C2).
        rewrite E1, E2. apply sim_rb_tail.
        unfold Rst. rewrite D1, D2, B1, B2, O1, O2, C1, C2, H3, H4, H5, H6. auto 10.
      + destruct F1 as (t1 & E1 & O1), F2 as (t2 & E2 & O2). rewrite E1, E2. simpl. congruence.
  Qed.
End SimPrims.

#[export] Hint Resolve sim_ret sim_fail sim_stuck sim_emit sim_ev sim_get_b0 sim_set_b0 sim_get_fuel
  sim_nrd1 sim_fill sim_read_bytes : simdb.

Ltac sim_go :=
  repeat first
    [ solve [auto 2 with simdb]
    | apply sim_bind; [ | intros ]
    | match goal with |- sim (if ?c then _ else _) => destruct c end
    | match goal with |- sim (match ?x with _ => _ end) => destruct x end
    | match goal with |- sim (let '(_, _) := ?p in _) => destruct p end ].

Section Sims.
  Variable maxdoc : N.

  Lemma sim_rd1 : sim (rd1 maxdoc).
  Proof. unfold rd1. sim_go. Qed.
  Hint Resolve sim_rd1 : simdb.

  Lemma sim_read_u8 : sim (read_u8 maxdoc).
  Proof. unfold read_u8. sim_go. Qed.

  Lemma sim_read_type_or_eof : sim (read_type_or_eof maxdoc).
  Proof. unfold read_type_or_eof. sim_go. Qed.

  Lemma sim_uleb_loop fuel : forall acc shift k, sim (uleb_loop maxdoc fuel acc shift k).
  Proof.
    induction fuel as [|f IH]; intros acc shift k; simpl; [apply sim_stuck|].
    sim_go; try apply IH.
  Qed.

  Lemma sim_uleb : sim (uleb maxdoc).
  Proof. unfold uleb. sim_go; try apply sim_uleb_loop. Qed.

  Hint Resolve sim_read_u8 sim_read_type_or_eof sim_uleb : simdb.

  Lemma sim_small_uleb maxv : sim (small_uleb maxdoc maxv).
  Proof. unfold small_uleb. sim_go. Qed.
  Hint Resolve sim_small_uleb : simdb.

  Lemma sim_read_identifier : sim (read_identifier maxdoc).
  Proof. unfold read_identifier. sim_go. Qed.

  Lemma sim_read_uint : sim (read_uint maxdoc).
  Proof. unfold read_uint. sim_go. Qed.

  Lemma sim_read_decimal : sim (read_decimal maxdoc).
  Proof. unfold read_decimal. sim_go. Qed.

  Lemma sim_deliver_time t : sim (deliver_time t).
  Proof. unfold deliver_time. sim_go. Qed.
  Hint Resolve sim_deliver_time : simdb.

  Lemma sim_read_timezone : sim (read_timezone maxdoc).
  Proof. unfold read_timezone. sim_go. Qed.
  Hint Resolve sim_read_identifier sim_read_uint sim_read_decimal sim_read_timezone : simdb.

  Lemma sim_read_date : sim (read_date maxdoc).
  Proof. unfold read_date. sim_go. Qed.

  Lemma sim_read_time : sim (read_time maxdoc).
  Proof. unfold read_time. sim_go. Qed.

  Lemma sim_read_timestamp : sim (read_timestamp maxdoc).
  Proof. unfold read_timestamp. sim_go. Qed.
  Hint Resolve sim_read_date sim_read_time sim_read_timestamp : simdb.

  Lemma sim_chunks fuel : forall width, sim (chunks maxdoc fuel width).
  Proof.
    induction fuel as [|f IH]; intro width; simpl; [apply sim_stuck|].
    sim_go; try apply IH.
  Qed.
  Hint Resolve sim_chunks : simdb.

  Lemma sim_decode_array fuel t : sim (decode_array maxdoc fuel t).
  Proof. unfold decode_array. sim_go. Qed.

  Lemma sim_decode_media fuel : sim (decode_media maxdoc fuel).
  Proof. unfold decode_media. sim_go. Qed.

  Lemma sim_decode_custom fuel : sim (decode_custom maxdoc fuel).
  Proof. unfold decode_custom. sim_go. Qed.

  Lemma sim_short_array t sz cnt : sim (short_array maxdoc t sz cnt).
  Proof. unfold short_array. sim_go. Qed.
  Hint Resolve sim_decode_array sim_decode_media sim_decode_custom sim_short_array : simdb.

  Lemma sim_decode_plane7f fuel : sim (decode_plane7f maxdoc fuel).
  Proof. unfold decode_plane7f. sim_go. Qed.

  Lemma sim_int_event neg v : sim (int_event neg v).
  Proof. unfold int_event. sim_go. Qed.
  Hint Resolve sim_decode_plane7f sim_int_event : simdb.

  Lemma sim_decode_token fuel t : sim (decode_token maxdoc fuel t).
  Proof. unfold decode_token. sim_go. Qed.
  Hint Resolve sim_decode_token : simdb.

  Lemma sim_main_loop fuel : sim (main_loop maxdoc fuel).
  Proof.
    induction fuel as [|f IH]; simpl; [apply sim_stuck|].
    sim_go; try exact IH.
  Qed.
  Hint Resolve sim_main_loop : simdb.

  Lemma sim_decode_doc fuel : sim (decode_doc maxdoc fuel).
  Proof. unfold decode_doc. sim_go. Qed.

  (* Two readers holding the same bytes: same events, same error-or-not. *)
  Lemma cbe_decode_src_wf s1 s2 :
    wf_src s1 -> wf_src s2 -> src_data s1 = src_data s2 ->
    cbe_decode_src maxdoc s1 = cbe_decode_src maxdoc s2.
  Proof.
    intros H1 H2 H3. unfold cbe_decode_src.
    replace (dec_fuel s1) with (dec_fuel s2) by (unfold dec_fuel; now rewrite H3).
    assert (R : Rst (mkst s1 false 0 start_buffer 0 []) (mkst s2 false 0 start_buffer 0 [])).
    { unfold Rst, wf_st; simpl. repeat split; auto; discriminate. }
    pose proof (sim_decode_doc (dec_fuel s2) _ _ R) as S.
    destruct (decode_doc maxdoc (dec_fuel s2) (mkst s1 false 0 start_buffer 0 [])) as [a t1|t1|],
             (decode_doc maxdoc (dec_fuel s2) (mkst s2 false 0 start_buffer 0 [])) as [b t2|t2|];
      simpl in S; try contradiction; simpl.
    - destruct S as [_ (_ & _ & _ & _ & _ & ->)]. reflexivity.
    - now rewrite S.
    - reflexivity.
  Qed.
End Sims.

Lemma mem_script_wf d : eof_last (mem_script d) = true.
Proof. destruct d; reflexivity. Qed.

Lemma mem_script_data d : script_data (mem_script d) = d.
Proof. destruct d; [reflexivity|]. unfold script_data; simpl. now rewrite app_nil_r. Qed.

(* stream_eq_memory *)
Theorem decode_stream_all maxdoc sc d :
  eof_last sc = true -> script_data sc = d ->
  decode_stream maxdoc sc = decode_mem maxdoc d.
Proof.
  intros Hg Hd. unfold decode_mem, decode_stream. apply cbe_decode_src_wf.
  - exact Hg.
  - apply mem_script_wf.
  - cbn [src_data]. now rewrite mem_script_data.
Qed.

(* ------------------------------------------------------------------ *)
(* entry points                                                         *)
(* ------------------------------------------------------------------ *)

Lemma peek_fill_spec tries : forall sc,
  eof_last sc = true -> (script_zeros sc < tries)%nat ->
  exists bs e sc', peek_fill tries sc = Some (bs, e, sc') /\
    script_data sc = bs ++ script_data sc' /\ eof_last sc' = true /\
    (e = true -> script_data sc' = []) /\ (bs = [] -> e = true).
Proof.
  induction tries as [|k IH]; intros sc Hw Hz; [lia|]. simpl.
  assert (H1 : 1 <= bufio_size) by (unfold bufio_size; lia).
  pose proof (rd_script_gen bufio_size sc H1) as G. pose proof (rd_script_wf bufio_size sc Hw) as W.
  destruct (rd_script bufio_size sc) as [[bs e] sc']. destruct G as (Hd & Hzz & _ & Hp), W as (W1 & W2).
  destruct e.
  - exists bs, true, sc'. auto 10.
  - destruct bs as [|x bs].
    + specialize (Hp eq_refl eq_refl). destruct (IH sc' W1 ltac:(lia)) as (bs2 & e2 & sc2 & -> & D2 & R).
      exists bs2, e2, sc2. split; [reflexivity|]. split; [now rewrite Hd|exact R].
    + exists (x :: bs), false, sc'. repeat split; auto; discriminate.
Qed.

Lemma peek_init_spec sc :
  eof_last sc = true -> (script_zeros sc < 100)%nat ->
  match peek_init sc with
  | None => script_data sc = []
  | Some s => wf_src s /\ src_data s = script_data sc /\ script_data sc <> []
  end.
Proof.
  intros Hw Hz. unfold peek_init.
  destruct (peek_fill_spec 100 sc Hw Hz) as (bs & e & sc' & -> & Hd & W1 & W2 & Hn).
  destruct bs as [|x bs].
  - rewrite Hd, (W2 (Hn eq_refl)). reflexivity.
  - simpl. repeat split; auto. rewrite Hd. discriminate.
Qed.

Section EntryProofs.
  Context {R : Type}.
  Variable maxdoc : N.
  Variable cte_parse : bytes -> outcome R.
  Variable cbe_build : result -> outcome R.

  Theorem cte_stream_all sc d :
    eof_last sc = true -> script_data sc = d ->
    cte_stream cte_parse sc = cte_mem cte_parse d.
  Proof.
    intros Hw Hd. unfold cte_stream, cte_src, cte_mem.
    rewrite (copy_all_wf (Direct sc) Hw). simpl. now rewrite Hd.
  Qed.

  Theorem cbe_stream_all sc d :
    eof_last sc = true -> script_data sc = d ->
    cbe_stream maxdoc cbe_build sc = cbe_mem maxdoc cbe_build d.
  Proof.
    intros Hg Hd. unfold cbe_stream, cbe_mem. now rewrite (decode_stream_all maxdoc sc d Hg Hd).
  Qed.

  Theorem ce_stream_all sc d :
    eof_last sc = true -> (script_zeros sc < 100)%nat -> script_data sc = d ->
    ce_stream maxdoc cte_parse cbe_build sc = ce_mem maxdoc cte_parse cbe_build d.
  Proof.
    intros Hw Hz Hd. unfold ce_stream, ce_mem. pose proof (peek_init_spec sc Hw Hz) as P.
    destruct (peek_init sc) as [s|].
    - destruct P as (W & D & Hne). rewrite D, Hd. destruct d as [|b d]; [congruence|].
      destruct ((b =? 99) || (b =? 67)).
      + unfold cte_src, cte_mem. rewrite (copy_all_wf s W), D, Hd. reflexivity.
      + destruct (b =? 129); [|reflexivity].
        unfold cbe_mem, decode_mem, decode_stream. f_equal.
        apply cbe_decode_src_wf.
        * exact W.
        * apply mem_script_wf.
        * cbn [src_data]. rewrite mem_script_data, D, Hd. reflexivity.
    - rewrite <- Hd, P. reflexivity.
  Qed.
End EntryProofs.

(* the exclusion of ce_stream_all is real: 100 empty reads in front make
   bufio.Reader.Peek give up, while the CBE entry point reads on *)
Lemma ce_zero_reads_refuted :
  let sc := repeat (([] : bytes), false) 100 ++ [([129; 0; 1], false)] in
  script_wf sc = true /\ script_data sc = [129; 0; 1] /\ peek_init sc = None /\
  snd (decode_stream 5368709120 sc) = SOk.
Proof. vm_compute. auto. Qed.

(* ------------------------------------------------------------------ *)
(* statements as used by Props/C28.v                                    *)
(* ------------------------------------------------------------------ *)

Lemma delivers_eof_last sc d : delivers sc d -> eof_last sc = true.
Proof. intros [H _]. unfold script_wf in H. now apply andb_true_iff in H as [H _]. Qed.

Lemma stream_eq_memory :
  forall maxdoc sc d, delivers sc d -> decode_stream maxdoc sc = decode_mem maxdoc d.
Proof. intros maxdoc sc d H. apply decode_stream_all; [now apply (delivers_eof_last sc d) | apply H]. Qed.

Lemma cte_stream_eq_memory :
  forall (R : Type) (cte_parse : bytes -> outcome R) sc d,
    delivers sc d -> cte_stream cte_parse sc = cte_mem cte_parse d.
Proof.
  intros R cte_parse sc d H. apply cte_stream_all; [now apply (delivers_eof_last sc d) | apply H].
Qed.

Lemma ce_stream_eq_memory_partial :
  forall (R : Type) maxdoc (cte_parse : bytes -> outcome R) (cbe_build : result -> outcome R) sc d,
    delivers sc d -> (script_zeros sc < 100)%nat ->
    ce_stream maxdoc cte_parse cbe_build sc = ce_mem maxdoc cte_parse cbe_build d.
Proof.
  intros R maxdoc cte_parse cbe_build sc d H Hz.
  apply ce_stream_all; [now apply (delivers_eof_last sc d) | exact Hz | apply H].
Qed.

Lemma ce_stream_zero_reads_refuted :
  exists sc d, delivers sc d /\ (script_zeros sc = 100)%nat /\
    ce_stream 5368709120 (fun _ => Err) (fun r : result => Ok r) sc
    <> ce_mem 5368709120 (fun _ => Err) (fun r : result => Ok r) d.
Proof.
  exists (repeat (([] : bytes), false) 100 ++ [([129; 0; 1], false)]), [129; 0; 1].
  split; [split; vm_compute; reflexivity|]. split; [vm_compute; reflexivity|].
  vm_compute. discriminate.
Qed.

(* ------------------------------------------------------------------ *)
(* the fuel is never exhausted (any source, well-formed or not)         *)
(* ------------------------------------------------------------------ *)

Definition smu (s : rstate) : nat := length (src_data (s_src s)).

(* below the bound n: no Stuck, and the data left does not grow (P) / shrinks (Q) *)
Definition P (n : nat) {A} (m : M A) : Prop :=
  forall s, (smu s < n)%nat ->
    match m s with Ret _ s' => (smu s' <= smu s)%nat | Fail _ => True | Stuck => False end.
Definition Q (n : nat) {A} (m : M A) : Prop :=
  forall s, (smu s < n)%nat ->
    match m s with Ret _ s' => (smu s' < smu s)%nat | Fail _ => True | Stuck => False end.

Lemma Q_P n {A} (m : M A) : Q n m -> P n m.
Proof. intros H s Hs. specialize (H s Hs). destruct (m s); auto. lia. Qed.

Lemma P_ret n {A} (a : A) : P n (ret a).
Proof. intros s _. simpl. lia. Qed.
Lemma P_fail n {A} : P n (@fail A).
Proof. intros s _. exact I. Qed.
Lemma P_emit n t : P n (emit t).
Proof. intros s _. unfold emit, smu. simpl. lia. Qed.
Lemma P_ev n e : P n (ev e).
Proof. apply P_emit. Qed.
Lemma P_get_b0 n : P n get_b0.
Proof. intros s _. simpl. lia. Qed.
Lemma P_set_b0 n x : P n (set_b0 x).
Proof. intros s _. unfold set_b0, smu. simpl. lia. Qed.
Lemma P_get_fuel n : P n get_fuel.
Proof. intros s _. simpl. lia. Qed.

Lemma P_bind n {A B} (m : M A) (f : A -> M B) :
  P n m -> (forall a, P n (f a)) -> P n (bind m f).
Proof.
  intros Hm Hf s Hs. unfold bind. specialize (Hm s Hs).
  destruct (m s) as [a s'|s'|]; auto.
  specialize (Hf a s' ltac:(lia)). destruct (f a s'); auto. lia.
Qed.

Lemma Q_bind_l n {A B} (m : M A) (f : A -> M B) :
  Q n m -> (forall a, P n (f a)) -> Q n (bind m f).
Proof.
  intros Hm Hf s Hs. unfold bind. specialize (Hm s Hs).
  destruct (m s) as [a s'|s'|]; auto.
  specialize (Hf a s' ltac:(lia)). destruct (f a s'); auto. lia.
Qed.

(* a loop body: the head makes progress, the rest runs with one unit less *)
Lemma P_step n {A B} (m : M A) (f : A -> M B) :
  Q (S n) m -> (forall a, P n (f a)) -> P (S n) (bind m f).
Proof.
  intros Hm Hf s Hs. unfold bind. specialize (Hm s Hs).
  destruct (m s) as [a s'|s'|]; auto.
  specialize (Hf a s' ltac:(lia)). destruct (f a s'); auto. lia.
Qed.

Section NoHang.
  Variable maxdoc : N.

  (* Reader.Read on any source: never stuck; bytes come off the front of the
     data; an empty result means io.EOF *)
  Lemma nrd_total cap s :
    1 <= cap ->
    match nrd maxdoc cap s with
    | Ret (bs, e) s' => src_data (s_src s) = bs ++ src_data (s_src s') /\ (bs = [] <-> e = true) /\ lenN bs <= cap
    | Fail _ => True
    | Stuck => False
    end.
  Proof.
    intro Hcap. unfold nrd. destruct (s_pend s).
    - split; [reflexivity | split; [tauto | simpl; lia]].
    - destruct (skip_zeros_spec (S (src_zeros (s_src s))) cap (s_src s) Hcap ltac:(lia))
        as (bs & e & s' & -> & Hd & Hl & Hn & _).
      destruct bs as [|x bs].
      + simpl. split; [exact Hd | split; [tauto | lia]].
      + destruct (maxdoc <? s_cnt s + lenN (x :: bs)); [exact I|]. simpl.
        split; [exact Hd|]. split; [split; discriminate | exact Hl].
  Qed.

  Lemma rd1_spec s :
    match rd1 maxdoc s with
    | Ret r s' => (smu s' <= smu s)%nat /\ (fst r = true \/ snd r = false -> (smu s' < smu s)%nat)
    | Fail _ => True
    | Stuck => False
    end.
  Proof.
    unfold rd1, bind. pose proof (nrd_total 1 s ltac:(lia)) as H.
    destruct (nrd maxdoc 1 s) as [[bs e] s'|s'|]; auto. destruct H as (Hd & He & _). cbn [fst snd].
    destruct bs as [|x bs].
    - simpl. unfold smu. rewrite Hd. simpl. split; [lia|].
      intros [Hx|Hx]; [discriminate|]. destruct He as [He _]. rewrite (He eq_refl) in Hx. discriminate.
    - unfold bind, set_b0, ret. simpl. unfold smu; simpl. rewrite Hd. simpl. rewrite app_length. lia.
  Qed.

  Lemma P_rd1 n : P n (rd1 maxdoc).
  Proof. intros s _. pose proof (rd1_spec s) as H. destruct (rd1 maxdoc s); auto. apply H. Qed.

  (* r <- read ;; if io.EOF then fail else ...: success means progress *)
  Lemma Q_rd1_guard n {B} (k : bool * bool -> M B) :
    (forall r, P n (k r)) -> Q n (bind (rd1 maxdoc) (fun r => if snd r then fail else k r)).
  Proof.
    intros Hk s Hs. unfold bind. pose proof (rd1_spec s) as H.
    destruct (rd1 maxdoc s) as [[g e] s'|s'|]; auto. simpl in *. destruct H as [H1 H2].
    destruct e; [exact I|]. specialize (H2 (or_intror eq_refl)).
    specialize (Hk (g, false) s' ltac:(lia)). destruct (k (g, false) s'); auto. lia.
  Qed.

  Lemma P_fill_loop f : forall need, 1 <= need -> P f (fill_loop maxdoc f need).
  Proof.
    induction f as [|f IH]; intros need Hn s Hs; [lia|].
    rewrite fill_loop_S. pose proof (nrd_total need s Hn) as H.
    destruct (nrd maxdoc need s) as [[bs e] s'|s'|]; auto. destruct H as (Hd & He & _). cbn [fst snd].
    destruct e; [exact I|].
    assert (Hb : bs <> []) by (intro E; apply He in E; discriminate).
    assert (Hlt : (smu s' < smu s)%nat).
    { unfold smu. rewrite Hd, app_length. destruct bs; [congruence|]. simpl. lia. }
    destruct (N.leb_spec need (lenN bs)); [simpl; lia|].
    unfold bind. specialize (IH (need - lenN bs) ltac:(lia) s' ltac:(lia)).
    destruct (fill_loop maxdoc f (need - lenN bs) s') as [more s''|s''|]; auto. simpl. lia.
  Qed.

  Lemma P_fill_tail n at0 bs : P n (fill_tail at0 bs).
  Proof.
    unfold fill_tail. apply P_bind; [|intros; apply P_ret].
    destruct at0; [|apply P_ret]. destruct bs; [apply P_ret | apply P_set_b0].
  Qed.

  Lemma P_fill n at0 need : P n (fill maxdoc at0 need).
  Proof.
    intros s Hs. destruct (N.eqb_spec need 0) as [->|Hn]; [simpl; lia|].
    rewrite fill_eq by exact Hn.
    pose proof (P_fill_loop (dec_fuel (s_src s)) need ltac:(lia) s ltac:(unfold smu, dec_fuel; lia)) as H.
    destruct (fill_loop maxdoc (dec_fuel (s_src s)) need s) as [bs s'|s'|]; auto.
    pose proof (P_fill_tail (S (smu s')) at0 bs s' ltac:(lia)) as T.
    destruct (fill_tail at0 bs s'); auto. lia.
  Qed.

  Hint Resolve P_ret P_fail P_emit P_ev P_get_b0 P_set_b0 P_get_fuel P_rd1 P_fill : pdb.

  Ltac p_go :=
    repeat first
      [ solve [auto 2 with pdb]
      | apply P_bind; [ | intros ]
      | match goal with |- P _ (if ?c then _ else _) => destruct c end
      | match goal with |- P _ (match ?x with _ => _ end) => destruct x end
      | match goal with |- P _ (let '(_, _) := ?p in _) => destruct p end ].

  Lemma P_read_u8 n : P n (read_u8 maxdoc).
  Proof. unfold read_u8. p_go. Qed.
  Lemma P_rib_loop f : forall count filled blen acc,
    filled <= blen -> P f (rib_loop maxdoc f count filled blen acc).
  Proof.
    induction f as [|f IH]; intros count filled blen acc Hbl s Hs; [lia|].
    rewrite rib_loop_S. destruct (N.leb_spec count filled); [lia|].
    destruct (rib_cap count filled blen ltac:(lia) Hbl) as (C1 & C2 & C3). cbv zeta.
    set (blen' := if filled =? blen then grow_buffer blen count else blen) in *.
    pose proof (nrd_total (N.min blen' count - filled) s C1) as H0.
    destruct (nrd maxdoc (N.min blen' count - filled) s) as [[bs e] s'|s'|]; auto.
    destruct H0 as (Hd & He & Hl). cbn [fst snd]. destruct e; [exact I|].
    assert (Hb : bs <> []) by (intro E; apply He in E; discriminate).
    assert (Hlt : (smu s' < smu s)%nat).
    { unfold smu. rewrite Hd, app_length. destruct bs; [congruence|]. simpl. lia. }
    specialize (IH count (filled + lenN bs) blen' (acc ++ bs) ltac:(lia) s' ltac:(lia)).
    destruct (rib_loop maxdoc f count (filled + lenN bs) blen' (acc ++ bs) s'); auto. lia.
  Qed.

  Lemma P_get_blen n : P n get_blen.
  Proof. intros s _. simpl. lia. Qed.
  Lemma P_set_blen n k : P n (set_blen k).
  Proof. intros s _. unfold set_blen, smu. simpl. lia. Qed.

  Lemma P_rb_tail n r : P n (rb_tail r).
  Proof.
    unfold rb_tail. apply P_bind; [apply P_set_blen|]. intros _.
    apply P_bind; [|intros; apply P_ret]. destruct (fst r); [apply P_ret | apply P_set_b0].
  Qed.

  Lemma P_read_bytes n k : P n (read_bytes maxdoc k).
  Proof.
    intros s Hs. destruct (N.eqb_spec k 0) as [->|Hn]; [simpl; lia|].
    rewrite read_bytes_eq by exact Hn.
    pose proof (P_rib_loop (dec_fuel (s_src s)) k 0 (s_blen s) [] ltac:(lia) s
                  ltac:(unfold smu, dec_fuel; lia)) as H.
    destruct (rib_loop maxdoc (dec_fuel (s_src s)) k 0 (s_blen s) [] s) as [r s'|s'|]; auto.
    pose proof (P_rb_tail (S (smu s')) r s' ltac:(lia)) as T.
    destruct (rb_tail r s'); auto. lia.
  Qed.
  Hint Resolve P_read_u8 P_read_bytes : pdb.

  Lemma P_uleb_loop f : forall acc shift k, P f (uleb_loop maxdoc f acc shift k).
  Proof.
    induction f as [|f IH]; intros acc shift k; [intros s Hs; lia|].
    intros s Hs. cbn [uleb_loop]. unfold bind at 1.
    pose proof (rd1_spec s) as H.
    destruct (rd1 maxdoc s) as [[g e] s'|s'|]; auto. cbn [fst snd] in H.
    destruct H as [H1 H2]. destruct g; cbn [fst snd negb].
    - specialize (H2 (or_introl eq_refl)). unfold bind, get_b0.
      destruct (N.testbit (s_b0 s') 7).
      + specialize (IH (acc + N.shiftl (N.land (s_b0 s') 127) shift) (shift + 7) (k + 1) s' ltac:(lia)).
        destruct (uleb_loop maxdoc f _ _ _ s'); auto. lia.
      + destruct e; simpl; auto.
    - destruct e; simpl; auto.
  Qed.

  Lemma P_uleb_tail n acc shift k :
    P n (bind get_fuel (fun fuel => uleb_loop maxdoc fuel acc shift k)).
  Proof.
    intros s _. unfold bind, get_fuel.
    apply (P_uleb_loop (dec_fuel (s_src s))). unfold smu, dec_fuel. lia.
  Qed.
  Hint Resolve P_uleb_tail : pdb.

  Lemma Q_uleb n : Q n (uleb maxdoc).
  Proof. unfold uleb. apply Q_rd1_guard. intro r. p_go. Qed.

  Lemma Q_small_uleb n maxv : Q n (small_uleb maxdoc maxv).
  Proof. unfold small_uleb. apply Q_bind_l; [apply Q_uleb|]. intro u. p_go. Qed.

  Lemma P_uleb n : P n (uleb maxdoc).
  Proof. apply Q_P, Q_uleb. Qed.
  Lemma P_small_uleb n maxv : P n (small_uleb maxdoc maxv).
  Proof. apply Q_P, Q_small_uleb. Qed.
  Hint Resolve P_uleb P_small_uleb : pdb.

  Lemma P_read_identifier n : P n (read_identifier maxdoc).
  Proof. unfold read_identifier. p_go. Qed.
  Lemma P_read_uint n : P n (read_uint maxdoc).
  Proof. unfold read_uint. p_go. Qed.
  Lemma P_read_decimal n : P n (read_decimal maxdoc).
  Proof. unfold read_decimal. p_go. Qed.
  Lemma P_deliver_time n t : P n (deliver_time t).
  Proof. unfold deliver_time. p_go. Qed.
  Hint Resolve P_deliver_time : pdb.
  Lemma P_read_timezone n : P n (read_timezone maxdoc).
  Proof. unfold read_timezone. p_go. Qed.
  Hint Resolve P_read_identifier P_read_uint P_read_decimal P_read_timezone : pdb.
  Lemma P_read_date n : P n (read_date maxdoc).
  Proof. unfold read_date. p_go. Qed.
  Lemma P_read_time n : P n (read_time maxdoc).
  Proof. unfold read_time. p_go. Qed.
  Lemma P_read_timestamp n : P n (read_timestamp maxdoc).
  Proof. unfold read_timestamp. p_go. Qed.
  Hint Resolve P_read_date P_read_time P_read_timestamp : pdb.

  Lemma P_chunks f : forall width, P f (chunks maxdoc f width).
  Proof.
    induction f as [|f IH]; intro width; [intros s Hs; lia|].
    cbn [chunks]. apply P_step; [apply Q_small_uleb|]. intro hdr.
    p_go; try apply IH.
  Qed.
  Hint Resolve P_chunks : pdb.

  Lemma P_decode_array f t : P f (decode_array maxdoc f t).
  Proof. unfold decode_array. p_go. Qed.
  Lemma P_decode_media f : P f (decode_media maxdoc f).
  Proof. unfold decode_media. p_go. Qed.
  Lemma P_decode_custom f : P f (decode_custom maxdoc f).
  Proof. unfold decode_custom. p_go. Qed.
  Lemma P_short_array n t sz cnt : P n (short_array maxdoc t sz cnt).
  Proof. unfold short_array. p_go. Qed.
  Hint Resolve P_decode_array P_decode_media P_decode_custom P_short_array : pdb.
  Lemma P_decode_plane7f f : P f (decode_plane7f maxdoc f).
  Proof. unfold decode_plane7f. p_go. Qed.
  Lemma P_int_event n neg v : P n (int_event neg v).
  Proof. unfold int_event. p_go. Qed.
  Hint Resolve P_decode_plane7f P_int_event : pdb.
  Lemma P_decode_token f t : P f (decode_token maxdoc f t).
  Proof. unfold decode_token. p_go. Qed.

  Lemma rtoe_spec s :
    match read_type_or_eof maxdoc s with
    | Ret None s' => (smu s' <= smu s)%nat
    | Ret (Some _) s' => (smu s' < smu s)%nat
    | Fail _ => True
    | Stuck => False
    end.
  Proof.
    unfold read_type_or_eof, bind. pose proof (rd1_spec s) as H.
    destruct (rd1 maxdoc s) as [[g e] s'|s'|]; auto. cbn [fst snd] in *. destruct H as [H1 H2].
    destruct e; [exact H1|]. unfold get_b0, ret. exact (H2 (or_intror eq_refl)).
  Qed.

  Lemma P_main_loop f : P f (main_loop maxdoc f).
  Proof.
    induction f as [|f IH]; [intros s Hs; lia|].
    intros s Hs. cbn [main_loop]. unfold bind at 1.
    pose proof (rtoe_spec s) as H.
    destruct (read_type_or_eof maxdoc s) as [[t|] s1|s1|]; auto.
    unfold bind. pose proof (P_decode_token f t s1 ltac:(lia)) as T.
    destruct (decode_token maxdoc f t s1) as [u s2|s2|]; auto.
    specialize (IH s2 ltac:(lia)). destruct (main_loop maxdoc f s2); auto. lia.
  Qed.

  Lemma decode_doc_not_stuck s0 :
    decode_doc maxdoc (dec_fuel (s_src s0)) s0 <> Stuck.
  Proof.
    intro E.
    assert (H : P (dec_fuel (s_src s0)) (decode_doc maxdoc (dec_fuel (s_src s0)))).
    { unfold decode_doc. p_go. apply P_main_loop. }
    specialize (H s0 ltac:(unfold smu, dec_fuel; lia)). rewrite E in H. exact H.
  Qed.

  (* no script whatsoever (a reader or not, buffered or not) exhausts the model's fuel *)
  Theorem decode_never_hangs s : snd (cbe_decode_src maxdoc s) <> SHang.
  Proof.
    unfold cbe_decode_src.
    pose proof (decode_doc_not_stuck (mkst s false 0 start_buffer 0 [])) as H.
    simpl in H. destruct (decode_doc maxdoc (dec_fuel s) (mkst s false 0 start_buffer 0 [])); simpl; congruence.
  Qed.
End NoHang.

Lemma stream_never_hangs : forall maxdoc sc, snd (decode_stream maxdoc sc) <> SHang.
Proof. intros maxdoc sc. apply decode_never_hangs. Qed.

Lemma ce_full_refuted :
  ~ (forall (R : Type) maxdoc (cte_parse : bytes -> outcome R) (cbe_build : result -> outcome R) sc d,
       delivers sc d ->
       ce_stream maxdoc cte_parse cbe_build sc = ce_mem maxdoc cte_parse cbe_build d).
Proof.
  intro H. destruct ce_stream_zero_reads_refuted as (sc & d & Hd & _ & Hn). apply Hn, H, Hd.
Qed.
